"""Per-property configuration of bin/check."""

TRUSTED_BASE = [
    "Coq 8.16.1 kernel (coqc); vm_compute used for finite-domain obligations and for evaluating the model on harness cases; no native_compute",
    "no axioms: every property theorem prints 'Closed under the global context'",
    "translator /verif/gen (Go AST -> Gallina, integer subset with explicit 64-bit wrap); fails loudly outside its subset",
    "Go correspondence harness /verif/go (mock objects, projection of observables) and bin/check",
]

PROPS = {
    "C03": {
        "props": "Props/C03.v",
        "models": ["Model/Pipeline.v", "Model/Dispatch.v", "Model/PipeCheck.v"],
        "harness": "h_pipe",
        "results": ["R"],
        "text": "Coq theorems in two layers. (1) The doubly linked context list exactly as pipeline.go builds it (separate next/prev assignments, arena of nodes) refines the handler-list specification for EVERY sequence of AddFirst/AddLast/AddHandler: forward walk, backward walk, size, IndexOf/LastIndexOf/ContextAt all agree with the list from both ends; illegal positions panic without effect. (2) Routing over that list for every handler table: inbound/event/outbound/exception traces are exactly the capable handlers up to the first non-forwarding one, outbound reaching the head is written to the channel, an exception forwarded past the last handler closes the channel once, ctx.Write/Trigger only reach contexts before/after their position, each handler at most once. Correspondence: real pipelines built by generated op sequences over 63 handler types (every interface subset), structure observed from both ends, routing traces of every entry point compared with the model.",
        "note": "Layer 2 is stated over the list abstraction that layer 1 proves the linked structure refines; the link between the two layers for the Handle* loops (next-pointer walk = list successor) is argued by c03_links and validated by the correspondence, not a separate theorem. Trusted: Coq kernel + vm_compute, harness, Go interface-dispatch semantics as modelled (capability = interface implemented).",
        "assumes": ["handlers behave as one of the modelled behaviours per event kind (forward / stop / write-back / trigger / close / panic)"],
    },
    "C04": {
        "props": "Props/C04.v",
        "models": ["Model/Frame.v", "Model/FrameCheck.v"],
        "harness": "h_frame",
        "results": ["R", "RE"],
        "text": "Coq theorems: every frame codec (length-field all widths/orders/offsets/adjustments/strips, prepender+matching decoder, varint, delimiter, fixed) decodes the concatenation of admitted frames to exactly those frames for EVERY Reader script (= every fragmentation, empty reads, data-with-EOF) with contents equal to the wire stream; encoder soundness (header always agrees with body or exception). Model tied to the code by differential correspondence on generated configurations x streams x fragmentations (model evaluated in Coq on the implementation's inputs, digests compared).",
        "note": "Trusted: Coq kernel + vm_compute; hand-written model of codec/frame validated by correspondence; io.ReadFull/MultiReader/bytes.Reader/binary varint semantics as modelled in Base/Reader.v and Model/Frame.v; Go harness. Widths 4/8 exercised on the implementation only up to ~70 KB bodies (all lengths by theorem).",
        "assumes": ["io.Reader contract as in Base/Reader.v scripts (finite streams; reads return at most the buffer size)",
                    "delimiter codec round-trip requires bytes not to arrive together with EOF (plain script), as net.Conn guarantees"],
    },
    "C08": {
        "props": "Props/C08.v",
        "models": ["Model/Frame.v", "Model/FrameCheck.v"],
        "harness": "h_frame",
        "results": ["R", "RE"],
        "text": "Coq theorems over EVERY script (any bytes, fragmentation, end behaviour): a delivered frame is a completely received stretch of the stream within [header, max] (incl. wrapped/negative 8-byte length fields), end of stream / truncation yields an exception and never a frame, no decoder reaches the model's Fault state, bytes pulled per frame are bounded by max (+10-byte varint header). Correspondence on adversarial, truncated and random streams with Go-side completeness oracles that parse the stream independently.",
        "note": "Trusted: as C04. That an exception closes the channel is C07's statement (tail handler), exercised end-to-end by h_life.",
        "assumes": ["io.Reader contract as in Base/Reader.v scripts"],
    },
    "C14": {
        "props": "Props/C14.v",
        "models": ["Model/Conv.v", "Model/ConvCheck.v"],
        "harness": "h_conv",
        "results": ["R", "RC"],
        "text": "Coq theorems: for every accepted outbound type, content, size and reader behaviour (any script: short reads, empty reads, data with EOF, failure) the head handler's low-level writes concatenate to exactly the message (ReadFrom chunks 1..1024 bytes, nothing lost), unsupported types raise and write nothing; ToBytes/ToReader/CountOf/ByteReader/StealBytes return exactly the content. Correspondence: real headHandler on sync and async channels over a recording transport, and the real helpers, on generated messages; model evaluated in Coq on the same inputs.",
        "note": "Trusted: Coq kernel + vm_compute; hand-written model of handler.go's type switch, channel.ReadFrom and utils/reader.go validated by correspondence; bytes.Reader/strings.Reader/bytes.Buffer WriteTo behaviour as modelled. That the low-level writes reach the transport once/in order is C01.",
        "assumes": ["a WriterTo is modelled by the sequence of Writes it performs", "io.Reader contract as in Base/Reader.v"],
    },
    "C16": {
        "props": "Props/C16.v",
        "models": ["Model/Conv.v", "Model/Json.v", "Model/JsonCheck.v"],
        "harness": "h_conv",
        "results": ["RJ"],
        "text": "Text codec: Coq theorems that any byte sequence written as a string is handed down unchanged and read back identical, composed with the frame-codec round-trip theorems of C04 under any fragmentation. JSON codec: PARTIAL - theorems about go-netty's glue (delivers exactly what the library decoded, raises on a decoding error and on a nil object) conditional on two named laws of encoding/json (json_rt_law, json_reject_law) that the harness tests on the real library on every run; correspondence on generated object trees, flags, carriers and malformed frames.",
        "note": "PARTIAL for JSON: encoding/json is not modelled; the two library laws are explicit hypotheses of c16_json_roundtrip / c16_json_reject (visible in the statements, not axioms) and are tested, not proved. Trusted: Coq kernel, harness.",
        "assumes": ["json_rt_law and json_reject_law of encoding/json (tested every run; a failure is reported with signature json-hypothesis)"],
    },
    "C17": {
        "props": "Props/C17.v",
        "models": ["Model/Bufio.v", "Model/BufioCheck.v"],
        "harness": "h_bufio",
        "results": ["R"],
        "text": "Coq theorems for all four wrapper variants, every buffer size and every sequence of Write/Writev/Flush: bytes on the connection followed by bytes still buffered equal everything written so far in call order (no reordering of buffered and vectored writes), after Flush the peer has exactly the written bytes, unbuffered variants hold nothing back; reading the peer's stream to its end returns exactly the peer's bytes for any fragmentation (any script) and any caller buffer sizes. Correspondence on projected observables only (far-end bytes after each Flush, bytes read to end of stream), so a different but correct buffering strategy stays quiet.",
        "note": "bufio.Writer / bufio.Reader (min size 16) / net.Buffers.WriteTo are RE-MODELLED (standard library, trusted as modelled; validated by the correspondence). The in-memory connection accepts every write; real TCP partial writes / errors are not modelled (transport/tcp/transport.go only wraps NewTransport).",
        "assumes": ["the underlying net.Conn writes all bytes or fails (net.Conn contract)"],
    },
    "C19": {
        "props": "Props/C19.v",
        "models": ["Model/Pool.v", "Model/PoolArithCheck.v"],
        "gen": ["PMath.v", "PoolArith.v"],
        "harness": "h_pool",
        "results": ["R", "RA"],
        "text": "Coq theorems (c19_get_cap, c19_exclusive, c19_ceil_spec/panics, c19_floor_spec, c19_fill_bits, c19_geometry, c19_class_index_inj) over the pool arithmetic TRANSLATED from utils/pool on every run, for every history, size and capacity; plus differential correspondence of the model and of the translated arithmetic with the real pools, and a concurrent ownership stress.",
        "note": "Trusted: Coq kernel + vm_compute, the Go->Gallina translator, sync.Pool/make semantics as modelled, the Go harness. No axioms.",
        "assumes": [
            "sync.Pool hands each stored object to at most one Get (or drops it) - modelled, validated by buffer identity in the harness",
            "make([]byte,0,n) / bytes.NewBuffer have capacity exactly n - modelled",
            "Go int is 64-bit two's complement (wrap64 in Base/GoInt.v)",
        ],
    },
}

NOT_APPLICABLE = {}
HOOK_COMMITS = ["060f86f"]

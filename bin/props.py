"""Per-property configuration of bin/check."""

TRUSTED_BASE = [
    "Coq 8.16.1 kernel (coqc); vm_compute used for finite-domain obligations and for evaluating the model on harness cases; no native_compute",
    "no axioms: every property theorem prints 'Closed under the global context'",
    "translator /verif/gen (Go AST -> Gallina, integer subset with explicit 64-bit wrap); fails loudly outside its subset",
    "Go correspondence harness /verif/go (mock objects, projection of observables) and bin/check",
]

PROPS = {
    "C19": {
        "props": "Props/C19.v",
        "models": ["Model/Pool.v", "Model/PoolArithCheck.v"],
        "gen": ["PMath.v", "PoolArith.v"],
        "harness": "h_pool",
        "results": ["R", "RA"],
        "assumes": [
            "sync.Pool hands each stored object to at most one Get (or drops it) - modelled, validated by buffer identity in the harness",
            "make([]byte,0,n) / bytes.NewBuffer have capacity exactly n - modelled",
            "Go int is 64-bit two's complement (wrap64 in Base/GoInt.v)",
        ],
    },
}

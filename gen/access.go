package main

// genAccess: the access table for C12.  For every tracked struct of /repo
// (channel, bootstrap(+bootstrapOptions), listener, channelHolder,
// readIdleHandler, writeIdleHandler, pool.Pool) every selector expression on a
// value of that type becomes a `site`: field, enclosing function, read/write,
// plain / through sync-atomic or a method of a synchronisation object, the
// (RW)mutex fields of the same object syntactically held at that point, and
// whether the object is still under construction.  The Coq side
// (Model/Lockset.v, Props/C12.v) checks every site against the policy.

import (
	"fmt"
	"go/ast"
	"go/parser"
	"go/token"
	"go/types"
	"os"
	"path/filepath"
	"sort"
	"strings"
)

type fieldInfo struct {
	name    string
	typ     ast.Expr
	syncObj bool   // sync.Mutex, sync.RWMutex, sync.Map, atomic.Value, ...: only methods are called on it
	target  string // tracked struct the field points to (for chains such as l.bs.holder)
}
type structInfo struct {
	name   string
	fields []*fieldInfo
	byName map[string]*fieldInfo
}
type lockHeld struct {
	recv     string // the expression whose mutex it is ("l", "c", ...): a lock protects fields of the same object only
	strct    string
	field    string
	ex       bool
	deferred bool
}
type siteRec struct {
	strct, field, fn string
	write, atomic    bool
	locks            []lockHeld
	ctor             bool
	pos              string
}

type callRec struct {
	caller, callee string
	guards         []string // "Struct.field" flags whose compare-and-swap succeeded around this call
	pos            string
}

type accessGen struct {
	calls    []callRec
	methods  map[string]bool // "Struct.method"
	fset     *token.FileSet
	structs  map[string]*structInfo
	wrappers map[string]lockHeld // "Struct.method" -> lock wrapper (withLock / withReadLock)
	sites    []siteRec
	funcs    []string
	notes    []string
}

var trackedStructs = map[string]bool{"channel": true, "bootstrap": true, "bootstrapOptions": true, "listener": true,
	"channelHolder": true, "readIdleHandler": true, "writeIdleHandler": true, "Pool": true}

func typeName(e ast.Expr) string {
	switch t := e.(type) {
	case *ast.StarExpr:
		return typeName(t.X)
	case *ast.Ident:
		return t.Name
	case *ast.IndexExpr:
		return typeName(t.X)
	case *ast.IndexListExpr:
		return typeName(t.X)
	}
	return ""
}
func isSyncType(e ast.Expr) bool {
	if s, ok := e.(*ast.SelectorExpr); ok {
		if p, ok := s.X.(*ast.Ident); ok {
			switch p.Name + "." + s.Sel.Name {
			case "sync.Mutex", "sync.RWMutex", "sync.Map", "atomic.Value", "sync.Once", "sync.WaitGroup":
				return true
			}
		}
	}
	return false
}

func parseDirNoVerif(fset *token.FileSet, dir string) ([]*ast.File, error) {
	ents, err := os.ReadDir(dir)
	if err != nil {
		return nil, err
	}
	var files []*ast.File
	for _, e := range ents {
		n := e.Name()
		if e.IsDir() || !strings.HasSuffix(n, ".go") || strings.HasSuffix(n, "_test.go") {
			continue
		}
		src, err := os.ReadFile(filepath.Join(dir, n))
		if err != nil {
			return nil, err
		}
		// files of the verification build tag are hooks, not the code under verification
		head := string(src)
		if i := strings.Index(head, "package "); i >= 0 {
			head = head[:i]
		}
		if strings.Contains(head, "go:build") && strings.Contains(head, "verif") {
			continue
		}
		f, err := parser.ParseFile(fset, filepath.Join(dir, n), src, parser.ParseComments)
		if err != nil {
			return nil, err
		}
		files = append(files, f)
	}
	return files, nil
}

func (g *accessGen) collectStructs(files []*ast.File) {
	for _, f := range files {
		for _, d := range f.Decls {
			gd, ok := d.(*ast.GenDecl)
			if !ok {
				continue
			}
			for _, sp := range gd.Specs {
				ts, ok := sp.(*ast.TypeSpec)
				if !ok || !trackedStructs[ts.Name.Name] {
					continue
				}
				st, ok := ts.Type.(*ast.StructType)
				if !ok {
					continue
				}
				si := &structInfo{name: ts.Name.Name, byName: map[string]*fieldInfo{}}
				for _, fl := range st.Fields.List {
					names := fl.Names
					if len(names) == 0 { // embedded
						names = []*ast.Ident{{Name: typeName(fl.Type)}}
					}
					for _, n := range names {
						fi := &fieldInfo{name: n.Name, typ: fl.Type, syncObj: isSyncType(fl.Type)}
						if tn := typeName(fl.Type); trackedStructs[tn] {
							fi.target = tn
						}
						si.fields = append(si.fields, fi)
						si.byName[n.Name] = fi
					}
				}
				g.structs[si.name] = si
			}
		}
	}
}

// field lookup with promotion through embedded tracked structs
func (g *accessGen) lookup(strct, field string) (owner string, fi *fieldInfo) {
	si := g.structs[strct]
	if si == nil {
		return "", nil
	}
	if fi := si.byName[field]; fi != nil {
		return strct, fi
	}
	for _, f := range si.fields {
		if f.target != "" && f.name == f.target { // embedded
			if o, fi := g.lookup(f.target, field); fi != nil {
				return o, fi
			}
		}
	}
	return "", nil
}

type env struct {
	vars  map[string]string // identifier -> tracked struct
	fresh map[string]bool   // identifier bound to a composite literal in this function (object under construction)
}

func (e *env) clone() *env {
	n := &env{vars: map[string]string{}, fresh: map[string]bool{}}
	for k, v := range e.vars {
		n.vars[k] = v
	}
	for k, v := range e.fresh {
		n.fresh[k] = v
	}
	return n
}

// resolve the tracked struct an expression denotes ("" if none), and whether it is a fresh object
func (g *accessGen) resolve(x ast.Expr, e *env) (string, bool) {
	switch t := x.(type) {
	case *ast.Ident:
		return e.vars[t.Name], e.fresh[t.Name]
	case *ast.ParenExpr:
		return g.resolve(t.X, e)
	case *ast.StarExpr:
		return g.resolve(t.X, e)
	case *ast.TypeAssertExpr:
		if tn := typeName(t.Type); t.Type != nil && trackedStructs[tn] {
			return tn, false
		}
	case *ast.SelectorExpr:
		if s, fr := g.resolve(t.X, e); s != "" {
			if _, fi := g.lookup(s, t.Sel.Name); fi != nil && fi.target != "" {
				return fi.target, fr
			}
		}
	case *ast.UnaryExpr:
		if t.Op == token.AND {
			if cl, ok := t.X.(*ast.CompositeLit); ok {
				if tn := typeName(cl.Type); trackedStructs[tn] {
					return tn, true
				}
			}
		}
	case *ast.CompositeLit:
		if tn := typeName(t.Type); trackedStructs[tn] {
			return tn, true
		}
	}
	return "", false
}

type walker struct {
	g    *accessGen
	fn   string
	held []lockHeld
	cas  []string // flags acquired by a successful CompareAndSwap in an enclosing if
	e    *env
}

func (w *walker) site(recv ast.Expr, strct, field string, write, atomic, ctor bool, pos token.Pos) {
	owner, fi := w.g.lookup(strct, field)
	if fi == nil {
		return
	}
	p := w.g.fset.Position(pos)
	var locks []lockHeld
	rs := ""
	if recv != nil {
		rs = types.ExprString(recv)
	}
	for _, h := range w.held {
		if h.recv == rs {
			locks = append(locks, h)
		}
	}
	w.g.sites = append(w.g.sites, siteRec{strct: owner, field: field, fn: w.fn, write: write, atomic: atomic, locks: locks, ctor: ctor,
		pos: fmt.Sprintf("%s:%d", filepath.Base(p.Filename), p.Line)})
}

// mode of an expression occurrence
const (
	mRead = iota
	mWrite
	mAtomicR
	mAtomicW
)

func (w *walker) expr(x ast.Expr, mode int) {
	if x == nil {
		return
	}
	switch t := x.(type) {
	case *ast.SelectorExpr:
		if s, _ := w.g.resolve(t.X, w.e); s != "" && w.g.methods[s+"."+t.Sel.Name] {
			p := w.g.fset.Position(t.Sel.Pos())
			w.g.calls = append(w.g.calls, callRec{caller: w.fn, callee: s + "_" + t.Sel.Name, guards: append([]string(nil), w.cas...),
				pos: fmt.Sprintf("%s:%d", filepath.Base(p.Filename), p.Line)})
		}
		if s, fresh := w.g.resolve(t.X, w.e); s != "" {
			if _, fi := w.g.lookup(s, t.Sel.Name); fi != nil {
				switch mode {
				case mWrite:
					w.site(t.X, s, t.Sel.Name, true, false, fresh, t.Sel.Pos())
				case mAtomicR:
					w.site(t.X, s, t.Sel.Name, false, true, fresh, t.Sel.Pos())
				case mAtomicW:
					w.site(t.X, s, t.Sel.Name, true, true, fresh, t.Sel.Pos())
				default:
					w.site(t.X, s, t.Sel.Name, false, false, fresh, t.Sel.Pos())
				}
			}
		}
		w.expr(t.X, mRead)
	case *ast.CallExpr:
		w.call(t)
	case *ast.FuncLit:
		// a closure that runs later / elsewhere holds none of the locks of its creator
		sub := &walker{g: w.g, fn: w.fn, e: w.e.clone(), cas: w.cas}
		sub.block(t.Body.List)
	case *ast.CompositeLit:
		if tn := typeName(t.Type); trackedStructs[tn] {
			for _, el := range t.Elts {
				if kv, ok := el.(*ast.KeyValueExpr); ok {
					if k, ok := kv.Key.(*ast.Ident); ok {
						w.site(nil, tn, k.Name, true, false, true, k.Pos())
					}
					w.expr(kv.Value, mRead)
				} else {
					w.expr(el, mRead)
				}
			}
			return
		}
		for _, el := range t.Elts {
			if kv, ok := el.(*ast.KeyValueExpr); ok {
				w.expr(kv.Value, mRead)
			} else {
				w.expr(el, mRead)
			}
		}
	case *ast.UnaryExpr:
		w.expr(t.X, mode)
	case *ast.BinaryExpr:
		w.expr(t.X, mRead)
		w.expr(t.Y, mRead)
	case *ast.ParenExpr:
		w.expr(t.X, mode)
	case *ast.StarExpr:
		w.expr(t.X, mode)
	case *ast.IndexExpr:
		// writing an element reads the field holding the slice / map header
		w.expr(t.X, mRead)
		w.expr(t.Index, mRead)
	case *ast.SliceExpr:
		w.expr(t.X, mRead)
		w.expr(t.Low, mRead)
		w.expr(t.High, mRead)
		w.expr(t.Max, mRead)
	case *ast.TypeAssertExpr:
		w.expr(t.X, mRead)
	case *ast.KeyValueExpr:
		w.expr(t.Value, mRead)
	case *ast.Ident, *ast.BasicLit, *ast.ArrayType, *ast.MapType, *ast.ChanType, *ast.FuncType, *ast.InterfaceType, *ast.StructType, *ast.Ellipsis, *ast.IndexListExpr:
	default:
		failf("access: unsupported expression %T at %s", x, w.g.fset.Position(x.Pos()))
	}
}

func (w *walker) call(c *ast.CallExpr) {
	// verification hooks compile to nothing in a normal build (verif_off.go): not part of the code under verification
	if id, ok := c.Fun.(*ast.Ident); ok && strings.HasPrefix(id.Name, "verifYield") {
		return
	}
	// sync/atomic function on &x.f
	if s, ok := c.Fun.(*ast.SelectorExpr); ok {
		if p, ok := s.X.(*ast.Ident); ok && p.Name == "atomic" && w.e.vars["atomic"] == "" {
			for i, a := range c.Args {
				if i == 0 {
					if u, ok := a.(*ast.UnaryExpr); ok && u.Op == token.AND {
						if strings.HasPrefix(s.Sel.Name, "Load") {
							w.expr(u.X, mAtomicR)
						} else {
							w.expr(u.X, mAtomicW)
						}
						continue
					}
				}
				w.expr(a, mRead)
			}
			return
		}
		// method of a synchronisation-object field: x.f.M(...)
		if inner, ok := s.X.(*ast.SelectorExpr); ok {
			if st, fresh := w.g.resolve(inner.X, w.e); st != "" {
				if _, fi := w.g.lookup(st, inner.Sel.Name); fi != nil && fi.syncObj {
					w.site(inner.X, st, inner.Sel.Name, s.Sel.Name == "Store" || s.Sel.Name == "Delete" || s.Sel.Name == "LoadOrStore", true, fresh, inner.Sel.Pos())
					w.expr(inner.X, mRead)
					for _, a := range c.Args {
						w.expr(a, mRead)
					}
					return
				}
			}
		}
		// lock wrapper: x.withLock(func(){...})
		if st, _ := w.g.resolve(s.X, w.e); st != "" {
			if lw, ok := w.g.wrappers[st+"."+s.Sel.Name]; ok && len(c.Args) == 1 {
				if fl, ok := c.Args[0].(*ast.FuncLit); ok {
					w.expr(s.X, mRead)
					sub := &walker{g: w.g, fn: w.fn, cas: w.cas, e: w.e.clone(), held: append(append([]lockHeld(nil), w.held...), lockHeld{types.ExprString(s.X), st, lw.field, lw.ex, true})}
					sub.block(fl.Body.List)
					return
				}
			}
		}
	}
	// delete(x.f, k) mutates the map the field refers to
	if id, ok := c.Fun.(*ast.Ident); ok && id.Name == "delete" && len(c.Args) == 2 {
		w.expr(c.Args[0], mWrite)
		w.expr(c.Args[1], mRead)
		return
	}
	// immediately invoked closure keeps the locks
	if fl, ok := c.Fun.(*ast.FuncLit); ok {
		sub := &walker{g: w.g, fn: w.fn, cas: w.cas, e: w.e.clone(), held: append([]lockHeld(nil), w.held...)}
		sub.block(fl.Body.List)
	} else {
		w.expr(c.Fun, mRead)
	}
	for _, a := range c.Args {
		w.expr(a, mRead)
	}
}

// x.f.Lock() / RLock / Unlock / RUnlock on a mutex field of a tracked object
func (w *walker) lockCall(x ast.Expr) (recv, strct, field, op string, ok bool) {
	c, isCall := x.(*ast.CallExpr)
	if !isCall {
		return
	}
	s, isSel := c.Fun.(*ast.SelectorExpr)
	if !isSel {
		return
	}
	inner, isSel2 := s.X.(*ast.SelectorExpr)
	if !isSel2 {
		return
	}
	st, _ := w.g.resolve(inner.X, w.e)
	if st == "" {
		return
	}
	if _, fi := w.g.lookup(st, inner.Sel.Name); fi == nil || !fi.syncObj {
		return
	}
	switch s.Sel.Name {
	case "Lock", "RLock", "Unlock", "RUnlock":
		owner, _ := w.g.lookup(st, inner.Sel.Name)
		return types.ExprString(inner.X), owner, inner.Sel.Name, s.Sel.Name, true
	}
	return
}

func (w *walker) bind(lhs ast.Expr, rhs ast.Expr) {
	id, ok := lhs.(*ast.Ident)
	if !ok {
		return
	}
	if s, fresh := w.g.resolve(rhs, w.e); s != "" {
		w.e.vars[id.Name] = s
		w.e.fresh[id.Name] = fresh
	} else {
		delete(w.e.vars, id.Name)
		delete(w.e.fresh, id.Name)
	}
}

func (w *walker) block(stmts []ast.Stmt) {
	for _, s := range stmts {
		w.stmt(s)
	}
}

// condition `atomic.CompareAndSwapInt32(&x.f, ...)` on a tracked object: the flag "Struct.f" is acquired in the body
func (w *walker) casFlag(cond ast.Expr) string {
	c, ok := cond.(*ast.CallExpr)
	if !ok || len(c.Args) == 0 {
		return ""
	}
	s, ok := c.Fun.(*ast.SelectorExpr)
	if !ok || !strings.HasPrefix(s.Sel.Name, "CompareAndSwap") {
		return ""
	}
	if p, ok := s.X.(*ast.Ident); !ok || p.Name != "atomic" {
		return ""
	}
	u, ok := c.Args[0].(*ast.UnaryExpr)
	if !ok || u.Op != token.AND {
		return ""
	}
	sel, ok := u.X.(*ast.SelectorExpr)
	if !ok {
		return ""
	}
	st, _ := w.g.resolve(sel.X, w.e)
	owner, fi := w.g.lookup(st, sel.Sel.Name)
	if fi == nil {
		return ""
	}
	return owner + "." + sel.Sel.Name
}

func (w *walker) nested(stmts []ast.Stmt) {
	sub := &walker{g: w.g, fn: w.fn, cas: w.cas, e: w.e, held: append([]lockHeld(nil), w.held...)}
	sub.block(stmts)
	if len(sub.held) != len(w.held) {
		failf("access: lock state changes inside a nested block in %s (unsupported)", w.fn)
	}
}

func (w *walker) stmt(s ast.Stmt) {
	switch t := s.(type) {
	case nil:
	case *ast.ExprStmt:
		if rv, st, f, op, ok := w.lockCall(t.X); ok {
			w.expr(t.X, mRead) // the method call on the mutex itself
			switch op {
			case "Lock":
				w.held = append(w.held, lockHeld{rv, st, f, true, false})
			case "RLock":
				w.held = append(w.held, lockHeld{rv, st, f, false, false})
			default:
				for i := len(w.held) - 1; i >= 0; i-- {
					if w.held[i].field == f && w.held[i].recv == rv {
						w.held = append(w.held[:i], w.held[i+1:]...)
						break
					}
				}
			}
			return
		}
		w.expr(t.X, mRead)
	case *ast.DeferStmt:
		if rv, _, f, op, ok := w.lockCall(t.Call); ok && (op == "Unlock" || op == "RUnlock") {
			w.expr(t.Call, mRead)
			for i := range w.held {
				if w.held[i].field == f && w.held[i].recv == rv {
					w.held[i].deferred = true
				}
			}
			return
		}
		if fl, ok := t.Call.Fun.(*ast.FuncLit); ok {
			// runs at function exit: only locks whose unlock is itself deferred (earlier) are still held
			var keep []lockHeld
			for _, h := range w.held {
				if h.deferred {
					keep = append(keep, h)
				}
			}
			sub := &walker{g: w.g, fn: w.fn, cas: w.cas, e: w.e.clone(), held: keep}
			sub.block(fl.Body.List)
			for _, a := range t.Call.Args {
				w.expr(a, mRead)
			}
			return
		}
		var keep []lockHeld
		for _, h := range w.held {
			if h.deferred {
				keep = append(keep, h)
			}
		}
		sub := &walker{g: w.g, fn: w.fn, cas: w.cas, e: w.e, held: keep}
		sub.call(t.Call)
	case *ast.GoStmt:
		sub := &walker{g: w.g, fn: w.fn, e: w.e.clone(), cas: w.cas}
		sub.call(t.Call)
	case *ast.AssignStmt:
		for _, r := range t.Rhs {
			w.expr(r, mRead)
		}
		for i, l := range t.Lhs {
			if t.Tok == token.DEFINE {
				if len(t.Rhs) == len(t.Lhs) {
					w.bind(l, t.Rhs[i])
				} else if id, ok := l.(*ast.Ident); ok {
					delete(w.e.vars, id.Name)
				}
				continue
			}
			if t.Tok != token.ASSIGN {
				w.expr(l, mRead)
			}
			if ix, isIdx := l.(*ast.IndexExpr); isIdx {
				// storing an element mutates the map / slice the field refers to: needs the write protection of the field
				w.expr(ix.X, mWrite)
				w.expr(ix.Index, mRead)
			} else {
				w.expr(l, mWrite)
			}
			if t.Tok == token.ASSIGN && len(t.Rhs) == len(t.Lhs) {
				w.bind(l, t.Rhs[i])
			}
		}
	case *ast.IncDecStmt:
		w.expr(t.X, mRead)
		w.expr(t.X, mWrite)
	case *ast.DeclStmt:
		if gd, ok := t.Decl.(*ast.GenDecl); ok {
			for _, sp := range gd.Specs {
				if vs, ok := sp.(*ast.ValueSpec); ok {
					for _, v := range vs.Values {
						w.expr(v, mRead)
					}
					for i, n := range vs.Names {
						if tn := typeName(vs.Type); vs.Type != nil && trackedStructs[tn] {
							w.e.vars[n.Name] = tn
						} else if i < len(vs.Values) {
							w.bind(n, vs.Values[i])
						} else {
							delete(w.e.vars, n.Name)
						}
					}
				}
			}
		}
	case *ast.ReturnStmt:
		for _, r := range t.Results {
			w.expr(r, mRead)
		}
	case *ast.IfStmt:
		w.stmt(t.Init)
		w.expr(t.Cond, mRead)
		if flag := w.casFlag(t.Cond); flag != "" {
			sub := &walker{g: w.g, fn: w.fn, e: w.e, held: append([]lockHeld(nil), w.held...), cas: append(append([]string(nil), w.cas...), flag)}
			sub.block(t.Body.List)
			if len(sub.held) != len(w.held) {
				failf("access: lock state changes inside a nested block in %s (unsupported)", w.fn)
			}
		} else {
			w.nested(t.Body.List)
		}
		if t.Else != nil {
			w.nested([]ast.Stmt{t.Else})
		}
	case *ast.BlockStmt:
		w.nested(t.List)
	case *ast.ForStmt:
		w.stmt(t.Init)
		w.expr(t.Cond, mRead)
		w.stmt(t.Post)
		w.nested(t.Body.List)
	case *ast.RangeStmt:
		w.expr(t.X, mRead)
		w.nested(t.Body.List)
	case *ast.SwitchStmt:
		w.stmt(t.Init)
		w.expr(t.Tag, mRead)
		for _, c := range t.Body.List {
			cc := c.(*ast.CaseClause)
			for _, x := range cc.List {
				w.expr(x, mRead)
			}
			w.nested(cc.Body)
		}
	case *ast.TypeSwitchStmt:
		w.stmt(t.Init)
		w.stmt(t.Assign)
		for _, c := range t.Body.List {
			w.nested(c.(*ast.CaseClause).Body)
		}
	case *ast.SelectStmt:
		for _, c := range t.Body.List {
			cc := c.(*ast.CommClause)
			w.stmt(cc.Comm)
			w.nested(cc.Body)
		}
	case *ast.SendStmt:
		w.expr(t.Chan, mRead)
		w.expr(t.Value, mRead)
	case *ast.BranchStmt, *ast.EmptyStmt:
	case *ast.LabeledStmt:
		w.stmt(t.Stmt)
	default:
		failf("access: unsupported statement %T at %s", s, w.g.fset.Position(s.Pos()))
	}
}

// withLock-style helpers: body is exactly  r.M.Lock(); defer r.M.Unlock(); fn()
func (g *accessGen) findWrappers(files []*ast.File) {
	for _, f := range files {
		for _, d := range f.Decls {
			fd, ok := d.(*ast.FuncDecl)
			if !ok || fd.Recv == nil || fd.Body == nil || len(fd.Body.List) != 3 || len(fd.Recv.List) != 1 || len(fd.Recv.List[0].Names) != 1 {
				continue
			}
			st := typeName(fd.Recv.List[0].Type)
			if !trackedStructs[st] || len(fd.Type.Params.List) != 1 {
				continue
			}
			w := &walker{g: g, e: &env{vars: map[string]string{fd.Recv.List[0].Names[0].Name: st}, fresh: map[string]bool{}}}
			es, ok1 := fd.Body.List[0].(*ast.ExprStmt)
			ds, ok2 := fd.Body.List[1].(*ast.DeferStmt)
			cs, ok3 := fd.Body.List[2].(*ast.ExprStmt)
			if !ok1 || !ok2 || !ok3 {
				continue
			}
			_, _, f1, op1, a := w.lockCall(es.X)
			_, _, f2, op2, b := w.lockCall(ds.Call)
			call, c := cs.X.(*ast.CallExpr)
			if !a || !b || !c || f1 != f2 {
				continue
			}
			if id, ok := call.Fun.(*ast.Ident); !ok || id.Name != fd.Type.Params.List[0].Names[0].Name {
				continue
			}
			switch {
			case op1 == "Lock" && op2 == "Unlock":
				g.wrappers[st+"."+fd.Name.Name] = lockHeld{"", st, f1, true, true}
			case op1 == "RLock" && op2 == "RUnlock":
				g.wrappers[st+"."+fd.Name.Name] = lockHeld{"", st, f1, false, true}
			}
		}
	}
}

func (g *accessGen) walkFuncs(files []*ast.File) {
	for _, f := range files {
		for _, d := range f.Decls {
			fd, ok := d.(*ast.FuncDecl)
			if !ok || fd.Body == nil {
				continue
			}
			name := fd.Name.Name
			e := &env{vars: map[string]string{}, fresh: map[string]bool{}}
			if fd.Recv != nil && len(fd.Recv.List) == 1 {
				st := typeName(fd.Recv.List[0].Type)
				name = st + "_" + name
				if trackedStructs[st] && len(fd.Recv.List[0].Names) == 1 {
					e.vars[fd.Recv.List[0].Names[0].Name] = st
				}
			}
			for _, p := range fd.Type.Params.List {
				if tn := typeName(p.Type); trackedStructs[tn] {
					for _, n := range p.Names {
						e.vars[n.Name] = tn
					}
				}
			}
			g.funcs = append(g.funcs, name)
			w := &walker{g: g, fn: name, e: e}
			w.block(fd.Body.List)
		}
	}
}

func coqIdent(s string) string {
	return strings.Map(func(r rune) rune {
		if r == '.' || r == '-' || r == '[' || r == ']' {
			return '_'
		}
		return r
	}, s)
}

func genAccess(repo string) (string, error) {
	g := &accessGen{fset: token.NewFileSet(), structs: map[string]*structInfo{}, wrappers: map[string]lockHeld{}}
	var files []*ast.File
	for _, dir := range []string{repo, filepath.Join(repo, "utils", "pool")} {
		fs, err := parseDirNoVerif(g.fset, dir)
		if err != nil {
			return "", err
		}
		files = append(files, fs...)
	}
	g.collectStructs(files)
	for s := range trackedStructs {
		if g.structs[s] == nil {
			failf("access: tracked struct %s not found", s)
		}
	}
	if len(failures) > 0 {
		return "", nil
	}
	g.methods = map[string]bool{}
	for _, f := range files {
		for _, d := range f.Decls {
			if fd, ok := d.(*ast.FuncDecl); ok && fd.Recv != nil && len(fd.Recv.List) == 1 {
				if st := typeName(fd.Recv.List[0].Type); trackedStructs[st] {
					g.methods[st+"."+fd.Name.Name] = true
				}
			}
		}
	}
	g.findWrappers(files)
	g.walkFuncs(files)

	var sb strings.Builder
	sb.WriteString("(* GENERATED by /verif/gen from /repo (bootstrap.go channel.go holder.go handler.go options.go ... utils/pool/generic.go): DO NOT EDIT.\n   Field keys, function ids and the access sites of the tracked structs. *)\n")
	sb.WriteString("From Coq Require Import List.\nFrom GN Require Import Model.Lockset.\nImport ListNotations.\n\n")
	// field keys
	key := map[string]int{}
	var snames []string
	for s := range g.structs {
		snames = append(snames, s)
	}
	sort.Strings(snames)
	k := 0
	for _, s := range snames {
		for _, f := range g.structs[s].fields {
			key[s+"."+f.name] = k
			sb.WriteString(fmt.Sprintf("Definition f_%s_%s : nat := %d.\n", s, coqIdent(f.name), k))
			k++
		}
	}
	sb.WriteString(fmt.Sprintf("Definition field_count : nat := %d.\n\n", k))
	fid := map[string]int{}
	sort.Strings(g.funcs)
	for _, f := range g.funcs {
		if _, dup := fid[f]; dup {
			continue
		}
		fid[f] = len(fid)
		sb.WriteString(fmt.Sprintf("Definition fn_%s : nat := %d.\n", coqIdent(f), fid[f]))
	}
	sb.WriteString("\n(* lock wrappers recognised: ")
	var ws []string
	for n, lw := range g.wrappers {
		ws = append(ws, fmt.Sprintf("%s -> %s(ex=%v)", n, lw.field, lw.ex))
	}
	sort.Strings(ws)
	sb.WriteString(strings.Join(ws, ", ") + " *)\n")
	sb.WriteString("Definition sites : list site := [\n")
	for i, s := range g.sites {
		var ls []string
		for _, l := range s.locks {
			ls = append(ls, fmt.Sprintf("(f_%s_%s, %v)", l.strct, coqIdent(l.field), l.ex))
		}
		sep := ";"
		if i == len(g.sites)-1 {
			sep = ""
		}
		sb.WriteString(fmt.Sprintf("  {| s_field := f_%s_%s; s_func := fn_%s; s_write := %v; s_atomic := %v; s_locks := [%s]; s_ctor := %v |}%s (* #%d %s *)\n",
			s.strct, coqIdent(s.field), coqIdent(s.fn), s.write, s.atomic, strings.Join(ls, "; "), s.ctor, sep, i, s.pos))
	}
	sb.WriteString("].\n\n")
	sb.WriteString("(* every call of / reference to a method of a tracked struct, with the flags whose compare-and-swap\n   succeeded in an enclosing `if atomic.CompareAndSwap...(&x.flag, ...)` *)\n")
	sb.WriteString("Definition calls : list mcall := [\n")
	for i, c := range g.calls {
		var gs []string
		for _, x := range c.guards {
			gs = append(gs, "f_"+coqIdent(strings.Replace(x, ".", "_", 1)))
		}
		sep := ";"
		if i == len(g.calls)-1 {
			sep = ""
		}
		sb.WriteString(fmt.Sprintf("  {| c_caller := fn_%s; c_callee := fn_%s; c_guards := [%s] |}%s (* %s *)\n", coqIdent(c.caller), coqIdent(c.callee), strings.Join(gs, "; "), sep, c.pos))
	}
	sb.WriteString("].\n")
	return sb.String(), nil
}

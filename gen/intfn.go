package main

// Translation of the integer subset of Go into Gallina over Z with explicit
// 64-bit wrap (coq/Base/GoInt.v).
//
// Subset: int parameters/locals, `if` (with optional init, no else or else
// with blocks), `return`, assignment / define / op-assign / ++ / --,
// operators + - * / & | >> << and comparisons, && || !, calls to other
// translated functions, panic(...).  A call to a function that may panic is
// only allowed as the whole right-hand side of an assignment or a return.

import (
	"fmt"
	"go/ast"
	"go/token"
	"strings"
)

type fnInfo struct {
	coqName string
	panics  bool
	isBool  bool
}

type ctx struct {
	fns      map[string]*fnInfo // Go name (possibly pkg-qualified stripped) -> info
	consts   map[string]string  // Go const name -> Z literal
	fields   map[string]string  // selector on receiver: field -> coq var
	recv     string             // receiver identifier ("" if none)
	panics   bool               // current function may panic (results wrapped in option)
	special  func(c *ctx, s ast.Stmt, rest func() string) (string, bool)
	retWrap  func(c *ctx, results []ast.Expr) string // custom return translation
	lenExprs map[string]string // textual `len(x.y)` -> coq var
	noneStr     string
	ifAsControl bool
}

func nodeStr(fset *token.FileSet, n ast.Node) string {
	if fset == nil {
		return fmt.Sprintf("%T", n)
	}
	return fset.Position(n.Pos()).String()
}

var theFset *token.FileSet

func (c *ctx) expr(e ast.Expr) string {
	switch x := e.(type) {
	case *ast.ParenExpr:
		return c.expr(x.X)
	case *ast.BasicLit:
		if x.Kind == token.INT {
			return x.Value
		}
	case *ast.Ident:
		if v, ok := c.consts[x.Name]; ok {
			return v
		}
		if x.Name == "true" || x.Name == "false" {
			return x.Name
		}
		return "v_" + x.Name
	case *ast.SelectorExpr:
		if id, ok := x.X.(*ast.Ident); ok && id.Name == c.recv && c.recv != "" {
			if v, ok := c.fields[x.Sel.Name]; ok {
				return v
			}
		}
	case *ast.UnaryExpr:
		switch x.Op {
		case token.NOT:
			return "(negb " + c.expr(x.X) + ")"
		case token.SUB:
			return "(g_sub 0 " + c.expr(x.X) + ")"
		}
	case *ast.BinaryExpr:
		a, b := c.expr(x.X), c.expr(x.Y)
		switch x.Op {
		case token.ADD:
			return "(g_add " + a + " " + b + ")"
		case token.SUB:
			return "(g_sub " + a + " " + b + ")"
		case token.MUL:
			return "(g_mul " + a + " " + b + ")"
		case token.QUO:
			return "(g_quot " + a + " " + b + ")"
		case token.REM:
			return "(g_rem " + a + " " + b + ")"
		case token.AND:
			return "(g_and " + a + " " + b + ")"
		case token.OR:
			return "(g_or " + a + " " + b + ")"
		case token.SHR:
			return "(g_shr " + a + " " + b + ")"
		case token.SHL:
			return "(g_shl " + a + " " + b + ")"
		case token.LSS:
			return "(Z.ltb " + a + " " + b + ")"
		case token.LEQ:
			return "(Z.leb " + a + " " + b + ")"
		case token.GTR:
			return "(Z.ltb " + b + " " + a + ")"
		case token.GEQ:
			return "(Z.leb " + b + " " + a + ")"
		case token.EQL:
			return "(Z.eqb " + a + " " + b + ")"
		case token.NEQ:
			return "(negb (Z.eqb " + a + " " + b + "))"
		case token.LAND:
			return "(andb " + a + " " + b + ")"
		case token.LOR:
			return "(orb " + a + " " + b + ")"
		}
	case *ast.CallExpr:
		if s := c.lenCall(x); s != "" {
			return s
		}
		name, info := c.callee(x)
		if info == nil {
			failf("%s: call to untranslated function %s", nodeStr(theFset, e), name)
			return "ERR"
		}
		if info.panics {
			failf("%s: call to panicking function %s nested inside an expression", nodeStr(theFset, e), name)
			return "ERR"
		}
		return "(" + info.coqName + c.args(x) + ")"
	}
	failf("%s: expression outside the translated subset (%T)", nodeStr(theFset, e), e)
	return "ERR"
}

func (c *ctx) lenCall(x *ast.CallExpr) string {
	if id, ok := x.Fun.(*ast.Ident); ok && id.Name == "len" && len(x.Args) == 1 {
		if sel, ok := x.Args[0].(*ast.SelectorExpr); ok {
			if r, ok := sel.X.(*ast.Ident); ok {
				if v, ok := c.lenExprs[r.Name+"."+sel.Sel.Name]; ok {
					return v
				}
			}
		}
	}
	return ""
}

func (c *ctx) args(x *ast.CallExpr) string {
	var sb strings.Builder
	for _, a := range x.Args {
		sb.WriteString(" " + c.expr(a))
	}
	return sb.String()
}

func (c *ctx) callee(x *ast.CallExpr) (string, *fnInfo) {
	switch f := x.Fun.(type) {
	case *ast.Ident:
		return f.Name, c.fns[f.Name]
	case *ast.SelectorExpr:
		if id, ok := f.X.(*ast.Ident); ok {
			if id.Name == c.recv && c.recv != "" {
				return id.Name + "." + f.Sel.Name, c.fns["."+f.Sel.Name]
			}
			return id.Name + "." + f.Sel.Name, c.fns[f.Sel.Name]
		}
	}
	return "?", nil
}

// rhs translates a right-hand side that may be a direct call to a panicking
// function.  It returns the expression and whether it has type option.
func (c *ctx) rhs(e ast.Expr) (string, bool) {
	if p, ok := e.(*ast.ParenExpr); ok {
		return c.rhs(p.X)
	}
	if call, ok := e.(*ast.CallExpr); ok && c.lenCall(call) == "" {
		name, info := c.callee(call)
		if info == nil {
			failf("%s: call to untranslated function %s", nodeStr(theFset, e), name)
			return "ERR", false
		}
		if info.panics {
			return "(" + info.coqName + c.args(call) + ")", true
		}
	}
	return c.expr(e), false
}

func (c *ctx) bind(v string, e ast.Expr, rest string) string {
	s, opt := c.rhs(e)
	if opt {
		if !c.panics {
			failf("%s: panicking call in a function not marked as panicking", nodeStr(theFset, e))
		}
		return "match " + s + " with None => " + c.none() + " | Some " + v + " =>\n  " + rest + " end"
	}
	return "let " + v + " := " + s + " in\n  " + rest
}

// none/some are overridable through retWrap users; default option monad.
func (c *ctx) none() string {
	if c.noneStr != "" {
		return c.noneStr
	}
	return "None"
}

func isTerminal(stmts []ast.Stmt) bool {
	if len(stmts) == 0 {
		return false
	}
	switch s := stmts[len(stmts)-1].(type) {
	case *ast.ReturnStmt:
		return true
	case *ast.ExprStmt:
		if call, ok := s.X.(*ast.CallExpr); ok {
			if id, ok := call.Fun.(*ast.Ident); ok && id.Name == "panic" {
				return true
			}
		}
	case *ast.IfStmt:
		if s.Else != nil {
			if eb, ok := s.Else.(*ast.BlockStmt); ok {
				return isTerminal(s.Body.List) && isTerminal(eb.List)
			}
		}
	}
	return false
}

func assignedVars(stmts []ast.Stmt, acc map[string]bool) {
	for _, s := range stmts {
		switch x := s.(type) {
		case *ast.AssignStmt:
			if x.Tok != token.DEFINE {
				for _, l := range x.Lhs {
					if id, ok := l.(*ast.Ident); ok {
						acc[id.Name] = true
					}
				}
			}
		case *ast.IncDecStmt:
			if id, ok := x.X.(*ast.Ident); ok {
				acc[id.Name] = true
			}
		case *ast.IfStmt:
			assignedVars(x.Body.List, acc)
			if eb, ok := x.Else.(*ast.BlockStmt); ok {
				assignedVars(eb.List, acc)
			}
		case *ast.BlockStmt:
			assignedVars(x.List, acc)
		}
	}
}

// block translates a statement list; k is what to emit when control falls
// off the end of the list.
func (c *ctx) block(stmts []ast.Stmt, k string) string {
	if len(stmts) == 0 {
		return k
	}
	s := stmts[0]
	rest := func() string { return c.block(stmts[1:], k) }
	if c.special != nil {
		if out, ok := c.special(c, s, rest); ok {
			return out
		}
	}
	switch x := s.(type) {
	case *ast.ReturnStmt:
		if c.retWrap != nil {
			return c.retWrap(c, x.Results)
		}
		if len(x.Results) != 1 {
			failf("%s: return with %d results", nodeStr(theFset, s), len(x.Results))
			return "ERR"
		}
		e, opt := c.rhs(x.Results[0])
		if c.panics && !opt {
			return "Some " + e
		}
		return e
	case *ast.ExprStmt:
		if call, ok := x.X.(*ast.CallExpr); ok {
			if id, ok := call.Fun.(*ast.Ident); ok && id.Name == "panic" {
				if !c.panics {
					failf("%s: panic in a function not marked as panicking", nodeStr(theFset, s))
				}
				return c.none()
			}
		}
	case *ast.DeclStmt:
		// `var zero T` and similar declarations of non-int values carry no arithmetic
		return rest()
	case *ast.IncDecStmt:
		if id, ok := x.X.(*ast.Ident); ok {
			op := "g_add"
			if x.Tok == token.DEC {
				op = "g_sub"
			}
			return "let v_" + id.Name + " := " + op + " v_" + id.Name + " 1 in\n  " + rest()
		}
	case *ast.AssignStmt:
		if len(x.Lhs) == 1 && len(x.Rhs) == 1 {
			id, ok := x.Lhs[0].(*ast.Ident)
			if ok {
				v := "v_" + id.Name
				switch x.Tok {
				case token.ASSIGN, token.DEFINE:
					return c.bind(v, x.Rhs[0], rest())
				default:
					ops := map[token.Token]token.Token{token.ADD_ASSIGN: token.ADD, token.SUB_ASSIGN: token.SUB,
						token.MUL_ASSIGN: token.MUL, token.QUO_ASSIGN: token.QUO, token.AND_ASSIGN: token.AND,
						token.OR_ASSIGN: token.OR, token.SHR_ASSIGN: token.SHR, token.SHL_ASSIGN: token.SHL}
					if op, ok := ops[x.Tok]; ok {
						be := &ast.BinaryExpr{X: id, Op: op, Y: x.Rhs[0], OpPos: x.TokPos}
						return "let " + v + " := " + c.expr(be) + " in\n  " + rest()
					}
				}
			}
		}
	case *ast.BlockStmt:
		return c.block(append(append([]ast.Stmt{}, x.List...), stmts[1:]...), k)
	case *ast.IfStmt:
		wrapInit := func(body string) string { return body }
		if x.Init != nil {
			as, ok := x.Init.(*ast.AssignStmt)
			if !ok || len(as.Lhs) != 1 || len(as.Rhs) != 1 || as.Tok != token.DEFINE {
				failf("%s: if-init outside subset", nodeStr(theFset, s))
				return "ERR"
			}
			id := as.Lhs[0].(*ast.Ident)
			wrapInit = func(body string) string { return c.bind("v_"+id.Name, as.Rhs[0], body) }
		}
		cond := c.expr(x.Cond)
		var elseList []ast.Stmt
		if x.Else != nil {
			eb, ok := x.Else.(*ast.BlockStmt)
			if !ok {
				failf("%s: else-if outside subset", nodeStr(theFset, s))
				return "ERR"
			}
			elseList = eb.List
		}
		thenTerm := isTerminal(x.Body.List)
		elseTerm := x.Else != nil && isTerminal(elseList)
		if thenTerm || elseTerm || c.ifAsControl {
			// control-flow if: duplicate the continuation into non-terminal branches
			r := rest()
			return wrapInit("(if " + cond + " then " + c.block(x.Body.List, r) + "\n  else " + c.block(elseList, r) + ")")
		}
		// data-flow if: exactly one variable modified
		vars := map[string]bool{}
		assignedVars(x.Body.List, vars)
		assignedVars(elseList, vars)
		if len(vars) != 1 {
			failf("%s: non-returning if modifying %d variables", nodeStr(theFset, s), len(vars))
			return "ERR"
		}
		var v string
		for n := range vars {
			v = "v_" + n
		}
		if x.Init != nil {
			failf("%s: data-flow if with init", nodeStr(theFset, s))
		}
		return "let " + v + " := (if " + cond + " then " + c.block(x.Body.List, v) + " else " + c.block(elseList, v) + ") in\n  " + rest()
	}
	failf("%s: statement outside the translated subset (%T)", nodeStr(theFset, s), s)
	return "ERR"
}

func paramNames(ft *ast.FuncType) []string {
	var ps []string
	for _, f := range ft.Params.List {
		for _, n := range f.Names {
			ps = append(ps, "v_"+n.Name)
		}
	}
	return ps
}

// hasPanic reports whether the body contains panic(...) or calls a known panicking function.
func hasPanic(body *ast.BlockStmt, fns map[string]*fnInfo) bool {
	found := false
	ast.Inspect(body, func(n ast.Node) bool {
		if call, ok := n.(*ast.CallExpr); ok {
			switch f := call.Fun.(type) {
			case *ast.Ident:
				if f.Name == "panic" {
					found = true
				} else if fi := fns[f.Name]; fi != nil && fi.panics {
					found = true
				}
			case *ast.SelectorExpr:
				if fi := fns[f.Sel.Name]; fi != nil && fi.panics {
					found = true
				}
				if fi := fns["."+f.Sel.Name]; fi != nil && fi.panics {
					found = true
				}
			}
		}
		return true
	})
	return found
}

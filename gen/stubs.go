package main

func genConsts(repo string) (string, error) { return "(* GENERATED: constants *)\n", nil }


package main

func genConsts(repo string) (string, error) { return "(* GENERATED: constants *)\n", nil }
func genAccess(repo string) (string, error) { return "(* GENERATED: access table *)\n", nil }

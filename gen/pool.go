package main

import (
	"fmt"
	"go/ast"
	"go/constant"
	"go/parser"
	"go/token"
	"go/types"
	"path/filepath"
	"sort"
	"strings"
)

const genHeader = "(* GENERATED on every run by /verif/gen from %s — do not edit. *)\nFrom Coq Require Import ZArith Bool.\nFrom GN Require Import Base.GoInt.\nOpen Scope Z_scope.\n\n"

var pmathFns = map[string]*fnInfo{}

// translate the integer functions of pmath.go
func genPMath(repo string) (string, error) {
	path := filepath.Join(repo, "utils/pool/internal/pmath/pmath.go")
	fset := token.NewFileSet()
	theFset = fset
	f, err := parser.ParseFile(fset, path, nil, 0)
	if err != nil {
		return "", err
	}
	// constants through the type checker (the package has no imports)
	conf := types.Config{Error: func(error) {}}
	pkg, _ := conf.Check("pmath", fset, []*ast.File{f}, nil)
	consts := map[string]string{}
	var sb strings.Builder
	fmt.Fprintf(&sb, genHeader, "utils/pool/internal/pmath/pmath.go")
	if pkg != nil {
		names := pkg.Scope().Names()
		sort.Strings(names)
		for _, n := range names {
			if c, ok := pkg.Scope().Lookup(n).(*types.Const); ok {
				if c.Val().Kind() == constant.Int {
					consts[n] = "c_" + n
					fmt.Fprintf(&sb, "Definition c_%s : Z := %s.\n", n, c.Val().ExactString())
				}
			}
		}
	}
	want := []string{"IsPowerOfTwo", "Identity", "fillBits", "CeilToPowerOfTwo", "FloorToPowerOfTwo", "Max", "Min"}
	decls := map[string]*ast.FuncDecl{}
	for _, d := range f.Decls {
		if fd, ok := d.(*ast.FuncDecl); ok && fd.Recv == nil {
			decls[fd.Name.Name] = fd
		}
	}
	pmathFns = map[string]*fnInfo{}
	for _, n := range want {
		fd := decls[n]
		if fd == nil {
			failf("pmath.go: function %s not found", n)
			continue
		}
		isBool := false
		if fd.Type.Results != nil && len(fd.Type.Results.List) == 1 {
			if id, ok := fd.Type.Results.List[0].Type.(*ast.Ident); ok && id.Name == "bool" {
				isBool = true
			}
		}
		info := &fnInfo{coqName: n, isBool: isBool, panics: hasPanic(fd.Body, pmathFns)}
		c := &ctx{fns: pmathFns, consts: consts, panics: info.panics}
		body := c.block(fd.Body.List, "ERR_FALLOFF")
		if strings.Contains(body, "ERR_FALLOFF") {
			failf("pmath.go: %s can fall off its end", n)
		}
		rt := "Z"
		if isBool {
			rt = "bool"
		}
		if info.panics {
			rt = "option " + rt
		}
		fmt.Fprintf(&sb, "\nDefinition %s (%s : Z) : %s :=\n  %s.\n", n, strings.Join(paramNames(fd.Type), " "), rt, body)
		pmathFns[n] = info
	}
	return sb.String(), nil
}

// translate utils/pool/generic.go: New's geometry, the size-class closure,
// the index computations of Get and Put as decision plans.
func genPoolArith(repo string) (string, error) {
	path := filepath.Join(repo, "utils/pool/generic.go")
	fset := token.NewFileSet()
	theFset = fset
	f, err := parser.ParseFile(fset, path, nil, 0)
	if err != nil {
		return "", err
	}
	if len(pmathFns) == 0 {
		return "", fmt.Errorf("pmath translation unavailable")
	}
	var sb strings.Builder
	fmt.Fprintf(&sb, genHeader, "utils/pool/generic.go")
	sb.WriteString("From GN Require Import Gen.PMath.\n\n")
	sb.WriteString("Inductive get_plan := GTry (idx n : Z) (els : get_plan) | GMiss (n : Z) | GPanic.\n")
	sb.WriteString("Inductive put_plan := PStore (idx : Z) | PDrop | PPanic.\n")

	var newFn, getFn, putFn *ast.FuncDecl
	for _, d := range f.Decls {
		if fd, ok := d.(*ast.FuncDecl); ok {
			switch fd.Name.Name {
			case "New":
				newFn = fd
			case "Get":
				getFn = fd
			case "Put":
				putFn = fd
			}
		}
	}
	if newFn == nil || getFn == nil || putFn == nil {
		return "", fmt.Errorf("generic.go: New/Get/Put not all found")
	}
	fns := map[string]*fnInfo{}
	for k, v := range pmathFns {
		fns[k] = v
	}

	// --- New: statements before the final return give (shardSize, stepSize);
	// the composite literal must wire them as expected.
	nb := newFn.Body.List
	ret, ok := nb[len(nb)-1].(*ast.ReturnStmt)
	if !ok || len(ret.Results) != 1 {
		return "", fmt.Errorf("generic.go: New does not end in a single return")
	}
	var sizeLit *ast.FuncLit
	var shardsExpr, stepExpr ast.Expr
	if u, ok := ret.Results[0].(*ast.UnaryExpr); ok {
		if cl, ok := u.X.(*ast.CompositeLit); ok {
			for _, el := range cl.Elts {
				kv, ok := el.(*ast.KeyValueExpr)
				if !ok {
					continue
				}
				switch kv.Key.(*ast.Ident).Name {
				case "pool":
					if call, ok := kv.Value.(*ast.CallExpr); ok && len(call.Args) == 2 {
						shardsExpr = call.Args[1]
					}
				case "size":
					sizeLit, _ = kv.Value.(*ast.FuncLit)
				case "stepSize":
					stepExpr = kv.Value
				}
			}
		}
	}
	if sizeLit == nil || shardsExpr == nil || stepExpr == nil {
		return "", fmt.Errorf("generic.go: New's Pool literal not of the expected shape (pool: make(.., n), size: func, stepSize: e)")
	}
	cn := &ctx{fns: fns, consts: map[string]string{}, panics: true}
	geom := cn.block(nb[:len(nb)-1], "Some ("+cn.expr(shardsExpr)+", "+cn.expr(stepExpr)+")")
	fmt.Fprintf(&sb, "\n(* New(max): Some (number of shards, stepSize), None = panic *)\nDefinition pool_geom (%s : Z) : option (Z * Z) :=\n  %s.\n",
		strings.Join(paramNames(newFn.Type), " "), geom)

	// --- the size closure; its free variables become leading parameters
	free := freeIdents(sizeLit)
	cs := &ctx{fns: fns, consts: map[string]string{}, panics: hasPanic(sizeLit.Body, fns)}
	sbody := cs.block(sizeLit.Body.List, "ERR_FALLOFF")
	rt := "Z"
	if cs.panics {
		rt = "option Z"
	}
	ps := append(free, paramNames(sizeLit.Type)...)
	fmt.Fprintf(&sb, "\n(* the size-class closure stored in Pool.size *)\nDefinition pool_size (%s : Z) : %s :=\n  %s.\n", strings.Join(ps, " "), rt, sbody)
	if len(free) != 1 || free[0] != "v_stepSize" {
		failf("generic.go: size closure captures %v, expected exactly stepSize", free)
	}
	fns[".size"] = &fnInfo{coqName: "pool_size v_stepSize", panics: cs.panics}

	recvName := func(fd *ast.FuncDecl) string {
		if fd.Recv != nil && len(fd.Recv.List) == 1 && len(fd.Recv.List[0].Names) == 1 {
			return fd.Recv.List[0].Names[0].Name
		}
		return ""
	}
	// --- Get
	gr := recvName(getFn)
	cg := &ctx{fns: fns, consts: map[string]string{}, panics: true, noneStr: "GPanic", recv: gr,
		fields:   map[string]string{"stepSize": "v_stepSize"},
		lenExprs: map[string]string{gr + ".pool": "v_shards"}, ifAsControl: true}
	cg.special = func(c *ctx, s ast.Stmt, rest func() string) (string, bool) {
		// if v := p.pool[IDX].Get(); v != nil { return v.(T), n }
		ifs, ok := s.(*ast.IfStmt)
		if !ok || ifs.Init == nil {
			return "", false
		}
		as, ok := ifs.Init.(*ast.AssignStmt)
		if !ok || len(as.Rhs) != 1 {
			return "", false
		}
		idx, ok := shardCall(as.Rhs[0], gr, "Get")
		if !ok {
			return "", false
		}
		if len(ifs.Body.List) != 1 || ifs.Else != nil {
			failf("generic.go: Get: shard hit branch not a single return")
			return "ERR", true
		}
		r, ok := ifs.Body.List[0].(*ast.ReturnStmt)
		if !ok || len(r.Results) != 2 {
			failf("generic.go: Get: shard hit branch not `return v, n`")
			return "ERR", true
		}
		if be, ok := ifs.Cond.(*ast.BinaryExpr); !ok || be.Op != token.NEQ {
			failf("generic.go: Get: shard hit condition is not `v != nil`")
		}
		return "GTry " + c.expr(idx) + " " + c.expr(r.Results[1]) + " (" + rest() + ")", true
	}
	cg.retWrap = func(c *ctx, rs []ast.Expr) string {
		if len(rs) != 2 {
			failf("generic.go: Get: return with %d results", len(rs))
			return "ERR"
		}
		return "GMiss " + c.expr(rs[1])
	}
	gbody := cg.block(getFn.Body.List, "ERR_FALLOFF")
	fmt.Fprintf(&sb, "\n(* Get(size): which shard is tried and the size reported *)\nDefinition pool_get (v_shards v_stepSize %s : Z) : get_plan :=\n  %s.\n",
		strings.Join(paramNames(getFn.Type), " "), gbody)

	// --- Put
	pr := recvName(putFn)
	cp := &ctx{fns: fns, consts: map[string]string{}, panics: true, noneStr: "PPanic", recv: pr,
		fields:   map[string]string{"stepSize": "v_stepSize"},
		lenExprs: map[string]string{pr + ".pool": "v_shards"}, ifAsControl: true}
	cp.special = func(c *ctx, s ast.Stmt, rest func() string) (string, bool) {
		es, ok := s.(*ast.ExprStmt)
		if !ok {
			return "", false
		}
		idx, ok := shardCall(es.X, pr, "Put")
		if !ok {
			return "", false
		}
		if r := rest(); r != "PDrop" {
			failf("generic.go: Put: statements follow the shard store")
		}
		return "PStore " + c.expr(idx), true
	}
	cp.retWrap = func(c *ctx, rs []ast.Expr) string {
		if len(rs) != 0 {
			failf("generic.go: Put returns values")
		}
		return "PDrop"
	}
	var pparams []string
	for _, p := range paramNames(putFn.Type) {
		if p != "v_x" {
			pparams = append(pparams, p)
		}
	}
	pbody := cp.block(putFn.Body.List, "PDrop")
	fmt.Fprintf(&sb, "\n(* Put(x, size): where the object is stored, if anywhere *)\nDefinition pool_put (v_shards v_stepSize %s : Z) : put_plan :=\n  %s.\n",
		strings.Join(pparams, " "), pbody)
	return sb.String(), nil
}

// shardCall matches RECV.pool[IDX].METHOD(...) and returns IDX.
func shardCall(e ast.Expr, recv, method string) (ast.Expr, bool) {
	call, ok := e.(*ast.CallExpr)
	if !ok {
		return nil, false
	}
	sel, ok := call.Fun.(*ast.SelectorExpr)
	if !ok || sel.Sel.Name != method {
		return nil, false
	}
	ix, ok := sel.X.(*ast.IndexExpr)
	if !ok {
		return nil, false
	}
	ps, ok := ix.X.(*ast.SelectorExpr)
	if !ok || ps.Sel.Name != "pool" {
		return nil, false
	}
	if id, ok := ps.X.(*ast.Ident); !ok || id.Name != recv {
		return nil, false
	}
	return ix.Index, true
}

// freeIdents lists identifiers used in a func literal that are neither its
// parameters, locals, package names nor builtins (sorted, v_-prefixed).
func freeIdents(fl *ast.FuncLit) []string {
	bound := map[string]bool{"true": true, "false": true, "nil": true, "panic": true, "len": true}
	for _, f := range fl.Type.Params.List {
		for _, n := range f.Names {
			bound[n.Name] = true
		}
	}
	ast.Inspect(fl.Body, func(n ast.Node) bool {
		if as, ok := n.(*ast.AssignStmt); ok && as.Tok == token.DEFINE {
			for _, l := range as.Lhs {
				if id, ok := l.(*ast.Ident); ok {
					bound[id.Name] = true
				}
			}
		}
		return true
	})
	seen := map[string]bool{}
	var walk func(n ast.Node) bool
	walk = func(n ast.Node) bool {
		switch x := n.(type) {
		case *ast.SelectorExpr:
			// pkg.Func: skip the package identifier
			if _, ok := x.X.(*ast.Ident); ok {
				return false
			}
		case *ast.Ident:
			if !bound[x.Name] {
				seen["v_"+x.Name] = true
			}
		}
		return true
	}
	ast.Inspect(fl.Body, walk)
	var out []string
	for k := range seen {
		out = append(out, k)
	}
	sort.Strings(out)
	return out
}

// Command gen is the TRANSLATOR of the verification framework: it reads Go
// sources of /repo and regenerates the Gallina files under coq/Gen on every
// run.  It understands a small, explicit subset of Go (see DESIGN.md section
// 8) and FAILS LOUDLY on anything outside it: a translation failure is a
// broken proof obligation, never a silent default.
//
// usage: gen -repo /repo -out /verif/coq/Gen
package main

import (
	"flag"
	"fmt"
	"os"
	"path/filepath"
)

var failures []string

func failf(format string, a ...interface{}) {
	failures = append(failures, fmt.Sprintf(format, a...))
}

// writeIfChanged keeps mtimes stable so that `make` rebuilds nothing on an
// unchanged tree.
func writeIfChanged(path, content string) {
	old, err := os.ReadFile(path)
	if err == nil && string(old) == content {
		return
	}
	if err := os.WriteFile(path, []byte(content), 0o644); err != nil {
		fmt.Fprintln(os.Stderr, "gen: write:", err)
		os.Exit(2)
	}
}

func main() {
	repo := flag.String("repo", "/repo", "repository root")
	out := flag.String("out", "/verif/coq/Gen", "output directory")
	flag.Parse()
	os.MkdirAll(*out, 0o755)

	type unit struct {
		name string
		fn   func(repo string) (string, error)
	}
	units := []unit{
		{"PMath.v", genPMath},
		{"PoolArith.v", genPoolArith},
		{"Consts.v", genConsts},
		{"Access.v", genAccess},
	}
	status := 0
	for _, u := range units {
		failures = nil
		src, err := u.fn(*repo)
		if err != nil {
			failures = append(failures, err.Error())
		}
		if len(failures) > 0 {
			status = 1
			for _, f := range failures {
				fmt.Printf("GEN-FAIL %s: %s\n", u.name, f)
			}
			// emit a file that cannot compile, so dependent proofs break visibly
			src = fmt.Sprintf("(* GENERATED: translation FAILED *)\nDefinition translation_failed : True := %q.\n", failures[0])
		}
		writeIfChanged(filepath.Join(*out, u.name), src)
	}
	os.Exit(status)
}

module verifgen

go 1.18

(* Correspondence checker for C17: projected observables only - the bytes at
   the far end after each Flush, and the bytes obtained by reading the peer's
   stream to its end.  Internal buffering decisions are not compared. *)
From Coq Require Import ZArith List Bool.
From GN Require Import Base.Reader Model.Frame Model.FrameCheck Model.Bufio.
Import ListNotations.
Open Scope Z_scope.

Inductive wospec := SWrite (p : list piece) | SWritev (ps : list (list piece)) | SFlush.
Definition wop_of (o : wospec) : wop :=
  match o with SWrite p => WWrite (wire_of p) | SWritev ps => WWritev (map wire_of ps) | SFlush => WFlush end.

Record bcase := { bc_id : nat; bc_rsize : Z; bc_wsize : Z; bc_ops : list wospec;
                  bc_flushed : list (Z * Z);      (* digest of the far end after each Flush *)
                  bc_peer : list piece; bc_cuts : list Z; bc_fin : finspec; bc_ks : list Z;
                  bc_read : Z * Z; bc_read_eof : bool }.

Definition dg_eq (a b : Z * Z) : bool := andb (fst a =? fst b) (snd a =? snd b).
Fixpoint dgl_eq (a b : list (Z * Z)) : bool :=
  match a, b with [], [] => true | x :: a', y :: b' => andb (dg_eq x y) (dgl_eq a' b') | _, _ => false end.

(* written payload before each flush, from the case alone (the property's own oracle) *)
Fixpoint written_at_flushes (acc : bytes) (ops : list wop) : list bytes :=
  match ops with
  | [] => []
  | WFlush :: r => acc :: written_at_flushes acc r
  | o :: r => written_at_flushes (acc ++ wpayload o) r
  end.

Definition check_bcase (c : bcase) : nat * option nat * option nat :=
  let ops := map wop_of (bc_ops c) in
  let init := {| conn_log := []; wbuf := [] |} in
  let m_flushed := map digest (flush_points (bc_wsize c) init ops) in
  let r := mk_script (wire_of (bc_peer c)) (bc_cuts c) (bc_fin c) in
  let '(rd, st) := read_stream (bc_rsize c) r (bc_ks c) in
  let agree := andb (dgl_eq m_flushed (bc_flushed c))
                    (andb (dg_eq (digest rd) (bc_read c)) (Bool.eqb (match st with REOF => true | _ => false end) (bc_read_eof c))) in
  let holds := andb (dgl_eq (map digest (written_at_flushes [] ops)) (bc_flushed c))
                    (dg_eq (digest (wire_of (bc_peer c))) (bc_read c)) in
  (bc_id c, if agree then None else Some 0%nat, if holds then None else Some 0%nat).
Definition check_bcases (l : list bcase) := filter bad3 (map check_bcase l).

(* ---- connection faults (Model/BufioFault.v): per-operation results and the far end after each operation ---- *)
From GN Require Import Model.BufioFault.
Record fcase := { fc_id : nat; fc_wsize : Z; fc_k : nat; fc_a : Z; fc_ops : list wospec;
                  fc_res : list (Z * bool * (Z * Z)) }.   (* bytes reported accepted, success, digest of the far end *)
Fixpoint fres_eq (m : list (Z * bool * bytes)) (o : list (Z * bool * (Z * Z))) : bool :=
  match m, o with
  | [], [] => true
  | (n, ok, far) :: m', (n', ok', d) :: o' => andb (andb (n =? n') (Bool.eqb ok ok')) (andb (dg_eq (digest far) d) (fres_eq m' o'))
  | _, _ => false
  end.
(* the property read off the observation alone: whenever Flush reports success, the far end holds exactly the
   bytes the calls before it reported as accepted, in call order *)
Fixpoint fobs_holds (acc : bytes) (ops : list wop) (o : list (Z * bool * (Z * Z))) : bool :=
  match ops, o with
  | WFlush :: r, (_, ok, d) :: o' => andb (if ok then dg_eq (digest acc) d else true) (fobs_holds acc r o')
  | op :: r, (n, _, _) :: o' => fobs_holds (acc ++ btake n (wpayload op)) r o'
  | _, _ => true
  end.
Definition check_fcase (c : fcase) : nat * option nat * option nat :=
  let ops := map wop_of (fc_ops c) in
  let '(res, _) := frun (fc_wsize c) (finit (Some (fc_k c, fc_a c))) ops in
  (fc_id c, if fres_eq res (fc_res c) then None else Some 0%nat, if fobs_holds [] ops (fc_res c) then None else Some 0%nat).
Definition check_fcases (l : list fcase) := filter bad3 (map check_fcase l).

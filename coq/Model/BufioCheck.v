(* Correspondence checker for C17: projected observables only - the bytes at
   the far end after each Flush, and the bytes obtained by reading the peer's
   stream to its end.  Internal buffering decisions are not compared. *)
From Coq Require Import ZArith List Bool.
From GN Require Import Base.Reader Model.Frame Model.FrameCheck Model.Bufio.
Import ListNotations.
Open Scope Z_scope.

Inductive wospec := SWrite (p : list piece) | SWritev (ps : list (list piece)) | SFlush.
Definition wop_of (o : wospec) : wop :=
  match o with SWrite p => WWrite (wire_of p) | SWritev ps => WWritev (map wire_of ps) | SFlush => WFlush end.

Record bcase := { bc_id : nat; bc_rsize : Z; bc_wsize : Z; bc_ops : list wospec;
                  bc_flushed : list (Z * Z);      (* digest of the far end after each Flush *)
                  bc_peer : list piece; bc_cuts : list Z; bc_fin : finspec; bc_ks : list Z;
                  bc_read : Z * Z; bc_read_eof : bool }.

Definition dg_eq (a b : Z * Z) : bool := andb (fst a =? fst b) (snd a =? snd b).
Fixpoint dgl_eq (a b : list (Z * Z)) : bool :=
  match a, b with [], [] => true | x :: a', y :: b' => andb (dg_eq x y) (dgl_eq a' b') | _, _ => false end.

(* written payload before each flush, from the case alone (the property's own oracle) *)
Fixpoint written_at_flushes (acc : bytes) (ops : list wop) : list bytes :=
  match ops with
  | [] => []
  | WFlush :: r => acc :: written_at_flushes acc r
  | o :: r => written_at_flushes (acc ++ wpayload o) r
  end.

Definition check_bcase (c : bcase) : nat * option nat * option nat :=
  let ops := map wop_of (bc_ops c) in
  let init := {| conn_log := []; wbuf := [] |} in
  let m_flushed := map digest (flush_points (bc_wsize c) init ops) in
  let r := mk_script (wire_of (bc_peer c)) (bc_cuts c) (bc_fin c) in
  let '(rd, st) := read_stream (bc_rsize c) r (bc_ks c) in
  let agree := andb (dgl_eq m_flushed (bc_flushed c))
                    (andb (dg_eq (digest rd) (bc_read c)) (Bool.eqb (match st with REOF => true | _ => false end) (bc_read_eof c))) in
  let holds := andb (dgl_eq (map digest (written_at_flushes [] ops)) (bc_flushed c))
                    (dg_eq (digest (wire_of (bc_peer c))) (bc_read c)) in
  (bc_id c, if agree then None else Some 0%nat, if holds then None else Some 0%nat).
Definition check_bcases (l : list bcase) := filter bad3 (map check_bcase l).

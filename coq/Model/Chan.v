(* channel.go, asynchronous (queued) channel: writers, background senders and
   closers as a small-step machine.  One model step = the code between two
   verification hooks (a thread's pc is the hook it is parked at), except that
   Close's loop condition is split into its two reads (CPoll: len(queue),
   CPoll2: the running flag), so the model has MORE interleavings than the
   hooks can exhibit.  Everything is a literal transcription of channel.go with
   the repairs of C06/C11 in place.  Executable definitions only. *)
From Coq Require Import List Arith Bool.
Import ListNotations.

Definition packet := nat.                       (* payload identity; contents are C10's concern *)

Inductive callkind := KWrite1 | KWritev | KCtxWrite1 | KCtxWritev | KWriter.
Record call := { cid : packet; ckind : callkind; cctx_done : bool }.   (* cctx_done: caller context already ended *)
Inductive result := ROk | RNoSpace | RCtxErr | RClosed.
(* which ready select case the Go runtime picked *)
Inductive choice := CAuto | CEnq | CCtx | CChan.

Inductive wpc := WCheck | WSelect | WCas | WExec.
Inductive spc := SStart | SPoll | SWritev | SLen1 | SFlush | SRelease | SRecheck | SReacq | SRecover.
Inductive cpc := CCas | CPoll | CPoll2 | CTakeover | CSetErr | CTClose | CCancel | CInactive.
Record closer_st := { c_err : nat; c_polls : nat }.     (* c_err 0 = Close(nil) *)

Inductive thread :=
| TWriter (calls : list call) (pc : wpc) (results : list (packet * result))
| TSender (pc : spc) (hand : list packet) (cont : option closer_st)   (* cont: running inline inside that Close *)
| TCloser (pc : cpc) (cs : closer_st) (outer : option closer_st)      (* outer: nested in an inline sender of that Close *)
| TDone.

Record st := {
  qcap : nat; until_write : bool;
  queue : list packet; running : bool; closed : bool; reason : option nat; ctx_done : bool;
  tlog : list (list packet);     (* batches the transport accepted, in order *)
  unflushed : nat; tclosed : nat; (* bytes written but not flushed; transport.Close calls *)
  lost : list packet;             (* ghost: packets dequeued and dropped because the transport was closed *)
  accepted : list packet;         (* ghost: packets enqueued, in order *)
  returned : list packet;         (* ghost: packets whose call has returned success *)
  inactive : list nat;            (* errors delivered with the inactive event *)
  creturned : bool;               (* ghost: some Close call has returned *)
  threads : list thread }.

Definition batch_cap (s : st) : nat := qcap s / 2 + 1.

Fixpoint upd {A} (l : list A) (i : nat) (x : A) : list A :=
  match l, i with
  | [], _ => []
  | _ :: t, O => x :: t
  | h :: t, S i => h :: upd t i x
  end.

(* functional record updates *)
Definition set_thr (s : st) (i : nat) (t : thread) : st :=
  {| qcap := qcap s; until_write := until_write s; queue := queue s; running := running s; closed := closed s;
     reason := reason s; ctx_done := ctx_done s; tlog := tlog s; unflushed := unflushed s; tclosed := tclosed s;
     lost := lost s; accepted := accepted s; returned := returned s; inactive := inactive s; creturned := creturned s;
     threads := upd (threads s) i t |}.
Definition set_queue (s : st) (q : list packet) : st :=
  {| qcap := qcap s; until_write := until_write s; queue := q; running := running s; closed := closed s;
     reason := reason s; ctx_done := ctx_done s; tlog := tlog s; unflushed := unflushed s; tclosed := tclosed s;
     lost := lost s; accepted := accepted s; returned := returned s; inactive := inactive s; creturned := creturned s; threads := threads s |}.
Definition set_running (s : st) (b : bool) : st :=
  {| qcap := qcap s; until_write := until_write s; queue := queue s; running := b; closed := closed s;
     reason := reason s; ctx_done := ctx_done s; tlog := tlog s; unflushed := unflushed s; tclosed := tclosed s;
     lost := lost s; accepted := accepted s; returned := returned s; inactive := inactive s; creturned := creturned s; threads := threads s |}.
Definition set_accepted (s : st) (a : list packet) : st :=
  {| qcap := qcap s; until_write := until_write s; queue := queue s; running := running s; closed := closed s;
     reason := reason s; ctx_done := ctx_done s; tlog := tlog s; unflushed := unflushed s; tclosed := tclosed s;
     lost := lost s; accepted := a; returned := returned s; inactive := inactive s; creturned := creturned s; threads := threads s |}.
Definition set_returned (s : st) (a : list packet) : st :=
  {| qcap := qcap s; until_write := until_write s; queue := queue s; running := running s; closed := closed s;
     reason := reason s; ctx_done := ctx_done s; tlog := tlog s; unflushed := unflushed s; tclosed := tclosed s;
     lost := lost s; accepted := accepted s; returned := a; inactive := inactive s; creturned := creturned s; threads := threads s |}.
Definition set_transport (s : st) (tl : list (list packet)) (uf : nat) (lo : list packet) : st :=
  {| qcap := qcap s; until_write := until_write s; queue := queue s; running := running s; closed := closed s;
     reason := reason s; ctx_done := ctx_done s; tlog := tl; unflushed := uf; tclosed := tclosed s;
     lost := lo; accepted := accepted s; returned := returned s; inactive := inactive s; creturned := creturned s; threads := threads s |}.
Definition set_close (s : st) (cl : bool) (re : option nat) (cd : bool) (tc : nat) (ina : list nat) : st :=
  {| qcap := qcap s; until_write := until_write s; queue := queue s; running := running s; closed := cl;
     reason := re; ctx_done := cd; tlog := tlog s; unflushed := unflushed s; tclosed := tc;
     lost := lost s; accepted := accepted s; returned := returned s; inactive := ina; creturned := creturned s; threads := threads s |}.
Definition set_creturned (s : st) : st :=
  {| qcap := qcap s; until_write := until_write s; queue := queue s; running := running s; closed := closed s;
     reason := reason s; ctx_done := ctx_done s; tlog := tlog s; unflushed := unflushed s; tclosed := tclosed s;
     lost := lost s; accepted := accepted s; returned := returned s; inactive := inactive s; creturned := true;
     threads := threads s |}.
Definition add_thread (s : st) (t : thread) : st :=
  {| qcap := qcap s; until_write := until_write s; queue := queue s; running := running s; closed := closed s;
     reason := reason s; ctx_done := ctx_done s; tlog := tlog s; unflushed := unflushed s; tclosed := tclosed s;
     lost := lost s; accepted := accepted s; returned := returned s; inactive := inactive s; creturned := creturned s;
     threads := threads s ++ [t] |}.

(* the current call returns with result r; the writer moves to its next call *)
Definition w_return (calls : list call) (res : list (packet * result)) (r : result) : thread :=
  match calls with
  | [] => TDone
  | c :: rest => TWriter rest WCheck (res ++ [(cid c, r)])
  end.

(* where an (inline or background) sender goes when writeOnce returns *)
Definition s_finish (cont : option closer_st) : thread :=
  match cont with
  | None => TDone
  | Some cs => TCloser CPoll cs None            (* back in Close's loop: c.vp("c.poll"); continue *)
  end.
(* where a Close goes when it returns *)
Definition c_finish (outer : option closer_st) : thread :=
  match outer with
  | None => TDone
  | Some cs => TCloser CPoll cs None            (* the nested Close inside an inline sender returns into the outer loop *)
  end.

Definition closedErr (s : st) : bool := orb (closed s) (ctx_done s).     (* closedErr() <> nil *)

(* resolve the select of asyncWrite: the requested case must be ready; CAuto is
   the order used when the caller does not care (exactly one outcome possible) *)
Definition select_pick (s : st) (c : call) (ch : choice) : option choice :=
  let space := length (queue s) <? qcap s in
  match ch with
  | CEnq => if space then Some CEnq else None
  | CCtx => if cctx_done c then Some CCtx else None
  | CChan => if ctx_done s then Some CChan else None
  | CAuto =>
      if cctx_done c then Some CCtx else if ctx_done s then Some CChan
      else if space then Some CEnq
      else if until_write s then None else Some CAuto
  end.

Definition step (s : st) (i : nat) (ch : choice) : option st :=
  match nth_error (threads s) i with
  | None | Some TDone => None
  | Some (TWriter calls pc res) =>
    match calls with
    | [] => None                                                     (* all calls made: finished *)
    | c :: _ =>
      match pc with
      | WCheck =>
          if closedErr s then Some (set_thr s i (w_return calls res RClosed))
          else Some (set_thr s i (TWriter calls WSelect res))
      | WSelect =>
          let pick := select_pick s c ch in
          match pick with
          | Some CEnq =>
              Some (set_thr (set_accepted (set_queue s (queue s ++ [cid c])) (accepted s ++ [cid c])) i
                            (TWriter calls WCas res))
          | Some CCtx => Some (set_thr s i (w_return calls res RCtxErr))
          | Some CChan => Some (set_thr s i (w_return calls res RClosed))
          | Some CAuto => Some (set_thr s i (w_return calls res RNoSpace))
          | None => None                                             (* parked: queue full, nothing else ready *)
          end
      | WCas =>
          if running s then Some (set_thr (set_returned s (returned s ++ [cid c])) i (w_return calls res ROk))
          else Some (set_thr (set_running s true) i (TWriter calls WExec res))
      | WExec =>
          Some (add_thread (set_thr (set_returned s (returned s ++ [cid c])) i (w_return calls res ROk))
                           (TSender SStart [] None))
      end
    end
  | Some (TSender pc hand cont) =>
    match pc with
    | SStart => Some (set_thr s i (TSender SPoll [] cont))
    | SPoll =>
        match queue s with
        | p :: q =>
            let hand' := hand ++ [p] in
            Some (set_thr (set_queue s q) i
                    (TSender (if length hand' <? batch_cap s then SPoll else SWritev) hand' cont))
        | [] => Some (set_thr s i (TSender (match hand with [] => SFlush | _ => SWritev end) hand cont))
        end
    | SWritev =>
        if 0 <? tclosed s
        then Some (set_thr (set_transport s (tlog s) (unflushed s) (lost s ++ hand)) i (TSender SRecover [] cont))
        else Some (set_thr (set_transport s (tlog s ++ [hand]) (unflushed s + length hand) (lost s)) i
                           (TSender SLen1 [] cont))
    | SLen1 => Some (set_thr s i (TSender (match queue s with [] => SFlush | _ => SPoll end) [] cont))
    | SFlush =>
        if 0 <? tclosed s then Some (set_thr s i (TSender SRecover [] cont))
        else Some (set_thr (set_transport s (tlog s) 0 (lost s)) i (TSender SRelease [] cont))
    | SRelease => Some (set_thr (set_running s false) i (TSender SRecheck [] cont))
    | SRecheck =>
        match queue s with
        | [] => Some (set_thr s i (s_finish cont))
        | _ => Some (set_thr s i (TSender SReacq [] cont))
        end
    | SReacq =>
        if running s then Some (set_thr s i (s_finish cont))
        else Some (set_thr (set_running s true) i (TSender SPoll [] cont))
    | SRecover =>          (* recover(): running := idle; Close(AsException(err)) with the transport's error (id 1) *)
        Some (set_thr (set_running s false) i (TCloser CCas {| c_err := 1; c_polls := 0 |} cont))
    end
  | Some (TCloser pc cs outer) =>
    match pc with
    | CCas =>
        if closed s then Some (set_thr (set_creturned s) i (c_finish outer))   (* lost the CAS: Close returns at once *)
        else Some (set_thr (set_close s true (reason s) (ctx_done s) (tclosed s) (inactive s)) i
                           (TCloser CPoll cs outer))
    | CPoll =>             (* (untilWrite || n < 10) && (len(queue) > 0 || ... *)
        if orb (until_write s) (c_polls cs <? 10) then
          match queue s with
          | [] => Some (set_thr s i (TCloser CPoll2 cs outer))
          | _ => Some (set_thr s i (TCloser CTakeover cs outer))
          end
        else Some (set_thr s i (TCloser CSetErr cs outer))
    | CPoll2 =>            (* ... || running != idle) *)
        if running s then Some (set_thr s i (TCloser CTakeover cs outer))
        else Some (set_thr s i (TCloser CSetErr cs outer))
    | CTakeover =>
        if running s
        then Some (set_thr s i (TCloser CPoll {| c_err := c_err cs; c_polls := S (c_polls cs) |} outer))  (* n++, sleep *)
        else match outer with
             | None => Some (set_thr (set_running s true) i (TSender SPoll [] (Some cs)))                  (* inline writeOnce: next hook is s.poll *)
             | Some _ => None      (* a nested Close never wins the closed CAS, so it never gets here *)
             end
    | CSetErr => Some (set_thr (set_close s (closed s) (Some (c_err cs)) (ctx_done s) (tclosed s) (inactive s)) i
                               (TCloser CTClose cs outer))
    | CTClose => Some (set_thr (set_close s (closed s) (reason s) (ctx_done s) (S (tclosed s)) (inactive s)) i
                               (TCloser CCancel cs outer))
    | CCancel => Some (set_thr (set_close s (closed s) (reason s) true (tclosed s) (inactive s)) i
                               (TCloser CInactive cs outer))
    | CInactive => Some (set_thr (set_creturned (set_close s (closed s) (reason s) (ctx_done s) (tclosed s) (inactive s ++ [c_err cs]))) i
                                 (c_finish outer))
    end
  end.

(* the bootstrap cancels the parent context (Shutdown): no Close has run *)
Definition parent_cancel (s : st) : st := set_close s (closed s) (reason s) true (tclosed s) (inactive s).

Inductive sched_ev := Run (i : nat) (ch : choice) | ParentCancel.
Definition step_ev (s : st) (e : sched_ev) : option st :=
  match e with Run i ch => step s i ch | ParentCancel => Some (parent_cancel s) end.
(* disabled picks are skipped *)
Fixpoint run (s : st) (sched : list sched_ev) : st :=
  match sched with
  | [] => s
  | e :: r => match step_ev s e with Some s' => run s' r | None => run s r end
  end.

Definition init (qc : nat) (until : bool) (ths : list thread) : st :=
  {| qcap := qc; until_write := until; queue := []; running := false; closed := false; reason := None;
     ctx_done := false; tlog := []; unflushed := 0; tclosed := 0; lost := []; accepted := []; returned := [];
     inactive := []; creturned := false; threads := ths |}.

Definition enabled (s : st) (i : nat) : bool :=
  match step s i CAuto with Some _ => true
  | None => match step s i CEnq with Some _ => true | None => false end end.
Definition quiescent (s : st) : bool := forallb (fun i => negb (enabled s i)) (seq 0 (length (threads s))).

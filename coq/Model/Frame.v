(* Frame codecs (codec/frame): literal transcriptions of the encoders and the
   decoders over Reader scripts.  The downstream consumer of a decoded frame is
   modelled as the property says ("fully read"): a decoder step returns the
   frame's bytes and the script after them.  Executable definitions only. *)
From Coq Require Import ZArith List Bool.
From GN Require Import Base.GoInt Base.Reader.
Import ListNotations.
Open Scope Z_scope.

Inductive exc :=
| EHeader      (* header could not be read completely *)
| ENegative    (* negative pre-adjustment length field *)
| ELess        (* adjusted frame length < lengthFieldEndOffset *)
| ETooLarge    (* frame length > maxFrameLength *)
| EStrip       (* initialBytesToStrip > frame length *)
| ETruncated   (* the stream ended inside the frame body *)
| EVarint      (* varint header unreadable / over-long *)
| ERead        (* transport read failed (delimiter, fixed) *)
| ERange.      (* encoder: length does not fit the length field *)
Inductive dres := DFrame (f : bytes) | DExc (e : exc) | DFault.

(* ---------- fixed-width length fields ---------- *)
Fixpoint le_val (l : bytes) : Z :=
  match l with [] => 0 | b :: r => Z.of_N b + 256 * le_val r end.
Fixpoint le_bytes (n : nat) (v : Z) : bytes :=
  match n with O => [] | S n => Z.to_N (v mod 256) :: le_bytes n (v / 256) end.
(* unpackFieldLength: byteOrder.UintXX then int64(...) *)
Definition unpack (be : bool) (l : bytes) : Z := wrap64 (le_val (if be then rev l else l)).
(* packFieldLength: byte(x) / uint16(x) / ... keep the low w bytes *)
Definition pack (be : bool) (w : Z) (v : Z) : bytes :=
  let l := le_bytes (Z.to_nat w) v in if be then rev l else l.

Record lfcfg := { lf_be : bool; lf_max : Z; lf_off : Z; lf_w : Z; lf_adj : Z; lf_strip : Z }.
Definition width_ok (w : Z) : bool := orb (orb (w =? 1) (w =? 2)) (orb (w =? 4) (w =? 8)).
(* the constructor's assertions *)
Definition lf_wf (c : lfcfg) : bool :=
  andb (andb (0 <? lf_max c) (0 <=? lf_off c))
       (andb (0 <=? lf_strip c) (andb (width_ok (lf_w c)) (lf_off c <=? lf_max c - lf_w c))).

(* lengthFieldCodec.HandleRead *)
Definition decode_lf (c : lfcfg) (r : script) : dres * script :=
  let endoff := lf_off c + lf_w c in
  match read_full endoff r with
  | (hdr, ROk, r1) =>
      let fl := unpack (lf_be c) (bdrop (lf_off c) hdr) in
      if fl <? 0 then (DExc ENegative, r1) else
      let fl := wrap64 (fl + wrap64 (lf_adj c + endoff)) in
      if fl <? endoff then (DExc ELess, r1) else
      if lf_max c <? fl then (DExc ETooLarge, r1) else
      if fl <? lf_strip c then (DExc EStrip, r1) else
      if fl - endoff <? 0 then (DFault, r1) else        (* make([]byte, negative) *)
      match read_full (fl - endoff) r1 with
      | (body, ROk, r2) => (DFrame (bdrop (lf_strip c) (hdr ++ body)), r2)
      | (_, _, r2) => (DExc ETruncated, r2)
      end
  | (_, _, r1) => (DExc EHeader, r1)
  end.

(* lengthFieldPrepender.HandleWrite *)
Record ppcfg := { pp_be : bool; pp_w : Z; pp_adj : Z; pp_incl : bool }.
Definition field_cap (w : Z) : Z := if w =? 8 then two63 else 2 ^ (8 * w).
Definition encode_pp (c : ppcfg) (body : bytes) : option bytes :=
  let len := wrap64 (blen body + pp_adj c) in
  let len := if pp_incl c then wrap64 (len + pp_w c) else len in
  if orb (len <? 0) (field_cap (pp_w c) <=? len) then None
  else Some (pack (pp_be c) (pp_w c) len ++ body).
(* the decoder that matches a stand-alone prepender *)
Definition pp_decoder (c : ppcfg) (max : Z) : lfcfg :=
  {| lf_be := pp_be c; lf_max := max; lf_off := 0; lf_w := pp_w c;
     lf_adj := - (pp_adj c + if pp_incl c then pp_w c else 0); lf_strip := pp_w c |}.

(* ---------- varint length ---------- *)
Fixpoint uv_enc (fuel : nat) (x : Z) : bytes :=
  match fuel with
  | O => []
  | S f => if x <? 128 then [Z.to_N x] else Z.to_N (x mod 128 + 128) :: uv_enc f (x / 128)
  end.
Definition uvarint (x : Z) : bytes := uv_enc 10 x.     (* binary.PutUvarint, x < 2^64 *)

(* binary.ReadUvarint over utils.byteReader; i counts bytes read so far,
   n = 10 - i remaining.  x | b<<s is written x + b*2^s (bits are disjoint). *)
Fixpoint uv_dec (n : nat) (i : Z) (x s : Z) (r : script) : option Z * script :=
  match n with
  | O => (None, r)                                        (* errOverflow *)
  | S n' =>
      match read_byte r with
      | (Some b, _, r') =>
          let b := Z.of_N b in
          if b <? 128 then
            if andb (i =? 9) (1 <? b) then (None, r') else (Some (x + b * 2 ^ s), r')
          else uv_dec n' (i + 1) (x + (b - 128) * 2 ^ s) (s + 7) r'
      | (None, _, r') => (None, r')                       (* EOF / unexpected EOF / error *)
      end
  end.
Definition read_uvarint (r : script) := uv_dec 10 0 0 0 r.

Definition decode_vi (max : Z) (r : script) : dres * script :=
  match read_uvarint r with
  | (Some fl, r1) =>
      if max <? fl then (DExc ETooLarge, r1) else
      match read_full fl r1 with
      | (body, ROk, r2) => (DFrame body, r2)
      | (_, _, r2) => (DExc ETruncated, r2)
      end
  | (None, r1) => (DExc EVarint, r1)
  end.
Definition encode_vi (max : Z) (body : bytes) : option bytes :=
  if max <? blen body then None else Some (uvarint (blen body) ++ body).

(* ---------- delimiter ---------- *)
Fixpoint beq_bytes (a b : bytes) : bool :=
  match a, b with
  | [], [] => true
  | x :: a', y :: b' => andb (N.eqb x y) (beq_bytes a' b')
  | _, _ => false
  end.
Definition has_suffix (d buf : bytes) : bool :=
  andb (blen d <=? blen buf) (beq_bytes d (bdrop (blen buf - blen d) buf)).

Fixpoint delim_loop (fuel : nat) (max : Z) (d : bytes) (strip : bool) (buf : bytes) (r : script)
  : dres * script :=
  if max <=? blen buf then (DExc ETooLarge, r) else
  match fuel with
  | O => (DFault, r)                                      (* unreachable: fuel = mu r + 1 *)
  | S f =>
      let '(bs, st, r') := read 1 r in
      match st with
      | ROk =>
          let buf' := buf ++ bs in
          if has_suffix d buf'
          then (DFrame (if strip then btake (blen buf' - blen d) buf' else buf'), r')
          else delim_loop f max d strip buf' r'
      | _ => (DExc ERead, r')                             (* AssertLength panics on any error *)
      end
  end.
Definition decode_dl (max : Z) (d : bytes) (strip : bool) (r : script) :=
  delim_loop (S (mu r)) max d strip [] r.
Definition encode_dl (d : bytes) (body : bytes) : bytes := body ++ d.

(* ---------- fixed length ---------- *)
Definition decode_fx (len : Z) (r : script) : dres * script :=
  match read_full len r with
  | (f, ROk, r') => (DFrame f, r')
  | (_, _, r') => (DExc ETruncated, r')
  end.

(* ---------- iterating a decoder ---------- *)
(* decode k frames in a row; stops at the first exception *)
Fixpoint decode_n (dec : script -> dres * script) (k : nat) (r : script) : list bytes * option dres * script :=
  match k with
  | O => ([], None, r)
  | S k' =>
      match dec r with
      | (DFrame f, r') => let '(fs, e, r'') := decode_n dec k' r' in (f :: fs, e, r'')
      | (e, r') => ([], Some e, r')
      end
  end.

(* Correspondence checker for the HTTP server codec model.  A case is one
   connection: the requests on the wire with their handler programs, and what
   the harness observed: handler invocations, and per response the head as a
   standard parser sees it plus the bytes that followed it (digest; the bytes
   themselves for small responses). *)
From Coq Require Import List NArith Bool Arith.
From GN Require Import Model.Http Model.HttpHead.
Import ListNotations.
Open Scope N_scope.

(* deterministic payloads: k-th byte = base + (start + k) mod 26 *)
Fixpoint gen26 (n : nat) (base c : N) : bytes :=
  match n with O => [] | S n' => base + c :: gen26 n' base (if c =? 25 then 0 else c + 1) end.
Fixpoint digest_aux (l : bytes) (s1 s2 : N) : N * N :=
  match l with [] => (s1, s2) | b :: r => let s1' := s1 + b in digest_aux r s1' (s2 + s1') end.
Definition digest (l : bytes) : N * N * N := let '(s1, s2) := digest_aux l 1 0 in (N.of_nat (length l), s1, s2).

Record hwrite := { hw_start : N; hw_len : nat; hw_flush : bool }.
Record hreq := { hr_id : nat; hr_close : bool; hr_body_start : N; hr_body_len : nat; hr_read : option nat;
                 hr_mode : rmode; hr_status : option N; hr_writes : list hwrite;
                 hr_xresp : option bytes }.              (* value of the X-Resp header the handler sets *)
Definition prog_of (r : hreq) : list haction :=
  match hr_status r with Some c => [AWriteHeader c] | None => [] end ++
  flat_map (fun w => AWrite (gen26 (hw_len w) 65 (hw_start w)) :: (if hw_flush w then [AFlush] else [])) (hr_writes r).
Definition request_of (r : hreq) : request :=
  {| q_id := hr_id r; q_close := hr_close r; q_body := gen26 (hr_body_len r) 97 (hr_body_start r); q_read := hr_read r;
     q_mode := hr_mode r; q_prog := prog_of r |}.

Record oresp := { or_status : N; or_mode : rmode; or_len : N;          (* the head as parsed *)
                  or_wire : N * N * N;                                  (* digest of the bytes between this head and the next *)
                  or_bytes : option bytes;                              (* those bytes, when few *)
                  or_head : option bytes }.                             (* the head's own bytes (status line .. blank line) *)
Record hobs := { ho_seen : list (nat * (N * N * N)); ho_resps : list oresp; ho_closed_at_end : bool; ho_garbage : bool }.
Record hcase := { hc_id : nat; hc_reqs : list hreq; hc_obs : hobs }.

Definition d3_eqb (a b : N * N * N) : bool :=
  let '(a1, a2, a3) := a in let '(b1, b2, b3) := b in andb (a1 =? b1) (andb (a2 =? b2) (a3 =? b3)).
Definition mode_eqb (a b : rmode) : bool :=
  match a, b with MLen, MLen | MChunked, MChunked | MNone, MNone => true | _, _ => false end.
Fixpoint list_eqb {A B} (f : A -> B -> bool) (a : list A) (b : list B) : bool :=
  match a, b with [], [] => true | x :: a', y :: b' => andb (f x y) (list_eqb f a' b') | _, _ => false end.

(* model side: what the connection loop produces *)
Definition model_seen (evs : list cev) : list (nat * (N * N * N)) :=
  flat_map (fun e => match e with CHandler id b => [(id, digest b)] | _ => [] end) evs.
Definition model_resps (evs : list cev) : list (head * (N * N * N)) :=
  flat_map (fun e => match e with
                     | CResp _ w => match heads_of w with h :: _ => [(h, digest (wire_of w))] | [] => [] end
                     | _ => [] end) evs.
Definition resp_agrees (m : head * (N * N * N)) (o : oresp) : bool :=
  andb (h_status (fst m) =? or_status o)
    (andb (mode_eqb (h_mode (fst m)) (or_mode o))
      (andb (match h_mode (fst m) with MLen => h_len (fst m) =? or_len o | _ => true end) (d3_eqb (snd m) (or_wire o)))).

(* the property on the observation alone: every response, read with the body reader a standard parser
   uses for its head, yields exactly the bytes the handler wrote; invocations are the requests in order *)
Definition obs_resp_ok (r : hreq) (o : oresp) : bool :=
  let want := concat (body_of_prog (prog_of r)) in
  andb (or_status o =? match hr_status r with Some c => c | None => 200 end)
  (match or_bytes o with
   | None => true
   | Some bs => match read_body {| h_status := or_status o; h_mode := or_mode o; h_len := or_len o |} bs with
                | Some (b, rest) => andb (list_eqb N.eqb b want) (match rest with [] => true | _ => false end)
                | None => false
                end
   end).
(* the head, read back by the byte-level parser of Model/HttpHead.v: the handler's status, its headers, the
   server header, and the framing header that matches the mode *)
Definition bytes_eqb (a b : bytes) : bool := list_eqb N.eqb a b.
Definition has_header (hs : list (bytes * bytes)) (k v : bytes) : bool :=
  existsb (fun kv => andb (bytes_eqb (fst kv) k) (bytes_eqb (snd kv) v)) hs.
Definition k_server : bytes := [83; 101; 114; 118; 101; 114].                                   (* "Server" *)
Definition v_server : bytes := [103; 111; 45; 110; 101; 116; 116; 121].                         (* "go-netty" *)
Definition k_xresp : bytes := [88; 45; 82; 101; 115; 112].                                      (* "X-Resp" *)
Definition k_clen : bytes := [67; 111; 110; 116; 101; 110; 116; 45; 76; 101; 110; 103; 116; 104].   (* "Content-Length" *)
Definition k_te : bytes := [84; 114; 97; 110; 115; 102; 101; 114; 45; 69; 110; 99; 111; 100; 105; 110; 103]. (* "Transfer-Encoding" *)
Definition v_chunked : bytes := [99; 104; 117; 110; 107; 101; 100].                              (* "chunked" *)
Definition obs_head_ok (r : hreq) (o : oresp) : bool :=
  match or_head o with
  | None => true
  | Some hb =>
      match parse_head hb with
      | Some (_, _, code, hs, rest) =>
          andb (match rest with [] => true | _ => false end)
          (andb (code =? match hr_status r with Some c => c | None => 200 end)
          (andb (has_header hs k_server v_server)
          (andb (match hr_xresp r with Some v => has_header hs k_xresp v | None => true end)
                (match hr_mode r with
                 | MLen => has_header hs k_clen (to_dec (N.of_nat (length (concat (body_of_prog (prog_of r))))))
                 | MChunked => has_header hs k_te v_chunked
                 | MNone => negb (orb (existsb (fun kv => bytes_eqb (fst kv) k_clen) hs) (existsb (fun kv => bytes_eqb (fst kv) k_te) hs))
                 end))))
      | None => false
      end
  end.

Fixpoint obs_resps_ok (rs : list hreq) (os : list oresp) : bool :=
  match rs, os with
  | _, [] => true
  | r :: rs', o :: os' => andb (andb (obs_resp_ok r o) (obs_head_ok r o)) (obs_resps_ok rs' os')
  | [], _ :: _ => false
  end.
Fixpoint seen_in_order (rs : list hreq) (seen : list (nat * (N * N * N))) : bool :=
  match rs, seen with
  | _, [] => true
  | r :: rs', (id, _) :: s' => andb (Nat.eqb id (hr_id r)) (seen_in_order rs' s')
  | [], _ :: _ => false
  end.

Definition check_hcase (c : hcase) : nat * option nat * option nat :=
  let o := hc_obs c in
  let evs := serve_conn (map request_of (hc_reqs c)) in
  let agree := andb (list_eqb (fun a b => andb (Nat.eqb (fst a) (fst b)) (d3_eqb (snd a) (snd b))) (model_seen evs) (ho_seen o))
                 (andb (list_eqb resp_agrees (model_resps evs) (ho_resps o))
                       (andb (ho_closed_at_end o) (negb (ho_garbage o)))) in
  (hc_id c, if agree then None else Some 0%nat,
   if andb (obs_resps_ok (hc_reqs c) (ho_resps o)) (seen_in_order (hc_reqs c) (ho_seen o)) then None else Some 0%nat).
Definition hbad (r : nat * option nat * option nat) : bool := match r with (_, None, None) => false | _ => true end.
Definition check_hcases (l : list hcase) := filter hbad (map check_hcase l).

(* Correspondence of the TRANSLATED arithmetic with the real pmath/pool
   functions: the harness records (function, argument, result) triples from
   the implementation; check_acases returns those the translation disagrees
   with.  Executable definitions only. *)
From Coq Require Import ZArith List Bool.
From GN Require Import Base.GoInt Gen.PMath Gen.PoolArith.
Import ListNotations.
Open Scope Z_scope.

Inductive acase :=
| ACeil (n r : Z) (panicked : bool)
| AFloor (n r : Z)
| AIsPow2 (n : Z) (r : bool)
| AGeom (max sh st : Z) (panicked : bool).

Definition acase_ok (c : acase) : bool :=
  match c with
  | ACeil n r p =>
      match CeilToPowerOfTwo n with Some x => andb (negb p) (Z.eqb x r) | None => p end
  | AFloor n r => Z.eqb (FloorToPowerOfTwo n) r
  | AIsPow2 n r => Bool.eqb (IsPowerOfTwo n) r
  | AGeom m sh st p =>
      match pool_geom m with
      | Some (a, b) => andb (negb p) (andb (Z.eqb a sh) (Z.eqb b st))
      | None => p
      end
  end.

Definition check_acases (l : list acase) : list acase := filter (fun c => negb (acase_ok c)) l.

(* handler.go: readIdleHandler / writeIdleHandler as a timed machine (C20).
   Time is in abstract ticks (N, microseconds in the harness); every event
   carries the time at which it happens, non-decreasing.  The timer facility is
   transcribed as far as the handlers use it: AfterFunc / Reset arm one
   deadline, Stop disarms it, a firing starts a callback in its own goroutine
   (callbacks may overlap).  The callback is split at its three lock regions
   (decide under the read lock, trigger outside any lock, re-arm under the read
   lock) so that messages and Inactive interleave anywhere.
   Executable definitions only. *)
From Coq Require Import List NArith Bool.
Import ListNotations.
Open Scope N_scope.

Inductive cbpc := CbDecide | CbTrigger (decided : N) | CbRearm | CbDone.

Record ist := {
  idle : N;                     (* configured idle time *)
  now : N;
  last : N;                     (* lastReadTime / lastWriteTime *)
  hctx : bool;                  (* handlerCtx != nil *)
  tfield : bool;                (* readTimer != nil *)
  armed : option N;             (* pending deadline of the timer *)
  cbs : list cbpc;              (* callbacks in flight, in firing order *)
  out : list (N * N);           (* idle events delivered: (decision time, delivery time) *)
  excs : nat;                   (* exceptions routed for panicking event handlers *)
  crashed : bool;               (* a panic escaped the timer goroutine *)
  msgs : list N;                (* ghost: times of Active / message updates, newest first *)
  inactive_at : option (nat * nat);   (* ghost: when Inactive passed: idle events delivered so far, callbacks past their decision *)
  activated : bool }.

Inductive iev :=
| EActive (t : N)
| EMsg (t : N)                          (* HandleRead / HandleWrite updates the handler *)
| EInactive (t : N)
| EFire (t : N)                         (* the runtime fires the timer: needs an armed deadline <= t *)
| EDecide (i : nat) (t : N)             (* callback i reads the clock and the context under the read lock *)
| ETrigger (i : nat) (t : N) (panics : bool)   (* callback i delivers the idle event; the event's handlers may panic *)
| ERearm (i : nat) (t : N).

Fixpoint upd {A} (l : list A) (i : nat) (x : A) : list A :=
  match l, i with [], _ => [] | _ :: r, O => x :: r | h :: r, S i => h :: upd r i x end.

Definition set_time (s : ist) (t : N) : ist :=
  {| idle := idle s; now := t; last := last s; hctx := hctx s; tfield := tfield s; armed := armed s; cbs := cbs s;
     out := out s; excs := excs s; crashed := crashed s; msgs := msgs s; inactive_at := inactive_at s; activated := activated s |}.

Definition istep (s : ist) (e : iev) : option ist :=
  let t := match e with EActive t | EMsg t | EInactive t | EFire t | EDecide _ t | ETrigger _ t _ | ERearm _ t => t end in
  if t <? now s then None else
  match e with
  | EActive _ =>
      if activated s then None else
      Some {| idle := idle s; now := t; last := t; hctx := true; tfield := true; armed := Some (t + idle s); cbs := cbs s;
              out := out s; excs := excs s; crashed := crashed s; msgs := t :: msgs s; inactive_at := inactive_at s; activated := true |}
  | EMsg _ =>
      Some {| idle := idle s; now := t; last := t; hctx := hctx s; tfield := tfield s;
              armed := if tfield s then Some (t + idle s) else armed s; cbs := cbs s;
              out := out s; excs := excs s; crashed := crashed s; msgs := t :: msgs s; inactive_at := inactive_at s; activated := activated s |}
  | EInactive _ =>
      if negb (activated s) then None else      (* inactive is only ever delivered after active *)
      Some {| idle := idle s; now := t; last := last s; hctx := false; tfield := false;
              armed := if tfield s then None else armed s; cbs := cbs s;
              out := out s; excs := excs s; crashed := crashed s; msgs := msgs s;
              inactive_at := match inactive_at s with
                             | None => Some (length (out s), length (filter (fun p => match p with CbTrigger _ => true | _ => false end) (cbs s)))
                             | x => x end;
              activated := activated s |}
  | EFire _ =>
      match armed s with
      | Some dl => if t <? dl then None else
          Some {| idle := idle s; now := t; last := last s; hctx := hctx s; tfield := tfield s; armed := None; cbs := cbs s ++ [CbDecide];
                  out := out s; excs := excs s; crashed := crashed s; msgs := msgs s; inactive_at := inactive_at s; activated := activated s |}
      | None => None
      end
  | EDecide i _ =>
      match nth_error (cbs s) i with
      | Some CbDecide =>
          let expired := idle s <=? t - last s in
          let s1 := set_time s t in
          Some {| idle := idle s1; now := now s1; last := last s1; hctx := hctx s1; tfield := tfield s1; armed := armed s1;
                  cbs := upd (cbs s) i (if andb expired (hctx s) then CbTrigger t else CbRearm);
                  out := out s1; excs := excs s1; crashed := crashed s1; msgs := msgs s1; inactive_at := inactive_at s1; activated := activated s1 |}
      | _ => None
      end
  | ETrigger i _ panics =>
      match nth_error (cbs s) i with
      | Some (CbTrigger d) =>
          (* ctx.Trigger(IdleEvent) inside func(){ defer recover -> FireChannelException }() *)
          Some {| idle := idle s; now := t; last := last s; hctx := hctx s; tfield := tfield s; armed := armed s;
                  cbs := upd (cbs s) i CbRearm; out := out s ++ [(d, t)];
                  excs := if panics then S (excs s) else excs s; crashed := crashed s;
                  msgs := msgs s; inactive_at := inactive_at s; activated := activated s |}
      | _ => None
      end
  | ERearm i _ =>
      match nth_error (cbs s) i with
      | Some CbRearm =>
          Some {| idle := idle s; now := t; last := last s; hctx := hctx s; tfield := tfield s;
                  armed := if tfield s then Some (t + idle s) else armed s;
                  cbs := upd (cbs s) i CbDone; out := out s; excs := excs s; crashed := crashed s;
                  msgs := msgs s; inactive_at := inactive_at s; activated := activated s |}
      | _ => None
      end
  end.

Fixpoint irun (s : ist) (h : list iev) : ist :=
  match h with [] => s | e :: r => match istep s e with Some s' => irun s' r | None => irun s r end end.
Definition iinit (idle0 : N) : ist :=
  {| idle := idle0; now := 0; last := 0; hctx := false; tfield := false; armed := None; cbs := []; out := []; excs := 0;
     crashed := false; msgs := []; inactive_at := None; activated := false |}.

(* ---- checkers ---- *)
(* every delivered idle event was decided a full idle period after every earlier update (and activation) *)
Definition in_flight (s : ist) : nat := length (filter (fun p => match p with CbDone => false | _ => true end) (cbs s)).
Definition past_decision (s : ist) : nat := length (filter (fun p => match p with CbTrigger _ => true | _ => false end) (cbs s)).
(* the property's first clause on a final state: each delivered event was decided a full period
   after every update that preceded the decision (updates at or after the decision instant are later) *)
Definition full_period_ok (s : ist) : bool :=
  forallb (fun de => forallb (fun m => orb (fst de <=? m) (m + idle s <=? fst de)) (msgs s)) (out s).
Definition after_inactive_ok (s : ist) : bool :=
  match inactive_at s with
  | Some (n, k) => andb (Nat.leb (length (out s)) (n + k)) (andb (negb (tfield s)) (match armed s with None => true | _ => false end))
  | None => true
  end.

(* transport/buffered.go over a connection that FAILS: the fault plan makes the
   (k+1)-th next Write on the connection accept only `a` bytes and report an
   error (a timeout or any other error: the wrappers do not look at its kind).
   bufio.Writer is re-modelled with its sticky error: after a failed write to
   the connection every later Write and Flush fails at once and changes nothing;
   the bytes that were not accepted stay in its buffer.  The unbuffered variants
   write straight to the connection and keep no error.  Writev =
   net.Buffers.WriteTo: one Write per buffer, stopping at the first error.
   Each operation returns (bytes reported as accepted, success).  Executable
   definitions only; Model/Bufio.v is the fault-free special case
   (Proof/BufioFault_proofs.v: fault_free_agrees). *)
From Coq Require Import ZArith List Bool.
From GN Require Import Base.Reader Model.Bufio.
Import ListNotations.
Open Scope Z_scope.

Record fstate := { f_log : bytes; f_buf : bytes; f_err : bool; f_plan : option (nat * Z) }.

(* one Write on the connection: bytes accepted, failed?, new state *)
Definition conn_write (s : fstate) (p : bytes) : Z * bool * fstate :=
  match f_plan s with
  | Some (O, a) =>
      let n := Z.min (Z.max a 0) (blen p) in
      (n, true, {| f_log := f_log s ++ btake n p; f_buf := f_buf s; f_err := f_err s; f_plan := None |})
  | Some (S k, a) => (blen p, false, {| f_log := f_log s ++ p; f_buf := f_buf s; f_err := f_err s; f_plan := Some (k, a) |})
  | None => (blen p, false, {| f_log := f_log s ++ p; f_buf := f_buf s; f_err := f_err s; f_plan := None |})
  end.
Definition set_buf (s : fstate) (b : bytes) (e : bool) : fstate :=
  {| f_log := f_log s; f_buf := b; f_err := e; f_plan := f_plan s |}.

(* bufio.Writer.Flush *)
Definition fb_flush (s : fstate) : bool * fstate :=
  if f_err s then (false, s)
  else match f_buf s with
       | [] => (true, s)
       | b => let '(n, failed, s1) := conn_write s b in
              if failed then (false, set_buf s1 (bdrop n b) true) else (true, set_buf s1 [] false)
       end.

(* bufio.Writer.Write for a writer of `size` bytes: (bytes accepted, success, state) *)
Definition fb_write (size : Z) (s : fstate) (p : bytes) : Z * bool * fstate :=
  if f_err s then (0, false, s)
  else if blen p <=? size - blen (f_buf s) then (blen p, true, set_buf s (f_buf s ++ p) false)
  else match f_buf s with
       | [] => let '(n, failed, s1) := conn_write s p in                 (* large write, empty buffer: straight through *)
               if failed then (n, false, set_buf s1 [] true) else (blen p, true, s1)
       | b =>
           let k := size - blen b in
           let full := b ++ btake k p in                                   (* fill the buffer, flush it *)
           let '(n, failed, s1) := conn_write s full in
           if failed then (k, false, set_buf s1 (bdrop n full) true)
           else
             let p' := bdrop k p in
             let s2 := set_buf s1 [] false in
             if blen p' <=? size then (blen p, true, set_buf s2 p' false)
             else let '(n2, failed2, s3) := conn_write s2 p' in
                  if failed2 then (k + n2, false, set_buf s3 [] true) else (blen p, true, s3)
       end.

(* the wrapper variants: write buffer size 0 = unbuffered *)
Definition ft_write (wsize : Z) (s : fstate) (p : bytes) : Z * bool * fstate :=
  if 0 <? wsize then fb_write wsize s p
  else let '(n, failed, s1) := conn_write s p in (n, negb failed, s1).
Fixpoint ft_writev (wsize : Z) (s : fstate) (ps : list bytes) (acc : Z) : Z * bool * fstate :=
  match ps with
  | [] => (acc, true, s)
  | p :: r => let '(n, ok, s1) := ft_write wsize s p in
              if ok then ft_writev wsize s1 r (acc + n) else (acc + n, false, s1)
  end.
Definition ft_flush (wsize : Z) (s : fstate) : bool * fstate := if 0 <? wsize then fb_flush s else (true, s).

(* one operation: (bytes reported as accepted, success, state) *)
Definition fstep (wsize : Z) (s : fstate) (o : wop) : Z * bool * fstate :=
  match o with
  | WWrite p => ft_write wsize s p
  | WWritev ps => ft_writev wsize s ps 0
  | WFlush => let '(ok, s1) := ft_flush wsize s in (0, ok, s1)
  end.
(* the run: per-operation results with the far end's bytes after each operation *)
Fixpoint frun (wsize : Z) (s : fstate) (ops : list wop) : list (Z * bool * bytes) * fstate :=
  match ops with
  | [] => ([], s)
  | o :: r => let '(n, ok, s1) := fstep wsize s o in
              let '(out, s2) := frun wsize s1 r in ((n, ok, f_log s1) :: out, s2)
  end.
Definition finit (plan : option (nat * Z)) : fstate := {| f_log := []; f_buf := []; f_err := false; f_plan := plan |}.

(* the bytes the calls reported as accepted, in call order *)
Fixpoint accepted_stream (ops : list wop) (res : list (Z * bool * bytes)) : bytes :=
  match ops, res with
  | o :: r, (n, _, _) :: rr => btake n (wpayload o) ++ accepted_stream r rr
  | _, _ => []
  end.

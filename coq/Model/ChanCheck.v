(* Correspondence checker for the channel model: the harness ran a schedule on
   the real channel (thread indices in spawn order, one entry per hook step);
   the model replays it and must reach the same observables. *)
From Coq Require Import List Arith Bool.
From GN Require Import Model.Chan.
Import ListNotations.

Record cobs := { ob_results : list (list (packet * result)); ob_tlog : list (list packet);
                 ob_qlen : nat; ob_running : bool; ob_closed : bool; ob_ctxdone : bool;
                 ob_tclosed : nat; ob_inactive : list nat }.
Record ccase := { cc_id : nat; cc_qcap : nat; cc_until : bool; cc_threads : list thread;
                  cc_sched : list sched_ev; cc_obs : cobs }.

(* one hook step; Close's loop condition (one hook) is two model steps *)
Definition hook_step (s : st) (e : sched_ev) : option st :=
  match step_ev s e with
  | Some s' =>
      match e with
      | Run i _ => match nth_error (threads s') i with
                   | Some (TCloser CPoll2 _ _) => step s' i CAuto
                   | _ => Some s'
                   end
      | ParentCancel => Some s'
      end
  | None => None
  end.
(* every step the implementation took must be enabled in the model *)
Fixpoint run_hooks (s : st) (sched : list sched_ev) (k : nat) : st * option nat :=
  match sched with
  | [] => (s, None)
  | e :: r => match hook_step s e with
              | Some s' => run_hooks s' r (S k)
              | None => (s, Some k)
              end
  end.

Definition result_eqb (a b : result) : bool :=
  match a, b with ROk, ROk | RNoSpace, RNoSpace | RCtxErr, RCtxErr | RClosed, RClosed => true | _, _ => false end.
Fixpoint list_eqb {A} (f : A -> A -> bool) (a b : list A) : bool :=
  match a, b with [], [] => true | x :: a', y :: b' => andb (f x y) (list_eqb f a' b') | _, _ => false end.
Definition res_eqb (a b : packet * result) := andb (Nat.eqb (fst a) (fst b)) (result_eqb (snd a) (snd b)).

Definition writer_results (t : thread) : option (list (packet * result)) :=
  match t with TWriter _ _ res => Some res | _ => None end.
Definition all_results (s : st) : list (list (packet * result)) :=
  flat_map (fun t => match writer_results t with Some r => [r] | None => [] end) (threads s).

Fixpoint nodup_b (l : list nat) : bool :=
  match l with [] => true | x :: r => andb (negb (existsb (Nat.eqb x) r)) (nodup_b r) end.

(* property checker on the OBSERVATION alone (C01): transmitted packets are
   distinct and each belongs to a call that did not report an error *)
Definition obs_holds (o : cobs) : bool :=
  let sent := concat (ob_tlog o) in
  let failed := flat_map (fun rs => flat_map (fun r => match snd r with ROk => [] | _ => [fst r] end) rs) (ob_results o) in
  andb (nodup_b sent) (forallb (fun p => negb (existsb (Nat.eqb p) failed)) sent).

Definition check_ccase (c : ccase) : nat * option nat * option nat :=
  let s0 := init (cc_qcap c) (cc_until c) (cc_threads c) in
  let '(s, stuck) := run_hooks s0 (cc_sched c) 0 in
  let o := cc_obs c in
  let agree :=
    match stuck with
    | Some _ => false
    | None =>
        andb (list_eqb (list_eqb res_eqb) (all_results s) (ob_results o))
        (andb (list_eqb (list_eqb Nat.eqb) (tlog s) (ob_tlog o))
        (andb (Nat.eqb (length (queue s)) (ob_qlen o))
        (andb (Bool.eqb (running s) (ob_running o))
        (andb (Bool.eqb (closed s) (ob_closed o))
        (andb (Bool.eqb (ctx_done s) (ob_ctxdone o))
        (andb (Nat.eqb (tclosed s) (ob_tclosed o)) (list_eqb Nat.eqb (inactive s) (ob_inactive o))))))))
    end in
  (cc_id c, if agree then None else Some (match stuck with Some k => S k | None => 0 end),
   if obs_holds o then None else Some 0).
Definition cbad (r : nat * option nat * option nat) : bool :=
  match r with (_, None, None) => false | _ => true end.
Definition check_ccases (l : list ccase) := filter cbad (map check_ccase l).

(* The synchronisation policy of go-netty's concurrently usable API (C12):
   hand-written, one entry per field of the tracked structs; the field keys and
   function ids come from the generated Gen/Access.v, so a renamed or removed
   field or function breaks this file loudly, and a NEW field has no entry
   (PNone: every access to it is reported). *)
From Coq Require Import List Arith Bool.
From GN Require Import Model.Lockset Gen.Access.
Import ListNotations.

Definition policy_table : list (nat * prot) :=
  [ (* pool.Pool: immutable after New; the shards are sync.Pool values *)
    (f_Pool_pool, PInit); (f_Pool_size, PInit); (f_Pool_stepSize, PInit);
    (* bootstrap *)
    (f_bootstrap_bootstrapOptions, PInit); (f_bootstrap_listeners, PSync);
    (f_bootstrapOptions_bootstrapCtx, PInit); (f_bootstrapOptions_bootstrapCancel, PInit);
    (f_bootstrapOptions_clientInitializer, PInit); (f_bootstrapOptions_childInitializer, PInit);
    (f_bootstrapOptions_transportFactory, PInit); (f_bootstrapOptions_channelFactory, PInit);
    (f_bootstrapOptions_pipelineFactory, PInit); (f_bootstrapOptions_channelIDFactory, PInit);
    (f_bootstrapOptions_executor, PInit); (f_bootstrapOptions_holder, PInit);
    (* channel *)
    (f_channel_id, PInit); (f_channel_ctx, PInit); (f_channel_cancel, PInit); (f_channel_transport, PInit);
    (f_channel_executor, PInit); (f_channel_pipeline, PInit);
    (f_channel_attachment, POut);                 (* "unsynchronised attachment access is outside this contract" *)
    (f_channel_writeQueue, PInit);                (* the Go channel itself synchronises; the field never changes *)
    (f_channel_recycleBuffers, PToken f_channel_running); (f_channel_writeBuffers, PToken f_channel_running);
    (f_channel_untilWrite, PInit);
    (f_channel_closed, PAtomic); (f_channel_running, PAtomic);
    (f_channel_closeErr, PSync); (f_channel_writeLock, PSync);
    (* holder *)
    (f_channelHolder_channels, PMutex f_channelHolder_mutex); (f_channelHolder_mutex, PSync);
    (* listener *)
    (f_listener_bs, PInit); (f_listener_url, PInit); (f_listener_option, PInit);
    (f_listener_options, POwnerRead f_listener_mutex);
    (f_listener_acceptor, PMutex f_listener_mutex); (f_listener_closed, PMutex f_listener_mutex);
    (f_listener_mutex, PSync);
    (* idle handlers *)
    (f_readIdleHandler_mutex, PSync); (f_readIdleHandler_idleTime, PInit);
    (f_readIdleHandler_lastReadTime, PMutex f_readIdleHandler_mutex);
    (f_readIdleHandler_readTimer, PMutex f_readIdleHandler_mutex);
    (f_readIdleHandler_handlerCtx, PMutex f_readIdleHandler_mutex);
    (f_writeIdleHandler_mutex, PSync); (f_writeIdleHandler_idleTime, PInit);
    (f_writeIdleHandler_lastWriteTime, PMutex f_writeIdleHandler_mutex);
    (f_writeIdleHandler_writeTimer, PMutex f_writeIdleHandler_mutex);
    (f_writeIdleHandler_handlerCtx, PMutex f_writeIdleHandler_mutex) ].

Fixpoint lookup_prot (t : list (nat * prot)) (k : nat) : prot :=
  match t with [] => PNone | (k', p) :: r => if Nat.eqb k' k then p else lookup_prot r k end.

Definition the_policy : policy :=
  {| p_prot := lookup_prot policy_table;
     (* writeOnce runs only with the send token (CAS idle->running on `running`): exclusivity is I_token of the channel machine *)
     p_token_funcs := [(fn_channel_writeOnce, f_channel_running)];
     (* the accept loop reads the options it stored itself *)
     p_owner_funcs := [fn_listener_Sync] |}.

Definition c12_bad_sites : list (nat * site) := bad_sites the_policy sites.
Definition c12_bad_calls : list mcall := bad_calls the_policy calls.

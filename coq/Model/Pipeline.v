(* pipeline.go: the doubly linked list of handler contexts AS THE CODE HAS IT:
   an append-only arena of nodes with separate next / prev links, ids 0 = head,
   1 = tail.  addFirst / addLast / AddHandler are literal transcriptions,
   including the order of the two link assignments, so that "forgot the
   back-link" is a different model, not an unrepresentable one.
   Executable definitions only. *)
From Coq Require Import ZArith List Bool Arith.
Import ListNotations.

Section P.
Variable H : Type.   (* handlers *)

Record node := { hd : option H; prev : option nat; next : option nat }.
Record pipe := { arena : list node; size : nat }.

Fixpoint upd {A} (l : list A) (i : nat) (x : A) : list A :=
  match l, i with
  | [], _ => []
  | _ :: t, O => x :: t
  | h :: t, S i => h :: upd t i x
  end.
Definition set_next (l : list node) (i : nat) (v : option nat) :=
  match nth_error l i with Some n => upd l i {| hd := hd n; prev := prev n; next := v |} | None => l end.
Definition set_prev (l : list node) (i : nat) (v : option nat) :=
  match nth_error l i with Some n => upd l i {| hd := hd n; prev := v; next := next n |} | None => l end.

(* NewPipeline *)
Definition new_pipe : pipe :=
  {| arena := [ {| hd := None; prev := None; next := Some 1 |}; {| hd := None; prev := Some 0; next := None |} ];
     size := 2 |}.

(* oldNext := a.next; a.next = new(h, a, oldNext); oldNext.prev = a.next; size++
   (addFirst with a = head; the loop body of AddHandler with a = curNode) *)
Definition insert_after (p : pipe) (a : nat) (h : H) : option pipe :=
  match nth_error (arena p) a with
  | Some na =>
    match next na with
    | Some b =>
      let n := length (arena p) in
      let l1 := set_next (arena p) a (Some n) in
      let l2 := l1 ++ [ {| hd := Some h; prev := Some a; next := Some b |} ] in
      let l3 := set_prev l2 b (Some n) in
      Some {| arena := l3; size := S (size p) |}
    | None => None
    end
  | None => None
  end.

(* oldPrev := tail.prev; tail.prev = new(h, oldPrev, tail); oldPrev.next = tail.prev; size++ *)
Definition add_last1 (p : pipe) (h : H) : option pipe :=
  match nth_error (arena p) 1 with
  | Some nt =>
    match prev nt with
    | Some a =>
      let n := length (arena p) in
      let l1 := set_prev (arena p) 1 (Some n) in
      let l2 := l1 ++ [ {| hd := Some h; prev := Some a; next := Some 1 |} ] in
      let l3 := set_next l2 a (Some n) in
      Some {| arena := l3; size := S (size p) |}
    | None => None
    end
  | None => None
  end.

Fixpoint fold_opt {A B} (f : A -> B -> option A) (a : A) (l : list B) : option A :=
  match l with [] => Some a | x :: r => match f a x with Some a' => fold_opt f a' r | None => None end end.

Definition add_first (p : pipe) (hs : list H) : option pipe := fold_opt (fun p h => insert_after p 0 h) p hs.
Definition add_last (p : pipe) (hs : list H) : option pipe := fold_opt add_last1 p hs.

(* follow `next` k times from node i *)
Fixpoint step_next (l : list node) (k : nat) (i : nat) : option nat :=
  match k with
  | O => Some i
  | S k' => match nth_error l i with
            | Some n => match next n with Some j => step_next l k' j | None => None end
            | None => None
            end
  end.

(* AddHandler(position, hs): None = panic (invalid position / nil dereference) *)
Definition add_handler (p : pipe) (pos : Z) (hs : list H) : option pipe :=
  if (Z.of_nat (size p) <=? pos)%Z then None
  else if orb (pos =? -1)%Z (pos =? Z.of_nat (size p) - 1)%Z then add_last p hs
  else match step_next (arena p) (Z.to_nat pos) 0 with      (* negative positions: the loop does not run *)
       | Some cur =>
           (* curNode advances to each inserted context *)
           option_map fst
             (fold_opt (fun st h => match insert_after (fst st) (snd st) h with
                                    | Some p' => Some (p', length (arena (fst st)))
                                    | None => None end) (p, cur) hs)
       | None => None
       end.

Inductive op := OAddFirst (hs : list H) | OAddLast (hs : list H) | OAddHandler (pos : Z) (hs : list H).
Definition apply_op (p : pipe) (o : op) : option pipe :=
  match o with
  | OAddFirst hs => add_first p hs
  | OAddLast hs => add_last p hs
  | OAddHandler pos hs => add_handler p pos hs
  end.
(* a panicking operation leaves the pipeline as it was before the call started
   ONLY if it panics before mutating: AddHandler checks the position first *)
Definition run_ops (ops : list op) : option pipe := fold_opt apply_op new_pipe ops.

(* walks with fuel; None = a dangling link or a cycle *)
Fixpoint walk_next (fuel : nat) (l : list node) (i : nat) : option (list nat) :=
  match fuel with
  | O => None
  | S f => match nth_error l i with
           | None => None
           | Some n => match next n with
                       | None => Some [i]
                       | Some j => option_map (cons i) (walk_next f l j)
                       end
           end
  end.
Fixpoint walk_prev (fuel : nat) (l : list node) (i : nat) : option (list nat) :=
  match fuel with
  | O => None
  | S f => match nth_error l i with
           | None => None
           | Some n => match prev n with
                       | None => Some [i]
                       | Some j => option_map (cons i) (walk_prev f l j)
                       end
           end
  end.
Definition fwd (p : pipe) := walk_next (S (length (arena p))) (arena p) 0.
Definition bwd (p : pipe) := walk_prev (S (length (arena p))) (arena p) 1.
Definition handler_at (p : pipe) (i : nat) : option H :=
  match nth_error (arena p) i with Some n => hd n | None => None end.
(* handlers seen walking forward / backward, head and tail excluded *)
Definition fwd_handlers (p : pipe) : option (list (option H)) := option_map (map (handler_at p)) (fwd p).
Definition bwd_handlers (p : pipe) : option (list (option H)) := option_map (map (handler_at p)) (bwd p).

(* ---- the list specification ---- *)
Definition spec_op (l : list H) (o : op) : option (list H) :=
  match o with
  | OAddFirst hs => Some (rev hs ++ l)
  | OAddLast hs => Some (l ++ hs)
  | OAddHandler pos hs =>
      let sz := Z.of_nat (length l + 2) in
      if (sz <=? pos)%Z then None
      else if orb (pos =? -1)%Z (pos =? sz - 1)%Z then Some (l ++ hs)
      else Some (firstn (Z.to_nat pos) l ++ hs ++ skipn (Z.to_nat pos) l)
  end.
Definition spec_ops (ops : list op) : option (list H) := fold_opt spec_op [] ops.

(* ---- queries (IndexOf / LastIndexOf / ContextAt / Size) over the walks ---- *)
Fixpoint find_idx {A} (f : A -> bool) (l : list A) (i : Z) : Z :=
  match l with [] => (-1)%Z | x :: r => if f x then i else find_idx f r (i + 1)%Z end.
Fixpoint find_idx_down {A} (f : A -> bool) (l : list A) (i : Z) : Z :=
  match l with [] => (-1)%Z | x :: r => if f x then i else find_idx_down f r (i - 1)%Z end.
(* comp is applied to every context's handler, head and tail included (None) *)
Definition index_of (p : pipe) (comp : option H -> bool) : option Z :=
  option_map (fun ids => find_idx comp (map (handler_at p) ids) 0%Z) (fwd p).
Definition last_index_of (p : pipe) (comp : option H -> bool) : option Z :=
  option_map (fun ids => find_idx_down comp (map (handler_at p) ids) (Z.of_nat (size p) - 1)%Z) (bwd p).
Definition context_at (p : pipe) (pos : Z) : option (option nat) :=   (* outer None = fault; inner None = nil *)
  if orb (pos =? -1)%Z (Z.of_nat (size p) <=? pos)%Z then Some None
  else match step_next (arena p) (Z.to_nat pos) 0 with Some i => Some (Some i) | None => None end.
End P.

(* Synchronisation subset of the Go memory model as a trace semantics, and the
   access policy the source is checked against (C12).
   Threads acquire / release mutexes and RWMutexes (ex = exclusive mode) and
   access variables (object, field key) plainly or atomically.  happens-before
   = program order + release -> later conflicting acquire of the same lock,
   closed transitively (atomics' own synchronisation edges are NOT used: fewer
   edges, stronger theorem).  A race = two accesses to one variable by
   different threads, at least one a write, not both atomic, unordered.
   Executable definitions only. *)
From Coq Require Import List Arith Bool.
Import ListNotations.

Definition tid := nat.
Definition lock := (nat * nat)%type.     (* object, lock key *)
Definition var := (nat * nat)%type.      (* object, field key (unique over all structs) *)
Definition eqp (a b : nat * nat) : bool := andb (Nat.eqb (fst a) (fst b)) (Nat.eqb (snd a) (snd b)).

Inductive act :=
| Acq (l : lock) (ex : bool)
| Rel (l : lock) (ex : bool)
| Acc (x : var) (w : bool) (atomic : bool) (sid : nat).     (* an instance of access site sid *)
Definition event := (tid * act)%type.
Definition trace := list event.

(* newest-first: does t hold l in mode m after these events *)
Fixpoint holds (tr : trace) (t : tid) (l : lock) (m : bool) : bool :=
  match tr with
  | [] => false
  | (t', Acq l' m') :: r => if andb (Nat.eqb t' t) (andb (eqp l' l) (Bool.eqb m' m)) then true else holds r t l m
  | (t', Rel l' m') :: r => if andb (Nat.eqb t' t) (andb (eqp l' l) (Bool.eqb m' m)) then false else holds r t l m
  | _ :: r => holds r t l m
  end.

(* well-formed (newest-first): exclusive acquire only when nobody holds the lock in any
   mode, shared acquire only when nobody holds it exclusively (and not recursively);
   release only by a holder of that mode *)
Fixpoint wf (tr : trace) : Prop :=
  match tr with
  | [] => True
  | (t, Acq l true) :: r => (forall t' m, holds r t' l m = false) /\ wf r
  | (t, Acq l false) :: r => (forall t', holds r t' l true = false) /\ holds r t l false = false /\ wf r
  | (t, Rel l m) :: r => holds r t l m = true /\ wf r
  | _ :: r => wf r
  end.

(* chronological view *)
Definition holds_at (c : trace) (i : nat) (t : tid) (l : lock) (m : bool) : bool := holds (rev (firstn i c)) t l m.
Definition wf_c (c : trace) : Prop := wf (rev c).

Inductive hb (c : trace) : nat -> nat -> Prop :=
| hb_po i j t a b : i < j -> nth_error c i = Some (t, a) -> nth_error c j = Some (t, b) -> hb c i j
| hb_sw i j t t' l m m' : i < j -> orb m m' = true ->
    nth_error c i = Some (t, Rel l m) -> nth_error c j = Some (t', Acq l m') -> hb c i j
| hb_trans i j k : hb c i j -> hb c j k -> hb c i k.

Definition race_on (c : trace) (x : var) : Prop :=
  exists i j t1 t2 w1 a1 s1 w2 a2 s2, i < j /\ t1 <> t2 /\
    nth_error c i = Some (t1, Acc x w1 a1 s1) /\ nth_error c j = Some (t2, Acc x w2 a2 s2) /\
    orb w1 w2 = true /\ andb a1 a2 = false /\ ~ hb c i j.

(* ---------------- the policy and the access sites extracted from the source ---------------- *)
Inductive prot :=
| PInit                      (* written only while the object is being constructed *)
| PAtomic                    (* only through sync/atomic *)
| PSync                      (* a synchronisation object itself (mutex, atomic.Value, sync.Map, channel): only its methods / channel operations *)
| PMutex (lk : nat)          (* guarded by the (RW)mutex field lk of the same object: reads under any mode, writes exclusively *)
| POwnerRead (lk : nat)      (* written under lk; read under lk, or without it by the owning goroutine's function *)
| PToken (k : nat)           (* touched only by the holder of token k (pseudo lock: the sender token) *)
| POut                       (* outside the property's contract *)
| PNone.                     (* no policy: every access is an error *)

Record site := { s_field : nat; s_func : nat; s_write : bool; s_atomic : bool;
                 s_locks : list (nat * bool);      (* lock fields syntactically held here, exclusive? *)
                 s_ctor : bool }.                  (* inside the constructor (object not yet shared) *)

(* a call of (or reference to) a method, with the flags acquired by compare-and-swap around it *)
Record mcall := { c_caller : nat; c_callee : nat; c_guards : list nat }.

Record policy := { p_prot : nat -> prot;
                   p_token_funcs : list (nat * nat);      (* (function, token): functions that run only with the token *)
                   p_owner_funcs : list nat }.            (* functions of the owning goroutine *)

Definition held (pol : policy) (s : site) : list (nat * bool) :=
  s_locks s ++ map (fun ft => (snd ft, true)) (filter (fun ft => Nat.eqb (fst ft) (s_func s)) (p_token_funcs pol)).
Definition has_lock (ls : list (nat * bool)) (lk : nat) (need_ex : bool) : bool :=
  existsb (fun lm => andb (Nat.eqb (fst lm) lk) (orb (snd lm) (negb need_ex))) ls.

Definition site_ok (pol : policy) (s : site) : bool :=
  if s_ctor s then true else
  match p_prot pol (s_field s) with
  | PInit => andb (negb (s_write s)) (negb (s_atomic s))
  | PAtomic | PSync => s_atomic s
  | PMutex lk => andb (negb (s_atomic s)) (has_lock (held pol s) lk (s_write s))
  | POwnerRead lk =>
      andb (negb (s_atomic s))
        (if s_write s then has_lock (held pol s) lk true
         else orb (has_lock (held pol s) lk false) (existsb (Nat.eqb (s_func s)) (p_owner_funcs pol)))
  | PToken k => andb (negb (s_atomic s)) (has_lock (held pol s) k true)
  | POut => true
  | PNone => false
  end.
Definition bad_sites (pol : policy) (sites : list site) : list (nat * site) :=
  filter (fun ns => negb (site_ok pol (snd ns))) (combine (seq 0 (length sites)) sites).

(* a reader that relies on being the owner (POwnerRead, no lock held) *)
Definition owner_read (pol : policy) (s : site) : bool :=
  match p_prot pol (s_field s) with
  | POwnerRead lk => andb (negb (s_write s)) (negb (has_lock (held pol s) lk false))
  | _ => false
  end.

(* a token function may only be called (or handed to the executor) where its token was just acquired by a
   successful compare-and-swap, or from a function that itself runs with that token *)
Definition call_ok (pol : policy) (c : mcall) : bool :=
  forallb (fun ft => if Nat.eqb (fst ft) (c_callee c)
                     then orb (existsb (Nat.eqb (snd ft)) (c_guards c))
                              (existsb (fun ft' => andb (Nat.eqb (fst ft') (c_caller c)) (Nat.eqb (snd ft') (snd ft))) (p_token_funcs pol))
                     else true) (p_token_funcs pol).
Definition bad_calls (pol : policy) (cs : list mcall) : list mcall := filter (fun c => negb (call_ok pol c)) cs.

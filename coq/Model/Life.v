(* channel.serveChannel / readLoop: the inbound side of a channel's life.  One
   goroutine: active event (inside invokeMethod), signal serveChannel, then
   loop { if ctx.Done return; invokeMethod(FireChannelRead(transport)) },
   finally Close(AsException(recover())).  A read iteration's outcome is given
   by the environment: delivered, failed-and-unhandled (the exception reaches
   the tail handler, which closes the channel), failed-but-swallowed by an
   exception handler, or a Close issued by someone else while it ran. *)
From Coq Require Import List Bool Arith.
Import ListNotations.

Inductive rout := RGood | RFailUnhandled | RFailSwallowed | RClosedMeanwhile.
Inductive lev := ActiveBegin | ActiveEnd | ServeReturn | ReadBegin | ReadEnd | CloseCall (from_loop : bool) | LoopExit.

(* active may panic (it is caught by invokeMethod and routed as an exception): either way it ends *)
Fixpoint loop (fuel : list rout) (ctx_done : bool) : list lev :=
  if ctx_done then [LoopExit; CloseCall true]          (* deferred Close(nil): loses the CAS if already closed *)
  else match fuel with
       | [] => []                                       (* the environment's script ends: the loop keeps waiting in Read *)
       | o :: r =>
           ReadBegin :: ReadEnd ::
           match o with
           | RGood | RFailSwallowed => loop r false
           | RFailUnhandled => CloseCall false :: loop r true   (* tail handler: Channel.Close(ex) cancels the context *)
           | RClosedMeanwhile => loop r true
           end
       end.
Definition life_run (prog : list rout) : list lev := [ActiveBegin; ActiveEnd; ServeReturn] ++ loop prog false.

(* checker: active exactly once and first (before ServeReturn and any read); reads strictly alternate
   begin/end; nothing is read after the context was seen done; after an unhandled failure no further read *)
Fixpoint reads_ok (l : list lev) (in_read stopped : bool) : bool :=
  match l with
  | [] => negb in_read
  | ReadBegin :: r => andb (negb in_read) (andb (negb stopped) (reads_ok r true stopped))
  | ReadEnd :: r => andb in_read (reads_ok r false stopped)
  | CloseCall false :: r => reads_ok r in_read true
  | LoopExit :: r => andb (negb in_read) (reads_ok r in_read true)
  | (ActiveBegin | ActiveEnd | ServeReturn) :: _ => false
  | CloseCall true :: r => reads_ok r in_read stopped
  end.
Definition life_ok (l : list lev) : bool :=
  match l with
  | ActiveBegin :: ActiveEnd :: ServeReturn :: r => reads_ok r false false
  | _ => false
  end.

(* the same when the channel is served with a context that has ALREADY ended (a connection accepted
   while Shutdown runs): active is still delivered once and first, then the loop exits at once *)
Definition life_run_ctx (ctx_done0 : bool) (prog : list rout) : list lev :=
  [ActiveBegin; ActiveEnd; ServeReturn] ++ loop prog ctx_done0.

(* codec/xhttp: the server side of the HTTP codec (C15), repaired code.
   (1) the connection loop: ReadRequest at the current position of the buffered
       stream, hand the request to the handler (which reads a prefix of the
       body), skip the unread rest, close if asked to;
   (2) the response writer: implicit / explicit WriteHeader, Write, Flush (any
       number of times), Close by the adapter, body framing by Content-Length,
       chunked transfer encoding (httputil.NewChunkedWriter: "%x\r\n" data
       "\r\n" per non-empty write, "0\r\n" at the end, then "\r\n"), or
       close-delimited;
   (3) a reader for that framing (what a standard HTTP parser does with the
       body once it knows the headers).
   The request line / header TEXT and net/http's request parser are abstract:
   a request head is one token, a response head is one record.
   Executable definitions only. *)
From Coq Require Import List NArith Bool Arith.
Import ListNotations.
Open Scope N_scope.

Definition bytes := list N.
Definition CR : N := 13. Definition LF : N := 10.

(* ---------------- hexadecimal size lines ---------------- *)
Definition hexdigit (d : N) : N := if d <? 10 then 48 + d else 87 + d.      (* '0'..'9', 'a'..'f' *)
Definition hexval (c : N) : option N :=
  if andb (48 <=? c) (c <=? 57) then Some (c - 48)
  else if andb (97 <=? c) (c <=? 102) then Some (c - 87)
  else if andb (65 <=? c) (c <=? 70) then Some (c - 55)
  else None.
Fixpoint to_hex_fuel (f : nat) (n : N) : bytes :=
  match f with
  | O => [hexdigit (n mod 16)]
  | S f' => if n <? 16 then [hexdigit n] else to_hex_fuel f' (n / 16) ++ [hexdigit (n mod 16)]
  end.
Definition to_hex (n : N) : bytes := to_hex_fuel (N.to_nat (N.size n)) n.
(* the parser: consume hex digits *)
Fixpoint parse_hex (acc : N) (l : bytes) : N * bytes :=
  match l with
  | [] => (acc, [])
  | c :: r => match hexval c with Some v => parse_hex (acc * 16 + v) r | None => (acc, l) end
  end.

(* ---------------- chunked transfer encoding ---------------- *)
Definition blen (b : bytes) : N := N.of_nat (length b).
Definition enc_chunk (b : bytes) : bytes :=
  match b with [] => [] | _ => to_hex (blen b) ++ [CR; LF] ++ b ++ [CR; LF] end.     (* zero-length writes emit nothing *)
Definition enc_chunked (writes : list bytes) : bytes := concat (map enc_chunk writes) ++ [48; CR; LF] ++ [CR; LF].

Definition expect_crlf (l : bytes) : option bytes :=
  match l with c1 :: c2 :: r => if andb (c1 =? CR) (c2 =? LF) then Some r else None | _ => None end.
Fixpoint dec_chunked (fuel : nat) (l : bytes) : option (bytes * bytes) :=
  match fuel with
  | O => None
  | S f =>
      match l with
      | [] => None
      | c :: _ =>
          match hexval c with
          | None => None
          | Some _ =>
              let '(n, r) := parse_hex 0 l in
              match expect_crlf r with
              | None => None
              | Some r1 =>
                  if n =? 0 then match expect_crlf r1 with Some rest => Some ([], rest) | None => None end
                  else if N.of_nat (length r1) <? n then None
                  else match expect_crlf (skipn (N.to_nat n) r1) with
                       | None => None
                       | Some r2 => match dec_chunked f r2 with
                                    | Some (b, rest) => Some (firstn (N.to_nat n) r1 ++ b, rest)
                                    | None => None
                                    end
                       end
              end
          end
      end
  end.

(* ---------------- the response writer ---------------- *)
Inductive rmode := MLen | MChunked | MNone.        (* Content-Length set / Transfer-Encoding: chunked / neither *)
Inductive haction := AWriteHeader (code : N) | AWrite (b : bytes) | AFlush.
Record head := { h_status : N; h_mode : rmode; h_len : N }.       (* what the status line and headers say *)
Inductive wev := WHead (h : head) | WBytes (b : bytes) | WFlush.  (* into the buffered writer / flush of it *)

Record wstate := { wrote : bool; chunked_on : bool; closed_w : bool; wlog : list wev }.   (* wlog newest last *)
Definition winit : wstate := {| wrote := false; chunked_on := false; closed_w := false; wlog := [] |}.
Definition write_header (mode : rmode) (declared : N) (s : wstate) (code : N) : wstate :=
  if wrote s then s
  else {| wrote := true; chunked_on := match mode with MChunked => true | _ => false end; closed_w := closed_w s;
          wlog := wlog s ++ [WHead {| h_status := code; h_mode := mode; h_len := declared |}] |}.
Definition wstep (mode : rmode) (declared : N) (s : wstate) (a : haction) : wstate :=
  if closed_w s then s else
  match a with
  | AWriteHeader c => write_header mode declared s c
  | AWrite b =>
      let s1 := write_header mode declared s 200 in
      {| wrote := wrote s1; chunked_on := chunked_on s1; closed_w := closed_w s1;
         wlog := wlog s1 ++ [WBytes (if chunked_on s1 then enc_chunk b else b)] |}
  | AFlush =>
      let s1 := write_header mode declared s 200 in
      {| wrote := wrote s1; chunked_on := chunked_on s1; closed_w := closed_w s1; wlog := wlog s1 ++ [WFlush] |}
  end.
(* the adapter's deferred Close: header if still missing, end of the chunked body, final flush *)
Definition wclose (mode : rmode) (declared : N) (s : wstate) : wstate :=
  if closed_w s then s else
  let s1 := write_header mode declared s 200 in
  {| wrote := true; chunked_on := chunked_on s1; closed_w := true;
     wlog := wlog s1 ++ (if chunked_on s1 then [WBytes ([48; CR; LF] ++ [CR; LF])] else []) ++ [WFlush] |}.
Definition run_writer (mode : rmode) (declared : N) (prog : list haction) : list wev :=
  wlog (wclose mode declared (fold_left (wstep mode declared) prog winit)).

Definition body_of_prog (prog : list haction) : list bytes :=
  flat_map (fun a => match a with AWrite b => [b] | _ => [] end) prog.
Definition status_of_prog (prog : list haction) : N :=
  (fix go (p : list haction) := match p with
                                | AWriteHeader c :: _ => c
                                | AWrite _ :: _ | AFlush :: _ => 200
                                | [] => 200 end) prog.
Definition wire_of (evs : list wev) : bytes := flat_map (fun e => match e with WBytes b => b | _ => [] end) evs.
Definition heads_of (evs : list wev) : list head := flat_map (fun e => match e with WHead h => [h] | _ => [] end) evs.

(* what a standard parser reads back as the body, knowing the head; `rest` = bytes of later responses *)
Definition read_body (h : head) (l : bytes) : option (bytes * bytes) :=
  match h_mode h with
  | MLen => if N.of_nat (length l) <? h_len h then None else Some (firstn (N.to_nat (h_len h)) l, skipn (N.to_nat (h_len h)) l)
  | MChunked => dec_chunked (S (length l)) l
  | MNone => Some (l, [])                 (* until the connection is closed *)
  end.

(* ---------------- the connection loop ---------------- *)
Record request := { q_id : nat; q_close : bool; q_body : bytes;
                    q_read : option nat;            (* how much of the body the handler reads: None = all *)
                    q_mode : rmode; q_prog : list haction }.
Inductive tok := THead (q : request) | TBody (b : N).
Definition wire_req (q : request) : list tok := THead q :: map TBody (q_body q).
Inductive cev := CHandler (id : nat) (body_seen : bytes) | CResp (id : nat) (evs : list wev) | CClose | CGarbage.

Fixpoint take_body (n : nat) (l : list tok) : bytes * list tok :=      (* at most n body tokens *)
  match n, l with
  | S n', TBody b :: r => let '(bs, r') := take_body n' r in (b :: bs, r')
  | _, _ => ([], l)
  end.
Fixpoint skip_body (l : list tok) : list tok := match l with TBody _ :: r => skip_body r | _ => l end.
Definition declared_len (q : request) : N := N.of_nat (length (concat (body_of_prog (q_prog q)))).
Definition should_close (q : request) : bool := orb (q_close q) (match q_mode q with MNone => true | _ => false end).

(* fuel = number of tokens; the stream ends with EOF: ReadRequest fails, the exception closes the channel *)
Fixpoint serve (fuel : nat) (l : list tok) : list cev :=
  match fuel with
  | O => [CClose]
  | S f =>
      match l with
      | [] => [CClose]
      | TBody _ :: _ => [CGarbage; CClose]           (* a request would be parsed out of body bytes *)
      | THead q :: r =>
          let n := match q_read q with Some k => k | None => length (q_body q) end in
          let '(seen, r1) := take_body n r in
          let r2 := skip_body r1 in                  (* the repaired loop skips the unread rest of the body *)
          CHandler (q_id q) seen :: CResp (q_id q) (run_writer (q_mode q) (declared_len q) (q_prog q))
            :: (if should_close q then [CClose] else serve f r2)
      end
  end.
Definition serve_conn (qs : list request) : list cev :=
  let l := flat_map wire_req qs in serve (S (length l)) l.

(* the specification: one invocation and one response per request, in order, until the first closing one *)
Fixpoint spec_conn (qs : list request) : list cev :=
  match qs with
  | [] => [CClose]
  | q :: r =>
      CHandler (q_id q) (match q_read q with Some k => firstn k (q_body q) | None => q_body q end)
        :: CResp (q_id q) (run_writer (q_mode q) (declared_len q) (q_prog q))
        :: (if should_close q then [CClose] else spec_conn r)
  end.

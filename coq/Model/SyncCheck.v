(* Correspondence checker for the synchronous channel (Model/SyncChan.v): the
   model replays the schedule the implementation ran under the hook scheduler,
   step by step; every step the implementation took must be enabled in the
   model, at the end (the harness runs to quiescence) no model thread may still
   be enabled, and the projected observables must agree: per-writer results,
   payloads the transport accepted (in order), number of transport closes, the
   inactive events' error identities, closed flag, context, and whether any
   thread stayed parked for ever. *)
From Coq Require Import List Arith Bool.
From GN Require Import Model.SyncChan.
Import ListNotations.

Record ycase := { yc_id : nat; yc_threads : list ythread; yc_sched : list yev;
                  yc_results : list (list (nat * yres)); yc_tlog : list nat; yc_tclosed : nat;
                  yc_inactive : list nat; yc_closed : bool; yc_ctx : bool; yc_parked : bool }.

Fixpoint sc_run_strict (s : sst) (sched : list yev) (k : nat) : sst * option nat :=
  match sched with
  | [] => (s, None)
  | e :: r => match sc_step s e with Some s' => sc_run_strict s' r (S k) | None => (s, Some k) end
  end.

Definition yres_eqb (a b : yres) : bool :=
  match a, b with YOk, YOk | YClosed, YClosed | YFail, YFail => true | _, _ => false end.
Fixpoint res_eqb (a b : list (nat * yres)) : bool :=
  match a, b with
  | [], [] => true
  | (x, r) :: a', (y, q) :: b' => andb (andb (Nat.eqb x y) (yres_eqb r q)) (res_eqb a' b')
  | _, _ => false
  end.
Fixpoint ress_eqb (a b : list (list (nat * yres))) : bool :=
  match a, b with [], [] => true | x :: a', y :: b' => andb (res_eqb x y) (ress_eqb a' b') | _, _ => false end.
Fixpoint nats_eqb (a b : list nat) : bool :=
  match a, b with [], [] => true | x :: a', y :: b' => andb (Nat.eqb x y) (nats_eqb a' b') | _, _ => false end.

Definition writer_results (ths : list ythread) : list (list (nat * yres)) :=
  flat_map (fun t => match t with YWriter _ _ res => [res] | _ => [] end) ths.
Definition any_enabled (s : sst) : bool := existsb (y_enabled s) (seq 0 (length (sc_threads s))).
Definition any_stuck (s : sst) : bool :=
  existsb (fun i => match nth_error (sc_threads s) i with
                    | Some t => andb (negb (y_finished t)) (negb (y_enabled s i))
                    | None => false end) (seq 0 (length (sc_threads s))).

(* the property-level reading of one observation, independent of the model:
   C01 (each accepted payload once; ok results are on the transport; refused
   calls transmitted nothing), C05 (transport closed at most once, at most one
   inactive event), C07 (nobody parked for ever) *)
Definition obs_holds (c : ycase) : bool :=
  let rs := concat (yc_results c) in
  andb (nodup_nat (yc_tlog c))
  (andb (forallb (fun '(p, r) => match r with
                               | YOk => existsb (Nat.eqb p) (yc_tlog c)
                               | YClosed => negb (existsb (Nat.eqb p) (yc_tlog c))
                               | YFail => true end) rs)
  (andb (yc_tclosed c <=? 1) (andb (length (yc_inactive c) <=? 1) (negb (yc_parked c))))).

Definition check_ycase (c : ycase) : nat * option nat * option nat :=
  let '(s, bad) := sc_run_strict (sc_init (yc_threads c)) (yc_sched c) 0 in
  let agree :=
    match bad with
    | Some k => Some (S k)                      (* the implementation took a step the model says is disabled *)
    | None =>
      if andb (ress_eqb (writer_results (sc_threads s)) (yc_results c))
         (andb (nats_eqb (sc_tlog s) (yc_tlog c))
         (andb (Nat.eqb (sc_tclosed s) (yc_tclosed c))
         (andb (nats_eqb (sc_inactive s) (yc_inactive c))
         (andb (Bool.eqb (sc_closed s) (yc_closed c))
         (andb (Bool.eqb (sc_ctx s) (yc_ctx c))
         (andb (negb (any_enabled s)) (Bool.eqb (any_stuck s) (yc_parked c))))))))
      then None else Some 0
    end in
  (yc_id c, agree, if obs_holds c then None else Some 0).
Definition ybad3 (x : nat * option nat * option nat) : bool :=
  match x with (_, None, None) => false | _ => true end.
Definition check_ycases (l : list ycase) := filter ybad3 (map check_ycase l).

(* Correspondence checker for the bootstrap model.  The harness ran the real
   bootstrap (mock transport factory) under the hook scheduler and recorded
   the sequence of model events its steps correspond to; the model replays it:
   every step the implementation took must be enabled, and the final states
   must agree on everything observable.  The property's conclusion is also
   evaluated directly on the observed final state. *)
From Coq Require Import List Arith Bool.
From GN Require Import Model.Boot.
Import ListNotations.

Record bobs := {
  bo_ctx : bool;
  bo_phase : nat;                           (* how far Shutdown got: 5 = not called ... 0 = returned *)
  bo_acc : list accst;                      (* per listener: no acceptor / open / closed *)
  bo_chans : list (bool * nat * nat);       (* per channel: closed, transport closes, inactive events *)
  bo_threads : list bthread;                (* where every goroutine is *)
  bo_late : list sret }.                    (* results of the accept loops that ended after the cancel *)
Record bcase := { bc_id : nat; bc_nl : nat; bc_threads : list bthread; bc_replay : bool;
                  bc_sched : list bev; bc_obs : bobs }.

Fixpoint brun_strict (s : bst) (sched : list bev) (k : nat) : bst * option nat :=
  match sched with
  | [] => (s, None)
  | e :: r => match bstep_ev s e with Some s' => brun_strict s' r (S k) | None => (s, Some k) end
  end.

Definition sh_code (p : shpc) : nat :=
  match p with ShNot => 5 | ShRange => 4 | ShCloseL _ => 3 | ShCloseAll => 2 | ShCloseCh _ => 1 | ShDone => 0 end.
Definition acc_eqb (a b : accst) : bool :=
  match a, b with ANone, ANone | AOpen, AOpen | AClosed, AClosed => true | _, _ => false end.
Definition sret_eqb (a b : sret) : bool :=
  match a, b with RetServerClosed, RetServerClosed | RetDup, RetDup | RetAcceptErr, RetAcceptErr | RetListenErr, RetListenErr => true | _, _ => false end.
Definition bthread_eqb (a b : bthread) : bool :=
  match a, b with
  | BSync l p, BSync l' p' =>
      andb (Nat.eqb l l')
        match p, p' with
        | SyListen, SyListen | SyAccept, SyAccept | SyServe, SyServe => true
        | SyWait c, SyWait c' => Nat.eqb c c'
        | SyDone r, SyDone r' => sret_eqb r r'
        | _, _ => false
        end
  | BChan c p a, BChan c' p' a' =>
      andb (Nat.eqb c c') (andb (Bool.eqb a a')
        match p, p' with ChActive, ChActive | ChLoop, ChLoop | ChRead, ChRead | ChDone, ChDone => true | _, _ => false end)
  | BConnect p, BConnect p' =>
      match p, p' with CoServe, CoServe | CoDone, CoDone => true | CoWait c, CoWait c' => Nat.eqb c c' | _, _ => false end
  | BListen l b, BListen l' b' => andb (Nat.eqb l l') (Bool.eqb b b')
  | BLClose l b, BLClose l' b' => andb (Nat.eqb l l') (Bool.eqb b b')
  | BRetry l b, BRetry l' b' => andb (Nat.eqb l l') (Bool.eqb b b')
  | _, _ => false
  end.
Fixpoint list_eqb {A} (f : A -> A -> bool) (a b : list A) : bool :=
  match a, b with [], [] => true | x :: a', y :: b' => andb (f x y) (list_eqb f a' b') | _, _ => false end.
Definition chan_eqb (a b : bool * nat * nat) : bool :=
  let '(c1, t1, i1) := a in let '(c2, t2, i2) := b in andb (Bool.eqb c1 c2) (andb (Nat.eqb t1 t2) (Nat.eqb i1 i2)).

(* the observed final state as a model state (registry and holder are not observable) *)
Definition obs_state (o : bobs) : bst :=
  {| bctx := bo_ctx o;
     sh := match bo_phase o with 0 => ShDone | 1 => ShCloseCh [] | 2 => ShCloseAll | 3 => ShCloseL [] | 4 => ShRange | _ => ShNot end;
     lsts := map (fun a => {| l_reg := false; l_closed := false; l_acc := a |}) (bo_acc o);
     chans := map (fun x => let '(c, t, i) := x in {| c_closed := c; c_tcloses := t; c_inactive := i |}) (bo_chans o);
     holder := []; bthreads := bo_threads o |}.

(* the property's conclusion on an observation taken when nothing can move any more;
   before Shutdown has returned only "closed at most once" is demanded *)
Definition obs_holds (o : bobs) : bool :=
  let s := obs_state o in
  andb (closes_at_most_once s)
  (andb (forallb (fun r => match r with RetServerClosed | RetDup | RetListenErr => true | RetAcceptErr => false end) (bo_late o))
   (if shutdown_returned s
    then andb (bctx s) (andb (all_channels_closed_once s) (andb (no_open_acceptor s) (andb (sync_threads_ok s) (chan_threads_done s))))
    else true)).

Definition check_bcase (c : bcase) : nat * option nat * option nat :=
  let o := bc_obs c in
  let agree :=
    if bc_replay c then
      let '(s, stuck) := brun_strict (binit (bc_nl c) (bc_threads c)) (bc_sched c) 0 in
      match stuck with
      | Some k => Some (S k)
      | None =>
          if andb (Bool.eqb (bctx s) (bo_ctx o))
             (andb (Nat.eqb (sh_code (sh s)) (bo_phase o))
             (andb (list_eqb acc_eqb (map l_acc (lsts s)) (bo_acc o))
             (andb (list_eqb chan_eqb (map (fun x => (c_closed x, c_tcloses x, c_inactive x)) (chans s)) (bo_chans o))
                   (list_eqb bthread_eqb (bthreads s) (bo_threads o)))))
          then None else Some 0
      end
    else None in
  (bc_id c, agree, if obs_holds o then None else Some 0).
Definition bbad (r : nat * option nat * option nat) : bool :=
  match r with (_, None, None) => false | _ => true end.
Definition check_bcases (l : list bcase) := filter bbad (map check_bcase l).

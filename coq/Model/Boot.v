(* bootstrap.go / holder.go: listeners, accept loops, channels and Shutdown as
   a small-step machine (repaired listener).  Channel close is ATOMIC and
   idempotent here: that it happens once under any interleaving is C05's
   theorem about the channel machine.  A channel's context is a child of the
   bootstrap context.  Executable definitions only. *)
From Coq Require Import List Arith Bool.
Import ListNotations.

Inductive accst := ANone | AOpen | AClosed.
Record lst := { l_reg : bool; l_closed : bool; l_acc : accst }.
Record cst := { c_closed : bool; c_tcloses : nat; c_inactive : nat }.

Inductive sret := RetServerClosed | RetDup | RetAcceptErr | RetListenErr.
Inductive sypc := SyListen | SyAccept | SyServe | SyWait (c : nat) | SyDone (r : sret).
Inductive chpc := ChActive | ChLoop | ChRead | ChDone.
Inductive shpc := ShNot | ShRange | ShCloseL (rem : list nat) | ShCloseAll | ShCloseCh (rem : list nat) | ShDone.
Inductive copc := CoServe | CoWait (c : nat) | CoDone.

Inductive bthread :=
| BSync (l : nat) (pc : sypc)
| BChan (c : nat) (pc : chpc) (activated : bool)
| BConnect (pc : copc)
| BListen (l : nat) (started : bool)       (* Listen(url) then Async(): registers, then spawns the Sync thread *)
| BLClose (l : nat) (done : bool)          (* a user calling Listener.Close *)
| BRetry (l : nat) (started : bool).       (* a user calling Sync/Async AGAIN on a Listener it already has (e.g. after the
                                              transport factory's Listen failed): spawns another Sync thread *)

(* sh: how far the (single) Shutdown call has got; ShNot = not called *)
Record bst := { bctx : bool; sh : shpc; lsts : list lst; chans : list cst; holder : list nat; bthreads : list bthread }.

Fixpoint upd {A} (l : list A) (i : nat) (x : A) : list A :=
  match l, i with [], _ => [] | _ :: t, O => x :: t | h :: t, S i => h :: upd t i x end.

Definition set_t (s : bst) (i : nat) (t : bthread) : bst :=
  {| bctx := bctx s; sh := sh s; lsts := lsts s; chans := chans s; holder := holder s; bthreads := upd (bthreads s) i t |}.
Definition set_l (s : bst) (l : nat) (x : lst) : bst :=
  {| bctx := bctx s; sh := sh s; lsts := upd (lsts s) l x; chans := chans s; holder := holder s; bthreads := bthreads s |}.
Definition set_c (s : bst) (c : nat) (x : cst) : bst :=
  {| bctx := bctx s; sh := sh s; lsts := lsts s; chans := upd (chans s) c x; holder := holder s; bthreads := bthreads s |}.
Definition set_holder (s : bst) (h : list nat) : bst :=
  {| bctx := bctx s; sh := sh s; lsts := lsts s; chans := chans s; holder := h; bthreads := bthreads s |}.
Definition set_bctx (s : bst) : bst :=
  {| bctx := true; sh := sh s; lsts := lsts s; chans := chans s; holder := holder s; bthreads := bthreads s |}.
Definition set_sh (s : bst) (p : shpc) : bst :=
  {| bctx := bctx s; sh := p; lsts := lsts s; chans := chans s; holder := holder s; bthreads := bthreads s |}.
Definition spawn (s : bst) (t : bthread) : bst :=
  {| bctx := bctx s; sh := sh s; lsts := lsts s; chans := chans s; holder := holder s; bthreads := bthreads s ++ [t] |}.
Definition new_chan (s : bst) : bst :=
  {| bctx := bctx s; sh := sh s; lsts := lsts s; chans := chans s ++ [{| c_closed := false; c_tcloses := 0; c_inactive := 0 |}];
     holder := holder s; bthreads := bthreads s |}.

Definition get_l (s : bst) (l : nat) : lst := nth l (lsts s) {| l_reg := false; l_closed := false; l_acc := ANone |}.
Definition get_c (s : bst) (c : nat) : cst := nth c (chans s) {| c_closed := true; c_tcloses := 0; c_inactive := 0 |}.
Fixpoint remove_nat (x : nat) (l : list nat) : list nat :=
  match l with [] => [] | y :: r => if Nat.eqb y x then remove_nat x r else y :: remove_nat x r end.

(* Channel.Close: idempotent; closes the transport, delivers inactive (the holder forgets the channel) *)
Definition close_chan (s : bst) (c : nat) : bst :=
  let x := get_c s c in
  if c_closed x then s
  else set_holder (set_c s c {| c_closed := true; c_tcloses := S (c_tcloses x); c_inactive := S (c_inactive x) |})
                  (remove_nat c (holder s)).
(* Listener.Close: forget the registration, remember the close, close the acceptor if there is one *)
Definition close_listener (s : bst) (l : nat) : bst :=
  let x := get_l s l in
  set_l s l {| l_reg := false; l_closed := true; l_acc := match l_acc x with AOpen => AClosed | a => a end |}.
Definition reg_listeners (s : bst) : list nat :=
  filter (fun l => l_reg (get_l s l)) (seq 0 (length (lsts s))).
Definition ctx_done_of (s : bst) (c : nat) : bool := orb (bctx s) (c_closed (get_c s c)).

(* `conn`: the environment's choice at this step - at an accept step, whether a connection arrives now; at the
   step that creates the acceptor, whether the transport factory's Listen FAILS (address in use, ...) *)
Definition bstep (s : bst) (i : nat) (conn : bool) : option bst :=
  match nth_error (bthreads s) i with
  | None => None
  | Some (BListen l started) =>
      if started then None
      else let x := get_l s l in
           Some (spawn (set_t (set_l s l {| l_reg := true; l_closed := l_closed x; l_acc := l_acc x |}) i (BListen l true))
                       (BSync l SyListen))
  | Some (BLClose l done) => if done then None else Some (set_t (close_listener s l) i (BLClose l true))
  | Some (BRetry l started) =>
      (* possible once Listen(url) has produced the Listener (it is registered, or was and has been closed) *)
      if started then None
      else if orb (l_reg (get_l s l)) (l_closed (get_l s l))
           then Some (spawn (set_t s i (BRetry l true)) (BSync l SyListen)) else None
  | Some (BSync l pc) =>
      match pc with
      | SyListen =>
          let x := get_l s l in
          match l_acc x with
          | ANone =>
              if orb (l_closed x) (bctx s) then Some (set_t s i (BSync l (SyDone RetServerClosed)))
              else if conn then Some (set_t s i (BSync l (SyDone RetListenErr)))   (* factory failed: nothing bound, the
                                                                                       listener stays registered and can be retried *)
              else Some (set_t (set_l s l {| l_reg := l_reg x; l_closed := l_closed x; l_acc := AOpen |}) i (BSync l SyAccept))
          | _ => Some (set_t s i (BSync l (SyDone RetDup)))
          end
      | SyAccept =>
          match l_acc (get_l s l) with
          | AClosed => Some (set_t s i (BSync l (SyDone (if bctx s then RetServerClosed else RetAcceptErr))))
          | AOpen => if conn then Some (set_t s i (BSync l SyServe)) else None     (* parked in Accept *)
          | ANone => None
          end
      | SyServe =>
          let c := length (chans s) in
          Some (spawn (set_t (new_chan s) i (BSync l (SyWait c))) (BChan c ChActive false))
      | SyWait c =>
          (* serveChannel returns once the active event has been delivered *)
          if existsb (fun t => match t with BChan c' _ true => Nat.eqb c' c | _ => false end) (bthreads s)
          then Some (set_t s i (BSync l SyAccept)) else None
      | SyDone _ => None
      end
  | Some (BConnect pc) =>
      match pc with
      | CoServe => let c := length (chans s) in
                   Some (spawn (set_t (new_chan s) i (BConnect (CoWait c))) (BChan c ChActive false))
      | CoWait c =>
          if existsb (fun t => match t with BChan c' _ true => Nat.eqb c' c | _ => false end) (bthreads s)
          then Some (set_t s i (BConnect CoDone)) else None
      | CoDone => None
      end
  | Some (BChan c pc act) =>
      match pc with
      | ChActive =>       (* holder.HandleActive registers the channel (unless it is already closed: still registers) *)
          Some (set_t (set_holder s (c :: holder s)) i (BChan c ChLoop true))
      | ChLoop =>
          if ctx_done_of s c then Some (set_t (close_chan s c) i (BChan c ChDone true))    (* return; deferred Close *)
          else Some (set_t s i (BChan c ChRead true))                                       (* blocks in transport.Read *)
      | ChRead =>
          if c_closed (get_c s c) then Some (set_t s i (BChan c ChLoop true)) else None     (* woken only by the close *)
      | ChDone => None
      end
  end.

(* Shutdown: cancel the bootstrap context, close the registered listeners (a snapshot of the
   registry), swap the holder's map and close every channel that was in it *)
(* `k`: 0 = the current phase ends; S x = the iteration visits listener / channel x.
   sync.Map.Range visits every key that stays registered (in an arbitrary order, possibly also
   keys stored meanwhile); the holder's swapped-out map is private and visited exactly once each. *)
Definition shstep (s : bst) (k : nat) : option bst :=
  match sh s, k with
  | ShNot, _ => Some (set_sh (set_bctx s) ShRange)
  | ShRange, _ => Some (set_sh s (ShCloseL (reg_listeners s)))
  | ShCloseL rem, 0 =>
      if forallb (fun l => negb (l_reg (get_l s l))) rem then Some (set_sh s ShCloseAll) else None
  | ShCloseL rem, S l => Some (set_sh (close_listener s l) (ShCloseL rem))
  | ShCloseAll, _ => Some (set_sh (set_holder s []) (ShCloseCh (holder s)))
  | ShCloseCh rem, 0 => match rem with [] => Some (set_sh s ShDone) | _ => None end
  | ShCloseCh rem, S c =>
      if existsb (Nat.eqb c) rem then Some (set_sh (close_chan s c) (ShCloseCh (remove_nat c rem))) else None
  | ShDone, _ => None
  end.

Inductive bev := EvThread (i : nat) (conn : bool) | EvShutdown (k : nat).
Definition bstep_ev (s : bst) (e : bev) : option bst :=
  match e with EvThread i conn => bstep s i conn | EvShutdown k => shstep s k end.

Fixpoint brun (s : bst) (sched : list bev) : bst :=
  match sched with
  | [] => s
  | e :: r => match bstep_ev s e with Some s' => brun s' r | None => brun s r end
  end.
Definition binit (nl : nat) (ths : list bthread) : bst :=
  {| bctx := false; sh := ShNot; lsts := repeat {| l_reg := false; l_closed := false; l_acc := ANone |} nl; chans := [];
     holder := []; bthreads := ths |}.

(* no thread can move, even if connections keep arriving *)
Definition benabled (s : bst) (i : nat) : bool :=
  match bstep s i true with Some _ => true | None => false end.
Definition bquiescent (s : bst) : bool := forallb (fun i => negb (benabled s i)) (seq 0 (length (bthreads s))).
Definition shutdown_returned (s : bst) : bool := match sh s with ShDone => true | _ => false end.

(* the property's conclusion, as a checker on a state *)
Definition all_channels_closed_once (s : bst) : bool :=
  forallb (fun c => andb (c_closed c) (andb (Nat.eqb (c_tcloses c) 1) (Nat.eqb (c_inactive c) 1))) (chans s).
Definition no_open_acceptor (s : bst) : bool :=
  forallb (fun l => match l_acc l with AOpen => false | _ => true end) (lsts s).
Definition sync_threads_ok (s : bst) : bool :=
  forallb (fun t => match t with
                    | BSync _ (SyDone _) => true
                    | BSync _ _ => false
                    | _ => true end) (bthreads s).

(* every read loop has ended; and, in any state, no channel is closed twice *)
Definition chan_threads_done (s : bst) : bool :=
  forallb (fun t => match t with BChan _ ChDone _ => true | BChan _ _ _ => false | _ => true end) (bthreads s).
Definition closes_at_most_once (s : bst) : bool :=
  forallb (fun c => andb (c_tcloses c <=? 1) (andb (c_inactive c <=? 1)
                      (if c_closed c then andb (Nat.eqb (c_tcloses c) 1) (Nat.eqb (c_inactive c) 1) else true))) (chans s).

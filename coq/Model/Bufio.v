(* transport/buffered.go: the four wrapper variants over a net.Conn, with the
   two standard-library behaviours they rely on re-modelled: bufio.Writer of a
   given size, bufio.Reader of a given size (minimum 16), net.Buffers.WriteTo
   (one Write per buffer, in order).  The connection accepts every write; the
   peer is a Reader script.  Executable definitions only. *)
From Coq Require Import ZArith List Bool.
From GN Require Import Base.Reader.
Import ListNotations.
Open Scope Z_scope.

(* write side state: bytes that reached the connection, bytes held in the bufio.Writer *)
Record wstate := { conn_log : bytes; wbuf : bytes }.

(* bufio.Writer.Write for a writer of `size` bytes *)
Definition bw_write (size : Z) (s : wstate) (p : bytes) : wstate :=
  if blen p <=? size - blen (wbuf s) then {| conn_log := conn_log s; wbuf := wbuf s ++ p |}
  else match wbuf s with
       | [] => {| conn_log := conn_log s ++ p; wbuf := [] |}          (* large write, empty buffer: straight through *)
       | _ =>
           let k := size - blen (wbuf s) in
           let c1 := conn_log s ++ wbuf s ++ btake k p in              (* fill and flush *)
           let p' := bdrop k p in
           if blen p' <=? size then {| conn_log := c1; wbuf := p' |}
           else {| conn_log := c1 ++ p'; wbuf := [] |}
       end.
Definition bw_flush (s : wstate) : wstate := {| conn_log := conn_log s ++ wbuf s; wbuf := [] |}.

(* the wrapper variants: write buffer size 0 = unbuffered *)
Definition t_write (wsize : Z) (s : wstate) (p : bytes) : wstate :=
  if 0 <? wsize then bw_write wsize s p else {| conn_log := conn_log s ++ p; wbuf := wbuf s |}.
(* Writev = net.Buffers.WriteTo(target): one Write per buffer *)
Definition t_writev (wsize : Z) (s : wstate) (ps : list bytes) : wstate := fold_left (t_write wsize) ps s.
Definition t_flush (wsize : Z) (s : wstate) : wstate := if 0 <? wsize then bw_flush s else s.

Inductive wop := WWrite (p : bytes) | WWritev (ps : list bytes) | WFlush.
Definition wstep (wsize : Z) (s : wstate) (o : wop) : wstate :=
  match o with
  | WWrite p => t_write wsize s p
  | WWritev ps => t_writev wsize s ps
  | WFlush => t_flush wsize s
  end.
Definition wpayload (o : wop) : bytes :=
  match o with WWrite p => p | WWritev ps => concat ps | WFlush => [] end.
Definition wrun (wsize : Z) (ops : list wop) : wstate := fold_left (wstep wsize) ops {| conn_log := []; wbuf := [] |}.
(* what the far end has received after each Flush of the sequence *)
Fixpoint flush_points (wsize : Z) (s : wstate) (ops : list wop) : list bytes :=
  match ops with
  | [] => []
  | o :: r => let s' := wstep wsize s o in
              match o with WFlush => conn_log s' :: flush_points wsize s' r | _ => flush_points wsize s' r end
  end.

(* read side: bufio.Reader of rsize (>= 16 enforced by NewReaderSize); rsize 0 = unbuffered *)
Record rstate := { rbuf : bytes; peer : script; perr : option rstat }.   (* perr: sticky error of the bufio.Reader *)
Definition rd_size (rsize : Z) : Z := Z.max rsize 16.

(* one Read(p) with len p = k >= 1: returned bytes, status, new state *)
Definition t_read (rsize : Z) (s : rstate) (k : Z) : bytes * rstat * rstate :=
  if 0 <? rsize then
    match rbuf s with
    | [] =>
        match perr s with
        | Some e => ([], e, {| rbuf := []; peer := peer s; perr := None |})      (* readErr clears it *)
        | None =>
            if rd_size rsize <=? k then                                           (* large read: directly into p *)
              let '(bs, st, r') := read k (peer s) in
              match st with
              | ROk => (bs, ROk, {| rbuf := []; peer := r'; perr := None |})
              | e => (bs, e, {| rbuf := []; peer := r'; perr := None |})
              end
            else
              let '(bs, st, r') := read (rd_size rsize) (peer s) in              (* one fill *)
              match bs with
              | [] => ([], st, {| rbuf := []; peer := r'; perr := None |})
              | _ => (btake k bs, ROk,
                      {| rbuf := bdrop k bs; peer := r'; perr := match st with ROk => None | e => Some e end |})
              end
        end
    | b => (btake k b, ROk, {| rbuf := bdrop k b; peer := peer s; perr := perr s |})
    end
  else let '(bs, st, r') := read k (peer s) in (bs, st, {| rbuf := []; peer := r'; perr := None |}).

(* read with the given buffer sizes, then keep reading (size 512) until an error or EOF *)
Fixpoint read_to_end (fuel : nat) (rsize : Z) (s : rstate) (ks : list Z) (acc : bytes) : bytes * rstat :=
  match fuel with
  | O => (acc, RErr)
  | S f =>
      let k := match ks with k :: _ => k | [] => 512 end in
      let '(bs, st, s') := t_read rsize s k in
      match st with
      | ROk => read_to_end f rsize s' (tl ks) (acc ++ bs)
      | e => (acc ++ bs, e)
      end
  end.
Definition read_stream (rsize : Z) (r : script) (ks : list Z) : bytes * rstat :=
  read_to_end (S (S (2 * mu r))) rsize {| rbuf := []; peer := r; perr := None |} ks [].

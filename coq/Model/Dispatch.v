(* context.go / handler.go / channel.invokeMethod: routing of events through
   the handler list (layer 2: over the list abstraction that Pipeline.v's linked
   structure is proved to refine).  Contexts are (position, handler) pairs,
   position 0 = head, last = tail.  Structural recursion over a zipper
   (reversed prefix, suffix): no fuel.  Executable definitions only. *)
From Coq Require Import List Bool Arith.
Import ListNotations.

Inductive kind := KActive | KRead | KWrite | KException | KInactive | KEvent.
Definition kind_eqb (a b : kind) : bool :=
  match a, b with
  | KActive, KActive | KRead, KRead | KWrite, KWrite | KException, KException
  | KInactive, KInactive | KEvent, KEvent => true
  | _, _ => false
  end.

(* panic values: an error (identity preserved by AsException), a non-error
   value (wrapped by fmt.Errorf), a runtime error, a net.Error *)
Inductive pval := PErr (id : nat) | PStr (id : nat) | PRuntime (id : nat) | PNetErr (timeout : bool) (id : nat).
Inductive xval := XSame (v : pval) | XWrapped (v : pval) | XClose (id : nat).
Definition as_exception (v : pval) : xval := match v with PStr _ => XWrapped v | _ => XSame v end.
Definition closes_on (v : pval) : bool := match v with PNetErr false _ => true | _ => false end.

(* what a handler does when invoked for an event kind *)
Inductive beh :=
| BForward                (* passes the event on (ctx.HandleX) *)
| BStop                   (* does not forward *)
| BPanic (v : pval)
| BWriteBack              (* ctx.Write(m), does not forward *)
| BTriggerOn              (* ctx.Trigger(e), then forwards *)
| BClose (id : nat)       (* ctx.Close(err), does not forward *)
| BHeadWrite              (* headHandler: hands the message to the channel *)
| BTailClose.             (* tailHandler: closes the channel with the exception *)
Record handler := { hid : nat; caps : kind -> bool; behav : kind -> beh }.
Definition ctx := (nat * handler)%type.

Inductive tev := TVisit (pos hid : nat) (k : kind) | TChanWrite | TChanClose (x : xval).
Inductive res := Done | Escaped (v : pval).

Definition head_h : handler :=
  {| hid := 0; caps := fun k => kind_eqb k KWrite; behav := fun _ => BHeadWrite |}.
Definition tail_h : handler :=
  {| hid := 0; caps := fun k => kind_eqb k KException; behav := fun _ => BTailClose |}.
Definition contexts (hs : list handler) : list ctx :=
  let all := head_h :: hs ++ [tail_h] in combine (seq 0 (length all)) all.

(* FireChannelException / ctx.HandleException: head to tail over exception handlers *)
Fixpoint exc_run (suffix : list ctx) (x : xval) : list tev * res :=
  match suffix with
  | [] => ([], Done)
  | (i, h) :: r =>
      if caps h KException then
        match behav h KException with
        | BForward => let '(t, s) := exc_run r x in (TVisit i (hid h) KException :: t, s)
        | BPanic v => ([TVisit i (hid h) KException], Escaped v)
        | BClose id => ([TVisit i (hid h) KException; TChanClose (XClose id)], Done)
        | BTailClose => ([TChanClose x], Done)       (* tailHandler is not a user handler: no visit recorded *)
        | _ => ([TVisit i (hid h) KException], Done)
        end
      else exc_run r x
  end.

(* ctx.HandleWrite / FireChannelWrite: backwards over outbound handlers *)
Fixpoint out_run (pre_rev : list ctx) : list tev * res :=
  match pre_rev with
  | [] => ([], Done)
  | (i, h) :: r =>
      if caps h KWrite then
        match behav h KWrite with
        | BForward => let '(t, s) := out_run r in (TVisit i (hid h) KWrite :: t, s)
        | BPanic v => ([TVisit i (hid h) KWrite], Escaped v)
        | BHeadWrite => ([TChanWrite], Done)         (* headHandler: message handed to the channel *)
        | BClose id => ([TVisit i (hid h) KWrite; TChanClose (XClose id)], Done)
        | _ => ([TVisit i (hid h) KWrite], Done)
        end
      else out_run r
  end.

Section WithAll.
Variable all : list ctx.      (* every context, for FireChannelException from the head *)

(* handlerContext.Write: recover -> FireChannelException(AsException(err)) *)
Definition ctx_write (pre_rev : list ctx) : list tev * res :=
  match out_run pre_rev with
  | (t, Escaped v) => let '(t', s) := exc_run all (as_exception v) in (t ++ t', s)
  | r => r
  end.

(* ctx.HandleEvent / ctx.Trigger: forwards over event handlers *)
Fixpoint evt_run (pre_rev suffix : list ctx) : list tev * res :=
  match suffix with
  | [] => ([], Done)
  | (i, h) :: r =>
      if caps h KEvent then
        match behav h KEvent with
        | BForward => let '(t, s) := evt_run ((i, h) :: pre_rev) r in (TVisit i (hid h) KEvent :: t, s)
        | BPanic v => ([TVisit i (hid h) KEvent], Escaped v)
        | BWriteBack => let '(t, s) := ctx_write pre_rev in (TVisit i (hid h) KEvent :: t, s)
        | BClose id => ([TVisit i (hid h) KEvent; TChanClose (XClose id)], Done)
        | _ => ([TVisit i (hid h) KEvent], Done)
        end
      else evt_run ((i, h) :: pre_rev) r
  end.
Definition ctx_trigger (pre_rev suffix : list ctx) : list tev * res :=
  match evt_run pre_rev suffix with
  | (t, Escaped v) => let '(t', s) := exc_run all (as_exception v) in (t ++ t', s)
  | r => r
  end.

(* ctx.HandleActive / HandleRead / HandleInactive *)
Fixpoint in_run (k : kind) (pre_rev suffix : list ctx) : list tev * res :=
  match suffix with
  | [] => ([], Done)
  | (i, h) :: r =>
      if caps h k then
        match behav h k with
        | BForward => let '(t, s) := in_run k ((i, h) :: pre_rev) r in (TVisit i (hid h) k :: t, s)
        | BPanic v => ([TVisit i (hid h) k], Escaped v)
        | BWriteBack => let '(t, s) := ctx_write pre_rev in (TVisit i (hid h) k :: t, s)
        | BTriggerOn =>
            let '(t1, s1) := ctx_trigger ((i, h) :: pre_rev) r in
            match s1 with
            | Done => let '(t2, s2) := in_run k ((i, h) :: pre_rev) r in (TVisit i (hid h) k :: t1 ++ t2, s2)
            | _ => (TVisit i (hid h) k :: t1, s1)
            end
        | BClose id => ([TVisit i (hid h) k; TChanClose (XClose id)], Done)
        | _ => ([TVisit i (hid h) k], Done)
        end
      else in_run k ((i, h) :: pre_rev) r
  end.
End WithAll.

(* pipeline.Fire*: inbound kinds start after the head, writes before the tail *)
Definition fire (hs : list handler) (k : kind) : list tev * res :=
  let all := contexts hs in
  match k with
  | KWrite => out_run (tl (rev all))
  | KException => exc_run (tl all) (XClose 0)
  | KEvent => match all with c :: r => evt_run all [c] r | [] => ([], Done) end
  | _ => match all with c :: r => in_run all k [c] r | [] => ([], Done) end
  end.
Definition fire_exception (hs : list handler) (x : xval) : list tev * res := exc_run (tl (contexts hs)) x.

(* channel.invokeMethod around a pipeline entry: recover -> if the channel is
   open, FireChannelException(AsException(v)) and Close on a non-timeout net.Error *)
Definition invoke (hs : list handler) (closed : bool) (body : list tev * res) : list tev * res :=
  match body with
  | (t, Escaped v) =>
      if closed then (t, Done)
      else let '(t', s) := fire_exception hs (as_exception v) in
           (t ++ t' ++ (if closes_on v then [TChanClose (XSame v)] else []), s)
  | r => r
  end.

(* entry points *)
Definition chan_write (hs : list handler) (closed : bool) := invoke hs closed (fire hs KWrite).
Definition chan_trigger (hs : list handler) (closed : bool) := invoke hs closed (fire hs KEvent).
Definition read_loop_step (hs : list handler) (closed : bool) := invoke hs closed (fire hs KRead).
Definition fire_active (hs : list handler) (closed : bool) := invoke hs closed (fire hs KActive).
Definition fire_inactive (hs : list handler) (closed : bool) := invoke hs closed (fire hs KInactive).
(* ctx.Write / ctx.Trigger issued from the context at position i *)
Definition at_ctx_write (hs : list handler) (i : nat) : list tev * res :=
  let all := contexts hs in ctx_write all (rev (firstn i all)).
Definition at_ctx_trigger (hs : list handler) (i : nat) : list tev * res :=
  let all := contexts hs in ctx_trigger all (rev (firstn (S i) all)) (skipn (S i) all).

Definition visits (t : list tev) : list (nat * nat * kind) :=
  flat_map (fun e => match e with TVisit p h k => [(p, h, k)] | _ => [] end) t.

(* Correspondence checker for the frame codecs: rebuilds the script a harness
   case describes, runs the model decoder/encoder and compares with what the
   implementation did.  Executable definitions only. *)
From Coq Require Import ZArith List Bool.
From GN Require Import Base.GoInt Base.Reader Model.Frame.
Import ListNotations.
Open Scope Z_scope.

(* compact byte strings: literal or generated (byte i = (a + i*b) mod 256) *)
Inductive piece := PL (l : bytes) | PGen (a b n : Z).
Fixpoint gen_aux (k : nat) (x b : Z) : bytes :=
  match k with O => [] | S k' => Z.to_N (x mod 256) :: gen_aux k' ((x + b) mod 256) b end.
Definition gen_bytes (a b n : Z) : bytes := gen_aux (Z.to_nat n) a b.
Definition piece_bytes (p : piece) : bytes :=
  match p with PL l => l | PGen a b n => gen_bytes a b n end.
Definition wire_of (ps : list piece) : bytes := concat (map piece_bytes ps).

Fixpoint cut (cuts : list Z) (w : bytes) : list bytes :=
  match cuts with
  | [] => match w with [] => [] | _ => [w] end
  | c :: cs => btake c w :: cut cs (bdrop c w)
  end.
Inductive finspec := SEOF | SDataEOF (k : Z) | SErr.
Definition mk_script (w : bytes) (cuts : list Z) (f : finspec) : script :=
  match f with
  | SEOF => mkScript (cut cuts w) FEOF
  | SErr => mkScript (cut cuts w) FErr
  | SDataEOF k => let n := blen w - k in mkScript (cut cuts (btake n w)) (FDataEOF (bdrop n w))
  end.

(* Adler-32 style digest so that large frames are compared without literals *)
Fixpoint digest_aux (l : bytes) (s1 s2 : Z) : Z * Z :=
  match l with
  | [] => (s1, s2)
  | b :: r => let s1' := s1 + Z.of_N b in digest_aux r s1' (s2 + s1')
  end.
(* sums kept exact, reduced once at the end: equal to Adler's running reduction *)
Definition digest (l : bytes) : Z * Z :=
  let '(s1, s2) := digest_aux l 1 0 in
  (blen l, s1 mod 65521 + 65536 * (s2 mod 65521)).

Inductive codec :=
| CLF (c : lfcfg) | CVI (max : Z) | CDL (max : Z) (d : bytes) (strip : bool) | CFX (len : Z)
| CPP (c : ppcfg).                       (* stand-alone prepender (encode only) *)
Definition dec_of (c : codec) : script -> dres * script :=
  match c with
  | CLF c => decode_lf c | CVI m => decode_vi m | CDL m d s => decode_dl m d s | CFX n => decode_fx n
  | CPP _ => fun r => (DFault, r)
  end.

(* observed / model result of one step, digested *)
Inductive ores := OFr (len dg : Z) | OEx (e : exc) | OFault.
Definition ores_of (d : dres) : ores :=
  match d with DFrame f => let '(n, g) := digest f in OFr n g | DExc e => OEx e | DFault => OFault end.

Fixpoint decode_all (fuel : nat) (dec : script -> dres * script) (r : script) : list ores :=
  match fuel with
  | O => []
  | S k => match dec r with
           | (DFrame f, r') => ores_of (DFrame f) :: decode_all k dec r'
           | (d, _) => [ores_of d]
           end
  end.

Definition exc_eqb (a b : exc) : bool :=
  match a, b with
  | EHeader, EHeader | ENegative, ENegative | ELess, ELess | ETooLarge, ETooLarge | EStrip, EStrip
  | ETruncated, ETruncated | EVarint, EVarint | ERead, ERead | ERange, ERange => true
  | _, _ => false
  end.
Definition ores_eqb (a b : ores) : bool :=
  match a, b with
  | OFr n g, OFr n' g' => andb (n =? n') (g =? g')
  | OEx e, OEx e' => exc_eqb e e'
  | _, _ => false
  end.
Fixpoint first_diff (a b : list ores) (i : nat) : option nat :=
  match a, b with
  | [], [] => None
  | x :: a', y :: b' => if ores_eqb x y then first_diff a' b' (S i) else Some i
  | _, _ => Some i
  end.

(* decode case: the implementation decoded until the first exception (or the
   harness's step cap); the model must produce the same sequence *)
Record dcase := { dc_id : nat; dc_codec : codec; dc_wire : list piece; dc_cuts : list Z;
                  dc_fin : finspec; dc_obs : list ores }.
Definition check_dcase (c : dcase) : nat * option nat * option nat :=
  let r := mk_script (wire_of (dc_wire c)) (dc_cuts c) (dc_fin c) in
  let m := decode_all (length (dc_obs c)) (dec_of (dc_codec c)) r in
  (dc_id c, first_diff m (dc_obs c) 0, None).

(* encode case *)
Definition enc_of (c : codec) (body : bytes) : option bytes :=
  match c with
  | CLF l => encode_pp {| pp_be := lf_be l; pp_w := lf_w l; pp_adj := 0; pp_incl := false |} body
  | CPP p => encode_pp p body
  | CVI m => encode_vi m body
  | CDL _ d _ => Some (encode_dl d body)
  | CFX _ => Some body
  end.
Record ecase := { ec_id : nat; ec_codec : codec; ec_body : list piece; ec_obs : ores }.
Definition check_ecase (c : ecase) : nat * option nat * option nat :=
  let m := match enc_of (ec_codec c) (wire_of (ec_body c)) with
           | Some w => let '(n, g) := digest w in OFr n g
           | None => OEx ERange
           end in
  (ec_id c, if ores_eqb m (ec_obs c) then None else Some 0%nat, None).

Definition bad3 (r : nat * option nat * option nat) : bool :=
  match r with (_, None, None) => false | _ => true end.
Definition check_dcases (l : list dcase) := filter bad3 (map check_dcase l).
Definition check_ecases (l : list ecase) := filter bad3 (map check_ecase l).

(* Correspondence checker for the idle-handler model.  The harness ran the
   real read/write idle handler (real timers, real clock, the callback parked
   at its hooks so that the order of all events is known) and recorded the
   history with timestamps in microseconds; the model replays it: every step
   must be enabled (a firing needs an expired deadline, a delivery needs a
   positive decision, a re-arm needs a negative one or a delivery) and the
   final counts must agree.  The property's clauses are also evaluated on the
   raw observation with inequalities that scheduling delays cannot falsify. *)
From Coq Require Import List NArith Bool Arith.
From GN Require Import Model.Idle.
Import ListNotations.
Open Scope N_scope.

Record iobs := {
  io_updates : list (N * N);            (* Active / messages: (time before the call, time after it returned) *)
  io_cbs : list (N * N * bool);         (* per callback: decide hook released at, next hook reached at, went on to deliver? *)
  io_deliveries : list N;               (* times at which the probe received idle events *)
  io_inactive : option (N * N);         (* (before, after) the inactive event passed the handler *)
  io_inflight_at_inactive : nat;        (* callbacks that had started and not finished when inactive was delivered *)
  io_late_fires : nat;                  (* callbacks that STARTED later than a full idle period after inactive returned *)
  io_excs : nat }.
Record icase := { ic_id : nat; ic_idle : N; ic_replay : bool; ic_hist : list iev; ic_obs : iobs }.

Fixpoint irun_strict (s : ist) (h : list iev) (k : nat) : ist * option nat :=
  match h with
  | [] => (s, None)
  | e :: r => match istep s e with Some s' => irun_strict s' r (S k) | None => (s, Some k) end
  end.

(* clause 1: a callback that delivered was released at d_lo and reached its trigger hook at t_next, so its
   decision instant lies in between; every update that had RETURNED before d_lo was seen by the decision
   and must be a full period older than t_next at the very least *)
Definition obs_full_period (idle0 : N) (o : iobs) : bool :=
  forallb (fun c : N * N * bool => let (dt, trig) := c in let (d_lo, t_next) := dt in
             if trig then forallb (fun u => orb (d_lo <? snd u) (fst u + idle0 <=? t_next)) (io_updates o) else true)
          (io_cbs o).
(* clause 2: after inactive has passed, only callbacks already in flight may deliver, and no new period is timed *)
Definition obs_after_inactive (o : iobs) : bool :=
  match io_inactive o with
  | None => true
  | Some (_, ie) =>
      andb (Nat.leb (length (filter (fun e => ie <? e) (io_deliveries o))) (io_inflight_at_inactive o))
           (Nat.eqb (io_late_fires o) 0)
  end.
Definition obs_holds (idle0 : N) (o : iobs) : bool := andb (obs_full_period idle0 o) (obs_after_inactive o).

Definition check_icase (c : icase) : nat * option nat * option nat :=
  let o := ic_obs c in
  let agree :=
    if ic_replay c then
      let '(s, stuck) := irun_strict (iinit (ic_idle c)) (ic_hist c) 0%nat in
      match stuck with
      | Some k => Some (S k)
      | None =>
          if andb (Nat.eqb (length (out s)) (length (io_deliveries o)))
             (andb (Nat.eqb (excs s) (io_excs o)) (andb (negb (crashed s)) (andb (full_period_ok s) (after_inactive_ok s))))
          then None else Some 0%nat
      end
    else None in
  (ic_id c, agree, if obs_holds (ic_idle c) o then None else Some 0%nat).
Definition ibad (r : nat * option nat * option nat) : bool := match r with (_, None, None) => false | _ => true end.
Definition check_icases (l : list icase) := filter ibad (map check_icase l).

(* The response head at byte level: what WriteHeader prints
     "HTTP/%d.%d %d OK\r\n"  then  "%s: %s\r\n" per header  then  "\r\n"
   and how a parser reads it back (status line split at spaces, header lines split at the
   first colon, optional spaces after it skipped). *)
From Coq Require Import List NArith Bool Arith Lia.
From GN Require Import Model.Http.
Import ListNotations.
Open Scope N_scope.

Definition SP : N := 32. Definition COLON : N := 58. Definition SLASH : N := 47. Definition DOT : N := 46.

(* %d *)
Definition decdigit (d : N) : N := 48 + d.
Definition decval (c : N) : option N := if andb (48 <=? c) (c <=? 57) then Some (c - 48) else None.
Fixpoint to_dec_fuel (f : nat) (n : N) : bytes :=
  match f with
  | O => [decdigit (n mod 10)]
  | S f' => if n <? 10 then [decdigit n] else to_dec_fuel f' (n / 10) ++ [decdigit (n mod 10)]
  end.
Definition to_dec (n : N) : bytes := to_dec_fuel (N.to_nat (N.size n)) n.
Fixpoint parse_dec (acc : N) (l : bytes) : N * bytes :=
  match l with
  | [] => (acc, [])
  | c :: r => match decval c with Some v => parse_dec (acc * 10 + v) r | None => (acc, l) end
  end.

Definition http_prefix : bytes := [72; 84; 84; 80; SLASH].       (* "HTTP/" *)
Definition ok_text : bytes := [79; 75].                          (* "OK" *)
Definition emit_status (maj min code : N) : bytes :=
  http_prefix ++ to_dec maj ++ [DOT] ++ to_dec min ++ [SP] ++ to_dec code ++ [SP] ++ ok_text ++ [CR; LF].
Definition emit_header (kv : bytes * bytes) : bytes := fst kv ++ [COLON; SP] ++ snd kv ++ [CR; LF].
Definition emit_head (maj min code : N) (hs : list (bytes * bytes)) : bytes :=
  emit_status maj min code ++ concat (map emit_header hs) ++ [CR; LF].

(* the parser *)
Fixpoint take_line (l : bytes) : option (bytes * bytes) :=        (* up to the first CR LF *)
  match l with
  | [] => None
  | c :: r => if c =? CR then match r with d :: r' => if d =? LF then Some ([], r') else None | [] => None end
              else match take_line r with Some (a, b) => Some (c :: a, b) | None => None end
  end.
Fixpoint split_at (x : N) (l : bytes) : option (bytes * bytes) :=  (* at the first x *)
  match l with
  | [] => None
  | c :: r => if c =? x then Some ([], r) else match split_at x r with Some (a, b) => Some (c :: a, b) | None => None end
  end.
Fixpoint skip_sp (l : bytes) : bytes := match l with c :: r => if c =? SP then skip_sp r else l | [] => [] end.
Fixpoint strip_prefix (p l : bytes) : option bytes :=
  match p, l with
  | [], _ => Some l
  | x :: p', y :: l' => if x =? y then strip_prefix p' l' else None
  | _, [] => None
  end.

Definition parse_status (line : bytes) : option (N * N * N) :=
  match strip_prefix http_prefix line with
  | None => None
  | Some r0 =>
      let '(maj, r1) := parse_dec 0 r0 in
      match r1 with
      | c :: r2 => if c =? DOT then
          let '(min, r3) := parse_dec 0 r2 in
          match r3 with
          | c3 :: r4 => if c3 =? SP then let '(code, _) := parse_dec 0 r4 in Some (maj, min, code) else None
          | [] => None
          end else None
      | [] => None
      end
  end.
Fixpoint parse_headers (fuel : nat) (l : bytes) : option (list (bytes * bytes) * bytes) :=
  match fuel with
  | O => None
  | S f =>
      match take_line l with
      | None => None
      | Some ([], rest) => Some ([], rest)                          (* blank line: end of the head *)
      | Some (line, rest) =>
          match split_at COLON line with
          | None => None
          | Some (k, v) => match parse_headers f rest with
                           | Some (hs, rest') => Some ((k, skip_sp v) :: hs, rest')
                           | None => None
                           end
          end
      end
  end.
Definition parse_head (l : bytes) : option (N * N * N * list (bytes * bytes) * bytes) :=
  match take_line l with
  | None => None
  | Some (line, rest) =>
      match parse_status line with
      | None => None
      | Some (maj, min, code) =>
          match parse_headers (S (length rest)) rest with
          | Some (hs, rest') => Some (maj, min, code, hs, rest')
          | None => None
          end
      end
  end.

(* well-formed header: name non-empty without colon / CR; value without CR and not starting with a space *)
Definition no_byte (x : N) (l : bytes) : bool := forallb (fun c => negb (c =? x)) l.
Definition wf_header (kv : bytes * bytes) : bool :=
  andb (match fst kv with [] => false | _ => true end)
  (andb (no_byte COLON (fst kv)) (andb (no_byte CR (fst kv)) (andb (no_byte CR (snd kv))
        (match snd kv with c :: _ => negb (c =? SP) | [] => true end)))).

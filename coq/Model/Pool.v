(* Model of utils/pool (generic.go + pbytes/pbuffer wrappers): state and
   histories.  The arithmetic (geometry, size classes, shard index, what Put
   accepts) is NOT written here: it comes from Gen/PMath.v and Gen/PoolArith.v,
   regenerated from the Go source on every run.  Executable definitions only. *)
From Coq Require Import ZArith List Bool.
From GN Require Import Base.GoInt Gen.PMath Gen.PoolArith.
Import ListNotations.
Open Scope Z_scope.

Record buf := { bid : nat; bcap : Z }.

(* a shard of sync.Pool objects is a multiset; an entry remembers its shard *)
Record pstate := { p_sh : Z; p_st : Z; store : list (Z * buf); fresh : nat }.

Definition pool_new (max : Z) : option pstate :=
  match pool_geom max with
  | Some (sh, st) => Some {| p_sh := sh; p_st := st; store := []; fresh := 0 |}
  | None => None
  end.

(* history operations.  `hint` resolves sync.Pool's nondeterminism: Some id =
   the shard hands out the stored object id; None = the shard returns nothing. *)
Inductive pop := OGet (size : Z) (hint : option nat) | OPut (id : nat) (cap : Z).
Inductive pout :=
| RGot (b : buf) (hit : bool)
| RPanic
| RPut (stored : bool)
| RImpossible.          (* the hint names an object the tried shard does not hold *)

Fixpoint take (idx : Z) (id : nat) (l : list (Z * buf)) : option (buf * list (Z * buf)) :=
  match l with
  | [] => None
  | (i, b) :: r =>
      if andb (Z.eqb i idx) (Nat.eqb (bid b) id) then Some (b, r)
      else match take idx id r with
           | Some (b', r') => Some (b', (i, b) :: r')
           | None => None
           end
  end.

Definition alloc (s : pstate) (n : Z) : pstate * pout :=
  ({| p_sh := p_sh s; p_st := p_st s; store := store s; fresh := S (fresh s) |},
   RGot {| bid := fresh s; bcap := n |} false).

Fixpoint run_get (s : pstate) (plan : get_plan) (hint : option nat) : pstate * pout :=
  match plan with
  | GPanic => (s, RPanic)
  | GMiss n => match hint with None => alloc s n | Some _ => (s, RImpossible) end
  | GTry idx n els =>
      match hint with
      | None => run_get s els None
      | Some id =>
          match take idx id (store s) with
          | Some (b, st') =>
              ({| p_sh := p_sh s; p_st := p_st s; store := st'; fresh := fresh s |}, RGot b true)
          | None => (s, RImpossible)
          end
      end
  end.

Definition pstep (s : pstate) (o : pop) : pstate * pout :=
  match o with
  | OGet size hint => run_get s (pool_get (p_sh s) (p_st s) size) hint
  | OPut id cap =>
      match pool_put (p_sh s) (p_st s) cap with
      | PStore idx =>
          ({| p_sh := p_sh s; p_st := p_st s;
              store := (idx, {| bid := id; bcap := cap |}) :: store s;
              fresh := Nat.max (fresh s) (S id) |}, RPut true)
      | PDrop => (s, RPut false)
      | PPanic => (s, RPanic)
      end
  end.

Fixpoint prun (s : pstate) (ops : list pop) : pstate * list pout :=
  match ops with
  | [] => (s, [])
  | o :: r => let '(s1, x) := pstep s o in let '(s2, xs) := prun s1 r in (s2, x :: xs)
  end.

(* ---- the property checker: evaluated on model outputs by the theorem, and on
   the implementation's observations by the correspondence check ---- *)

(* cap >= n for every Get that returned (n <= 0 asks for nothing) *)
Definition get_ok (o : pop) (r : pout) : bool :=
  match o, r with
  | OGet size _, RGot b _ => Z.leb size (bcap b)
  | OGet size _, RPanic => Z.ltb 4611686018427387904 size   (* only sizes beyond 2^62 may panic *)
  | OGet _ _, RImpossible => true   (* not an execution of the pool: the hint names an absent object *)
  | OGet _ _, _ => false
  | OPut _ _, RPut _ => true
  | OPut _ _, _ => false
  end.

Fixpoint count_hits (id : nat) (ops : list pop) (outs : list pout) : nat :=
  match ops, outs with
  | OGet _ _ :: os, RGot b true :: rs =>
      (if Nat.eqb (bid b) id then 1 else 0)%nat + count_hits id os rs
  | _ :: os, _ :: rs => count_hits id os rs
  | _, _ => 0%nat
  end.

Fixpoint count_puts (id : nat) (ops : list pop) : nat :=
  match ops with
  | OPut i _ :: os => ((if Nat.eqb i id then 1 else 0) + count_puts id os)%nat
  | _ :: os => count_puts id os
  | [] => 0%nat
  end.

Definition holds_caps (ops : list pop) (outs : list pout) : bool :=
  forallb (fun p => get_ok (fst p) (snd p)) (combine ops outs).

(* ---- correspondence: compare the model with what the implementation did ---- *)
(* observation of one call on the real pool *)
Inductive pobs :=
| PG (size : Z) (hit : option nat) (cap : Z) (panicked : bool)
| PP (id : nat) (cap : Z).

Definition obs_op (o : pobs) : pop :=
  match o with PG size hit _ _ => OGet size hit | PP id cap => OPut id cap end.

Definition obs_agrees (o : pobs) (r : pout) : bool :=
  match o, r with
  | PG _ (Some id) cap false, RGot b true => andb (Nat.eqb (bid b) id) (Z.eqb (bcap b) cap)
  | PG _ None cap false, RGot b false => Z.eqb (bcap b) cap
  | PG _ _ _ true, RPanic => true
  | PP _ _, RPut _ => true
  | _, _ => false
  end.

(* what the property demands of an observation, model or not *)
Definition obs_holds (o : pobs) : bool :=
  match o with
  | PG size _ cap false => Z.leb size cap
  | PG size _ _ true => Z.ltb 4611686018427387904 size
  | PP _ _ => true
  end.

Fixpoint first_bad {A} (f : A -> bool) (l : list A) (i : nat) : option nat :=
  match l with
  | [] => None
  | x :: r => if f x then first_bad f r (S i) else Some i
  end.

(* result of one case: (case id, index of first model/impl disagreement,
   index of first observation violating the property) *)
Definition pool_case := (nat * Z * list pobs)%type.
Definition check_pool_case (c : pool_case) : nat * option nat * option nat :=
  let '(cid, max, obs) := c in
  match pool_new max with
  | None => (cid, Some 0%nat, None)
  | Some s0 =>
      let outs := snd (prun s0 (map obs_op obs)) in
      (cid,
       first_bad (fun p => obs_agrees (fst p) (snd p)) (combine obs outs) 0,
       first_bad obs_holds obs 0)
  end.

Definition pool_bad (r : nat * option nat * option nat) : bool :=
  match r with (_, None, None) => false | _ => true end.
Definition check_pool_cases (cs : list pool_case) := filter pool_bad (map check_pool_case cs).

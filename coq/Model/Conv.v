(* Outbound message types, the head handler's type switch, Channel.ReadFrom's
   1024-byte streaming loop and the conversion helpers of utils/reader.go.
   Executable definitions only. *)
From Coq Require Import ZArith List Bool.
From GN Require Import Base.Reader.
Import ListNotations.
Open Scope Z_scope.

Inductive msg :=
| MBytes (b : bytes)                 (* []byte *)
| MVec (bs : list bytes)             (* [][]byte *)
| MBuffer (b : bytes)                (* *bytes.Buffer (unread part) *)
| MString (s : bytes)                (* string *)
| MBytesReader (b : bytes)           (* *bytes.Reader (unread part) *)
| MStringsReader (s : bytes)         (* *strings.Reader (unread part) *)
| MWriterTo (steps : list bytes)     (* any other io.WriterTo: the Writes it performs *)
| MReader (r : script)               (* any other io.Reader *)
| MOther.                            (* anything else *)

Definition content (m : msg) : bytes :=
  match m with
  | MBytes b | MBuffer b | MString b | MBytesReader b | MStringsReader b => b
  | MVec bs | MWriterTo bs => concat bs
  | MReader r => contents r
  | MOther => []
  end.

(* low-level channel calls the head handler makes *)
Inductive lcall := LWrite1 (p : bytes) | LWritev (ps : list bytes).
Definition lpayload (c : lcall) : bytes := match c with LWrite1 p => p | LWritev ps => concat ps end.

(* Channel.ReadFrom: Read into a 1024-byte pooled chunk, write1 each non-empty
   chunk, stop at EOF (nil error) or at a read error *)
Fixpoint read_from_aux (fuel : nat) (r : script) : list bytes * rstat :=
  match fuel with
  | O => ([], RErr)
  | S f =>
      let '(bs, st, r') := read 1024 r in
      let out := match bs with [] => [] | _ => [bs] end in
      match st with
      | ROk => let '(rest, st') := read_from_aux f r' in (out ++ rest, st')
      | REOF => (out, ROk)
      | _ => (out, RErr)
      end
  end.
Definition read_from (r : script) := read_from_aux (S (mu r)) r.

(* single-Write WriterTo implementations write nothing when empty *)
Definition one_write (b : bytes) : list lcall := match b with [] => [] | _ => [LWrite1 b] end.

(* headHandler.HandleWrite: None = exception "unsupported type" *)
Definition head_write (m : msg) : option (list lcall * rstat) :=
  match m with
  | MBytes b => Some ([LWrite1 b], ROk)
  | MVec bs => Some ([LWritev bs], ROk)
  | MBuffer b => Some ([LWrite1 b], ROk)
  | MBytesReader b | MStringsReader b => Some (one_write b, ROk)
  | MWriterTo steps => Some (map LWrite1 steps, ROk)
  | MReader r => let '(cs, st) := read_from r in Some (map LWrite1 cs, st)
  | MString _ | MOther => None
  end.

(* utils.ToBytes (with the repaired StealBytes: every Write of a generic
   WriterTo is copied) : None = error *)
Definition to_bytes (m : msg) : option bytes :=
  match m with
  | MBytes b | MBuffer b | MString b | MBytesReader b | MStringsReader b => Some b
  | MVec bs | MWriterTo bs => Some (concat bs)
  | MReader r => match read_all r with (b, ROk, _) => Some b | _ => None end
  | MOther => None
  end.

(* utils.ToReader: the reader's behaviour as a script *)
Definition to_reader (m : msg) : option script :=
  match m with
  | MBytes b | MString b => Some (of_frags [b])
  | MVec bs => Some (of_frags bs)
  | MBuffer b | MBytesReader b | MStringsReader b => Some (of_frags [b])
  | MReader r => Some r
  | MWriterTo _ | MOther => None       (* a WriterTo that is not a Reader is rejected *)
  end.

Definition count_of (bs : list bytes) : Z := fold_left (fun n b => n + blen b) bs 0.

(* reading a stream byte by byte through utils.byteReader until it reports an error *)
Fixpoint read_bytes_aux (fuel : nat) (r : script) : bytes * rstat :=
  match fuel with
  | O => ([], RErr)
  | S f => match read_byte r with
           | (Some b, _, r') => let '(bs, st) := read_bytes_aux f r' in (b :: bs, st)
           | (None, st, _) => ([], st)
           end
  end.
Definition read_bytes (r : script) := read_bytes_aux (S (length (contents r))) r.

(* text codec (codec/format/text.go): write hands a strings.Reader down, read
   converts whatever arrives to bytes and then to a string *)
Definition text_write (m : msg) : option msg :=
  match m with MString s => Some (MStringsReader s) | _ => None end.
Definition text_read (m : msg) : option bytes := to_bytes m.

(* C10: write snapshot semantics.  Data, not control: a machine whose atomic
   operations may be interleaved arbitrarily (an execution is any operation
   sequence).  Buffers have identities; `heap` gives their current contents.
   Callers own their buffers and may overwrite them at any time outside their
   own call; pooled buffers are owned by the pool's free list, by a queued /
   in-hand packet, or by a pool user that obtained them with Get. *)
From Coq Require Import List Arith Bool.
Import ListNotations.

Definition bufid := nat.
Definition data := list nat.
Definition heap := bufid -> data.
Definition hset (h : heap) (b : bufid) (d : data) : heap := fun x => if Nat.eqb x b then d else h x.

Record pkt := { p_buf : bufid; p_call : nat; p_want : data }.   (* p_want: ghost, the caller's bytes when the call was made *)

Record sstate := {
  hp : heap;
  free : list bufid;              (* pooled buffers in the pool *)
  q : list pkt;                   (* write queue followed by the sender's hand *)
  users : list (nat * bufid);     (* (pool user, pooled buffer it obtained) *)
  pooled : list bufid;            (* every buffer that ever belonged to the pool machinery *)
  sent : list (nat * data * data) (* (call, bytes given to the transport, bytes wanted) *) }.

Inductive sop :=
| SWrite (call : nat) (src : bufid) (pick : option bufid)  (* clone path: Get (pick = reuse that free buffer, None = fresh id), copy, enqueue *)
| SHandOver (call : nat) (u : nat) (b : bufid)             (* ReadFrom path: user u enqueues the pooled buffer it filled, without a copy *)
| SScribble (b : bufid) (d : data)                         (* a caller overwrites one of its own (non-pooled) buffers *)
| SSend                                                    (* sender: Writev the head packet, then Put its buffer back *)
| SGet (u : nat) (pick : option bufid)                     (* another goroutine obtains a pooled buffer *)
| SUserWrite (u : nat) (b : bufid) (d : data)              (* ... scribbles on a buffer it holds *)
| SPut (u : nat) (b : bufid).                              (* ... and returns it *)

Definition mem (b : bufid) (l : list bufid) : bool := existsb (Nat.eqb b) l.
Fixpoint remove1 (b : bufid) (l : list bufid) : list bufid :=
  match l with [] => [] | x :: r => if Nat.eqb x b then r else x :: remove1 b r end.
Definition holds_buf (u : nat) (b : bufid) (l : list (nat * bufid)) : bool :=
  existsb (fun p => andb (Nat.eqb (fst p) u) (Nat.eqb (snd p) b)) l.
Fixpoint drop_hold (u : nat) (b : bufid) (l : list (nat * bufid)) : list (nat * bufid) :=
  match l with [] => [] | p :: r => if andb (Nat.eqb (fst p) u) (Nat.eqb (snd p) b) then r else p :: drop_hold u b r end.
Definition fresh_id (s : sstate) : bufid := S (fold_right Nat.max 0 (pooled s)).

(* operations that do not respect the ownership discipline are not executions of the program: None *)
Definition sstep (s : sstate) (o : sop) : option sstate :=
  match o with
  | SWrite call src pick =>
      if mem src (pooled s) then None else          (* a caller's own buffer is not a pooled one *)
      let '(b, fr, pl) :=
        match pick with
        | Some b => (b, remove1 b (free s), pooled s)
        | None => (fresh_id s, free s, fresh_id s :: pooled s)
        end in
      if match pick with Some b => negb (mem b (free s)) | None => false end then None else
      Some {| hp := hset (hp s) b (hp s src); free := fr;
              q := q s ++ [{| p_buf := b; p_call := call; p_want := hp s src |}];
              users := users s; pooled := pl; sent := sent s |}
  | SHandOver call u b =>
      if holds_buf u b (users s) then
        Some {| hp := hp s; free := free s; q := q s ++ [{| p_buf := b; p_call := call; p_want := hp s b |}];
                users := drop_hold u b (users s); pooled := pooled s; sent := sent s |}
      else None
  | SScribble b d =>
      if mem b (pooled s) then None
      else Some {| hp := hset (hp s) b d; free := free s; q := q s; users := users s; pooled := pooled s; sent := sent s |}
  | SSend =>
      match q s with
      | [] => None
      | p :: r => Some {| hp := hp s; free := p_buf p :: free s; q := r; users := users s; pooled := pooled s;
                          sent := sent s ++ [(p_call p, hp s (p_buf p), p_want p)] |}
      end
  | SGet u pick =>
      match pick with
      | Some b => if mem b (free s)
                  then Some {| hp := hp s; free := remove1 b (free s); q := q s; users := (u, b) :: users s;
                               pooled := pooled s; sent := sent s |}
                  else None
      | None => Some {| hp := hp s; free := free s; q := q s; users := (u, fresh_id s) :: users s;
                        pooled := fresh_id s :: pooled s; sent := sent s |}
      end
  | SUserWrite u b d =>
      if holds_buf u b (users s)
      then Some {| hp := hset (hp s) b d; free := free s; q := q s; users := users s; pooled := pooled s; sent := sent s |}
      else None
  | SPut u b =>
      if holds_buf u b (users s)
      then Some {| hp := hp s; free := b :: free s; q := q s; users := drop_hold u b (users s); pooled := pooled s; sent := sent s |}
      else None
  end.
Fixpoint srun (s : sstate) (ops : list sop) : sstate :=
  match ops with [] => s | o :: r => match sstep s o with Some s' => srun s' r | None => srun s r end end.
Definition sinit (h : heap) : sstate := {| hp := h; free := []; q := []; users := []; pooled := []; sent := [] |}.

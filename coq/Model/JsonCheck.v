(* Correspondence of the JSON codec glue: the harness reports what the real
   library did with a frame (object / nil object / error) and what the codec
   did (deliver / raise); the model, instantiated with that library outcome,
   must predict the codec's behaviour. *)
From Coq Require Import List Bool.
From GN Require Import Base.Reader Model.Json.
Import ListNotations.

Inductive jlib := Jobj | Jnull | Jerr.
Inductive jcodec := Jdeliver | Jraise.
Definition jcase := (nat * jlib * jcodec)%type.
Definition lib_res (l : jlib) : jres :=
  match l with Jobj => JOk (JObj []) | Jnull => JOk JNull | Jerr => JErr end.
Definition check_jcase (c : jcase) : nat * option nat * option nat :=
  let '(id, l, k) := c in
  let m := json_read (fun _ _ _ => lib_res l) false false [] in
  let agree := match m, k with JDeliver _, Jdeliver | JRaise, Jraise => true | _, _ => false end in
  (* property on the observation: only a decoded object may be delivered *)
  let holds := match k, l with Jdeliver, Jobj => true | Jdeliver, _ => false | Jraise, _ => true end in
  (id, if agree then None else Some 0, if holds then None else Some 0).
Definition jbad (r : nat * option nat * option nat) : bool :=
  match r with (_, None, None) => false | _ => true end.
Definition check_jcases (l : list jcase) := filter jbad (map check_jcase l).

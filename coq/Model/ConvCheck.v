(* Correspondence checker for C14/C16(text): head handler writes and the
   conversion helpers.  Executable definitions only. *)
From Coq Require Import ZArith List Bool.
From GN Require Import Base.Reader Model.Frame Model.FrameCheck Model.Conv.
Import ListNotations.
Open Scope Z_scope.

Inductive mspec :=
| SBytes (p : list piece) | SVec (ps : list (list piece)) | SBuffer (p : list piece) | SString (p : list piece)
| SBytesReader (p : list piece) | SStringsReader (p : list piece) | SWriterTo (steps : list (list piece))
| SReader (wire : list piece) (cuts : list Z) (fin : finspec) | SOther.
Definition msg_of (s : mspec) : msg :=
  match s with
  | SBytes p => MBytes (wire_of p) | SVec ps => MVec (map wire_of ps) | SBuffer p => MBuffer (wire_of p)
  | SString p => MString (wire_of p) | SBytesReader p => MBytesReader (wire_of p)
  | SStringsReader p => MStringsReader (wire_of p) | SWriterTo st => MWriterTo (map wire_of st)
  | SReader w c f => MReader (mk_script (wire_of w) c f) | SOther => MOther
  end.

Definition dg (b : bytes) : Z * Z := digest b.
Definition dg_eqb (a b : Z * Z) : bool := andb (fst a =? fst b) (snd a =? snd b).
Fixpoint dgs_eqb (a b : list (Z * Z)) : bool :=
  match a, b with
  | [], [] => true
  | x :: a', y :: b' => andb (dg_eqb x y) (dgs_eqb a' b')
  | _, _ => false
  end.

(* head handler case: observed = digests of the low-level write payloads that
   reached the transport, and whether an exception was raised *)
Record hcase := { hc_id : nat; hc_msg : mspec; hc_obs : list (Z * Z); hc_exc : bool }.
Definition check_hcase (c : hcase) : nat * option nat * option nat :=
  let ok :=
    match head_write (msg_of (hc_msg c)) with
    | Some (calls, st) =>
        andb (dgs_eqb (map (fun k => dg (lpayload k)) calls) (hc_obs c))
             (Bool.eqb (hc_exc c) (match st with ROk => false | _ => true end))
    | None => andb (match hc_obs c with [] => true | _ => false end) (hc_exc c)
    end in
  (* the property itself, evaluated on the observation: transmitted bytes = content *)
  let holds :=
    match msg_of (hc_msg c) with
    | MOther | MString _ => andb (match hc_obs c with [] => true | _ => false end) (hc_exc c)
    | m => orb (hc_exc c) (fst (dg (content m)) =? fold_left (fun n d => n + fst d) (hc_obs c) 0)
    end in
  (hc_id c, if ok then None else Some 0%nat, if holds then None else Some 0%nat).

Inductive cfn := FToBytes | FToReader | FCount | FByteRead | FSteal.
Record ccase := { cc_id : nat; cc_fn : cfn; cc_msg : mspec; cc_obs : option (Z * Z) }.
Definition opt_dg_eqb (a b : option (Z * Z)) : bool :=
  match a, b with Some x, Some y => dg_eqb x y | None, None => true | _, _ => false end.
Definition check_ccase (c : ccase) : nat * option nat * option nat :=
  let m := msg_of (cc_msg c) in
  let model :=
    match cc_fn c with
    | FToBytes | FSteal => option_map dg (to_bytes m)
    | FToReader => option_map (fun r => dg (contents r)) (to_reader m)
    | FCount => match m with MVec bs => Some (count_of bs, 0) | _ => None end
    | FByteRead => match m with MReader r => Some (dg (fst (read_bytes r))) | _ => None end
    end in
  let expect :=           (* the property: exactly the content, or an error for unsupported input *)
    match cc_fn c, m with
    | _, MOther => None
    | FToReader, MWriterTo _ => None
    | FCount, MVec bs => Some (blen (concat bs), 0)
    | (FToBytes | FSteal), MReader r => match final r with FErr => None | _ => Some (dg (content m)) end
    | _, _ => Some (dg (content m))
    end in
  (cc_id c, if opt_dg_eqb model (cc_obs c) then None else Some 0%nat,
            if opt_dg_eqb expect (cc_obs c) then None else Some 0%nat).

Definition check_hcases (l : list hcase) := filter bad3 (map check_hcase l).
Definition check_ccases (l : list ccase) := filter bad3 (map check_ccase l).

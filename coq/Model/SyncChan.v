(* channel.go, synchronous channel (no write queue).  Every write entry point
   (Write1, Writev, CtxWrite1, CtxWritev, Writer().Write) checks closedErr
   (closed flag or ended context), takes the write lock, calls
   transport.Write/Writev and, if that succeeded, transport.Flush, and releases
   the lock (deferred) on every path.  Close: CAS on the closed flag (losers
   return at once), store the error, transport.Close, cancel the context, fire
   the inactive event.  One step = one hook-to-hook stretch of the real code
   (w.check, w.lock, t.write, t.flush; c.cas, c.seterr, c.tclose, t.close,
   c.cancel, c.inactive), so the model replays the very schedules the harness
   runs (Model/SyncCheck.v).  The transport fails a write/flush once it has been
   closed, or when the environment injects a failure (flag of the event). *)
From Coq Require Import List Arith Bool.
Import ListNotations.

Inductive ypc := YCheck | YLock | YWrite | YFlush.
Inductive yres := YOk | YClosed | YFail.
Inductive ykpc := KCas | KSetErr | KTClose | KTClosing | KCancel | KInactive.
Inductive ythread :=
  | YWriter (calls : list nat) (pc : ypc) (res : list (nat * yres))
  | YCloser (err : nat) (pc : ykpc)
  | YDone.
Record sst := { sc_lock : option nat; sc_closed : bool; sc_ctx : bool; sc_tclosed : nat;
                sc_tlog : list nat; sc_flushed : nat; sc_creturned : bool; sc_winner : option nat;
                sc_inactive : list nat; sc_threads : list ythread }.

Fixpoint yupd (l : list ythread) (i : nat) (x : ythread) : list ythread :=
  match l, i with [], _ => [] | _ :: t, O => x :: t | h :: t, S i => h :: yupd t i x end.
(* writer steps change the lock, the transport log and the flush mark only *)
Definition y_set (s : sst) (lk : option nat) (tl : list nat) (fl : nat) (i : nat) (t : ythread) : sst :=
  {| sc_lock := lk; sc_closed := sc_closed s; sc_ctx := sc_ctx s; sc_tclosed := sc_tclosed s; sc_tlog := tl;
     sc_flushed := fl; sc_creturned := sc_creturned s; sc_winner := sc_winner s; sc_inactive := sc_inactive s;
     sc_threads := yupd (sc_threads s) i t |}.
(* closer steps change the close-protocol fields only *)
Definition k_set (s : sst) (cl cx : bool) (tc : nat) (cr : bool) (w : option nat) (ina : list nat) (i : nat) (t : ythread) : sst :=
  {| sc_lock := sc_lock s; sc_closed := cl; sc_ctx := cx; sc_tclosed := tc; sc_tlog := sc_tlog s;
     sc_flushed := sc_flushed s; sc_creturned := cr; sc_winner := w; sc_inactive := ina;
     sc_threads := yupd (sc_threads s) i t |}.
Definition y_ret (calls : list nat) (res : list (nat * yres)) (r : yres) : ythread :=
  match calls with [] => YDone | c :: rest => YWriter rest YCheck (res ++ [(c, r)]) end.
(* closedErr(): the closed flag or the channel context *)
Definition closed_err (s : sst) : bool := orb (sc_closed s) (sc_ctx s).

Inductive yev := YRun (i : nat) (fail : bool) | YParent.
Definition sc_step (s : sst) (e : yev) : option sst :=
  match e with
  | YParent => Some {| sc_lock := sc_lock s; sc_closed := sc_closed s; sc_ctx := true; sc_tclosed := sc_tclosed s;
                       sc_tlog := sc_tlog s; sc_flushed := sc_flushed s; sc_creturned := sc_creturned s;
                       sc_winner := sc_winner s; sc_inactive := sc_inactive s; sc_threads := sc_threads s |}
  | YRun i f =>
    match nth_error (sc_threads s) i with
    | Some (YWriter (c :: rest) pc res) =>
      match pc with
      | YCheck => if closed_err s then Some (y_set s (sc_lock s) (sc_tlog s) (sc_flushed s) i (y_ret (c :: rest) res YClosed))
                  else Some (y_set s (sc_lock s) (sc_tlog s) (sc_flushed s) i (YWriter (c :: rest) YLock res))
      | YLock => match sc_lock s with
                 | Some _ => None                                   (* parked on the mutex *)
                 | None => Some (y_set s (Some i) (sc_tlog s) (sc_flushed s) i (YWriter (c :: rest) YWrite res))
                 end
      | YWrite => if orb (0 <? sc_tclosed s) f
                  then Some (y_set s None (sc_tlog s) (sc_flushed s) i (y_ret (c :: rest) res YFail))   (* write failed: unlock, return *)
                  else Some (y_set s (sc_lock s) (sc_tlog s ++ [c]) (sc_flushed s) i (YWriter (c :: rest) YFlush res))
      | YFlush => if orb (0 <? sc_tclosed s) f
                  then Some (y_set s None (sc_tlog s) (sc_flushed s) i (y_ret (c :: rest) res YFail))
                  else Some (y_set s None (sc_tlog s) (length (sc_tlog s)) i (y_ret (c :: rest) res YOk))
      end
    | Some (YCloser e pc) =>
      match pc with
      | KCas => if sc_closed s
                then Some (k_set s true (sc_ctx s) (sc_tclosed s) true (sc_winner s) (sc_inactive s) i YDone)     (* lost: Close returns *)
                else Some (k_set s true (sc_ctx s) (sc_tclosed s) (sc_creturned s) (Some e) (sc_inactive s) i (YCloser e KSetErr))
      | KSetErr => Some (k_set s (sc_closed s) (sc_ctx s) (sc_tclosed s) (sc_creturned s) (sc_winner s) (sc_inactive s) i (YCloser e KTClose))
      | KTClose => Some (k_set s (sc_closed s) (sc_ctx s) (sc_tclosed s) (sc_creturned s) (sc_winner s) (sc_inactive s) i (YCloser e KTClosing))
      | KTClosing => Some (k_set s (sc_closed s) (sc_ctx s) (S (sc_tclosed s)) (sc_creturned s) (sc_winner s) (sc_inactive s) i (YCloser e KCancel))
      | KCancel => Some (k_set s (sc_closed s) true (sc_tclosed s) (sc_creturned s) (sc_winner s) (sc_inactive s) i (YCloser e KInactive))
      | KInactive => Some (k_set s (sc_closed s) (sc_ctx s) (sc_tclosed s) true (sc_winner s) (sc_inactive s ++ [e]) i YDone)
      end
    | _ => None
    end
  end.
Fixpoint sc_run (s : sst) (sched : list yev) : sst :=
  match sched with [] => s | e :: r => match sc_step s e with Some s' => sc_run s' r | None => sc_run s r end end.
Definition sc_init (ths : list ythread) : sst :=
  {| sc_lock := None; sc_closed := false; sc_ctx := false; sc_tclosed := 0; sc_tlog := []; sc_flushed := 0;
     sc_creturned := false; sc_winner := None; sc_inactive := []; sc_threads := ths |}.

(* payloads a writer may still hand to the transport *)
Definition y_pending (t : ythread) : list nat :=
  match t with
  | YWriter calls (YCheck | YLock | YWrite) _ => calls
  | YWriter calls YFlush _ => tl calls
  | _ => []
  end.
Fixpoint nodup_nat (l : list nat) : bool :=
  match l with [] => true | x :: r => andb (negb (existsb (Nat.eqb x) r)) (nodup_nat r) end.
Definition sc_wf (ths : list ythread) : bool :=
  andb (forallb (fun t => match t with YWriter _ YCheck [] => true | YCloser _ KCas => true | YDone => true | _ => false end) ths)
       (nodup_nat (flat_map y_pending ths)).

(* is thread i able to take a step (with a transport that does not fail by injection)? *)
Definition y_enabled (s : sst) (i : nat) : bool := match sc_step s (YRun i false) with Some _ => true | None => false end.
Definition y_finished (t : ythread) : bool :=
  match t with YDone => true | YWriter [] _ _ => true | _ => false end.

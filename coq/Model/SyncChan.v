(* channel.go, synchronous channel (no write queue): every write entry point
   checks closed-ness, takes the write lock, calls transport.Write/Writev and,
   if that succeeded, transport.Flush, and releases the lock (deferred).  One
   step = one hook-to-hook stretch (w.check, w.lock, t.write, t.flush).  Closing
   is a single environment step here (its protocol is C05's subject). *)
From Coq Require Import List Arith Bool.
Import ListNotations.

Inductive ypc := YCheck | YLock | YWrite | YFlush.
Inductive yres := YOk | YClosed | YFail.
Inductive ythread := YWriter (calls : list nat) (pc : ypc) (res : list (nat * yres)) | YDone.
Record sst := { sc_lock : option nat; sc_closed : bool; sc_tclosed : bool;
                sc_tlog : list nat; sc_accepted : list nat; sc_flushed : nat; sc_threads : list ythread }.

Fixpoint yupd (l : list ythread) (i : nat) (x : ythread) : list ythread :=
  match l, i with [], _ => [] | _ :: t, O => x :: t | h :: t, S i => h :: yupd t i x end.
Definition y_set (s : sst) (lk : option nat) (tl ac : list nat) (fl : nat) (i : nat) (t : ythread) : sst :=
  {| sc_lock := lk; sc_closed := sc_closed s; sc_tclosed := sc_tclosed s; sc_tlog := tl; sc_accepted := ac;
     sc_flushed := fl; sc_threads := yupd (sc_threads s) i t |}.
Definition y_ret (calls : list nat) (res : list (nat * yres)) (r : yres) : ythread :=
  match calls with [] => YDone | c :: rest => YWriter rest YCheck (res ++ [(c, r)]) end.

Inductive yev := YRun (i : nat) | YClose.
Definition sc_step (s : sst) (e : yev) : option sst :=
  match e with
  | YClose => Some {| sc_lock := sc_lock s; sc_closed := true; sc_tclosed := true; sc_tlog := sc_tlog s;
                      sc_accepted := sc_accepted s; sc_flushed := sc_flushed s; sc_threads := sc_threads s |}
  | YRun i =>
    match nth_error (sc_threads s) i with
    | Some (YWriter (c :: rest) pc res) =>
      match pc with
      | YCheck => if sc_closed s then Some (y_set s (sc_lock s) (sc_tlog s) (sc_accepted s) (sc_flushed s) i (y_ret (c :: rest) res YClosed))
                  else Some (y_set s (sc_lock s) (sc_tlog s) (sc_accepted s) (sc_flushed s) i (YWriter (c :: rest) YLock res))
      | YLock => match sc_lock s with
                 | Some _ => None                                   (* parked on the mutex *)
                 | None => Some (y_set s (Some i) (sc_tlog s) (sc_accepted s) (sc_flushed s) i (YWriter (c :: rest) YWrite res))
                 end
      | YWrite => if sc_tclosed s
                  then Some (y_set s None (sc_tlog s) (sc_accepted s) (sc_flushed s) i (y_ret (c :: rest) res YFail))   (* write failed: unlock, return *)
                  else Some (y_set s (sc_lock s) (sc_tlog s ++ [c]) (sc_accepted s ++ [c]) (sc_flushed s) i (YWriter (c :: rest) YFlush res))
      | YFlush => if sc_tclosed s
                  then Some (y_set s None (sc_tlog s) (sc_accepted s) (sc_flushed s) i (y_ret (c :: rest) res YFail))
                  else Some (y_set s None (sc_tlog s) (sc_accepted s) (length (sc_tlog s)) i (y_ret (c :: rest) res YOk))
      end
    | _ => None
    end
  end.
Fixpoint sc_run (s : sst) (sched : list yev) : sst :=
  match sched with [] => s | e :: r => match sc_step s e with Some s' => sc_run s' r | None => sc_run s r end end.
Definition sc_init (ths : list ythread) : sst :=
  {| sc_lock := None; sc_closed := false; sc_tclosed := false; sc_tlog := []; sc_accepted := []; sc_flushed := 0; sc_threads := ths |}.

Definition y_pending (t : ythread) : list nat :=
  match t with
  | YWriter calls (YCheck | YLock | YWrite) _ => calls
  | YWriter calls YFlush _ => tl calls
  | YDone => []
  end.
Fixpoint nodup_nat (l : list nat) : bool :=
  match l with [] => true | x :: r => andb (negb (existsb (Nat.eqb x) r)) (nodup_nat r) end.
Definition sc_wf (ths : list ythread) : bool :=
  andb (forallb (fun t => match t with YWriter _ YCheck [] => true | YDone => true | _ => false end) ths)
       (nodup_nat (flat_map y_pending ths)).

(* JSON codec (codec/format/json.go): go-netty's glue around encoding/json.
   The library is not re-implemented: marshal / decode_first are parameters of
   the definitions (Section variables in the proofs).  Numbers are literals. *)
From Coq Require Import List Bool.
From GN Require Import Base.Reader.
Import ListNotations.

Inductive jvalue :=
| JNull | JBool (b : bool) | JNum (lit : bytes) | JStr (s : bytes)
| JArr (l : list jvalue) | JObj (kvs : list (bytes * jvalue)).
Definition is_object (v : jvalue) : bool := match v with JObj _ => true | _ => false end.

(* Decoder.Decode(&object) with object a map[string]interface{}: JOk JNull is
   the nil map the library produces for the frame `null` *)
Inductive jres := JOk (v : jvalue) | JErr.
Inductive jout := JDeliver (v : jvalue) | JRaise.

Definition json_write (marshal : jvalue -> option bytes) (v : jvalue) : option bytes := marshal v.

(* HandleRead: decode the first JSON value of the frame into a map; raise on a
   decoding error and (repaired code) on a nil object *)
Definition json_read (decode_first : bool -> bool -> bytes -> jres) (use_number strict : bool) (frame : bytes) : jout :=
  match decode_first use_number strict frame with
  | JOk JNull => JRaise
  | JOk v => JDeliver v
  | JErr => JRaise
  end.

(* the two library laws the theorems are conditional on *)
Definition json_rt_law (marshal : jvalue -> option bytes) (decode_first : bool -> bool -> bytes -> jres) : Prop :=
  forall n s v w, is_object v = true -> marshal v = Some w -> decode_first n s w = JOk v.
Definition json_reject_law (begins_with_object : bytes -> bool) (decode_first : bool -> bool -> bytes -> jres) : Prop :=
  forall n s frame, begins_with_object frame = false ->
    decode_first n s frame = JErr \/ decode_first n s frame = JOk JNull.

(* Correspondence checker for C03 (and the dispatch part of C07): a case builds
   a pipeline by an operation sequence over handler ids, compares structure and
   query answers, then fires one entry point and compares the routing trace. *)
From Coq Require Import ZArith List Bool Arith.
From GN Require Import Model.Pipeline Model.Dispatch.
Import ListNotations.

(* handler table entry: id, capability bits (active,read,write,exception,inactive,event), behaviour per kind *)
Record hspec := { hs_id : nat; hs_caps : list bool; hs_beh : list beh }.
Definition kind_idx (k : kind) : nat :=
  match k with KActive => 0 | KRead => 1 | KWrite => 2 | KException => 3 | KInactive => 4 | KEvent => 5 end.
Definition mk_handler (s : hspec) : handler :=
  {| hid := hs_id s; caps := fun k => nth (kind_idx k) (hs_caps s) false;
     behav := fun k => nth (kind_idx k) (hs_beh s) BStop |}.
Fixpoint lookup (tbl : list hspec) (id : nat) : handler :=
  match tbl with
  | [] => {| hid := id; caps := fun _ => false; behav := fun _ => BStop |}
  | s :: r => if Nat.eqb (hs_id s) id then mk_handler s else lookup r id
  end.

(* operations that panic leave the pipeline unchanged (AddHandler validates first) *)
Fixpoint run_skip (p : pipe nat) (ops : list (op nat)) : pipe nat * list bool :=
  match ops with
  | [] => (p, [])
  | o :: r => match apply_op nat p o with
              | Some p' => let '(q, l) := run_skip p' r in (q, false :: l)
              | None => let '(q, l) := run_skip p r in (q, true :: l)
              end
  end.

Inductive entry :=
| EFire (k : kind) | EChanWrite | EChanTrigger | ECtxWrite (pos : nat) | ECtxTrigger (pos : nat) | EReadLoop.
Definition run_entry (hs : list handler) (e : entry) : list tev * res :=
  match e with
  | EFire k => fire hs k
  | EChanWrite => chan_write hs false
  | EChanTrigger => chan_trigger hs false
  | EReadLoop => read_loop_step hs false
  | ECtxWrite i => at_ctx_write hs i
  | ECtxTrigger i => at_ctx_trigger hs i
  end.

(* observed events; close values are compared by class *)
Inductive oev := OVisit (pos hid : nat) (k : kind) | OWrite | OClose (cls : nat).  (* cls: 0 unknown,1 same,2 wrapped,3 explicit *)
Definition oev_of (t : tev) : oev :=
  match t with
  | TVisit p h k => OVisit p h k
  | TChanWrite => OWrite
  | TChanClose (XSame _) => OClose 1
  | TChanClose (XWrapped _) => OClose 2
  | TChanClose (XClose _) => OClose 3
  end.
Definition oev_eqb (a b : oev) : bool :=
  match a, b with
  | OVisit p h k, OVisit p' h' k' => andb (Nat.eqb p p') (andb (Nat.eqb h h') (kind_eqb k k'))
  | OWrite, OWrite => true
  | OClose c, OClose c' => orb (Nat.eqb c 0) (orb (Nat.eqb c' 0) (Nat.eqb c c'))
  | _, _ => false
  end.
(* everything after the first channel close belongs to the close protocol (C05), not to routing *)
Fixpoint upto_close (l : list oev) : list oev :=
  match l with [] => [] | OClose c :: _ => [OClose c] | x :: r => x :: upto_close r end.
Fixpoint oevs_eqb (a b : list oev) : bool :=
  match a, b with [], [] => true | x :: a', y :: b' => andb (oev_eqb x y) (oevs_eqb a' b') | _, _ => false end.

Definition onat_eqb (a b : list (option nat)) : bool :=
  (fix go a b := match a, b with
                 | [], [] => true
                 | None :: a', None :: b' => go a' b'
                 | Some x :: a', Some y :: b' => andb (Nat.eqb x y) (go a' b')
                 | _, _ => false end) a b.

Record pcase := {
  pc_id : nat; pc_tbl : list hspec; pc_ops : list (op nat);
  pc_panics : list bool;                 (* which operations panicked *)
  pc_size : Z; pc_fwd : list (option nat); pc_bwd : list (option nat);  (* observed order from both ends *)
  pc_queries : list (nat * Z * Z);       (* handler id, IndexOf, LastIndexOf *)
  pc_entry : entry; pc_trace : list oev; pc_escaped : bool }.

Definition opt_eq_list (a : option (list (option nat))) (b : list (option nat)) : bool :=
  match a with Some l => onat_eqb l b | None => false end.

(* C07 on the observation alone: an exception is routed in pipeline order FROM THE HEAD, so the first
   exception visit of a trace is at the first handler (from the head) that handles exceptions *)
Fixpoint first_exc_pos (hs : list handler) (i : nat) : option nat :=
  match hs with [] => None | h :: r => if caps h KException then Some i else first_exc_pos r (S i) end.
Fixpoint first_exc_visit (t : list oev) : option nat :=
  match t with [] => None | OVisit p _ KException :: _ => Some p | _ :: r => first_exc_visit r end.
Definition exc_from_head (hs : list handler) (t : list oev) : bool :=
  match first_exc_visit t with
  | None => true
  | Some p => match first_exc_pos (hs ++ [tail_h]) 1 with Some q => Nat.eqb p q | None => false end
  end.

Definition check_pcase (c : pcase) : nat * option nat * option nat :=
  let '(p, panics) := run_skip (new_pipe nat) (pc_ops c) in
  let s_ok := andb (Z.eqb (Z.of_nat (size nat p)) (pc_size c))
                (andb (opt_eq_list (fwd_handlers nat p) (pc_fwd c)) (opt_eq_list (bwd_handlers nat p) (pc_bwd c))) in
  let p_ok := (fix go a b := match a, b with [], [] => true | x :: a', y :: b' => andb (Bool.eqb x y) (go a' b') | _, _ => false end) panics (pc_panics c) in
  let q_ok := forallb (fun q => let '(id, io, lio) := q in
                 let comp := fun o : option nat => match o with Some x => Nat.eqb x id | None => false end in
                 andb (match index_of nat p comp with Some z => Z.eqb z io | None => false end)
                      (match last_index_of nat p comp with Some z => Z.eqb z lio | None => false end)) (pc_queries c) in
  let hs := match fwd_handlers nat p with
            | Some l => flat_map (fun o => match o with Some id => [lookup (pc_tbl c) id] | None => [] end) l
            | None => [] end in
  let '(t, r) := run_entry hs (pc_entry c) in
  let t_ok := andb (oevs_eqb (upto_close (map oev_of t)) (upto_close (pc_trace c)))
                   (Bool.eqb (match r with Escaped _ => true | Done => false end) (pc_escaped c)) in
  (* the property on the observation alone: structure equals the list spec from both ends *)
  let spec_ok := match fold_left (fun l o => match spec_op nat l o with Some l' => l' | None => l end) (pc_ops c) [] with
                 | l => andb (onat_eqb (None :: map Some l ++ [None]) (pc_fwd c))
                             (onat_eqb (rev (None :: map Some l ++ [None])) (pc_bwd c))
                 end in
  (pc_id c,
   if andb s_ok (andb p_ok q_ok) then (if t_ok then None else Some 1) else Some 0,
   if spec_ok then (if exc_from_head hs (pc_trace c) then None else Some 7) else Some 0).

Definition pbad (r : nat * option nat * option nat) : bool :=
  match r with (_, None, None) => false | _ => true end.
Definition check_pcases (l : list pcase) := filter pbad (map check_pcase l).

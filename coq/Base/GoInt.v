(* Go's 64-bit signed `int` arithmetic as total functions over Z.
   A Go int is a Z in [-2^63, 2^63); every operator is the mathematical
   operator followed by two's-complement wrap-around.  The translator
   (/verif/gen) emits only these operators. *)
From Coq Require Import ZArith Lia Bool.
Open Scope Z_scope.

Definition two63 : Z := 9223372036854775808.
Definition two64 : Z := 18446744073709551616.
Definition wrap64 (z : Z) : Z := (z + two63) mod two64 - two63.
Definition in64 (z : Z) : Prop := - two63 <= z < two63.

Definition g_add (a b : Z) := wrap64 (a + b).
Definition g_sub (a b : Z) := wrap64 (a - b).
Definition g_mul (a b : Z) := wrap64 (a * b).
Definition g_quot (a b : Z) := wrap64 (Z.quot a b).   (* Go `/` truncates toward zero *)
Definition g_rem (a b : Z) := wrap64 (Z.rem a b).     (* Go `%`: sign of the dividend *)
Definition g_and (a b : Z) := Z.land a b.
Definition g_or  (a b : Z) := Z.lor a b.
Definition g_shr (a k : Z) := Z.shiftr a k.           (* arithmetic shift *)
Definition g_shl (a k : Z) := wrap64 (Z.shiftl a k).

Lemma wrap64_id z : in64 z -> wrap64 z = z.
Proof.
  unfold in64, wrap64, two63, two64. intros H.
  rewrite Z.mod_small; lia.
Qed.

Lemma wrap64_in z : in64 (wrap64 z).
Proof.
  unfold in64, wrap64, two63, two64.
  pose proof (Z.mod_pos_bound (z + 9223372036854775808) 18446744073709551616 ltac:(lia)). lia.
Qed.

Lemma two63_eq : two63 = 2 ^ 63. Proof. reflexivity. Qed.
Lemma two64_eq : two64 = 2 ^ 64. Proof. reflexivity. Qed.

(* Bytes, wire streams and io.Reader behaviour.
   A stream seen through io.Reader is a SCRIPT: `chunks` = what each successive
   Read may return at most (a short read if the caller's buffer is smaller - the
   rest stays for the next call; an empty chunk is a (0,nil) read); when the
   chunks are used up the reader behaves as `final` says.  One type expresses
   every fragmentation of a wire stream, short reads, data returned together
   with EOF, premature end and failure.  Executable definitions only; sizes are
   Z so that adversarial 2^63-scale lengths cost nothing. *)
From Coq Require Import ZArith List Bool.
Import ListNotations.
Open Scope Z_scope.

Definition byte := N.
Definition bytes := list N.
Definition blen (l : bytes) : Z := Z.of_nat (length l).
Definition btake (n : Z) (l : bytes) : bytes := firstn (Z.to_nat n) l.
Definition bdrop (n : Z) (l : bytes) : bytes := skipn (Z.to_nat n) l.
Definition wf_bytes (l : bytes) : bool := forallb (fun b => N.ltb b 256) l.

Inductive fin := FEOF | FDataEOF (bs : bytes) | FErr.
Record script := mkScript { chunks : list bytes; final : fin }.
(* status of a read: ok / io.EOF / io.ErrUnexpectedEOF / any other error *)
Inductive rstat := ROk | REOF | RUEOF | RErr.

Definition fin_data (f : fin) : bytes := match f with FDataEOF bs => bs | _ => [] end.
Definition contents (r : script) : bytes := concat (chunks r) ++ fin_data (final r).

(* blen c <=? n without walking the whole chunk (see Reader_proofs.fits_spec) *)
Definition fits (n : Z) (c : bytes) : bool := match bdrop n c with [] => true | _ => false end.

(* one Read into a buffer of n >= 1 bytes *)
Definition read (n : Z) (r : script) : bytes * rstat * script :=
  match chunks r with
  | c :: cs =>
      if fits n c then (c, ROk, mkScript cs (final r))
      else (btake n c, ROk, mkScript (bdrop n c :: cs) (final r))
  | [] =>
      match final r with
      | FEOF => ([], REOF, r)
      | FErr => ([], RErr, r)
      | FDataEOF bs =>
          if fits n bs then (bs, REOF, mkScript [] FEOF)
          else (btake n bs, ROk, mkScript [] (FDataEOF (bdrop n bs)))
      end
  end.

(* every successful read shrinks this; used as fuel *)
Definition mu (r : script) : nat := length (chunks r) + length (contents r).

(* io.ReadFull(r, buf[0:n]) = io.ReadAtLeast: loop while got < n and no error;
   n <= 0 reads nothing. *)
Fixpoint read_full_aux (fuel : nat) (n : Z) (acc : bytes) (r : script) : bytes * rstat * script :=
  if n <=? blen acc then (acc, ROk, r) else
  match fuel with
  | O => (acc, RErr, r)                       (* unreachable: see read_full *)
  | S fuel =>
      let '(bs, st, r') := read (n - blen acc) r in
      match st with
      | ROk => read_full_aux fuel n (acc ++ bs) r'
      | REOF | RUEOF =>
          if n <=? blen (acc ++ bs) then (acc ++ bs, ROk, r')
          else if blen (acc ++ bs) =? 0 then ([], REOF, r') else (acc ++ bs, RUEOF, r')
      | RErr => if n <=? blen (acc ++ bs) then (acc ++ bs, ROk, r') else (acc ++ bs, RErr, r')
      end
  end.
Definition read_full (n : Z) (r : script) := read_full_aux (S (mu r)) n [] r.

(* utils.byteReader.ReadByte: Read into a 1-byte buffer until a byte arrives
   or the reader fails; a byte is never returned together with an error. *)
Fixpoint read_byte_aux (fuel : nat) (r : script) : option N * rstat * script :=
  match fuel with
  | O => (None, RErr, r)
  | S fuel =>
      let '(bs, st, r') := read 1 r in
      match bs with
      | b :: _ => (Some b, ROk, r')
      | [] => match st with ROk => read_byte_aux fuel r' | _ => (None, st, r') end
      end
  end.
(* an empty successful read always consumes an (empty) chunk: that many retries suffice *)
Definition read_byte (r : script) := read_byte_aux (S (length (chunks r))) r.

(* ioutil.ReadAll / fully reading consumer: everything up to EOF (nil error) or
   an error.  Buffer sizes do not influence the content. *)
Fixpoint read_all_aux (fuel : nat) (acc : bytes) (r : script) : bytes * rstat * script :=
  match fuel with
  | O => (acc, RErr, r)
  | S fuel =>
      let '(bs, st, r') := read 4096 r in
      match st with
      | ROk => read_all_aux fuel (acc ++ bs) r'
      | REOF => (acc ++ bs, ROk, r')
      | _ => (acc ++ bs, st, r')
      end
  end.
Definition read_all (r : script) := read_all_aux (S (mu r)) [] r.

(* a script that delivers `frags` one Read at a time and then ends cleanly *)
Definition of_frags (frags : list bytes) : script := mkScript frags FEOF.
(* data never arrives together with EOF (what net.Conn guarantees) *)
Definition plain (r : script) : bool := match final r with FDataEOF _ => false | _ => true end.

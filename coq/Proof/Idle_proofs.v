From Coq Require Import List NArith Bool Lia Arith.
From GN Require Import Model.Idle.
Import ListNotations.
Open Scope N_scope.

Lemma nth_upd_same {A} (l : list A) i x t : nth_error l i = Some t -> nth_error (upd l i x) i = Some x.
Proof. revert i; induction l as [|h r IH]; intros [|i] H; cbn in *; try discriminate; auto. Qed.
Lemma nth_upd_other {A} (l : list A) i j x : i <> j -> nth_error (upd l i x) j = nth_error l j.
Proof. revert i j; induction l as [|h r IH]; intros [|i] [|j] H; cbn; auto; try congruence. Qed.
Lemma upd_length {A} (l : list A) i x : length (upd l i x) = length l.
Proof. revert i; induction l as [|h r IH]; intros [|i]; cbn; auto. Qed.
Lemma in_upd {A} (l : list A) i x y : In y (upd l i x) -> y = x \/ In y l.
Proof.
  revert i; induction l as [|h r IH]; intros [|i] H; cbn in *; auto.
  - destruct H; auto.
  - destruct H as [->|H]; auto. destruct (IH _ H); auto.
Qed.

(* filter-count under a point update *)
Lemma count_upd (f : cbpc -> bool) l : forall i t x, nth_error l i = Some t ->
  (length (filter f (upd l i x)) + (if f t then 1 else 0) = length (filter f l) + (if f x then 1 else 0))%nat.
Proof.
  induction l as [|h r IH]; intros [|i] t x H; cbn in H; try discriminate.
  - inversion H; subst. cbn [upd filter]. destruct (f t), (f x); cbn [length]; lia.
  - cbn [upd filter]. specialize (IH i t x H). destruct (f h); cbn [length]; lia.
Qed.

Record IInv (s : ist) : Prop := {
  I_msgs : forall m, In m (msgs s) -> m <= last s;
  I_last : last s <= now s;
  I_eq : hctx s = tfield s;
  I_trig : forall d, In (CbTrigger d) (cbs s) -> d <= now s /\ forall m, In m (msgs s) -> d <= m \/ m + idle s <= d;
  I_out : forall d e, In (d, e) (out s) -> d <= now s /\ forall m, In m (msgs s) -> d <= m \/ m + idle s <= d;
  I_alive : tfield s = true -> armed s <> None \/ (in_flight s > 0)%nat;
  I_armed : armed s <> None -> tfield s = true;
  I_act : tfield s = true -> activated s = true;
  I_inact : forall n k, inactive_at s = Some (n, k) ->
              (length (out s) + past_decision s <= n + k)%nat /\ tfield s = false /\ activated s = true;
  I_crash : crashed s = false }.

Lemma iinv_init i0 : IInv (iinit i0).
Proof. constructor; cbn; try (intros; contradiction); try discriminate; auto; try lia; congruence. Qed.

Definition ev_time (e : iev) : N :=
  match e with EActive t | EMsg t | EInactive t | EFire t | EDecide _ t | ETrigger _ t _ | ERearm _ t => t end.
Lemma istep_time s e s' : istep s e = Some s' -> now s <= ev_time e /\ now s' = ev_time e /\ idle s' = idle s.
Proof.
  unfold istep. fold (ev_time e). destruct (N.ltb_spec (ev_time e) (now s)) as [|Hle]; [discriminate|].
  destruct e as [t|t|t|t|i t|i t p|i t]; cbn [ev_time] in *; intros H.
  - destruct (activated s); inversion H; subst; auto.
  - inversion H; subst; auto.
  - destruct (negb (activated s)); inversion H; subst; auto.
  - destruct (armed s); [destruct (N.ltb t n)|]; inversion H; subst; auto.
  - destruct (nth_error (cbs s) i) as [[]|]; inversion H; subst; auto.
  - destruct (nth_error (cbs s) i) as [[]|]; inversion H; subst; auto.
  - destruct (nth_error (cbs s) i) as [[]|]; inversion H; subst; auto.
Qed.

Definition is_inflight (p : cbpc) : bool := match p with CbDone => false | _ => true end.
Definition is_trig (p : cbpc) : bool := match p with CbTrigger _ => true | _ => false end.
Lemma in_flight_eq s : in_flight s = length (filter is_inflight (cbs s)). Proof. reflexivity. Qed.
Lemma past_decision_eq s : past_decision s = length (filter is_trig (cbs s)). Proof. reflexivity. Qed.

Ltac fields := cbn [msgs last now hctx tfield cbs out armed inactive_at crashed idle activated excs].

Theorem iinv_step s e s' : IInv s -> istep s e = Some s' -> IInv s'.
Proof.
  intros Hi H. destruct (istep_time s e s' H) as [Hle _]. destruct Hi as [Hm Hl He Ht Ho Ha Har Hac Hin Hc].
  unfold istep in H. fold (ev_time e) in H.
  destruct (N.ltb_spec (ev_time e) (now s)) as [Hlt|_]; [discriminate|].
  destruct e as [t|t|t|t|i t|i t p|i t]; cbn [ev_time] in *.
  - (* Active *)
    destruct (activated s) eqn:Eact; [discriminate|]. inversion H; subst; clear H.
    constructor; rewrite ?in_flight_eq, ?past_decision_eq; fields; auto.
    + intros m [<-|Hin']; [lia|]. specialize (Hm m Hin'). lia.
    + lia.
    + intros d Hd. destruct (Ht d Hd) as [A B]. split; [lia|]. intros m [<-|Hin']; [left; lia|auto].
    + intros d e Hd. destruct (Ho d e Hd) as [A B]. split; [lia|]. intros m [<-|Hin']; [left; lia|auto].
    + intros _. left. discriminate.
    + intros n k E. destruct (Hin n k E) as [_ [_ A]]. congruence.
  - (* Msg *)
    inversion H; subst; clear H.
    constructor; rewrite ?in_flight_eq, ?past_decision_eq; fields; auto.
    + intros m [<-|Hin']; [lia|]. specialize (Hm m Hin'). lia.
    + lia.
    + intros d Hd. destruct (Ht d Hd) as [A B]. split; [lia|]. intros m [<-|Hin']; [left; lia|auto].
    + intros d e Hd. destruct (Ho d e Hd) as [A B]. split; [lia|]. intros m [<-|Hin']; [left; lia|auto].
    + intros E. rewrite E. left. discriminate.
    + destruct (tfield s) eqn:Etf; auto.
  - (* Inactive *)
    destruct (activated s) eqn:Eact; [|discriminate]. cbn [negb] in H. inversion H; subst; clear H.
    constructor; rewrite ?in_flight_eq, ?past_decision_eq; fields; auto.
    + lia.
    + intros d Hd. destruct (Ht d Hd) as [A B]. split; [lia|auto].
    + intros d e Hd. destruct (Ho d e Hd) as [A B]. split; [lia|auto].
    + discriminate.
    + destruct (tfield s) eqn:Etf; [congruence|exact Har].
    + intros n k E. destruct (inactive_at s) as [[n0 k0]|] eqn:Ei.
      * inversion E; subst. destruct (Hin n k eq_refl) as [A [B C]]. auto.
      * inversion E; subst. split; [apply Nat.le_refl|auto].
  - (* Fire *)
    destruct (armed s) as [dl|] eqn:Earm; [|discriminate]. destruct (N.ltb_spec t dl); [discriminate|]. inversion H; subst; clear H.
    assert (Htf : tfield s = true) by (apply Har; congruence).
    constructor; rewrite ?in_flight_eq, ?past_decision_eq; fields; auto.
    + lia.
    + intros d Hd. apply in_app_or in Hd. destruct Hd as [Hd|[Hd|[]]]; [|discriminate]. destruct (Ht d Hd) as [A B]. split; [lia|auto].
    + intros d e Hd. destruct (Ho d e Hd) as [A B]. split; [lia|auto].
    + intros _. right. rewrite filter_app, app_length. cbn. lia.
    + intros n k E. destruct (Hin n k E) as [_ [B _]]. congruence.
  - (* Decide *)
    destruct (nth_error (cbs s) i) as [[]|] eqn:Hn; try discriminate. inversion H; subst; clear H.
    set (x := if (idle s <=? t - last s) && hctx s then CbTrigger t else CbRearm).
    pose proof (count_upd is_inflight (cbs s) i CbDecide x Hn) as Cf.
    pose proof (count_upd is_trig (cbs s) i CbDecide x Hn) as Ct.
    constructor; rewrite ?in_flight_eq, ?past_decision_eq; fields; auto.
    + lia.
    + intros d Hd. apply in_upd in Hd. destruct Hd as [Hd|Hd].
      * subst x. destruct ((idle s <=? t - last s) && hctx s) eqn:Ex; [|discriminate]. inversion Hd; subst d.
        apply andb_true_iff in Ex. destruct Ex as [Ex _]. apply N.leb_le in Ex.
        split; [lia|]. intros m Hin'. right. specialize (Hm m Hin'). lia.
      * destruct (Ht d Hd) as [A B]. split; [lia|auto].
    + intros d e Hd. destruct (Ho d e Hd) as [A B]. split; [lia|auto].
    + intros E. destruct (Ha E) as [A|A]; [left; exact A|right]. rewrite in_flight_eq in A.
      assert (is_inflight x = true) by (subst x; destruct (_ && _); reflexivity). rewrite H in Cf. cbn [is_inflight] in Cf. lia.
    + intros n k E. destruct (Hin n k E) as [A [B C]]. split; [|auto]. rewrite past_decision_eq in A.
      assert (is_trig x = false).
      { subst x. rewrite He, B, andb_false_r. reflexivity. }
      rewrite H in Ct. cbn [is_trig] in Ct. lia.
  - (* Trigger *)
    destruct (nth_error (cbs s) i) as [[| d | |]|] eqn:Hn; try discriminate. inversion H; subst; clear H.
    pose proof (count_upd is_inflight (cbs s) i (CbTrigger d) CbRearm Hn) as Cf.
    pose proof (count_upd is_trig (cbs s) i (CbTrigger d) CbRearm Hn) as Ct.
    cbn [is_inflight is_trig] in Cf, Ct.
    constructor; rewrite ?in_flight_eq, ?past_decision_eq; fields; auto.
    + lia.
    + intros d0 Hd. apply in_upd in Hd. destruct Hd as [Hd|Hd]; [discriminate|]. destruct (Ht d0 Hd) as [A B]. split; [lia|auto].
    + intros d0 e Hd. apply in_app_or in Hd. destruct Hd as [Hd|[Hd|[]]].
      * destruct (Ho d0 e Hd) as [A B]. split; [lia|auto].
      * inversion Hd; subst. destruct (Ht d0 (nth_error_In _ _ Hn)) as [A B]. split; [lia|auto].
    + intros E. destruct (Ha E) as [A|A]; [left; exact A|right]. rewrite in_flight_eq in A. lia.
    + intros n k E. destruct (Hin n k E) as [A [B C]]. split; [|auto]. rewrite past_decision_eq in A. rewrite app_length. cbn [length]. lia.
  - (* Rearm *)
    destruct (nth_error (cbs s) i) as [[]|] eqn:Hn; try discriminate. inversion H; subst; clear H.
    pose proof (count_upd is_inflight (cbs s) i CbRearm CbDone Hn) as Cf.
    pose proof (count_upd is_trig (cbs s) i CbRearm CbDone Hn) as Ct.
    cbn [is_inflight is_trig] in Cf, Ct.
    constructor; rewrite ?in_flight_eq, ?past_decision_eq; fields; auto.
    + lia.
    + intros d Hd. apply in_upd in Hd. destruct Hd as [Hd|Hd]; [discriminate|]. destruct (Ht d Hd) as [A B]. split; [lia|auto].
    + intros d e Hd. destruct (Ho d e Hd) as [A B]. split; [lia|auto].
    + intros E. rewrite E. left. discriminate.
    + destruct (tfield s) eqn:Etf; auto.
    + intros n k E. destruct (Hin n k E) as [A [B C]]. split; [|auto]. rewrite past_decision_eq in A. lia.
Qed.

Theorem iinv_run h : forall s, IInv s -> IInv (irun s h).
Proof.
  induction h as [|e r IH]; intros s Hi; cbn [irun]; [exact Hi|].
  destruct (istep s e) as [s'|] eqn:E; [apply IH; eapply iinv_step; eauto|apply IH; exact Hi].
Qed.

(* ---------------- C20 statements ---------------- *)
(* (1) a callback decides to deliver only a full idle period after every earlier update and activation *)
Theorem decide_full_period s i t s' : IInv s -> istep s (EDecide i t) = Some s' ->
  nth_error (cbs s') i = Some (CbTrigger t) -> hctx s = true /\ forall m, In m (msgs s) -> m + idle s <= t.
Proof.
  intros Hi H Hn. unfold istep in H. cbn [ev_time] in H.
  destruct (N.ltb_spec t (now s)) as [|Hle]; [discriminate|].
  destruct (nth_error (cbs s) i) as [[]|] eqn:Hc; try discriminate. inversion H; subst; clear H.
  cbn [cbs] in Hn. erewrite nth_upd_same in Hn by eauto.
  destruct ((idle s <=? t - last s) && hctx s) eqn:Ex; [|discriminate].
  apply andb_true_iff in Ex. destruct Ex as [Ex Ec]. apply N.leb_le in Ex. split; [exact Ec|].
  intros m Hm. pose proof (I_msgs s Hi m Hm). pose proof (I_last s Hi). lia.
Qed.

Theorem full_period_holds s : IInv s -> full_period_ok s = true.
Proof.
  intros Hi. unfold full_period_ok. apply forallb_forall. intros [d e] Hin. apply forallb_forall. intros m Hm.
  destruct (I_out s Hi d e Hin) as [_ H]. cbn [fst]. destruct (H m Hm) as [A|A].
  - apply orb_true_iff. left. apply N.leb_le. exact A.
  - apply orb_true_iff. right. apply N.leb_le. exact A.
Qed.

(* (2) it keeps being delivered while idleness persists: an active handler always has a pending timer or a
   callback in flight; a pending timer can fire once its deadline has passed; a callback deciding a full
   period after the last update delivers; every callback step is enabled at any later time *)
Theorem timer_never_lost s : IInv s -> hctx s = true -> armed s <> None \/ (in_flight s > 0)%nat.
Proof. intros Hi Hc. apply (I_alive s Hi). rewrite <- (I_eq s Hi). exact Hc. Qed.

Theorem fire_enabled s dl t : armed s = Some dl -> now s <= t -> dl <= t -> istep s (EFire t) <> None.
Proof.
  intros Ha Hn Hd. unfold istep. cbn [ev_time]. destruct (N.ltb_spec t (now s)); [lia|]. rewrite Ha.
  destruct (N.ltb_spec t dl); [lia|discriminate].
Qed.

Theorem decide_delivers s i t : nth_error (cbs s) i = Some CbDecide -> hctx s = true -> now s <= t -> last s + idle s <= t ->
  exists s', istep s (EDecide i t) = Some s' /\ nth_error (cbs s') i = Some (CbTrigger t).
Proof.
  intros Hn Hc Ht Hl. unfold istep. cbn [ev_time]. destruct (N.ltb_spec t (now s)); [lia|]. rewrite Hn.
  eexists. split; [reflexivity|]. cbn [cbs]. erewrite nth_upd_same by eauto.
  assert (E : (idle s <=? t - last s) = true) by (apply N.leb_le; lia). rewrite E, Hc. reflexivity.
Qed.

Theorem callback_steps_enabled s i t : now s <= t ->
  (nth_error (cbs s) i = Some CbDecide -> istep s (EDecide i t) <> None) /\
  (forall d p, nth_error (cbs s) i = Some (CbTrigger d) -> istep s (ETrigger i t p) <> None) /\
  (nth_error (cbs s) i = Some CbRearm -> istep s (ERearm i t) <> None).
Proof.
  intros Ht. repeat split.
  - intros Hn. unfold istep. cbn [ev_time]. destruct (N.ltb_spec t (now s)); [lia|]. rewrite Hn. discriminate.
  - intros d p Hn. unfold istep. cbn [ev_time]. destruct (N.ltb_spec t (now s)); [lia|]. rewrite Hn. discriminate.
  - intros Hn. unfold istep. cbn [ev_time]. destruct (N.ltb_spec t (now s)); [lia|]. rewrite Hn. discriminate.
Qed.

Theorem rearm_arms s i t s' : istep s (ERearm i t) = Some s' -> tfield s = true -> armed s' = Some (t + idle s).
Proof.
  unfold istep. cbn [ev_time]. destruct (N.ltb t (now s)); [discriminate|].
  destruct (nth_error (cbs s) i) as [[]|]; try discriminate. intros H Htf. inversion H; subst. cbn [armed]. rewrite Htf. reflexivity.
Qed.

(* (3) after inactive: no timer, no timer field, no firing; at most the callbacks already past their decision deliver *)
Theorem after_inactive s n k : IInv s -> inactive_at s = Some (n, k) ->
  tfield s = false /\ armed s = None /\ (forall t, istep s (EFire t) = None) /\ (length (out s) <= n + k)%nat.
Proof.
  intros Hi E. destruct (I_inact s Hi n k E) as [A [B C]].
  assert (Ha : armed s = None).
  { destruct (armed s) eqn:Ea; [|reflexivity]. assert (tfield s = true) by (apply (I_armed s Hi); congruence). congruence. }
  repeat split; auto.
  - intros t. unfold istep. cbn [ev_time]. destruct (N.ltb t (now s)); [reflexivity|]. rewrite Ha. reflexivity.
  - lia.
Qed.
Theorem after_inactive_holds s : IInv s -> after_inactive_ok s = true.
Proof.
  intros Hi. unfold after_inactive_ok. destruct (inactive_at s) as [[n k]|] eqn:E; [|reflexivity].
  destruct (after_inactive s n k Hi E) as [A [B [_ D]]]. rewrite A, B. cbn. rewrite andb_true_r. apply Nat.leb_le. exact D.
Qed.

(* if callbacks do not overlap (the event's handlers finish before the timer fires again),
   at most one callback is in flight, hence at most one event after inactive *)
Fixpoint irun_serial (s : ist) (h : list iev) : bool :=
  match h with
  | [] => true
  | e :: r =>
      andb (match e with EFire _ => Nat.eqb (in_flight s) 0 | _ => true end)
           (match istep s e with Some s' => irun_serial s' r | None => irun_serial s r end)
  end.
Lemma trig_le_inflight l : (length (filter is_trig l) <= length (filter is_inflight l))%nat.
Proof. induction l as [|[] r IH]; cbn; lia. Qed.

Lemma serial_step s e s' : (in_flight s <= 1)%nat -> match e with EFire _ => in_flight s = 0%nat | _ => True end ->
  istep s e = Some s' -> (in_flight s' <= 1)%nat.
Proof.
  intros Hle Hs H. unfold istep in H. fold (ev_time e) in H. destruct (N.ltb (ev_time e) (now s)); [discriminate|]. rewrite !in_flight_eq in *.
  destruct e as [t|t|t|t|i t|i t p|i t]; cbn [ev_time] in *.
  - destruct (activated s); inversion H; subst; exact Hle.
  - inversion H; subst; exact Hle.
  - destruct (negb (activated s)); inversion H; subst; exact Hle.
  - destruct (armed s); [destruct (N.ltb t n)|]; inversion H; subst. cbn [cbs]. rewrite filter_app, app_length. cbn. lia.
  - destruct (nth_error (cbs s) i) as [[]|] eqn:Hn; inversion H; subst. cbn [cbs].
    set (x := if (idle s <=? t - last s) && hctx s then CbTrigger t else CbRearm).
    pose proof (count_upd is_inflight (cbs s) i CbDecide x Hn) as C.
    assert (is_inflight x = true) by (subst x; destruct (_ && _); reflexivity). rewrite H0 in C. cbn in C. lia.
  - destruct (nth_error (cbs s) i) as [[|d| |]|] eqn:Hn; inversion H; subst. cbn [cbs].
    pose proof (count_upd is_inflight (cbs s) i (CbTrigger d) CbRearm Hn) as C. cbn in C. lia.
  - destruct (nth_error (cbs s) i) as [[]|] eqn:Hn; inversion H; subst. cbn [cbs].
    pose proof (count_upd is_inflight (cbs s) i CbRearm CbDone Hn) as C. cbn in C. lia.
Qed.

Theorem serial_one_in_flight h : forall s, (in_flight s <= 1)%nat -> irun_serial s h = true -> (in_flight (irun s h) <= 1)%nat.
Proof.
  induction h as [|e r IH]; intros s Hle Hs; cbn [irun]; [exact Hle|].
  cbn [irun_serial] in Hs. apply andb_true_iff in Hs. destruct Hs as [Hg Hs].
  destruct (istep s e) as [s'|] eqn:E; [|apply IH; auto].
  apply IH; [|exact Hs]. eapply serial_step; eauto. destruct e; auto. apply Nat.eqb_eq. exact Hg.
Qed.

(* at most ONE event after inactive when callbacks do not overlap: k (callbacks past decision when inactive passed) <= 1 *)
Theorem one_event_after_inactive h1 t h2 idle0 : 
  let s1 := irun (iinit idle0) h1 in
  irun_serial (iinit idle0) h1 = true -> inactive_at s1 = None ->
  forall s2, istep s1 (EInactive t) = Some s2 ->
  let s := irun s2 h2 in (length (out s) <= length (out s1) + 1)%nat.
Proof.
  intros s1 Hser Hno s2 Hst s.
  assert (Hi1 : IInv s1) by (apply iinv_run, iinv_init).
  assert (Hf : (in_flight s1 <= 1)%nat) by (apply serial_one_in_flight; [cbn; lia|exact Hser]).
  assert (Hi2 : IInv s2) by (eapply iinv_step; eauto).
  assert (Hi : IInv s) by (apply iinv_run; exact Hi2).
  assert (E2 : inactive_at s2 = Some (length (out s1), past_decision s1)).
  { unfold istep in Hst. cbn [ev_time] in Hst. destruct (N.ltb t (now s1)); [discriminate|].
    destruct (negb (activated s1)); [discriminate|]. inversion Hst; subst. cbn [inactive_at]. rewrite Hno. reflexivity. }
  assert (E : inactive_at s = Some (length (out s1), past_decision s1)).
  { subst s. clear -E2. revert s2 E2. induction h2 as [|e r IH]; intros s2 E2; cbn [irun]; [exact E2|].
    destruct (istep s2 e) as [s3|] eqn:E3; [|apply IH; exact E2]. apply IH.
    unfold istep in E3. fold (ev_time e) in E3. destruct (N.ltb (ev_time e) (now s2)); [discriminate|].
    destruct e as [t|t|t|t|i t|i t p|i t]; cbn [ev_time] in *.
    - destruct (activated s2); inversion E3; subst; exact E2.
    - inversion E3; subst; exact E2.
    - destruct (negb (activated s2)); inversion E3; subst. cbn [inactive_at]. rewrite E2. reflexivity.
    - destruct (armed s2); [destruct (N.ltb t n)|]; inversion E3; subst; exact E2.
    - destruct (nth_error (cbs s2) i) as [[]|]; inversion E3; subst; exact E2.
    - destruct (nth_error (cbs s2) i) as [[]|]; inversion E3; subst; exact E2.
    - destruct (nth_error (cbs s2) i) as [[]|]; inversion E3; subst; exact E2. }
  destruct (after_inactive s _ _ Hi E) as [_ [_ [_ D]]].
  pose proof (trig_le_inflight (cbs s1)) as T. rewrite past_decision_eq in D. rewrite in_flight_eq in Hf. lia.
Qed.

(* (4) a panic of the event's handlers never escapes the timer goroutine *)
Theorem never_crashes h idle0 : crashed (irun (iinit idle0) h) = false.
Proof. apply (I_crash _ (iinv_run h _ (iinv_init idle0))). Qed.

Theorem reachable_inv : forall idle0 h, IInv (irun (iinit idle0) h).
Proof. intros idle0 h. apply iinv_run, iinv_init. Qed.

Definition c20_hist : list iev :=
  [EActive 0; EMsg 4; EFire 14; EMsg 15; EDecide 0 15; ERearm 0 16; EFire 26; EDecide 1 26; ETrigger 1 27 true; ERearm 1 27;
   EFire 37; EDecide 2 38; EInactive 39; ETrigger 2 40 false; ERearm 2 41].
Lemma c20_example_holds :
  let s := irun (iinit 10) c20_hist in
  out s = [(26, 27); (38, 40)] /\ excs s = 1%nat /\ inactive_at s = Some (1%nat, 1%nat) /\ armed s = None /\
  irun_serial (iinit 10) c20_hist = true.
Proof. vm_compute. repeat split; reflexivity. Qed.

(* C17 under connection faults: call order is preserved, a Flush that reports success means the peer
   has every accepted byte, the bufio error is sticky, and without faults the model is Model/Bufio.v. *)
From Coq Require Import ZArith List Bool Lia.
From GN Require Import Base.Reader Model.Bufio Model.BufioFault Proof.Reader_proofs.
Import ListNotations.
Open Scope Z_scope.

Definition FI (wsize : Z) (s : fstate) (acc : bytes) : Prop :=
  f_log s ++ f_buf s = acc /\ (0 < wsize -> blen (f_buf s) <= wsize) /\ (wsize <= 0 -> f_buf s = [] /\ f_err s = false).

Lemma btake_nonpos n (l : bytes) : n <= 0 -> btake n l = [].
Proof. intros H. unfold btake. replace (Z.to_nat n) with 0%nat by lia. reflexivity. Qed.
Lemma btake_all n (l : bytes) : blen l <= n -> btake n l = l.
Proof. intros H. unfold btake, blen in *. apply firstn_all2. lia. Qed.
Lemma bdrop_all n (l : bytes) : blen l <= n -> bdrop n l = [].
Proof. intros H. unfold bdrop, blen in *. apply skipn_all2. lia. Qed.
Lemma blen_bdrop n (l : bytes) : 0 <= n <= blen l -> blen (bdrop n l) = blen l - n.
Proof. intros H. unfold bdrop, blen in *. rewrite skipn_length. lia. Qed.
Lemma btake_app_ge a b n : 0 <= n -> btake (blen a + n) (a ++ b) = a ++ btake n b.
Proof.
  intros H. unfold btake, blen. replace (Z.to_nat (Z.of_nat (length a) + n)) with (length a + Z.to_nat n)%nat by lia.
  rewrite firstn_app_2. reflexivity.
Qed.
Lemma btake_app_le a b n : n <= blen a -> btake n (a ++ b) = btake n a.
Proof.
  intros H. unfold btake, blen in *. rewrite firstn_app. replace (Z.to_nat n - length a)%nat with 0%nat by lia.
  cbn. apply app_nil_r.
Qed.

Lemma conn_write_spec s p n failed s1 : conn_write s p = (n, failed, s1) ->
  0 <= n <= blen p /\ f_log s1 = f_log s ++ btake n p /\ f_buf s1 = f_buf s /\ f_err s1 = f_err s /\
  (failed = false -> n = blen p).
Proof.
  unfold conn_write. pose proof (blen_nonneg p) as Hp. destruct (f_plan s) as [[[|k] a]|]; intros H; inversion H; subst; clear H; cbn [f_log f_buf f_err f_plan].
  - repeat split; try lia.
  - rewrite btake_all by lia. repeat split; try lia; auto.
  - rewrite btake_all by lia. repeat split; try lia; auto.
Qed.

(* bufio.Writer.Flush *)
Lemma fb_flush_raw size s ok s1 : 0 < size -> blen (f_buf s) <= size -> fb_flush s = (ok, s1) ->
  f_log s1 ++ f_buf s1 = f_log s ++ f_buf s /\ blen (f_buf s1) <= size /\
  (ok = true -> f_buf s1 = [] /\ f_err s = false) /\ (f_err s = true -> ok = false /\ s1 = s).
Proof.
  intros Hs Hb. unfold fb_flush. destruct (f_err s) eqn:Ee.
  - intros H; inversion H; subst ok s1. repeat split; auto; try (intros Hx; discriminate Hx); try discriminate; try congruence.
  - destruct (f_buf s) as [|x b] eqn:Eb.
    + intros H; inversion H; subst ok s1. rewrite Eb. repeat split; auto; try (intros Hx; discriminate Hx); try discriminate; try congruence.
    + destruct (conn_write s (x :: b)) as [[n failed] s2] eqn:Ec. destruct (conn_write_spec _ _ _ _ _ Ec) as (Hn0 & Hl & Hbf & He & Hfull).
      destruct failed; intros H; inversion H; subst ok s1; clear H; cbn [set_buf f_log f_buf f_err].
      * split; [rewrite Hl, <- app_assoc, btake_bdrop; reflexivity|]. split; [rewrite blen_bdrop by lia; lia|].
        split; intros Hx; discriminate Hx.
      * specialize (Hfull eq_refl). rewrite Hl, Hfull, btake_all by lia. rewrite blen_nil.
        split; [rewrite app_nil_r; reflexivity|]. split; [lia|]. split; [auto|intros Hx; discriminate Hx].
Qed.

(* bufio.Writer.Write *)
Lemma fb_write_raw size s p n ok s1 : 0 < size -> blen (f_buf s) <= size -> fb_write size s p = (n, ok, s1) ->
  0 <= n <= blen p /\ f_log s1 ++ f_buf s1 = (f_log s ++ f_buf s) ++ btake n p /\ blen (f_buf s1) <= size /\
  (ok = true -> n = blen p) /\ (f_err s = true -> n = 0 /\ ok = false /\ s1 = s).
Proof.
  intros Hs Hb. pose proof (blen_nonneg p) as Hp. pose proof (blen_nonneg (f_buf s)) as Hbn.
  unfold fb_write. destruct (f_err s) eqn:Ee.
  { intros H; inversion H; subst n ok s1. rewrite btake_nonpos, app_nil_r by lia. repeat split; auto; try lia; try (intros Hx; discriminate Hx); try discriminate; try congruence. }
  destruct (Z.leb_spec (blen p) (size - blen (f_buf s))) as [Hfit|Hbig].
  { intros H; inversion H; subst n ok s1; clear H. rewrite btake_all by lia. cbn [set_buf f_log f_buf]. rewrite blen_app.
    repeat split; auto; try lia; try (intros Hx; discriminate Hx); try discriminate; try congruence. rewrite app_assoc; reflexivity. }
  destruct (f_buf s) as [|x b] eqn:Eb.
  - (* direct write *)
    destruct (conn_write s p) as [[n1 failed] s2] eqn:Ec. destruct (conn_write_spec _ _ _ _ _ Ec) as (Hn0 & Hl & Hbf & He & Hfull).
    rewrite app_nil_r. destruct failed; intros H; inversion H; subst n ok s1; clear H.
    + cbn [set_buf f_log f_buf]. rewrite app_nil_r, Hl, blen_nil. repeat split; auto; try lia; try (intros Hx; discriminate Hx); try discriminate; try congruence.
    + specialize (Hfull eq_refl). subst n1. rewrite Hl, Hbf, Eb, app_nil_r, blen_nil. repeat split; auto; try lia; try (intros Hx; discriminate Hx); try discriminate; try congruence.
  - (* fill and flush, then buffer or write the rest directly *)
    set (k := size - blen (x :: b)) in *. assert (Hk : 0 <= k < blen p) by (unfold k; lia).
    set (full := (x :: b) ++ btake k p).
    assert (Hfl : blen full = size) by (unfold full; rewrite blen_app, blen_btake by lia; unfold k; lia).
    destruct (conn_write s full) as [[n1 failed] s2] eqn:Ec. destruct (conn_write_spec _ _ _ _ _ Ec) as (Hn0 & Hl & Hbf & He & Hfull).
    destruct failed.
    + intros H; inversion H; subst n ok s1; clear H. cbn [set_buf f_log f_buf].
      split; [lia|]. split; [rewrite Hl, <- app_assoc, btake_bdrop; unfold full; rewrite app_assoc; reflexivity|].
      split; [rewrite blen_bdrop by lia; lia|]. split; intros Hx; discriminate Hx.
    + specialize (Hfull eq_refl). subst n1. rewrite btake_all in Hl by lia.
      assert (Hlog : f_log s2 = (f_log s ++ x :: b) ++ btake k p) by (rewrite Hl; unfold full; rewrite app_assoc; reflexivity).
      destruct (Z.leb_spec (blen (bdrop k p)) size) as [Hle|Hgt].
      * intros H; inversion H; subst n ok s1; clear H. rewrite (btake_all (blen p)) by lia. cbn [set_buf f_log f_buf].
        split; [lia|]. split; [rewrite Hlog, <- app_assoc, btake_bdrop; reflexivity|]. split; [exact Hle|]. split; [auto|intros Hx; discriminate Hx].
      * destruct (conn_write (set_buf s2 [] false) (bdrop k p)) as [[n2 failed2] s3] eqn:Ec2.
        destruct (conn_write_spec _ _ _ _ _ Ec2) as (Hn2 & Hl2 & Hbf2 & He2 & Hfull2). cbn [set_buf f_log f_buf f_err] in *.
        assert (Hdl : blen (bdrop k p) = blen p - k) by (apply blen_bdrop; lia).
        assert (Hsplit : forall m, 0 <= m -> btake (k + m) p = btake k p ++ btake m (bdrop k p)).
        { intros m Hm. rewrite <- (btake_bdrop k p) at 1. replace k with (blen (btake k p)) at 1 by (apply blen_btake; lia).
          apply btake_app_ge. exact Hm. }
        destruct failed2; intros H; inversion H; subst n ok s1; clear H.
        -- cbn [set_buf f_log f_buf]. split; [lia|]. split; [rewrite app_nil_r, Hl2, Hlog, Hsplit, app_assoc by lia; reflexivity|].
           split; [rewrite blen_nil; lia|]. split; intros Hx; discriminate Hx.
        -- specialize (Hfull2 eq_refl). subst n2. rewrite (btake_all (blen p)) by lia. rewrite btake_all in Hl2 by lia.
           split; [lia|]. split; [rewrite Hl2, Hbf2, app_nil_r, Hlog, <- app_assoc, btake_bdrop; reflexivity|].
           rewrite Hbf2, blen_nil. split; [lia|]. split; [auto|intros Hx; discriminate Hx].
Qed.

Lemma fb_flush_spec size s acc ok s1 : 0 < size -> FI size s acc -> fb_flush s = (ok, s1) ->
  FI size s1 acc /\ (ok = true -> f_buf s1 = [] /\ f_err s = false) /\ (f_err s = true -> ok = false /\ s1 = s).
Proof.
  intros Hs [Hc [Hb Hn]] H. destruct (fb_flush_raw _ _ _ _ Hs (Hb Hs) H) as (E & L & O & S).
  split; [|auto]. split; [rewrite E; exact Hc|]. split; [auto|lia].
Qed.
Lemma fb_write_spec size s acc p n ok s1 : 0 < size -> FI size s acc -> fb_write size s p = (n, ok, s1) ->
  0 <= n <= blen p /\ FI size s1 (acc ++ btake n p) /\ (ok = true -> n = blen p) /\ (f_err s = true -> n = 0 /\ ok = false /\ s1 = s).
Proof.
  intros Hs [Hc [Hb Hn]] H. destruct (fb_write_raw _ _ _ _ _ _ Hs (Hb Hs) H) as (N & E & L & O & S).
  split; [exact N|]. split; [|auto]. split; [rewrite E, Hc; reflexivity|]. split; [auto|lia].
Qed.

Lemma ft_write_spec wsize s acc p n ok s1 : FI wsize s acc -> ft_write wsize s p = (n, ok, s1) ->
  0 <= n <= blen p /\ FI wsize s1 (acc ++ btake n p) /\ (ok = true -> n = blen p).
Proof.
  intros Hi. unfold ft_write. destruct (Z.ltb_spec 0 wsize) as [Hpos|Hnp].
  - intros H. destruct (fb_write_spec _ _ _ _ _ _ _ Hpos Hi H) as (a & b & c & _). auto.
  - destruct (conn_write s p) as [[n1 failed] s2] eqn:Ec. destruct (conn_write_spec _ _ _ _ _ Ec) as (Hn0 & Hl & Hbf & He & Hfull).
    intros H; inversion H; subst; clear H. destruct Hi as [Hc [Hb Hn]]. destruct (Hn Hnp) as [Hb0 He0].
    split; [lia|]. split; [|destruct failed; [discriminate|auto]].
    split; [rewrite Hl, Hbf, Hb0, app_nil_r; rewrite Hb0, app_nil_r in Hc; rewrite Hc; reflexivity|].
    split; [lia|]. intros _. rewrite Hbf, He. auto.
Qed.

Lemma ft_writev_spec wsize ps : forall s acc a0 n ok s1, FI wsize s acc -> 0 <= a0 -> ft_writev wsize s ps a0 = (n, ok, s1) ->
  a0 <= n <= a0 + blen (concat ps) /\ FI wsize s1 (acc ++ btake (n - a0) (concat ps)) /\ (ok = true -> n = a0 + blen (concat ps)).
Proof.
  induction ps as [|p r IH]; intros s acc a0 n ok s1 Hi Ha; cbn [ft_writev concat].
  - intros H; inversion H; subst. rewrite blen_nil, btake_nonpos, app_nil_r by lia. split; [lia|]. split; [exact Hi|lia].
  - destruct (ft_write wsize s p) as [[n1 ok1] s2] eqn:Ew. destruct (ft_write_spec _ _ _ _ _ _ _ Hi Ew) as (Hn1 & Hi2 & Hfull).
    pose proof (blen_nonneg (concat r)) as Hcr. pose proof (blen_nonneg p) as Hpp. rewrite blen_app. destruct ok1.
    + specialize (Hfull eq_refl). subst n1. rewrite btake_all in Hi2 by lia. intros H.
      assert (Ha2 : 0 <= a0 + blen p) by lia. destruct (IH _ _ _ _ _ _ Hi2 Ha2 H) as (Hn & Hi3 & Hf3). split; [lia|]. split; [|intros Ho; specialize (Hf3 Ho); lia].
      replace (n - a0) with (blen p + (n - (a0 + blen p))) by lia. rewrite btake_app_ge by lia. rewrite app_assoc. exact Hi3.
    + intros H; inversion H; subst; clear H. split; [lia|]. split; [|discriminate].
      replace (a0 + n1 - a0) with n1 by lia. rewrite btake_app_le by lia. exact Hi2.
Qed.

Lemma fstep_spec wsize s acc o n ok s1 : FI wsize s acc -> fstep wsize s o = (n, ok, s1) ->
  0 <= n <= blen (wpayload o) /\ FI wsize s1 (acc ++ btake n (wpayload o)) /\
  (match o with WFlush => ok = true -> f_buf s1 = [] | _ => True end).
Proof.
  intros Hi. destruct o as [p|ps|]; cbn [fstep wpayload].
  - intros H. destruct (ft_write_spec _ _ _ _ _ _ _ Hi H) as (a & b & _). auto.
  - intros H. assert (H0 : 0 <= 0) by lia. destruct (ft_writev_spec _ _ _ _ _ _ _ _ Hi H0 H) as (a & b & _). rewrite Z.sub_0_r in b. split; [lia|]. auto.
  - unfold ft_flush. destruct (Z.ltb_spec 0 wsize) as [Hpos|Hnp].
    + destruct (fb_flush s) as [ok1 s2] eqn:Ef. intros H; inversion H; subst; clear H.
      destruct (fb_flush_spec _ _ _ _ _ Hpos Hi Ef) as (Hi2 & Hok & _). rewrite blen_nil, btake_nonpos, app_nil_r by lia.
      split; [lia|]. split; [exact Hi2|]. intros Ho. apply Hok. exact Ho.
    + intros H; inversion H; subst; clear H. rewrite blen_nil, btake_nonpos, app_nil_r by lia. split; [lia|]. split; [rewrite ?Ee; exact Hi|].
      intros _. destruct Hi as [_ [_ Hn]]. apply Hn. exact Hnp.
Qed.

(* byte-level version of the checker's clause: at every Flush that reports success the far end holds exactly the
   accepted bytes; and at every moment the far end is a prefix of them *)
Fixpoint fholds (acc : bytes) (ops : list wop) (res : list (Z * bool * bytes)) : Prop :=
  match ops, res with
  | o :: r, (n, ok, far) :: rr =>
      let acc' := acc ++ btake n (wpayload o) in
      (exists rest, acc' = far ++ rest) /\ (match o with WFlush => ok = true -> far = acc' | _ => True end) /\ fholds acc' r rr
  | [], [] => True
  | _, _ => False
  end.

Lemma frun_holds wsize ops : forall s acc, FI wsize s acc -> fholds acc ops (fst (frun wsize s ops)).
Proof.
  induction ops as [|o r IH]; intros s acc Hi; cbn [frun fholds fst]; [exact I|].
  destruct (fstep wsize s o) as [[n ok] s1] eqn:Es. destruct (frun wsize s1 r) as [out s2] eqn:Er. cbn [fst fholds].
  destruct (fstep_spec _ _ _ _ _ _ _ Hi Es) as (Hn & Hi2 & Hfl).
  split; [exists (f_buf s1); symmetry; apply Hi2|]. split.
  - destruct o; auto. intros Ho. specialize (Hfl Ho). destruct Hi2 as [Hc _]. rewrite Hfl, app_nil_r in Hc. exact Hc.
  - specialize (IH _ _ Hi2). rewrite Er in IH. exact IH.
Qed.

Lemma finit_FI wsize plan : FI wsize (finit plan) [].
Proof. split; [reflexivity|]. split; [intros Hp; cbn [finit f_buf]; unfold blen; cbn; lia|auto]. Qed.

(* C17 under every fault plan: the far end always holds a prefix of the accepted bytes in call order, and once a Flush
   has reported success it holds all of them *)
Theorem fault_call_order wsize plan ops : fholds [] ops (fst (frun wsize (finit plan) ops)).
Proof. apply frun_holds, finit_FI. Qed.

(* the bufio error is sticky: after a failed connection write every later operation of a buffered variant accepts nothing,
   changes nothing and (unless it is a Writev of no buffers at all) reports failure *)
Theorem fault_sticky wsize s o : 0 < wsize -> f_err s = true ->
  exists ok, fstep wsize s o = (0, ok, s) /\ (o <> WWritev [] -> ok = false).
Proof.
  intros Hs He. assert (Hlt : (0 <? wsize) = true) by (apply Z.ltb_lt; exact Hs).
  destruct o as [p|ps|]; cbn [fstep].
  - exists false. unfold ft_write, fb_write. rewrite Hlt, He. auto.
  - destruct ps as [|p r]; cbn [ft_writev].
    + exists true. split; [reflexivity|]. intros H; congruence.
    + exists false. unfold ft_write, fb_write. rewrite Hlt, He. auto.
  - exists false. unfold ft_flush, fb_flush. rewrite Hlt, He. auto.
Qed.

(* without faults the model is Model/Bufio.v: every operation succeeds in full and the states coincide *)
Definition fsim (s : fstate) (w : wstate) : Prop := f_log s = conn_log w /\ f_buf s = wbuf w /\ f_err s = false /\ f_plan s = None.
Lemma conn_write_nofault s p : f_plan s = None ->
  conn_write s p = (blen p, false, {| f_log := f_log s ++ p; f_buf := f_buf s; f_err := f_err s; f_plan := None |}).
Proof. intros H. unfold conn_write. rewrite H. reflexivity. Qed.
Ltac fsim_fin Hl Hb := repeat split; cbn [set_buf f_log f_buf f_err f_plan conn_log wbuf]; auto;
  rewrite ?Hl, ?Hb, <- ?app_assoc, ?app_nil_r; auto.
Lemma ft_write_nofault wsize s w p : fsim s w -> exists s1, ft_write wsize s p = (blen p, true, s1) /\ fsim s1 (t_write wsize w p).
Proof.
  intros (Hl & Hb & He & Hp). unfold ft_write, t_write. destruct (0 <? wsize).
  - unfold fb_write, bw_write. rewrite He, Hb. destruct (blen p <=? wsize - blen (wbuf w)).
    + eexists. split; [reflexivity|]. fsim_fin Hl Hb.
    + destruct (wbuf w) as [|x b] eqn:Eb.
      * rewrite conn_write_nofault by exact Hp. eexists. split; [reflexivity|]. fsim_fin Hl Hb.
      * rewrite conn_write_nofault by exact Hp. cbn [set_buf f_log f_buf f_err f_plan].
        destruct (blen (bdrop (wsize - blen (x :: b)) p) <=? wsize).
        -- eexists. split; [reflexivity|]. fsim_fin Hl Hb.
        -- rewrite conn_write_nofault by reflexivity. eexists. split; [reflexivity|]. fsim_fin Hl Hb.
  - rewrite conn_write_nofault by exact Hp. eexists. split; [reflexivity|]. fsim_fin Hl Hb.
Qed.
Lemma ft_writev_nofault wsize ps : forall s w a0, fsim s w ->
  exists s1, ft_writev wsize s ps a0 = (a0 + blen (concat ps), true, s1) /\ fsim s1 (t_writev wsize w ps).
Proof.
  induction ps as [|p r IH]; intros s w a0 Hs; cbn [ft_writev t_writev fold_left concat].
  - exists s. rewrite blen_nil, Z.add_0_r. auto.
  - destruct (ft_write_nofault wsize s w p Hs) as (s1 & E1 & Hs1). rewrite E1. destruct (IH s1 _ (a0 + blen p) Hs1) as (s2 & E2 & Hs2).
    exists s2. rewrite E2, blen_app, Z.add_assoc. auto.
Qed.
Theorem fault_free_agrees wsize ops : forall s w, fsim s w ->
  fsim (snd (frun wsize s ops)) (fold_left (wstep wsize) ops w) /\
  Forall2 (fun o r => r = (blen (wpayload o), true, snd r)) ops (fst (frun wsize s ops)).
Proof.
  induction ops as [|o r IH]; intros s w Hs; cbn [frun fold_left]; [split; [exact Hs|constructor]|].
  assert (Hstep : exists s1, fstep wsize s o = (blen (wpayload o), true, s1) /\ fsim s1 (wstep wsize w o)).
  { destruct o as [p|ps|]; cbn [fstep wstep wpayload].
    - apply ft_write_nofault. exact Hs.
    - destruct (ft_writev_nofault wsize ps s w 0 Hs) as (s1 & E & H1). exists s1. rewrite E. auto.
    - destruct Hs as (Hl & Hb & He & Hp). unfold ft_flush, t_flush, fb_flush, bw_flush. destruct (0 <? wsize).
      + rewrite He, Hb. destruct (wbuf w) as [|x b] eqn:Eb.
        * eexists. split; [reflexivity|]. fsim_fin Hl Hb.
        * rewrite conn_write_nofault by exact Hp. eexists. split; [reflexivity|]. fsim_fin Hl Hb.
      + eexists. split; [reflexivity|]. repeat split; auto. }
  destruct Hstep as (s1 & E & Hs1). rewrite E. destruct (IH s1 _ Hs1) as [Ha Hb]. destruct (frun wsize s1 r) as [out s2]. cbn [fst snd] in *.
  split; [exact Ha|]. constructor; [reflexivity|exact Hb].
Qed.

(* Synchronous channel: lock discipline (C01/C07), close protocol (C05/C11), progress and termination. *)
From Coq Require Import List Arith Bool Lia.
From GN Require Import Model.SyncChan.
Import ListNotations.

Definition y_holds (t : ythread) : bool :=
  match t with
  | YWriter calls pc _ => match pc with YWrite | YFlush => match calls with [] => false | _ => true end | _ => false end
  | _ => false
  end.
Definition y_cnt_in (p : nat) (l : list nat) : nat := count_occ Nat.eq_dec l p.
(* payloads refused with the close error *)
Definition y_refused (t : ythread) : list nat :=
  match t with YWriter _ _ res => flat_map (fun '(p, r) => match r with YClosed => [p] | _ => [] end) res | _ => [] end.
Definition y_oks (t : ythread) : list nat :=
  match t with YWriter _ _ res => flat_map (fun '(p, r) => match r with YOk => [p] | _ => [] end) res | _ => [] end.
Fixpoint ysum (p : nat) (l : list ythread) : nat :=
  match l with [] => 0 | t :: r => y_cnt_in p (y_pending t) + y_cnt_in p (y_refused t) + ysum p r end.

Lemma ynth_same l i x t : nth_error l i = Some t -> nth_error (yupd l i x) i = Some x.
Proof. revert i; induction l as [|a l IH]; intros [|i] H; simpl in *; try discriminate; auto. Qed.
Lemma ynth_other l i j x : i <> j -> nth_error (yupd l i x) j = nth_error l j.
Proof. revert i j; induction l as [|a l IH]; intros [|i] [|j] H; simpl; auto; try lia. Qed.
Lemma ynth_cases l i j x y t : nth_error l i = Some t -> nth_error (yupd l i x) j = Some y ->
  (i = j /\ y = x) \/ (i <> j /\ nth_error l j = Some y).
Proof.
  intros Hi H. destruct (Nat.eq_dec i j) as [<-|Hne].
  - left. rewrite (ynth_same _ _ _ _ Hi) in H. inversion H. auto.
  - right. rewrite ynth_other in H by auto. auto.
Qed.
Lemma yupd_length l i x : length (yupd l i x) = length l.
Proof. revert i; induction l as [|a l IH]; intros [|i]; simpl; auto. Qed.
Lemma ysum_upd p l i t t' : nth_error l i = Some t ->
  ysum p (yupd l i t') + (y_cnt_in p (y_pending t) + y_cnt_in p (y_refused t)) = ysum p l + (y_cnt_in p (y_pending t') + y_cnt_in p (y_refused t')).
Proof.
  revert i; induction l as [|a l IH]; intros [|i] H; simpl in *; try discriminate.
  - inversion H; subst. lia.
  - specialize (IH _ H). lia.
Qed.

Definition early (pc : ykpc) : bool := match pc with KSetErr | KTClose | KTClosing => true | _ => false end.
Definition late (pc : ykpc) : bool := match pc with KCancel | KInactive => true | _ => false end.
Definition past (pc : ykpc) : bool := match pc with KCas => false | _ => true end.

(* ---------- the close protocol ---------- *)
Record KInv (s : sst) : Prop := {
  K_ret : sc_creturned s = true -> sc_closed s = true;
  K_past : forall j e pc, nth_error (sc_threads s) j = Some (YCloser e pc) -> past pc = true ->
             sc_closed s = true /\ sc_winner s = Some e /\ sc_inactive s = [] /\
             (early pc = true -> sc_tclosed s = 0) /\ (late pc = true -> sc_tclosed s = 1) /\ (pc = KInactive -> sc_ctx s = true);
  K_one : forall i j ei pi ej pj, nth_error (sc_threads s) i = Some (YCloser ei pi) ->
             nth_error (sc_threads s) j = Some (YCloser ej pj) -> past pi = true -> past pj = true -> i = j;
  K_open : sc_closed s = false -> sc_tclosed s = 0 /\ sc_inactive s = [] /\ sc_winner s = None;
  K_t : sc_tclosed s <= 1;
  K_ina : match sc_inactive s with [] => True | [e] => sc_winner s = Some e /\ sc_tclosed s = 1 /\ sc_ctx s = true
          | _ => False end;
  K_done : sc_inactive s <> [] -> forall j e pc, nth_error (sc_threads s) j = Some (YCloser e pc) -> pc = KCas }.

Ltac thr_cases Hi Hn :=
  destruct (ynth_cases _ _ _ _ _ _ Hi Hn) as [[<- ?E]|[?Hne ?Hj]].

Lemma kinv_step s e s' : KInv s -> sc_step s e = Some s' -> KInv s'.
Proof.
  intros K H. destruct e as [i f|]; cbn [sc_step] in H.
  2:{ inversion H; subst; clear H. destruct K as [K1 K2 K3 K4 K5 K6 K7]. constructor; cbn; auto.
      - intros j e pc Hn Hp. destruct (K2 _ _ _ Hn Hp) as (a & b & c & d & e' & g). repeat split; auto.
      - destruct (sc_inactive s) as [|a [|b l]]; auto. destruct K6 as (a1 & a2 & a3). repeat split; auto. }
  destruct (nth_error (sc_threads s) i) as [t|] eqn:Hi; [|discriminate].
  destruct t as [calls pc res|er pc|]; [| |discriminate].
  - (* writer steps: the close-protocol fields are untouched, the updated thread is a writer *)
    destruct calls as [|c rest]; [discriminate|].
    assert (W : exists lk tl fl t', s' = y_set s lk tl fl i t' /\ (forall e pc, t' <> YCloser e pc)).
    { destruct pc; cbn [y_ret] in H;
        repeat match type of H with context [if ?b then _ else _] => destruct b end;
        try (destruct (sc_lock s); [discriminate|]);
        inversion H; subst; do 4 eexists; (split; [reflexivity|intros; discriminate]). }
    destruct W as (lk & tl & fl & t' & -> & Hw). clear H.
    destruct K as [K1 K2 K3 K4 K5 K6 K7]. constructor; cbn [y_set sc_closed sc_ctx sc_tclosed sc_creturned sc_winner sc_inactive sc_threads]; auto.
    + intros j e pc0 Hn. thr_cases Hi Hn; [exfalso; eapply Hw; eauto|]. eapply K2; eauto.
    + intros a b ea pa eb pb Ha Hb. thr_cases Hi Ha; [exfalso; eapply Hw; eauto|].
      thr_cases Hi Hb; [exfalso; eapply Hw; eauto|]. eapply K3; eauto.
    + intros Hne j e pc0 Hn. thr_cases Hi Hn; [exfalso; eapply Hw; eauto|]. eapply K7; eauto.
  - (* closer steps *)
    destruct K as [K1 K2 K3 K4 K5 K6 K7].
    destruct pc; cbn in H.
    + (* CAS *)
      destruct (sc_closed s) eqn:Ec; inversion H; subst; clear H.
      * constructor; cbn [k_set sc_closed sc_ctx sc_tclosed sc_creturned sc_winner sc_inactive sc_threads].
        -- reflexivity.
        -- intros j e pc0 Hn. thr_cases Hi Hn; [discriminate|]. eapply K2; eauto.
        -- intros a b ea pa eb pb Ha Hb. thr_cases Hi Ha; [discriminate|]. thr_cases Hi Hb; [discriminate|]. eapply K3; eauto.
        -- intros Hc; discriminate.
        -- exact K5.
        -- exact K6.
        -- intros Hne j e pc0 Hn. thr_cases Hi Hn; [discriminate|]. eapply K7; eauto.
      * destruct (K4 eq_refl) as (T0 & I0 & W0).
        assert (Hnone : forall j e pc0, nth_error (sc_threads s) j = Some (YCloser e pc0) -> past pc0 = false).
        { intros j e pc0 Hn. destruct (past pc0) eqn:Ep; [|reflexivity]. destruct (K2 _ _ _ Hn Ep) as [Hx _]. congruence. }
        constructor; cbn [k_set sc_closed sc_ctx sc_tclosed sc_creturned sc_winner sc_inactive sc_threads].
        -- reflexivity.
        -- intros j e pc0 Hn Hp. thr_cases Hi Hn.
           ++ inversion E; subst. rewrite T0, I0. repeat split; auto; intros Hl; discriminate.
           ++ rewrite (Hnone _ _ _ Hj) in Hp. discriminate.
        -- intros a b ea pa eb pb Ha Hb Hpa Hpb. thr_cases Hi Ha; thr_cases Hi Hb; auto.
           ++ rewrite (Hnone _ _ _ Hj) in Hpb. discriminate.
           ++ rewrite (Hnone _ _ _ Hj) in Hpa. discriminate.
           ++ rewrite (Hnone _ _ _ Hj) in Hpa. discriminate.
        -- intros Hc; discriminate.
        -- exact K5.
        -- rewrite I0. exact I.
        -- rewrite I0. intros Hx; congruence.
    + (* seterr *) inversion H; subst; clear H.
      destruct (K2 _ _ _ Hi eq_refl) as (C1 & W1 & I1 & E1 & L1 & X1).
      constructor; cbn [k_set sc_closed sc_ctx sc_tclosed sc_creturned sc_winner sc_inactive sc_threads].
      * exact K1.
      * intros j e pc0 Hn Hp. thr_cases Hi Hn; [inversion E; subst; repeat split; auto; intros; discriminate|eapply K2; eauto].
      * intros a b ea pa eb pb Ha Hb Hpa Hpb. thr_cases Hi Ha; thr_cases Hi Hb; auto; try (eapply (K3 a b); eauto; fail); try (eapply K3; eauto; fail).
      * exact K4.
      * exact K5.
      * exact K6.
      * intros Hne. congruence.
    + (* tclose *) inversion H; subst; clear H.
      destruct (K2 _ _ _ Hi eq_refl) as (C1 & W1 & I1 & E1 & L1 & X1).
      constructor; cbn [k_set sc_closed sc_ctx sc_tclosed sc_creturned sc_winner sc_inactive sc_threads].
      * exact K1.
      * intros j e pc0 Hn Hp. thr_cases Hi Hn; [inversion E; subst; repeat split; auto; intros; discriminate|eapply K2; eauto].
      * intros a b ea pa eb pb Ha Hb Hpa Hpb. thr_cases Hi Ha; thr_cases Hi Hb; auto; try (eapply (K3 a b); eauto; fail); try (eapply K3; eauto; fail).
      * exact K4.
      * exact K5.
      * exact K6.
      * intros Hne. congruence.
    + (* transport.Close *) inversion H; subst; clear H.
      destruct (K2 _ _ _ Hi eq_refl) as (C1 & W1 & I1 & E1 & L1 & X1). specialize (E1 eq_refl).
      assert (Hother : forall j e pc0, j <> i -> nth_error (sc_threads s) j = Some (YCloser e pc0) -> past pc0 = false).
      { intros j e pc0 Hne Hn. destruct (past pc0) eqn:Ep; [|reflexivity]. exfalso. apply Hne. eapply K3; eauto. }
      constructor; cbn [k_set sc_closed sc_ctx sc_tclosed sc_creturned sc_winner sc_inactive sc_threads].
      * exact K1.
      * intros j e pc0 Hn Hp. thr_cases Hi Hn.
        -- inversion E; subst. rewrite E1. repeat split; auto; intros; discriminate.
        -- rewrite (Hother j e pc0) in Hp; auto. discriminate.
      * intros a b ea pa eb pb Ha Hb Hpa Hpb. thr_cases Hi Ha; thr_cases Hi Hb; auto.
        -- rewrite (Hother b eb pb) in Hpb; auto. discriminate.
        -- rewrite (Hother a ea pa) in Hpa; auto. discriminate.
        -- eapply K3; eauto.
      * intros Hc. congruence.
      * lia.
      * rewrite I1. exact I.
      * intros Hne. congruence.
    + (* cancel *) inversion H; subst; clear H.
      destruct (K2 _ _ _ Hi eq_refl) as (C1 & W1 & I1 & E1 & L1 & X1). specialize (L1 eq_refl).
      constructor; cbn [k_set sc_closed sc_ctx sc_tclosed sc_creturned sc_winner sc_inactive sc_threads].
      * exact K1.
      * intros j e pc0 Hn Hp. thr_cases Hi Hn.
        -- inversion E; subst. repeat split; auto; intros; discriminate.
        -- destruct (K2 _ _ _ Hj Hp) as (a1 & a2 & a3 & a4 & a5 & a6). repeat split; auto.
      * intros a b ea pa eb pb Ha Hb Hpa Hpb. thr_cases Hi Ha; thr_cases Hi Hb; auto; try (eapply (K3 a b); eauto; fail); try (eapply K3; eauto; fail).
      * exact K4.
      * exact K5.
      * rewrite I1. exact I.
      * intros Hne. congruence.
    + (* inactive *) inversion H; subst; clear H.
      destruct (K2 _ _ _ Hi eq_refl) as (C1 & W1 & I1 & E1 & L1 & X1). specialize (L1 eq_refl). specialize (X1 eq_refl).
      assert (Hother : forall j e pc0, j <> i -> nth_error (sc_threads s) j = Some (YCloser e pc0) -> past pc0 = false).
      { intros j e pc0 Hne Hn. destruct (past pc0) eqn:Ep; [|reflexivity]. exfalso. apply Hne. eapply K3; eauto. }
      constructor; cbn [k_set sc_closed sc_ctx sc_tclosed sc_creturned sc_winner sc_inactive sc_threads].
      * intros _. exact C1.
      * intros j e pc0 Hn Hp. thr_cases Hi Hn; [discriminate|]. rewrite (Hother j e pc0) in Hp; auto. discriminate.
      * intros a b ea pa eb pb Ha Hb Hpa Hpb. thr_cases Hi Ha; [discriminate|]. thr_cases Hi Hb; [discriminate|]. eapply K3; eauto.
      * intros Hc. congruence.
      * exact K5.
      * rewrite I1. cbn [app]. repeat split; auto.
      * intros _ j e pc0 Hn. thr_cases Hi Hn; [discriminate|]. assert (Hx : past pc0 = false) by (apply (Hother j e pc0); auto). destruct pc0; try discriminate. reflexivity.
Qed.

Theorem kinv_run sched : forall s, KInv s -> KInv (sc_run s sched).
Proof.
  induction sched as [|e r IH]; intros s Hi; cbn [sc_run]; [exact Hi|].
  destruct (sc_step s e) as [s'|] eqn:E; [apply IH; eapply kinv_step; eauto|apply IH; exact Hi].
Qed.

(* ---------- the write lock and the transport log ---------- *)
Record SInv (s : sst) : Prop := {
  S_lock : forall j t, nth_error (sc_threads s) j = Some t -> (y_holds t = true <-> sc_lock s = Some j);
  S_once : forall p, y_cnt_in p (sc_tlog s) + ysum p (sc_threads s) <= 1;
  S_fl : forall j c rest res, nth_error (sc_threads s) j = Some (YWriter (c :: rest) YFlush res) -> In c (sc_tlog s);
  S_fle : sc_flushed s <= length (sc_tlog s);
  S_ok : forall j t p, nth_error (sc_threads s) j = Some t -> In p (y_oks t) -> In p (firstn (sc_flushed s) (sc_tlog s));
  S_lockex : forall j, sc_lock s = Some j -> j < length (sc_threads s) }.

Lemma in_firstn_in (p : nat) n l : In p (firstn n l) -> In p l.
Proof. intros H. rewrite <- (firstn_skipn n l). apply in_or_app. left. exact H. Qed.
Lemma in_firstn_app (p : nat) n l l' : n <= length l -> In p (firstn n l) -> In p (firstn n (l ++ l')).
Proof. intros Hn H. rewrite firstn_app. apply in_or_app. left. exact H. Qed.
Lemma refused_app calls pc res c r : y_refused (YWriter calls pc (res ++ [(c, r)])) =
  y_refused (YWriter calls pc res) ++ match r with YClosed => [c] | _ => [] end.
Proof. cbn [y_refused]. rewrite flat_map_app. cbn. rewrite app_nil_r. reflexivity. Qed.
Lemma oks_app calls pc res c r : y_oks (YWriter calls pc (res ++ [(c, r)])) =
  y_oks (YWriter calls pc res) ++ match r with YOk => [c] | _ => [] end.
Proof. cbn [y_oks]. rewrite flat_map_app. cbn. rewrite app_nil_r. reflexivity. Qed.
Lemma refused_pc calls calls' pc pc' res : y_refused (YWriter calls pc res) = y_refused (YWriter calls' pc' res).
Proof. reflexivity. Qed.

(* steps of closers and of the parent leave the writers' part of the state alone *)
Lemma sinv_other s s' i t t' : SInv s -> nth_error (sc_threads s) i = Some t ->
  sc_lock s' = sc_lock s -> sc_tlog s' = sc_tlog s -> sc_flushed s' = sc_flushed s -> sc_threads s' = yupd (sc_threads s) i t' ->
  y_holds t = false -> y_holds t' = false -> y_pending t = [] -> y_pending t' = [] -> y_refused t = [] -> y_refused t' = [] ->
  y_oks t' = [] -> (forall c rest res, t' <> YWriter (c :: rest) YFlush res) ->
  SInv s'.
Proof.
  intros [Hl Ho Hf Hfe Hk Hlx] Hi El Et Ef Eth Ht Ht' Hp Hp' Hr Hr' Hk' Hnf. constructor; rewrite ?El, ?Et, ?Ef, ?Eth; [| | | | |rewrite yupd_length; exact Hlx].
  - intros j x Hn. thr_cases Hi Hn.
    + subst x. rewrite Ht'. pose proof (Hl _ _ Hi) as Hx. rewrite Ht in Hx. tauto.
    + apply Hl; auto.
  - intros p. pose proof (ysum_upd p _ _ _ t' Hi) as Hc. rewrite Hp, Hp', Hr, Hr' in Hc. specialize (Ho p). unfold y_cnt_in in *; cbn [count_occ] in Hc. lia.
  - intros j c rest res Hn. thr_cases Hi Hn; [exfalso; eapply Hnf; eauto|]. eapply Hf; eauto.
  - exact Hfe.
  - intros j x p Hn Hin. thr_cases Hi Hn; [subst x; rewrite Hk' in Hin; destruct Hin|]. eapply Hk; eauto.
Qed.

Lemma sinv_step s e s' : SInv s -> sc_step s e = Some s' -> SInv s'.
Proof.
  intros S H. destruct e as [i f|]; cbn [sc_step] in H.
  2:{ inversion H; subst; clear H. destruct S as [Hl Ho Hf Hfe Hk Hlx]. constructor; cbn; auto. }
  destruct (nth_error (sc_threads s) i) as [t|] eqn:Hi; [|discriminate].
  destruct t as [calls pc res|er pc|]; [| |discriminate].
  2:{ (* closer *)
      destruct pc; cbn in H; try (destruct (sc_closed s)); inversion H; subst; clear H;
        (eapply (sinv_other s _ i _ _ S Hi); try reflexivity; intros; congruence). }
  destruct calls as [|c rest]; [discriminate|].
  destruct S as [Hl Ho Hf Hfe Hk Hlx].
  assert (Hilt : i < length (sc_threads s)) by (apply nth_error_Some; congruence).
  pose proof (Hl _ _ Hi) as Hli. cbn [y_holds] in Hli.
  destruct pc; cbn [y_ret] in H.
  - (* check *)
    destruct (closed_err s); inversion H; subst; clear H;
      constructor; cbn [y_set sc_lock sc_tlog sc_flushed sc_threads]; try (rewrite yupd_length; first [exact Hlx|intros ? Hq; inversion Hq; subst; exact Hilt|intros ? Hq; discriminate Hq]).
    + intros j x Hn. thr_cases Hi Hn; [subst x; cbn [y_holds]; tauto|apply Hl; auto].
    + intros p. pose proof (ysum_upd p _ _ _ (YWriter rest YCheck (res ++ [(c, YClosed)])) Hi) as Hc.
      rewrite refused_app in Hc. cbn [y_pending] in Hc. unfold y_cnt_in in *. rewrite count_occ_app in Hc. cbn [count_occ] in *.
      specialize (Ho p). cbn [y_refused] in *. destruct (Nat.eq_dec c p); lia.
    + intros j c0 r0 res0 Hn. thr_cases Hi Hn; [discriminate|]. eapply Hf; eauto.
    + exact Hfe.
    + intros j x p Hn Hin. thr_cases Hi Hn; [subst x; rewrite oks_app, app_nil_r in Hin; eapply (Hk i); eauto|eapply Hk; eauto].
    + intros j x Hn. thr_cases Hi Hn; [subst x; cbn [y_holds]; tauto|apply Hl; auto].
    + intros p. pose proof (ysum_upd p _ _ _ (YWriter (c :: rest) YLock res) Hi) as Hc. cbn [y_pending y_refused] in Hc. specialize (Ho p). cbn [y_refused] in *. lia.
    + intros j c0 r0 res0 Hn. thr_cases Hi Hn; [discriminate|]. eapply Hf; eauto.
    + exact Hfe.
    + intros j x p Hn Hin. thr_cases Hi Hn; [subst x; eapply (Hk i); eauto|eapply Hk; eauto].
  - (* lock *)
    destruct (sc_lock s) eqn:El; [discriminate|]. inversion H; subst; clear H.
    constructor; cbn [y_set sc_lock sc_tlog sc_flushed sc_threads]; try (rewrite yupd_length; first [exact Hlx|intros ? Hq; inversion Hq; subst; exact Hilt|intros ? Hq; discriminate Hq]).
    + intros j x Hn. thr_cases Hi Hn; [subst x; cbn [y_holds]; tauto|].
      pose proof (Hl _ _ Hj) as Hx. split; [intros Hh; apply Hx in Hh; discriminate|intros Hs; inversion Hs; congruence].
    + intros p. pose proof (ysum_upd p _ _ _ (YWriter (c :: rest) YWrite res) Hi) as Hc. cbn [y_pending y_refused] in Hc. specialize (Ho p). cbn [y_refused] in *. lia.
    + intros j c0 r0 res0 Hn. thr_cases Hi Hn; [discriminate|]. eapply Hf; eauto.
    + exact Hfe.
    + intros j x p Hn Hin. thr_cases Hi Hn; [subst x; eapply (Hk i); eauto|eapply Hk; eauto].
  - (* write *)
    assert (Elk : sc_lock s = Some i) by (apply Hli; reflexivity).
    destruct (orb (0 <? sc_tclosed s) f); inversion H; subst; clear H;
      constructor; cbn [y_set sc_lock sc_tlog sc_flushed sc_threads]; try (rewrite yupd_length; first [exact Hlx|intros ? Hq; inversion Hq; subst; exact Hilt|intros ? Hq; discriminate Hq]).
    + intros j x Hn. thr_cases Hi Hn; [subst x; cbn [y_holds]; split; discriminate|].
      pose proof (Hl _ _ Hj) as Hx. rewrite Elk in Hx. split; [intros Hh; apply Hx in Hh; inversion Hh; congruence|discriminate].
    + intros p. pose proof (ysum_upd p _ _ _ (YWriter rest YCheck (res ++ [(c, YFail)])) Hi) as Hc.
      rewrite refused_app, app_nil_r in Hc. cbn [y_pending] in Hc.
      unfold y_cnt_in in *. cbn [count_occ] in *. specialize (Ho p). cbn [y_refused] in *. destruct (Nat.eq_dec c p); lia.
    + intros j c0 r0 res0 Hn. thr_cases Hi Hn; [discriminate|]. eapply Hf; eauto.
    + exact Hfe.
    + intros j x p Hn Hin. thr_cases Hi Hn; [subst x; rewrite oks_app, app_nil_r in Hin; eapply (Hk i); eauto|eapply Hk; eauto].
    + intros j x Hn. thr_cases Hi Hn; [subst x; cbn [y_holds]; tauto|apply Hl; auto].
    + intros p. pose proof (ysum_upd p _ _ _ (YWriter (c :: rest) YFlush res) Hi) as Hc. cbn [y_pending y_refused tl] in Hc.
      unfold y_cnt_in in *. rewrite count_occ_app. cbn [count_occ] in *. specialize (Ho p). cbn [y_refused] in *. destruct (Nat.eq_dec c p); lia.
    + intros j c0 r0 res0 Hn. apply in_or_app. thr_cases Hi Hn; [inversion E; subst; right; left; reflexivity|left; eapply Hf; eauto].
    + rewrite app_length. cbn. lia.
    + intros j x p Hn Hin. apply in_firstn_app; [exact Hfe|]. thr_cases Hi Hn; [subst x; eapply (Hk i); eauto|eapply Hk; eauto].
  - (* flush *)
    assert (Elk : sc_lock s = Some i) by (apply Hli; reflexivity).
    pose proof (Hf _ _ _ _ Hi) as Hc_in.
    destruct (orb (0 <? sc_tclosed s) f); inversion H; subst; clear H;
      constructor; cbn [y_set sc_lock sc_tlog sc_flushed sc_threads]; try (rewrite yupd_length; first [exact Hlx|intros ? Hq; inversion Hq; subst; exact Hilt|intros ? Hq; discriminate Hq]).
    + intros j x Hn. thr_cases Hi Hn; [subst x; cbn [y_holds]; split; discriminate|].
      pose proof (Hl _ _ Hj) as Hx. rewrite Elk in Hx. split; [intros Hh; apply Hx in Hh; inversion Hh; congruence|discriminate].
    + intros p. pose proof (ysum_upd p _ _ _ (YWriter rest YCheck (res ++ [(c, YFail)])) Hi) as Hc.
      rewrite refused_app, app_nil_r in Hc. cbn [y_pending tl] in Hc. specialize (Ho p). cbn [y_refused] in *. lia.
    + intros j c0 r0 res0 Hn. thr_cases Hi Hn; [discriminate|]. eapply Hf; eauto.
    + exact Hfe.
    + intros j x p Hn Hin. thr_cases Hi Hn; [subst x; rewrite oks_app, app_nil_r in Hin; eapply (Hk i); eauto|eapply Hk; eauto].
    + intros j x Hn. thr_cases Hi Hn; [subst x; cbn [y_holds]; split; discriminate|].
      pose proof (Hl _ _ Hj) as Hx. rewrite Elk in Hx. split; [intros Hh; apply Hx in Hh; inversion Hh; congruence|discriminate].
    + intros p. pose proof (ysum_upd p _ _ _ (YWriter rest YCheck (res ++ [(c, YOk)])) Hi) as Hc.
      rewrite refused_app, app_nil_r in Hc. cbn [y_pending tl] in Hc. specialize (Ho p). cbn [y_refused] in *. lia.
    + intros j c0 r0 res0 Hn. thr_cases Hi Hn; [discriminate|]. eapply Hf; eauto.
    + lia.
    + intros j x p Hn Hin. rewrite firstn_all. thr_cases Hi Hn.
      * subst x. rewrite oks_app in Hin. apply in_app_or in Hin. destruct Hin as [Hin|[<-|[]]]; [|exact Hc_in].
        eapply in_firstn_in. eapply (Hk i); eauto.
      * eapply in_firstn_in. eapply Hk; eauto.
Qed.

Theorem sinv_run sched : forall s, SInv s -> SInv (sc_run s sched).
Proof.
  induction sched as [|e r IH]; intros s Hi; cbn [sc_run]; [exact Hi|].
  destruct (sc_step s e) as [s'|] eqn:E; [apply IH; eapply sinv_step; eauto|apply IH; exact Hi].
Qed.

Lemma nodup_nat_spec l : nodup_nat l = true -> NoDup l.
Proof.
  induction l as [|x r IH]; cbn; [constructor|]. rewrite andb_true_iff, negb_true_iff. intros [Hx Hr].
  constructor; [|apply IH; exact Hr]. intros Hin.
  assert (existsb (Nat.eqb x) r = true) by (apply existsb_exists; exists x; split; [exact Hin|apply Nat.eqb_refl]). congruence.
Qed.

Definition y_init_thread (t : ythread) : bool :=
  match t with YWriter _ YCheck [] => true | YCloser _ KCas => true | YDone => true | _ => false end.
Lemma wf_threads ths : sc_wf ths = true -> forall t, In t ths -> y_init_thread t = true.
Proof. unfold sc_wf. rewrite andb_true_iff. intros [Hs _]. rewrite forallb_forall in Hs. exact Hs. Qed.
Lemma ysum_flat p l : (forall t, In t l -> y_init_thread t = true) -> ysum p l = y_cnt_in p (flat_map y_pending l).
Proof.
  induction l as [|a l IH]; intros Hall; cbn [ysum flat_map]; [reflexivity|]. unfold y_cnt_in in *. rewrite count_occ_app, IH by (intros; apply Hall; right; auto).
  assert (Ha : y_init_thread a = true) by (apply Hall; left; auto).
  destruct a as [c [] [|]|e []|]; cbn in Ha; try discriminate; cbn [y_refused flat_map count_occ]; lia.
Qed.

Theorem sinv_init ths : sc_wf ths = true -> SInv (sc_init ths).
Proof.
  intros Hw. pose proof (wf_threads _ Hw) as Hs. unfold sc_wf in Hw. rewrite andb_true_iff in Hw. destruct Hw as [_ Hn].
  constructor; cbn [sc_init sc_lock sc_tlog sc_flushed sc_threads].
  - intros j t Hj. specialize (Hs t (nth_error_In _ _ Hj)). destruct t as [? [] [|]|? []|]; cbn in *; try discriminate; split; discriminate.
  - intros p. rewrite ysum_flat by exact Hs. unfold y_cnt_in. cbn [count_occ]. apply (proj1 (NoDup_count_occ Nat.eq_dec _) (nodup_nat_spec _ Hn)).
  - intros j c rest res Hj. specialize (Hs _ (nth_error_In _ _ Hj)). discriminate.
  - cbn. lia.
  - intros j t p Hj Hin. specialize (Hs _ (nth_error_In _ _ Hj)). destruct t as [? [] [|]|? []|]; cbn in *; try discriminate; destruct Hin.
  - intros j Hj; discriminate.
Qed.

Theorem kinv_init ths : sc_wf ths = true -> KInv (sc_init ths).
Proof.
  intros Hw. pose proof (wf_threads _ Hw) as Hs.
  assert (Hc : forall j e pc, nth_error ths j = Some (YCloser e pc) -> pc = KCas).
  { intros j e pc Hj. specialize (Hs _ (nth_error_In _ _ Hj)). destruct pc; cbn in Hs; try discriminate. reflexivity. }
  constructor; cbn [sc_init sc_closed sc_ctx sc_tclosed sc_creturned sc_winner sc_inactive sc_threads].
  - discriminate.
  - intros j e pc Hj Hp. rewrite (Hc _ _ _ Hj) in Hp. discriminate.
  - intros i j ei pi ej pj Ha Hb Hp. rewrite (Hc _ _ _ Ha) in Hp. discriminate.
  - auto.
  - lia.
  - exact I.
  - intros H; congruence.
Qed.

(* C01, synchronous channel: whole calls are serialised by the write lock; each payload reaches the transport at
   most once; a call that returned success has its payload on the transport AND flushed; a call refused with the
   close error transmitted nothing *)
Theorem sync_correct ths sched : sc_wf ths = true ->
  let s := sc_run (sc_init ths) sched in
  NoDup (sc_tlog s) /\
  (forall i j ti tj, nth_error (sc_threads s) i = Some ti -> nth_error (sc_threads s) j = Some tj ->
     y_holds ti = true -> y_holds tj = true -> i = j) /\
  (forall j t p, nth_error (sc_threads s) j = Some t -> In p (y_oks t) -> In p (firstn (sc_flushed s) (sc_tlog s))) /\
  (forall j t p, nth_error (sc_threads s) j = Some t -> In p (y_refused t) -> ~ In p (sc_tlog s)).
Proof.
  intros Hw s. assert (Hi : SInv s) by (apply sinv_run, sinv_init; exact Hw). split; [|split; [|split]].
  - apply (NoDup_count_occ Nat.eq_dec). intros p. pose proof (S_once s Hi p). unfold y_cnt_in in *. lia.
  - intros i j ti tj Hni Hnj Hhi Hhj. apply (S_lock s Hi i ti Hni) in Hhi. apply (S_lock s Hi j tj Hnj) in Hhj. congruence.
  - exact (S_ok s Hi).
  - intros j t p Hj Hin Hlog. pose proof (S_once s Hi p) as Ho.
    assert (H1 : 1 <= y_cnt_in p (sc_tlog s)) by (apply (count_occ_In Nat.eq_dec); exact Hlog).
    assert (H2 : 1 <= ysum p (sc_threads s)).
    { clear - Hj Hin. revert j Hj. induction (sc_threads s) as [|a l IH]; intros [|j] Hj; cbn in Hj; try discriminate.
      - inversion Hj; subst. cbn [ysum]. assert (1 <= y_cnt_in p (y_refused t)) by (apply (count_occ_In Nat.eq_dec); exact Hin). lia.
      - cbn [ysum]. specialize (IH _ Hj). lia. }
    lia.
Qed.

(* C05, synchronous channel: whatever the number of racing Close calls, the transport is closed at most once and the
   inactive event fires at most once, after the transport was closed and the context cancelled, carrying the error of
   the Close call that won the flag *)
Theorem sync_close_once ths sched : sc_wf ths = true ->
  let s := sc_run (sc_init ths) sched in
  sc_tclosed s <= 1 /\ length (sc_inactive s) <= 1 /\
  (forall e, sc_inactive s = [e] -> sc_winner s = Some e /\ sc_tclosed s = 1 /\ sc_ctx s = true).
Proof.
  intros Hw s. assert (K : KInv s) by (apply kinv_run, kinv_init; exact Hw).
  split; [exact (K_t s K)|]. pose proof (K_ina s K) as Hi. destruct (sc_inactive s) as [|a [|b l]]; cbn; split; try lia; try tauto.
  - intros e He; discriminate.
  - intros e He. inversion He; subst. exact Hi.
Qed.

(* C11, synchronous channel: once ANY Close call has returned - the one that took effect or one that lost the race -
   the closed flag is set (K_ret), and a write entry point that starts then returns the close error, leaves the lock
   alone and transmits nothing.  The flag, not the context, is what counts: the context is cancelled only after
   transport.Close, which may still be under way when a losing Close call returns *)
Theorem sync_write_after_close s i c rest res f : KInv s -> sc_creturned s = true ->
  nth_error (sc_threads s) i = Some (YWriter (c :: rest) YCheck res) ->
  exists s', sc_step s (YRun i f) = Some s' /\
    nth_error (sc_threads s') i = Some (YWriter rest YCheck (res ++ [(c, YClosed)])) /\
    sc_tlog s' = sc_tlog s /\ sc_lock s' = sc_lock s /\ sc_flushed s' = sc_flushed s.
Proof.
  intros K Hr Hi. pose proof (K_ret s K Hr) as Hc. cbn [sc_step]. rewrite Hi. unfold closed_err. rewrite Hc. cbn [orb].
  eexists. split; [reflexivity|]. cbn [y_set sc_threads sc_tlog sc_lock sc_flushed y_ret]. rewrite (ynth_same _ _ _ _ Hi). auto.
Qed.
Lemma creturned_mono s e s' : sc_step s e = Some s' -> sc_creturned s = true -> sc_creturned s' = true.
Proof.
  intros H Hr. destruct e as [i f|]; cbn [sc_step] in H; [|inversion H; subst; exact Hr].
  destruct (nth_error (sc_threads s) i) as [[[|c rest] pc res|e pc|]|]; try discriminate.
  - destruct pc; cbn [y_ret] in H;
      repeat match type of H with context [if ?b then _ else _] => destruct b end;
      try (destruct (sc_lock s); [discriminate|]); inversion H; subst; exact Hr.
  - destruct pc; cbn in H; try (destruct (sc_closed s)); inversion H; subst; cbn; auto.
Qed.

(* C07 / C02, synchronous channel: the write lock is released on every path (also when the transport fails), so a
   thread that is not finished is either able to step or waits for a lock holder that is able to step *)
Theorem sync_progress s i t : SInv s -> nth_error (sc_threads s) i = Some t -> y_finished t = false ->
  y_enabled s i = true \/ exists j, sc_lock s = Some j /\ j <> i /\ y_enabled s j = true.
Proof.
  intros S Hi Hf. unfold y_enabled at 1. cbn [sc_step]. rewrite Hi.
  destruct t as [[|c rest] pc res|e pc|]; cbn in Hf; try discriminate.
  - destruct pc.
    1,3,4: left; try destruct (closed_err s); try destruct (orb (0 <? sc_tclosed s) false); reflexivity.
    destruct (sc_lock s) as [j|] eqn:El; [|left; reflexivity]. right. exists j.
    (* the holder is a writer inside transport.Write / Flush: those steps never block *)
    assert (Hne : j <> i).
    { intros ->. pose proof (proj2 (S_lock s S _ _ Hi) El) as Hx. discriminate. }
    split; [reflexivity|]. split; [exact Hne|].
    destruct (nth_error (sc_threads s) j) as [tj|] eqn:Hj.
    + pose proof (proj2 (S_lock s S _ _ Hj) El) as Hh. unfold y_enabled. cbn [sc_step]. rewrite Hj.
      destruct tj as [[|cj rj] [] resj|? ?|]; cbn in Hh; try discriminate;
        try destruct (orb (0 <? sc_tclosed s) false); try reflexivity.

    + exfalso. (* the lock names an existing thread *)
      pose proof (S_lockex s S _ El) as Hlt. apply nth_error_None in Hj. lia.
  - left. destruct pc; cbn; try (destruct (sc_closed s)); reflexivity.
Qed.

(* in a state where no thread can step, every call has returned and every Close has completed: no deadlock *)
Theorem sync_quiescent_all_done s : SInv s -> (forall i, y_enabled s i = false) ->
  forall i t, nth_error (sc_threads s) i = Some t -> y_finished t = true.
Proof.
  intros S Hq i t Hi. destruct (y_finished t) eqn:Hf; [reflexivity|].
  destruct (sync_progress s i t S Hi Hf) as [He|(j & _ & _ & He)]; rewrite Hq in He; discriminate.
Qed.

(* termination: every thread step strictly decreases the remaining work *)
Definition pc_idx (pc : ypc) : nat := match pc with YCheck => 0 | YLock => 1 | YWrite => 2 | YFlush => 3 end.
Definition k_idx (pc : ykpc) : nat :=
  match pc with KCas => 0 | KSetErr => 1 | KTClose => 2 | KTClosing => 3 | KCancel => 4 | KInactive => 5 end.
Definition y_weight (t : ythread) : nat :=
  match t with
  | YWriter calls pc _ => 4 * length calls - pc_idx pc
  | YCloser _ pc => 7 - k_idx pc
  | YDone => 0
  end.
Fixpoint y_meas (l : list ythread) : nat := match l with [] => 0 | t :: r => y_weight t + y_meas r end.
Lemma ymeas_upd l i t t' : nth_error l i = Some t -> y_meas (yupd l i t') + y_weight t = y_meas l + y_weight t'.
Proof.
  revert i; induction l as [|a l IH]; intros [|i] H; simpl in *; try discriminate.
  - inversion H; subst. lia.
  - specialize (IH _ H). lia.
Qed.
Theorem sync_step_decreases s i f s' : sc_step s (YRun i f) = Some s' -> y_meas (sc_threads s') < y_meas (sc_threads s).
Proof.
  cbn [sc_step]. destruct (nth_error (sc_threads s) i) as [t|] eqn:Hi; [|discriminate].
  destruct t as [[|c rest] pc res|e pc|]; try discriminate; intros H.
  - destruct pc; cbn [y_ret] in H;
      try destruct (closed_err s); try destruct (orb (0 <? sc_tclosed s) f); try (destruct (sc_lock s); [discriminate|]);
      inversion H; subst; clear H; cbn [y_set sc_threads];
      match goal with |- context [yupd _ _ ?t'] => pose proof (ymeas_upd _ _ _ t' Hi) as Hm end;
      cbn [y_weight length pc_idx] in Hm; lia.
  - destruct pc; cbn in H; try destruct (sc_closed s); inversion H; subst; clear H; cbn [k_set sc_threads];
      match goal with |- context [yupd _ _ ?t'] => pose proof (ymeas_upd _ _ _ t' Hi) as Hm end;
      cbn [y_weight k_idx] in Hm; lia.
Qed.
(* hence no execution of the synchronous channel is infinite: a run of n enabled thread steps needs n <= initial work *)
Fixpoint all_runs (s : sst) (sched : list (nat * bool)) : option sst :=
  match sched with
  | [] => Some s
  | (i, f) :: r => match sc_step s (YRun i f) with Some s' => all_runs s' r | None => None end
  end.
Theorem sync_no_infinite_execution sched : forall s s', all_runs s sched = Some s' ->
  length sched + y_meas (sc_threads s') <= y_meas (sc_threads s).
Proof.
  induction sched as [|[i f] r IH]; intros s s' H; cbn [all_runs length] in *.
  - inversion H; subst. lia.
  - destruct (sc_step s (YRun i f)) as [s1|] eqn:E; [|discriminate].
    pose proof (sync_step_decreases _ _ _ _ E). specialize (IH _ _ H). lia.
Qed.

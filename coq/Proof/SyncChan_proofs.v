(* Synchronous channel: the write lock serialises whole calls (C01 for the unqueued channel). *)
From Coq Require Import List Arith Bool Lia.
From GN Require Import Model.SyncChan.
Import ListNotations.

Definition holds (t : ythread) : bool := match t with YWriter _ (YWrite | YFlush) _ => true | _ => false end.
Fixpoint ycnt (l : list ythread) : nat := match l with [] => 0 | t :: r => (if holds t then 1 else 0) + ycnt r end.
Definition cnt_in (p : nat) (l : list nat) : nat := count_occ Nat.eq_dec l p.
Fixpoint ysum (p : nat) (l : list ythread) : nat := match l with [] => 0 | t :: r => cnt_in p (y_pending t) + ysum p r end.

Record SInv (s : sst) : Prop := {
  S_lock : forall j t, nth_error (sc_threads s) j = Some t -> (holds t = true <-> sc_lock s = Some j);
  S_log : sc_tlog s = sc_accepted s;
  S_once : forall p, cnt_in p (sc_tlog s) + ysum p (sc_threads s) <= 1 }.

Lemma ynth_same l i x t : nth_error l i = Some t -> nth_error (yupd l i x) i = Some x.
Proof. revert i; induction l as [|a l IH]; intros [|i] H; simpl in *; try discriminate; auto. Qed.
Lemma ynth_other l i j x : i <> j -> nth_error (yupd l i x) j = nth_error l j.
Proof. revert i j; induction l as [|a l IH]; intros [|i] [|j] H; simpl; auto; try lia. Qed.
Lemma ynth_cases l i j x y t : nth_error l i = Some t -> nth_error (yupd l i x) j = Some y ->
  (i = j /\ y = x) \/ (i <> j /\ nth_error l j = Some y).
Proof.
  intros Hi H. destruct (Nat.eq_dec i j) as [<-|Hne].
  - left. rewrite (ynth_same _ _ _ _ Hi) in H. inversion H. auto.
  - right. rewrite ynth_other in H by auto. auto.
Qed.
Lemma ysum_upd p l i t t' : nth_error l i = Some t ->
  ysum p (yupd l i t') + cnt_in p (y_pending t) = ysum p l + cnt_in p (y_pending t').
Proof.
  revert i; induction l as [|a l IH]; intros [|i] H; simpl in *; try discriminate.
  - inversion H; subst. lia.
  - specialize (IH _ H). lia.
Qed.

Ltac ycases H :=
  unfold sc_step, y_ret in H;
  repeat match type of H with
         | context [match ?x with _ => _ end] => destruct x eqn:?; try discriminate H
         end; inversion H; subst; clear H;
  cbn [y_set sc_lock sc_closed sc_tclosed sc_tlog sc_accepted sc_flushed sc_threads] in *.

Lemma sinv_step s e s' : SInv s -> sc_step s e = Some s' -> SInv s'.
Proof.
  intros [Hl Hg Ho] H. constructor.
  - intros j t Hn. ycases H; try (apply Hl; exact Hn);
      match goal with Hi : nth_error (sc_threads s) ?i = Some ?ti |- _ =>
        pose proof (Hl i ti Hi) as Hli; cbn [holds] in Hli;
        destruct (ynth_cases _ _ _ _ _ _ Hi Hn) as [[<- ->]|[Hne Hj]];
        [cbn [holds]; try tauto; try (split; [discriminate|intros E; inversion E]); try (split; auto; fail)
        |specialize (Hl j t Hj)]
      end;
      try (match goal with E : sc_lock s = _ |- _ => rewrite E in * end);
      try tauto;
      try (destruct Hli as [Hli _]; specialize (Hli eq_refl); rewrite Hli in Hl;
           split; [intros Hx; apply Hl in Hx; inversion Hx; congruence|discriminate]);
      try (split; [intros Hx; apply Hl in Hx; discriminate|intros Hx; inversion Hx; congruence]).
  - ycases H; auto. rewrite Hg. reflexivity.
  - intros p. specialize (Ho p). ycases H; auto;
      match goal with Hn : nth_error (sc_threads s) ?i = Some ?t |- context [yupd (sc_threads s) ?i ?t'] =>
        pose proof (ysum_upd p (sc_threads s) i t t' Hn) as Hc end;
      unfold cnt_in in *; cbn [y_pending tl count_occ] in *; rewrite ?count_occ_app in *; cbn [count_occ] in *;
      try (match goal with |- context [Nat.eq_dec ?a ?b] => destruct (Nat.eq_dec a b) end); try lia;
      try (match goal with Hx : context [Nat.eq_dec ?a ?b] |- _ => destruct (Nat.eq_dec a b) end); lia.
Qed.

Theorem sinv_run sched : forall s, SInv s -> SInv (sc_run s sched).
Proof.
  induction sched as [|e r IH]; intros s Hi; cbn [sc_run]; [exact Hi|].
  destruct (sc_step s e) as [s'|] eqn:E; [apply IH; eapply sinv_step; eauto|apply IH; exact Hi].
Qed.

Lemma nodup_nat_spec l : nodup_nat l = true -> NoDup l.
Proof.
  induction l as [|x r IH]; cbn; [constructor|]. rewrite andb_true_iff, negb_true_iff. intros [Hx Hr].
  constructor; [|apply IH; exact Hr]. intros Hin.
  assert (existsb (Nat.eqb x) r = true) by (apply existsb_exists; exists x; split; [exact Hin|apply Nat.eqb_refl]). congruence.
Qed.

Lemma ysum_flat p l : ysum p l = cnt_in p (flat_map y_pending l).
Proof. induction l as [|a l IH]; cbn; [reflexivity|]. unfold cnt_in in *. rewrite count_occ_app, IH. reflexivity. Qed.

Theorem sinv_init ths : sc_wf ths = true -> SInv (sc_init ths).
Proof.
  unfold sc_wf. rewrite andb_true_iff. intros [Hs Hn]. rewrite forallb_forall in Hs. constructor; cbn [sc_init sc_lock sc_tlog sc_accepted sc_threads].
  - intros j t Hj. specialize (Hs t (nth_error_In _ _ Hj)). destruct t as [? [] [|]|]; cbn in *; try discriminate; split; discriminate.
  - reflexivity.
  - intros p. rewrite ysum_flat. unfold cnt_in. cbn [count_occ]. apply (proj1 (NoDup_count_occ Nat.eq_dec _) (nodup_nat_spec _ Hn)).
Qed.

(* mutual exclusion of whole calls; the transport log is exactly the accepted payloads, each at most once *)
Theorem sync_correct ths sched : sc_wf ths = true ->
  let s := sc_run (sc_init ths) sched in
  SInv s /\ (forall p, In p (sc_tlog s) -> In p (sc_accepted s)) /\ NoDup (sc_tlog s).
Proof.
  intros Hw s. assert (Hi : SInv s) by (apply sinv_run, sinv_init; exact Hw).
  split; [exact Hi|]. split.
  - intros p Hp. rewrite <- (S_log s Hi). exact Hp.
  - apply (NoDup_count_occ Nat.eq_dec). intros p. pose proof (S_once s Hi p). unfold cnt_in in *. lia.
Qed.

(* at most one writer is inside transport.Write/Flush at any time *)
Theorem sync_mutex s i j ti tj : SInv s -> nth_error (sc_threads s) i = Some ti -> nth_error (sc_threads s) j = Some tj ->
  holds ti = true -> holds tj = true -> i = j.
Proof.
  intros Hi Hni Hnj Hhi Hhj. apply (S_lock s Hi i ti Hni) in Hhi. apply (S_lock s Hi j tj Hnj) in Hhj. congruence.
Qed.


(* Proofs about the TRANSLATED integer functions of pmath.go (Gen/PMath.v). *)
From Coq Require Import ZArith Lia Bool.
From GN Require Import Base.GoInt Gen.PMath.
Open Scope Z_scope.

Definition pow2 (n : Z) : Prop := exists k, 0 <= k /\ n = 2 ^ k.

(* ---------- fillBits: the shift-or cascade fills every bit below the top ---------- *)
Definition stepd (d m : Z) := Z.lor m (Z.shiftr m d).
Definition cover (n d m : Z) : Prop :=
  forall k, 0 <= k -> (Z.testbit m k = true <-> exists j, k <= j < k + d /\ Z.testbit n j = true).

Lemma cover_1 n : cover n 1 n.
Proof.
  intros k Hk; split.
  - intros H. exists k. split; [lia|exact H].
  - intros [j [Hj H]]. replace k with j by lia. exact H.
Qed.

Lemma cover_step n d m : 0 < d -> cover n d m -> cover n (2 * d) (stepd d m).
Proof.
  intros Hd C k Hk. unfold stepd. rewrite Z.lor_spec, Z.shiftr_spec by lia. rewrite orb_true_iff.
  rewrite (C k Hk), (C (k + d)) by lia. split.
  - intros [[j [Hj H]]|[j [Hj H]]]; exists j; split; auto; lia.
  - intros [j [Hj H]]. destruct (Z_lt_le_dec j (k + d)); [left|right]; exists j; split; auto; lia.
Qed.

Lemma fillBits_cascade n :
  fillBits n = stepd 32 (stepd 16 (stepd 8 (stepd 4 (stepd 2 (stepd 1 n))))).
Proof. reflexivity. Qed.

Lemma cover_fill n : cover n 64 (fillBits n).
Proof.
  rewrite fillBits_cascade.
  pose proof (cover_1 n) as C.
  apply (cover_step n 1) in C; [|lia]. apply (cover_step n 2) in C; [|lia].
  apply (cover_step n 4) in C; [|lia]. apply (cover_step n 8) in C; [|lia].
  apply (cover_step n 16) in C; [|lia]. apply (cover_step n 32) in C; [|lia].
  exact C.
Qed.

Theorem fillBits_spec n : 0 < n < 2 ^ 63 -> fillBits n = 2 ^ (Z.log2 n + 1) - 1.
Proof.
  intros Hn.
  pose proof (Z.log2_nonneg n) as HL0.
  assert (HL : Z.log2 n < 63) by (apply Z.log2_lt_pow2; lia).
  replace (2 ^ (Z.log2 n + 1) - 1) with (Z.ones (Z.log2 n + 1)) by (rewrite Z.ones_equiv; lia).
  apply Z.bits_inj'. intros k Hk.
  destruct (Z.testbit (fillBits n) k) eqn:E.
  - apply (cover_fill n k Hk) in E. destruct E as [j [Hj H]].
    symmetry. apply Z.ones_spec_low. split; [lia|].
    destruct (Z_lt_le_dec (Z.log2 n) j) as [Hlt|Hle]; [|lia].
    rewrite Z.bits_above_log2 in H by lia. discriminate.
  - symmetry. destruct (Z_lt_le_dec k (Z.log2 n + 1)) as [Hlt|Hle].
    + exfalso. assert (Z.testbit (fillBits n) k = true); [|congruence].
      apply (cover_fill n k Hk). exists (Z.log2 n). split; [lia|]. apply Z.bit_log2. lia.
    + apply Z.ones_spec_high. lia.
Qed.

(* ---------- helper facts on powers of two ---------- *)
Lemma pow2_pos n : pow2 n -> 0 < n.
Proof. intros [k [Hk ->]]. apply Z.pow_pos_nonneg; lia. Qed.

Lemma pow2_le_divide a b : pow2 a -> pow2 b -> a <= b -> (a | b).
Proof.
  intros [i [Hi ->]] [j [Hj ->]] Hle.
  assert (i <= j) by (apply (Z.pow_le_mono_r_iff 2); lia).
  exists (2 ^ (j - i)). rewrite <- Z.pow_add_r by lia. f_equal. lia.
Qed.

Lemma log2_pred_pow2 n : 2 < n -> 2 ^ Z.log2 (n - 1) < n <= 2 ^ (Z.log2 (n - 1) + 1).
Proof.
  intros Hn. pose proof (Z.log2_spec (n - 1) ltac:(lia)) as [H1 H2].
  replace (Z.succ (Z.log2 (n - 1))) with (Z.log2 (n - 1) + 1) in H2 by lia. lia.
Qed.

(* ---------- IsPowerOfTwo ---------- *)
Lemma IsPowerOfTwo_unfold n : IsPowerOfTwo n = Z.eqb (Z.land n (wrap64 (n - 1))) 0.
Proof. reflexivity. Qed.

Lemma IsPowerOfTwo_pos_pow2 n : 0 < n < 2 ^ 63 -> IsPowerOfTwo n = true -> pow2 n.
Proof.
  intros Hn H. rewrite IsPowerOfTwo_unfold in H.
  rewrite wrap64_id in H by (unfold in64, two63; lia).
  apply Z.eqb_eq in H.
  set (k := Z.log2 n). pose proof (Z.log2_nonneg n) as Hk0.
  pose proof (Z.log2_spec n ltac:(lia)) as [Hlo Hhi]. fold k in Hlo, Hhi.
  exists k. split; [exact Hk0|].
  destruct (Z_lt_le_dec (n - 1) (2 ^ k)) as [Hlt|Hge]; [lia|]. exfalso.
  assert (Hb : Z.testbit (Z.land n (n - 1)) k = true).
  { rewrite Z.land_spec.
    assert (Hk1 : Z.log2 (n - 1) = k) by (apply Z.log2_unique; lia).
    rewrite <- Hk1 at 2. rewrite (Z.bit_log2 (n - 1)) by lia.
    unfold k. rewrite (Z.bit_log2 n) by lia. reflexivity. }
  rewrite H in Hb. rewrite Z.bits_0 in Hb. discriminate.
Qed.

Lemma pow2_IsPowerOfTwo n : pow2 n -> n < 2 ^ 63 -> IsPowerOfTwo n = true.
Proof.
  intros [k [Hk ->]] Hlt. rewrite IsPowerOfTwo_unfold.
  assert (0 < 2 ^ k) by (apply Z.pow_pos_nonneg; lia).
  rewrite wrap64_id by (unfold in64, two63; lia).
  apply Z.eqb_eq. apply Z.bits_inj'. intros i Hi. rewrite Z.land_spec, Z.bits_0.
  destruct (Z.eq_dec i k) as [->|Hne].
  - replace (2 ^ k - 1) with (Z.ones k) by (rewrite Z.ones_equiv; lia).
    rewrite Z.ones_spec_high by lia. apply andb_false_r.
  - rewrite Z.pow2_bits_eqb by lia. destruct (Z.eqb_spec k i); [lia|]. reflexivity.
Qed.

(* ---------- CeilToPowerOfTwo ---------- *)
Lemma headbit_clear n : 0 <= n < 2 ^ 62 -> Z.land n c_maxintHeadBit = 0.
Proof.
  intros Hn. apply Z.bits_inj'. intros i Hi. rewrite Z.land_spec, Z.bits_0.
  change c_maxintHeadBit with (2 ^ 62). rewrite Z.pow2_bits_eqb by lia.
  destruct (Z.eqb_spec 62 i) as [<-|]; [|apply andb_false_r].
  destruct (Z.eq_dec n 0) as [->|]; [rewrite Z.bits_0; reflexivity|].
  rewrite Z.bits_above_log2; [reflexivity|lia|]. apply Z.log2_lt_pow2; lia.
Qed.

Lemma headbit_set n : 2 ^ 62 <= n < 2 ^ 63 -> Z.land n c_maxintHeadBit <> 0.
Proof.
  intros Hn E. assert (Hb : Z.testbit (Z.land n c_maxintHeadBit) 62 = true).
  { rewrite Z.land_spec. change c_maxintHeadBit with (2 ^ 62). rewrite Z.pow2_bits_true by lia.
    assert (Z.log2 n = 62) as <- by (apply Z.log2_unique; lia).
    rewrite Z.bit_log2 by lia. reflexivity. }
  rewrite E, Z.bits_0 in Hb. discriminate.
Qed.

Lemma ceil_small n : n <= 2 -> CeilToPowerOfTwo n = Some n.
Proof.
  intros Hn. unfold CeilToPowerOfTwo.
  replace (Z.ltb c_maxintHeadBit n) with false by (symmetry; apply Z.ltb_ge; unfold c_maxintHeadBit; lia).
  rewrite andb_false_r. replace (Z.leb n 2) with true by (symmetry; apply Z.leb_le; lia). reflexivity.
Qed.

Lemma ceil_big n : 2 < n <= 2 ^ 62 ->
  CeilToPowerOfTwo n = Some (2 ^ (Z.log2 (n - 1) + 1)).
Proof.
  intros Hn. unfold CeilToPowerOfTwo.
  replace (Z.ltb c_maxintHeadBit n) with false by (symmetry; apply Z.ltb_ge; unfold c_maxintHeadBit; lia).
  rewrite andb_false_r. replace (Z.leb n 2) with false by (symmetry; apply Z.leb_gt; lia).
  cbv zeta. unfold g_sub, g_add.
  rewrite (wrap64_id (n - 1)) by (unfold in64, two63; lia).
  rewrite fillBits_spec by lia.
  assert (Z.log2 (n - 1) < 62) by (apply Z.log2_lt_pow2; lia).
  pose proof (Z.log2_nonneg (n - 1)).
  assert (2 ^ (Z.log2 (n - 1) + 1) <= 2 ^ 62) by (apply Z.pow_le_mono_r; lia).
  assert (0 < 2 ^ (Z.log2 (n - 1) + 1)) by (apply Z.pow_pos_nonneg; lia).
  rewrite wrap64_id by (unfold in64, two63; lia). f_equal. lia.
Qed.

Theorem ceil_spec n : 1 <= n <= 2 ^ 62 ->
  exists c, CeilToPowerOfTwo n = Some c /\ pow2 c /\ n <= c < 2 * n.
Proof.
  intros Hn. destruct (Z_le_gt_dec n 2) as [Hs|Hb].
  - exists n. split; [apply ceil_small; lia|]. split; [|lia].
    assert (n = 1 \/ n = 2) as [->| ->] by lia; [exists 0|exists 1]; split; lia.
  - exists (2 ^ (Z.log2 (n - 1) + 1)). split; [apply ceil_big; lia|].
    pose proof (Z.log2_nonneg (n - 1)). split; [eexists; split; [|reflexivity]; lia|].
    pose proof (log2_pred_pow2 n ltac:(lia)) as [H1 H2]. split; [lia|].
    rewrite Z.pow_add_r by lia. change (2 ^ 1) with 2. lia.
Qed.

Theorem ceil_panics n : 2 ^ 62 < n < 2 ^ 63 -> CeilToPowerOfTwo n = None.
Proof.
  intros Hn. unfold CeilToPowerOfTwo. unfold g_and.
  destruct (Z.eqb_spec (Z.land n c_maxintHeadBit) 0) as [E|_].
  - exfalso. revert E. apply headbit_set. lia.
  - replace (Z.ltb c_maxintHeadBit n) with true by (symmetry; apply Z.ltb_lt; unfold c_maxintHeadBit; lia).
    reflexivity.
Qed.

Theorem ceil_nonpos n : - 2 ^ 63 <= n <= 0 -> CeilToPowerOfTwo n = Some n.
Proof. intros Hn. apply ceil_small. lia. Qed.

(* ---------- FloorToPowerOfTwo ---------- *)
Theorem floor_spec n : 1 <= n < 2 ^ 63 ->
  pow2 (FloorToPowerOfTwo n) /\ FloorToPowerOfTwo n <= n < 2 * FloorToPowerOfTwo n.
Proof.
  intros Hn. unfold FloorToPowerOfTwo. destruct (Z.leb_spec n 2) as [Hs|Hb].
  - assert (n = 1 \/ n = 2) as [->| ->] by lia; (split; [|lia]); [exists 0|exists 1]; split; lia.
  - cbv zeta. rewrite fillBits_spec by lia. unfold g_shr, g_add.
    pose proof (Z.log2_nonneg n) as H0.
    assert (HL : Z.log2 n < 63) by (apply Z.log2_lt_pow2; lia).
    pose proof (Z.log2_spec n ltac:(lia)) as [Hlo Hhi].
    assert (Hs : Z.shiftr (2 ^ (Z.log2 n + 1) - 1) 1 = 2 ^ Z.log2 n - 1).
    { rewrite Z.shiftr_div_pow2 by lia. change (2 ^ 1) with 2.
      rewrite Z.pow_add_r by lia. change (2 ^ 1) with 2.
      assert (0 < 2 ^ Z.log2 n) by (apply Z.pow_pos_nonneg; lia).
      symmetry. apply (Z.div_unique _ 2 _ 1); lia. }
    rewrite Hs.
    assert (2 ^ Z.log2 n < 2 ^ 63) by (apply Z.pow_lt_mono_r; lia).
    rewrite wrap64_id by (unfold in64, two63; lia).
    replace (2 ^ Z.log2 n - 1 + 1) with (2 ^ Z.log2 n) by lia.
    split; [exists (Z.log2 n); split; [lia|reflexivity]|].
    replace (Z.succ (Z.log2 n)) with (Z.log2 n + 1) in Hhi by lia.
    rewrite Z.pow_add_r in Hhi by lia. change (2 ^ 1) with 2 in Hhi. lia.
Qed.

(* Max / Min *)
Lemma Max_spec a b : Max a b = Z.max a b.
Proof. unfold Max. destruct (Z.ltb_spec a b); lia. Qed.
Lemma Min_spec a b : Min a b = Z.min a b.
Proof. unfold Min. destruct (Z.ltb_spec a b); lia. Qed.

(* Fragmentation independence of the io.Reader operations (Base/Reader.v):
   what ReadFull / ReadByte / ReadAll return depends only on `contents`, not on
   how the stream is cut into reads. *)
From Coq Require Import ZArith List Bool Lia.
From GN Require Import Base.Reader.
Import ListNotations.
Open Scope Z_scope.

Lemma blen_app a b : blen (a ++ b) = blen a + blen b.
Proof. unfold blen. rewrite app_length. lia. Qed.
Lemma blen_nonneg a : 0 <= blen a. Proof. unfold blen. lia. Qed.
Lemma blen_nil : blen [] = 0. Proof. reflexivity. Qed.
Lemma blen_0 a : blen a = 0 -> a = [].
Proof. destruct a; [reflexivity|unfold blen; simpl; lia]. Qed.
Lemma btake_bdrop n l : btake n l ++ bdrop n l = l.
Proof. apply firstn_skipn. Qed.
Lemma blen_btake n l : 0 <= n <= blen l -> blen (btake n l) = n.
Proof. unfold blen, btake. intros H. rewrite firstn_length. lia. Qed.
Lemma btake_app_exact a b : btake (blen a) (a ++ b) = a.
Proof.
  unfold btake, blen. rewrite Nat2Z.id. rewrite firstn_app, Nat.sub_diag, firstn_all. simpl.
  apply app_nil_r.
Qed.
Lemma bdrop_app_exact a b : bdrop (blen a) (a ++ b) = b.
Proof.
  unfold bdrop, blen. rewrite Nat2Z.id. rewrite skipn_app, Nat.sub_diag, skipn_all. reflexivity.
Qed.

Lemma app_eq_prefix (a b c d : bytes) : a ++ b = c ++ d -> (length c <= length a)%nat ->
  exists t, a = c ++ t /\ d = t ++ b.
Proof.
  revert c. induction a as [|x a IH]; intros [|y c] H Hl; simpl in *.
  - exists []. split; [reflexivity|]. simpl. symmetry. exact H.
  - lia.
  - exists (x :: a). split; [reflexivity|]. simpl. symmetry. exact H.
  - inversion H; subst. destruct (IH c H2 ltac:(lia)) as [t [-> ->]]. exists t. split; reflexivity.
Qed.

Lemma fits_spec n c : 0 <= n -> fits n c = (blen c <=? n).
Proof.
  intros Hn. unfold fits, bdrop, blen. destruct (skipn (Z.to_nat n) c) eqn:E.
  - symmetry. apply Z.leb_le. destruct (le_lt_dec (length c) (Z.to_nat n)) as [H|H]; [lia|].
    exfalso. assert (Hl : length (skipn (Z.to_nat n) c) = (length c - Z.to_nat n)%nat) by apply skipn_length.
    rewrite E in Hl. cbn in Hl. lia.
  - symmetry. apply Z.leb_gt. destruct (le_lt_dec (length c) (Z.to_nat n)) as [H|H]; [|lia].
    rewrite skipn_all2 in E by lia. discriminate.
Qed.

(* ---- one read ---- *)
Lemma read_spec n r bs st r' : 1 <= n -> read n r = (bs, st, r') ->
  contents r = bs ++ contents r' /\ blen bs <= n /\ st <> RUEOF /\
  (st = ROk -> (mu r' < mu r)%nat) /\ (st <> ROk -> contents r' = []) /\
  (plain r = true -> plain r' = true /\ (st <> ROk -> bs = [])).
Proof.
  intros Hn. unfold read, mu, contents, plain. destruct r as [cs f]. cbn [chunks final].
  destruct cs as [|c cs].
  - destruct f as [|d|].
    + intros H; inversion H; subst. cbn. repeat split; try congruence; auto. lia.
    + rewrite fits_spec by lia; destruct (Z.leb_spec (blen d) n) as [Hle|Hgt]; intros H; inversion H; subst; cbn [chunks final concat fin_data app].
      * repeat split; try congruence; auto. rewrite app_nil_r. reflexivity.
      * assert (Hb : blen (btake n d) = n) by (apply blen_btake; lia).
        repeat split; try congruence; try lia.
        -- rewrite btake_bdrop. reflexivity.
        -- intros _. cbn [length]. unfold bdrop. rewrite skipn_length. unfold blen in Hgt. lia.
    + intros H; inversion H; subst. cbn. repeat split; try congruence; auto. lia.
  - rewrite fits_spec by lia; destruct (Z.leb_spec (blen c) n) as [Hle|Hgt]; intros H; inversion H; subst; cbn [chunks final concat].
    + repeat split; try congruence; auto.
      * rewrite <- app_assoc. reflexivity.
      * intros _. cbn [length]. rewrite !app_length. lia.
    + assert (Hb : blen (btake n c) = n) by (apply blen_btake; lia).
      repeat split; try congruence; try lia.
      * rewrite <- !app_assoc. rewrite (app_assoc (btake n c)), btake_bdrop. reflexivity.
      * intros _. cbn [length]. rewrite !app_length. unfold bdrop. rewrite skipn_length. unfold blen in Hgt. lia.
Qed.

Lemma read_empty_ok n r r' : 1 <= n -> read n r = ([], ROk, r') ->
  (length (chunks r') < length (chunks r))%nat /\ contents r' = contents r.
Proof.
  intros Hn. unfold read, contents. destruct r as [cs f]. cbn [chunks final].
  destruct cs as [|c cs].
  - destruct f as [|d|]; try discriminate.
    rewrite fits_spec by lia; destruct (Z.leb_spec (blen d) n) as [Hle|Hgt]; [discriminate|]. intros H; inversion H.
    exfalso. assert (Hb : blen (btake n d) = n) by (apply blen_btake; lia).
    match goal with E : btake n d = [] |- _ => rewrite E, blen_nil in Hb end. lia.
  - rewrite fits_spec by lia; destruct (Z.leb_spec (blen c) n) as [Hle|Hgt]; intros H; inversion H; subst; cbn [chunks final length concat app].
    + split; [lia|reflexivity].
    + exfalso. assert (Hb : blen (btake n c) = n) by (apply blen_btake; lia).
      match goal with E : btake n c = [] |- _ => rewrite E, blen_nil in Hb end. lia.
Qed.

(* ---- ReadFull ---- *)
Lemma read_full_aux_ok fuel : forall n acc r a b,
  contents r = a ++ b -> blen acc + blen a = n -> (mu r < fuel)%nat ->
  exists r', read_full_aux fuel n acc r = (acc ++ a, ROk, r') /\ contents r' = b /\
             (plain r = true -> plain r' = true).
Proof.
  induction fuel as [|fuel IH]; intros n acc r a b Hc Hl Hf; [lia|].
  cbn [read_full_aux]. destruct (Z.leb_spec n (blen acc)) as [Hle|Hgt].
  - pose proof (blen_nonneg a). assert (a = []) by (apply blen_0; lia). subst.
    rewrite app_nil_r. exists r. auto.
  - destruct (read (n - blen acc) r) as [[bs st] r1] eqn:R.
    assert (Hn1 : 1 <= n - blen acc) by lia.
    destruct (read_spec _ _ _ _ _ Hn1 R) as [Hc1 [Hb [Hnu [Hmu [Hnok Hpl]]]]].
    rewrite Hc in Hc1.
    assert (Hlen : (length bs <= length a)%nat) by (unfold blen in *; lia).
    destruct (app_eq_prefix _ _ _ _ Hc1 Hlen) as [t [Ha Hr1]].
    destruct st.
    + destruct (IH n (acc ++ bs) r1 t b Hr1) as [r' [E [Hc' Hp']]].
      * rewrite blen_app. subst a. rewrite blen_app in Hl. lia.
      * specialize (Hmu eq_refl). lia.
      * exists r'. rewrite E. subst a. rewrite app_assoc. split; [reflexivity|]. split; [exact Hc'|].
        intros Hp. apply Hp'. apply Hpl. exact Hp.
    + rewrite (Hnok ltac:(congruence)) in Hr1. symmetry in Hr1. apply app_eq_nil in Hr1 as [-> ->].
      rewrite app_nil_r in Ha. subst bs.
      destruct (Z.leb_spec n (blen (acc ++ a))) as [_|Hbad]; [|rewrite blen_app in Hbad; lia].
      exists r1. split; [reflexivity|]. split; [apply Hnok; congruence|]. intros Hp. apply Hpl. exact Hp.
    + congruence.
    + rewrite (Hnok ltac:(congruence)) in Hr1. symmetry in Hr1. apply app_eq_nil in Hr1 as [-> ->].
      rewrite app_nil_r in Ha. subst bs.
      destruct (Z.leb_spec n (blen (acc ++ a))) as [_|Hbad]; [|rewrite blen_app in Hbad; lia].
      exists r1. split; [reflexivity|]. split; [apply Hnok; congruence|]. intros Hp. apply Hpl. exact Hp.
Qed.

(* if the stream still holds n bytes, ReadFull returns exactly the next n,
   whatever the fragmentation *)
Theorem read_full_ok n r a b : contents r = a ++ b -> blen a = n ->
  exists r', read_full n r = (a, ROk, r') /\ contents r' = b /\ (plain r = true -> plain r' = true).
Proof.
  intros Hc Hl. unfold read_full.
  destruct (read_full_aux_ok (S (mu r)) n [] r a b Hc) as [r' H]; [rewrite blen_nil; lia|lia|].
  exists r'. exact H.
Qed.

(* whenever ReadFull reports success it returned exactly the next n bytes of
   the stream (any script, any final behaviour) *)
Lemma read_full_aux_inv fuel : forall n acc r bs r',
  (mu r < fuel)%nat -> blen acc <= n -> read_full_aux fuel n acc r = (bs, ROk, r') ->
  exists got, bs = acc ++ got /\ contents r = got ++ contents r' /\ blen bs = n.
Proof.
  induction fuel as [|fuel IH]; intros n acc r bs r' Hf Hacc; [lia|].
  cbn [read_full_aux]. destruct (Z.leb_spec n (blen acc)) as [Hle|Hgt].
  - intros H; inversion H; subst. exists []. rewrite app_nil_r. repeat split; auto. lia.
  - destruct (read (n - blen acc) r) as [[b1 st1] r1] eqn:R.
    assert (Hn1 : 1 <= n - blen acc) by lia.
    destruct (read_spec _ _ _ _ _ Hn1 R) as [Hc1 [Hb [Hnu [Hmu [Hnok _]]]]].
    destruct st1.
    + intros H. destruct (IH n (acc ++ b1) r1 bs r') as [got [Hbs [Hc Hl]]]; auto.
      * specialize (Hmu eq_refl). lia.
      * rewrite blen_app. lia.
      * exists (b1 ++ got). rewrite app_assoc. split; [exact Hbs|]. split; [|exact Hl].
        rewrite Hc1, Hc, app_assoc. reflexivity.
    + rewrite blen_app. destruct (Z.leb_spec n (blen acc + blen b1)) as [Hq|Hq].
      * intros H; inversion H; subst. exists b1. repeat split; auto. rewrite blen_app. lia.
      * destruct (Z.eqb (blen acc + blen b1) 0); intros H; inversion H.
    + congruence.
    + rewrite blen_app. destruct (Z.leb_spec n (blen acc + blen b1)) as [Hq|Hq].
      * intros H; inversion H; subst. exists b1. repeat split; auto. rewrite blen_app. lia.
      * intros H; inversion H.
Qed.

Theorem read_full_inv n r bs r' : 0 <= n -> read_full n r = (bs, ROk, r') ->
  contents r = bs ++ contents r' /\ blen bs = n.
Proof.
  unfold read_full. intros Hn H.
  assert (H1 : (mu r < S (mu r))%nat) by lia.
  assert (H2 : blen [] <= n) by (rewrite blen_nil; lia).
  destruct (read_full_aux_inv _ _ _ _ _ _ H1 H2 H) as [got [-> [Hc Hl]]].
  split; [exact Hc|exact Hl].
Qed.

(* ---- ReadByte ---- *)
Lemma read_byte_aux_ok fuel : forall r x b, contents r = x :: b -> (length (chunks r) < fuel)%nat ->
  exists r', read_byte_aux fuel r = (Some x, ROk, r') /\ contents r' = b /\ (plain r = true -> plain r' = true).
Proof.
  induction fuel as [|fuel IH]; intros r x b Hc Hf; [lia|].
  cbn [read_byte_aux]. destruct (read 1 r) as [[bs st] r1] eqn:R.
  destruct (read_spec 1 _ _ _ _ ltac:(lia) R) as [Hc1 [Hb [Hnu [Hmu [Hnok Hpl]]]]].
  destruct bs as [|y bs].
  - cbn [app] in Hc1. destruct st.
    + destruct (read_empty_ok 1 _ _ ltac:(lia) R) as [Hlt _].
      destruct (IH r1 x b) as [r' [E [Hc' Hp']]]; [congruence|lia|].
      exists r'. split; [exact E|]. split; [exact Hc'|]. intros Hp. apply Hp', Hpl, Hp.
    + rewrite (Hnok ltac:(congruence)) in Hc1. congruence.
    + congruence.
    + rewrite (Hnok ltac:(congruence)) in Hc1. congruence.
  - assert (bs = []) by (apply blen_0; unfold blen in *; cbn [length] in Hb; lia). subst bs.
    rewrite Hc in Hc1. inversion Hc1; subst. exists r1. split; [reflexivity|]. split; [reflexivity|].
    intros Hp. apply Hpl, Hp.
Qed.

Theorem read_byte_ok r x b : contents r = x :: b ->
  exists r', read_byte r = (Some x, ROk, r') /\ contents r' = b /\ (plain r = true -> plain r' = true).
Proof. intros Hc. apply read_byte_aux_ok; [exact Hc|lia]. Qed.

Lemma read_byte_aux_end fuel : forall r, contents r = [] -> (length (chunks r) < fuel)%nat ->
  exists st r', read_byte_aux fuel r = (None, st, r') /\ st <> ROk /\ contents r' = [].
Proof.
  induction fuel as [|fuel IH]; intros r Hc Hf; [lia|].
  cbn [read_byte_aux]. destruct (read 1 r) as [[bs st] r1] eqn:R.
  destruct (read_spec 1 _ _ _ _ ltac:(lia) R) as [Hc1 [Hb [Hnu [Hmu [Hnok Hpl]]]]].
  rewrite Hc in Hc1. symmetry in Hc1. apply app_eq_nil in Hc1 as [-> Hc1].
  destruct st.
  - destruct (read_empty_ok 1 _ _ ltac:(lia) R) as [Hlt _]. apply IH; [exact Hc1|lia].
  - exists REOF, r1. repeat split; auto; congruence.
  - congruence.
  - exists RErr, r1. repeat split; auto; congruence.
Qed.

(* on an exhausted stream ReadByte reports an error and no byte: no phantom data *)
Theorem read_byte_end r : contents r = [] ->
  exists st r', read_byte r = (None, st, r') /\ st <> ROk /\ contents r' = [].
Proof. intros Hc. apply read_byte_aux_end; [exact Hc|lia]. Qed.

(* ---- ReadAll ---- *)
Lemma read_all_aux_ok fuel : forall acc r, (mu r < fuel)%nat ->
  exists st r', read_all_aux fuel acc r = (acc ++ contents r, st, r') /\ contents r' = [] /\
                (final r <> FErr -> st = ROk).
Proof.
  induction fuel as [|fuel IH]; intros acc r Hf; [lia|].
  cbn [read_all_aux]. destruct (read 4096 r) as [[bs st] r1] eqn:R.
  destruct (read_spec 4096 _ _ _ _ ltac:(lia) R) as [Hc1 [Hb [Hnu [Hmu [Hnok Hpl]]]]].
  assert (Hfin : final r <> FErr -> final r1 <> FErr /\ st <> RErr).
  { unfold read in R. destruct r as [cs f]; cbn [chunks final] in *. intros Hne.
    destruct cs as [|c cs]; [destruct f; try congruence|]; try (destruct (fits _ _)); inversion R; subst; cbn;
      split; congruence. }
  destruct st.
  - destruct (IH (acc ++ bs) r1) as [st' [r' [E [Hc' Hst]]]]; [specialize (Hmu eq_refl); lia|].
    exists st', r'. rewrite E, Hc1, app_assoc. split; [reflexivity|]. split; [exact Hc'|].
    intros Hne. apply Hst. apply Hfin. exact Hne.
  - exists ROk, r1. rewrite Hc1, (Hnok ltac:(congruence)), app_nil_r. auto.
  - congruence.
  - exists RErr, r1. rewrite Hc1, (Hnok ltac:(congruence)), app_nil_r. split; [reflexivity|].
    split; [reflexivity|]. intros Hne. exfalso. apply (proj2 (Hfin Hne)). reflexivity.
Qed.

Theorem read_all_ok r : exists st r', read_all r = (contents r, st, r') /\ contents r' = [] /\
  (final r <> FErr -> st = ROk).
Proof. unfold read_all. apply (read_all_aux_ok (S (mu r)) [] r). lia. Qed.

Lemma read_byte_aux_inv fuel : forall r x st r', read_byte_aux fuel r = (Some x, st, r') ->
  contents r = x :: contents r' /\ (mu r' < mu r)%nat.
Proof.
  induction fuel as [|fuel IH]; intros r x st r'; cbn [read_byte_aux]; [discriminate|].
  destruct (read 1 r) as [[bs st1] r1] eqn:R.
  destruct (read_spec 1 _ _ _ _ ltac:(lia) R) as [Hc1 [Hb [Hnu [Hmu [Hnok Hpl]]]]].
  destruct bs as [|y bs].
  - destruct st1; try discriminate. intros H. destruct (IH _ _ _ _ H) as [Hc Hm].
    cbn [app] in Hc1. rewrite Hc1. split; [exact Hc|]. specialize (Hmu eq_refl). lia.
  - intros H; inversion H; subst.
    assert (bs = []) by (apply blen_0; unfold blen in *; cbn [length] in Hb; lia). subst bs.
    split; [exact Hc1|]. unfold mu in *. rewrite Hc1. cbn [length app]. unfold read in R.
    destruct r as [cs f]; cbn [chunks final] in *. unfold contents in *; cbn [chunks final] in *.
    destruct cs as [|c cs].
    + destruct f; try discriminate. destruct (fits _ _); inversion R; subst; cbn; lia.
    + destruct (fits _ _); inversion R; subst; cbn [chunks length]; lia.
Qed.

Theorem read_byte_inv r x st r' : read_byte r = (Some x, st, r') ->
  contents r = x :: contents r' /\ (mu r' < mu r)%nat.
Proof. apply read_byte_aux_inv. Qed.

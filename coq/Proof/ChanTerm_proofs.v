(* C02, "eventually": on an open channel to which nothing else is done (no Close, no cancellation,
   transport accepting writes) every step of writers and senders strictly decreases a lexicographic
   measure: (enqueues still to come, weighted work).  Hence no infinite execution: the channel comes
   to rest, and at rest everything accepted has been written and flushed (Chan2: quiescent_delivered). *)
From Coq Require Import List Arith Bool Lia Wf_nat.
From GN Require Import Model.Chan.
Import ListNotations.

Definition calm_thread (t : thread) : bool :=
  match t with TWriter _ _ _ => true | TSender SRecover _ _ => false | TSender _ _ None => true | TDone => true | _ => false end.
Definition Calm (s : st) : Prop :=
  closed s = false /\ ctx_done s = false /\ tclosed s = 0 /\ forallb calm_thread (threads s) = true.

(* enqueues (or early returns) still to come *)
Definition pending (t : thread) : nat :=
  match t with
  | TWriter calls (WCheck | WSelect) _ => length calls
  | TWriter calls _ _ => length calls - 1
  | _ => 0
  end.
Definition E (s : st) : nat := list_sum (map pending (threads s)).

(* work: nz = the queue is non-empty *)
Definition spot (nz : bool) (pc : spc) (hand : list packet) : nat :=
  if nz then match pc with
            | SStart => 13 | SWritev => 12 | SLen1 => 11 | SFlush => 10 | SRelease => 9 | SRecheck => 8 | SReacq => 7
            | SPoll => 6 | SRecover => 0 end
  else match pc with
       | SStart => 5 | SPoll => match hand with [] => 4 | _ => 6 end | SWritev => 5 | SLen1 => 4 | SFlush => 3
       | SRelease => 2 | SRecheck => 1 | SReacq => 5 | SRecover => 0 end.
Definition wpot (t : thread) (nz : bool) : nat :=
  match t with
  | TWriter calls pc _ => 20 * length calls - match pc with WCheck => 0 | WSelect => 1 | WCas => 2 | WExec => 3 end
  | TSender pc hand _ => spot nz pc hand
  | _ => 0
  end.
Definition nzq (s : st) : bool := match queue s with [] => false | _ => true end.
Definition M (s : st) : nat := 20 * length (queue s) + list_sum (map (fun t => wpot t (nzq s)) (threads s)).

Definition lexlt (s' s : st) : Prop := E s' < E s \/ (E s' = E s /\ M s' < M s).

Lemma sum_upd {A} (f : A -> nat) (l : list A) : forall i t t', nth_error l i = Some t ->
  list_sum (map f (upd l i t')) + f t = list_sum (map f l) + f t'.
Proof.
  induction l as [|h r IH]; intros [|i] t t' Hn; cbn in Hn; try discriminate.
  - inversion Hn; subst. unfold list_sum. cbn [upd map fold_right]. lia.
  - unfold list_sum in *. cbn [upd map fold_right]. specialize (IH i t t' Hn). lia.
Qed.
Lemma sum_app1 {A} (f : A -> nat) l t : list_sum (map f (l ++ [t])) = list_sum (map f l) + f t.
Proof. rewrite map_app, list_sum_app. unfold list_sum. cbn [map fold_right]. lia. Qed.
Lemma sum_mono {A} (f g : A -> nat) l : (forall t, f t <= g t) -> list_sum (map f l) <= list_sum (map g l).
Proof. intros H. induction l as [|h r IH]; unfold list_sum in *; cbn [map fold_right]; [lia|]. specialize (H h). lia. Qed.
Lemma wpot_mono t : wpot t false <= wpot t true.
Proof. destruct t as [c pc r|pc hand cont|pc cs o|]; cbn [wpot]; try lia. destruct pc; cbn [spot]; try lia. destruct hand; lia. Qed.
Lemma wpot_le13 pc hand cont nz : wpot (TSender pc hand cont) nz <= 13.
Proof. cbn [wpot]. destruct nz, pc; cbn [spot]; try lia; destruct hand; lia. Qed.

Lemma forallb_upd (f : thread -> bool) l i t : forallb f l = true -> f t = true -> forallb f (upd l i t) = true.
Proof.
  revert i; induction l as [|h r IH]; intros [|i] Hl Ht; cbn in *; auto;
    apply andb_true_iff in Hl; destruct Hl as [A B]; apply andb_true_iff; split; auto.
Qed.

(* threads-only and queue-only views of the setters *)
Lemma E_set_thr s i t t' : nth_error (threads s) i = Some t -> E (set_thr s i t') + pending t = E s + pending t'.
Proof. intros H. unfold E. cbn [set_thr threads]. apply sum_upd. exact H. Qed.

Definition S_of (nz : bool) (l : list thread) : nat := list_sum (map (fun t => wpot t nz) l).
Lemma M_eq s : M s = 20 * length (queue s) + S_of (nzq s) (threads s). Proof. reflexivity. Qed.
Lemma S_upd nz l i t t' : nth_error l i = Some t -> S_of nz (upd l i t') + wpot t nz = S_of nz l + wpot t' nz.
Proof. intros H. unfold S_of. apply (sum_upd (fun t => wpot t nz)). exact H. Qed.

(* a step that leaves the queue alone and replaces thread i by a cheaper one *)
Lemma lex_same_queue s s' i t t' : nth_error (threads s) i = Some t ->
  threads s' = upd (threads s) i t' -> queue s' = queue s ->
  pending t' = pending t -> wpot t' (nzq s) < wpot t (nzq s) -> lexlt s' s.
Proof.
  intros Hn Ht Hq Hp Hw. right. split.
  - unfold E. rewrite Ht. pose proof (sum_upd pending (threads s) i t t' Hn). lia.
  - rewrite !M_eq. unfold nzq. rewrite Hq, Ht. fold (nzq s). pose proof (S_upd (nzq s) (threads s) i t t' Hn). lia.
Qed.
Lemma lex_less_pending s s' i t t' : nth_error (threads s) i = Some t ->
  threads s' = upd (threads s) i t' -> pending t' < pending t -> lexlt s' s.
Proof.
  intros Hn Ht Hp. left. unfold E. rewrite Ht. pose proof (sum_upd pending (threads s) i t t' Hn). lia.
Qed.

Lemma w_return_calm calls res r : calm_thread (w_return calls res r) = true.
Proof. destruct calls; reflexivity. Qed.
Lemma w_return_pending c rest res r : pending (w_return (c :: rest) res r) = length rest.
Proof. cbn [w_return pending]. reflexivity. Qed.
Lemma w_return_wpot c rest res r nz : wpot (w_return (c :: rest) res r) nz = 20 * length rest.
Proof. cbn [w_return wpot]. lia. Qed.

Ltac calm_goal :=
  match goal with
  | Hc : Calm ?s |- Calm _ =>
      destruct Hc as [? [? [? ?]]]; unfold Calm;
      cbn [closed ctx_done tclosed threads set_thr set_queue set_accepted set_returned set_running set_transport add_thread];
      repeat split; auto; rewrite ?forallb_app; try (apply andb_true_iff; split; [|reflexivity]);
      apply forallb_upd; auto; try reflexivity; try apply w_return_calm
  end.

Theorem calm_step s i ch s' : Calm s -> step s i ch = Some s' -> Calm s' /\ lexlt s' s.
Proof.
  intros Hc H. pose proof Hc as [Hcl [Hcd [Htc Hall]]].
  unfold step in H. destruct (nth_error (threads s) i) as [t|] eqn:Hn; [|discriminate].
  assert (Hct : calm_thread t = true).
  { rewrite forallb_forall in Hall. apply Hall. eapply nth_error_In; eauto. }
  destruct t as [calls pc res|pc hand cont|pc cs outer|]; [| |discriminate|discriminate].
  - (* writer *)
    destruct calls as [|c rest]; [discriminate|]. destruct pc.
    + (* WCheck *)
      unfold closedErr in H. rewrite Hcl, Hcd in H. cbn [orb] in H. inversion H; subst; clear H. split; [calm_goal|].
      eapply (lex_same_queue s _ i); [exact Hn|reflexivity|reflexivity|reflexivity|]. cbn [wpot length]. lia.
    + (* WSelect *)
      destruct (select_pick s c ch) as [[| | |]|] eqn:Ep; inversion H; subst; clear H; (split; [calm_goal|]).
      * eapply (lex_less_pending s _ i); [exact Hn|reflexivity|]. cbn [w_return pending length]. lia.
      * eapply (lex_less_pending s _ i); [exact Hn|reflexivity|]. cbn [pending length]. lia.
      * eapply (lex_less_pending s _ i); [exact Hn|reflexivity|]. cbn [w_return pending length]. lia.
      * eapply (lex_less_pending s _ i); [exact Hn|reflexivity|]. cbn [w_return pending length]. lia.
    + (* WCas *)
      destruct (running s); inversion H; subst; clear H; (split; [calm_goal|]).
      * eapply (lex_same_queue s _ i); [exact Hn|reflexivity|reflexivity| |].
        -- cbn [w_return pending length]. lia.
        -- cbn [w_return wpot length]. lia.
      * eapply (lex_same_queue s _ i); [exact Hn|reflexivity|reflexivity|reflexivity|]. cbn [wpot length]. lia.
    + (* WExec: returns and hands a new sender to the executor *)
      inversion H; subst; clear H. split; [calm_goal|].
      right. split.
      * unfold E. cbn [add_thread set_thr set_returned threads]. rewrite sum_app1.
        pose proof (sum_upd pending (threads s) i _ (w_return (c :: rest) res ROk) Hn) as P.
        cbn [w_return pending length] in *. lia.
      * rewrite !M_eq. cbn [add_thread set_thr set_returned threads queue]. unfold nzq. cbn [add_thread set_thr set_returned queue].
        fold (nzq s). unfold S_of. rewrite sum_app1. fold (S_of (nzq s) (upd (threads s) i (w_return (c :: rest) res ROk))).
        pose proof (S_upd (nzq s) (threads s) i _ (w_return (c :: rest) res ROk) Hn) as P.
        cbn [w_return wpot length] in *.
        pose proof (wpot_le13 SStart [] None (nzq s)) as Q. cbn [wpot] in Q. unfold S_of in *. lia.
  - (* sender *)
    destruct cont as [cs|]; [destruct pc; discriminate|]. destruct pc; [| | | | | | | |discriminate].
    + (* SStart *) inversion H; subst; clear H. split; [calm_goal|].
      eapply (lex_same_queue s _ i); [exact Hn|reflexivity|reflexivity|reflexivity|]. cbn [wpot]. destruct (nzq s); cbn [spot]; lia.
    + (* SPoll *)
      destruct (queue s) as [|p q] eqn:Eq.
      * inversion H; subst; clear H. split; [calm_goal; destruct hand; reflexivity|].
        eapply (lex_same_queue s _ i); [exact Hn|reflexivity|reflexivity|reflexivity|]. unfold nzq. rewrite Eq. destruct hand; cbn [wpot spot]; lia.
      * (* consume one packet *)
        inversion H; subst; clear H. split; [calm_goal; destruct (_ <? _); reflexivity|].
        right. split.
        -- unfold E. cbn [set_thr set_queue threads].
           pose proof (sum_upd pending (threads s) i _ (TSender (if length (hand ++ [p]) <? batch_cap s then SPoll else SWritev) (hand ++ [p]) None) Hn) as P.
           cbn [pending] in P. lia.
        -- rewrite !M_eq. cbn [set_thr set_queue threads queue]. unfold nzq. cbn [set_thr set_queue queue]. rewrite Eq.
           set (nz' := match q with [] => false | _ => true end).
           set (t' := TSender (if length (hand ++ [p]) <? batch_cap s then SPoll else SWritev) (hand ++ [p]) None).
           pose proof (S_upd nz' (threads s) i _ t' Hn) as P.
           assert (Hm : S_of nz' (threads s) <= S_of true (threads s)).
           { unfold S_of. destruct nz'; [lia|]. apply sum_mono. intros t0. apply wpot_mono. }
           assert (Ht' : wpot t' nz' <= 13) by (subst t'; apply wpot_le13).
           cbn [length]. lia.
    + (* SWritev *)
      rewrite Htc in H. cbn in H. inversion H; subst; clear H. split; [calm_goal|].
      eapply (lex_same_queue s _ i); [exact Hn|reflexivity|reflexivity|reflexivity|]. cbn [wpot]. destruct (nzq s); cbn [spot]; lia.
    + (* SLen1 *)
      inversion H; subst; clear H. split; [calm_goal; destruct (queue s); reflexivity|].
      eapply (lex_same_queue s _ i); [exact Hn|reflexivity|reflexivity|reflexivity|]. unfold nzq. destruct (queue s); cbn [wpot spot]; lia.
    + (* SFlush *)
      rewrite Htc in H. cbn in H. inversion H; subst; clear H. split; [calm_goal|].
      eapply (lex_same_queue s _ i); [exact Hn|reflexivity|reflexivity|reflexivity|]. cbn [wpot]. destruct (nzq s); cbn [spot]; lia.
    + (* SRelease *)
      inversion H; subst; clear H. split; [calm_goal|].
      eapply (lex_same_queue s _ i); [exact Hn|reflexivity|reflexivity|reflexivity|]. cbn [wpot]. destruct (nzq s); cbn [spot]; lia.
    + (* SRecheck *)
      destruct (queue s) as [|p q] eqn:Eq; inversion H; subst; clear H; (split; [calm_goal|]).
      * eapply (lex_same_queue s _ i); [exact Hn|reflexivity|reflexivity|reflexivity|]. unfold nzq. rewrite Eq. cbn [s_finish wpot spot]. lia.
      * eapply (lex_same_queue s _ i); [exact Hn|reflexivity|reflexivity|reflexivity|]. unfold nzq. rewrite Eq. cbn [wpot spot]. lia.
    + (* SReacq *)
      destruct (running s); inversion H; subst; clear H; (split; [calm_goal|]).
      * eapply (lex_same_queue s _ i); [exact Hn|reflexivity|reflexivity|reflexivity|]. cbn [s_finish wpot]. destruct (nzq s); cbn [spot]; lia.
      * eapply (lex_same_queue s _ i); [exact Hn|reflexivity|reflexivity|reflexivity|]. cbn [wpot]. destruct (nzq s); cbn [spot]; lia.
Qed.

(* ---------------- no infinite execution ---------------- *)
Definition cstep (s' s : st) : Prop := Calm s /\ exists i ch, step s i ch = Some s'.

Lemma acc_aux : forall e m s, E s = e -> M s = m -> Acc cstep s.
Proof.
  induction e as [e IHe] using (well_founded_induction lt_wf).
  induction m as [m IHm] using (well_founded_induction lt_wf).
  intros s He Hm. constructor. intros s' [Hc [i [ch Hs]]].
  destruct (calm_step s i ch s' Hc Hs) as [_ [Hlt|[Heq Hlt]]].
  - apply (IHe (E s') ltac:(lia) (M s') s' eq_refl eq_refl).
  - apply (IHm (M s') ltac:(lia) s'); [lia|reflexivity].
Qed.
Theorem calm_terminates : forall s, Acc cstep s.
Proof. intros s. eapply acc_aux; reflexivity. Qed.

(* calm states: runs of writers (and the senders they start) on an open channel *)
Definition writer_thread (t : thread) : bool := match t with TWriter _ _ _ => true | _ => false end.
Lemma calm_init qc until ths : forallb writer_thread ths = true -> Calm (init qc until ths).
Proof.
  intros H. repeat split; try reflexivity. cbn [init threads]. rewrite forallb_forall in *. intros t Ht.
  specialize (H t Ht). destruct t; try discriminate. reflexivity.
Qed.
Definition run_only (e : sched_ev) : bool := match e with Run _ _ => true | ParentCancel => false end.
Lemma calm_run : forall sched s, forallb run_only sched = true -> Calm s -> Calm (run s sched).
Proof.
  induction sched as [|e r IH]; intros s Hr Hc; cbn [run]; [exact Hc|].
  cbn [forallb] in Hr. apply andb_true_iff in Hr. destruct Hr as [He Hr]. destruct e as [i ch|]; [|discriminate].
  cbn [step_ev]. destruct (step s i ch) as [s'|] eqn:E; [|apply IH; auto].
  apply IH; auto. eapply calm_step; eauto.
Qed.
(* every such run makes at most finitely many steps: the sequence of states strictly descends *)
Theorem calm_run_descends : forall s i ch s', Calm s -> step s i ch = Some s' -> lexlt s' s.
Proof. intros s i ch s' Hc H. eapply calm_step; eauto. Qed.

Theorem calm_runs_init : forall qc until ths sched, forallb writer_thread ths = true -> forallb run_only sched = true ->
  Calm (run (init qc until ths) sched).
Proof. intros qc until ths sched Hw Hr. apply calm_run; [exact Hr|apply calm_init; exact Hw]. Qed.

(* C10: the bytes handed to the transport for a call are the bytes the caller's buffer
   held when the call was made, whatever callers and pool users do to buffers meanwhile. *)
From Coq Require Import List Arith Bool Lia.
From GN Require Import Model.Snap.
Import ListNotations.

Local Opaque Nat.eq_dec.
Definition cnt (b : bufid) (l : list bufid) : nat := count_occ Nat.eq_dec l b.
Definition occ (b : bufid) (s : sstate) : nat :=
  cnt b (free s) + cnt b (map p_buf (q s)) + cnt b (map snd (users s)).

Record SI (s : sstate) : Prop := {
  S_data : forall p, In p (q s) -> hp s (p_buf p) = p_want p;
  S_excl : forall b, occ b s <= 1;
  S_pool : forall b, 0 < occ b s -> In b (pooled s);
  S_sent : Forall (fun e => snd (fst e) = snd e) (sent s) }.

Lemma mem_in b l : mem b l = true <-> In b l.
Proof.
  unfold mem. rewrite existsb_exists. split.
  - intros [x [Hx E]]. apply Nat.eqb_eq in E. subst. exact Hx.
  - intros H. exists b. split; [exact H|apply Nat.eqb_refl].
Qed.
Lemma cnt_pos_in b l : 0 < cnt b l <-> In b l.
Proof. unfold cnt. split; intros H; [apply (count_occ_In Nat.eq_dec); lia|apply (count_occ_In Nat.eq_dec) in H; lia]. Qed.
Ltac eqdecs := repeat match goal with
  | |- context [Nat.eq_dec ?a ?b] => destruct (Nat.eq_dec a b)
  | H : context [Nat.eq_dec ?a ?b] |- _ => destruct (Nat.eq_dec a b) end; try subst; try lia; try congruence.

Lemma cnt_remove1 x b l : mem b l = true -> cnt x (remove1 b l) + (if Nat.eq_dec b x then 1 else 0) = cnt x l.
Proof.
  unfold cnt. induction l as [|a l IH]; cbn; [discriminate|].
  destruct (Nat.eqb_spec a b) as [->|Hne]; cbn.
  - intros _. eqdecs.
  - destruct (Nat.eqb_spec b a); [congruence|]. cbn. intros H. specialize (IH H). eqdecs.
Qed.
Lemma cnt_drop_hold x u b l : holds_buf u b l = true ->
  cnt x (map snd (drop_hold u b l)) + (if Nat.eq_dec b x then 1 else 0) = cnt x (map snd l).
Proof.
  unfold cnt, holds_buf. induction l as [|[u0 b0] l IH]; cbn; [discriminate|].
  destruct (Nat.eqb_spec u0 u) as [->|Hu]; destruct (Nat.eqb_spec b0 b) as [->|Hb]; cbn.
  - intros _. eqdecs.
  - intros H. specialize (IH H). eqdecs.
  - intros H. specialize (IH H). eqdecs.
  - intros H. specialize (IH H). eqdecs.
Qed.
Lemma cnt_app x a b : cnt x (a ++ b) = cnt x a + cnt x b.
Proof. apply count_occ_app. Qed.
Lemma holds_in u b l : holds_buf u b l = true -> 0 < cnt b (map snd l).
Proof.
  unfold holds_buf. rewrite existsb_exists. intros [[u0 b0] [Hin E]]. apply andb_true_iff in E as [_ E].
  apply Nat.eqb_eq in E. cbn in E. subst. apply cnt_pos_in. apply in_map_iff. exists (u0, b). auto.
Qed.
Lemma fresh_not_pooled s : ~ In (fresh_id s) (pooled s).
Proof.
  unfold fresh_id. intros H.
  assert (G : forall l x, In x l -> x <= fold_right Nat.max 0 l).
  { induction l as [|a l IH]; intros x [].
    - subst. cbn. lia.
    - cbn. specialize (IH x H0). lia. }
  specialize (G _ _ H). lia.
Qed.
Lemma hset_same h b d : hset h b d b = d.
Proof. unfold hset. rewrite Nat.eqb_refl. reflexivity. Qed.
Lemma hset_other h b d x : x <> b -> hset h b d x = h x.
Proof. unfold hset. intros H. destruct (Nat.eqb_spec x b); congruence. Qed.

(* a buffer that is in the free list, held by a user, or not pooled at all, is not queued *)
Lemma not_queued s b p : SI s -> In p (q s) -> (0 < cnt b (free s) + cnt b (map snd (users s)) \/ ~ In b (pooled s)) -> p_buf p <> b.
Proof.
  intros Hi Hp Hb E. subst b.
  assert (Hq : 0 < cnt (p_buf p) (map p_buf (q s))) by (apply cnt_pos_in, in_map; exact Hp).
  pose proof (S_excl s Hi (p_buf p)) as Hx. unfold occ in Hx.
  destruct Hb as [Hb|Hb]; [lia|]. apply Hb. apply (S_pool s Hi). unfold occ. lia.
Qed.

Lemma si_step s o s' : SI s -> sstep s o = Some s' -> SI s'.
Proof.
  intros Hi H. pose proof (S_excl s Hi) as Hx. pose proof (S_pool s Hi) as Hp.
  destruct o as [call src pick|call u b|b d|  |u pick|u b d|u b]; cbn [sstep] in H.
  - (* SWrite *)
    destruct (mem src (pooled s)) eqn:Es; [discriminate|].
    assert (Hsrc : ~ In src (pooled s)) by (intros X; apply mem_in in X; congruence).
    destruct pick as [b|].
    + destruct (mem b (free s)) eqn:Eb; cbn in H; [|discriminate]. inversion H; subst; clear H.
      assert (Hbf : 0 < cnt b (free s)) by (apply cnt_pos_in, mem_in; exact Eb).
      constructor; cbn [hp free q users pooled sent].
      * intros p Hin. apply in_app_or in Hin. destruct Hin as [Hin|[<-|[]]]; cbn [p_buf p_want].
        -- rewrite hset_other; [apply (S_data s Hi p Hin)|]. apply (not_queued s b p Hi Hin). left. lia.
        -- apply hset_same.
      * intros x. unfold occ. cbn [free q users]. rewrite map_app, cnt_app. cbn [map p_buf].
        pose proof (cnt_remove1 x b (free s) Eb). specialize (Hx x). unfold occ in Hx. unfold cnt at 3. cbn [count_occ].
        destruct (Nat.eq_dec b x); unfold cnt in *; lia.
      * intros x. unfold occ. cbn [free q users]. rewrite map_app, cnt_app. cbn [map p_buf]. unfold cnt at 3. cbn [count_occ].
        pose proof (cnt_remove1 x b (free s) Eb). intros Hpos. destruct (Nat.eq_dec b x) as [<-|Hne].
        -- apply Hp. unfold occ. lia.
        -- apply Hp. unfold occ. unfold cnt in *. lia.
      * apply (S_sent s Hi).
    + cbn in H. inversion H; subst; clear H. pose proof (fresh_not_pooled s) as Hf.
      assert (Hf0 : occ (fresh_id s) s = 0).
      { destruct (occ (fresh_id s) s) eqn:E; [reflexivity|]. exfalso. apply Hf, Hp. lia. }
      constructor; cbn [hp free q users pooled sent].
      * intros p Hin. apply in_app_or in Hin. destruct Hin as [Hin|[<-|[]]]; cbn [p_buf p_want].
        -- rewrite hset_other; [apply (S_data s Hi p Hin)|]. apply (not_queued s _ p Hi Hin). right. exact Hf.
        -- apply hset_same.
      * intros x. unfold occ. cbn [free q users]. rewrite map_app, cnt_app. cbn [map p_buf]. unfold cnt at 3. cbn [count_occ].
        specialize (Hx x). unfold occ in *. destruct (Nat.eq_dec (fresh_id s) x) as [<-|Hne]; unfold cnt in *; lia.
      * intros x. unfold occ. cbn [free q users]. rewrite map_app, cnt_app. cbn [map p_buf]. unfold cnt at 3. cbn [count_occ].
        intros Hpos. destruct (Nat.eq_dec (fresh_id s) x) as [<-|Hne]; [left; reflexivity|right; apply Hp; unfold occ; unfold cnt in *; lia].
      * apply (S_sent s Hi).
  - (* SHandOver *)
    destruct (holds_buf u b (users s)) eqn:Eh; [|discriminate]. inversion H; subst; clear H.
    constructor; cbn [hp free q users pooled sent].
    + intros p Hin. apply in_app_or in Hin. destruct Hin as [Hin|[<-|[]]]; [apply (S_data s Hi p Hin)|reflexivity].
    + intros x. unfold occ. cbn [free q users]. rewrite map_app, cnt_app. cbn [map p_buf]. unfold cnt at 3. cbn [count_occ].
      pose proof (cnt_drop_hold x u b (users s) Eh). specialize (Hx x). unfold occ in Hx.
      destruct (Nat.eq_dec b x); unfold cnt in *; lia.
    + intros x. unfold occ. cbn [free q users]. rewrite map_app, cnt_app. cbn [map p_buf]. unfold cnt at 3. cbn [count_occ].
      pose proof (cnt_drop_hold x u b (users s) Eh). intros Hpos. apply Hp. unfold occ.
      destruct (Nat.eq_dec b x); unfold cnt in *; lia.
    + apply (S_sent s Hi).
  - (* SScribble *)
    destruct (mem b (pooled s)) eqn:Eb; [discriminate|]. inversion H; subst; clear H.
    assert (Hb : ~ In b (pooled s)) by (intros X; apply mem_in in X; congruence).
    constructor; cbn [hp free q users pooled sent]; auto.
    + intros p Hin. rewrite hset_other; [apply (S_data s Hi p Hin)|]. apply (not_queued s b p Hi Hin). right. exact Hb.
    + apply (S_sent s Hi).
  - (* SSend *)
    destruct (q s) as [|p r] eqn:Eq; [discriminate|]. inversion H; subst; clear H.
    constructor; cbn [hp free q users pooled sent].
    + intros p0 Hin. apply (S_data s Hi). rewrite Eq. right. exact Hin.
    + intros x. specialize (Hx x). unfold occ in *. rewrite Eq in Hx. cbn [free q users map] in *. unfold cnt in *. cbn [count_occ] in *.
      destruct (Nat.eq_dec (p_buf p) x); lia.
    + intros x Hpos. apply Hp. unfold occ in *. rewrite Eq. cbn [free q users map] in *. unfold cnt in *. cbn [count_occ] in *.
      destruct (Nat.eq_dec (p_buf p) x); lia.
    + apply Forall_app. split; [apply (S_sent s Hi)|]. constructor; [|constructor]. cbn.
      apply (S_data s Hi). rewrite Eq. left. reflexivity.
  - (* SGet *)
    destruct pick as [b|].
    + destruct (mem b (free s)) eqn:Eb; [|discriminate]. inversion H; subst; clear H.
      constructor; cbn [hp free q users pooled sent].
      * apply (S_data s Hi).
      * intros x. unfold occ. cbn [free q users map snd]. pose proof (cnt_remove1 x b (free s) Eb). specialize (Hx x). unfold occ in Hx.
        unfold cnt in *. cbn [count_occ]. destruct (Nat.eq_dec b x); lia.
      * intros x. unfold occ. cbn [free q users map snd]. pose proof (cnt_remove1 x b (free s) Eb). intros Hpos. apply Hp. unfold occ.
        unfold cnt in *. cbn [count_occ] in *. destruct (Nat.eq_dec b x); lia.
      * apply (S_sent s Hi).
    + inversion H; subst; clear H. pose proof (fresh_not_pooled s) as Hf.
      assert (Hf0 : occ (fresh_id s) s = 0).
      { destruct (occ (fresh_id s) s) eqn:E; [reflexivity|]. exfalso. apply Hf, Hp. lia. }
      constructor; cbn [hp free q users pooled sent].
      * apply (S_data s Hi).
      * intros x. unfold occ. cbn [free q users map snd]. specialize (Hx x). unfold occ in *. unfold cnt in *. cbn [count_occ].
        destruct (Nat.eq_dec (fresh_id s) x) as [<-|Hne]; lia.
      * intros x. unfold occ. cbn [free q users map snd]. unfold cnt. cbn [count_occ]. intros Hpos.
        destruct (Nat.eq_dec (fresh_id s) x) as [<-|Hne]; [left; reflexivity|right; apply Hp; unfold occ, cnt; lia].
      * apply (S_sent s Hi).
  - (* SUserWrite *)
    destruct (holds_buf u b (users s)) eqn:Eh; [|discriminate]. inversion H; subst; clear H.
    constructor; cbn [hp free q users pooled sent]; auto.
    + intros p Hin. rewrite hset_other; [apply (S_data s Hi p Hin)|]. apply (not_queued s b p Hi Hin). left.
      pose proof (holds_in u b _ Eh). lia.
    + apply (S_sent s Hi).
  - (* SPut *)
    destruct (holds_buf u b (users s)) eqn:Eh; [|discriminate]. inversion H; subst; clear H.
    constructor; cbn [hp free q users pooled sent].
    + apply (S_data s Hi).
    + intros x. unfold occ. cbn [free q users]. pose proof (cnt_drop_hold x u b (users s) Eh). specialize (Hx x). unfold occ in Hx.
      unfold cnt in *. cbn [count_occ]. destruct (Nat.eq_dec b x); lia.
    + intros x. unfold occ. cbn [free q users]. pose proof (cnt_drop_hold x u b (users s) Eh). intros Hpos. apply Hp. unfold occ.
      unfold cnt in *. cbn [count_occ] in *. destruct (Nat.eq_dec b x); lia.
    + apply (S_sent s Hi).
Qed.

Theorem si_run ops : forall s, SI s -> SI (srun s ops).
Proof.
  induction ops as [|o r IH]; intros s Hi; cbn [srun]; [exact Hi|].
  destruct (sstep s o) as [s'|] eqn:E; [apply IH; eapply si_step; eauto|apply IH; exact Hi].
Qed.
Theorem si_init h : SI (sinit h).
Proof. constructor; cbn; auto. intros p []. intros b H. unfold occ in H. cbn in H. lia. Qed.

(* for every interleaving of writes, caller buffer reuse, pool traffic and sends: what the
   transport received for a call is what the caller's buffer held when the call was made *)
Theorem snapshot_semantics h ops : Forall (fun e => snd (fst e) = snd e) (sent (srun (sinit h) ops)).
Proof. apply S_sent. apply si_run, si_init. Qed.

(* a buffer is recycled only by the send that transmitted it, and is never at once in the pool,
   in the queue and with a user *)
Theorem exclusive_ownership h ops b : occ b (srun (sinit h) ops) <= 1.
Proof. apply S_excl. apply si_run, si_init. Qed.

(* C03, layer 1 continued: operations, walks and the refinement theorem. *)
From Coq Require Import ZArith List Arith Lia Bool.
Import ListNotations.
From GN Require Import Model.Pipeline Proof.Pipeline_proofs.

Section P2.
Variable H : Type.
Notation ids_of mids := (0 :: mids ++ [1]).

Lemma list_eq_nth {A} (l l' : list A) : (forall i, nth_error l i = nth_error l' i) -> l = l'.
Proof.
  revert l'. induction l as [|x l IH]; intros [|y l'] E.
  - reflexivity.
  - specialize (E 0). discriminate.
  - specialize (E 0). discriminate.
  - pose proof (E 0) as E0. cbn in E0. inversion E0; subst. f_equal. apply IH. intros i. apply (E (S i)).
Qed.

Lemma set_next_app l x a v : a < length l -> set_next H (l ++ [x]) a v = set_next H l a v ++ [x].
Proof.
  intros Ha. unfold set_next. rewrite nth_error_app1 by exact Ha.
  destruct (nth_error l a) as [na|] eqn:E; [|reflexivity].
  apply list_eq_nth. intros i. destruct (Nat.eq_dec i a) as [->|Hne].
  - rewrite nth_upd_same by (rewrite app_length; lia). rewrite nth_error_app1 by (rewrite upd_length; exact Ha).
    rewrite nth_upd_same by exact Ha. reflexivity.
  - rewrite nth_upd_other by auto. destruct (lt_dec i (length l)).
    + rewrite !nth_error_app1 by (rewrite ?upd_length; lia). rewrite nth_upd_other by auto. reflexivity.
    + rewrite !nth_error_app2 by (rewrite ?upd_length; lia). rewrite upd_length. reflexivity.
Qed.
Lemma set_prev_app l x a v : a < length l -> set_prev H (l ++ [x]) a v = set_prev H l a v ++ [x].
Proof.
  intros Ha. unfold set_prev. rewrite nth_error_app1 by exact Ha.
  destruct (nth_error l a) as [na|] eqn:E; [|reflexivity].
  apply list_eq_nth. intros i. destruct (Nat.eq_dec i a) as [->|Hne].
  - rewrite nth_upd_same by (rewrite app_length; lia). rewrite nth_error_app1 by (rewrite upd_length; exact Ha).
    rewrite nth_upd_same by exact Ha. reflexivity.
  - rewrite nth_upd_other by auto. destruct (lt_dec i (length l)).
    + rewrite !nth_error_app1 by (rewrite ?upd_length; lia). rewrite nth_upd_other by auto. reflexivity.
    + rewrite !nth_error_app2 by (rewrite ?upd_length; lia). rewrite upd_length. reflexivity.
Qed.

Lemma set_commute l a b v w : a <> b -> set_next H (set_prev H l b w) a v = set_prev H (set_next H l a v) b w.
Proof.
  intros Hab. apply list_eq_nth. intros i. unfold set_next, set_prev.
  destruct (nth_error l a) as [na|] eqn:Ea; destruct (nth_error l b) as [nb|] eqn:Eb;
    rewrite ?nth_upd_other by auto; rewrite ?Ea, ?Eb; try reflexivity.
  assert (La : a < length l) by (apply nth_error_Some; congruence).
  assert (Lb : b < length l) by (apply nth_error_Some; congruence).
  destruct (Nat.eq_dec i a) as [->|Hia]; [|destruct (Nat.eq_dec i b) as [->|Hib]].
  - rewrite nth_upd_same by (rewrite upd_length; exact La). rewrite nth_upd_other by auto.
    rewrite nth_upd_same by exact La. reflexivity.
  - rewrite nth_upd_other by auto. rewrite nth_upd_same by exact Lb.
    rewrite nth_upd_same by (rewrite upd_length; exact Lb). reflexivity.
  - rewrite !nth_upd_other by auto. reflexivity.
Qed.

(* what a chain tells about individual nodes *)
Lemma seg_last_has l : forall ids p q, ids <> [] -> seg H l p ids q ->
  exists pp, has H l (last ids 0) pp q.
Proof.
  induction ids as [|i r IH]; intros p q Hne Hs; [congruence|]. destruct r as [|j r].
  - cbn in *. eauto.
  - destruct Hs as [_ Hr]. change (last (i :: j :: r) 0) with (last (j :: r) 0). eapply IH; eauto. discriminate.
Qed.
Lemma seg_first_has l i r p q : seg H l p (i :: r) q -> exists qq, has H l i p qq.
Proof. destruct r as [|j r]; cbn; [eauto|intros [Hh _]; eauto]. Qed.

Lemma add_last1_eq p mids hs h : Rep H p mids hs ->
  add_last1 H p h = insert_after H p (last (0 :: mids) 0) h.
Proof.
  intros R. destruct R as [Hseg Hnd Hlt Hsz Hhs Hh0 Ht1].
  set (a := last (0 :: mids) 0).
  assert (Hsplit : ids_of mids = (removelast (0 :: mids) ++ [a]) ++ [1]).
  { change (0 :: mids ++ [1]) with ((0 :: mids) ++ [1]). f_equal. apply app_removelast_last. discriminate. }
  rewrite Hsplit in Hseg, Hnd, Hlt.
  set (xs := removelast (0 :: mids)) in *.
  assert (Hs2 : seg H (arena H p) None (xs ++ [a]) (Some 1) /\ seg H (arena H p) (Some a) [1] None).
  { apply seg_app in Hseg; [|destruct xs; discriminate]. rewrite last_last in Hseg. exact Hseg. }
  destruct Hs2 as [Hl Hr]. cbn in Hr. destruct Hr as [nt [Hnt [Hpt Hqt]]].
  assert (Hxne : xs ++ [a] <> []) by (destruct xs; discriminate).
  destruct (seg_last_has _ _ _ _ Hxne Hl) as [pa Hha]. rewrite last_last in Hha.
  destruct Hha as [na [Hna [Hpa Hqa]]].
  assert (Ha1 : a <> 1).
  { intros E. rewrite E in Hnd. rewrite <- app_assoc in Hnd. apply NoDup_remove_2 in Hnd. apply Hnd.
    apply in_or_app. right. left. reflexivity. }
  assert (La : a < length (arena H p)) by (apply nth_error_Some; congruence).
  assert (L1 : 1 < length (arena H p)) by (apply nth_error_Some; congruence).
  unfold add_last1, insert_after. rewrite Hnt, Hpt, Hna, Hqa. f_equal. f_equal.
  rewrite set_next_app by (rewrite set_prev_length; exact La).
  rewrite set_prev_app by (rewrite set_next_length; exact L1).
  f_equal. apply set_commute. exact Ha1.
Qed.

(* ---- folds ---- *)
Lemma add_first_rep hs : forall p mids l, Rep H p mids l ->
  exists p' mids', add_first H p hs = Some p' /\ Rep H p' mids' (rev hs ++ l).
Proof.
  induction hs as [|h hs IH]; intros p mids l R; cbn [add_first fold_opt rev app].
  - eauto.
  - destruct (insert_after_last H p [] mids [] l h R eq_refl) as [p1 [E [R1 _]]]. cbn in E. rewrite E.
    destruct (IH p1 _ _ R1) as [p' [mids' [E' R']]]. exists p', mids'. split; [exact E'|].
    rewrite <- app_assoc. exact R'.
Qed.

Lemma add_last_rep hs : forall p mids l, Rep H p mids l ->
  exists p' mids', add_last H p hs = Some p' /\ Rep H p' mids' (l ++ hs).
Proof.
  induction hs as [|h hs IH]; intros p mids l R; cbn [add_last fold_opt].
  - rewrite app_nil_r. eauto.
  - rewrite (add_last1_eq p mids l h R).
    assert (R0 : Rep H p (mids ++ []) (l ++ [])) by (rewrite !app_nil_r; exact R).
    assert (Hlen : length l = length mids).
    { destruct R as [_ _ _ _ Hhs _ _]. apply (f_equal (@length _)) in Hhs. rewrite !map_length in Hhs. auto. }
    destruct (insert_after_last H p mids [] l [] h R0 Hlen) as [p1 [E [R1 _]]]. rewrite E.
    destruct (IH p1 _ _ R1) as [p' [mids' [E' R']]]. exists p', mids'. split; [exact E'|].
    rewrite <- app_assoc in R'. exact R'.
Qed.

Lemma rep_len p mids l : Rep H p mids l -> length l = length mids.
Proof. intros [_ _ _ _ Hhs _ _]. apply (f_equal (@length _)) in Hhs. rewrite !map_length in Hhs. auto. Qed.

Lemma insert_loop_rep hs : forall p A B hA hB, Rep H p (A ++ B) (hA ++ hB) -> length hA = length A ->
  exists st, fold_opt (fun st h => match insert_after H (fst st) (snd st) h with
                                   | Some p' => Some (p', length (arena H (fst st)))
                                   | None => None end) (p, last (0 :: A) 0) hs = Some st /\
             exists mids', Rep H (fst st) mids' (hA ++ hs ++ hB).
Proof.
  induction hs as [|h hs IH]; intros p A B hA hB R Hl; cbn [fold_opt fst snd].
  - eexists. split; [reflexivity|]. cbn. eauto.
  - destruct (insert_after_last H p A B hA hB h R Hl) as [p1 [E [R1 _]]]. rewrite E.
    set (n := length (arena H p)) in *.
    assert (R1' : Rep H p1 ((A ++ [n]) ++ B) ((hA ++ [h]) ++ hB)) by (rewrite <- !app_assoc; exact R1).
    destruct (IH p1 (A ++ [n]) B (hA ++ [h]) hB R1') as [st [E' [mids' R']]].
    { rewrite !app_length. cbn. lia. }
    change (0 :: A ++ [n]) with ((0 :: A) ++ [n]) in E'. rewrite last_last in E'.
    exists st. split; [exact E'|]. exists mids'. rewrite <- app_assoc in R'. exact R'.
Qed.

(* step_next follows the chain *)
Lemma seg_step l : forall ids p q k, seg H l p ids q -> k < length ids ->
  step_next H l k (List.hd 0 ids) = Some (nth k ids 0).
Proof.
  induction ids as [|i r IH]; intros p q k Hs Hk; [cbn in Hk; lia|].
  destruct k as [|k]; [reflexivity|]. cbn [step_next List.hd nth].
  destruct r as [|j r]; [cbn in Hk; lia|].
  destruct Hs as [[n [Hn [_ Hq]]] Hr]. rewrite Hn, Hq.
  apply (IH (Some i) q k Hr). cbn in *. lia.
Qed.

Lemma nth_last_firstn (mids : list nat) : forall d k, k <= length mids ->
  nth k (d :: mids) 0 = last (d :: firstn k mids) 0.
Proof.
  induction mids as [|m ms IH]; intros d k Hk.
  - cbn in Hk. assert (k = 0) by lia. subst. reflexivity.
  - destruct k as [|k]; [reflexivity|].
    change (nth (S k) (d :: m :: ms) 0) with (nth k (m :: ms) 0).
    change (firstn (S k) (m :: ms)) with (m :: firstn k ms).
    rewrite (IH m k) by (cbn in Hk; lia). reflexivity.
Qed.
Lemma nth_prefix_last (mids : list nat) : forall k, k <= length mids ->
  nth k (ids_of mids) 0 = last (0 :: firstn k mids) 0.
Proof.
  intros k Hk. change (0 :: mids ++ [1]) with ((0 :: mids) ++ [1]).
  rewrite app_nth1 by (cbn; lia). apply nth_last_firstn. exact Hk.
Qed.

Lemma add_handler_rep p mids l pos hs : Rep H p mids l ->
  match spec_op H l (OAddHandler H pos hs) with
  | Some l' => exists p' mids', add_handler H p pos hs = Some p' /\ Rep H p' mids' l'
  | None => add_handler H p pos hs = None
  end.
Proof.
  intros R. pose proof (rep_len _ _ _ R) as Hlen. pose proof (rep_size H p mids l R) as Hsz.
  unfold spec_op, add_handler. rewrite Hsz, Hlen.
  destruct (Z.leb_spec (Z.of_nat (length mids + 2)) pos) as [Hbig|Hsmall]; [reflexivity|].
  destruct (orb (pos =? -1)%Z (pos =? Z.of_nat (length mids + 2) - 1)%Z) eqn:Eor.
  - apply (add_last_rep hs p mids l R).
  - apply orb_false_iff in Eor as [E1 E2]. apply Z.eqb_neq in E1. apply Z.eqb_neq in E2.
    set (k := Z.to_nat pos). assert (Hk : k <= length mids) by lia.
    assert (Hkl : k < length (ids_of mids)) by (cbn; rewrite app_length; cbn; lia).
    pose proof (seg_step _ _ _ _ k (rep_seg H p mids l R) Hkl) as Hstep. cbn [List.hd] in Hstep. rewrite Hstep.
    rewrite nth_prefix_last by exact Hk.
    assert (R0 : Rep H p (firstn k mids ++ skipn k mids) (firstn k l ++ skipn k l)) by (rewrite !firstn_skipn; exact R).
    destruct (insert_loop_rep hs p _ _ _ _ R0) as [st [E [mids' R']]].
    { rewrite !firstn_length. lia. }
    rewrite E. cbn [option_map]. eauto.
Qed.

(* ---- the refinement theorem over operation sequences ---- *)
Lemma apply_op_rep p mids l o : Rep H p mids l ->
  match spec_op H l o with
  | Some l' => exists p' mids', apply_op H p o = Some p' /\ Rep H p' mids' l'
  | None => apply_op H p o = None
  end.
Proof.
  intros R. destruct o as [hs|hs|pos hs].
  - apply (add_first_rep hs p mids l R).
  - apply (add_last_rep hs p mids l R).
  - apply (add_handler_rep p mids l pos hs R).
Qed.

Lemma run_ops_rep ops : forall p mids l, Rep H p mids l ->
  match fold_opt (spec_op H) l ops with
  | Some l' => exists p' mids', fold_opt (apply_op H) p ops = Some p' /\ Rep H p' mids' l'
  | None => fold_opt (apply_op H) p ops = None
  end.
Proof.
  induction ops as [|o ops IH]; intros p mids l R; cbn [fold_opt]; [eauto|].
  pose proof (apply_op_rep p mids l o R) as Ho. destruct (spec_op H l o) as [l1|].
  - destruct Ho as [p1 [mids1 [E R1]]]. rewrite E. apply (IH p1 mids1 l1 R1).
  - rewrite Ho. reflexivity.
Qed.

(* ---- walks ---- *)
Lemma walk_next_seg l : forall ids p fuel, ids <> [] -> seg H l p ids None -> length ids <= fuel ->
  walk_next H fuel l (List.hd 0 ids) = Some ids.
Proof.
  induction ids as [|i r IH]; intros p fuel Hne Hs Hf; [congruence|].
  destruct fuel as [|fuel]; [cbn in Hf; lia|]. cbn [walk_next List.hd]. destruct r as [|j r].
  - destruct Hs as [n [Hn [_ Hq]]]. rewrite Hn, Hq. reflexivity.
  - destruct Hs as [[n [Hn [_ Hq]]] Hr]. rewrite Hn, Hq.
    assert (Hjr : j :: r <> []) by discriminate. assert (Hlf : length (j :: r) <= fuel) by (cbn in *; lia).
    pose proof (IH (Some i) fuel Hjr Hr Hlf) as Hw. cbn [List.hd] in Hw. rewrite Hw. reflexivity.
Qed.

Lemma walk_prev_seg l : forall n ids q fuel, length ids = n -> ids <> [] -> seg H l None ids q -> length ids <= fuel ->
  walk_prev H fuel l (last ids 0) = Some (rev ids).
Proof.
  induction n as [|n IH]; intros ids q fuel Hn Hne Hs Hf; [destruct ids; [congruence|discriminate]|].
  destruct fuel as [|fuel]; [lia|].
  assert (Hsp : ids = removelast ids ++ [last ids 0]) by (apply app_removelast_last; exact Hne).
  set (z := last ids 0) in *. set (xs := removelast ids) in *. cbn [walk_prev].
  destruct xs as [|x xs'] eqn:Exs.
  - rewrite Hsp in Hs |- *. cbn in Hs |- *. destruct Hs as [nz [Hnz [Hp _]]]. rewrite Hnz, Hp. reflexivity.
  - rewrite Hsp in Hs. rewrite <- Exs in *. apply seg_app in Hs; [|rewrite Exs; discriminate].
    destruct Hs as [Hl Hr]. cbn in Hr. destruct Hr as [nz [Hnz [Hp _]]]. rewrite Hnz, Hp. cbn [option_map].
    assert (Hlx : length xs = n).
    { rewrite Hsp in Hn. rewrite app_length in Hn. cbn in Hn. lia. }
    rewrite (IH xs (Some z) fuel Hlx ltac:(rewrite Exs; discriminate) Hl) by lia.
    rewrite Hsp. rewrite rev_app_distr. reflexivity.
Qed.

Theorem rep_walks p mids l : Rep H p mids l ->
  fwd H p = Some (ids_of mids) /\ bwd H p = Some (rev (ids_of mids)) /\
  map (handler_at H p) (ids_of mids) = None :: map Some l ++ [None] /\ size H p = length l + 2.
Proof.
  intros R. pose proof (rep_len _ _ _ R) as Hlen. destruct R as [Hseg Hnd Hlt Hsz Hhs Hh0 Ht1].
  assert (Hle : length (ids_of mids) <= S (length (arena H p))).
  { pose proof (NoDup_incl_length Hnd (l' := seq 0 (length (arena H p)))) as Hi.
    rewrite seq_length in Hi. assert (length (ids_of mids) <= length (arena H p)); [|lia].
    apply Hi. intros i Hin. apply in_seq. specialize (Hlt i Hin). lia. }
  split; [|split; [|split]].
  - unfold fwd. apply (walk_next_seg _ (ids_of mids) None); auto. discriminate.
  - unfold bwd. replace 1 with (last (ids_of mids) 0) at 1.
    + apply (walk_prev_seg _ _ (ids_of mids) None _ eq_refl); auto. discriminate.
    + change (0 :: mids ++ [1]) with ((0 :: mids) ++ [1]). apply last_last.
  - cbn [map]. rewrite Hh0, map_app, Hhs. cbn [map]. rewrite Ht1. reflexivity.
  - lia.
Qed.
End P2.

Section P3.
Variable H : Type.
Notation ids_of mids := (0 :: mids ++ [1]).

(* the pipeline built by any operation sequence refines the list specification *)
Theorem pipeline_refines (ops : list (op H)) :
  match spec_ops H ops with
  | Some l => exists p mids, run_ops H ops = Some p /\
                fwd H p = Some (ids_of mids) /\ bwd H p = Some (rev (ids_of mids)) /\
                map (handler_at H p) (ids_of mids) = None :: map Some l ++ [None] /\
                size H p = length l + 2
  | None => run_ops H ops = None
  end.
Proof.
  unfold spec_ops, run_ops. pose proof (run_ops_rep H ops (new_pipe H) [] [] (rep_new H)) as Hr.
  destruct (fold_opt (spec_op H) [] ops) as [l|]; [|exact Hr].
  destruct Hr as [p [mids [E R]]]. exists p, mids. split; [exact E|]. apply rep_walks. exact R.
Qed.

Theorem queries_refine p mids l (comp : option H -> bool) : Rep H p mids l ->
  index_of H p comp = Some (find_idx comp (None :: map Some l ++ [None]) 0%Z) /\
  last_index_of H p comp = Some (find_idx_down comp (rev (None :: map Some l ++ [None])) (Z.of_nat (length l + 2) - 1)%Z) /\
  (forall k, k < length l + 2 -> context_at H p (Z.of_nat k) = Some (Some (nth k (ids_of mids) 0))) /\
  context_at H p (-1)%Z = Some None /\ (forall z, (Z.of_nat (length l + 2) <= z)%Z -> context_at H p z = Some None).
Proof.
  intros R. destruct (rep_walks H p mids l R) as [Hf [Hb [Hm Hs]]].
  unfold index_of, last_index_of. rewrite Hf, Hb. cbn [option_map]. rewrite map_rev, Hm, Hs.
  split; [reflexivity|]. split; [reflexivity|]. split; [|split].
  - intros k Hk. unfold context_at. rewrite Hs.
    destruct (Z.eqb_spec (Z.of_nat k) (-1)); [lia|]. destruct (Z.leb_spec (Z.of_nat (length l + 2)) (Z.of_nat k)); [lia|].
    cbn [orb]. rewrite Nat2Z.id.
    pose proof (rep_len H p mids l R) as Hl.
    assert (Hkl : k < length (ids_of mids)) by (cbn; rewrite app_length; cbn; lia).
    pose proof (seg_step H _ _ _ _ k (rep_seg H p mids l R) Hkl) as Hstep. cbn [List.hd] in Hstep. rewrite Hstep. reflexivity.
  - reflexivity.
  - intros z Hz. unfold context_at. rewrite Hs. destruct (Z.leb_spec (Z.of_nat (length l + 2)) z); [|lia].
    rewrite orb_true_r. reflexivity.
Qed.
End P3.

(* Consequences of the channel invariant: C01 (prefix, at most once, order,
   errors send nothing), C02 (no stranded writes), C11, C18. *)
From Coq Require Import List Arith Bool Lia.
From GN Require Import Model.Chan Proof.Chan_proofs.
Import ListNotations.

(* ---------- acceptance order = enqueue order ---------- *)
Lemma accepted_mono s i ch s' : step s i ch = Some s' -> exists l, accepted s' = accepted s ++ l.
Proof.
  intros H. step_cases H; simp_st; try (exists []; rewrite app_nil_r; reflexivity).
  eexists. reflexivity.
Qed.
Lemma accepted_mono_run sched : forall s, exists l, accepted (run s sched) = accepted s ++ l.
Proof.
  induction sched as [|e r IH]; intros s; cbn [run]; [exists []; rewrite app_nil_r; reflexivity|].
  destruct e as [i ch|]; cbn [step_ev].
  - destruct (step s i ch) as [s1|] eqn:E; [|apply IH].
    destruct (accepted_mono _ _ _ _ E) as [l1 E1]. destruct (IH s1) as [l2 E2]. exists (l1 ++ l2).
    rewrite E2, E1, app_assoc. reflexivity.
  - destruct (IH (parent_cancel s)) as [l E]. exists l. exact E.
Qed.

(* ---------- conservation of call identities ---------- *)
Definition pending (t : thread) : list packet :=
  match t with
  | TWriter calls (WCheck | WSelect) _ => map cid calls
  | TWriter calls (WCas | WExec) _ => map cid (tl calls)
  | _ => []
  end.
Definition rejected (t : thread) : list packet :=
  match t with
  | TWriter _ _ res => flat_map (fun r => match snd r with ROk => [] | _ => [fst r] end) res
  | _ => []
  end.
Definition cnt_in (p : packet) (l : list packet) : nat := count_occ Nat.eq_dec l p.
Definition wgt (p : packet) (t : thread) : nat := cnt_in p (pending t) + cnt_in p (rejected t).
Fixpoint sumw (p : packet) (l : list thread) : nat := match l with [] => 0 | t :: r => wgt p t + sumw p r end.
Definition tot (p : packet) (s : st) : nat := cnt_in p (accepted s) + sumw p (threads s).

Lemma sumw_upd p l i t t' : nth_error l i = Some t -> sumw p (upd l i t') + wgt p t = sumw p l + wgt p t'.
Proof.
  revert i; induction l as [|a l IH]; intros [|i] H; simpl in *; try discriminate.
  - inversion H; subst. lia.
  - specialize (IH _ H). lia.
Qed.
Lemma sumw_app p l1 l2 : sumw p (l1 ++ l2) = sumw p l1 + sumw p l2.
Proof. induction l1; simpl; lia. Qed.
Lemma cnt_in_app p a b : cnt_in p (a ++ b) = cnt_in p a + cnt_in p b.
Proof. apply count_occ_app. Qed.
Lemma flat_rej_app (res : list (packet * result)) x :
  flat_map (fun r => match snd r with ROk => [] | _ => [fst r] end) (res ++ [x]) =
  flat_map (fun r => match snd r with ROk => [] | _ => [fst r] end) res ++ (match snd x with ROk => [] | _ => [fst x] end).
Proof. rewrite flat_map_app. cbn. rewrite app_nil_r. reflexivity. Qed.

Lemma tot_step p s i ch s' : step s i ch = Some s' -> tot p s' = tot p s.
Proof.
  intros H. unfold tot. step_cases H; simp_st; rewrite ?sumw_app;
    match goal with
    | Hn : nth_error (threads s) i = Some ?t |- context [upd (threads s) i ?t'] =>
        pose proof (sumw_upd p (threads s) i t t' Hn) as Hs
    end;
    unfold wgt in *; cbn [pending rejected tl map sumw snd fst] in *;
    rewrite ?flat_rej_app, ?cnt_in_app in *; cbn [snd fst cnt_in count_occ app] in *;
    try (match goal with |- context [if ?b then _ else _] => destruct b end);
    unfold cnt_in in *; cbn [count_occ] in *;
    try (destruct (Nat.eq_dec (cid c) p)); try lia.
  all: unfold wgt; cbn; lia.
Qed.
Lemma tot_run p sched : forall s, tot p (run s sched) = tot p s.
Proof.
  induction sched as [|e r IH]; intros s; cbn [run]; [reflexivity|].
  destruct e as [i ch|]; cbn [step_ev].
  - destruct (step s i ch) as [s1|] eqn:E; [rewrite IH; eapply tot_step; eauto|apply IH].
  - rewrite IH. reflexivity.
Qed.

(* ---------- C01: at most once, errors send nothing, order ---------- *)
Definition wf_cids (ths : list thread) : Prop := NoDup (flat_map pending ths).

Lemma sumw_flat p l : (forall t, In t l -> rejected t = []) -> sumw p l = cnt_in p (flat_map pending l).
Proof.
  induction l as [|a l IH]; intros H; cbn [sumw flat_map]; [reflexivity|].
  rewrite cnt_in_app, IH by (intros t Ht; apply H; right; exact Ht).
  unfold wgt. rewrite (H a (or_introl eq_refl)). cbn. lia.
Qed.

Lemma init_rejected ths : forallb init_thread ths = true -> forall t, In t ths -> rejected t = [].
Proof.
  intros Hall t Ht. rewrite forallb_forall in Hall. specialize (Hall t Ht).
  destruct t as [? [] [|]| | |]; cbn in *; try congruence; reflexivity.
Qed.

Lemma tot_init_le p qc until ths : forallb init_thread ths = true -> wf_cids ths -> tot p (init qc until ths) <= 1.
Proof.
  intros Hi Hw. unfold tot. cbn [init accepted threads]. rewrite (sumw_flat p ths (init_rejected ths Hi)).
  unfold cnt_in. cbn [count_occ]. apply (proj1 (NoDup_count_occ Nat.eq_dec _) Hw).
Qed.

Lemma sumw_ge p l i t : nth_error l i = Some t -> wgt p t <= sumw p l.
Proof. revert i; induction l as [|a l IH]; intros [|i] H; simpl in *; try discriminate; [inversion H; subst; lia|specialize (IH _ H); lia]. Qed.

(* every accepted payload is accepted exactly once *)
Theorem accepted_nodup qc until ths sched : forallb init_thread ths = true -> wf_cids ths ->
  NoDup (accepted (run (init qc until ths) sched)).
Proof.
  intros Hi Hw. apply (NoDup_count_occ Nat.eq_dec). intros p.
  pose proof (tot_run p sched (init qc until ths)) as E. pose proof (tot_init_le p qc until ths Hi Hw) as L.
  unfold tot, cnt_in in *. lia.
Qed.

(* what the transport received is a prefix of the accepted payloads, in acceptance order, whole *)
Theorem sent_prefix s : Inv s -> exists rest, accepted s = concat (tlog s) ++ rest.
Proof. intros Hi. rewrite (I_fifo s Hi). eexists. reflexivity. Qed.

(* a call that returned an error contributes no bytes; a call that has not begun has none either *)
Theorem error_not_accepted qc until ths sched i t p : forallb init_thread ths = true -> wf_cids ths ->
  nth_error (threads (run (init qc until ths) sched)) i = Some t ->
  In p (rejected t) \/ In p (pending t) -> ~ In p (accepted (run (init qc until ths) sched)).
Proof.
  intros Hi Hw Hn Hin Hacc.
  pose proof (tot_run p sched (init qc until ths)) as E. pose proof (tot_init_le p qc until ths Hi Hw) as L.
  pose proof (sumw_ge p _ _ _ Hn) as G. unfold tot, wgt, cnt_in in *.
  assert (0 < count_occ Nat.eq_dec (accepted (run (init qc until ths) sched)) p) by (apply count_occ_In; exact Hacc).
  assert (0 < count_occ Nat.eq_dec (rejected t) p + count_occ Nat.eq_dec (pending t) p).
  { destruct Hin as [Hin|Hin]; apply (count_occ_In Nat.eq_dec) in Hin; lia. }
  lia.
Qed.

(* ---------- C02: quiescence ---------- *)
Lemma cnt_pos_ex P l : 0 < cnt P l -> exists i t, nth_error l i = Some t /\ P t = true.
Proof.
  induction l as [|a l IH]; cbn; [lia|]. destruct (P a) eqn:E.
  - intros _. exists 0, a. auto.
  - intros H. destruct (IH ltac:(lia)) as [i [t [Hn Hp]]]. exists (S i), t. auto.
Qed.

Lemma enabled_some s i s' : step s i CAuto = Some s' -> enabled s i = true.
Proof. intros E. unfold enabled. rewrite E. reflexivity. Qed.

Lemma waker_enabled s i t : Inv s -> nth_error (threads s) i = Some t -> wakes t = true -> enabled s i = true.
Proof.
  intros Hi Hn Hw.
  assert (exists s', step s i CAuto = Some s') as [s' E]; [|eapply enabled_some; eauto].
  unfold step. rewrite Hn.
  destruct t as [calls pc res|pc hand cont|pc cs outer|]; cbn in Hw; try discriminate.
  - destruct calls as [|c l]; [pose proof (I_wcall s Hi i pc res Hn); subst; discriminate|].
    destruct pc; cbn in Hw; try discriminate.
    + destruct (running s); eauto.
    + eauto.
  - destruct pc; cbn in Hw; try discriminate; eauto;
      try (destruct (queue s); eauto; destruct hand; eauto);
      try (destruct (0 <? tclosed s); eauto); try (destruct (running s); eauto).
Qed.

Lemma quiescent_none s i : quiescent s = true -> i < length (threads s) -> enabled s i = false.
Proof.
  unfold quiescent. rewrite forallb_forall. intros H Hi. specialize (H i ltac:(apply in_seq; lia)).
  destruct (enabled s i); [discriminate|reflexivity].
Qed.

(* when nothing can run any more, every accepted payload is on the transport and flushed *)
Theorem quiescent_delivered s : Inv s -> tclosed s = 0 -> quiescent s = true ->
  queue s = [] /\ running s = false /\ unflushed s = 0 /\ accepted s = concat (tlog s).
Proof.
  intros Hi Hc Hq.
  assert (Hnw : cnt wakes (threads s) = 0).
  { destruct (cnt wakes (threads s)) eqn:E; [reflexivity|].
    destruct (cnt_pos_ex wakes (threads s) ltac:(lia)) as [i [t [Hn Hw]]].
    pose proof (waker_enabled s i t Hi Hn Hw) as En.
    rewrite (quiescent_none s i Hq) in En; [discriminate|]. apply nth_error_Some. congruence. }
  assert (Hqe : queue s = []).
  { destruct (queue s) eqn:E; [reflexivity|]. pose proof (I_wake s Hi Hc ltac:(congruence)). lia. }
  assert (Hrun : running s = false).
  { destruct (running s) eqn:E; [|reflexivity]. pose proof (I_token s Hi) as Ht. rewrite E in Ht. cbn in Ht.
    pose proof (cnt_le owns wakes (threads s) owns_wakes). lia. }
  assert (Hh : hands (threads s) = []).
  { apply hands_nil. intros i t Hn. apply (I_hand s Hi i t Hn).
    apply (cnt_zero owns (threads s) i t); [|exact Hn]. rewrite (I_token s Hi), Hrun. reflexivity. }
  assert (Hl : lost s = []) by (destruct (lost s) eqn:E; [reflexivity|]; pose proof (I_lost s Hi ltac:(congruence)); lia).
  split; [exact Hqe|]. split; [exact Hrun|]. split.
  - destruct (unflushed s) eqn:E; [reflexivity|]. pose proof (I_flush s Hi Hc ltac:(lia)). congruence.
  - rewrite (I_fifo s Hi), Hl, Hh, Hqe. cbn. rewrite app_nil_r. reflexivity.
Qed.

(* a blocked writer is never the only thing left: someone who will free a slot can run *)
Theorem no_deadlock s i c l res : Inv s -> tclosed s = 0 -> qcap s > 0 ->
  nth_error (threads s) i = Some (TWriter (c :: l) WSelect res) -> enabled s i = false ->
  exists j, j <> i /\ enabled s j = true.
Proof.
  intros Hi Hc Hq Hn Hen.
  assert (Hfull : queue s <> []).
  { destruct (queue s) eqn:Eq; [exfalso|congruence].
    assert (exists s', step s i CAuto = Some s') as [s' E].
    { unfold step. rewrite Hn. cbn. rewrite Eq. cbn [length].
      destruct (cctx_done c); [eauto|]. destruct (ctx_done s); [eauto|].
      destruct (qcap s); [lia|]. cbn. eauto. }
    rewrite (enabled_some _ _ _ E) in Hen. discriminate. }
  destruct (cnt_pos_ex wakes (threads s) (I_wake s Hi Hc Hfull)) as [j [t [Hj Hw]]].
  exists j. split; [|eapply waker_enabled; eauto]. intros ->. rewrite Hn in Hj. inversion Hj; subst. discriminate.
Qed.

(* ---------- the select of asyncWrite ---------- *)
Lemma pick_enq s c ch : select_pick s c ch = Some CEnq -> length (queue s) < qcap s.
Proof.
  unfold select_pick. destruct ch;
    repeat match goal with |- context [if ?b then _ else _] => destruct b eqn:? end; try discriminate;
    intros _; apply Nat.ltb_lt; assumption.
Qed.
Lemma pick_nospace s c ch : select_pick s c ch = Some CAuto ->
  qcap s <= length (queue s) /\ until_write s = false /\ cctx_done c = false /\ ctx_done s = false.
Proof.
  unfold select_pick. destruct ch;
    repeat match goal with |- context [if ?b then _ else _] => destruct b eqn:? end; try discriminate.
  intros _. repeat split; auto. apply Nat.ltb_ge. assumption.
Qed.
Lemma pick_auto_none s c : select_pick s c CAuto = None <->
  (qcap s <= length (queue s) /\ until_write s = true /\ cctx_done c = false /\ ctx_done s = false).
Proof.
  unfold select_pick. destruct (cctx_done c); [split; [discriminate|intros [_ [_ [? _]]]; discriminate]|].
  destruct (ctx_done s); [split; [discriminate|intros [_ [_ [_ ?]]]; discriminate]|].
  destruct (length (queue s) <? qcap s) eqn:E.
  - apply Nat.ltb_lt in E. split; [discriminate|intros [? _]; lia].
  - apply Nat.ltb_ge in E. destruct (until_write s); split; try discriminate; auto.
    intros [_ [? _]]; discriminate.
Qed.

(* ---------- C18: back-pressure ---------- *)
(* non-blocking mode: a write call can always take its next step (it never parks) *)
Theorem nonblocking_never_parks s i c l pc res : until_write s = false ->
  nth_error (threads s) i = Some (TWriter (c :: l) pc res) -> exists s', step s i CAuto = Some s'.
Proof.
  intros Hu Hn. unfold step. rewrite Hn. destruct pc; cbv beta iota zeta.
  - destruct (closedErr s); eexists; reflexivity.
  - destruct (select_pick s c CAuto) as [[]|] eqn:E; try (eexists; reflexivity).
    apply pick_auto_none in E. destruct E as [_ [E _]]. congruence.
  - destruct (running s); eexists; reflexivity.
  - eexists; reflexivity.
Qed.

(* the queue-full error is reported only when the queue really is full and nothing else is ready *)
Theorem nospace_only_when_full s i c l res ch s' :
  nth_error (threads s) i = Some (TWriter (c :: l) WSelect res) -> step s i ch = Some s' ->
  nth_error (threads s') i = Some (TWriter l WCheck (res ++ [(cid c, RNoSpace)])) ->
  qcap s <= length (queue s) /\ until_write s = false /\ cctx_done c = false /\ ctx_done s = false /\
  queue s' = queue s /\ accepted s' = accepted s.
Proof.
  intros Hn H Hr. unfold step in H. rewrite Hn in H. cbv beta iota zeta in H.
  destruct (select_pick s c ch) as [[]|] eqn:E; inversion H; subst; clear H; simp_st;
    rewrite (nth_upd_same _ _ _ _ Hn) in Hr; inversion Hr;
    try (match goal with E0 : _ ++ [_] = _ ++ [_] |- _ => apply app_inj_tail in E0; destruct E0 as [_ E0]; inversion E0 end).
  destruct (pick_nospace _ _ _ E) as [? [? [? ?]]]. repeat split; auto.
Qed.

(* blocking mode: the call is parked exactly while the queue is full and neither context has ended *)
Theorem blocking_parks_iff s i c l res : until_write s = true ->
  nth_error (threads s) i = Some (TWriter (c :: l) WSelect res) ->
  (step s i CAuto = None <-> (qcap s <= length (queue s) /\ cctx_done c = false /\ ctx_done s = false)).
Proof.
  intros Hu Hn. unfold step. rewrite Hn. cbv beta iota zeta.
  destruct (select_pick s c CAuto) as [[]|] eqn:E.
  - apply pick_nospace in E. destruct E as [_ [E _]]. congruence.
  - split; [discriminate|]. intros [Hq _]. apply pick_enq in E. lia.
  - split; [discriminate|]. intros [_ [Hc Hd]]. unfold select_pick in E. rewrite Hc, Hd, Hu in E.
    destruct (length (queue s) <? qcap s); discriminate.
  - split; [discriminate|]. intros [_ [Hc Hd]]. unfold select_pick in E. rewrite Hc, Hd, Hu in E.
    destruct (length (queue s) <? qcap s); discriminate.
  - apply pick_auto_none in E. destruct E as [? [_ [? ?]]]. split; auto.
Qed.

(* when the select returns an error nothing is enqueued or transmitted *)
Theorem select_error_no_accept s i c l res ch s' r :
  nth_error (threads s) i = Some (TWriter (c :: l) WSelect res) -> step s i ch = Some s' ->
  nth_error (threads s') i = Some (TWriter l WCheck (res ++ [(cid c, r)])) ->
  queue s' = queue s /\ accepted s' = accepted s /\ tlog s' = tlog s.
Proof.
  intros Hn H Hr. unfold step in H. rewrite Hn in H. cbv beta iota zeta in H.
  destruct (select_pick s c ch) as [[]|] eqn:E; inversion H; subst; clear H; simp_st; auto.
  rewrite (nth_upd_same _ _ _ _ Hn) in Hr. discriminate Hr.
Qed.

(* accepted-but-unsent payloads never exceed the queue size plus one batch *)
Definition hand_bound (s : st) (t : thread) : Prop :=
  match t with
  | TSender SPoll h _ => length h < batch_cap s
  | TSender SWritev h _ => length h <= batch_cap s
  | _ => True
  end.
Record Bound (s : st) : Prop := {
  B_queue : qcap s > 0 -> length (queue s) <= qcap s;
  B_hand : forall i t, nth_error (threads s) i = Some t -> hand_bound s t }.

Ltac ltb_hyps := repeat match goal with
  | E : (_ <? _) = true |- _ => apply Nat.ltb_lt in E
  | E : (_ <? _) = false |- _ => apply Nat.ltb_ge in E end.

Lemma bound_step s i ch s' : Bound s -> step s i ch = Some s' -> Bound s'.
Proof.
  intros [Bq Bh] H. constructor.
  - step_cases H; simp_st; auto; intros Hq; specialize (Bq Hq); ltb_hyps;
      repeat match goal with E : queue s = _ |- _ => rewrite E in * end;
      rewrite ?app_length in *; cbn [length] in *; try lia.
    match goal with E : select_pick _ _ _ = Some CEnq |- _ => apply pick_enq in E; lia end.
  - intros j t Hn.
    step_cases H; simp_st; ltb_hyps;
      try (match goal with Hx : nth_error (_ ++ _) _ = _ |- _ => idtac end || (
           apply nth_upd_cases in Hn; destruct Hn as [[_ E]|[_ Hn]];
           [subst t; cbn; unfold batch_cap in *; cbn in *; auto; try lia;
            try (match goal with |- context [if ?b then _ else _] => destruct b eqn:?; ltb_hyps; cbn; unfold batch_cap in *; cbn in *; try lia end);
            try (match goal with Hn0 : nth_error (threads s) i = Some (TSender SPoll ?h ?c) |- _ =>
                   pose proof (Bh i _ Hn0) as Hh; cbn in Hh; unfold batch_cap in *; cbn in *; rewrite ?app_length in *; cbn in *; lia end)
           |specialize (Bh j t Hn); destruct t as [| [] | |]; cbn in *; unfold batch_cap in *; cbn in *; auto])).
    destruct (lt_dec j (length (upd (threads s) i (TWriter l WCheck (results ++ [(cid c, ROk)]))))) as [Hlt|Hge].
    + rewrite nth_error_app1 in Hn by exact Hlt. apply nth_upd_cases in Hn. destruct Hn as [[_ E]|[_ Hn]]; [subst t; exact I|].
      specialize (Bh j t Hn). destruct t as [| [] | |]; cbn in *; unfold batch_cap in *; cbn in *; auto.
    + rewrite nth_error_app2 in Hn by lia.
      destruct (j - length (upd (threads s) i (TWriter l WCheck (results ++ [(cid c, ROk)])))) as [|k]; cbn in Hn;
        [inversion Hn; exact I|destruct k; discriminate].
Qed.

(* ---------- C11: writes on a closed channel ---------- *)
Definition closer_closed (s : st) (t : thread) : Prop :=
  match t with
  | TCloser CCas _ None => True
  | TCloser _ _ _ => closed s = true
  | TSender _ _ (Some _) => closed s = true
  | _ => True
  end.
Record ClosedInv (s : st) : Prop := {
  K_ret : creturned s = true -> closed s = true;
  K_thr : forall i t, nth_error (threads s) i = Some t -> closer_closed s t }.

Lemma closed_mono s i ch s' : step s i ch = Some s' -> closed s = true -> closed s' = true.
Proof. intros H Hc. step_cases H; simp_st; auto. Qed.

Lemma closedinv_step s i ch s' : ClosedInv s -> step s i ch = Some s' -> ClosedInv s'.
Proof.
  intros [Kr Kt] H. pose proof (closed_mono s i ch s' H) as Hm. constructor.
  - step_cases H; simp_st; auto; intros _;
      match goal with Hn : nth_error (threads s) i = Some ?t |- _ => pose proof (Kt i t Hn) as Hk; cbn in Hk; auto end.
  - intros j t Hn.
    assert (Hold : forall u, closer_closed s u -> closer_closed s' u).
    { intros u Hu. destruct u as [| ? ? [c|] | [] ? [c|] |]; cbn in *; auto. }
    step_cases H; simp_st;
      try (match goal with Hx : nth_error (_ ++ _) _ = _ |- _ => idtac end || (
           apply nth_upd_cases in Hn; destruct Hn as [[_ E]|[_ Hn]];
           [subst t; cbn; auto;
            match goal with Hn0 : nth_error (threads s) i = Some ?t0 |- _ => pose proof (Kt i t0 Hn0) as Hk; cbn in Hk; auto end;
            try (match goal with |- context [if ?b then _ else _] => destruct b; cbn; auto end);
            try (destruct cont; cbn; auto); try (destruct outer; cbn; auto)
           |specialize (Kt j t Hn); destruct t as [| ? ? [c0|] | [] ? [c0|] |]; cbn in *; auto])).
    destruct (lt_dec j (length (upd (threads s) i (TWriter l WCheck (results ++ [(cid c, ROk)]))))) as [Hlt|Hge].
    + rewrite nth_error_app1 in Hn by exact Hlt. apply nth_upd_cases in Hn. destruct Hn as [[_ E]|[_ Hn]]; [subst t; exact I|].
      apply Hold. apply (Kt j t Hn).
    + rewrite nth_error_app2 in Hn by lia.
      destruct (j - length (upd (threads s) i (TWriter l WCheck (results ++ [(cid c, ROk)])))) as [|k]; cbn in Hn;
        [inversion Hn; exact I|destruct k; discriminate].
Qed.

(* a write that begins on a closed channel (or one whose context has ended)
   fails at its very first step and touches nothing *)
Theorem write_on_closed_fails s i c l res ch s' : closedErr s = true ->
  nth_error (threads s) i = Some (TWriter (c :: l) WCheck res) -> step s i ch = Some s' ->
  nth_error (threads s') i = Some (TWriter l WCheck (res ++ [(cid c, RClosed)])) /\
  queue s' = queue s /\ accepted s' = accepted s /\ tlog s' = tlog s /\ running s' = running s.
Proof.
  intros Hc Hn H. unfold step in H. rewrite Hn, Hc in H. inversion H; subst; clear H. simp_st.
  rewrite (nth_upd_same _ _ _ _ Hn). auto.
Qed.

(* Proofs about the pool model (Model/Pool.v) over the TRANSLATED arithmetic. *)
From Coq Require Import ZArith Lia Bool List.
From GN Require Import Base.GoInt Gen.PMath Gen.PoolArith Model.Pool Proof.PMath_proofs.
Import ListNotations.
Open Scope Z_scope.

(* ---------- geometry ---------- *)
Lemma geom_facts max sh st : 1 <= max <= 2 ^ 62 -> pool_geom max = Some (sh, st) ->
  pow2 st /\ st <= 2 ^ 62 /\ 1 <= sh <= 65.
Proof.
  intros Hm. unfold pool_geom. rewrite Max_spec. rewrite Z.max_l by lia.
  destruct (ceil_spec max Hm) as [ms [-> [Hp2 Hms]]].
  rewrite Min_spec, Max_spec.
  set (sh0 := Z.max 1 (Z.min ms 64)).
  assert (Hsh0 : 1 <= sh0 <= 64 /\ sh0 <= ms) by (unfold sh0; lia).
  assert (Hq : 1 <= Z.quot ms sh0 <= 2 ^ 62).
  { rewrite Z.quot_div_nonneg by lia. split.
    - apply Z.div_le_lower_bound; lia.
    - destruct (Z_le_gt_dec ms (2 ^ 62)) as [Hle|Hgt].
      + transitivity ms; [|exact Hle]. apply Z.div_le_upper_bound; nia.
      + (* ms > 2^62 forces sh0 = 64 *)
        assert (sh0 = 64) as -> by (unfold sh0; lia).
        apply Z.div_le_upper_bound; lia. }
  unfold g_quot. rewrite wrap64_id by (unfold in64, two63; lia).
  destruct (ceil_spec _ Hq) as [st' [-> [Hp2' Hst']]].
  intros H. unfold g_add, g_mul in H.
  assert (Hst62 : st' <= 2 ^ 62).
  { destruct Hp2' as [k [Hk ->]]. destruct (Z_le_gt_dec k 62) as [Hle|Hgt].
    - apply Z.pow_le_mono_r; lia.
    - exfalso. assert (2 ^ 63 <= 2 ^ k) by (apply Z.pow_le_mono_r; lia). lia. }
  rewrite (wrap64_id (sh0 + 1)) in H by (unfold in64, two63; lia).
  destruct (Z.ltb _ ms) in H; inversion H; subst; (split; [exact Hp2'|]); split; lia.
Qed.

(* ---------- size classes ---------- *)
Definition is_class (st c : Z) : Prop := (st | c) /\ st <= c /\ c < 2 ^ 63.

Lemma class_index_inj st a b : 0 < st -> is_class st a -> is_class st b ->
  Z.quot (a - 1) st = Z.quot (b - 1) st -> a = b.
Proof.
  intros Hst [[qa ->] [Ha _]] [[qb ->] [Hb _]].
  assert (1 <= qa) by nia. assert (1 <= qb) by nia.
  rewrite !Z.quot_div_nonneg by nia.
  replace (qa * st - 1) with ((qa - 1) * st + (st - 1)) by lia.
  replace (qb * st - 1) with ((qb - 1) * st + (st - 1)) by lia.
  rewrite !Z.div_add_l by lia. rewrite (Z.div_small (st - 1) st) by lia. nia.
Qed.

Lemma size_class st i : pow2 st -> st <= 2 ^ 62 -> - 2 ^ 63 <= i <= 2 ^ 62 ->
  exists n, pool_size st i = Some n /\ is_class st n /\ i <= n.
Proof.
  intros Hp Hst62 Hi. pose proof (pow2_pos _ Hp) as Hst. unfold pool_size.
  destruct (Z.leb_spec i st) as [Hle|Hgt].
  - exists st. split; [reflexivity|]. split; [|lia]. split; [exists 1; lia|]. lia.
  - destruct (ceil_spec i ltac:(lia)) as [c [-> [Hpc Hc]]].
    exists c. split; [reflexivity|]. split; [|lia].
    split; [apply pow2_le_divide; auto; lia|]. lia.
Qed.

Lemma size_panics st i : pow2 st -> st <= 2 ^ 62 -> 2 ^ 62 < i < 2 ^ 63 -> pool_size st i = None.
Proof.
  intros Hp Hst Hi. unfold pool_size. destruct (Z.leb_spec i st); [lia|]. apply ceil_panics. lia.
Qed.

Lemma put_stores sh st cap idx : pow2 st -> 0 <= cap < 2 ^ 63 ->
  pool_put sh st cap = PStore idx -> is_class st cap /\ idx = Z.quot (cap - 1) st.
Proof.
  intros Hp Hc. pose proof (pow2_pos _ Hp) as Hst. unfold pool_put.
  destruct (Z.ltb_spec cap st) as [|Hge]; [discriminate|]. cbn [orb].
  destruct (IsPowerOfTwo cap) eqn:E; [|discriminate]. cbn [negb].
  cbv zeta. unfold g_quot, g_sub.
  destruct (Z.ltb _ sh); [|discriminate]. intros H; inversion H; subst; clear H.
  apply IsPowerOfTwo_pos_pow2 in E; [|lia].
  rewrite (wrap64_id (cap - 1)) by (unfold in64, two63; lia).
  assert (0 <= Z.quot (cap - 1) st <= cap - 1).
  { rewrite Z.quot_div_nonneg by lia. split; [apply Z.div_pos; lia|].
    apply Z.div_le_upper_bound; nia. }
  rewrite wrap64_id by (unfold in64, two63; lia).
  split; [|reflexivity]. split; [apply pow2_le_divide; auto|lia].
Qed.

Lemma put_no_panic sh st cap : pool_put sh st cap <> PPanic.
Proof.
  unfold pool_put. cbv zeta.
  repeat match goal with |- context [if ?c then _ else _] => destruct c end; discriminate.
Qed.

(* ---------- the store invariant ---------- *)
Definition entry_ok (st : Z) (e : Z * buf) : Prop :=
  is_class st (bcap (snd e)) /\ fst e = Z.quot (bcap (snd e) - 1) st.
Definition store_ok (s : pstate) : Prop := Forall (entry_ok (p_st s)) (store s).

Lemma take_spec idx id l b l' : take idx id l = Some (b, l') ->
  In (idx, b) l /\ bid b = id /\ (forall P, Forall P l -> Forall P l').
Proof.
  revert b l'. induction l as [|[i x] r IH]; intros b l'; cbn [take]; [discriminate|].
  destruct (andb (Z.eqb i idx) (Nat.eqb (bid x) id)) eqn:E.
  - intros H; inversion H; subst; clear H. apply andb_true_iff in E as [E1 E2].
    apply Z.eqb_eq in E1. apply Nat.eqb_eq in E2. subst.
    split; [left; reflexivity|]. split; [reflexivity|]. intros P HP. inversion HP; assumption.
  - destruct (take idx id r) as [[b' r']|] eqn:T; [|discriminate].
    intros H; inversion H; subst; clear H. destruct (IH _ _ eq_refl) as [Hin [Hid Hall]].
    split; [right; exact Hin|]. split; [exact Hid|].
    intros P HP. inversion HP; subst. constructor; auto.
Qed.

Definition op_wf (o : pop) : Prop :=
  match o with
  | OGet size _ => - 2 ^ 63 <= size < 2 ^ 63
  | OPut _ cap => 0 <= cap < 2 ^ 63
  end.

Lemma step_ok s o : pow2 (p_st s) -> p_st s <= 2 ^ 62 -> store_ok s -> op_wf o ->
  let '(s', r) := pstep s o in
  p_st s' = p_st s /\ p_sh s' = p_sh s /\ store_ok s' /\ get_ok o r = true.
Proof.
  intros Hp Hst62 Hinv Hwf. pose proof (pow2_pos _ Hp) as Hst.
  destruct o as [size hint|id cap]; cbn [pstep op_wf] in *.
  - unfold pool_get.
    destruct (Z_le_gt_dec size (2 ^ 62)) as [Hle|Hgt].
    + destruct (size_class (p_st s) size Hp Hst62 ltac:(lia)) as [n [-> [Hcl Hn]]].
      cbv zeta. unfold g_quot, g_sub.
      assert (Hn1 : wrap64 (n - 1) = n - 1).
      { apply wrap64_id. destruct Hcl as [_ [? ?]]. unfold in64, two63. lia. }
      rewrite Hn1.
      assert (Hq : wrap64 (Z.quot (n - 1) (p_st s)) = Z.quot (n - 1) (p_st s)).
      { destruct Hcl as [_ [? ?]]. apply wrap64_id. rewrite Z.quot_div_nonneg by lia.
        assert (0 <= (n - 1) / p_st s) by (apply Z.div_pos; lia).
        assert ((n - 1) / p_st s <= n - 1) by (apply Z.div_le_upper_bound; nia).
        unfold in64, two63. lia. }
      rewrite Hq.
      assert (Hmiss : forall h, let '(s', r) := run_get s (GMiss n) h in
                p_st s' = p_st s /\ p_sh s' = p_sh s /\ store_ok s' /\ get_ok (OGet size hint) r = true).
      { intros [h|]; cbn [run_get alloc get_ok]; repeat split; auto.
        cbn [bcap]. apply Z.leb_le. lia. }
      destruct (Z.ltb _ (p_sh s)); [|apply Hmiss].
      cbn [run_get]. destruct hint as [id|]; [|apply (Hmiss None)].
      destruct (take _ id (store s)) as [[b st']|] eqn:T; [|repeat split; auto].
      destruct (take_spec _ _ _ _ _ T) as [Hin [Hid Hall]].
      cbn [p_st p_sh store get_ok]. repeat split; auto.
      * apply Hall. exact Hinv.
      * apply Z.leb_le. unfold store_ok in Hinv. rewrite Forall_forall in Hinv.
        destruct (Hinv _ Hin) as [Hcb Hidx]. cbn [fst snd] in *.
        assert (bcap b = n) as -> by (apply (class_index_inj (p_st s)); auto). lia.
    + rewrite size_panics by (auto; lia). cbn [run_get get_ok]. repeat split; auto.
      apply Z.ltb_lt. lia.
  - destruct (pool_put (p_sh s) (p_st s) cap) as [idx| |] eqn:E; cbn [get_ok]; repeat split; auto;
      try (exfalso; exact (put_no_panic _ _ _ E)).
    unfold store_ok. cbn [p_st store]. constructor; [|exact Hinv].
    destruct (put_stores _ _ _ _ Hp Hwf E) as [Hcl ->]. split; [exact Hcl|reflexivity].
Qed.

Lemma run_ok ops : forall s, pow2 (p_st s) -> p_st s <= 2 ^ 62 -> store_ok s -> Forall op_wf ops ->
  holds_caps ops (snd (prun s ops)) = true.
Proof.
  induction ops as [|o r IH]; intros s Hp H62 Hinv Hwf; [reflexivity|].
  inversion Hwf as [|? ? Ho Hr]; subst. cbn [prun].
  pose proof (step_ok s o Hp H62 Hinv Ho) as Hs.
  destruct (pstep s o) as [s1 x]. destruct Hs as [E1 [E2 [Hinv1 Hok]]].
  specialize (IH s1). rewrite E1 in IH. specialize (IH Hp H62 Hinv1 Hr).
  destruct (prun s1 r) as [s2 xs]. unfold holds_caps in *. cbn [snd combine forallb fst] in *.
  rewrite Hok, IH. reflexivity.
Qed.

Theorem pool_get_cap max s0 ops : 1 <= max <= 2 ^ 62 -> pool_new max = Some s0 ->
  Forall op_wf ops -> holds_caps ops (snd (prun s0 ops)) = true.
Proof.
  intros Hm Hn Hwf. unfold pool_new in Hn. destruct (pool_geom max) as [[sh st]|] eqn:G; [|discriminate].
  inversion Hn; subst; clear Hn. destruct (geom_facts _ _ _ Hm G) as [Hp [H62 _]].
  apply run_ok; auto. constructor.
Qed.

(* ---------- exclusive hand-out ---------- *)
Fixpoint count_in (id : nat) (l : list (Z * buf)) : nat :=
  match l with
  | [] => 0
  | (_, b) :: r => (if Nat.eqb (bid b) id then 1 else 0) + count_in id r
  end.

Lemma take_count idx id l b l' i : take idx id l = Some (b, l') ->
  count_in i l = ((if Nat.eqb (bid b) i then 1 else 0) + count_in i l')%nat.
Proof.
  revert b l'. induction l as [|[j x] r IH]; intros b l'; cbn [take]; [discriminate|].
  destruct (andb _ _).
  - intros H; inversion H; subst. reflexivity.
  - destruct (take idx id r) as [[b' r']|]; [|discriminate].
    intros H; inversion H; subst; clear H. cbn [count_in]. rewrite (IH _ _ eq_refl). lia.
Qed.

Lemma run_get_count s plan hint i : let '(s', r) := run_get s plan hint in
  (count_in i (store s) =
   (match r with RGot b true => if Nat.eqb (bid b) i then 1 else 0 | _ => 0 end) + count_in i (store s'))%nat.
Proof.
  induction plan as [idx n els IH|n|]; cbn [run_get].
  - destruct hint as [id|]; [|exact IH].
    destruct (take idx id (store s)) as [[b st']|] eqn:T; [|reflexivity].
    cbn [store]. apply (take_count _ _ _ _ _ i T).
  - destruct hint; reflexivity.
  - reflexivity.
Qed.

Lemma excl_aux i ops : forall s,
  let '(s', outs) := prun s ops in
  (count_hits i ops outs + count_in i (store s') <= count_puts i ops + count_in i (store s))%nat.
Proof.
  induction ops as [|o r IH]; intros s; cbn [prun]; [cbn; lia|].
  destruct (pstep s o) as [s1 x] eqn:E1. specialize (IH s1).
  destruct (prun s1 r) as [s2 xs].
  destruct o as [size hint|id cap]; cbn [pstep] in E1.
  - pose proof (run_get_count s (pool_get (p_sh s) (p_st s) size) hint i) as Hc.
    rewrite E1 in Hc. cbn [count_hits count_puts].
    destruct x as [b [|]| | |]; cbn [count_hits]; lia.
  - cbn [count_puts]. destruct (pool_put (p_sh s) (p_st s) cap); inversion E1; subst; clear E1;
      cbn [count_hits store count_in bid] in *; lia.
Qed.

Theorem pool_exclusive max s0 ops i : pool_new max = Some s0 ->
  (count_hits i ops (snd (prun s0 ops)) <= count_puts i ops)%nat.
Proof.
  intros Hn. unfold pool_new in Hn. destruct (pool_geom max) as [[sh st]|]; [|discriminate].
  inversion Hn; subst; clear Hn.
  pose proof (excl_aux i ops {| p_sh := sh; p_st := st; store := []; fresh := 0 |}) as H.
  destruct (prun _ ops) as [s' outs]. cbn [snd store count_in] in *. lia.
Qed.

(* C07: panics are contained and routed as exceptions (dispatch part). *)
From Coq Require Import List Bool Arith Lia.
From GN Require Import Model.Dispatch Proof.Dispatch_proofs.
Import ListNotations.

(* the property's own premise: exception handlers do not themselves panic *)
Definition exc_safe (l : list ctx) : Prop := Forall (fun c => forall v, behav (snd c) KException <> BPanic v) l.

Lemma exc_run_done x : forall l, exc_safe l -> snd (exc_run l x) = Done.
Proof.
  induction l as [|[i h] r IH]; intros Hs; [reflexivity|]. inversion Hs as [|? ? Hc Hr]; subst. cbn [exc_run].
  destruct (caps h KException); [|apply IH; exact Hr].
  destruct (behav h KException) eqn:E; cbn; try reflexivity.
  - specialize (IH Hr). destruct (exc_run r x). cbn in *. exact IH.
  - exfalso. apply (Hc v). cbn. exact E.
Qed.

Lemma contexts_shape hs : exists (mids : list ctx) n, contexts hs = ((0, head_h) : ctx) :: mids ++ [((n, tail_h) : ctx)] /\ map snd mids = hs.
Proof.
  unfold contexts. cbn [length seq combine].
  assert (G : forall k (l : list handler), exists (mids : list ctx) n, combine (seq k (length (l ++ [tail_h]))) (l ++ [tail_h]) = mids ++ [((n, tail_h) : ctx)] /\ map snd mids = l).
  { intros k l. revert k. induction l as [|a l IH]; intros k; cbn.
    - exists [], k. split; reflexivity.
    - destruct (IH (S k)) as [mids [n [E1 E2]]]. exists (((k, a) : ctx) :: mids), n. cbn. rewrite E1, E2. split; reflexivity. }
  destruct (G 1 hs) as [mids [n [E1 E2]]]. exists mids, n. rewrite E1. split; [reflexivity|exact E2].
Qed.

(* handlers whose exception handlers do not panic *)
Definition hs_safe (hs : list handler) : Prop := Forall (fun h => forall v, behav h KException <> BPanic v) hs.

Lemma contexts_safe hs : hs_safe hs -> exc_safe (tl (contexts hs)).
Proof.
  intros Hs. destruct (contexts_shape hs) as [mids [n [E Em]]]. rewrite E. cbn [tl].
  apply Forall_app. split.
  - unfold hs_safe in Hs. rewrite <- Em in Hs. clear E Em. induction mids as [|[i h] r IH]; [constructor|].
    cbn in Hs. inversion Hs; subst. constructor; [cbn; assumption|apply IH; assumption].
  - constructor; [|constructor]. intros v. cbn. discriminate.
Qed.

(* CONTAINMENT: whatever the entry point's body did - including a panic raised at any handler
   position for any event kind - invokeMethod returns normally to its caller *)
Theorem invoke_contained hs closed body : hs_safe hs -> snd (invoke hs closed body) = Done.
Proof.
  intros Hs. unfold invoke. destruct body as [t [|v]]; [reflexivity|]. destruct closed; [reflexivity|].
  unfold fire_exception. pose proof (exc_run_done (as_exception v) _ (contexts_safe hs Hs)) as E.
  destruct (exc_run (tl (contexts hs)) (as_exception v)). cbn in *. exact E.
Qed.

(* the same for a panic under ctx.Write / ctx.Trigger (handlerContext's own recover) *)
Theorem ctx_write_contained all pre_rev : exc_safe all -> snd (ctx_write all pre_rev) = Done.
Proof.
  intros Hs. unfold ctx_write. destruct (out_run pre_rev) as [t [|v]]; [reflexivity|].
  pose proof (exc_run_done (as_exception v) all Hs) as E. destruct (exc_run all (as_exception v)). cbn in *. exact E.
Qed.
Theorem ctx_trigger_contained all pre_rev suffix : exc_safe all -> snd (ctx_trigger all pre_rev suffix) = Done.
Proof.
  intros Hs. unfold ctx_trigger. destruct (evt_run all pre_rev suffix) as [t [|v]]; [reflexivity|].
  pose proof (exc_run_done (as_exception v) all Hs) as E. destruct (exc_run all (as_exception v)). cbn in *. exact E.
Qed.

(* ROUTING: the panic becomes exactly one exception - the panic value itself when it is an
   error - delivered to the exception handlers in pipeline order up to the first that does not
   forward; if all forward, exactly one close with that exception; a non-timeout net.Error also closes *)
Theorem invoke_routes hs t v : Forall simple_x (removelast (tl (contexts hs))) ->
  exists (mids : list ctx) n, tl (contexts hs) = mids ++ [((n, tail_h) : ctx)] /\
  invoke hs false (t, Escaped v) =
  (t ++ (map (visit KException) (route KException mids) ++
         (if all_forward KException mids then [TChanClose (as_exception v)] else [])) ++
        (if closes_on v then [TChanClose (XSame v)] else []), Done).
Proof.
  intros Hs. destruct (contexts_shape hs) as [mids [n [E Em]]]. exists mids, n. rewrite E in Hs. cbn [tl] in Hs.
  split; [rewrite E; reflexivity|]. unfold invoke, fire_exception. rewrite E. cbn [tl].
  rewrite removelast_last in Hs. pose proof (exc_run_route (as_exception v) n mids Hs) as R.
  cbv zeta. match goal with |- context [exc_run ?l ?x] => destruct (exc_run l x) as [t' s'] eqn:Ex end.
  pose proof (eq_trans (eq_sym Ex) R) as Q. inversion Q; subst. reflexivity.
Qed.

Theorem as_exception_identity v : match v with PStr _ => as_exception v = XWrapped v | _ => as_exception v = XSame v end.
Proof. destruct v; reflexivity. Qed.

(* closed / closing channel: the panic is swallowed, nothing else happens *)
Theorem invoke_closed_swallows hs t v : invoke hs true (t, Escaped v) = (t, Done).
Proof. reflexivity. Qed.

(* ---------------- the observation checker of Model/PipeCheck.v demands no more than the model gives:
   an exception fired into the pipeline is first seen by the first exception handler from the head ---------------- *)
From GN Require Import Model.PipeCheck.
Lemma exc_run_first_gen : forall (l : list handler) (b : nat) x,
  match first_exc_visit (map oev_of (fst (exc_run (combine (seq b (length l)) l) x))) with
  | None => True
  | Some p => first_exc_pos l b = Some p
  end.
Proof.
  induction l as [|h r IH]; intros b x; [exact I|].
  cbn [length seq combine exc_run first_exc_pos]. destruct (caps h KException) eqn:Ec.
  - destruct (behav h KException) eqn:Eb;
      try (cbn [fst map oev_of first_exc_visit]; reflexivity);
      try (destruct (exc_run (combine (seq (S b) (length r)) r) x) as [t s]; cbn [fst map oev_of first_exc_visit]; reflexivity).
    all: cbn [fst map oev_of first_exc_visit]; try reflexivity; try exact I; try (destruct x; exact I).
  - apply IH.
Qed.

Theorem exception_first_seen_from_head : forall hs x,
  exc_from_head hs (map oev_of (fst (exc_run (contexts hs) x))) = true.
Proof.
  intros hs x. unfold exc_from_head, contexts.
  pose proof (exc_run_first_gen (head_h :: hs ++ [tail_h]) 0 x) as H.
  destruct (first_exc_visit _) as [p|]; [|reflexivity].
  cbn [first_exc_pos] in H. change (caps head_h KException) with false in H. cbn iota in H.
  rewrite H. apply Nat.eqb_refl.
Qed.

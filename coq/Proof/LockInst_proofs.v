From Coq Require Import List Arith Lia Bool.
From GN Require Import Model.Lockset Proof.Lockset_proofs Gen.Access Model.LockPolicy.
Import ListNotations.

(* ---------------- instantiated at the generated site table ---------------- *)

Lemma in_combine_seq (ss : list site) : forall b n s, nth_error ss n = Some s -> In (b + n, s) (combine (seq b (length ss)) ss).
Proof.
  induction ss as [|a r IH]; intros b [|n] s Hn; cbn in Hn; try discriminate.
  - inversion Hn; subst. cbn. left. f_equal. lia.
  - cbn [length seq combine]. right. replace (b + S n) with (S b + n) by lia. apply IH. exact Hn.
Qed.
Lemma bad_sites_nil pol ss : bad_sites pol ss = [] -> forallb (site_ok pol) ss = true.
Proof.
  unfold bad_sites. intros H. apply forallb_forall. intros s Hin.
  destruct (In_nth_error _ _ Hin) as [n Hn].
  destruct (site_ok pol s) eqn:E; [reflexivity|exfalso].
  pose proof (in_combine_seq ss 0 n s Hn) as Hc.
  assert (Hf : In (0 + n, s) (filter (fun ns => negb (site_ok pol (snd ns))) (combine (seq 0 (length ss)) ss))).
  { apply filter_In. split; [exact Hc|]. cbn [snd]. rewrite E. reflexivity. }
  rewrite H in Hf. destruct Hf.
Qed.

Lemma sites_ok_all : forallb (site_ok the_policy) sites = true.
Proof. apply bad_sites_nil. vm_compute. reflexivity. Qed.

Theorem c12_race_free_sites : forall c x, wf_c c -> follows the_policy sites c -> owner_discipline the_policy sites c ->
  p_prot the_policy (snd x) <> POut -> ~ race_on c x.
Proof. intros c x Hw Hf Ho. apply (lockset_sound the_policy sites c x Hw Hf Ho sites_ok_all). Qed.

(* ---------------- a concrete trace: Listener.Close overlapping the accept loop's listen() ---------------- *)
Fixpoint find_site_from (ss : list site) (n f fn : nat) (w : bool) : nat :=
  match ss with
  | [] => 0
  | s :: r => if andb (Nat.eqb (s_field s) f) (andb (Nat.eqb (s_func s) fn) (Bool.eqb (s_write s) w)) then n
              else find_site_from r (S n) f fn w
  end.
Definition find_site := find_site_from sites 0.
Definition lmx : lock := (7, f_listener_mutex).
Definition c12_trace : trace :=
  [ (1, Acq lmx true);
    (1, Acc (7, f_listener_acceptor) false false (find_site f_listener_acceptor fn_listener_listen false));
    (1, Acc (7, f_listener_options) true false (find_site f_listener_options fn_listener_listen true));
    (1, Acc (7, f_listener_acceptor) true false (find_site f_listener_acceptor fn_listener_listen true));
    (1, Rel lmx true);
    (2, Acq lmx true);
    (2, Acc (7, f_listener_closed) true false (find_site f_listener_closed fn_listener_Close true));
    (2, Acc (7, f_listener_acceptor) false false (find_site f_listener_acceptor fn_listener_Close false));
    (2, Rel lmx true);
    (1, Acc (7, f_listener_options) false false (find_site f_listener_options fn_listener_Sync false)) ].

Ltac cases_idx j n := match n with 0 => idtac | S ?m => destruct j as [|j]; [|cases_idx j m] end.
Ltac holds_cases :=
  repeat match goal with
         | |- context [if ?b then _ else _] => let E := fresh "E" in destruct b eqn:E
         end; try reflexivity; try congruence.

Lemma c12_trace_ok : wf_c c12_trace /\ follows the_policy sites c12_trace /\ owner_discipline the_policy sites c12_trace.
Proof.
  split; [|split].
  - unfold wf_c. cbn [c12_trace rev app wf]. repeat split; try reflexivity.
    intros t' m. cbn [holds]. holds_cases.
  - intros i t x w a sid Hn.
    do 10 (destruct i as [|i]; [cbn in Hn; inversion Hn; subst; clear Hn;
      (eexists; split; [vm_compute; reflexivity|]; repeat split; try reflexivity;
       intros lm Hin; vm_compute in Hin;
       repeat (destruct Hin as [Hin|Hin]; [subst lm; left; vm_compute; reflexivity|]); destruct Hin)|]).
    destruct i; discriminate.
  - intros j t x a sid s Hn Hs Hor.
    assert (Hlen : j < 10) by (apply (nth_error_Some c12_trace); congruence).
    cases_idx j 10; try (exfalso; lia); cbn in Hn; inversion Hn; subst; clear Hn.
    + (* event 1: a locked read, not an owner read *)
      vm_compute in Hs. inversion Hs; subst. vm_compute in Hor. discriminate.
    + vm_compute in Hs. inversion Hs; subst. vm_compute in Hor. discriminate.
    + (* the accept loop's unlocked read: every other write is its own *)
      split.
      * intros i t' a' s' Hlt Hi Hne. exfalso.
        do 9 (destruct i as [|i]; [cbn in Hi; inversion Hi; subst; congruence|]). lia.
      * intros k t' a' s' Hlt Hk. exfalso.
        assert (Hk10 : k < 10) by (apply (nth_error_Some c12_trace); congruence). lia.
Qed.

(* Round-trip (C04) and safety (C08) proofs for the frame codecs of Model/Frame.v *)
From Coq Require Import ZArith List Bool Lia.
From GN Require Import Base.GoInt Base.Reader Model.Frame Proof.Reader_proofs.
Import ListNotations.
Open Scope Z_scope.

(* ---------- generic: iterate a decoder over concatenated frames ---------- *)
Section Iterate.
  Variable A : Type.
  Variable dec : script -> dres * script.
  Variable wire out : A -> bytes.
  Variable P : A -> Prop.
  Variable Q : script -> Prop.
  Hypothesis one : forall a r b, P a -> Q r -> contents r = wire a ++ b ->
    exists r', dec r = (DFrame (out a), r') /\ contents r' = b /\ Q r'.

  Lemma decode_n_ok : forall l, Forall P l -> forall r b, Q r ->
    contents r = concat (map wire l) ++ b ->
    exists r', decode_n dec (length l) r = (map out l, None, r') /\ contents r' = b /\ Q r'.
  Proof.
    induction l as [|a l IH]; intros HP r b HQ Hc; cbn [length decode_n map concat] in *.
    - exists r. auto.
    - inversion HP as [|? ? Pa Pl]; subst. rewrite <- app_assoc in Hc.
      destruct (one a r _ Pa HQ Hc) as [r1 [E [Hc1 HQ1]]]. rewrite E.
      destruct (IH Pl r1 b HQ1 Hc1) as [r2 [E2 [Hc2 HQ2]]]. rewrite E2. exists r2. auto.
  Qed.
End Iterate.

(* ---------- fixed-width fields ---------- *)
Lemma le_val_le_bytes n : forall v, le_val (le_bytes n v) = v mod 256 ^ Z.of_nat n.
Proof.
  induction n as [|n IH]; intros v.
  - cbn. rewrite Z.mod_1_r. reflexivity.
  - cbn [le_bytes le_val]. rewrite IH. rewrite Z2N.id by (apply Z.mod_pos_bound; lia).
    rewrite Nat2Z.inj_succ, Z.pow_succ_r by lia.
    rewrite Z.rem_mul_r by (try apply Z.pow_pos_nonneg; lia). reflexivity.
Qed.

Lemma length_le_bytes n v : length (le_bytes n v) = n.
Proof. revert v. induction n; intros; cbn; auto. Qed.

Lemma blen_pack be w v : 0 <= w -> blen (pack be w v) = w.
Proof.
  intros Hw. unfold pack, blen. destruct be; rewrite ?rev_length, length_le_bytes; lia.
Qed.

Lemma width_cases w : width_ok w = true -> w = 1 \/ w = 2 \/ w = 4 \/ w = 8.
Proof. unfold width_ok. rewrite !orb_true_iff, !Z.eqb_eq. tauto. Qed.

Lemma field_cap_bound w : width_ok w = true -> field_cap w <= two63 /\ field_cap w <= 256 ^ w /\ 0 < w.
Proof.
  intros H. destruct (width_cases w H) as [-> | [-> | [-> | ->]]]; unfold field_cap, two63; cbn; lia.
Qed.

Lemma unpack_pack be w v : width_ok w = true -> 0 <= v < field_cap w -> unpack be (pack be w v) = v.
Proof.
  intros Hw Hv. destruct (field_cap_bound w Hw) as [H63 [H256 Hw0]].
  unfold unpack, pack. cbv zeta.
  assert (E : forall l : bytes, (if be then rev (if be then rev l else l) else (if be then rev l else l)) = l)
    by (intros l; destruct be; [apply rev_involutive|reflexivity]).
  rewrite E, le_val_le_bytes, Z2Nat.id by lia.
  rewrite Z.mod_small by lia. apply wrap64_id. unfold in64. unfold two63 in *. lia.
Qed.

(* ---------- length-field decoder ---------- *)
Definition lf_sane (c : lfcfg) : Prop := lf_max c < 2 ^ 62 /\ - 2 ^ 62 < lf_adj c < 2 ^ 62.

Lemma lf_wf_facts c : lf_wf c = true ->
  0 < lf_max c /\ 0 <= lf_off c /\ 0 <= lf_strip c /\ width_ok (lf_w c) = true /\ lf_off c + lf_w c <= lf_max c.
Proof.
  unfold lf_wf. rewrite !andb_true_iff, Z.ltb_lt, !Z.leb_le. intros [[? ?] [? [? ?]]]. repeat split; auto; lia.
Qed.

(* a frame the configuration admits: prefix of `off` bytes, a length field
   holding |rest| - adj, then rest *)
Record lframe := { fr_pre : bytes; fr_rest : bytes }.
Definition lf_value (c : lfcfg) (f : lframe) : Z := blen (fr_rest f) - lf_adj c.
Definition lf_wire (c : lfcfg) (f : lframe) : bytes :=
  fr_pre f ++ pack (lf_be c) (lf_w c) (lf_value c f) ++ fr_rest f.
Definition lf_admits (c : lfcfg) (f : lframe) : Prop :=
  blen (fr_pre f) = lf_off c /\ 0 <= lf_value c f < field_cap (lf_w c) /\
  lf_off c + lf_w c + blen (fr_rest f) <= lf_max c /\ lf_strip c <= lf_off c + lf_w c + blen (fr_rest f).

Lemma lf_decode_one c : lf_wf c = true -> lf_sane c -> forall f r b, lf_admits c f -> True ->
  contents r = lf_wire c f ++ b ->
  exists r', decode_lf c r = (DFrame (bdrop (lf_strip c) (lf_wire c f)), r') /\ contents r' = b /\ True.
Proof.
  intros Hwf [Hm Ha] f r b [Hpre [Hv [Hmax Hstrip]]] _ Hc.
  destruct (lf_wf_facts c Hwf) as [Hmax0 [Hoff [Hst [Hw Hend]]]].
  destruct (field_cap_bound _ Hw) as [H63 [_ Hw0]].
  pose proof (blen_nonneg (fr_rest f)) as Hr0.
  set (fld := pack (lf_be c) (lf_w c) (lf_value c f)) in *.
  assert (Hfl : blen fld = lf_w c) by (apply blen_pack; lia).
  unfold decode_lf. unfold lf_wire in Hc. fold fld in Hc.
  assert (Hc1 : contents r = (fr_pre f ++ fld) ++ (fr_rest f ++ b)) by (rewrite Hc, <- !app_assoc; reflexivity).
  destruct (read_full_ok (lf_off c + lf_w c) r _ _ Hc1) as [r1 [E1 [Hr1 _]]]; [rewrite blen_app; lia|].
  rewrite E1. cbv beta iota zeta.
  replace (bdrop (lf_off c) (fr_pre f ++ fld)) with fld by (rewrite <- Hpre; symmetry; apply bdrop_app_exact).
  assert (Hup : unpack (lf_be c) fld = lf_value c f) by (unfold fld; apply unpack_pack; auto).
  rewrite Hup. unfold lf_value in *.
  destruct (Z.ltb_spec (blen (fr_rest f) - lf_adj c) 0); [lia|].
  unfold two63 in H63.
  rewrite (wrap64_id (lf_adj c + _)) by (unfold in64, two63; lia).
  rewrite wrap64_id by (unfold in64, two63; lia).
  replace (blen (fr_rest f) - lf_adj c + (lf_adj c + (lf_off c + lf_w c)))
    with (lf_off c + lf_w c + blen (fr_rest f)) by lia.
  destruct (Z.ltb_spec (lf_off c + lf_w c + blen (fr_rest f)) (lf_off c + lf_w c)); [lia|].
  destruct (Z.ltb_spec (lf_max c) (lf_off c + lf_w c + blen (fr_rest f))); [lia|].
  destruct (Z.ltb_spec (lf_off c + lf_w c + blen (fr_rest f)) (lf_strip c)); [lia|].
  replace (lf_off c + lf_w c + blen (fr_rest f) - (lf_off c + lf_w c)) with (blen (fr_rest f)) by lia.
  destruct (Z.ltb_spec (blen (fr_rest f)) 0); [lia|].
  destruct (read_full_ok (blen (fr_rest f)) r1 _ _ Hr1 eq_refl) as [r2 [E2 [Hr2 _]]].
  rewrite E2. exists r2. rewrite <- app_assoc. auto.
Qed.

Theorem lf_roundtrip c : lf_wf c = true -> lf_sane c -> forall fs, Forall (lf_admits c) fs ->
  forall r b, contents r = concat (map (lf_wire c) fs) ++ b ->
  exists r', decode_n (decode_lf c) (length fs) r =
             (map (fun f => bdrop (lf_strip c) (lf_wire c f)) fs, None, r') /\ contents r' = b.
Proof.
  intros Hwf Hs fs HF r b Hc.
  destruct (decode_n_ok lframe (decode_lf c) (lf_wire c) (fun f => bdrop (lf_strip c) (lf_wire c f))
              (lf_admits c) (fun _ => True) (lf_decode_one c Hwf Hs) fs HF r b I Hc) as [r' [E [Hc' _]]].
  exists r'. auto.
Qed.

(* encoder: either fails or emits header ++ body whose header is the exact length the decoder needs *)
Theorem pp_encoder_sound c body w : width_ok (pp_w c) = true -> encode_pp c body = Some w ->
  - 2 ^ 61 < pp_adj c < 2 ^ 61 -> blen body < 2 ^ 61 ->
  exists v, w = pack (pp_be c) (pp_w c) v ++ body /\ 0 <= v < field_cap (pp_w c) /\
            unpack (pp_be c) (pack (pp_be c) (pp_w c) v) = v /\
            v = blen body + pp_adj c + (if pp_incl c then pp_w c else 0).
Proof.
  intros Hw He Ha Hb. unfold encode_pp in He. pose proof (blen_nonneg body).
  destruct (field_cap_bound _ Hw) as [H63 [_ Hw0]].
  assert (Hw8 : pp_w c <= 8) by (destruct (width_cases _ Hw) as [-> | [-> | [-> | ->]]]; lia).
  rewrite (wrap64_id (blen body + pp_adj c)) in He by (unfold in64, two63; lia).
  set (len := if pp_incl c then wrap64 (blen body + pp_adj c + pp_w c) else blen body + pp_adj c) in *.
  assert (Hlen : len = blen body + pp_adj c + (if pp_incl c then pp_w c else 0)).
  { unfold len. destruct (pp_incl c); [apply wrap64_id; unfold in64, two63; lia|lia]. }
  destruct (orb (len <? 0) (field_cap (pp_w c) <=? len)) eqn:E; [discriminate|].
  apply orb_false_iff in E as [E1 E2]. apply Z.ltb_ge in E1. apply Z.leb_gt in E2.
  inversion He; subst w. exists len. split; [reflexivity|]. split; [lia|]. split; [|exact Hlen].
  apply unpack_pack; auto.
Qed.

(* prepender + matching decoder round-trip *)
Definition pp_lframe (body : bytes) : lframe := {| fr_pre := []; fr_rest := body |}.

Lemma pp_pair_one c max : width_ok (pp_w c) = true -> - 2 ^ 61 < pp_adj c < 2 ^ 61 -> 0 < max < 2 ^ 61 ->
  forall body r b, (exists w, encode_pp c body = Some w /\ blen w <= max) -> True ->
  contents r = match encode_pp c body with Some w => w | None => [] end ++ b ->
  exists r', decode_lf (pp_decoder c max) r = (DFrame body, r') /\ contents r' = b /\ True.
Proof.
  intros Hw Ha Hmax body r b [w [He Hwl]] _ Hc. rewrite He in Hc.
  pose proof (blen_nonneg body) as Hb0.
  destruct (field_cap_bound _ Hw) as [H63 [_ Hw0]].
  assert (Hw8 : pp_w c <= 8) by (destruct (width_cases _ Hw) as [-> | [-> | [-> | ->]]]; lia).
  assert (Hbl : blen body < 2 ^ 61).
  { unfold encode_pp in He. destruct (orb _ _); [discriminate|]. inversion He; subst w.
    rewrite blen_app in Hwl. pose proof (blen_nonneg (pack (pp_be c) (pp_w c)
      (if pp_incl c then wrap64 (wrap64 (blen body + pp_adj c) + pp_w c) else wrap64 (blen body + pp_adj c)))). lia. }
  destruct (pp_encoder_sound c body w Hw He ltac:(lia) Hbl) as [v [Hwv [Hv [_ Hveq]]]].
  set (d := pp_decoder c max).
  assert (Hd : lf_wf d = true).
  { unfold lf_wf, d, pp_decoder; cbn. rewrite Hw.
    assert (blen w = pp_w c + blen body) by (subst w; rewrite blen_app, blen_pack; lia).
    repeat (apply andb_true_iff; split); try apply Z.ltb_lt; try apply Z.leb_le; try reflexivity; lia. }
  assert (Hs : lf_sane d).
  { unfold lf_sane, d, pp_decoder; cbn. destruct (pp_incl c); split; lia. }
  assert (Hadm : lf_admits d (pp_lframe body)).
  { unfold lf_admits, lf_value, d, pp_decoder, pp_lframe; cbn.
    assert (blen w = pp_w c + blen body) by (subst w; rewrite blen_app, blen_pack; lia).
    repeat split; try (unfold blen; cbn [length]; lia); destruct (pp_incl c); lia. }
  assert (Hwire : lf_wire d (pp_lframe body) = w).
  { unfold lf_wire, lf_value, d, pp_decoder, pp_lframe; cbn. subst w. f_equal. f_equal.
    destruct (pp_incl c); lia. }
  destruct (lf_decode_one d Hd Hs (pp_lframe body) r b Hadm I) as [r' [E [Hc' _]]]; [rewrite Hwire; exact Hc|].
  exists r'. rewrite E. split; [|auto]. f_equal. f_equal. rewrite Hwire. unfold d, pp_decoder; cbn.
  subst w. rewrite <- (blen_pack (pp_be c) (pp_w c) v) at 1 by lia. apply bdrop_app_exact.
Qed.

(* ---------- C08 for the length-field decoder ---------- *)
Theorem lf_complete c r f r' : lf_wf c = true -> decode_lf c r = (DFrame f, r') ->
  exists whole, contents r = whole ++ contents r' /\ f = bdrop (lf_strip c) whole /\
                lf_off c + lf_w c <= blen whole <= lf_max c /\ lf_strip c <= blen whole.
Proof.
  intros Hwf. destruct (lf_wf_facts c Hwf) as [Hmax0 [Hoff [Hst [Hw Hend]]]].
  destruct (field_cap_bound _ Hw) as [_ [_ Hw0]].
  unfold decode_lf. destruct (read_full (lf_off c + lf_w c) r) as [[hdr st] r1] eqn:E1.
  destruct st; try (intros HH; discriminate HH).
  assert (Hn0 : 0 <= lf_off c + lf_w c) by lia.
  destruct (read_full_inv _ _ _ _ Hn0 E1) as [Hc1 Hl1].
  destruct (Z.ltb _ 0); [intros HH; discriminate HH|].
  set (fl := wrap64 _).
  destruct (Z.ltb_spec fl (lf_off c + lf_w c)) as [Hq0|Hq0]; [intros HH; discriminate HH|].
  destruct (Z.ltb_spec (lf_max c) fl) as [Hq1|Hq1]; [intros HH; discriminate HH|].
  destruct (Z.ltb_spec fl (lf_strip c)) as [Hq2|Hq2]; [intros HH; discriminate HH|].
  destruct (Z.ltb_spec (fl - (lf_off c + lf_w c)) 0) as [Hq3|Hq3]; [intros HH; discriminate HH|].
  destruct (read_full (fl - (lf_off c + lf_w c)) r1) as [[body st] r2] eqn:E2.
  destruct st; try (intros HH; discriminate HH).
  assert (Hn2 : 0 <= fl - (lf_off c + lf_w c)) by lia.
  destruct (read_full_inv _ _ _ _ Hn2 E2) as [Hc2 Hl2].
  intros HH; inversion HH; subst. exists (hdr ++ body). rewrite Hc1, Hc2, app_assoc, blen_app.
  repeat split; auto; lia.
Qed.

Theorem lf_no_fault c r : lf_wf c = true -> fst (decode_lf c r) <> DFault.
Proof.
  intros Hwf. unfold decode_lf. destruct (read_full _ r) as [[hdr st] r1].
  destruct st; cbn [fst]; try discriminate.
  destruct (Z.ltb _ 0); [cbn; discriminate|].
  set (fl := wrap64 _).
  destruct (Z.ltb_spec fl (lf_off c + lf_w c)) as [Hq0|Hq0]; [cbn; discriminate|].
  destruct (Z.ltb_spec (lf_max c) fl) as [Hq1|Hq1]; [cbn; discriminate|].
  destruct (Z.ltb_spec fl (lf_strip c)) as [Hq2|Hq2]; [cbn; discriminate|].
  destruct (Z.ltb_spec (fl - (lf_off c + lf_w c)) 0) as [Hq3|Hq3]; [lia|].
  destruct (read_full _ r1) as [[b st] r2]. destruct st; cbn; discriminate.
Qed.

Lemma read_full_empty n r bs st r' : 1 <= n -> contents r = [] -> read_full n r = (bs, st, r') -> st <> ROk.
Proof.
  intros Hn Hc E ->. assert (Hn0 : 0 <= n) by lia. destruct (read_full_inv _ _ _ _ Hn0 E) as [Hc1 Hl].
  rewrite Hc in Hc1. symmetry in Hc1. apply app_eq_nil in Hc1 as [-> _]. rewrite blen_nil in Hl. lia.
Qed.

Theorem lf_eof c r : lf_wf c = true -> contents r = [] -> exists e r', decode_lf c r = (DExc e, r').
Proof.
  intros Hwf Hc. destruct (lf_wf_facts c Hwf) as [_ [Hoff [_ [Hw _]]]].
  destruct (field_cap_bound _ Hw) as [_ [_ Hw0]].
  unfold decode_lf. destruct (read_full _ r) as [[hdr st] r1] eqn:E1.
  assert (Hn1 : 1 <= lf_off c + lf_w c) by lia.
  pose proof (read_full_empty _ _ _ _ _ Hn1 Hc E1).
  destruct st; try congruence; eauto.
Qed.

(* ---------- fixed length ---------- *)
Lemma fx_decode_one len : 0 <= len -> forall (a : bytes) r b, blen a = len -> True -> contents r = a ++ b ->
  exists r', decode_fx len r = (DFrame a, r') /\ contents r' = b /\ True.
Proof.
  intros Hl a r b Ha _ Hc. unfold decode_fx.
  destruct (read_full_ok len r a b Hc Ha) as [r' [E [Hc' _]]]. rewrite E. exists r'. auto.
Qed.

Theorem fx_complete len r f r' : 0 <= len -> decode_fx len r = (DFrame f, r') ->
  contents r = f ++ contents r' /\ blen f = len.
Proof.
  intros Hl. unfold decode_fx. destruct (read_full len r) as [[bs st] r1] eqn:E.
  destruct st; try discriminate. intros H; inversion H; subst. apply (read_full_inv _ _ _ _ Hl E).
Qed.

Theorem fx_eof len r : 1 <= len -> contents r = [] -> exists e r', decode_fx len r = (DExc e, r').
Proof.
  intros Hl Hc. unfold decode_fx. destruct (read_full len r) as [[bs st] r1] eqn:E.
  pose proof (read_full_empty _ _ _ _ _ Hl Hc E). destruct st; try congruence; eauto.
Qed.

From Coq Require Import List Bool.
From GN Require Import Base.Reader Model.Json.
Import ListNotations.

Section Json.
  Variable marshal : jvalue -> option bytes.
  Variable decode_first : bool -> bool -> bytes -> jres.
  Variable begins_with_object : bytes -> bool.

  Theorem json_roundtrip : json_rt_law marshal decode_first ->
    forall n s v w, is_object v = true -> json_write marshal v = Some w ->
    json_read decode_first n s w = JDeliver v.
  Proof.
    intros Hrt n s v w Ho Hw. unfold json_read, json_write in *. rewrite (Hrt n s v w Ho Hw).
    destruct v; try discriminate. reflexivity.
  Qed.

  Theorem json_reject : json_reject_law begins_with_object decode_first ->
    forall n s frame, begins_with_object frame = false -> json_read decode_first n s frame = JRaise.
  Proof.
    intros Hrj n s frame Hb. unfold json_read. destruct (Hrj n s frame Hb) as [-> | ->]; reflexivity.
  Qed.

  Theorem json_null_raises : forall n s frame,
    decode_first n s frame = JOk JNull -> json_read decode_first n s frame = JRaise.
  Proof. intros n s frame H. unfold json_read. rewrite H. reflexivity. Qed.

  Theorem json_delivers_only_decoded : forall n s frame v,
    json_read decode_first n s frame = JDeliver v -> decode_first n s frame = JOk v /\ v <> JNull.
  Proof.
    intros n s frame v. unfold json_read. destruct (decode_first n s frame) as [x|]; [|discriminate].
    destruct x; try discriminate; intros H; inversion H; subst; split; congruence.
  Qed.
End Json.

(* C13: Shutdown stops every listener and closes every channel, whenever it is called. *)
From Coq Require Import List Arith Bool Lia.
From GN Require Import Model.Boot.
Import ListNotations.

Lemma nth_upd_same {A} (l : list A) i x t : nth_error l i = Some t -> nth_error (upd l i x) i = Some x.
Proof. revert i; induction l as [|a l IH]; intros [|i] H; simpl in *; try discriminate; auto. Qed.
Lemma nth_upd_other {A} (l : list A) i j x : i <> j -> nth_error (upd l i x) j = nth_error l j.
Proof. revert i j; induction l as [|a l IH]; intros [|i] [|j] H; simpl; auto; try lia. Qed.
Lemma upd_length {A} (l : list A) i x : length (upd l i x) = length l.
Proof. revert i; induction l as [|a l IH]; intros [|i]; simpl; auto. Qed.
Lemma nth_upd_cases {A} (l : list A) i j (x y : A) : nth_error (upd l i x) j = Some y ->
  (i = j /\ y = x) \/ (i <> j /\ nth_error l j = Some y).
Proof.
  intros H. destruct (Nat.eq_dec i j) as [<-|Hne].
  - left. destruct (nth_error l i) as [u|] eqn:E.
    + rewrite (nth_upd_same _ _ _ _ E) in H. inversion H. auto.
    + assert (nth_error (upd l i x) i = None) by (apply nth_error_None; rewrite upd_length; apply nth_error_None; exact E). congruence.
  - right. rewrite nth_upd_other in H by auto. auto.
Qed.
Lemma nth_upd_d {A} (l : list A) : forall i j x d,
  nth j (upd l i x) d = if andb (Nat.eqb i j) (j <? length l) then x else nth j l d.
Proof.
  induction l as [|a l IHl]; intros i j x d.
  - destruct i, j; cbn; rewrite ?andb_false_r; reflexivity.
  - destruct i as [|i], j as [|j]; cbn [upd nth length]; try reflexivity.
    rewrite IHl. cbn [Nat.eqb]. replace (S j <? S (length l)) with (j <? length l) by reflexivity. reflexivity.
Qed.
Lemma nth_app_spawn {A} (l : list A) (t y : A) j : nth_error (l ++ [t]) j = Some y ->
  nth_error l j = Some y \/ (j = length l /\ y = t).
Proof.
  intros H. destruct (lt_dec j (length l)).
  - left. rewrite nth_error_app1 in H by auto. exact H.
  - right. rewrite nth_error_app2 in H by lia. destruct (j - length l) as [|k] eqn:E; cbn in H.
    + inversion H. split; [lia|reflexivity].
    + destruct k; discriminate.
Qed.

(* ---------------- invariants ---------------- *)
Definition past_listeners (pc : shpc) : bool := match pc with ShCloseAll | ShCloseCh _ | ShDone => true | _ => false end.
Definition read_ok (s : bst) (c : nat) : Prop :=
  match sh s with ShCloseCh rem => In c rem | ShDone => False | _ => In c (holder s) end.

(* global part *)
Record GInv (s : bst) : Prop := {
  (* a closed listener has no open acceptor; an open acceptor belongs to a registered listener *)
  G_closed : forall l, l_closed (get_l s l) = true -> l_acc (get_l s l) <> AOpen;
  G_open : forall l, l_acc (get_l s l) = AOpen -> l_reg (get_l s l) = true /\ l < length (lsts s);
  (* what Shutdown has achieved so far *)
  G_ctx : sh s <> ShNot -> bctx s = true;
  G_rem : forall rem l, sh s = ShCloseL rem -> l_acc (get_l s l) = AOpen -> In l rem;
  G_none : forall l, past_listeners (sh s) = true -> l_acc (get_l s l) <> AOpen;
  (* channels: closed exactly when the transport was closed once and inactive delivered once *)
  G_chan : forall c, c < length (chans s) ->
            c_tcloses (get_c s c) = (if c_closed (get_c s c) then 1 else 0) /\ c_inactive (get_c s c) = c_tcloses (get_c s c) }.

(* per-thread part: depends on the state only through bctx, sh, lsts, chans, holder *)
Definition thread_ok (s : bst) (t : bthread) : Prop :=
  match t with
  | BChan c pc _ =>
      c < length (chans s) /\
      match pc with
      | ChRead => c_closed (get_c s c) = false -> read_ok s c       (* blocked in Read: in the holder's map, or in Shutdown's batch *)
      | ChDone => c_closed (get_c s c) = true
      | ChLoop => c_closed (get_c s c) = false -> sh s = ShNot -> In c (holder s)
      | ChActive => True
      end
  | BSync l (SyAccept | SyServe | SyWait _) => l_acc (get_l s l) <> ANone     (* the accept loop has its acceptor *)
  | BSync l SyListen => l < length (lsts s) /\ (l_reg (get_l s l) = true \/ l_closed (get_l s l) = true)
  | BListen l _ => l < length (lsts s)
  | BRetry l _ => l < length (lsts s)
  | _ => True
  end.

Record BInv (s : bst) : Prop := {
  B_glob : GInv s;
  B_thr : forall i t, nth_error (bthreads s) i = Some t -> thread_ok s t }.

(* ---------------- effects of the state updates ---------------- *)
Lemma get_l_upd s l x l' : get_l (set_l s l x) l' = if andb (Nat.eqb l l') (l' <? length (lsts s)) then x else get_l s l'.
Proof. unfold get_l, set_l. cbn [lsts]. apply nth_upd_d. Qed.
Lemma get_c_upd s c x c' : get_c (set_c s c x) c' = if andb (Nat.eqb c c') (c' <? length (chans s)) then x else get_c s c'.
Proof. unfold get_c, set_c. cbn [chans]. apply nth_upd_d. Qed.
Lemma get_l_default s l : length (lsts s) <= l -> get_l s l = {| l_reg := false; l_closed := false; l_acc := ANone |}.
Proof. intros H. unfold get_l. apply nth_overflow. exact H. Qed.
Lemma get_c_default s c : length (chans s) <= c -> get_c s c = {| c_closed := true; c_tcloses := 0; c_inactive := 0 |}.
Proof. intros H. unfold get_c. apply nth_overflow. exact H. Qed.

Lemma close_listener_get s l l' :
  get_l (close_listener s l) l' =
  if andb (Nat.eqb l l') (l' <? length (lsts s))
  then {| l_reg := false; l_closed := true; l_acc := match l_acc (get_l s l) with AOpen => AClosed | a => a end |}
  else get_l s l'.
Proof. unfold close_listener. apply get_l_upd. Qed.

Lemma close_chan_get s c c' :
  get_c (close_chan s c) c' =
  if andb (andb (Nat.eqb c c') (c' <? length (chans s))) (negb (c_closed (get_c s c)))
  then {| c_closed := true; c_tcloses := S (c_tcloses (get_c s c)); c_inactive := S (c_inactive (get_c s c)) |}
  else get_c s c'.
Proof.
  unfold close_chan. destruct (c_closed (get_c s c)) eqn:E; [rewrite andb_false_r; reflexivity|].
  rewrite andb_true_r. unfold get_c at 1. cbn [set_holder chans]. apply (get_c_upd s c _ c').
Qed.

Lemma close_chan_closed_mono s c c' : c_closed (get_c s c') = true -> c_closed (get_c (close_chan s c) c') = true.
Proof. intros H. rewrite close_chan_get. destruct (andb _ _); [reflexivity|exact H]. Qed.
Lemma close_chan_self s c : c < length (chans s) -> c_closed (get_c (close_chan s c) c) = true.
Proof.
  intros Hc. rewrite close_chan_get. rewrite Nat.eqb_refl. destruct (Nat.ltb_spec c (length (chans s))); [|lia].
  cbn [andb]. destruct (c_closed (get_c s c)) eqn:E; cbn; [exact E|reflexivity].
Qed.
Lemma close_chan_fields s c : bctx (close_chan s c) = bctx s /\ sh (close_chan s c) = sh s /\ lsts (close_chan s c) = lsts s /\
  bthreads (close_chan s c) = bthreads s /\ length (chans (close_chan s c)) = length (chans s).
Proof. unfold close_chan. destruct (c_closed (get_c s c)); cbn; repeat split; auto. apply upd_length. Qed.
Lemma remove_nat_in x y l : In y (remove_nat x l) <-> In y l /\ y <> x.
Proof.
  induction l as [|a l IH]; cbn; [tauto|]. destruct (Nat.eqb_spec a x) as [->|Hne].
  - rewrite IH. split; [tauto|]. intros [[->|H] Hn]; [congruence|tauto].
  - cbn. rewrite IH. split; [intros [->|[? ?]]; auto|]. intros [[->|H] Hn]; auto.
Qed.
Lemma close_chan_holder s c y : In y (holder (close_chan s c)) -> In y (holder s).
Proof. unfold close_chan. destruct (c_closed (get_c s c)); cbn; [auto|]. intros H. apply remove_nat_in in H. tauto. Qed.
Lemma close_chan_holder_keep s c y : In y (holder s) -> y <> c -> In y (holder (close_chan s c)).
Proof. unfold close_chan. destruct (c_closed (get_c s c)); cbn; [auto|]. intros H Hn. apply remove_nat_in. auto. Qed.


(* ---------------- how each state update acts on the invariant ---------------- *)
Lemma thread_ok_ext s s' t : sh s' = sh s -> lsts s' = lsts s -> chans s' = chans s -> holder s' = holder s ->
  thread_ok s t -> thread_ok s' t.
Proof.
  intros E2 E3 E4 E5. unfold thread_ok, read_ok, get_l, get_c. rewrite E2, E3, E4, E5. auto.
Qed.

Lemma tok_close_listener s l t : thread_ok s t -> thread_ok (close_listener s l) t.
Proof.
  assert (Hlen : length (lsts (close_listener s l)) = length (lsts s)) by (unfold close_listener; cbn [set_l lsts]; apply upd_length).
  destruct t as [l' pc|c pc a|pc|l' b|l' b|l' b]; cbn [thread_ok]; auto.
  - destruct pc; auto;
      try (rewrite close_listener_get; intros Ha; destruct (andb (l =? l') _) eqn:E; cbn; [|exact Ha];
           apply andb_true_iff in E as [E _]; apply Nat.eqb_eq in E; subst; destruct (l_acc (get_l s l')); congruence).
    rewrite Hlen, close_listener_get. intros [Hl Hr]. split; [exact Hl|]. destruct (andb _ _); cbn; auto.
  - rewrite Hlen. auto.
  - rewrite Hlen. auto.
Qed.
Lemma ginv_close_listener s l : GInv s -> GInv (close_listener s l).
Proof.
  intros [Hcl Hop Hctx Hrem Hnone Hch].
  assert (Hlen : length (lsts (close_listener s l)) = length (lsts s)) by (unfold close_listener; cbn [set_l lsts]; apply upd_length).
  assert (Hsh : sh (close_listener s l) = sh s) by reflexivity.
  assert (Hbc : bctx (close_listener s l) = bctx s) by reflexivity.
  assert (Hcs : forall c, get_c (close_listener s l) c = get_c s c) by reflexivity.
  assert (Hcl2 : length (chans (close_listener s l)) = length (chans s)) by reflexivity.
  constructor; rewrite ?Hlen, ?Hsh, ?Hbc, ?Hcl2; auto.
  - intros l' Hc. rewrite close_listener_get in *. destruct (andb _ _); cbn in *; [destruct (l_acc (get_l s l)); discriminate|auto].
  - intros l' Ho. rewrite close_listener_get in *. destruct (andb _ _); cbn in *; [destruct (l_acc (get_l s l)); discriminate|auto].
  - intros rem l' E Ho. rewrite close_listener_get in Ho. destruct (andb _ _); cbn in Ho; [destruct (l_acc (get_l s l)); discriminate|eauto].
  - intros l' Hp. rewrite close_listener_get. destruct (andb _ _); cbn; [destruct (l_acc (get_l s l)); discriminate|auto].
Qed.

Definition l_with_reg (x : lst) : lst := {| l_reg := true; l_closed := l_closed x; l_acc := l_acc x |}.
Lemma tok_set_reg s l t : thread_ok s t -> thread_ok (set_l s l (l_with_reg (get_l s l))) t.
Proof.
  assert (Hlen : length (lsts (set_l s l (l_with_reg (get_l s l)))) = length (lsts s)) by (cbn [set_l lsts]; apply upd_length).
  destruct t as [l' pc|c pc a|pc|l' b|l' b|l' b]; cbn [thread_ok]; auto.
  - destruct pc; auto;
      try (rewrite get_l_upd; intros Ha; destruct (andb (l =? l') _) eqn:E; cbn; [|exact Ha];
           apply andb_true_iff in E as [E _]; apply Nat.eqb_eq in E; subst; exact Ha).
    rewrite Hlen, get_l_upd. intros [Hl Hr]. split; [exact Hl|]. destruct (andb _ _) eqn:E; cbn; auto.
  - rewrite Hlen. auto.
  - rewrite Hlen. auto.
Qed.
Lemma ginv_set_reg s l : GInv s -> GInv (set_l s l (l_with_reg (get_l s l))).
Proof.
  intros [Hcl Hop Hctx Hrem Hnone Hch].
  assert (Hlen : length (lsts (set_l s l (l_with_reg (get_l s l)))) = length (lsts s)) by (cbn [set_l lsts]; apply upd_length).
  constructor; rewrite ?Hlen; cbn [set_l bctx sh chans holder]; auto.
  - intros l' Hc. rewrite get_l_upd in *. destruct (andb (l =? l') _) eqn:E; cbn in *; [|auto].
    apply andb_true_iff in E as [E _]. apply Nat.eqb_eq in E. subst. auto.
  - intros l' Ho. rewrite get_l_upd in *. destruct (andb (l =? l') (l' <? length (lsts s))) eqn:E; cbn in *; [|auto].
    apply andb_true_iff in E as [E1 E2]. apply Nat.eqb_eq in E1. subst. apply Nat.ltb_lt in E2. auto.
  - intros rem l' E Ho. rewrite get_l_upd in Ho. destruct (andb (l =? l') _) eqn:Ea; cbn in Ho; [|eauto].
    apply andb_true_iff in Ea as [Ea _]. apply Nat.eqb_eq in Ea. subst. eauto.
  - intros l' Hp. rewrite get_l_upd. destruct (andb (l =? l') _) eqn:Ea; cbn; [|auto].
    apply andb_true_iff in Ea as [Ea _]. apply Nat.eqb_eq in Ea. subst. auto.
Qed.

Definition l_with_open (x : lst) : lst := {| l_reg := l_reg x; l_closed := l_closed x; l_acc := AOpen |}.
Lemma tok_set_open s l t : thread_ok s t -> thread_ok (set_l s l (l_with_open (get_l s l))) t.
Proof.
  assert (Hlen : length (lsts (set_l s l (l_with_open (get_l s l)))) = length (lsts s)) by (cbn [set_l lsts]; apply upd_length).
  destruct t as [l' pc|c pc a|pc|l' b|l' b|l' b]; cbn [thread_ok]; auto.
  - destruct pc; auto;
      try (rewrite get_l_upd; intros Ha; destruct (andb (l =? l') _) eqn:E; cbn; [discriminate|exact Ha]).
    rewrite Hlen, get_l_upd. intros [Hl Hr]. split; [exact Hl|]. destruct (andb (l =? l') _) eqn:E; cbn; auto.
    apply andb_true_iff in E as [E _]. apply Nat.eqb_eq in E. subst. exact Hr.
  - rewrite Hlen. auto.
  - rewrite Hlen. auto.
Qed.
Lemma ginv_set_open s l : GInv s -> l < length (lsts s) -> l_closed (get_l s l) = false -> l_reg (get_l s l) = true -> sh s = ShNot ->
  GInv (set_l s l (l_with_open (get_l s l))).
Proof.
  intros [Hcl Hop Hctx Hrem Hnone Hch] Hl Hc Hr Hs.
  assert (Hlen : length (lsts (set_l s l (l_with_open (get_l s l)))) = length (lsts s)) by (cbn [set_l lsts]; apply upd_length).
  constructor; rewrite ?Hlen; cbn [set_l bctx sh chans holder]; auto.
  - intros l' Hc'. rewrite get_l_upd in *. destruct (andb (l =? l') _) eqn:E; cbn in *; [congruence|auto].
  - intros l' Ho. rewrite get_l_upd in *. destruct (andb (l =? l') (l' <? length (lsts s))) eqn:E; cbn in *; [|auto].
    apply andb_true_iff in E as [E1 E2]. apply Nat.eqb_eq in E1. subst. auto.
  - intros rem l' E. congruence.
  - intros l' Hp. rewrite Hs in Hp. discriminate.
Qed.

Lemma get_c_new s c : c < length (chans s) -> get_c (new_chan s) c = get_c s c.
Proof. intros H. unfold get_c, new_chan. cbn [chans]. apply app_nth1. exact H. Qed.
Lemma get_c_new_last s : get_c (new_chan s) (length (chans s)) = {| c_closed := false; c_tcloses := 0; c_inactive := 0 |}.
Proof. unfold get_c, new_chan. cbn [chans]. rewrite app_nth2 by lia. rewrite Nat.sub_diag. reflexivity. Qed.

Lemma tok_new_chan s t : thread_ok s t -> thread_ok (new_chan s) t.
Proof.
  destruct t as [l' pc|c pc a|pc|l' b|l' b|l' b]; cbn [thread_ok]; auto.
  intros [Hc Hp]. split; [unfold new_chan; cbn [chans]; rewrite app_length; cbn; lia|].
  unfold read_ok. cbn [new_chan sh holder]. rewrite (get_c_new s c Hc). exact Hp.
Qed.
Lemma ginv_new_chan s : GInv s -> GInv (new_chan s).
Proof.
  intros [Hcl Hop Hctx Hrem Hnone Hch]. constructor; cbn [new_chan bctx sh lsts holder]; auto.
  intros c Hc. unfold new_chan in Hc. cbn [chans] in Hc. rewrite app_length in Hc. cbn in Hc.
  destruct (Nat.eq_dec c (length (chans s))) as [->|Hne].
  - rewrite get_c_new_last. cbn. auto.
  - rewrite get_c_new by lia. apply Hch. lia.
Qed.

Lemma tok_holder_add s c t : thread_ok s t -> thread_ok (set_holder s (c :: holder s)) t.
Proof.
  destruct t as [l' pc|c' pc a|pc|l' b|l' b|l' b]; cbn [thread_ok]; auto.
  intros [Hc Hp]. split; [exact Hc|]. destruct pc; auto.
  - intros Hu Hs. right. apply Hp; auto.
  - intros Hu. specialize (Hp Hu). unfold read_ok in *. cbn [set_holder sh holder]. destruct (sh s); auto; right; exact Hp.
Qed.

Lemma tok_close_chan s c t : thread_ok s t -> thread_ok (close_chan s c) t.
Proof.
  destruct (close_chan_fields s c) as [F1 [F2 [F3 [F4 F5]]]].
  destruct t as [l' pc|c' pc a|pc|l' b|l' b|l' b]; cbn [thread_ok]; unfold get_l; rewrite ?F3, ?F5; auto.
  intros [Hc Hp]. split; [exact Hc|].
  assert (Hold : c_closed (get_c (close_chan s c) c') = false -> c_closed (get_c s c') = false /\ c' <> c).
  { intros Hn. split.
    - destruct (c_closed (get_c s c')) eqn:E; [rewrite (close_chan_closed_mono s c c' E) in Hn; discriminate|reflexivity].
    - intros ->. rewrite (close_chan_self s c Hc) in Hn. discriminate. }
  destruct pc; auto.
  - intros Hu Hs. destruct (Hold Hu) as [Hu' Hne]. rewrite F2 in Hs. apply close_chan_holder_keep; auto.
  - intros Hu. destruct (Hold Hu) as [Hu' Hne]. specialize (Hp Hu'). unfold read_ok in *. rewrite F2.
    destruct (sh s); auto; apply close_chan_holder_keep; auto.
  - apply close_chan_closed_mono. exact Hp.
Qed.
Lemma ginv_close_chan s c : GInv s -> GInv (close_chan s c).
Proof.
  intros [Hcl Hop Hctx Hrem Hnone Hch]. destruct (close_chan_fields s c) as [F1 [F2 [F3 [F4 F5]]]].
  constructor; unfold get_l; rewrite ?F1, ?F2, ?F3, ?F5; auto.
  intros c' Hc'. rewrite close_chan_get. specialize (Hch c' Hc').
  destruct (andb (andb (c =? c') (c' <? length (chans s))) (negb (c_closed (get_c s c)))) eqn:Ea; cbn; [|exact Hch].
  apply andb_true_iff in Ea as [Ea En]. apply andb_true_iff in Ea as [Ea _]. apply Nat.eqb_eq in Ea. subst c'.
  apply negb_true_iff in En. rewrite En in Hch. destruct Hch as [E1 E2]. rewrite E1, E2. auto.
Qed.

(* ---------------- assembling the invariant after a step ---------------- *)
Lemma ginv_ext s s' : bctx s' = bctx s -> sh s' = sh s -> lsts s' = lsts s -> chans s' = chans s -> GInv s -> GInv s'.
Proof.
  intros E1 E2 E3 E4 [Hcl Hop Hctx Hrem Hnone Hch]. constructor; unfold get_l, get_c in *; rewrite ?E1, ?E2, ?E3, ?E4; auto.
Qed.

Lemma binv_build s0 s' : GInv s0 -> bctx s' = bctx s0 -> sh s' = sh s0 -> lsts s' = lsts s0 -> chans s' = chans s0 -> holder s' = holder s0 ->
  (forall j t, nth_error (bthreads s') j = Some t -> thread_ok s0 t) -> BInv s'.
Proof.
  intros Hg E1 E2 E3 E4 E5 Ht. constructor; [apply (ginv_ext s0 s'); auto|].
  intros j t Hn. apply (thread_ok_ext s0 s'); auto. apply (Ht j t Hn).
Qed.

Lemma thr_upd (P : bthread -> Prop) l i t' : (forall j t, nth_error l j = Some t -> P t) -> P t' ->
  forall j t, nth_error (upd l i t') j = Some t -> P t.
Proof. intros Hl Ht j t Hn. apply nth_upd_cases in Hn. destruct Hn as [[_ ->]|[_ Hn]]; eauto. Qed.
Lemma thr_spawn (P : bthread -> Prop) l tn : (forall j t, nth_error l j = Some t -> P t) -> P tn ->
  forall j t, nth_error (l ++ [tn]) j = Some t -> P t.
Proof. intros Hl Ht j t Hn. apply nth_app_spawn in Hn. destruct Hn as [Hn|[_ ->]]; eauto. Qed.

Theorem binv_bstep s i conn s' : BInv s -> bstep s i conn = Some s' -> BInv s'.
Proof.
  intros [Hg Ht] H. unfold bstep in H. destruct (nth_error (bthreads s) i) as [t|] eqn:Hi; [|discriminate].
  pose proof (Ht i t Hi) as Hti.
  destruct t as [l pc|c pc act|pc|l started|l dn|l started].
  - (* accept loop of listener l *)
    destruct pc as [| | |c|r]; [| | | |discriminate].
    + (* the locked section of listener.listen() *)
      cbn [thread_ok] in Hti. destruct Hti as [Hl Hreg].
      destruct (l_acc (get_l s l)) eqn:Ea.
      * destruct (orb (l_closed (get_l s l)) (bctx s)) eqn:Eo; [|destruct conn]; inversion H; subst; clear H.
        -- apply (binv_build s); auto. cbn [set_t bthreads]. apply thr_upd; [exact Ht|exact I].
        -- (* the transport factory's Listen failed: nothing changes but the thread *)
           apply (binv_build s); auto. cbn [set_t bthreads]. apply thr_upd; [exact Ht|exact I].
        -- apply orb_false_iff in Eo as [Ec Eb].
           assert (Hsh : sh s = ShNot) by (destruct (sh s) eqn:E; auto; rewrite (G_ctx s Hg) in Eb by congruence; discriminate).
           assert (Hr : l_reg (get_l s l) = true) by (destruct Hreg; congruence).
           change {| l_reg := l_reg (get_l s l); l_closed := l_closed (get_l s l); l_acc := AOpen |} with (l_with_open (get_l s l)).
           apply (binv_build (set_l s l (l_with_open (get_l s l)))); auto; [apply ginv_set_open; auto|].
           cbn [set_t set_l bthreads]. apply thr_upd; [intros j t Hn; apply tok_set_open; eauto|].
           cbn [thread_ok]. rewrite get_l_upd, Nat.eqb_refl. destruct (Nat.ltb_spec l (length (lsts s))); [cbn; discriminate|lia].
      * inversion H; subst; clear H. apply (binv_build s); auto. cbn [set_t bthreads]. apply thr_upd; [exact Ht|exact I].
      * inversion H; subst; clear H. apply (binv_build s); auto. cbn [set_t bthreads]. apply thr_upd; [exact Ht|exact I].
    + (* Accept *)
      cbn [thread_ok] in Hti.
      destruct (l_acc (get_l s l)) eqn:Ea; [discriminate| |].
      * destruct conn; inversion H; subst; clear H. apply (binv_build s); auto. cbn [set_t bthreads]. apply thr_upd; [exact Ht|].
        cbn [thread_ok]. congruence.
      * inversion H; subst; clear H. apply (binv_build s); auto. cbn [set_t bthreads]. apply thr_upd; [exact Ht|exact I].
    + (* ServeChannel: a new channel and its read-loop goroutine *)
      cbn [thread_ok] in Hti.
      inversion H; subst; clear H. apply (binv_build (new_chan s)); auto; [apply ginv_new_chan; exact Hg|].
      cbn [spawn set_t new_chan bthreads]. apply thr_spawn.
      * apply thr_upd; [intros j t Hn; apply tok_new_chan; eauto|exact Hti].
      * cbn [thread_ok new_chan chans]. rewrite app_length. cbn. split; [lia|exact I].
    + (* waiting for the active event *)
      cbn [thread_ok] in Hti.
      destruct (existsb _ (bthreads s)); inversion H; subst; clear H.
      apply (binv_build s); auto. cbn [set_t bthreads]. apply thr_upd; [exact Ht|exact Hti].
  - (* a channel's read loop *)
    cbn [thread_ok] in Hti. destruct Hti as [Hc Hp].
    destruct pc.
    + (* active: the holder registers the channel *)
      inversion H; subst; clear H. apply (binv_build (set_holder s (c :: holder s))); auto.
      * apply (ginv_ext s); auto.
      * cbn [set_t set_holder bthreads]. apply thr_upd; [intros j t Hn; apply tok_holder_add; eauto|].
        cbn [thread_ok set_holder chans holder]. split; [exact Hc|]. intros _ _. left. reflexivity.
    + (* loop head: context done -> return and Close; otherwise block in Read *)
      destruct (ctx_done_of s c) eqn:Ed; inversion H; subst; clear H.
      * destruct (close_chan_fields s c) as [F1 [F2 [F3 [F4 F5]]]].
        apply (binv_build (close_chan s c)); auto; [apply ginv_close_chan; exact Hg|].
        cbn [set_t bthreads]. rewrite F4. apply thr_upd; [intros j t Hn; apply tok_close_chan; eauto|].
        cbn [thread_ok]. rewrite F5. split; [exact Hc|apply close_chan_self; exact Hc].
      * apply (binv_build s); auto. cbn [set_t bthreads]. apply thr_upd; [exact Ht|].
        cbn [thread_ok]. split; [exact Hc|]. intros Hu. unfold ctx_done_of in Ed. apply orb_false_iff in Ed as [Eb _].
        assert (Hsh : sh s = ShNot) by (destruct (sh s) eqn:E; auto; rewrite (G_ctx s Hg) in Eb by congruence; discriminate).
        unfold read_ok. rewrite Hsh. apply Hp; auto.
    + (* woken from Read by the close *)
      destruct (c_closed (get_c s c)) eqn:Ec; inversion H; subst; clear H.
      apply (binv_build s); auto. cbn [set_t bthreads]. apply thr_upd; [exact Ht|].
      cbn [thread_ok]. split; [exact Hc|]. intros Hu. congruence.
    + discriminate.
  - (* Connect *)
    destruct pc as [|c|]; [| |discriminate].
    + inversion H; subst; clear H. apply (binv_build (new_chan s)); auto; [apply ginv_new_chan; exact Hg|].
      cbn [spawn set_t new_chan bthreads]. apply thr_spawn.
      * apply thr_upd; [intros j t Hn; apply tok_new_chan; eauto|exact I].
      * cbn [thread_ok new_chan chans]. rewrite app_length. cbn. split; [lia|exact I].
    + destruct (existsb _ (bthreads s)); inversion H; subst; clear H.
      apply (binv_build s); auto. cbn [set_t bthreads]. apply thr_upd; [exact Ht|exact I].
  - (* Listen + Async: register the listener, spawn its accept loop *)
    cbn [thread_ok] in Hti. destruct started; [discriminate|]. inversion H; subst; clear H.
    change {| l_reg := true; l_closed := l_closed (get_l s l); l_acc := l_acc (get_l s l) |} with (l_with_reg (get_l s l)).
    apply (binv_build (set_l s l (l_with_reg (get_l s l)))); auto; [apply ginv_set_reg; exact Hg|].
    cbn [spawn set_t set_l bthreads]. apply thr_spawn.
    + apply thr_upd; [intros j t Hn; apply tok_set_reg; eauto|].
      cbn [thread_ok set_l lsts]. rewrite upd_length. exact Hti.
    + cbn [thread_ok set_l lsts]. rewrite upd_length. split; [exact Hti|]. left.
      rewrite get_l_upd, Nat.eqb_refl. destruct (Nat.ltb_spec l (length (lsts s))); [reflexivity|lia].
  - (* a user calls Listener.Close *)
    destruct dn; [discriminate|]. inversion H; subst; clear H.
    apply (binv_build (close_listener s l)); auto; [apply ginv_close_listener; exact Hg|].
    cbn [set_t bthreads]. change (bthreads (close_listener s l)) with (bthreads s).
    apply thr_upd; [intros j t Hn; apply tok_close_listener; eauto|exact I].
  - (* a user calls Sync/Async again on a Listener it holds: another Sync thread, the registry untouched *)
    cbn [thread_ok] in Hti. destruct started; [discriminate|].
    destruct (orb (l_reg (get_l s l)) (l_closed (get_l s l))) eqn:Er; [|discriminate]. inversion H; subst; clear H.
    apply (binv_build s); auto. cbn [spawn set_t bthreads]. apply thr_spawn.
    + apply thr_upd; [exact Ht|exact Hti].
    + cbn [thread_ok]. split; [exact Hti|]. apply orb_true_iff in Er. exact Er.
Qed.

Lemma tok_sh_keep s p t : (forall c, read_ok s c -> read_ok (set_sh s p) c) -> p <> ShNot -> thread_ok s t -> thread_ok (set_sh s p) t.
Proof.
  intros Hr Hp. destruct t as [l' pc|c' pc a|pc|l' b|l' b|l' b]; cbn [thread_ok set_sh chans lsts holder sh]; auto.
  intros [Hc Hq]. split; [exact Hc|]. destruct pc; auto;
    first [ intros _ E; congruence | intros Hu; apply (Hr c'); apply Hq; exact Hu ].
Qed.

Theorem binv_shstep s k s' : BInv s -> shstep s k = Some s' -> BInv s'.
Proof.
  intros [Hg Ht] H. pose proof Hg as Hg0. destruct Hg as [Hcl Hop Hctx Hrem Hnone Hch].
  unfold shstep in H. destruct (sh s) as [| |rem| |rem|] eqn:Es.
  - (* cancel the bootstrap context *)
    inversion H; subst; clear H. constructor.
    + constructor; cbn [set_sh set_bctx bctx sh lsts chans holder get_l get_c]; auto; try discriminate.
    + intros j t Hn. cbn [set_sh set_bctx bthreads] in Hn. apply (tok_sh_keep (set_bctx s) ShRange); [|discriminate|].
      * intros c. unfold read_ok. cbn [set_sh set_bctx sh holder]. rewrite Es. auto.
      * apply (thread_ok_ext s (set_bctx s)); auto. eauto.
  - (* Range starts: the listeners registered now *)
    inversion H; subst; clear H. constructor.
    + constructor; cbn [set_sh bctx sh lsts chans holder get_l get_c]; auto; try discriminate.
      * intros _. apply Hctx. congruence.
      * intros rem l E Ho. inversion E; subst. destruct (Hop l Ho) as [Hr Hl].
        unfold reg_listeners. apply filter_In. split; [apply in_seq; lia|exact Hr].
    + intros j t Hn. cbn [set_sh bthreads] in Hn. apply tok_sh_keep; [|discriminate|eauto].
      intros c. unfold read_ok. cbn [set_sh sh holder]. rewrite Es. auto.
  - destruct k as [|l].
    + (* Range ends: every listener that was registered has been unregistered, i.e. closed *)
      destruct (forallb _ rem) eqn:Eall; [|discriminate]. inversion H; subst; clear H.
      rewrite forallb_forall in Eall. constructor.
      * constructor; cbn [set_sh bctx sh lsts chans holder get_l get_c]; auto; try discriminate.
        -- intros _. apply Hctx. congruence.
        -- intros l _ Ho. change (get_l (set_sh ?a ?b) l) with (get_l a l) in Ho.
           destruct (Hop l Ho) as [Hr _]. specialize (Eall l (Hrem rem l eq_refl Ho)). rewrite Hr in Eall. discriminate.
      * intros j t Hn. cbn [set_sh bthreads] in Hn. apply tok_sh_keep; [|discriminate|eauto].
        intros c. unfold read_ok. cbn [set_sh sh holder]. rewrite Es. auto.
    + (* Range visits a listener: close it *)
      inversion H; subst; clear H.
      pose proof (ginv_close_listener s l Hg0) as [Hcl' Hop' Hctx' Hrem' Hnone' Hch'].
      assert (Hsh' : sh (close_listener s l) = ShCloseL rem) by exact Es.
      constructor.
      * constructor; cbn [set_sh bctx sh lsts chans holder]; auto; try discriminate;
          try (intros _; apply Hctx'; congruence).
        intros rem0 l' E Ho. inversion E; subst. change (get_l (set_sh ?a ?b) l') with (get_l a l') in Ho.
        exact (Hrem' _ l' Hsh' Ho).
      * intros j t Hn. cbn [set_sh bthreads] in Hn. change (bthreads (close_listener s l)) with (bthreads s) in Hn.
        apply tok_sh_keep; [|discriminate|apply tok_close_listener; eauto].
        intros c. unfold read_ok. cbn [set_sh sh holder]. rewrite Hsh'. auto.
  - (* swap the holder's map: every channel that was in it will be closed *)
    inversion H; subst; clear H. constructor.
    + constructor; cbn [set_sh set_holder bctx sh lsts chans holder get_l get_c]; auto; try discriminate;
        first [ intros _; apply Hctx; congruence | intros l _; apply Hnone; reflexivity ].
    + intros j t Hn. cbn [set_sh set_holder bthreads] in Hn. specialize (Ht j t Hn).
      destruct t as [l' pc|c' pc a|pc|l' b|l' b|l' b]; cbn [thread_ok set_sh set_holder chans lsts sh holder get_l get_c] in *; auto.
      destruct Ht as [Hc Hq]. split; [exact Hc|]. destruct pc; auto;
        first [ intros _ E; congruence
              | intros Hu; specialize (Hq Hu); unfold read_ok in *; cbn [set_sh set_holder sh holder]; rewrite Es in Hq; exact Hq ].
  - destruct k as [|c].
    + (* the batch is empty: Shutdown returns *)
      destruct rem as [|c0 r]; [|discriminate]. inversion H; subst; clear H. constructor.
      * constructor; cbn [set_sh bctx sh lsts chans holder get_l get_c]; auto; try discriminate;
          first [ intros _; apply Hctx; congruence | intros l _; apply Hnone; reflexivity ].
      * intros j t Hn. cbn [set_sh bthreads] in Hn. apply tok_sh_keep; [|discriminate|eauto].
        intros c. unfold read_ok. cbn [set_sh sh holder]. rewrite Es. auto.
    + (* close one channel of the batch *)
      destruct (existsb _ rem); [|discriminate]. inversion H; subst; clear H.
      pose proof (ginv_close_chan s c Hg0) as [Hcl' Hop' Hctx' Hrem' Hnone' Hch'].
      destruct (close_chan_fields s c) as [F1 [F2 [F3 [F4 F5]]]].
      constructor.
      * constructor; cbn [set_sh bctx sh lsts chans holder]; auto; try discriminate;
          first [ intros _; apply Hctx'; congruence | intros l' _; apply Hnone'; rewrite F2, Es; reflexivity ].
      * intros j t Hn. cbn [set_sh bthreads] in Hn. rewrite F4 in Hn. pose proof (Ht j t Hn) as Hold.
        pose proof (tok_close_chan s c t Hold) as Hnew.
        destruct t as [l' pc|c' pc a|pc|l' b|l' b|l' b]; cbn [thread_ok set_sh chans lsts holder sh get_l get_c] in *; auto.
        destruct Hnew as [Hc Hq]. split; [exact Hc|]. destruct pc; auto;
          first [ intros _ E; congruence
                | intros Hu; specialize (Hq Hu); unfold read_ok in *; cbn [set_sh sh]; rewrite F2, Es in Hq;
                  apply (proj2 (remove_nat_in c c' rem)); split; [exact Hq|]; intros Ec'; rewrite Ec' in Hu, Hc;
                  change (get_c (set_sh ?a ?b) c) with (get_c a c) in Hu;
                  rewrite F5 in Hc; rewrite (close_chan_self s c Hc) in Hu; discriminate ].
  - discriminate.
Qed.

Theorem binv_run sched : forall s, BInv s -> BInv (brun s sched).
Proof.
  induction sched as [|e r IH]; intros s Hi; cbn [brun]; [exact Hi|].
  destruct (bstep_ev s e) as [s'|] eqn:E; [|apply IH; exact Hi]. apply IH.
  destruct e as [i conn|k]; cbn [bstep_ev] in E; [eapply binv_bstep|eapply binv_shstep]; eauto.
Qed.

Definition init_bthread (nl : nat) (t : bthread) : bool :=
  match t with
  | BListen l false => l <? nl
  | BConnect CoServe => true
  | BLClose _ false => true
  | BRetry l false => l <? nl
  | _ => false
  end.

Theorem binv_init nl ths : forallb (init_bthread nl) ths = true -> BInv (binit nl ths).
Proof.
  intros Hall. rewrite forallb_forall in Hall.
  assert (Hd : forall l, get_l (binit nl ths) l = {| l_reg := false; l_closed := false; l_acc := ANone |}).
  { intros l. unfold get_l, binit. cbn [lsts]. destruct (lt_dec l nl).
    - apply nth_repeat.
    - apply nth_overflow. rewrite repeat_length. lia. }
  constructor.
  - constructor.
    + intros l _. rewrite Hd. discriminate.
    + intros l H. rewrite Hd in H. discriminate.
    + intros H. exfalso. apply H. reflexivity.
    + intros rem l H. discriminate.
    + intros l _. rewrite Hd. discriminate.
    + intros c Hc. cbn in Hc. lia.
  - intros i t Hn. specialize (Hall t (nth_error_In _ _ Hn)).
    destruct t as [l pc|c pc a|pc|l b|l b|l b]; cbn in Hall; try discriminate; cbn [thread_ok]; auto.
    + destruct b; [discriminate|]. cbn [binit lsts]. rewrite repeat_length. apply Nat.ltb_lt. exact Hall.
    + destruct b; [discriminate|]. cbn [binit lsts]. rewrite repeat_length. apply Nat.ltb_lt. exact Hall.
Qed.

(* ---------------- auxiliary: every channel has its read-loop thread ---------------- *)
Record AInv (s : bst) : Prop := {
  A_thr : forall c, c < length (chans s) -> exists i pc a, nth_error (bthreads s) i = Some (BChan c pc a);
  A_act : forall i c pc a, nth_error (bthreads s) i = Some (BChan c pc a) -> pc <> ChActive -> a = true;
  A_wait : forall i t, nth_error (bthreads s) i = Some t ->
             match t with BSync _ (SyWait c) | BConnect (CoWait c) => c < length (chans s) | _ => True end }.

Lemma nth_upd_exists (l : list bthread) i t' c : (forall pc a, nth_error l i = Some (BChan c pc a) -> exists pc' a', t' = BChan c pc' a') ->
  (exists j pc a, nth_error l j = Some (BChan c pc a)) -> exists j pc a, nth_error (upd l i t') j = Some (BChan c pc a).
Proof.
  intros Hk [j [pc [a Hj]]]. destruct (Nat.eq_dec i j) as [->|Hne].
  - destruct (Hk pc a Hj) as [pc' [a' ->]]. exists j, pc', a'. eapply nth_upd_same; eauto.
  - exists j, pc, a. rewrite nth_upd_other by auto. exact Hj.
Qed.

Lemma ainv_bstep s i conn s' : AInv s -> bstep s i conn = Some s' -> AInv s'.
Proof.
  intros [Ha Hb Hw] H. unfold bstep in H. destruct (nth_error (bthreads s) i) as [t|] eqn:Hi; [|discriminate].
  assert (Hkeep : forall t', (forall c pc a, t = BChan c pc a -> exists pc' a', t' = BChan c pc' a') ->
            forall c, (exists j pc a, nth_error (bthreads s) j = Some (BChan c pc a)) ->
            exists j pc a, nth_error (upd (bthreads s) i t') j = Some (BChan c pc a)).
  { intros t' Hk c Hex. apply nth_upd_exists; [|exact Hex]. intros pc a Hn. rewrite Hi in Hn. inversion Hn; subst. eapply Hk; eauto. }
  assert (Hlenc : forall c, length (chans (close_chan s c)) = length (chans s)) by (intros c; apply (close_chan_fields s c)).
  assert (Hthc : forall c, bthreads (close_chan s c) = bthreads s) by (intros c; apply (close_chan_fields s c)).
  destruct t as [l pc|c pc act|pc|l started|l dn|l started].
  - destruct pc as [| | |c|r]; [| | | |discriminate].
    + destruct (l_acc (get_l s l)); [destruct (orb _ _); [|destruct conn]| |]; inversion H; subst; clear H;
        (constructor; cbn [set_t set_l bthreads chans];
         [intros c Hc; apply Hkeep; [intros; discriminate|auto]
         |intros j c pc a Hn Hp; apply nth_upd_cases in Hn; destruct Hn as [[_ E]|[_ Hn]]; [discriminate|eauto]
         |intros j t Hn; apply nth_upd_cases in Hn; destruct Hn as [[_ ->]|[_ Hn]]; [exact I|apply (Hw j t Hn)]]).
    + destruct (l_acc (get_l s l)); [discriminate|destruct conn|]; inversion H; subst; clear H;
        (constructor; cbn [set_t bthreads chans];
         [intros c Hc; apply Hkeep; [intros; discriminate|auto]
         |intros j c pc a Hn Hp; apply nth_upd_cases in Hn; destruct Hn as [[_ E]|[_ Hn]]; [discriminate|eauto]
         |intros j t Hn; apply nth_upd_cases in Hn; destruct Hn as [[_ ->]|[_ Hn]]; [exact I|apply (Hw j t Hn)]]).
    + inversion H; subst; clear H. constructor; cbn [spawn set_t new_chan bthreads chans]; rewrite ?app_length; cbn [length].
      * intros c Hc. destruct (Nat.eq_dec c (length (chans s))) as [->|Hne].
        -- exists (length (upd (bthreads s) i (BSync l (SyWait (length (chans s)))))), ChActive, false.
           rewrite nth_error_app2 by lia. rewrite Nat.sub_diag. reflexivity.
        -- destruct (Hkeep (BSync l (SyWait (length (chans s)))) ltac:(intros; discriminate) c (Ha c ltac:(lia))) as [j [pc [a Hj]]].
           exists j, pc, a. rewrite nth_error_app1; [exact Hj|]. apply nth_error_Some. congruence.
      * intros j c pc a Hn Hp. apply nth_app_spawn in Hn. destruct Hn as [Hn|[_ E]]; [|inversion E; subst; congruence].
        apply nth_upd_cases in Hn. destruct Hn as [[_ E]|[_ Hn]]; [discriminate|eauto].
      * intros j t Hn. apply nth_app_spawn in Hn. destruct Hn as [Hn|[_ ->]]; [|exact I].
        apply nth_upd_cases in Hn. destruct Hn as [[_ ->]|[_ Hn]]; [lia|].
        specialize (Hw j t Hn). destruct t as [? []| | []| | |]; auto; lia.
    + destruct (existsb _ _); inversion H; subst; clear H.
      constructor; cbn [set_t bthreads chans];
        [intros c' Hc; apply Hkeep; [intros; discriminate|auto]
        |intros j c' pc a Hn Hp; apply nth_upd_cases in Hn; destruct Hn as [[_ E]|[_ Hn]]; [discriminate|eauto]
        |intros j t Hn; apply nth_upd_cases in Hn; destruct Hn as [[_ ->]|[_ Hn]]; [exact I|apply (Hw j t Hn)]].
  - (* channel thread: stays a thread of the same channel *)
    assert (Hgen : forall s0 pc', (pc' <> ChActive) -> length (chans s0) = length (chans s) -> bthreads s0 = bthreads s ->
              AInv (set_t s0 i (BChan c pc' true))).
    { intros s0 pc' Hp' El Et. constructor; cbn [set_t bthreads chans]; rewrite ?El, ?Et.
      - intros c' Hc. apply Hkeep; [intros ? ? ? E; inversion E; subst; eauto|auto].
      - intros j c' pc0 a0 Hn Hp. apply nth_upd_cases in Hn. destruct Hn as [[_ E]|[_ Hn]]; [inversion E; reflexivity|eauto].
      - intros j t Hn. apply nth_upd_cases in Hn. destruct Hn as [[_ ->]|[_ Hn]]; [exact I|apply (Hw j t Hn)]. }
    destruct pc.
    + inversion H; subst; clear H. apply (Hgen (set_holder s (c :: holder s))); auto; discriminate.
    + destruct (ctx_done_of s c); inversion H; subst; clear H; [apply (Hgen (close_chan s c)); auto; discriminate|apply (Hgen s); auto; discriminate].
    + destruct (c_closed (get_c s c)); inversion H; subst; clear H. apply (Hgen s); auto; discriminate.
    + discriminate.
  - destruct pc as [|c|]; [| |discriminate].
    + inversion H; subst; clear H. constructor; cbn [spawn set_t new_chan bthreads chans]; rewrite ?app_length; cbn [length].
      * intros c Hc. destruct (Nat.eq_dec c (length (chans s))) as [->|Hne].
        -- exists (length (upd (bthreads s) i (BConnect (CoWait (length (chans s)))))), ChActive, false.
           rewrite nth_error_app2 by lia. rewrite Nat.sub_diag. reflexivity.
        -- destruct (Hkeep (BConnect (CoWait (length (chans s)))) ltac:(intros; discriminate) c (Ha c ltac:(lia))) as [j [pc [a Hj]]].
           exists j, pc, a. rewrite nth_error_app1; [exact Hj|]. apply nth_error_Some. congruence.
      * intros j c pc a Hn Hp. apply nth_app_spawn in Hn. destruct Hn as [Hn|[_ E]]; [|inversion E; subst; congruence].
        apply nth_upd_cases in Hn. destruct Hn as [[_ E]|[_ Hn]]; [discriminate|eauto].
      * intros j t Hn. apply nth_app_spawn in Hn. destruct Hn as [Hn|[_ ->]]; [|exact I].
        apply nth_upd_cases in Hn. destruct Hn as [[_ ->]|[_ Hn]]; [lia|].
        specialize (Hw j t Hn). destruct t as [? []| | []| | |]; auto; lia.
    + destruct (existsb _ _); inversion H; subst; clear H.
      constructor; cbn [set_t bthreads chans];
        [intros c' Hc; apply Hkeep; [intros; discriminate|auto]
        |intros j c' pc a Hn Hp; apply nth_upd_cases in Hn; destruct Hn as [[_ E]|[_ Hn]]; [discriminate|eauto]
        |intros j t Hn; apply nth_upd_cases in Hn; destruct Hn as [[_ ->]|[_ Hn]]; [exact I|apply (Hw j t Hn)]].
  - destruct started; [discriminate|]. inversion H; subst; clear H.
    constructor; cbn [spawn set_t set_l bthreads chans].
    + intros c Hc. destruct (Hkeep (BListen l true) ltac:(intros; discriminate) c (Ha c Hc)) as [j [pc [a Hj]]].
      exists j, pc, a. rewrite nth_error_app1; [exact Hj|]. apply nth_error_Some. congruence.
    + intros j c pc a Hn Hp. apply nth_app_spawn in Hn. destruct Hn as [Hn|[_ E]]; [|discriminate].
      apply nth_upd_cases in Hn. destruct Hn as [[_ E]|[_ Hn]]; [discriminate|eauto].
    + intros j t Hn. apply nth_app_spawn in Hn. destruct Hn as [Hn|[_ ->]]; [|exact I].
      apply nth_upd_cases in Hn. destruct Hn as [[_ ->]|[_ Hn]]; [exact I|apply (Hw j t Hn)].
  - destruct dn; [discriminate|]. inversion H; subst; clear H.
    constructor; cbn [set_t bthreads chans]; change (bthreads (close_listener s l)) with (bthreads s); change (chans (close_listener s l)) with (chans s).
    + intros c Hc. apply Hkeep; [intros; discriminate|auto].
    + intros j c pc a Hn Hp. apply nth_upd_cases in Hn. destruct Hn as [[_ E]|[_ Hn]]; [discriminate|eauto].
    + intros j t Hn. apply nth_upd_cases in Hn. destruct Hn as [[_ ->]|[_ Hn]]; [exact I|apply (Hw j t Hn)].
  - destruct started; [discriminate|]. destruct (orb _ _); [|discriminate]. inversion H; subst; clear H.
    constructor; cbn [spawn set_t bthreads chans].
    + intros c Hc. destruct (Hkeep (BRetry l true) ltac:(intros; discriminate) c (Ha c Hc)) as [j [pc [a Hj]]].
      exists j, pc, a. rewrite nth_error_app1; [exact Hj|]. apply nth_error_Some. congruence.
    + intros j c pc a Hn Hp. apply nth_app_spawn in Hn. destruct Hn as [Hn|[_ E]]; [|discriminate].
      apply nth_upd_cases in Hn. destruct Hn as [[_ E]|[_ Hn]]; [discriminate|eauto].
    + intros j t Hn. apply nth_app_spawn in Hn. destruct Hn as [Hn|[_ ->]]; [|exact I].
      apply nth_upd_cases in Hn. destruct Hn as [[_ ->]|[_ Hn]]; [exact I|apply (Hw j t Hn)].
Qed.

Lemma close_listener_fields s l : chans (close_listener s l) = chans s /\ bthreads (close_listener s l) = bthreads s.
Proof. split; reflexivity. Qed.

Lemma ainv_ext s s' : length (chans s') = length (chans s) -> bthreads s' = bthreads s -> AInv s -> AInv s'.
Proof. intros El Et [Ha Hb Hw]. constructor; rewrite ?El, ?Et; auto. Qed.

Lemma ainv_shstep s k s' : AInv s -> shstep s k = Some s' -> AInv s'.
Proof.
  intros Hi H. unfold shstep in H.
  destruct (sh s) as [| |rem| |rem|]; [| |destruct k; [destruct (forallb _ rem); [|discriminate]|]| |
                                        destruct k; [destruct rem; [|discriminate]|destruct (existsb _ rem); [|discriminate]]|discriminate];
    inversion H; subst; clear H; (eapply ainv_ext; [| |exact Hi]); try reflexivity.
  - cbn [set_sh chans]. apply (close_chan_fields s).
  - cbn [set_sh bthreads]. apply (close_chan_fields s).
Qed.

Theorem ainv_run sched : forall s, AInv s -> AInv (brun s sched).
Proof.
  induction sched as [|e r IH]; intros s Hi; cbn [brun]; [exact Hi|].
  destruct (bstep_ev s e) as [s'|] eqn:E; [|apply IH; exact Hi]. apply IH.
  destruct e as [i conn|k]; cbn [bstep_ev] in E; [eapply ainv_bstep|eapply ainv_shstep]; eauto.
Qed.

Theorem ainv_init nl ths : forallb (init_bthread nl) ths = true -> AInv (binit nl ths).
Proof.
  intros Hall. rewrite forallb_forall in Hall. constructor; cbn [binit chans bthreads].
  - intros c Hc. cbn in Hc. lia.
  - intros i c pc a Hn. specialize (Hall _ (nth_error_In _ _ Hn)). discriminate.
  - intros i t Hn. specialize (Hall _ (nth_error_In _ _ Hn)). destruct t as [l []| | []| | |]; try exact I; discriminate.
Qed.

(* ---------------- C13: what holds once Shutdown has returned and nothing can move ---------------- *)
Lemma quiescent_thread s i t : bquiescent s = true -> nth_error (bthreads s) i = Some t -> bstep s i true = None.
Proof.
  intros Hq Hn. unfold bquiescent in Hq. rewrite forallb_forall in Hq.
  assert (Hi : i < length (bthreads s)) by (apply nth_error_Some; congruence).
  specialize (Hq i ltac:(apply in_seq; lia)). unfold benabled in Hq.
  destruct (bstep s i true); [discriminate|reflexivity].
Qed.

Lemma quiescent_chan_done s i c pc a : BInv s -> sh s = ShDone -> bquiescent s = true ->
  nth_error (bthreads s) i = Some (BChan c pc a) -> pc = ChDone.
Proof.
  intros [Hg Ht] Hsh Hq Hn. pose proof (quiescent_thread s i _ Hq Hn) as Hs. unfold bstep in Hs. rewrite Hn in Hs.
  destruct pc; [discriminate| | |reflexivity].
  - destruct (ctx_done_of s c); discriminate.
  - destruct (c_closed (get_c s c)) eqn:Ec; [discriminate|].
    specialize (Ht i _ Hn). cbn [thread_ok] in Ht. destruct Ht as [_ Ht]. specialize (Ht Ec).
    unfold read_ok in Ht. rewrite Hsh in Ht. destruct Ht.
Qed.

Lemma quiescent_sync_done s i l pc : BInv s -> AInv s -> sh s = ShDone -> bquiescent s = true ->
  nth_error (bthreads s) i = Some (BSync l pc) -> exists r, pc = SyDone r.
Proof.
  intros Hb Ha Hsh Hq Hn. pose proof (quiescent_thread s i _ Hq Hn) as Hs. unfold bstep in Hs. rewrite Hn in Hs.
  pose proof (B_thr s Hb i _ Hn) as Ht. cbn [thread_ok] in Ht.
  destruct pc as [| | |c|r]; [| | | |eauto].
  - destruct (l_acc (get_l s l)); [destruct (orb _ _)| |]; discriminate.
  - destruct (l_acc (get_l s l)) eqn:Ea; [congruence|discriminate|discriminate].
  - discriminate.
  - exfalso. pose proof (A_wait s Ha i _ Hn) as Hc. cbn in Hc.
    destruct (A_thr s Ha c Hc) as [j [pc [a Hj]]].
    assert (pc = ChDone) by (eapply quiescent_chan_done; eauto). subst pc.
    assert (a = true) by (eapply (A_act s Ha); eauto; discriminate). subst a.
    destruct (existsb _ _) eqn:Ex; [discriminate|].
    assert (Hex : existsb (fun t => match t with BChan c' _ true => Nat.eqb c' c | _ => false end) (bthreads s) = true).
    { apply existsb_exists. exists (BChan c ChDone true). split; [eapply nth_error_In; eauto|apply Nat.eqb_refl]. }
    congruence.
Qed.

Theorem shutdown_complete s : BInv s -> AInv s -> sh s = ShDone -> bquiescent s = true ->
  bctx s = true /\ all_channels_closed_once s = true /\ no_open_acceptor s = true /\ sync_threads_ok s = true.
Proof.
  intros Hb Ha Hsh Hq. pose proof (B_glob s Hb) as Hg. repeat split.
  - apply (G_ctx s Hg). congruence.
  - unfold all_channels_closed_once. apply forallb_forall. intros x Hx.
    destruct (In_nth_error _ _ Hx) as [c Hc].
    assert (Hlt : c < length (chans s)) by (apply nth_error_Some; congruence).
    assert (Ex : get_c s c = x) by (unfold get_c; apply nth_error_nth; exact Hc).
    destruct (A_thr s Ha c Hlt) as [j [pc [a Hj]]].
    assert (pc = ChDone) by (eapply quiescent_chan_done; eauto). subst pc.
    pose proof (B_thr s Hb j _ Hj) as Ht. cbn [thread_ok] in Ht. destruct Ht as [_ Hcl].
    destruct (G_chan s Hg c Hlt) as [E1 E2]. rewrite Hcl in E1. rewrite E1 in E2. rewrite Ex in *.
    rewrite Hcl, E1, E2. reflexivity.
  - unfold no_open_acceptor. apply forallb_forall. intros x Hx.
    destruct (In_nth_error _ _ Hx) as [l Hl].
    assert (Ex : get_l s l = x) by (unfold get_l; apply nth_error_nth; exact Hl).
    pose proof (G_none s Hg l) as Hn. rewrite Hsh in Hn. specialize (Hn eq_refl). rewrite Ex in Hn.
    destruct (l_acc x); congruence.
  - unfold sync_threads_ok. apply forallb_forall. intros t Ht.
    destruct (In_nth_error _ _ Ht) as [i Hi]. destruct t as [l pc| | | | |]; try reflexivity.
    destruct (quiescent_sync_done s i l pc Hb Ha Hsh Hq Hi) as [r ->]. reflexivity.
Qed.

(* an accept loop that ends once the context is cancelled reports server-closed
   (RetDup is the rejected second Sync on a listener that already has its loop) *)
Theorem sync_ends_server_closed s i conn s' l pc r : bctx s = true ->
  nth_error (bthreads s) i = Some (BSync l pc) -> (forall r0, pc <> SyDone r0) ->
  bstep s i conn = Some s' -> nth_error (bthreads s') i = Some (BSync l (SyDone r)) ->
  r = RetServerClosed \/ (r = RetDup /\ pc = SyListen /\ l_acc (get_l s l) <> ANone).
Proof.
  intros Hc Hn Hnd H Hn'. unfold bstep in H. rewrite Hn in H.
  assert (Hup : forall s0 t, bthreads s0 = bthreads s -> nth_error (bthreads (set_t s0 i t)) i = Some t).
  { intros s0 t E. cbn [set_t bthreads]. rewrite E. eapply nth_upd_same; eauto. }
  destruct pc as [| | |c|r0].
  - destruct (l_acc (get_l s l)) eqn:Ea.
    + rewrite Hc, orb_true_r in H. inversion H; subst. rewrite Hup in Hn' by reflexivity. inversion Hn'. auto.
    + inversion H; subst. rewrite Hup in Hn' by reflexivity. inversion Hn'. right. repeat split; congruence.
    + inversion H; subst. rewrite Hup in Hn' by reflexivity. inversion Hn'. right. repeat split; congruence.
  - destruct (l_acc (get_l s l)); [discriminate|destruct conn; [|discriminate]|];
      inversion H; subst; rewrite Hup in Hn' by reflexivity; inversion Hn'. rewrite Hc. auto.
  - inversion H; subst. cbn [spawn set_t new_chan bthreads] in Hn'.
    rewrite nth_error_app1 in Hn' by (rewrite upd_length; apply nth_error_Some; congruence).
    erewrite nth_upd_same in Hn' by eauto. discriminate.
  - destruct (existsb _ _); [|discriminate]. inversion H; subst. rewrite Hup in Hn' by reflexivity. discriminate.
  - exfalso. eapply Hnd; eauto.
Qed.

(* ---------------- "without further stimulus": after Shutdown has closed the listeners,
   every thread step strictly decreases a measure, so the system runs down by itself ---------------- *)
Definition tweight (t : bthread) : nat :=
  match t with
  | BSync _ SyListen => 1 | BSync _ SyAccept => 1 | BSync _ SyServe => 6 | BSync _ (SyWait _) => 2 | BSync _ (SyDone _) => 0
  | BChan _ ChActive _ => 3 | BChan _ ChRead _ => 2 | BChan _ ChLoop _ => 1 | BChan _ ChDone _ => 0
  | BConnect CoServe => 5 | BConnect (CoWait _) => 1 | BConnect CoDone => 0
  | BListen _ false => 3 | BListen _ true => 0
  | BLClose _ false => 1 | BLClose _ true => 0
  | BRetry _ false => 2 | BRetry _ true => 0
  end.
Definition bmeasure (s : bst) : nat := list_sum (map tweight (bthreads s)).

Lemma sum_upd l : forall i t t', nth_error l i = Some t ->
  list_sum (map tweight (upd l i t')) + tweight t = list_sum (map tweight l) + tweight t'.
Proof.
  induction l as [|h r IH]; intros [|i] t t' Hn; cbn in Hn; try discriminate.
  - inversion Hn; subst. unfold list_sum. cbn [upd map fold_right]. lia.
  - unfold list_sum in *. cbn [upd map fold_right]. specialize (IH i t t' Hn). lia.
Qed.
Lemma sum_app l t : list_sum (map tweight (l ++ [t])) = list_sum (map tweight l) + tweight t.
Proof. rewrite map_app, list_sum_app. unfold list_sum. cbn [map fold_right]. lia. Qed.

Theorem rundown_step s i conn s' : BInv s -> past_listeners (sh s) = true ->
  bstep s i conn = Some s' -> bmeasure s' < bmeasure s.
Proof.
  intros Hb Hp H. pose proof (B_glob s Hb) as Hg.
  assert (Hctx : bctx s = true) by (apply (G_ctx s Hg); destruct (sh s); discriminate).
  unfold bstep in H. destruct (nth_error (bthreads s) i) as [t|] eqn:Hi; [|discriminate].
  assert (Hu : forall s0 t', bthreads s0 = bthreads s -> tweight t' < tweight t -> bmeasure (set_t s0 i t') < bmeasure s).
  { intros s0 t' E Hw. unfold bmeasure. cbn [set_t bthreads]. rewrite E. pose proof (sum_upd _ i t t' Hi). lia. }
  assert (Hus : forall s0 t' tn, bthreads s0 = bthreads s -> tweight t' + tweight tn < tweight t ->
            bmeasure (spawn (set_t s0 i t') tn) < bmeasure s).
  { intros s0 t' tn E Hw. unfold bmeasure. cbn [spawn set_t bthreads]. rewrite E, sum_app. pose proof (sum_upd _ i t t' Hi). lia. }
  destruct t as [l pc|c pc act|pc|l started|l dn|l started].
  - destruct pc as [| | |c|r]; [| | | |discriminate].
    + destruct (l_acc (get_l s l)); [rewrite Hctx, orb_true_r in H| |]; inversion H; subst; apply Hu; auto; cbn; lia.
    + destruct (l_acc (get_l s l)) eqn:Ea; [discriminate| |].
      * exfalso. apply (G_none s Hg l Hp). exact Ea.
      * inversion H; subst. apply Hu; auto; cbn; lia.
    + inversion H; subst. apply Hus; [reflexivity|cbn; lia].
    + destruct (existsb _ _); inversion H; subst. apply Hu; auto; cbn; lia.
  - destruct pc; [| | |discriminate].
    + inversion H; subst. apply Hu; auto; cbn; lia.
    + unfold ctx_done_of in H. rewrite Hctx in H. cbn [orb] in H. inversion H; subst.
      apply Hu; [apply (close_chan_fields s c)|cbn; lia].
    + destruct (c_closed (get_c s c)); inversion H; subst. apply Hu; auto; cbn; lia.
  - destruct pc as [|c|]; [| |discriminate].
    + inversion H; subst. apply Hus; [reflexivity|cbn; lia].
    + destruct (existsb _ _); inversion H; subst. apply Hu; auto; cbn; lia.
  - destruct started; [discriminate|]. inversion H; subst. apply Hus; [reflexivity|cbn; lia].
  - destruct dn; [discriminate|]. inversion H; subst. apply Hu; [reflexivity|cbn; lia].
  - destruct started; [discriminate|]. destruct (orb _ _); [|discriminate]. inversion H; subst. apply Hus; [reflexivity|cbn; lia].
Qed.

Lemma past_listeners_step s i conn s' : bstep s i conn = Some s' -> sh s' = sh s.
Proof.
  unfold bstep. destruct (nth_error (bthreads s) i) as [[l pc|c pc a|pc|l b|l b|l b]|]; [| | | | | |discriminate].
  - destruct pc; [destruct (l_acc _); [destruct (orb _ _); [|destruct conn]| |]|destruct (l_acc _); [|destruct conn|]| |destruct (existsb _ _)|];
      intros H; inversion H; reflexivity.
  - destruct pc; [|destruct (ctx_done_of s c)|destruct (c_closed _)|]; intros H; inversion H; try reflexivity.
    cbn [set_t sh]. apply (close_chan_fields s c).
  - destruct pc; [|destruct (existsb _ _)|]; intros H; inversion H; reflexivity.
  - destruct b; intros H; inversion H; reflexivity.
  - destruct b; intros H; inversion H; reflexivity.
  - destruct b; [|destruct (orb _ _)]; intros H; inversion H; reflexivity.
Qed.

(* once Shutdown has returned, every sequence of thread steps that all fire is at most bmeasure long *)
Theorem rundown_bounded : forall (evs : list (nat * bool)) s, BInv s -> sh s = ShDone ->
  (fix fires (s : bst) (evs : list (nat * bool)) : Prop :=
     match evs with [] => True | (i, conn) :: r => exists s', bstep s i conn = Some s' /\ fires s' r end) s evs ->
  length evs <= bmeasure s.
Proof.
  induction evs as [|[i conn] r IH]; intros s Hb Hsh Hf; [cbn; lia|].
  destruct Hf as [s' [Hs Hf]]. cbn [length].
  assert (bmeasure s' < bmeasure s) by (eapply rundown_step; eauto; rewrite Hsh; reflexivity).
  assert (length r <= bmeasure s').
  { apply IH; [eapply binv_bstep; eauto| |exact Hf]. rewrite (past_listeners_step _ _ _ _ Hs). exact Hsh. }
  lia.
Qed.

(* ---------------- Shutdown itself never blocks ---------------- *)
Theorem shutdown_never_blocks s : sh s <> ShDone -> exists k, shstep s k <> None.
Proof.
  intros Hn. unfold shstep. destruct (sh s) as [| |rem| |rem|] eqn:Es; try (exists 0; discriminate).
  - destruct (forallb (fun l => negb (l_reg (get_l s l))) rem) eqn:E.
    + exists 0. discriminate.
    + exists 1. discriminate.
  - destruct rem as [|c r]; [exists 0; discriminate|]. exists (S c). cbn [existsb]. rewrite Nat.eqb_refl. cbn [orb]. discriminate.
  - congruence.
Qed.

(* closing the channels of the batch ends: the batch shrinks with every visit *)
Lemma remove_nat_shorter x l : In x l -> length (remove_nat x l) < length l.
Proof.
  induction l as [|y r IH]; intros Hin; [destruct Hin|]. cbn [remove_nat].
  assert (Hle : forall l0, length (remove_nat x l0) <= length l0).
  { induction l0 as [|z r0 IH0]; cbn [remove_nat]; [lia|]. destruct (Nat.eqb z x); cbn [length]; lia. }
  destruct (Nat.eqb y x) eqn:E; cbn [length].
  - specialize (Hle r). lia.
  - destruct Hin as [->|Hin]; [rewrite Nat.eqb_refl in E; discriminate|]. specialize (IH Hin). lia.
Qed.
Theorem shutdown_batch_shrinks s c s' rem : sh s = ShCloseCh rem -> shstep s (S c) = Some s' ->
  exists rem', sh s' = ShCloseCh rem' /\ length rem' < length rem.
Proof.
  intros Es H. unfold shstep in H. rewrite Es in H. destruct (existsb (Nat.eqb c) rem) eqn:Ex; [|discriminate].
  inversion H; subst; clear H. exists (remove_nat c rem). split; [reflexivity|].
  apply remove_nat_shorter. apply existsb_exists in Ex. destruct Ex as [x [Hin Hx]]. apply Nat.eqb_eq in Hx. subst. exact Hin.
Qed.

(* the two extra checks the harness evaluates on observations *)
Theorem closes_at_most_once_inv s : BInv s -> closes_at_most_once s = true.
Proof.
  intros Hb. pose proof (B_glob s Hb) as Hg. unfold closes_at_most_once. apply forallb_forall. intros x Hx.
  destruct (In_nth_error _ _ Hx) as [c Hc].
  assert (Hlt : c < length (chans s)) by (apply nth_error_Some; congruence).
  assert (Ex : get_c s c = x) by (unfold get_c; apply nth_error_nth; exact Hc).
  destruct (G_chan s Hg c Hlt) as [E1 E2]. rewrite Ex in *. rewrite E2, E1.
  destruct (c_closed x); reflexivity.
Qed.

Theorem chan_threads_done_quiescent s : BInv s -> sh s = ShDone -> bquiescent s = true -> chan_threads_done s = true.
Proof.
  intros Hb Hsh Hq. unfold chan_threads_done. apply forallb_forall. intros t Ht.
  destruct (In_nth_error _ _ Ht) as [i Hi]. destruct t as [|c pc a| | | |]; try reflexivity.
  rewrite (quiescent_chan_done s i c pc a Hb Hsh Hq Hi). reflexivity.
Qed.

(* ---------------- the statements of Props/C13.v, over every run from an initial state ---------------- *)
Theorem shutdown_complete_runs : forall nl ths sched, forallb (init_bthread nl) ths = true ->
  let s := brun (binit nl ths) sched in
  sh s = ShDone -> bquiescent s = true ->
  bctx s = true /\ all_channels_closed_once s = true /\ no_open_acceptor s = true /\
  sync_threads_ok s = true /\ chan_threads_done s = true.
Proof.
  intros nl ths sched H s Hsh Hq.
  assert (Hb : BInv s) by (apply binv_run, binv_init; exact H).
  assert (Ha : AInv s) by (apply ainv_run, ainv_init; exact H).
  destruct (shutdown_complete s Hb Ha Hsh Hq) as [A [B [C D]]].
  repeat split; try assumption. apply chan_threads_done_quiescent; assumption.
Qed.
Theorem runs_down_runs : forall nl ths sched i conn s', forallb (init_bthread nl) ths = true ->
  let s := brun (binit nl ths) sched in
  past_listeners (sh s) = true -> bstep s i conn = Some s' -> bmeasure s' < bmeasure s.
Proof. intros nl ths sched i conn s' H s. apply rundown_step. apply binv_run, binv_init. exact H. Qed.
Theorem never_twice_runs : forall nl ths sched, forallb (init_bthread nl) ths = true ->
  closes_at_most_once (brun (binit nl ths) sched) = true.
Proof. intros nl ths sched H. apply closes_at_most_once_inv, binv_run, binv_init. exact H. Qed.

(* C03 layer 2: event routing over the handler list. *)
From Coq Require Import List Bool Arith Lia.
From GN Require Import Model.Dispatch.
Import ListNotations.

Definition visit (k : kind) (c : ctx) : tev := TVisit (fst c) (hid (snd c)) k.
Definition has_cap (k : kind) (c : ctx) : bool := caps (snd c) k.
Definition forwards (k : kind) (c : ctx) : bool := match behav (snd c) k with BForward => true | _ => false end.
(* forwarding / non-forwarding user handlers (the quantifier of C03) *)
Definition simple (k : kind) (c : ctx) : Prop := behav (snd c) k = BForward \/ behav (snd c) k = BStop.

(* the handlers an event visits: the capable ones, up to and including the first that does not forward *)
Fixpoint take_fwd (k : kind) (l : list ctx) : list ctx :=
  match l with [] => [] | c :: r => c :: (if forwards k c then take_fwd k r else []) end.
Definition route (k : kind) (l : list ctx) : list ctx := take_fwd k (filter (has_cap k) l).
Definition all_forward (k : kind) (l : list ctx) : bool := forallb (forwards k) (filter (has_cap k) l).

Lemma route_cons k c r : route k (c :: r) =
  if has_cap k c then c :: (if forwards k c then route k r else []) else route k r.
Proof. unfold route. cbn [filter]. destruct (has_cap k c); reflexivity. Qed.

Section R.
Variable all : list ctx.

(* inbound kinds *)
Theorem in_run_route k : forall suffix pre_rev, Forall (simple k) suffix ->
  in_run all k pre_rev suffix = (map (visit k) (route k suffix), Done).
Proof.
  induction suffix as [|[i h] r IH]; intros pre_rev Hs; [reflexivity|].
  inversion Hs as [|? ? Hc Hr]; subst. cbn [in_run]. rewrite route_cons. unfold has_cap, forwards. cbn [fst snd].
  destruct (caps h k); [|apply IH; exact Hr].
  destruct Hc as [Hc|Hc]; cbn [snd] in Hc; rewrite Hc.
  - rewrite (IH _ Hr). reflexivity.
  - reflexivity.
Qed.

Theorem evt_run_route : forall suffix pre_rev, Forall (simple KEvent) suffix ->
  evt_run all pre_rev suffix = (map (visit KEvent) (route KEvent suffix), Done).
Proof.
  induction suffix as [|[i h] r IH]; intros pre_rev Hs; [reflexivity|].
  inversion Hs as [|? ? Hc Hr]; subst. cbn [evt_run]. rewrite route_cons. unfold has_cap, forwards. cbn [fst snd].
  destruct (caps h KEvent); [|apply IH; exact Hr].
  destruct Hc as [Hc|Hc]; cbn [snd] in Hc; rewrite Hc.
  - rewrite (IH _ Hr). reflexivity.
  - reflexivity.
Qed.
End R.

(* exception kind: forwarding past the last exception handler closes the channel exactly once *)
Definition simple_x (c : ctx) : Prop :=
  behav (snd c) KException = BForward \/ behav (snd c) KException = BStop.

Theorem exc_run_route x n : forall suffix, Forall simple_x suffix ->
  exc_run (suffix ++ [(n, tail_h)]) x =
  (map (visit KException) (route KException suffix) ++
   (if all_forward KException suffix then [TChanClose x] else []), Done).
Proof.
  induction suffix as [|[i h] r IH]; intros Hs.
  - cbn. reflexivity.
  - inversion Hs as [|? ? Hc Hr]; subst. cbn [app exc_run]. rewrite route_cons.
    unfold all_forward in *. cbn [filter]. unfold has_cap, forwards in *. cbn [fst snd].
    destruct (caps h KException).
    + destruct Hc as [Hc|Hc]; cbn [snd] in Hc; rewrite Hc; cbn [forallb]; unfold forwards; cbn [snd]; rewrite Hc.
      * rewrite (IH Hr). reflexivity.
      * reflexivity.
    + apply (IH Hr).
Qed.

(* outbound: tail to head; reaching the head hands the message to the channel *)
Definition simple_w (c : ctx) : Prop := behav (snd c) KWrite = BForward \/ behav (snd c) KWrite = BStop.

Theorem out_run_route : forall pre_rev, Forall simple_w pre_rev ->
  out_run (pre_rev ++ [(0, head_h)]) =
  (map (visit KWrite) (route KWrite pre_rev) ++ (if all_forward KWrite pre_rev then [TChanWrite] else []), Done).
Proof.
  induction pre_rev as [|[i h] r IH]; intros Hs.
  - cbn. reflexivity.
  - inversion Hs as [|? ? Hc Hr]; subst. cbn [app out_run]. rewrite route_cons.
    unfold all_forward in *. cbn [filter]. unfold has_cap, forwards in *. cbn [fst snd].
    destruct (caps h KWrite).
    + destruct Hc as [Hc|Hc]; cbn [snd] in Hc; rewrite Hc; cbn [forallb]; unfold forwards; cbn [snd]; rewrite Hc.
      * rewrite (IH Hr). reflexivity.
      * reflexivity.
    + apply (IH Hr).
Qed.

(* every visited context is one of the contexts offered: ctx.Write from position i
   only reaches positions before i, ctx.Trigger only positions after i *)
Lemma take_fwd_incl k l : incl (take_fwd k l) l.
Proof.
  induction l as [|c r IH]; [apply incl_refl|]. cbn [take_fwd]. destruct (forwards k c).
  - apply incl_cons; [left; reflexivity|]. apply incl_tl. exact IH.
  - apply incl_cons; [left; reflexivity|]. apply incl_nil_l.
Qed.
Theorem route_incl k l : incl (route k l) l.
Proof. unfold route. eapply incl_tran; [apply take_fwd_incl|]. intros x Hx. apply filter_In in Hx. tauto. Qed.

(* each handler is invoked at most once per event: positions strictly ordered *)
Lemma take_fwd_sub k l : exists s, l = take_fwd k l ++ s.
Proof.
  induction l as [|c r [s Hs]]; [exists []; reflexivity|]. cbn [take_fwd]. destruct (forwards k c).
  - exists s. cbn. rewrite <- Hs. reflexivity.
  - exists r. reflexivity.
Qed.
Lemma NoDup_filter {A} (f : A -> bool) l : NoDup l -> NoDup (filter f l).
Proof.
  induction 1 as [|x l Hx Hn IH]; cbn; [constructor|]. destruct (f x); [|exact IH].
  constructor; [|exact IH]. intros Hin. apply Hx. apply filter_In in Hin. tauto.
Qed.
Lemma NoDup_app_l {A} (a b : list A) : NoDup (a ++ b) -> NoDup a.
Proof.
  induction a as [|x a IH]; cbn; intros Hn; [constructor|]. inversion Hn; subst.
  constructor; [|apply IH; assumption]. intros Hin. apply H1. apply in_or_app. left. exact Hin.
Qed.
Theorem route_once k l : NoDup (map fst l) -> NoDup (map fst (route k l)).
Proof.
  intros Hn. unfold route. destruct (take_fwd_sub k (filter (has_cap k) l)) as [s Hs].
  assert (Hf : NoDup (map fst (filter (has_cap k) l))).
  { clear Hs. induction l as [|c r IH]; cbn; [constructor|]. inversion Hn as [|? ? Hx Hr]; subst.
    destruct (has_cap k c); [|apply IH; exact Hr]. cbn. constructor; [|apply IH; exact Hr].
    intros Hin. apply Hx. apply in_map_iff in Hin as [y [Ey Hy]]. apply filter_In in Hy as [Hy _].
    apply in_map_iff. exists y. auto. }
  rewrite Hs, map_app in Hf. apply NoDup_app_l in Hf. exact Hf.
Qed.

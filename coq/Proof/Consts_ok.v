(* The numeric constants the hand-written models repeat are the ones the source
   uses NOW (Gen/Consts.v is regenerated from /repo on every run). *)
From Coq Require Import List Arith NArith Bool ZArith.
From GN Require Import Gen.Consts Model.Chan Proof.Chan3_proofs.
Import ListNotations.

(* the sender's batch capacity *)
Theorem batch_cap_is_source : forall s, batch_cap s = batch_cap_src (qcap s).
Proof. intros s. reflexivity. Qed.

(* Close's bounded grace period: the model's poll bound (Chan.step at CPoll, Chan3_proofs.in_grace) *)
Theorem grace_polls_is_source : forall s cs, in_grace s cs = orb (until_write s) (c_polls cs <? grace_polls_src).
Proof. intros s cs. reflexivity. Qed.
Theorem grace_is_ten_times_100ms : grace_polls_src = 10 /\ grace_sleep_ms_src = 100.
Proof. split; reflexivity. Qed.

(* ReadFrom's streaming chunk and the response writer's buffer (sizes the harnesses place their boundaries at) *)
Theorem read_chunk_is_1024 : read_chunk_src = 1024%N.
Proof. reflexivity. Qed.
Theorem response_buffer_is_2048 : response_buffer_src = 2048%N.
Proof. reflexivity. Qed.

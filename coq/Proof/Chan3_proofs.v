(* C05 on the channel machine: among any number of concurrent Close calls
   exactly one takes effect; the transport is closed once, the inactive event is
   delivered once with that call's error, the context is cancelled. *)
From Coq Require Import List Arith Bool Lia.
From GN Require Import Model.Chan Proof.Chan_proofs Proof.Chan2_proofs.
Import ListNotations.

Definition winner (t : thread) : bool :=
  match t with
  | TCloser CCas _ None => false
  | TCloser _ _ _ => true            (* past the CAS (or the no-op Close nested in the winner's inline sender) *)
  | TSender _ _ (Some _) => true     (* the winner's inline writeOnce *)
  | _ => false
  end.

Definition wstage (s : st) (t : thread) : Prop :=
  match t with
  | TCloser CTClose cs _ => tclosed s = 0 /\ inactive s = [] /\ reason s = Some (c_err cs)
  | TCloser CCancel cs _ => tclosed s = 1 /\ inactive s = [] /\ reason s = Some (c_err cs)
  | TCloser CInactive cs _ => tclosed s = 1 /\ inactive s = [] /\ reason s = Some (c_err cs) /\ ctx_done s = true
  | TCloser _ _ _ | TSender _ _ (Some _) => tclosed s = 0 /\ inactive s = [] /\ reason s = None
  | _ => True
  end.
Definition nested_ok (t : thread) : Prop :=
  match t with TCloser pc _ (Some _) => pc = CCas | _ => True end.

Record Win (s : st) : Prop := {
  W_one : cnt winner (threads s) <= 1;
  W_open : closed s = false -> cnt winner (threads s) = 0 /\ tclosed s = 0 /\ inactive s = [] /\ reason s = None;
  W_thr : forall i t, nth_error (threads s) i = Some t ->
            nested_ok t /\ (winner t = true -> wstage s t /\ closed s = true);
  W_done : closed s = true -> cnt winner (threads s) = 0 ->
           tclosed s = 1 /\ ctx_done s = true /\ exists e, inactive s = [e] /\ reason s = Some e }.

Lemma win_other s i j t u : Win s -> i <> j -> nth_error (threads s) i = Some t -> nth_error (threads s) j = Some u ->
  winner t = true -> winner u = false.
Proof.
  intros Hw Hne Hi Hj Ht. destruct (winner u) eqn:E; [|reflexivity]. exfalso.
  pose proof (W_one s Hw) as H1. revert H1. generalize dependent j. generalize dependent i.
  generalize (threads s). intros l. induction l as [|a l IH]; intros i Hi j Hne Hj H1; [destruct i; discriminate|].
  destruct i as [|i], j as [|j]; cbn in *; try lia.
  - inversion Hi; subst. rewrite Ht in H1. pose proof (cnt_pos winner l j u Hj E). lia.
  - inversion Hj; subst. rewrite E in H1. pose proof (cnt_pos winner l i t Hi Ht). lia.
  - apply (IH i Hi j ltac:(lia) Hj). destruct (winner a); lia.
Qed.

Ltac cnt_w i :=
  match goal with
  | Hn : nth_error (threads ?s) i = Some ?t |- context [upd (threads ?s) i ?t'] =>
      let Hc := fresh "Hc" in pose proof (cnt_upd winner (threads s) i t t' Hn) as Hc; cbn [winner b2n] in Hc
  end.

Lemma win_one s i ch s' : Win s -> step s i ch = Some s' -> cnt winner (threads s') <= 1.
Proof.
  intros Hw H. pose proof (W_one s Hw) as H1. pose proof (W_open s Hw) as Ho.
  step_cases H; simp_st; rewrite ?cnt_app; cnt_w i; cbn [cnt winner] in *; try lia.
  (* the CAS on `closed` succeeds: nobody had won before *)
  all: match goal with Hc0 : closed ?s0 = false, Ho0 : closed ?s0 = false -> _ |- _ => destruct (Ho0 Hc0) as [Hz _]; lia end.
Qed.

Lemma win_open s i ch s' : Win s -> step s i ch = Some s' -> closed s' = false ->
  cnt winner (threads s') = 0 /\ tclosed s' = 0 /\ inactive s' = [] /\ reason s' = None.
Proof.
  intros Hw H. pose proof (W_open s Hw) as Ho.
  step_cases H; simp_st; intros Hc; try discriminate Hc; try congruence;
    destruct (Ho Hc) as [Hz [Ht [Hi Hr]]];
    (* a winner cannot be stepping: there is none *)
    try (exfalso; match goal with Hn : nth_error (threads s) i = Some ?t |- _ =>
           pose proof (cnt_pos winner (threads s) i t Hn eq_refl); lia end);
    rewrite ?cnt_app; cnt_w i; cbn [cnt winner] in *; repeat split; auto; try lia.
Qed.

Lemma wstage_ext s s' u : tclosed s' = tclosed s -> inactive s' = inactive s -> reason s' = reason s ->
  (ctx_done s = true -> ctx_done s' = true) -> wstage s u -> wstage s' u.
Proof.
  intros E1 E2 E3 E4. destruct u as [| pc h [c|] | [] cs o |]; cbn [wstage]; rewrite ?E1, ?E2, ?E3; auto.
  intros [? [? [? ?]]]. auto.
Qed.

Lemma win_thr s i ch s' : Win s -> step s i ch = Some s' ->
  forall j t, nth_error (threads s') j = Some t ->
    nested_ok t /\ (winner t = true -> wstage s' t /\ closed s' = true).
Proof.
  intros Hw H j t Hn. pose proof (W_thr s Hw) as Ht. pose proof (W_open s Hw) as Ho.
  pose proof (closed_mono s i ch s' H) as Hmono.
  assert (Hother : forall u, i <> j -> nth_error (threads s) j = Some u ->
            (forall ti, nth_error (threads s) i = Some ti -> winner ti = true -> winner u = false) ->
            tclosed s' = tclosed s /\ inactive s' = inactive s /\ reason s' = reason s /\ (ctx_done s = true -> ctx_done s' = true)
            \/ (exists ti, nth_error (threads s) i = Some ti /\ winner ti = true) ->
            nested_ok u /\ (winner u = true -> wstage s' u /\ closed s' = true)).
  { intros u Hne Hu Hx Hcase. destruct (Ht j u Hu) as [Hnest Hst]. split; [exact Hnest|].
    intros Hwu. destruct (Hst Hwu) as [Hs Hc]. split; [|apply Hmono; exact Hc].
    destruct Hcase as [[E1 [E2 [E3 E4]]]|[ti [Hti Hwi]]].
    - apply (wstage_ext s s' u E1 E2 E3 E4 Hs).
    - rewrite (Hx ti Hti Hwi) in Hwu. discriminate. }
  assert (Hwo : forall u ti, i <> j -> nth_error (threads s) j = Some u -> nth_error (threads s) i = Some ti -> winner ti = true -> winner u = false).
  { intros u ti Hne Hu Hti Hwi. eapply (win_other s i j ti u Hw); eauto. }
  step_cases H; simp_st;
  try (match goal with Hx : nth_error (_ ++ _) _ = _ |- _ => fail 1 | _ => idtac end;
       apply nth_upd_cases in Hn; destruct Hn as [[_ ->]|[Hne Hn]];
       [ (* the stepping thread *)
         try (match goal with cont : option closer_st |- _ => destruct cont end);
         match goal with Hi0 : nth_error (threads s) i = Some ?ti |- _ =>
           destruct (Ht i ti Hi0) as [Hnest Hst]; cbn [nested_ok winner wstage] in *;
           try (specialize (Hst eq_refl)); cbn [wstage] in *; simp_st
         end;
         try (match goal with Hc0 : closed s = false |- _ => destruct (Ho Hc0) as [_ [? [? ?]]] end);
         (split; [try exact I; try reflexivity; try discriminate; auto|]);
         try (intros Hd; discriminate Hd); try (intros _);
         intuition (auto; try congruence; try lia; try discriminate)
       | (* another thread *)
         apply (Hother t Hne Hn);
         [intros ti Hti Hwi; eapply Hwo; eauto
         |first [left; simp_st; repeat split; auto; fail | right; eexists; split; [first [eassumption|reflexivity]|reflexivity]]] ]).
  (* WExec: the appended background sender is no winner; the writer is none either *)
  destruct (lt_dec j (length (upd (threads s) i (TWriter l WCheck (results ++ [(cid c, ROk)]))))) as [Hlt|Hge].
  - rewrite nth_error_app1 in Hn by exact Hlt. apply nth_upd_cases in Hn. destruct Hn as [[_ ->]|[Hne Hn]].
    + cbn. split; [exact I|discriminate].
    + apply (Hother t Hne Hn); [intros ti Hti Hwi; eapply Hwo; eauto|left; simp_st; repeat split; auto].
  - rewrite nth_error_app2 in Hn by lia.
    destruct (j - length (upd (threads s) i (TWriter l WCheck (results ++ [(cid c, ROk)])))) as [|k]; cbn in Hn;
      [inversion Hn; subst; cbn; split; [exact I|discriminate]|destruct k; discriminate].
Qed.

Lemma win_done s i ch s' : Win s -> step s i ch = Some s' -> closed s' = true -> cnt winner (threads s') = 0 ->
  tclosed s' = 1 /\ ctx_done s' = true /\ exists e, inactive s' = [e] /\ reason s' = Some e.
Proof.
  intros Hw H. pose proof (W_done s Hw) as Hd. pose proof (W_open s Hw) as Ho. pose proof (W_thr s Hw) as Ht.
  step_cases H; simp_st; rewrite ?cnt_app; cnt_w i; cbn [cnt winner] in *; intros Hcl Hz;
    (* the stepping thread was no winner and stays none: nothing relevant changed *)
    try (apply Hd; [first [assumption|congruence]|lia]);
    try lia;
    try (match goal with o : option closer_st |- _ => destruct o end; cbn [b2n winner] in *; try lia);
    try (exfalso; match goal with Hn : nth_error (threads s) i = Some ?t |- _ =>
           pose proof (cnt_pos winner (threads s) i t Hn eq_refl); lia end);
    try (exfalso; match goal with Hn : nth_error (threads s) i = Some ?t |- _ =>
           destruct (Ht i t Hn) as [_ Hst]; destruct (Hst eq_refl) as [_ Hx]; discriminate Hx end).
  (* the winner delivers the inactive event and returns *)
  match goal with Hn : nth_error (threads s) i = Some (TCloser CInactive ?cs None) |- _ =>
    destruct (Ht i _ Hn) as [_ Hst]; destruct (Hst eq_refl) as [[E1 [E2 [E3 E4]]] _] end.
  rewrite E1, E2, E3, E4. repeat split; auto. eexists. split; reflexivity.
Qed.

Theorem win_step s i ch s' : Win s -> step s i ch = Some s' -> Win s'.
Proof.
  intros Hw H. constructor.
  - eapply win_one; eauto.
  - eapply win_open; eauto.
  - eapply win_thr; eauto.
  - eapply win_done; eauto.
Qed.

Lemma win_parent_cancel s : Win s -> Win (parent_cancel s).
Proof.
  intros [H1 H2 H3 H4]. constructor; cbn [parent_cancel set_close threads closed tclosed inactive reason ctx_done]; auto.
  - intros i t Hn. destruct (H3 i t Hn) as [Hn1 Hst]. split; [exact Hn1|]. intros Hwt. destruct (Hst Hwt) as [Hs Hc].
    split; [|exact Hc]. apply (wstage_ext s); auto.
  - intros Hc Hz. destruct (H4 Hc Hz) as [? [? ?]]. auto.
Qed.

Theorem win_run sched : forall s, Win s -> Win (run s sched).
Proof.
  induction sched as [|e r IH]; intros s Hw; cbn [run]; [exact Hw|].
  destruct e as [i ch|]; cbn [step_ev].
  - destruct (step s i ch) as [s'|] eqn:E; [apply IH; eapply win_step; eauto|apply IH; exact Hw].
  - apply IH. apply win_parent_cancel. exact Hw.
Qed.

Theorem win_init qc until ths : forallb init_thread ths = true -> Win (init qc until ths).
Proof.
  intros Hall. rewrite forallb_forall in Hall.
  assert (Hz : cnt winner ths = 0).
  { apply cnt_none. intros t Ht. specialize (Hall t Ht). destruct t as [? [] [|]| | [] ? []|]; cbn in *; congruence. }
  constructor; cbn [init threads closed tclosed inactive reason ctx_done].
  - lia.
  - auto.
  - intros i t Hn. specialize (Hall t (nth_error_In _ _ Hn)). destruct t as [? [] [|]| | [] ? []|]; cbn in *; try congruence; split; auto; discriminate.
  - discriminate.
Qed.

(* the transport is closed at most once and the inactive event delivered at most once, in every state *)
Theorem close_at_most_once s : Win s -> tclosed s <= 1 /\ length (inactive s) <= 1.
Proof.
  intros Hw. destruct (closed s) eqn:Ec.
  - destruct (cnt winner (threads s)) eqn:En.
    + destruct (W_done s Hw Ec En) as [-> [_ [e [-> _]]]]. cbn. lia.
    + destruct (cnt_pos_ex winner (threads s) ltac:(lia)) as [i [t [Hn Hwt]]].
      destruct (W_thr s Hw i t Hn) as [_ Hst]. destruct (Hst Hwt) as [Hs _].
      destruct t as [| pc h [c|] | [] cs o |]; cbn in Hwt, Hs; try discriminate;
        repeat match goal with H : _ /\ _ |- _ => destruct H end;
        repeat match goal with H : tclosed s = _ |- _ => rewrite H | H : inactive s = _ |- _ => rewrite H end; cbn; lia.
  - destruct (W_open s Hw Ec) as [_ [-> [-> _]]]. cbn. lia.
Qed.

(* once the Close call that took effect has returned: transport closed exactly once, inactive
   delivered exactly once carrying that call's error, context cancelled *)
Theorem close_effective_done s : Win s -> closed s = true -> cnt winner (threads s) = 0 ->
  tclosed s = 1 /\ ctx_done s = true /\ exists e, inactive s = [e] /\ reason s = Some e.
Proof. intros Hw. apply (W_done s Hw). Qed.

(* ---------- C06: graceful close ---------- *)
Definition quiet (s : st) : Prop :=
  forall i t, nth_error (threads s) i = Some t -> match t with TWriter calls _ _ => calls = [] | _ => True end.
Definition in_grace (s : st) (cs : closer_st) : bool := orb (until_write s) (c_polls cs <? 10).
Definition drained (s : st) : Prop := queue s = [] /\ hands (threads s) = [] /\ unflushed s = 0.
Definition qstage (s : st) (t : thread) : Prop :=
  match t with
  | TCloser CPoll2 _ _ => queue s = []
  | TCloser (CSetErr | CTClose) cs _ => in_grace s cs = true -> drained s
  | _ => True
  end.
Record RetInv (s : st) : Prop := {
  R_incl : incl (returned s) (accepted s);
  R_cur : forall i c l pc res, nth_error (threads s) i = Some (TWriter (c :: l) pc res) ->
            (pc = WCas \/ pc = WExec) -> In (cid c) (accepted s) }.

Lemma retinv_step s i ch s' : RetInv s -> step s i ch = Some s' -> RetInv s'.
Proof.
  intros [Ri Rc] H. constructor.
  - step_cases H; simp_st; auto;
      try (intros x Hx; apply in_app_or in Hx; destruct Hx as [Hx|[<-|[]]]; [apply Ri; exact Hx|eapply Rc; eauto]);
      try (intros x Hx; apply in_or_app; left; apply Ri; exact Hx).
  - intros j c0 l0 pc0 res0 Hn Hpc.
    assert (Hgrow : forall x, In x (accepted s) -> In x (accepted s')).
    { destruct (accepted_mono s i ch s' H) as [la ->]. intros x Hx. apply in_or_app. left. exact Hx. }
    step_cases H; simp_st;
      try (match goal with Hx : nth_error (_ ++ _) _ = _ |- _ => fail 1 | _ => idtac end;
           apply nth_upd_cases in Hn; destruct Hn as [[_ E]|[_ Hn]];
           [try discriminate E; inversion E; subst; try (destruct Hpc; discriminate);
            try (apply in_or_app; right; left; reflexivity); try (eapply Rc; eauto)
           |try (apply in_or_app; left); eapply Rc; eauto]).
    destruct (lt_dec j (length (upd (threads s) i (TWriter l WCheck (results ++ [(cid c, ROk)]))))) as [Hlt|Hge].
    + rewrite nth_error_app1 in Hn by exact Hlt. apply nth_upd_cases in Hn. destruct Hn as [[_ E]|[_ Hn]];
        [inversion E; subst; destruct Hpc; discriminate|eapply Rc; eauto].
    + rewrite nth_error_app2 in Hn by lia.
      destruct (j - length (upd (threads s) i (TWriter l WCheck (results ++ [(cid c, ROk)])))) as [|k]; cbn in Hn; [discriminate|destruct k; discriminate].
Qed.

Lemma hands_nil_iff l : hands l = [] <-> (forall i t, nth_error l i = Some t -> hand_of t = []).
Proof.
  split; [|apply hands_nil].
  induction l as [|a l IH]; intros H i t Hn; [destruct i; discriminate|].
  unfold hands in H. cbn in H. apply app_eq_nil in H as [Ha Hl].
  destruct i as [|i]; cbn in Hn; [inversion Hn; subst; exact Ha|apply (IH Hl i t Hn)].
Qed.

Lemma hands_upd_nil l i t' : hands l = [] -> hand_of t' = [] -> hands (upd l i t') = [].
Proof.
  intros Hl Ht. apply hands_nil_iff. intros j t Hn. apply nth_upd_cases in Hn. destruct Hn as [[_ ->]|[_ Hn]]; [exact Ht|].
  apply (proj1 (hands_nil_iff l) Hl j t Hn).
Qed.

Definition QInv (s : st) : Prop := forall i t, nth_error (threads s) i = Some t -> qstage s t.

Lemma quiet_step s i ch s' : quiet s -> step s i ch = Some s' -> quiet s'.
Proof.
  intros Hq H j t Hn.
  step_cases H; simp_st;
    try (match goal with Hi0 : nth_error (threads s) i = Some (TWriter (_ :: _) _ _) |- _ => specialize (Hq i _ Hi0); discriminate Hq end);
    try (apply nth_upd_cases in Hn; destruct Hn as [[_ ->]|[_ Hn]]; [exact I|apply (Hq j t Hn)]).
Qed.

Lemma qinv_step s i ch s' : Inv s -> Win s -> quiet s -> QInv s -> step s i ch = Some s' -> QInv s'.
Proof.
  intros Hi Hw Hq HQ H j t Hn.
  assert (Hkeep : forall u, (queue s = [] -> queue s' = []) -> (drained s -> drained s') ->
            until_write s' = until_write s -> qstage s u -> qstage s' u).
  { intros u Eq Ed Ew. destruct u as [| | [] cs o |]; cbn [qstage]; unfold in_grace; rewrite ?Ew; auto. }
  step_cases H; simp_st;
    try (match goal with Hi0 : nth_error (threads s) i = Some (TWriter (_ :: _) _ _) |- _ => specialize (Hq i _ Hi0); discriminate Hq end);
    try (apply nth_upd_cases in Hn; destruct Hn as [[_ ->]|[Hne Hn]];
         [ (* the stepping thread *)
           cbn [qstage]; try exact I; try (simp_st; norm_q; reflexivity)
         | (* the others keep their stage: the queue is not refilled, empty hands stay empty *)
           apply (Hkeep t); [ simp_st; norm_q; auto; try congruence
                            | unfold drained; simp_st; norm_q; intros [Eq [Eh Eu]]; try congruence;
                              try (match goal with Hi0 : nth_error (threads s) i = Some (TSender _ ?h _) |- _ =>
                                     let E := fresh in pose proof (proj1 (hands_nil_iff _) Eh i _ Hi0) as E; cbn in E; try discriminate E; try subst h end);
                              repeat split; auto; try (apply hands_upd_nil; [exact Eh|reflexivity]); cbn [length]; try lia
                            | reflexivity | apply (HQ j t Hn) ] ]).
  - (* the grace period is over: nothing is claimed *)
    unfold in_grace. simp_st. intros Hg. congruence.
  - (* queue seen empty, then the flag seen idle: everything accepted is out and flushed *)
    intros _. unfold drained. simp_st.
    match goal with Hi0 : nth_error (threads s) i = Some (TCloser CPoll2 ?c0 ?o0) |- _ =>
      pose proof (HQ i _ Hi0) as Hq2; cbn in Hq2;
      destruct (W_thr s Hw i _ Hi0) as [_ Hst]; destruct (Hst eq_refl) as [[Htc _] _] end.
    assert (Hno : forall k u, nth_error (threads s) k = Some u -> owns u = false).
    { intros k u Hu. apply (cnt_zero owns (threads s) k u); [|exact Hu]. rewrite (I_token s Hi).
      match goal with Hr : running s = false |- _ => rewrite Hr end. reflexivity. }
    assert (Hh : hands (threads s) = []).
    { apply hands_nil. intros k u Hu. apply (I_hand s Hi k u Hu). apply (Hno k u Hu). }
    split; [exact Hq2|]. split; [apply hands_upd_nil; [exact Hh|reflexivity]|].
    destruct (unflushed s) eqn:Eu; [reflexivity|]. pose proof (I_flush s Hi Htc ltac:(lia)). congruence.
  - (* storing the close error changes nothing that matters *)
    match goal with Hi0 : nth_error (threads s) i = Some (TCloser CSetErr ?c0 ?o0) |- _ =>
      pose proof (HQ i _ Hi0) as Hq2; cbn in Hq2 end.
    unfold in_grace, drained in *. simp_st. intros Hg. destruct (Hq2 Hg) as [? [Hh ?]].
    repeat split; auto. apply hands_upd_nil; [exact Hh|reflexivity].
Qed.

Lemma quiet_run_inv sched : forall s, Inv s -> Win s -> quiet s -> QInv s ->
  Inv (run s sched) /\ Win (run s sched) /\ quiet (run s sched) /\ QInv (run s sched).
Proof.
  induction sched as [|e r IH]; intros s Hi Hw Hq HQ; cbn [run]; [auto|].
  destruct e as [i ch|]; cbn [step_ev].
  - destruct (step s i ch) as [s'|] eqn:E; [|apply IH; auto].
    apply IH; [eapply inv_step|eapply win_step|eapply quiet_step|eapply qinv_step]; eauto.
  - apply IH; [apply inv_parent_cancel|apply win_parent_cancel|idtac|idtac]; auto.
Qed.

(* THE C06 statement, in the configuration the property quantifies over (every
   writer has returned before Close starts): when the Close that took effect is
   about to close the transport and its grace period was not exhausted
   (always the case for wait-for-pending channels), every payload whose call
   returned success is on the transport and flushed, the queue is empty and no
   sender holds a batch. *)
Theorem graceful_close s i cs o : Inv s -> Win s -> RetInv s -> QInv s ->
  nth_error (threads s) i = Some (TCloser CTClose cs o) -> in_grace s cs = true ->
  (forall p, In p (returned s) -> In p (concat (tlog s))) /\ unflushed s = 0 /\
  queue s = [] /\ hands (threads s) = [] /\ tclosed s = 0.
Proof.
  intros Hi Hw Hr HQ Hn Hg. pose proof (HQ i _ Hn) as Hd. cbn in Hd. destruct (Hd Hg) as [Eq [Eh Eu]].
  destruct (W_thr s Hw i _ Hn) as [_ Hst]. destruct (Hst eq_refl) as [[Htc _] _].
  assert (Hl : lost s = []) by (destruct (lost s) eqn:E; [reflexivity|]; pose proof (I_lost s Hi ltac:(congruence)); lia).
  repeat split; auto. intros p Hp. apply (R_incl s Hr) in Hp.
  rewrite (I_fifo s Hi), Hl, Eh, Eq in Hp. cbn in Hp. rewrite app_nil_r in Hp. exact Hp.
Qed.

Lemma retinv_parent_cancel s : RetInv s -> RetInv (parent_cancel s).
Proof. intros [? ?]. constructor; cbn; auto. Qed.
Theorem retinv_run sched : forall s, RetInv s -> RetInv (run s sched).
Proof.
  induction sched as [|e r IH]; intros s Hr; cbn [run]; [exact Hr|].
  destruct e as [i ch|]; cbn [step_ev].
  - destruct (step s i ch) as [s'|] eqn:E; [apply IH; eapply retinv_step; eauto|apply IH; exact Hr].
  - apply IH. apply retinv_parent_cancel. exact Hr.
Qed.
Theorem retinv_init qc until ths : forallb init_thread ths = true -> RetInv (init qc until ths).
Proof.
  intros Hall. rewrite forallb_forall in Hall. constructor; cbn [init returned accepted threads].
  - intros x [].
  - intros i c l pc res Hn [-> | ->]; specialize (Hall _ (nth_error_In _ _ Hn)); discriminate.
Qed.

(* C06 for every schedule from any reachable state in which all writers have
   returned and no Close has got past its first step yet *)
Theorem graceful_close_all_schedules s0 sched : Inv s0 -> Win s0 -> RetInv s0 -> quiet s0 -> QInv s0 ->
  let s := run s0 sched in
  forall i cs o, nth_error (threads s) i = Some (TCloser CTClose cs o) -> in_grace s cs = true ->
  (forall p, In p (returned s) -> In p (concat (tlog s))) /\ unflushed s = 0 /\
  queue s = [] /\ hands (threads s) = [] /\ tclosed s = 0.
Proof.
  intros Hi Hw Hr Hq HQ s i cs o Hn Hg.
  destruct (quiet_run_inv sched s0 Hi Hw Hq HQ) as [Hi' [Hw' [_ HQ']]].
  apply (graceful_close s i cs o Hi' Hw' (retinv_run sched s0 Hr) HQ' Hn Hg).
Qed.

(* writeOnce's recover path: release the token, then Close with the transport's error *)
Theorem sender_failure_step s i h cont ch s' : nth_error (threads s) i = Some (TSender SRecover h cont) ->
  step s i ch = Some s' ->
  running s' = false /\ nth_error (threads s') i = Some (TCloser CCas {| c_err := 1; c_polls := 0 |} cont).
Proof.
  intros Hn H. unfold step in H. rewrite Hn in H. inversion H; subst; clear H.
  split; [reflexivity|]. cbn [set_thr set_running threads]. apply (nth_upd_same _ _ _ _ Hn).
Qed.

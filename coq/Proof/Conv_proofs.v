(* C14 / C16(text): conversions preserve content. *)
From Coq Require Import ZArith List Bool Lia.
From GN Require Import Base.Reader Model.Conv Proof.Reader_proofs.
Import ListNotations.
Open Scope Z_scope.

Lemma read_from_aux_spec fuel : forall r, (mu r < fuel)%nat ->
  let '(cs, st) := read_from_aux fuel r in
  concat cs = contents r /\ Forall (fun c => 0 < blen c <= 1024) cs /\
  (final r <> FErr -> st = ROk) /\ (final r = FErr -> st = RErr).
Proof.
  induction fuel as [|fuel IH]; intros r Hf; [lia|]. cbn [read_from_aux].
  destruct (read 1024 r) as [[bs st] r1] eqn:R.
  destruct (read_spec 1024 _ _ _ _ ltac:(lia) R) as [Hc1 [Hb [Hnu [Hmu [Hnok _]]]]].
  set (out := match bs with [] => [] | _ => [bs] end).
  assert (Hout : concat out = bs /\ Forall (fun c => 0 < blen c <= 1024) out).
  { unfold out. destruct bs as [|x bs]; [split; [reflexivity|constructor]|]. cbn [concat]. rewrite app_nil_r.
    split; [reflexivity|]. constructor; [|constructor]. unfold blen in *. cbn [length] in *. lia. }
  destruct Hout as [Ho1 Ho2].
  clearbody out.
  assert (Hfin : st = ROk -> (final r1 = FErr <-> final r = FErr)).
  { unfold read in R. destruct r as [cs f]; cbn [chunks final] in *.
    destruct cs as [|c cs]; [destruct f|]; try (destruct (fits _ _)); inversion R; subst; cbn;
      intros; split; congruence. }
  assert (Hst : (st = REOF -> final r <> FErr) /\ (st = RErr -> final r = FErr)).
  { unfold read in R. destruct r as [cs f]; cbn [chunks final] in *.
    destruct cs as [|c cs]; [destruct f|]; try (destruct (fits _ _)); inversion R; subst; cbn; split; congruence. }
  destruct st.
  - specialize (IH r1 ltac:(specialize (Hmu eq_refl); lia)).
    destruct (read_from_aux fuel r1) as [rest st'].
    destruct IH as [Hc [Hall [Hok Herr]]]. rewrite concat_app, Ho1, Hc, Hc1.
    split; [reflexivity|]. split; [apply Forall_app; auto|].
    specialize (Hfin eq_refl). split; intros E; [apply Hok|apply Herr]; tauto.
  - rewrite Ho1, Hc1, (Hnok ltac:(congruence)), app_nil_r. destruct Hst as [H1 _].
    split; [reflexivity|]. split; [exact Ho2|]. split; [reflexivity|]. intros E. exfalso. apply (H1 eq_refl E).
  - congruence.
  - rewrite Ho1, Hc1, (Hnok ltac:(congruence)), app_nil_r. destruct Hst as [_ H2].
    split; [reflexivity|]. split; [exact Ho2|]. split; [|reflexivity]. intros E. exfalso. apply E, H2. reflexivity.
Qed.

Theorem read_from_spec r : let '(cs, st) := read_from r in
  concat cs = contents r /\ Forall (fun c => 0 < blen c <= 1024) cs /\
  (final r <> FErr -> st = ROk) /\ (final r = FErr -> st = RErr).
Proof. apply read_from_aux_spec. lia. Qed.

Lemma concat_map_lwrite1 cs : concat (map lpayload (map LWrite1 cs)) = concat cs.
Proof. induction cs as [|c cs IH]; cbn; [reflexivity|]. rewrite IH. reflexivity. Qed.

Theorem head_exact m calls st : head_write m = Some (calls, st) ->
  concat (map lpayload calls) = content m.
Proof.
  destruct m as [b|bs|b|s|b|s|steps|r|]; cbn [head_write content]; intros H; try discriminate;
    try (inversion H; subst; cbn; rewrite ?app_nil_r; reflexivity).
  - inversion H; subst. destruct b; cbn; rewrite ?app_nil_r; reflexivity.
  - inversion H; subst. destruct s; cbn; rewrite ?app_nil_r; reflexivity.
  - inversion H; subst. apply concat_map_lwrite1.
  - pose proof (read_from_spec r) as Hs. destruct (read_from r) as [cs st']. inversion H; subst.
    rewrite concat_map_lwrite1. apply Hs.
Qed.

Theorem head_status m calls st : head_write m = Some (calls, st) ->
  (match m with MReader r => final r = FErr | _ => False end -> st = RErr) /\
  (match m with MReader r => final r <> FErr | _ => True end -> st = ROk).
Proof.
  destruct m as [b|bs|b|s|b|s|steps|r|]; cbn [head_write]; intros H; try discriminate;
    try (inversion H; subst; split; [intros []|reflexivity]).
  pose proof (read_from_spec r) as Hs. destruct (read_from r) as [cs st']. inversion H; subst.
  destruct Hs as [_ [_ [H1 H2]]]. auto.
Qed.

Theorem head_reader_chunks r calls st : head_write (MReader r) = Some (calls, st) ->
  Forall (fun c => match c with LWrite1 p => 0 < blen p <= 1024 | LWritev _ => False end) calls.
Proof.
  cbn [head_write]. pose proof (read_from_spec r) as Hs. destruct (read_from r) as [cs st'].
  intros H; inversion H; subst. destruct Hs as [_ [Hall _]].
  induction Hall; cbn; constructor; auto.
Qed.

Theorem head_unsupported : head_write MOther = None /\ forall s, head_write (MString s) = None.
Proof. split; reflexivity. Qed.

Definition reader_ok (m : msg) : Prop := match m with MReader r => final r <> FErr | _ => True end.

Theorem to_bytes_ok m : m <> MOther -> reader_ok m -> to_bytes m = Some (content m).
Proof.
  destruct m as [b|bs|b|s|b|s|steps|r|]; cbn [to_bytes content reader_ok]; intros Hm Hr; try reflexivity; [|congruence].
  destruct (read_all_ok r) as [st [r' [E [_ Hst]]]]. rewrite E, (Hst Hr). reflexivity.
Qed.

Theorem to_bytes_sound m b : to_bytes m = Some b -> b = content m.
Proof.
  destruct m as [b'|bs|b'|s|b'|s|steps|r|]; cbn [to_bytes content]; intros H; try (inversion H; reflexivity); try discriminate.
  destruct (read_all_ok r) as [st [r' [E _]]]. rewrite E in H. destruct st; inversion H. reflexivity.
Qed.

Theorem to_reader_ok m r : to_reader m = Some r -> contents r = content m.
Proof.
  destruct m as [b|bs|b|s|b|s|steps|r0|]; cbn [to_reader content]; intros H; inversion H; subst;
    unfold contents, of_frags; cbn; rewrite ?app_nil_r; reflexivity.
Qed.

Lemma count_of_acc bs : forall n, fold_left (fun n b => n + blen b) bs n = n + blen (concat bs).
Proof.
  induction bs as [|b bs IH]; intros n; cbn [fold_left concat]; [rewrite blen_nil; lia|].
  rewrite IH, blen_app. lia.
Qed.
Theorem count_of_spec bs : count_of bs = blen (concat bs).
Proof. unfold count_of. rewrite count_of_acc. lia. Qed.

Lemma read_bytes_aux_ok fuel : forall r, (length (contents r) < fuel)%nat ->
  exists st, read_bytes_aux fuel r = (contents r, st) /\ st <> ROk.
Proof.
  induction fuel as [|fuel IH]; intros r Hf; [lia|]. cbn [read_bytes_aux].
  destruct (contents r) as [|x b] eqn:Hc.
  - destruct (read_byte_end r Hc) as [st [r' [E [Hst _]]]]. rewrite E. exists st. auto.
  - destruct (read_byte_ok r x b Hc) as [r' [E [Hc' _]]]. rewrite E.
    destruct (IH r') as [st [E' Hst]]; [rewrite Hc'; cbn [length] in Hf; lia|].
    rewrite E', Hc'. exists st. auto.
Qed.

(* successive ReadByte calls return exactly the stream's bytes, then an error *)
Theorem read_bytes_ok r : exists st, read_bytes r = (contents r, st) /\ st <> ROk.
Proof. apply read_bytes_aux_ok. lia. Qed.

(* text codec *)
Theorem text_roundtrip s : exists m, text_write (MString s) = Some m /\ to_bytes m = Some s /\
  (forall f, text_read (MBytesReader f) = Some f) /\ (forall f, text_read (MBytes f) = Some f).
Proof. eexists. split; [reflexivity|]. repeat split. Qed.

(* C09: which accepted message types reach the channel as ONE low-level write *)
Definition single_kind (m : msg) : bool :=
  match m with
  | MBytes _ | MVec _ | MBuffer _ => true
  | MBytesReader (_ :: _) | MStringsReader (_ :: _) => true
  | MWriterTo [_] => true
  | _ => false
  end.
Theorem head_single m : single_kind m = true -> exists c, head_write m = Some ([c], ROk).
Proof.
  destruct m as [b|bs|b|s|[|x b]|[|x s]|[|w [|w2 steps]]|r|]; cbn; intros H; try discriminate; eexists; reflexivity.
Qed.
(* a reader whose content arrives in one read of at most 1024 bytes is one write too *)
Theorem head_single_reader (c : bytes) : c <> [] -> blen c <= 1024 ->
  head_write (MReader (of_frags [c])) = Some ([LWrite1 c], ROk).
Proof.
  intros Hc Hl. cbn [head_write]. unfold read_from, of_frags, mu. cbn [chunks final contents concat fin_data length app].
  cbn [read_from_aux]. unfold read. cbn [chunks final]. rewrite fits_spec by lia.
  destruct (Z.leb_spec (blen c) 1024); [|lia]. cbn [read_from_aux]. unfold read. cbn [chunks final].
  destruct c; [congruence|]. rewrite app_nil_r. reflexivity.
Qed.

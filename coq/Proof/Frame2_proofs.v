(* Varint-length and delimiter codecs: round-trip (C04) and safety (C08). *)
From Coq Require Import ZArith List Bool Lia.
From GN Require Import Base.GoInt Base.Reader Model.Frame Proof.Reader_proofs Proof.Frame_proofs.
Import ListNotations.
Open Scope Z_scope.

(* ---------- uvarint ---------- *)
Lemma uv_roundtrip n : forall i x0 s v r b,
  i + Z.of_nat n = 10 -> s = 7 * i -> 0 <= i -> 0 <= v < 2 ^ (64 - s) ->
  contents r = uv_enc n v ++ b ->
  exists r', uv_dec n i x0 s r = (Some (x0 + v * 2 ^ s), r') /\ contents r' = b /\
             (plain r = true -> plain r' = true).
Proof.
  induction n as [|n IH]; intros i x0 s v r b Hi Hs Hi0 Hv Hc.
  - exfalso. cbn in Hi. assert (i = 10) by lia. subst i s. change (2 ^ (64 - 7 * 10)) with 0 in Hv. lia.
  - cbn [uv_enc uv_dec] in *. destruct (Z.ltb_spec v 128) as [Hlt|Hge].
    + cbn [app] in Hc. destruct (read_byte_ok r _ _ Hc) as [r' [E [Hc' Hp]]]. rewrite E.
      rewrite Z2N.id by lia. destruct (Z.ltb_spec v 128); [|lia].
      assert (Hchk : andb (i =? 9) (1 <? v) = false).
      { destruct (Z.eqb_spec i 9) as [->|]; [|reflexivity]. subst s. change (2 ^ (64 - 7 * 9)) with 2 in Hv.
        cbn. apply Z.ltb_ge. lia. }
      rewrite Hchk. exists r'. auto.
    + cbn [app] in Hc. destruct (read_byte_ok r _ _ Hc) as [r1 [E [Hc1 Hp1]]]. rewrite E.
      pose proof (Z.mod_pos_bound v 128 ltac:(lia)) as Hm.
      rewrite Z2N.id by lia. destruct (Z.ltb_spec (v mod 128 + 128) 128); [lia|].
      assert (Hi9 : i < 9).
      { destruct (Z_lt_le_dec i 9); [assumption|]. exfalso.
        assert (64 - s <= 1) by lia.
        assert (2 ^ (64 - s) <= 2 ^ 1) by (destruct (Z_lt_le_dec (64 - s) 0);
          [rewrite Z.pow_neg_r by lia; lia|apply Z.pow_le_mono_r; lia]). change (2 ^ 1) with 2 in *. lia. }
      destruct (IH (i + 1) (x0 + (v mod 128 + 128 - 128) * 2 ^ s) (s + 7) (v / 128) r1 b) as [r' [E' [Hc' Hp']]];
        try lia; auto.
      * split; [apply Z.div_pos; lia|]. apply Z.div_lt_upper_bound; [lia|].
        replace (64 - s) with (7 + (64 - (s + 7))) in Hv by lia. rewrite Z.pow_add_r in Hv by lia.
        change (2 ^ 7) with 128 in Hv. lia.
      * exists r'. rewrite E'. split; [|split; [exact Hc'|intros; apply Hp', Hp1; assumption]].
        f_equal. f_equal. rewrite Z.pow_add_r by lia. change (2 ^ 7) with 128.
        pose proof (Z.div_mod v 128 ltac:(lia)). nia.
Qed.

Lemma uv_enc_len n : forall v, blen (uv_enc n v) <= Z.of_nat n.
Proof.
  induction n as [|n IH]; intros v; cbn [uv_enc]; [unfold blen; cbn; lia|].
  destruct (Z.ltb v 128); unfold blen in *; cbn [length].
  - lia.
  - specialize (IH (v / 128)). lia.
Qed.

Theorem read_uvarint_ok v r b : 0 <= v < 2 ^ 64 -> contents r = uvarint v ++ b ->
  exists r', read_uvarint r = (Some v, r') /\ contents r' = b /\ (plain r = true -> plain r' = true).
Proof.
  intros Hv Hc. unfold read_uvarint, uvarint in *.
  destruct (uv_roundtrip 10 0 0 0 v r b) as [r' [E H]]; try lia; auto.
  exists r'. rewrite E. replace (0 + v * 2 ^ 0) with v by lia. auto.
Qed.

Lemma vi_decode_one max : 0 < max < 2 ^ 62 -> forall (body : bytes) r b, blen body <= max -> True ->
  contents r = match encode_vi max body with Some w => w | None => [] end ++ b ->
  exists r', decode_vi max r = (DFrame body, r') /\ contents r' = b /\ True.
Proof.
  intros Hm body r b Hb _ Hc. unfold encode_vi in Hc. destruct (Z.ltb_spec max (blen body)); [lia|].
  rewrite <- app_assoc in Hc. pose proof (blen_nonneg body).
  destruct (read_uvarint_ok (blen body) r _ ltac:(lia) Hc) as [r1 [E [Hc1 _]]].
  unfold decode_vi. rewrite E. destruct (Z.ltb_spec max (blen body)); [lia|].
  destruct (read_full_ok (blen body) r1 body b Hc1 eq_refl) as [r2 [E2 [Hc2 _]]]. rewrite E2.
  exists r2. auto.
Qed.

Lemma uv_dec_inv n : forall i x s r v r', uv_dec n i x s r = (Some v, r') ->
  exists hdr, contents r = hdr ++ contents r' /\ blen hdr <= Z.of_nat n.
Proof.
  induction n as [|n IH]; intros i x s r v r'; cbn [uv_dec]; [discriminate|].
  destruct (read_byte r) as [[[y|] st] r1] eqn:E; [|discriminate].
  destruct (read_byte_inv _ _ _ _ E) as [Hc _].
  destruct (Z.ltb (Z.of_N y) 128).
  - destruct (andb _ _); [discriminate|]. intros H; inversion H; subst.
    exists [y]. split; [exact Hc|]. unfold blen; cbn; lia.
  - intros H. destruct (IH _ _ _ _ _ _ H) as [hdr [Hc' Hl]]. exists (y :: hdr). rewrite Hc, Hc'.
    split; [reflexivity|]. unfold blen in *; cbn [length]; lia.
Qed.

Lemma uv_dec_nonneg n : forall i x s r v r', 0 <= x -> 0 <= s -> uv_dec n i x s r = (Some v, r') -> 0 <= v.
Proof.
  induction n as [|n IH]; intros i x s r v r' Hx Hs; cbn [uv_dec]; [discriminate|].
  destruct (read_byte r) as [[[y|] st] r1]; [|discriminate].
  pose proof (N2Z.is_nonneg y). assert (0 < 2 ^ s) by (apply Z.pow_pos_nonneg; lia).
  destruct (Z.ltb_spec (Z.of_N y) 128).
  - destruct (andb _ _); [discriminate|]. intros E; inversion E; subst. nia.
  - apply IH; nia.
Qed.

Theorem vi_complete max r f r' : 0 < max -> decode_vi max r = (DFrame f, r') ->
  exists hdr, contents r = hdr ++ f ++ contents r' /\ blen f <= max /\ blen hdr <= 10.
Proof.
  intros Hm. unfold decode_vi, read_uvarint. destruct (uv_dec 10 0 0 0 r) as [[fl|] r1] eqn:E; [|discriminate].
  destruct (uv_dec_inv _ _ _ _ _ _ _ E) as [hdr [Hc Hl]].
  assert (Hz : 0 <= 0) by lia.
  pose proof (uv_dec_nonneg _ _ _ _ _ _ _ Hz Hz E) as Hpos.
  destruct (Z.ltb_spec max fl) as [|Hle]; [discriminate|].
  destruct (read_full fl r1) as [[body st] r2] eqn:E2. destruct st; try discriminate.
  intros H; inversion H; subst.
  destruct (read_full_inv _ _ _ _ Hpos E2) as [Hc2 Hl2]. exists hdr. rewrite Hc, Hc2.
  repeat split; auto; lia.
Qed.

Theorem vi_eof max r : contents r = [] -> exists e r', decode_vi max r = (DExc e, r').
Proof.
  intros Hc. unfold decode_vi, read_uvarint. cbn [uv_dec].
  destruct (read_byte_end r Hc) as [st [r' [E _]]]. rewrite E. eauto.
Qed.

Theorem vi_no_fault max r : fst (decode_vi max r) <> DFault.
Proof.
  unfold decode_vi. destruct (read_uvarint r) as [[fl|] r1]; [|cbn [fst]; discriminate].
  destruct (Z.ltb max fl); [cbn [fst]; discriminate|].
  destruct (read_full fl r1) as [[b st] r2]. destruct st; cbn [fst]; discriminate.
Qed.

(* ---------- delimiter ---------- *)
Definition dl_out (d : bytes) (strip : bool) (whole : bytes) : bytes :=
  if strip then btake (blen whole - blen d) whole else whole.

Lemma delim_loop_ok max d strip fuel : forall buf rest r b,
  plain r = true -> contents r = rest ++ b -> (mu r < fuel)%nat -> rest <> [] ->
  (forall j, (j < length rest)%nat -> has_suffix d (buf ++ firstn j rest) = false) ->
  has_suffix d (buf ++ rest) = true -> blen (buf ++ rest) <= max ->
  exists r', delim_loop fuel max d strip buf r = (DFrame (dl_out d strip (buf ++ rest)), r') /\
             contents r' = b /\ plain r' = true.
Proof.
  induction fuel as [|fuel IH]; intros buf rest r b Hp Hc Hf Hne Hno Hyes Hmax; [lia|].
  cbn [delim_loop]. rewrite blen_app in Hmax.
  assert (0 < blen rest) by (destruct rest; [congruence|unfold blen; cbn [length]; lia]).
  destruct (Z.leb_spec max (blen buf)); [lia|].
  destruct (read 1 r) as [[bs st] r1] eqn:R.
  destruct (read_spec 1 _ _ _ _ ltac:(lia) R) as [Hc1 [Hb [Hnu [Hmu [Hnok Hpl]]]]].
  destruct (Hpl Hp) as [Hp1 Hbs]. destruct st.
  - specialize (Hmu eq_refl). destruct bs as [|x bs].
    + (* a (0, nil) read: nothing appended *)
      rewrite app_nil_r. cbn [app] in Hc1.
      pose proof (Hno O ltac:(destruct rest; [congruence|cbn; lia])) as Hz0. cbn [firstn] in Hz0.
      rewrite app_nil_r in Hz0. rewrite Hz0.
      apply IH; auto; [congruence|lia|rewrite blen_app; lia].
    + assert (bs = []) by (apply blen_0; unfold blen in *; cbn [length] in Hb; lia). subst bs.
      destruct rest as [|y rest]; [congruence|]. rewrite Hc in Hc1. inversion Hc1; subst y.
      destruct rest as [|z rest].
      * rewrite Hyes. exists r1. auto.
      * pose proof (Hno 1%nat ltac:(cbn; lia)) as H1. cbn [firstn] in H1. rewrite H1.
        destruct (IH (buf ++ [x]) (z :: rest) r1 b) as [r' [E [Hc' Hp']]]; auto; try congruence; try lia.
        -- intros j Hj. rewrite <- app_assoc. cbn [app]. apply (Hno (S j)). cbn [length] in *. lia.
        -- rewrite <- app_assoc. exact Hyes.
        -- rewrite <- app_assoc. cbn [app]. rewrite blen_app. lia.
        -- exists r'. rewrite E, <- app_assoc. auto.
  - exfalso. rewrite (Hbs ltac:(congruence)), (Hnok ltac:(congruence)) in Hc1. rewrite Hc in Hc1.
    destruct rest; [congruence|discriminate].
  - congruence.
  - exfalso. rewrite (Hbs ltac:(congruence)), (Hnok ltac:(congruence)) in Hc1. rewrite Hc in Hc1.
    destruct rest; [congruence|discriminate].
Qed.

(* the delimiter codec's contract on a payload: the first place where the
   stream p ++ d ends with d is its very end, and the frame fits *)
Definition dl_admits (max : Z) (d : bytes) (p : bytes) : Prop :=
  blen p + blen d <= max /\
  forall j, (j < length (p ++ d))%nat -> has_suffix d (firstn j (p ++ d)) = false.

Lemma has_suffix_self d p : has_suffix d (p ++ d) = true.
Proof.
  unfold has_suffix. rewrite blen_app. pose proof (blen_nonneg p).
  replace (blen p + blen d - blen d) with (blen p) by lia. rewrite bdrop_app_exact.
  destruct (Z.leb_spec (blen d) (blen p + blen d)); [|lia]. cbn [andb].
  clear. induction d as [|x d IH]; cbn [beq_bytes]; [reflexivity|]. rewrite N.eqb_refl. exact IH.
Qed.

Lemma dl_decode_one max d strip : d <> [] -> forall p r b, dl_admits max d p -> plain r = true ->
  contents r = encode_dl d p ++ b ->
  exists r', decode_dl max d strip r = (DFrame (dl_out d strip (p ++ d)), r') /\ contents r' = b /\ plain r' = true.
Proof.
  intros Hd p r b [Hmax Hno] Hp Hc. unfold decode_dl, encode_dl in *.
  destruct (delim_loop_ok max d strip (S (mu r)) [] (p ++ d) r b) as [r' H]; auto.
  - destruct p; [exact Hd|discriminate].
  - cbn [app]. apply has_suffix_self.
  - cbn [app]. rewrite blen_app. exact Hmax.
  - exists r'. exact H.
Qed.

Lemma delim_loop_inv max d strip fuel : forall buf r f r',
  delim_loop fuel max d strip buf r = (DFrame f, r') ->
  exists got, contents r = got ++ contents r' /\ has_suffix d (buf ++ got) = true /\
              blen (buf ++ got) <= max /\ f = dl_out d strip (buf ++ got).
Proof.
  induction fuel as [|fuel IH]; intros buf r f r'; cbn [delim_loop].
  - destruct (Z.leb max (blen buf)); discriminate.
  - destruct (Z.leb_spec max (blen buf)) as [|Hlt]; [discriminate|].
    destruct (read 1 r) as [[bs st] r1] eqn:R.
    destruct (read_spec 1 _ _ _ _ ltac:(lia) R) as [Hc1 [Hb _]].
    destruct st; try discriminate.
    destruct (has_suffix d (buf ++ bs)) eqn:Hs.
    + intros H; inversion H; subst. exists bs. repeat split; auto. rewrite blen_app. lia.
    + intros H. destruct (IH _ _ _ _ H) as [got [Hc [Hy [Hm Hf]]]].
      exists (bs ++ got). rewrite app_assoc. repeat split; auto. rewrite Hc1, Hc, app_assoc. reflexivity.
Qed.

(* C08: a delivered delimiter frame was received completely, ends with the
   delimiter and respects the maximum *)
Theorem dl_complete max d strip r f r' : decode_dl max d strip r = (DFrame f, r') ->
  exists whole, contents r = whole ++ contents r' /\ has_suffix d whole = true /\
                blen whole <= max /\ f = dl_out d strip whole.
Proof. intros H. apply (delim_loop_inv max d strip _ [] r f r' H). Qed.

Lemma delim_loop_eof max d strip fuel : forall buf r, contents r = [] -> (mu r < fuel)%nat ->
  has_suffix d buf = false -> exists e r', delim_loop fuel max d strip buf r = (DExc e, r').
Proof.
  induction fuel as [|fuel IH]; intros buf r Hc Hf Hs; [lia|]. cbn [delim_loop].
  destruct (Z.leb max (blen buf)); [eauto|].
  destruct (read 1 r) as [[bs st] r1] eqn:R.
  destruct (read_spec 1 _ _ _ _ ltac:(lia) R) as [Hc1 [Hb [Hnu [Hmu [Hnok _]]]]].
  rewrite Hc in Hc1. symmetry in Hc1. apply app_eq_nil in Hc1 as [-> Hc1].
  destruct st; eauto. rewrite app_nil_r, Hs. apply IH; auto. specialize (Hmu eq_refl). lia.
Qed.

Theorem dl_eof max d strip r : d <> [] -> contents r = [] -> exists e r', decode_dl max d strip r = (DExc e, r').
Proof.
  intros Hd Hc. apply delim_loop_eof; auto.
  unfold has_suffix. destruct d; [congruence|]. unfold blen; cbn [length].
  destruct (Z.leb_spec (Z.of_nat (S (length d))) (Z.of_nat 0)); [lia|reflexivity].
Qed.

Lemma delim_loop_no_fault max d strip fuel : forall buf r, (mu r < fuel)%nat ->
  fst (delim_loop fuel max d strip buf r) <> DFault.
Proof.
  induction fuel as [|fuel IH]; intros buf r Hf; [lia|]. cbn [delim_loop].
  destruct (Z.leb max (blen buf)); [cbn; discriminate|].
  destruct (read 1 r) as [[bs st] r1] eqn:R.
  destruct (read_spec 1 _ _ _ _ ltac:(lia) R) as [_ [_ [_ [Hmu _]]]].
  destruct st; cbn; try discriminate.
  destruct (has_suffix d (buf ++ bs)); cbn; [discriminate|]. apply IH. specialize (Hmu eq_refl). lia.
Qed.

Theorem dl_no_fault max d strip r : fst (decode_dl max d strip r) <> DFault.
Proof. apply delim_loop_no_fault. lia. Qed.

(* ---------- lifting the single-frame lemmas to frame sequences ---------- *)
Definition enc_or_nil (o : option bytes) : bytes := match o with Some w => w | None => [] end.

Theorem pp_pair_roundtrip c max : width_ok (pp_w c) = true -> - 2 ^ 61 < pp_adj c < 2 ^ 61 -> 0 < max < 2 ^ 61 ->
  forall bodies, Forall (fun body => exists w, encode_pp c body = Some w /\ blen w <= max) bodies ->
  forall r b, contents r = concat (map (fun body => enc_or_nil (encode_pp c body)) bodies) ++ b ->
  exists r', decode_n (decode_lf (pp_decoder c max)) (length bodies) r = (bodies, None, r') /\ contents r' = b.
Proof.
  intros Hw Ha Hm bodies HF r b Hc.
  destruct (decode_n_ok bytes (decode_lf (pp_decoder c max)) (fun body => enc_or_nil (encode_pp c body)) (fun x => x)
              (fun body => exists w, encode_pp c body = Some w /\ blen w <= max) (fun _ => True)
              (pp_pair_one c max Hw Ha Hm) bodies HF r b I Hc) as [r' [E [Hc' _]]].
  exists r'. rewrite map_id in E. auto.
Qed.

Theorem vi_roundtrip max : 0 < max < 2 ^ 62 ->
  forall bodies, Forall (fun body => blen body <= max) bodies ->
  forall r b, contents r = concat (map (fun body => enc_or_nil (encode_vi max body)) bodies) ++ b ->
  exists r', decode_n (decode_vi max) (length bodies) r = (bodies, None, r') /\ contents r' = b.
Proof.
  intros Hm bodies HF r b Hc.
  destruct (decode_n_ok bytes (decode_vi max) (fun body => enc_or_nil (encode_vi max body)) (fun x => x)
              (fun body => blen body <= max) (fun _ => True) (vi_decode_one max Hm) bodies HF r b I Hc) as [r' [E [Hc' _]]].
  exists r'. rewrite map_id in E. auto.
Qed.

Theorem dl_roundtrip max d strip : d <> [] ->
  forall ps, Forall (dl_admits max d) ps ->
  forall r b, plain r = true -> contents r = concat (map (encode_dl d) ps) ++ b ->
  exists r', decode_n (decode_dl max d strip) (length ps) r = (map (fun p => dl_out d strip (p ++ d)) ps, None, r') /\
             contents r' = b.
Proof.
  intros Hd ps HF r b Hp Hc.
  destruct (decode_n_ok bytes (decode_dl max d strip) (encode_dl d) (fun p => dl_out d strip (p ++ d))
              (dl_admits max d) (fun r => plain r = true) (dl_decode_one max d strip Hd) ps HF r b Hp Hc) as [r' [E [Hc' _]]].
  exists r'. auto.
Qed.

Lemma dl_out_strip d p : dl_out d true (p ++ d) = p.
Proof.
  unfold dl_out. rewrite blen_app. replace (blen p + blen d - blen d) with (blen p) by lia.
  apply btake_app_exact.
Qed.

Theorem fx_roundtrip len : 0 <= len ->
  forall fs, Forall (fun f => blen f = len) fs ->
  forall r b, contents r = concat fs ++ b ->
  exists r', decode_n (decode_fx len) (length fs) r = (fs, None, r') /\ contents r' = b.
Proof.
  intros Hl fs HF r b Hc.
  destruct (decode_n_ok bytes (decode_fx len) (fun x => x) (fun x => x) (fun f => blen f = len) (fun _ => True)
              (fx_decode_one len Hl) fs HF r b I) as [r' [E [Hc' _]]]; [rewrite map_id; exact Hc|].
  exists r'. rewrite map_id in E. auto.
Qed.

From Coq Require Import List NArith Bool Arith Lia.
From GN Require Import Model.Http.
From GN Require Import Model.HttpHead.
Import ListNotations.
Open Scope N_scope.

(* ---------------- decimal ---------------- *)
Lemma decval_decdigit d : d < 10 -> decval (decdigit d) = Some d.
Proof.
  intros H. unfold decdigit, decval.
  assert (E1 : (48 <=? 48 + d) = true) by (apply N.leb_le; lia).
  assert (E2 : (48 + d <=? 57) = true) by (apply N.leb_le; lia). rewrite E1, E2. cbn [andb]. f_equal. lia.
Qed.
Definition dv (c : N) : N := match decval c with Some v => v | None => 0 end.
Definition decfold (acc : N) (ds : bytes) : N := fold_left (fun a c => a * 10 + dv c) ds acc.
Definition is_dec (c : N) : bool := match decval c with Some _ => true | None => false end.

Lemma parse_dec_digits : forall ds acc rest, forallb is_dec ds = true ->
  match rest with [] => True | c :: _ => decval c = None end ->
  parse_dec acc (ds ++ rest) = (decfold acc ds, rest).
Proof.
  induction ds as [|d r IH]; intros acc rest Hall Hr.
  - cbn [app decfold fold_left]. destruct rest as [|c rest']; [reflexivity|]. cbn [parse_dec]. rewrite Hr. reflexivity.
  - cbn [forallb] in Hall. apply andb_true_iff in Hall. destruct Hall as [Hd Hall]. cbn [app parse_dec].
    unfold is_dec in Hd. destruct (decval d) as [v|] eqn:E; [|discriminate].
    rewrite IH by assumption. unfold decfold. cbn [fold_left]. unfold dv. rewrite E. reflexivity.
Qed.
Lemma decfold_app acc l d : decfold acc (l ++ [d]) = decfold acc l * 10 + dv d.
Proof. unfold decfold. rewrite fold_left_app. reflexivity. Qed.

Lemma to_dec_fuel_spec : forall f n acc, n < 10 ^ N.of_nat (S f) ->
  forallb is_dec (to_dec_fuel f n) = true /\
  decfold acc (to_dec_fuel f n) = acc * 10 ^ N.of_nat (length (to_dec_fuel f n)) + n.
Proof.
  induction f as [|f IH]; intros n acc Hn.
  - change (10 ^ N.of_nat 1) with 10 in Hn. cbn [to_dec_fuel]. rewrite N.mod_small by exact Hn. split.
    + cbn [forallb]. unfold is_dec. rewrite decval_decdigit by exact Hn. reflexivity.
    + unfold decfold. cbn [fold_left]. unfold dv. rewrite decval_decdigit by exact Hn. cbn [length]. change (N.of_nat 1) with 1. rewrite N.pow_1_r. lia.
  - cbn [to_dec_fuel]. destruct (N.ltb_spec n 10) as [Hs|Hb].
    + split.
      * cbn [forallb]. unfold is_dec. rewrite decval_decdigit by exact Hs. reflexivity.
      * unfold decfold. cbn [fold_left]. unfold dv. rewrite decval_decdigit by exact Hs. cbn [length]. change (N.of_nat 1) with 1. rewrite N.pow_1_r. lia.
    + assert (Hq : n / 10 < 10 ^ N.of_nat (S f)).
      { apply N.div_lt_upper_bound; [lia|]. rewrite Nat2N.inj_succ, N.pow_succ_r' in Hn. exact Hn. }
      destruct (IH (n / 10) acc Hq) as [A B].
      assert (Hm : n mod 10 < 10) by (apply N.mod_lt; lia).
      split.
      * rewrite forallb_app, A. cbn [forallb andb]. unfold is_dec. rewrite decval_decdigit by exact Hm. reflexivity.
      * rewrite decfold_app, B. unfold dv. rewrite decval_decdigit by exact Hm.
        rewrite app_length. cbn [length]. rewrite Nat.add_1_r, Nat2N.inj_succ, N.pow_succ_r'.
        pose proof (N.div_mod n 10 ltac:(lia)). lia.
Qed.
Lemma size_bound10 n : n < 10 ^ N.of_nat (S (N.to_nat (N.size n))).
Proof.
  rewrite Nat2N.inj_succ, N2Nat.id.
  apply N.lt_le_trans with (2 ^ N.size n).
  - destruct n as [|p]; [cbn; lia|]. apply N.size_gt.
  - apply N.le_trans with (2 ^ N.succ (N.size n)); [apply N.pow_le_mono_r; lia|].
    apply N.pow_le_mono_l. lia.
Qed.
Lemma to_dec_digits n : forallb is_dec (to_dec n) = true.
Proof. unfold to_dec. apply (to_dec_fuel_spec _ n 0 (size_bound10 n)). Qed.
Theorem parse_to_dec n rest : match rest with [] => True | c :: _ => decval c = None end ->
  parse_dec 0 (to_dec n ++ rest) = (n, rest).
Proof.
  intros Hr. rewrite parse_dec_digits by (auto using to_dec_digits). f_equal.
  unfold to_dec. destruct (to_dec_fuel_spec (N.to_nat (N.size n)) n 0 (size_bound10 n)) as [_ B]. rewrite B. lia.
Qed.

(* ---------------- lines ---------------- *)
Lemma take_line_app : forall l rest, no_byte CR l = true -> take_line (l ++ CR :: LF :: rest) = Some (l, rest).
Proof.
  induction l as [|c r IH]; intros rest H.
  - cbn [app take_line]. change (CR =? CR) with true. change (LF =? LF) with true. reflexivity.
  - cbn [no_byte forallb] in H. apply andb_true_iff in H. destruct H as [Hc Hr]. cbn [app take_line].
    apply negb_true_iff in Hc. rewrite Hc. fold (no_byte CR r) in Hr. rewrite (IH rest Hr). reflexivity.
Qed.
Lemma split_at_app x : forall k v, no_byte x k = true -> split_at x (k ++ x :: v) = Some (k, v).
Proof.
  induction k as [|c r IH]; intros v H.
  - cbn [app split_at]. rewrite N.eqb_refl. reflexivity.
  - cbn [no_byte forallb] in H. apply andb_true_iff in H. destruct H as [Hc Hr]. cbn [app split_at].
    apply negb_true_iff in Hc. rewrite Hc. fold (no_byte x r) in Hr. rewrite (IH v Hr). reflexivity.
Qed.
Lemma strip_prefix_app p r : strip_prefix p (p ++ r) = Some r.
Proof. induction p as [|x p IH]; cbn [app strip_prefix]; [reflexivity|]. rewrite N.eqb_refl. exact IH. Qed.
Lemma no_byte_app x a b : no_byte x (a ++ b) = andb (no_byte x a) (no_byte x b).
Proof. unfold no_byte. apply forallb_app. Qed.
Lemma dec_no_cr n : no_byte CR (to_dec n) = true.
Proof.
  pose proof (to_dec_digits n) as H. unfold no_byte. rewrite forallb_forall in *. intros c Hc. specialize (H c Hc).
  unfold is_dec, decval in H. destruct (andb (48 <=? c) (c <=? 57)) eqn:E; [|discriminate].
  apply andb_true_iff in E. destruct E as [E _]. apply N.leb_le in E. apply negb_true_iff. apply N.eqb_neq. unfold CR. lia.
Qed.

Lemma status_line_ok maj min code :
  let line := http_prefix ++ to_dec maj ++ [DOT] ++ to_dec min ++ [SP] ++ to_dec code ++ [SP] ++ ok_text in
  no_byte CR line = true /\ parse_status line = Some (maj, min, code).
Proof.
  intros line. split.
  - subst line. rewrite !no_byte_app, !dec_no_cr. reflexivity.
  - subst line. unfold parse_status. rewrite strip_prefix_app.
    rewrite (parse_to_dec maj ([DOT] ++ to_dec min ++ [SP] ++ to_dec code ++ [SP] ++ ok_text)) by reflexivity.
    cbn [app]. change (DOT =? DOT) with true. cbv iota.
    rewrite (parse_to_dec min (SP :: to_dec code ++ SP :: ok_text)) by reflexivity.
    change (SP =? SP) with true. cbv iota.
    rewrite (parse_to_dec code (SP :: ok_text)) by reflexivity. reflexivity.
Qed.

Lemma skip_sp_one v : match v with c :: _ => negb (c =? SP) | [] => true end = true -> skip_sp (SP :: v) = v.
Proof.
  intros H. cbn [skip_sp]. change (SP =? SP) with true. cbv iota. destruct v as [|c r]; [reflexivity|].
  cbn [skip_sp]. apply negb_true_iff in H. rewrite H. reflexivity.
Qed.

Theorem parse_headers_emit : forall hs rest f, forallb wf_header hs = true -> (length hs < f)%nat ->
  parse_headers f (concat (map emit_header hs) ++ [CR; LF] ++ rest) = Some (hs, rest).
Proof.
  induction hs as [|[k v] r IH]; intros rest f Hw Hf.
  - destruct f as [|f]; [lia|]. reflexivity.
  - destruct f as [|f]; [lia|]. cbn [forallb] in Hw. apply andb_true_iff in Hw. destruct Hw as [Hkv Hw].
    unfold wf_header in Hkv. cbn [fst snd] in Hkv.
    apply andb_true_iff in Hkv. destruct Hkv as [Hne Hkv]. apply andb_true_iff in Hkv. destruct Hkv as [Hkc Hkv].
    apply andb_true_iff in Hkv. destruct Hkv as [Hkr Hkv]. apply andb_true_iff in Hkv. destruct Hkv as [Hvr Hvs].
    cbn [map concat]. unfold emit_header at 1. cbn [fst snd]. rewrite <- !app_assoc.
    cbn [parse_headers].
    replace (k ++ [COLON; SP] ++ v ++ [CR; LF] ++ concat (map emit_header r) ++ [CR; LF] ++ rest)
      with ((k ++ [COLON; SP] ++ v) ++ CR :: LF :: (concat (map emit_header r) ++ [CR; LF] ++ rest))
      by (rewrite <- !app_assoc; reflexivity).
    rewrite take_line_app by (rewrite !no_byte_app, Hkr, Hvr; reflexivity).
    destruct (k ++ [COLON; SP] ++ v) as [|c0 l0] eqn:El.
    { destruct k; [discriminate|discriminate]. }
    rewrite <- El. change (k ++ [COLON; SP] ++ v) with (k ++ COLON :: (SP :: v)).
    rewrite split_at_app by exact Hkc. rewrite IH by (auto; cbn [length] in Hf; lia). rewrite skip_sp_one by exact Hvs. reflexivity.
Qed.

Theorem head_roundtrip maj min code hs rest : forallb wf_header hs = true ->
  parse_head (emit_head maj min code hs ++ rest) = Some (maj, min, code, hs, rest).
Proof.
  intros Hw. unfold parse_head, emit_head, emit_status.
  destruct (status_line_ok maj min code) as [Hnc Hps].
  set (line := http_prefix ++ to_dec maj ++ [DOT] ++ to_dec min ++ [SP] ++ to_dec code ++ [SP] ++ ok_text) in *.
  replace ((http_prefix ++ to_dec maj ++ [DOT] ++ to_dec min ++ [SP] ++ to_dec code ++ [SP] ++ ok_text ++ [CR; LF]) ++
           concat (map emit_header hs) ++ [CR; LF]) with (line ++ CR :: LF :: (concat (map emit_header hs) ++ [CR; LF]))
    by (subst line; rewrite <- !app_assoc; reflexivity).
  rewrite <- app_assoc. cbn [app]. rewrite take_line_app by exact Hnc. rewrite Hps.
  rewrite <- !app_assoc. rewrite parse_headers_emit; [reflexivity|exact Hw|].
  assert (Hl : (length hs <= length (concat (map emit_header hs)))%nat).
  { clear. induction hs as [|[k v] r IH]; [cbn; lia|]. cbn [map concat length]. rewrite app_length. unfold emit_header at 1. cbn [fst snd]. rewrite !app_length. cbn [length]. lia. }
  rewrite !app_length. lia.
Qed.

From Coq Require Import List Bool Arith.
From GN Require Import Model.Life.
Import ListNotations.

Lemma loop_ok prog : forall d, reads_ok (loop prog d) false d = true.
Proof.
  induction prog as [|o r IH]; intros d; destruct d; cbn; auto.
  destruct o; cbn; rewrite ?IH; auto.
  destruct r; reflexivity.
Qed.

Theorem life_run_ok prog : life_ok (life_run prog) = true.
Proof. unfold life_run, life_ok. cbn. apply loop_ok. Qed.

Theorem life_run_ctx_ok d prog : life_ok (life_run_ctx d prog) = true.
Proof. unfold life_run_ctx, life_ok. cbn [app]. destruct d; [destruct prog; reflexivity|apply loop_ok]. Qed.

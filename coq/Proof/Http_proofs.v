From Coq Require Import List NArith Bool Arith Lia.
From GN Require Import Model.Http.
Import ListNotations.
Open Scope N_scope.

(* ---------------- hexadecimal ---------------- *)
Lemma hexval_hexdigit d : d < 16 -> hexval (hexdigit d) = Some d.
Proof.
  intros H. unfold hexdigit, hexval. destruct (N.ltb_spec d 10).
  - assert (E1 : (48 <=? 48 + d) = true) by (apply N.leb_le; lia).
    assert (E2 : (48 + d <=? 57) = true) by (apply N.leb_le; lia). rewrite E1, E2. cbn [andb]. f_equal. lia.
  - assert (E1 : (87 + d <=? 57) = false) by (apply N.leb_gt; lia).
    assert (E2 : (97 <=? 87 + d) = true) by (apply N.leb_le; lia).
    assert (E3 : (87 + d <=? 102) = true) by (apply N.leb_le; lia).
    rewrite E1, andb_false_r, E2, E3. cbn [andb]. f_equal. lia.
Qed.

Definition hv (c : N) : N := match hexval c with Some v => v | None => 0 end.
Definition hexfold (acc : N) (ds : bytes) : N := fold_left (fun a c => a * 16 + hv c) ds acc.
Definition is_hex (c : N) : bool := match hexval c with Some _ => true | None => false end.

Lemma parse_hex_digits : forall ds acc rest, forallb is_hex ds = true ->
  match rest with [] => True | c :: _ => hexval c = None end ->
  parse_hex acc (ds ++ rest) = (hexfold acc ds, rest).
Proof.
  induction ds as [|d r IH]; intros acc rest Hall Hr.
  - cbn [app hexfold fold_left]. destruct rest as [|c rest']; [reflexivity|]. cbn [parse_hex]. rewrite Hr. reflexivity.
  - cbn [forallb] in Hall. apply andb_true_iff in Hall. destruct Hall as [Hd Hall]. cbn [app parse_hex].
    unfold is_hex in Hd. destruct (hexval d) as [v|] eqn:E; [|discriminate].
    rewrite IH by assumption. unfold hexfold. cbn [fold_left]. unfold hv. rewrite E. reflexivity.
Qed.

Lemma hexfold_app acc l d : hexfold acc (l ++ [d]) = hexfold acc l * 16 + hv d.
Proof. unfold hexfold. rewrite fold_left_app. reflexivity. Qed.

Lemma to_hex_fuel_spec : forall f n acc, n < 16 ^ N.of_nat (S f) ->
  forallb is_hex (to_hex_fuel f n) = true /\
  hexfold acc (to_hex_fuel f n) = acc * 16 ^ N.of_nat (length (to_hex_fuel f n)) + n /\ to_hex_fuel f n <> [].
Proof.
  induction f as [|f IH]; intros n acc Hn.
  - change (16 ^ N.of_nat 1) with 16 in Hn. cbn [to_hex_fuel]. rewrite N.mod_small by exact Hn.
    repeat split; try discriminate.
    + cbn. unfold is_hex. rewrite hexval_hexdigit by exact Hn. reflexivity.
    + unfold hexfold. cbn. unfold hv. rewrite hexval_hexdigit by exact Hn. lia.
  - cbn [to_hex_fuel]. destruct (N.ltb_spec n 16) as [Hs|Hb].
    + repeat split; try discriminate.
      * cbn. unfold is_hex. rewrite hexval_hexdigit by exact Hs. reflexivity.
      * unfold hexfold. cbn. unfold hv. rewrite hexval_hexdigit by exact Hs. lia.
    + assert (Hq : n / 16 < 16 ^ N.of_nat (S f)).
      { apply N.div_lt_upper_bound; [lia|]. rewrite Nat2N.inj_succ, N.pow_succ_r' in Hn. exact Hn. }
      destruct (IH (n / 16) acc Hq) as [A [B C]].
      assert (Hm : n mod 16 < 16) by (apply N.mod_lt; lia).
      repeat split.
      * rewrite forallb_app, A. cbn. unfold is_hex. rewrite hexval_hexdigit by exact Hm. reflexivity.
      * rewrite hexfold_app, B. unfold hv. rewrite hexval_hexdigit by exact Hm.
        rewrite app_length. cbn [length]. rewrite Nat.add_1_r, Nat2N.inj_succ, N.pow_succ_r'.
        pose proof (N.div_mod n 16 ltac:(lia)). lia.
      * intros E. apply app_eq_nil in E. destruct E; discriminate.
Qed.

Lemma size_bound n : n < 16 ^ N.of_nat (S (N.to_nat (N.size n))).
Proof.
  rewrite Nat2N.inj_succ, N2Nat.id.
  apply N.lt_le_trans with (2 ^ N.size n).
  - destruct n as [|p]; [cbn; lia|]. apply N.size_gt.
  - change 16 with (2 ^ 4). rewrite <- N.pow_mul_r. apply N.pow_le_mono_r; lia.
Qed.

Theorem parse_to_hex n rest : match rest with [] => True | c :: _ => hexval c = None end ->
  parse_hex 0 (to_hex n ++ rest) = (n, rest) /\ exists c l, to_hex n = c :: l /\ hexval c <> None.
Proof.
  intros Hr. unfold to_hex. destruct (to_hex_fuel_spec (N.to_nat (N.size n)) n 0 (size_bound n)) as [A [B C]].
  split.
  - rewrite parse_hex_digits by assumption. rewrite B. f_equal; lia.
  - destruct (to_hex_fuel _ n) as [|c l] eqn:E; [congruence|]. exists c, l. split; [reflexivity|].
    cbn [forallb] in A. apply andb_true_iff in A. destruct A as [A _]. unfold is_hex in A. destruct (hexval c); [discriminate|discriminate].
Qed.

(* ---------------- chunked transfer encoding ---------------- *)
Lemma dec_mono : forall f l x, dec_chunked f l = Some x -> forall g, (f <= g)%nat -> dec_chunked g l = Some x.
Proof.
  induction f as [|f IH]; intros l x H g Hg; [discriminate|].
  destruct g as [|g]; [lia|]. cbn [dec_chunked] in *.
  destruct l as [|c r]; [discriminate|]. destruct (hexval c) as [hv0|]; [|discriminate].
  destruct (parse_hex 0 (c :: r)) as [sz r0]. destruct (expect_crlf r0) as [r1|]; [|discriminate].
  destruct (sz =? 0); [exact H|]. destruct (N.of_nat (length r1) <? sz); [discriminate|].
  destruct (expect_crlf (skipn (N.to_nat sz) r1)) as [r2|]; [|discriminate].
  destruct (dec_chunked f r2) as [[b rest]|] eqn:E; [|discriminate].
  rewrite (IH r2 (b, rest) E g ltac:(lia)). exact H.
Qed.

Lemma dec_one_chunk f b tail : b <> [] ->
  dec_chunked (S f) (enc_chunk b ++ tail) =
  match dec_chunked f tail with Some (b', rest) => Some (b ++ b', rest) | None => None end.
Proof.
  intros Hb. unfold enc_chunk. destruct b as [|b0 br] eqn:Eb; [congruence|]. rewrite <- Eb in *. clear Hb.
  assert (Hne : blen b <> 0) by (subst b; unfold blen; cbn; lia).
  rewrite <- !app_assoc.
  destruct (parse_to_hex (blen b) ([CR; LF] ++ b ++ [CR; LF] ++ tail) eq_refl) as [P [c [l [Ec Hc]]]].
  cbn [dec_chunked]. rewrite Ec in *. cbn [app]. destruct (hexval c) eqn:Ehc; [|congruence].
  cbn [app] in P. rewrite P.
  cbn [app expect_crlf]. change (CR =? CR) with true. change (LF =? LF) with true. cbn [andb].
  apply N.eqb_neq in Hne. rewrite Hne.
  assert (Hlen : (N.of_nat (length (b ++ CR :: LF :: tail)) <? blen b) = false).
  { apply N.ltb_ge. unfold blen. rewrite app_length. lia. }
  rewrite Hlen. unfold blen. rewrite Nat2N.id.
  rewrite skipn_app, skipn_all, Nat.sub_diag. cbn [app skipn expect_crlf].
  change (CR =? CR) with true. change (LF =? LF) with true. cbn [andb].
  rewrite firstn_app, firstn_all, Nat.sub_diag. cbn [firstn]. rewrite app_nil_r. reflexivity.
Qed.

Definition nonnil (b : bytes) : bool := match b with [] => false | _ => true end.
Definition nz (ws : list bytes) : nat := length (filter nonnil ws).
Theorem chunked_roundtrip : forall ws rest f, (nz ws < f)%nat ->
  dec_chunked f (enc_chunked ws ++ rest) = Some (concat ws, rest).
Proof.
  unfold enc_chunked, nz. induction ws as [|b r IH]; intros rest f Hf.
  - destruct f as [|f]; [cbn in Hf; lia|]. reflexivity.
  - cbn [map concat]. destruct b as [|b0 br].
    + cbn [enc_chunk app]. apply IH. cbn in Hf. lia.
    + destruct f as [|f]; [lia|]. rewrite <- !app_assoc.
      rewrite dec_one_chunk by discriminate.
      replace (concat (map enc_chunk r) ++ [48; CR; LF] ++ [CR; LF] ++ rest) with ((concat (map enc_chunk r) ++ [48; CR; LF] ++ [CR; LF]) ++ rest) by (rewrite <- !app_assoc; reflexivity).
      rewrite IH by (cbn in Hf; lia). reflexivity.
Qed.

(* ---------------- the response writer ---------------- *)
Definition is_chunked (m : rmode) : bool := match m with MChunked => true | _ => false end.
Definition enc_body (m : rmode) (ws : list bytes) : bytes := if is_chunked m then concat (map enc_chunk ws) else concat ws.
Definition enc_end (m : rmode) : bytes := if is_chunked m then [48; CR; LF] ++ [CR; LF] else [].

Definition ev_of (m : rmode) (a : haction) : list wev :=
  match a with
  | AWriteHeader _ => []
  | AWrite b => [WBytes (if is_chunked m then enc_chunk b else b)]
  | AFlush => [WFlush]
  end.
Definition the_head (m : rmode) (d : N) (prog : list haction) : head :=
  {| h_status := status_of_prog prog; h_mode := m; h_len := d |}.
Definition writer_spec (m : rmode) (d : N) (prog : list haction) : list wev :=
  WHead (the_head m d prog) :: flat_map (ev_of m) prog ++ (if is_chunked m then [WBytes ([48; CR; LF] ++ [CR; LF])] else []) ++ [WFlush].

Lemma wstep_wrote m d : forall prog s, wrote s = true -> chunked_on s = is_chunked m -> closed_w s = false ->
  let s' := fold_left (wstep m d) prog s in
  wrote s' = true /\ chunked_on s' = is_chunked m /\ closed_w s' = false /\ wlog s' = wlog s ++ flat_map (ev_of m) prog.
Proof.
  induction prog as [|a r IH]; intros s Hw Hc Hcl; cbn [fold_left flat_map].
  - rewrite app_nil_r. auto.
  - assert (Hs : let s1 := wstep m d s a in wrote s1 = true /\ chunked_on s1 = is_chunked m /\ closed_w s1 = false /\ wlog s1 = wlog s ++ ev_of m a).
    { unfold wstep. rewrite Hcl. destruct a as [c|b|]; unfold write_header; rewrite Hw; cbn [wrote chunked_on closed_w wlog ev_of];
        rewrite ?Hc, ?app_nil_r; auto. }
    destruct Hs as [A [B [C D]]]. destruct (IH _ A B C) as [A' [B' [C' D']]].
    repeat split; auto. rewrite D', D, <- app_assoc. reflexivity.
Qed.

Theorem run_writer_spec m d prog : run_writer m d prog = writer_spec m d prog.
Proof.
  unfold run_writer, writer_spec. destruct prog as [|a r].
  - cbn. destruct m; reflexivity.
  - cbn [fold_left].
    assert (Hs : let s1 := wstep m d winit a in
                 wrote s1 = true /\ chunked_on s1 = is_chunked m /\ closed_w s1 = false /\
                 wlog s1 = WHead (the_head m d (a :: r)) :: ev_of m a).
    { unfold wstep, write_header, the_head. cbn [closed_w winit wrote wlog app].
      destruct a as [c|b|]; cbn [wrote chunked_on closed_w wlog ev_of status_of_prog app]; repeat split; destruct m; reflexivity. }
    destruct Hs as [A [B [C D]]]. destruct (wstep_wrote m d r _ A B C) as [A' [B' [C' D']]].
    unfold wclose. rewrite C'. unfold write_header. rewrite A'. cbn [wlog chunked_on]. rewrite B', D', D.
    cbn [flat_map app]. rewrite <- !app_assoc. reflexivity.
Qed.

Lemma wire_of_app a b : wire_of (a ++ b) = wire_of a ++ wire_of b.
Proof. unfold wire_of. rewrite flat_map_app. reflexivity. Qed.
Lemma heads_of_app a b : heads_of (a ++ b) = heads_of a ++ heads_of b.
Proof. unfold heads_of. rewrite flat_map_app. reflexivity. Qed.
Lemma heads_of_evs m prog : heads_of (flat_map (ev_of m) prog) = [].
Proof. induction prog as [|[c|b|] r IH]; cbn [flat_map ev_of app]; auto. Qed.
Lemma wire_of_cons e l : wire_of (e :: l) = match e with WBytes b => b | _ => [] end ++ wire_of l.
Proof. reflexivity. Qed.
Lemma wire_of_evs m prog : wire_of (flat_map (ev_of m) prog) = enc_body m (body_of_prog prog).
Proof.
  unfold enc_body. induction prog as [|[c|b|] r IH].
  - destruct (is_chunked m); reflexivity.
  - exact IH.
  - cbn [flat_map ev_of app body_of_prog]. rewrite wire_of_cons, IH. cbn [map concat]. destruct (is_chunked m); reflexivity.
  - cbn [flat_map ev_of app body_of_prog]. rewrite wire_of_cons, IH. reflexivity.
Qed.

(* exactly one head, first, with the handler's status; the body framed per the mode; the last thing is a flush *)
Theorem writer_output m d prog :
  let evs := run_writer m d prog in
  heads_of evs = [the_head m d prog] /\
  wire_of evs = enc_body m (body_of_prog prog) ++ enc_end m /\
  last evs WFlush = WFlush /\ exists tl, evs = WHead (the_head m d prog) :: tl.
Proof.
  rewrite run_writer_spec. unfold writer_spec. repeat split.
  - change (WHead (the_head m d prog) :: ?x) with ([WHead (the_head m d prog)] ++ x).
    rewrite !heads_of_app, heads_of_evs. destruct (is_chunked m); reflexivity.
  - change (WHead (the_head m d prog) :: ?x) with ([WHead (the_head m d prog)] ++ x).
    rewrite !wire_of_app, wire_of_evs. unfold enc_end. destruct (is_chunked m); cbn; rewrite ?app_nil_r; reflexivity.
  - rewrite app_comm_cons, app_assoc. apply last_last.
  - eexists. reflexivity.
Qed.

Lemma nz_le_wire ws : (nz ws <= length (concat (map enc_chunk ws)))%nat.
Proof.
  unfold nz. induction ws as [|b r IH]; [cbn; lia|]. cbn [filter map concat]. rewrite app_length.
  destruct b as [|b0 br]; cbn [nonnil]; [cbn [enc_chunk length]; lia|].
  assert (H1 : (1 <= length (enc_chunk (b0 :: br)))%nat).
  { unfold enc_chunk. rewrite app_length. cbn [app length]. lia. }
  cbn [length] in *. lia.
Qed.

(* ---------------- what the parser reads back ---------------- *)
Theorem body_roundtrip m prog rest :
  (match m with MNone => rest = [] | _ => True end) ->
  let ws := body_of_prog prog in
  let h := the_head m (N.of_nat (length (concat ws))) prog in
  read_body h ((enc_body m ws ++ enc_end m) ++ rest) = Some (concat ws, rest).
Proof.
  intros Hr ws h. unfold read_body, h, the_head. cbn [h_mode h_len]. destruct m; unfold enc_body, enc_end; cbn [is_chunked].
  - rewrite app_nil_r. destruct (N.ltb_spec (N.of_nat (length (concat ws ++ rest))) (N.of_nat (length (concat ws)))) as [Hlt|_].
    + rewrite app_length in Hlt. lia.
    + rewrite Nat2N.id, firstn_app, firstn_all, Nat.sub_diag, skipn_app, skipn_all, Nat.sub_diag. cbn. rewrite app_nil_r. reflexivity.
  - change (concat (map enc_chunk ws) ++ [48; CR; LF] ++ [CR; LF]) with (enc_chunked ws).
    apply chunked_roundtrip. rewrite app_length. unfold enc_chunked. rewrite app_length.
    pose proof (nz_le_wire ws). lia.
  - subst rest. rewrite !app_nil_r. reflexivity.
Qed.

(* ---------------- the connection loop ---------------- *)
Definition starts_clean (l : list tok) : Prop := match l with TBody _ :: _ => False | _ => True end.
Lemma wire_starts_clean qs : starts_clean (flat_map wire_req qs).
Proof. destruct qs as [|q r]; exact I. Qed.

Lemma take_body_app : forall n body rest, starts_clean rest ->
  take_body n (map TBody body ++ rest) = (firstn n body, map TBody (skipn n body) ++ rest).
Proof.
  induction n as [|n IH]; intros body rest Hc.
  - cbn [take_body firstn skipn]. destruct (map TBody body ++ rest); reflexivity.
  - destruct body as [|b r].
    + cbn [map app firstn skipn]. destruct rest as [|[q|b] rest']; try reflexivity. destruct Hc.
    + cbn [map app take_body]. rewrite IH by exact Hc. reflexivity.
Qed.
Lemma skip_body_app : forall body rest, starts_clean rest -> skip_body (map TBody body ++ rest) = rest.
Proof.
  induction body as [|b r IH]; intros rest Hc; cbn [map app skip_body]; [|apply IH; exact Hc].
  destruct rest as [|[q|b] rest']; try reflexivity. destruct Hc.
Qed.

Theorem serve_is_spec : forall qs fuel, (length (flat_map wire_req qs) < fuel)%nat ->
  serve fuel (flat_map wire_req qs) = spec_conn qs.
Proof.
  induction qs as [|q r IH]; intros fuel Hf.
  - destruct fuel; reflexivity.
  - destruct fuel as [|fuel]; [lia|]. cbn [flat_map wire_req app serve spec_conn].
    rewrite take_body_app by apply wire_starts_clean.
    rewrite skip_body_app by apply wire_starts_clean.
    assert (Hseen : firstn (match q_read q with Some k => k | None => length (q_body q) end) (q_body q) =
                    match q_read q with Some k => firstn k (q_body q) | None => q_body q end).
    { destruct (q_read q); [reflexivity|apply firstn_all]. }
    rewrite Hseen. destruct (should_close q); [reflexivity|].
    rewrite IH; [reflexivity|]. cbn [flat_map wire_req app length] in Hf. rewrite app_length, map_length in Hf. lia.
Qed.

Theorem serve_conn_spec qs : serve_conn qs = spec_conn qs.
Proof. unfold serve_conn. apply serve_is_spec. lia. Qed.

(* in the specification: the channel is closed only as the very last step, i.e. after the last response's
   final flush; and the connection stays open after a response iff the request did not ask to close it and
   the response is self-delimiting *)
Theorem close_is_last qs : exists evs, spec_conn qs = evs ++ [CClose] /\ ~ In CClose evs.
Proof.
  induction qs as [|q r [evs [E Hn]]]; cbn [spec_conn].
  - exists []. split; [reflexivity|intros []].
  - destruct (should_close q).
    + eexists [_; _]. split; [reflexivity|]. intros [H|[H|[]]]; discriminate.
    + rewrite E. eexists (_ :: _ :: evs). split; [reflexivity|]. intros [H|[H|H]]; try discriminate. exact (Hn H).
Qed.
Theorem keep_alive_iff q r : 
  (should_close q = false <-> (q_close q = false /\ q_mode q <> MNone)) /\
  (should_close q = false -> exists x y, spec_conn (q :: r) = x :: y :: spec_conn r).
Proof.
  split.
  - unfold should_close. destruct (q_close q), (q_mode q); cbn; split; intros H; try discriminate; try (destruct H; congruence); split; congruence.
  - intros H. cbn [spec_conn]. rewrite H. eauto.
Qed.

Definition c15_qs : list request :=
  [ {| q_id := 0; q_close := false; q_body := [104; 101; 108; 108; 111]; q_read := Some 0%nat; q_mode := MChunked;
       q_prog := [AWrite [65; 66]; AFlush; AWrite []; AWrite [67]] |};
    {| q_id := 1; q_close := false; q_body := []; q_read := None; q_mode := MLen; q_prog := [AWriteHeader 404; AWrite [90]] |};
    {| q_id := 2; q_close := true; q_body := [1; 2]; q_read := Some 1%nat; q_mode := MLen; q_prog := [] |};
    {| q_id := 3; q_close := false; q_body := []; q_read := None; q_mode := MLen; q_prog := [] |} ].
Definition c15_example_stmt : Prop :=
  let evs := serve_conn c15_qs in
  flat_map (fun e => match e with CHandler id b => [(id, b)] | _ => [] end) evs = [(0%nat, []); (1%nat, []); (2%nat, [1])] /\
  (match evs with _ :: CResp _ w :: _ => wire_of w | _ => [] end) = [50; 13; 10; 65; 66; 13; 10; 49; 13; 10; 67; 13; 10; 48; 13; 10; 13; 10] /\
  last evs CGarbage = CClose.
Lemma c15_example_holds : c15_example_stmt.
Proof. vm_compute. repeat split; reflexivity. Qed.

From Coq Require Import List Arith Lia Bool.
From GN Require Import Model.Lockset.
Import ListNotations.

Lemma eqp_eq a b : eqp a b = true <-> a = b.
Proof.
  unfold eqp. destruct a as [a1 a2], b as [b1 b2]. cbn [fst snd]. rewrite andb_true_iff, !Nat.eqb_eq.
  split; [intros [-> ->]; reflexivity|intros E; inversion E; auto].
Qed.
Lemma eqp_refl a : eqp a a = true. Proof. apply eqp_eq. reflexivity. Qed.

Definition key (t' t : tid) (l' l : lock) (m' m : bool) : bool := andb (Nat.eqb t' t) (andb (eqp l' l) (Bool.eqb m' m)).
Lemma key_true t' t l' l m' m : key t' t l' l m' m = true <-> t' = t /\ l' = l /\ m' = m.
Proof.
  unfold key. rewrite !andb_true_iff, Nat.eqb_eq, eqp_eq, eqb_true_iff. tauto.
Qed.

Lemma firstn_S_nth {A} (c : list A) k e : nth_error c k = Some e -> firstn (S k) c = firstn k c ++ [e].
Proof.
  revert k; induction c as [|a c IH]; intros [|k] H; simpl in *; try discriminate.
  - inversion H; reflexivity.
  - f_equal. apply IH. exact H.
Qed.

Definition step_holds (e : event) (t : tid) (l : lock) (m : bool) (prev : bool) : bool :=
  match e with
  | (t', Acq l' m') => if key t' t l' l m' m then true else prev
  | (t', Rel l' m') => if key t' t l' l m' m then false else prev
  | _ => prev
  end.

Lemma holds_at_S c k e t l m : nth_error c k = Some e ->
  holds_at c (S k) t l m = step_holds e t l m (holds_at c k t l m).
Proof.
  intros H. unfold holds_at. rewrite (firstn_S_nth c k e H), rev_unit.
  destruct e as [t' [l' m'|l' m'|x w a s]]; reflexivity.
Qed.

Lemma wf_tail e r : wf (e :: r) -> wf r.
Proof. destruct e as [t [l [|]|l m|x w a s]]; cbn [wf]; tauto. Qed.

Lemma wf_firstn c k : wf_c c -> wf (rev (firstn k c)).
Proof.
  unfold wf_c. revert k. induction c as [|e c IH] using rev_ind; intros k Hw.
  - rewrite firstn_nil. exact I.
  - destruct (le_lt_dec (length (c ++ [e])) k) as [Hk|Hk].
    + rewrite firstn_all2 by exact Hk. exact Hw.
    + rewrite app_length in Hk. simpl in Hk. rewrite firstn_app. replace (k - length c) with 0 by lia.
      simpl. rewrite app_nil_r. apply IH. rewrite rev_unit in Hw. eapply wf_tail; eauto.
Qed.

(* at an acquire nobody holds the lock in a conflicting mode *)
Lemma wf_at c k t l m2 t1 m1 : wf_c c -> nth_error c k = Some (t, Acq l m2) -> orb m1 m2 = true ->
  holds_at c k t1 l m1 = false.
Proof.
  intros Hw Hn Hm. pose proof (wf_firstn c (S k) Hw) as H. rewrite (firstn_S_nth c k _ Hn), rev_unit in H.
  unfold holds_at. destruct m2; cbn [wf] in H.
  - destruct H as [H _]. apply H.
  - destruct H as [H _]. destruct m1; [apply H|discriminate].
Qed.

(* exclusivity: two holders in conflicting modes are the same thread *)
Lemma excl tr t t' l m m' : wf tr -> orb m m' = true -> holds tr t l m = true -> holds tr t' l m' = true -> t = t'.
Proof.
  induction tr as [|[t0 a] r IH]; cbn [holds]; intros Hw Hm H1 H2; [discriminate|].
  destruct a as [l0 m0|l0 m0|x w a s]; [| |apply IH; auto].
  - fold (key t0 t l0 l m0 m) in H1. fold (key t0 t' l0 l m0 m') in H2.
    destruct (key t0 t l0 l m0 m) eqn:E1; destruct (key t0 t' l0 l m0 m') eqn:E2.
    + apply key_true in E1, E2. destruct E1 as [-> _], E2 as [-> _]. reflexivity.
    + apply key_true in E1. destruct E1 as [-> [-> ->]].
      destruct m; cbn [wf] in Hw.
      * destruct Hw as [Hf _]. rewrite Hf in H2. discriminate.
      * destruct Hw as [Hf _]. cbn in Hm. subst m'. rewrite Hf in H2. discriminate.
    + apply key_true in E2. destruct E2 as [-> [-> ->]].
      destruct m'; cbn [wf] in Hw.
      * destruct Hw as [Hf _]. rewrite Hf in H1. discriminate.
      * destruct Hw as [Hf _]. rewrite orb_false_r in Hm. subst m. rewrite Hf in H1. discriminate.
    + apply IH; auto. eapply wf_tail; eauto.
  - fold (key t0 t l0 l m0 m) in H1. fold (key t0 t' l0 l m0 m') in H2.
    destruct (key t0 t l0 l m0 m); [discriminate|]. destruct (key t0 t' l0 l m0 m'); [discriminate|].
    apply IH; auto. eapply wf_tail; eauto.
Qed.

Lemma release_between c t l m i k : i <= k -> k <= length c ->
  holds_at c i t l m = true -> holds_at c k t l m = false ->
  exists r, i <= r < k /\ nth_error c r = Some (t, Rel l m).
Proof.
  intros Hik. induction Hik as [|k Hik IH]; intros Hk H1 H2; [congruence|].
  destruct (nth_error c k) as [e|] eqn:Hn; [|apply nth_error_None in Hn; lia].
  rewrite (holds_at_S c k e t l m Hn) in H2.
  destruct (holds_at c k t l m) eqn:Hh.
  - exists k. split; [lia|]. destruct e as [t' [l' m'|l' m'|x w a s]]; cbn [step_holds] in H2; try discriminate.
    + destruct (key t' t l' l m' m); discriminate.
    + destruct (key t' t l' l m' m) eqn:E; [|discriminate].
      apply key_true in E. destruct E as [-> [-> ->]]. exact Hn.
  - destruct (IH ltac:(lia) H1 eq_refl) as [r [Hr Hnr]]. exists r. split; [lia|exact Hnr].
Qed.

(* the key synchronisation lemma *)
Lemma handoff c t1 t2 l m1 m2 i j : wf_c c -> t1 <> t2 -> orb m1 m2 = true -> i < j -> j <= length c ->
  holds_at c i t1 l m1 = true -> holds_at c j t2 l m2 = true ->
  exists r a, i <= r /\ r < a /\ a < j /\ nth_error c r = Some (t1, Rel l m1) /\ nth_error c a = Some (t2, Acq l m2).
Proof.
  intros Hw Hne Hm Hij. induction Hij as [|j Hij IH]; intros Hj H1 H2.
  - destruct (nth_error c i) as [e|] eqn:Hn; [|apply nth_error_None in Hn; lia].
    rewrite (holds_at_S c i e t2 l m2 Hn) in H2.
    destruct e as [t' [l' m'|l' m'|x w a s]]; cbn [step_holds] in H2;
      try (exfalso; apply Hne; eapply excl; [apply (wf_firstn c i Hw)|exact Hm|exact H1|exact H2]).
    + destruct (key t' t2 l' l m' m2) eqn:E.
      * apply key_true in E. destruct E as [-> [-> ->]].
        rewrite (wf_at c i t2 l m2 t1 m1 Hw Hn Hm) in H1. discriminate.
      * exfalso; apply Hne; eapply excl; [apply (wf_firstn c i Hw)|exact Hm|exact H1|exact H2].
    + destruct (key t' t2 l' l m' m2); [discriminate|].
      exfalso; apply Hne; eapply excl; [apply (wf_firstn c i Hw)|exact Hm|exact H1|exact H2].
  - destruct (nth_error c j) as [e|] eqn:Hn; [|apply nth_error_None in Hn; lia].
    rewrite (holds_at_S c j e t2 l m2 Hn) in H2.
    assert (Hcase : (e = (t2, Acq l m2)) \/ holds_at c j t2 l m2 = true).
    { destruct e as [t' [l' m'|l' m'|x w a s]]; cbn [step_holds] in H2; auto.
      - destruct (key t' t2 l' l m' m2) eqn:E; auto.
        apply key_true in E. destruct E as [-> [-> ->]]. auto.
      - destruct (key t' t2 l' l m' m2); [discriminate|auto]. }
    destruct Hcase as [->|Hh].
    + pose proof (wf_at c j t2 l m2 t1 m1 Hw Hn Hm) as Hf.
      destruct (release_between c t1 l m1 i j ltac:(lia) ltac:(lia) H1 Hf) as [r [Hr Hnr]].
      exists r, j. repeat split; auto; lia.
    + destruct (IH ltac:(lia) H1 Hh) as [r [a [? [? [? [? ?]]]]]]. exists r, a. repeat split; auto; lia.
Qed.

(* two accesses made under one lock in conflicting modes are ordered *)
Lemma locked_hb c l m1 m2 i j t1 t2 a b : wf_c c -> t1 <> t2 -> orb m1 m2 = true -> i < j ->
  nth_error c i = Some (t1, a) -> nth_error c j = Some (t2, b) ->
  (forall l' m', a <> Rel l' m') ->
  holds_at c i t1 l m1 = true -> holds_at c j t2 l m2 = true -> hb c i j.
Proof.
  intros Hw Hne Hm Hij Hi Hj Hnr H1 H2.
  assert (Hjl : j <= length c) by (apply Nat.lt_le_incl; apply nth_error_Some; congruence).
  destruct (handoff c t1 t2 l m1 m2 i j Hw Hne Hm Hij Hjl H1 H2) as [r [q [Hir [Hrq [Hqj [Hr Hq]]]]]].
  assert (Hir' : i < r).
  { destruct (Nat.eq_dec i r) as [->|]; [|lia]. rewrite Hi in Hr. inversion Hr; subst. exfalso. eapply Hnr; eauto. }
  eapply hb_trans; [eapply hb_po; [exact Hir'|exact Hi|exact Hr]|].
  eapply hb_trans; [eapply hb_sw; [exact Hrq|exact Hm|exact Hr|exact Hq]|].
  eapply hb_po; [exact Hqj|exact Hq|exact Hj].
Qed.

(* ---------------- the discipline on traces ---------------- *)
(* every access is an instance of an extracted site, made after construction, with the
   site's locks (and the token of its function) actually held on the accessed object *)
Definition lock_held (c : trace) (i : nat) (t : tid) (o : nat) (lm : nat * bool) : Prop :=
  holds_at c i t (o, fst lm) true = true \/ (snd lm = false /\ holds_at c i t (o, fst lm) false = true).
Definition follows (pol : policy) (sites : list site) (c : trace) : Prop :=
  forall i t x w a sid, nth_error c i = Some (t, Acc x w a sid) ->
    exists s, nth_error sites sid = Some s /\ s_field s = snd x /\ s_write s = w /\ s_atomic s = a /\ s_ctor s = false /\
              forall lm, In lm (held pol s) -> lock_held c i t (fst x) lm.
(* owner discipline (POwnerRead): a goroutine reads without the lock only what it wrote last,
   and nobody else writes afterwards *)
Definition owner_discipline (pol : policy) (sites : list site) (c : trace) : Prop :=
  forall j t x a sid s, nth_error c j = Some (t, Acc x false a sid) -> nth_error sites sid = Some s -> owner_read pol s = true ->
    (forall i t' a' s', i < j -> nth_error c i = Some (t', Acc x true a' s') -> t' <> t ->
        exists k a'' s'', i < k /\ k < j /\ nth_error c k = Some (t, Acc x true a'' s'')) /\
    (forall k t' a' s', j < k -> nth_error c k = Some (t', Acc x true a' s') -> t' = t).

Lemma has_lock_in ls lk ex : has_lock ls lk ex = true -> exists m, In (lk, m) ls /\ (ex = true -> m = true).
Proof.
  unfold has_lock. rewrite existsb_exists. intros [[lk' m] [Hin H]]. cbn [fst snd] in H.
  apply andb_true_iff in H. destruct H as [E H]. apply Nat.eqb_eq in E. subst lk'.
  exists m. split; [exact Hin|]. intros ->. destruct m; [reflexivity|discriminate].
Qed.
Lemma lock_held_mode c i t o lk m : lock_held c i t o (lk, m) -> exists m', holds_at c i t (o, lk) m' = true /\ (m = true -> m' = true).
Proof. intros [H|[E H]]; cbn [fst snd] in *; [exists true|exists false]; split; auto. intros ->. discriminate. Qed.

Theorem lockset_sound pol sites c x : wf_c c -> follows pol sites c -> owner_discipline pol sites c ->
  forallb (site_ok pol) sites = true ->
  p_prot pol (snd x) <> POut -> ~ race_on c x.
Proof.
  intros Hw Hf Ho Hall Hout [i [j [t1 [t2 [w1 [a1 [s1 [w2 [a2 [s2 [Hij [Hne [Hi [Hj [Hwr [Hat Hnhb]]]]]]]]]]]]]]]].
  apply Hnhb. rewrite forallb_forall in Hall.
  destruct (Hf i t1 x w1 a1 s1 Hi) as [si [Hsi [Fi [Wi [Ai [Ci Li]]]]]].
  destruct (Hf j t2 x w2 a2 s2 Hj) as [sj [Hsj [Fj [Wj [Aj [Cj Lj]]]]]].
  pose proof (Hall si (nth_error_In _ _ Hsi)) as Oi. pose proof (Hall sj (nth_error_In _ _ Hsj)) as Oj.
  unfold site_ok in Oi, Oj. rewrite Ci in Oi. rewrite Cj in Oj. rewrite Fi in Oi. rewrite Fj in Oj.
  rewrite Wi, Ai in Oi. rewrite Wj, Aj in Oj.
  assert (Hnrel : forall l' m', Acc x w1 a1 s1 <> Rel l' m') by (intros; discriminate).
  (* both accesses hold lock lk, the writer exclusively *)
  assert (Hboth : forall lk, has_lock (held pol si) lk w1 = true -> has_lock (held pol sj) lk w2 = true -> hb c i j).
  { intros lk Hl1 Hl2. destruct (has_lock_in _ _ _ Hl1) as [m1 [In1 M1]]. destruct (has_lock_in _ _ _ Hl2) as [m2 [In2 M2]].
    destruct (lock_held_mode _ _ _ _ _ _ (Li _ In1)) as [m1' [H1 M1']].
    destruct (lock_held_mode _ _ _ _ _ _ (Lj _ In2)) as [m2' [H2 M2']].
    eapply (locked_hb c (fst x, lk) m1' m2'); eauto.
    destruct w1; [rewrite (M1' (M1 eq_refl)); reflexivity|]. cbn in Hwr. subst w2. rewrite (M2' (M2 eq_refl)). apply orb_true_r. }
  destruct (p_prot pol (snd x)) as [| | |lk|lk|k| |] eqn:Ep; try congruence.
  - (* PInit: no writes after construction *)
    apply andb_true_iff in Oi, Oj. destruct Oi as [Oi _], Oj as [Oj _]. destruct w1, w2; discriminate.
  - (* PAtomic *) rewrite Oi, Oj in Hat. discriminate.
  - (* PSync *) rewrite Oi, Oj in Hat. discriminate.
  - (* PMutex *)
    apply andb_true_iff in Oi, Oj. destruct Oi as [_ Oi], Oj as [_ Oj]. eapply Hboth; eauto.
  - (* POwnerRead *)
    apply andb_true_iff in Oi, Oj. destruct Oi as [_ Oi], Oj as [_ Oj].
    destruct w1, w2.
    + eapply Hboth; eauto.
    + (* write then read *)
      destruct (has_lock (held pol sj) lk false) eqn:Elj; [eapply Hboth; eauto|].
      assert (Hor : owner_read pol sj = true) by (unfold owner_read; rewrite Fj, Ep, Wj, Elj; reflexivity).
      destruct (Ho j t2 x a2 s2 sj Hj Hsj Hor) as [Hprev _].
      destruct (Hprev i t1 a1 s1 Hij Hi Hne) as [k [a'' [s'' [Hik [Hkj Hk]]]]].
      (* the owner's own later write is locked too *)
      destruct (Hf k t2 x true a'' s'' Hk) as [sk [Hsk [Fk [Wk [Ak [Ck Lk]]]]]].
      pose proof (Hall sk (nth_error_In _ _ Hsk)) as Ok. unfold site_ok in Ok. rewrite Ck, Fk, Ep, Wk in Ok.
      apply andb_true_iff in Ok. destruct Ok as [_ Ok].
      destruct (has_lock_in _ _ _ Oi) as [m1 [In1 M1]]. destruct (has_lock_in _ _ _ Ok) as [m2 [In2 M2]].
      destruct (lock_held_mode _ _ _ _ _ _ (Li _ In1)) as [m1' [H1 M1']].
      destruct (lock_held_mode _ _ _ _ _ _ (Lk _ In2)) as [m2' [H2 M2']].
      eapply hb_trans; [|eapply hb_po; [exact Hkj|exact Hk|exact Hj]].
      eapply (locked_hb c (fst x, lk) m1' m2'); eauto. rewrite (M1' (M1 eq_refl)). reflexivity.
    + (* read then write *)
      destruct (has_lock (held pol si) lk false) eqn:Eli; [eapply Hboth; eauto|].
      assert (Hor : owner_read pol si = true) by (unfold owner_read; rewrite Fi, Ep, Wi, Eli; reflexivity).
      destruct (Ho i t1 x a1 s1 si Hi Hsi Hor) as [_ Hnext].
      exfalso. apply Hne. symmetry. eapply Hnext; eauto.
    + discriminate.
  - (* PToken *)
    apply andb_true_iff in Oi, Oj. destruct Oi as [_ Oi], Oj as [_ Oj].
    destruct (has_lock_in _ _ _ Oi) as [m1 [In1 M1]]. destruct (has_lock_in _ _ _ Oj) as [m2 [In2 M2]].
    destruct (lock_held_mode _ _ _ _ _ _ (Li _ In1)) as [m1' [H1 M1']].
    destruct (lock_held_mode _ _ _ _ _ _ (Lj _ In2)) as [m2' [H2 M2']].
    eapply (locked_hb c (fst x, k) m1' m2'); eauto. rewrite (M1' (M1 eq_refl)). reflexivity.
Qed.
Print Assumptions lockset_sound.


(* C17: the transport wrappers preserve the byte stream for every buffering configuration. *)
From Coq Require Import ZArith List Bool Lia.
From GN Require Import Base.Reader Model.Bufio Proof.Reader_proofs.
Import ListNotations.
Open Scope Z_scope.

(* ---------------- write side ---------------- *)
Definition WI (wsize : Z) (s : wstate) (written : bytes) : Prop :=
  conn_log s ++ wbuf s = written /\ (0 < wsize -> blen (wbuf s) <= wsize) /\ (wsize <= 0 -> wbuf s = []).

Lemma bw_write_inv size s p : 0 < size -> blen (wbuf s) <= size ->
  conn_log (bw_write size s p) ++ wbuf (bw_write size s p) = conn_log s ++ wbuf s ++ p /\
  blen (wbuf (bw_write size s p)) <= size.
Proof.
  intros Hs Hb. unfold bw_write. pose proof (blen_nonneg p). pose proof (blen_nonneg (wbuf s)).
  destruct (Z.leb_spec (blen p) (size - blen (wbuf s))) as [Hfit|Hbig]; cbn [conn_log wbuf].
  - rewrite blen_app. split; [reflexivity|lia].
  - destruct (wbuf s) as [|x b] eqn:Eb; cbn [conn_log wbuf].
    + rewrite app_nil_r. split; [reflexivity|]. rewrite blen_nil. lia.
    + set (k := size - blen (x :: b)) in *.
      assert (Hk : 0 <= k <= blen p) by (unfold k; lia).
      destruct (Z.leb_spec (blen (bdrop k p)) size) as [Hle|Hgt]; cbn [conn_log wbuf].
      * rewrite <- !app_assoc. rewrite btake_bdrop. split; [reflexivity|exact Hle].
      * rewrite app_nil_r, <- !app_assoc. rewrite btake_bdrop. split; [reflexivity|]. rewrite blen_nil. lia.
Qed.

Lemma t_write_inv wsize s w p : WI wsize s w -> WI wsize (t_write wsize s p) (w ++ p).
Proof.
  intros [Hc [Hb Hn]]. unfold t_write. destruct (Z.ltb_spec 0 wsize) as [Hpos|Hnp].
  - destruct (bw_write_inv wsize s p Hpos (Hb Hpos)) as [E L].
    split; [rewrite E, <- Hc, <- app_assoc; reflexivity|]. split; [intros _; exact L|lia].
  - unfold WI. cbn [conn_log wbuf]. rewrite (Hn Hnp) in *. rewrite app_nil_r in *. subst w.
    split; [reflexivity|]. split; [lia|reflexivity].
Qed.

Lemma t_writev_inv wsize ps : forall s w, WI wsize s w -> WI wsize (t_writev wsize s ps) (w ++ concat ps).
Proof.
  induction ps as [|p ps IH]; intros s w Hi; cbn [t_writev fold_left concat].
  - rewrite app_nil_r. exact Hi.
  - rewrite app_assoc. apply IH. apply t_write_inv. exact Hi.
Qed.

Lemma t_flush_inv wsize s w : WI wsize s w -> WI wsize (t_flush wsize s) w /\ wbuf (t_flush wsize s) = [] /\ conn_log (t_flush wsize s) = w.
Proof.
  intros [Hc [Hb Hn]]. unfold t_flush, WI. destruct (Z.ltb_spec 0 wsize) as [Hpos|Hnp].
  - cbn [bw_flush conn_log wbuf]. rewrite app_nil_r, Hc. rewrite blen_nil.
    split; [split; [reflexivity|split; [lia|reflexivity]]|]. split; reflexivity.
  - pose proof (Hn Hnp) as E. rewrite E, app_nil_r in Hc.
    split; [split; [rewrite E, app_nil_r; exact Hc|split; [lia|intros _; exact E]]|]. split; [exact E|exact Hc].
Qed.

Lemma wstep_inv wsize s w o : WI wsize s w -> WI wsize (wstep wsize s o) (w ++ wpayload o).
Proof.
  intros Hi. destruct o as [p|ps|]; cbn [wstep wpayload].
  - apply t_write_inv. exact Hi.
  - apply t_writev_inv. exact Hi.
  - rewrite app_nil_r. apply t_flush_inv. exact Hi.
Qed.

Lemma wfold_inv wsize ops : forall s w, WI wsize s w ->
  WI wsize (fold_left (wstep wsize) ops s) (w ++ concat (map wpayload ops)).
Proof.
  induction ops as [|o ops IH]; intros s w Hi; cbn [fold_left map concat].
  - rewrite app_nil_r. exact Hi.
  - rewrite app_assoc. apply IH. apply wstep_inv. exact Hi.
Qed.

(* at every moment: what reached the connection, followed by what is still
   buffered, is exactly everything written so far in call order - buffered and
   vectored writes are never reordered *)
Theorem write_order wsize ops : WI wsize (wrun wsize ops) (concat (map wpayload ops)).
Proof.
  unfold wrun. apply (wfold_inv wsize ops {| conn_log := []; wbuf := [] |} []).
  split; [reflexivity|]. split; [intros Hp; unfold blen; cbn; lia|reflexivity].
Qed.

(* once Flush has returned the peer has exactly the written bytes *)
Theorem flush_complete wsize ops :
  conn_log (wrun wsize (ops ++ [WFlush])) = concat (map wpayload ops) /\ wbuf (wrun wsize (ops ++ [WFlush])) = [].
Proof.
  unfold wrun. rewrite fold_left_app. cbn [fold_left wstep].
  pose proof (write_order wsize ops) as Hi. unfold wrun in Hi.
  destruct (t_flush_inv _ _ _ Hi) as [_ [Hb Hc]]. auto.
Qed.

(* unbuffered variants never hold anything back *)
Theorem unbuffered_immediate wsize ops : wsize <= 0 -> conn_log (wrun wsize ops) = concat (map wpayload ops).
Proof.
  intros Hn. destruct (write_order wsize ops) as [Hc [_ Hb]]. rewrite (Hb Hn), app_nil_r in Hc. exact Hc.
Qed.

(* ---------------- read side ---------------- *)
Definition RI (rsize : Z) (s : rstate) (rest : bytes) : Prop :=
  rbuf s ++ contents (peer s) = rest /\ (perr s <> None -> contents (peer s) = []) /\ perr s <> Some ROk /\
  perr s <> Some RUEOF /\ (rsize <= 0 -> rbuf s = [] /\ perr s = None).
Definition rmeasure (s : rstate) : nat := 2 * mu (peer s) + length (rbuf s) + match perr s with Some _ => 1 | None => 0 end.

Lemma read_chunks_le n r bs st r' : read n r = (bs, st, r') -> (length (chunks r') <= length (chunks r))%nat.
Proof.
  unfold read. destruct r as [cs f]; cbn [chunks final].
  destruct cs as [|c cs]; [destruct f|]; try (destruct (fits _ _)); intros H; inversion H; subst; cbn; lia.
Qed.

Lemma read_mu_bytes n r bs st r' : 1 <= n -> read n r = (bs, st, r') -> (mu r' + length bs <= mu r)%nat.
Proof.
  intros Hn R. destruct (read_spec n _ _ _ _ Hn R) as [Hc _]. pose proof (read_chunks_le _ _ _ _ _ R).
  unfold mu. rewrite Hc, app_length. lia.
Qed.

Lemma bdrop_shorter k (b : bytes) : 1 <= k -> b <> [] -> (length (bdrop k b) < length b)%nat.
Proof. intros Hk Hb. unfold bdrop. rewrite skipn_length. destruct b; [congruence|cbn [length]; lia]. Qed.

Lemma t_read_spec rsize s k rest bs st s' : 1 <= k -> RI rsize s rest -> t_read rsize s k = (bs, st, s') ->
  exists rest', rest = bs ++ rest' /\ st <> RUEOF /\
    (st = ROk -> RI rsize s' rest' /\ (rmeasure s' < rmeasure s)%nat) /\ (st <> ROk -> rest' = []).
Proof.
  intros Hk [Hc [He [Hne [Hnu Hub]]]]. subst rest. unfold t_read. destruct (Z.ltb_spec 0 rsize) as [Hb|Hu].
  - assert (Hnb : ~ rsize <= 0) by lia.
    destruct (rbuf s) as [|x b] eqn:Eb.
    + cbn [app]. destruct (perr s) as [e|] eqn:Ee.
      * (* the stored error is reported, nothing is left *)
        intros HH; inversion HH; subst. exists []. rewrite (He ltac:(discriminate)).
        split; [reflexivity|]. split; [congruence|]. split; [intros ->; congruence|reflexivity].
      * assert (Hrd : 1 <= rd_size rsize) by (unfold rd_size; lia).
        destruct (Z.leb_spec (rd_size rsize) k) as [Hbig|Hsmall].
        -- (* large read, straight into the caller's buffer *)
           destruct (read k (peer s)) as [[b1 st1] r1] eqn:R.
           destruct (read_spec k _ _ _ _ Hk R) as [Hc1 [_ [Hnu1 [Hmu [Hnok _]]]]].
           intros HH. assert (Hres : bs = b1 /\ st = st1 /\ s' = {| rbuf := []; peer := r1; perr := None |})
             by (destruct st1; inversion HH; auto).
           destruct Hres as [-> [-> ->]]. exists (contents r1). rewrite Hc1.
           split; [reflexivity|]. split; [exact Hnu1|]. split; [|exact Hnok].
           intros ->. split.
           ++ unfold RI. cbn [rbuf peer perr]. repeat split; try congruence; try lia.
           ++ unfold rmeasure. cbn [peer rbuf perr length]. rewrite Eb, Ee. specialize (Hmu eq_refl). cbn [length]. lia.
        -- (* one fill of the internal buffer *)
           destruct (read (rd_size rsize) (peer s)) as [[b1 st1] r1] eqn:R.
           destruct (read_spec _ _ _ _ _ Hrd R) as [Hc1 [_ [Hnu1 [Hmu [Hnok _]]]]].
           pose proof (read_mu_bytes _ _ _ _ _ Hrd R) as Hmb.
           destruct b1 as [|y b1].
           ++ intros HH; inversion HH; subst. exists (contents r1). rewrite Hc1. cbn [app].
              split; [reflexivity|]. split; [exact Hnu1|]. split; [|exact Hnok].
              intros ->. split.
              ** unfold RI. cbn [rbuf peer perr]. repeat split; try congruence; try lia.
              ** unfold rmeasure. cbn [peer rbuf perr length]. rewrite Eb, Ee. specialize (Hmu eq_refl). cbn [length]. lia.
           ++ intros HH; inversion HH; subst. exists (bdrop k (y :: b1) ++ contents r1).
              rewrite Hc1, app_assoc, btake_bdrop.
              split; [reflexivity|]. split; [discriminate|]. split; [|congruence].
              intros _. pose proof (bdrop_shorter k (y :: b1) Hk ltac:(discriminate)) as Hd. split.
              ** unfold RI. cbn [rbuf peer perr]. split; [reflexivity|]. split; [|split; [|split]].
                 --- destruct st1; try congruence; intros _; apply Hnok; congruence.
                 --- destruct st1; congruence.
                 --- destruct st1; congruence.
                 --- lia.
              ** unfold rmeasure. cbn [peer rbuf perr]. rewrite Eb, Ee. cbn [length] in *.
                 destruct st1; lia.
    + (* served from the internal buffer *)
      intros HH; inversion HH; subst. exists (bdrop k (x :: b) ++ contents (peer s)).
      rewrite app_assoc, btake_bdrop. split; [reflexivity|]. split; [discriminate|]. split; [|congruence].
      intros _. pose proof (bdrop_shorter k (x :: b) Hk ltac:(discriminate)) as Hd. split.
      * unfold RI. cbn [rbuf peer perr]. repeat split; auto; lia.
      * unfold rmeasure. cbn [peer rbuf perr]. rewrite Eb. lia.
  - (* unbuffered: every Read goes to the connection *)
    destruct (Hub Hu) as [Erb Eperr]. rewrite Erb. cbn [app].
    destruct (read k (peer s)) as [[b1 st1] r1] eqn:R.
    destruct (read_spec k _ _ _ _ Hk R) as [Hc1 [_ [Hnu1 [Hmu [Hnok _]]]]].
    intros HH; inversion HH; subst. exists (contents r1). rewrite Hc1.
    split; [reflexivity|]. split; [exact Hnu1|]. split; [|exact Hnok].
    intros ->. split.
    + unfold RI. cbn [rbuf peer perr]. repeat split; try congruence.
    + unfold rmeasure. cbn [peer rbuf perr length]. rewrite Erb, Eperr. specialize (Hmu eq_refl). cbn [length]. lia.
Qed.

Lemma read_to_end_spec rsize fuel : forall s ks acc rest, RI rsize s rest -> (rmeasure s < fuel)%nat ->
  Forall (fun k => 1 <= k) ks ->
  exists st, read_to_end fuel rsize s ks acc = (acc ++ rest, st) /\ st <> ROk.
Proof.
  induction fuel as [|fuel IH]; intros s ks acc rest Hi Hf Hks; [lia|]. cbn [read_to_end].
  set (k := match ks with k :: _ => k | [] => 512 end).
  assert (Hk : 1 <= k) by (unfold k; destruct ks; [lia|inversion Hks; assumption]).
  destruct (t_read rsize s k) as [[bs st] s'] eqn:T.
  destruct (t_read_spec _ _ _ _ _ _ _ Hk Hi T) as [rest' [-> [Hnu [Hok Herr]]]].
  destruct st.
  - destruct (Hok eq_refl) as [Hi' Hm]. destruct (IH s' (tl ks) (acc ++ bs) rest' Hi') as [st [E Hst]]; [lia| |].
    + destruct ks; [constructor|inversion Hks; assumption].
    + exists st. rewrite E, app_assoc. auto.
  - exists REOF. rewrite (Herr ltac:(discriminate)), app_nil_r. split; [reflexivity|discriminate].
  - congruence.
  - exists RErr. rewrite (Herr ltac:(discriminate)), app_nil_r. split; [reflexivity|discriminate].
Qed.

(* reading the stream to its end through any wrapper variant, with any caller
   buffer sizes, returns exactly the peer's bytes in order - whatever the
   fragmentation of the peer's writes *)
Theorem read_exact rsize r ks : Forall (fun k => 1 <= k) ks ->
  exists st, read_stream rsize r ks = (contents r, st) /\ st <> ROk.
Proof.
  intros Hks. unfold read_stream.
  destruct (read_to_end_spec rsize (S (S (2 * mu r))) {| rbuf := []; peer := r; perr := None |} ks [] (contents r)) as [st [E H]]; auto.
  - unfold RI. cbn [rbuf peer perr]. repeat split; try congruence.
  - unfold rmeasure. cbn [rbuf peer perr length]. lia.
  - exists st. auto.
Qed.

(* C03, layer 1: the linked pipeline refines the handler-list specification. *)
From Coq Require Import ZArith List Arith Lia Bool.
Import ListNotations.
From GN Require Import Model.Pipeline.

Section PP.
Variable H : Type.
Notation node := (node H).

Definition has (l : list node) (i : nat) (p q : option nat) : Prop :=
  exists n, nth_error l i = Some n /\ prev H n = p /\ next H n = q.

(* segment: ids linked consecutively, first has prev p, last has next q *)
Fixpoint seg (l : list node) (p : option nat) (ids : list nat) (q : option nat) : Prop :=
  match ids with
  | [] => False
  | [i] => has l i p q
  | i :: ((j :: _) as r) => has l i p (Some j) /\ seg l (Some i) r q
  end.

Lemma seg_cons l p i r q : r <> [] ->
  seg l p (i :: r) q <-> has l i p (hd_error r) /\ seg l (Some i) r q.
Proof. destruct r as [|j r]; [congruence|]. intros _. simpl. tauto. Qed.

Lemma seg_app l p xs y ys q : xs <> [] ->
  seg l p (xs ++ y :: ys) q <-> seg l p xs (Some y) /\ seg l (Some (last xs 0)) (y :: ys) q.
Proof.
  revert p. induction xs as [|x xs IH]; intros p Hne; [congruence|].
  destruct xs as [|x' xs].
  - simpl. tauto.
  - change ((x :: x' :: xs) ++ y :: ys) with (x :: (x' :: xs) ++ y :: ys).
    rewrite seg_cons by (simpl; congruence).
    rewrite (IH (Some x)) by congruence.
    change (last (x :: x' :: xs) 0) with (last (x' :: xs) 0).
    simpl hd_error. simpl seg at 3. tauto.
Qed.

(* frame: a segment only reads the nodes it mentions *)
Lemma seg_frame l l' p ids q :
  (forall i, In i ids -> nth_error l' i = nth_error l i) -> seg l p ids q -> seg l' p ids q.
Proof.
  revert p. induction ids as [|i r IH]; intros p Hf Hs; [exact Hs|].
  destruct r as [|j r].
  - destruct Hs as [n [Hn Hpq]]. exists n. rewrite Hf by (left; reflexivity). auto.
  - destruct Hs as [[n [Hn Hpq]] Hr]. split.
    + exists n. rewrite Hf by (left; reflexivity). auto.
    + apply IH; auto. intros k Hk. apply Hf. right. exact Hk.
Qed.

Lemma nth_upd_same {A} (l : list A) i x : i < length l -> nth_error (upd l i x) i = Some x.
Proof. revert i; induction l as [|a l IH]; intros [|i] Hi; simpl in *; try lia; auto. apply IH. lia. Qed.
Lemma nth_upd_other {A} (l : list A) i j x : i <> j -> nth_error (upd l i x) j = nth_error l j.
Proof. revert i j; induction l as [|a l IH]; intros [|i] [|j] Hne; simpl; auto; try lia. Qed.
Lemma upd_length {A} (l : list A) i x : length (upd l i x) = length l.
Proof. revert i; induction l as [|a l IH]; intros [|i]; simpl; auto. Qed.

Lemma set_next_other l a v j : j <> a -> nth_error (set_next H l a v) j = nth_error l j.
Proof. intros Hne. unfold set_next. destruct (nth_error l a); [apply nth_upd_other; auto|reflexivity]. Qed.
Lemma set_prev_other l a v j : j <> a -> nth_error (set_prev H l a v) j = nth_error l j.
Proof. intros Hne. unfold set_prev. destruct (nth_error l a); [apply nth_upd_other; auto|reflexivity]. Qed.
Lemma set_next_same l a v p q : has l a p q -> has (set_next H l a v) a p v.
Proof.
  intros [n [Hn [Hp Hq]]]. unfold set_next. rewrite Hn.
  eexists. split; [apply nth_upd_same; apply nth_error_Some; congruence|]. simpl. auto.
Qed.
Lemma set_prev_same l a v p q : has l a p q -> has (set_prev H l a v) a v q.
Proof.
  intros [n [Hn [Hp Hq]]]. unfold set_prev. rewrite Hn.
  eexists. split; [apply nth_upd_same; apply nth_error_Some; congruence|]. simpl. auto.
Qed.
Lemma set_next_length l a v : length (set_next H l a v) = length l.
Proof. unfold set_next. destruct (nth_error l a); [apply upd_length|reflexivity]. Qed.
Lemma set_prev_length l a v : length (set_prev H l a v) = length l.
Proof. unfold set_prev. destruct (nth_error l a); [apply upd_length|reflexivity]. Qed.

(* change the outgoing link of the last element of a segment *)
Lemma seg_set_last_next l p xs a q v : ~ In a xs ->
  seg l p (xs ++ [a]) q -> seg (set_next H l a v) p (xs ++ [a]) v.
Proof.
  revert p. induction xs as [|x xs IH]; intros p Hni Hs.
  - simpl in *. eapply set_next_same; eauto.
  - change ((x :: xs) ++ [a]) with (x :: xs ++ [a]) in *.
    assert (Hne : xs ++ [a] <> []) by (destruct xs; simpl; congruence).
    rewrite seg_cons in * by exact Hne. destruct Hs as [Hx Hr]. split.
    + destruct Hx as [n [Hn Hpq]]. exists n. rewrite set_next_other; [auto|]. intros ->. apply Hni. left. reflexivity.
    + apply IH; auto. intros Hin. apply Hni. right. exact Hin.
Qed.

(* change the incoming link of the first element of a segment *)
Lemma seg_set_first_prev l p b ys q v : ~ In b ys ->
  seg l p (b :: ys) q -> seg (set_prev H l b v) v (b :: ys) q.
Proof.
  intros Hni Hs. destruct ys as [|y ys].
  - simpl in *. eapply set_prev_same; eauto.
  - destruct Hs as [Hb Hr]. split; [eapply set_prev_same; eauto|].
    eapply seg_frame; [|exact Hr]. intros k Hk. apply set_prev_other. intros ->. apply Hni. exact Hk.
Qed.


End PP.

Section PI.
Variable H : Type.

Lemma NoDup_app_r {A} (l1 l2 : list A) : NoDup (l1 ++ l2) -> NoDup l2.
Proof. induction l1 as [|x l1 IH]; simpl; intros Hn; [exact Hn|]. inversion Hn; subst. auto. Qed.

Theorem insert_after_seg (p : pipe H) xs a b ys h :
  let ids := xs ++ a :: b :: ys in
  NoDup ids -> (forall i, In i ids -> i < length (arena H p)) ->
  seg H (arena H p) None ids None ->
  exists p', insert_after H p a h = Some p' /\
    seg H (arena H p') None (xs ++ a :: length (arena H p) :: b :: ys) None /\
    length (arena H p') = S (length (arena H p)) /\ size H p' = S (size H p).
Proof.
  intros ids Hnd Hlt Hs. set (n := length (arena H p)) in *.
  (* split the chain around a|b *)
  assert (Hsplit : seg H (arena H p) None (xs ++ [a]) (Some b) /\ seg H (arena H p) (Some a) (b :: ys) None).
  { unfold ids in Hs. replace (xs ++ a :: b :: ys) with ((xs ++ [a]) ++ b :: ys) in Hs by (rewrite <- app_assoc; reflexivity).
    apply seg_app in Hs; [|destruct xs; simpl; congruence]. rewrite last_last in Hs. exact Hs. }
  destruct Hsplit as [Hl Hr].
  (* facts from NoDup *)
  unfold ids in Hnd.
  assert (Ha_xs : ~ In a xs). { apply NoDup_remove_2 in Hnd. intros Hin. apply Hnd. apply in_or_app. left. exact Hin. }
  assert (Hnd2 : NoDup (a :: b :: ys)) by (apply NoDup_app_r in Hnd; exact Hnd).
  assert (Hab : a <> b) by (inversion Hnd2 as [|? ? Hna0 ?]; subst; intros Heq; apply Hna0; left; symmetry; exact Heq).
  assert (Hb_ys : ~ In b ys) by (inversion Hnd2 as [|? ? ? Hnd3]; inversion Hnd3; auto).
  assert (Ha_ys : ~ In a ys) by (inversion Hnd2 as [|? ? Hna ?]; intros Hin; apply Hna; right; exact Hin).
  assert (Hb_xs : ~ In b xs).
  { intros Hin. apply in_split in Hin. destruct Hin as [u [v ->]]. rewrite <- app_assoc in Hnd. simpl in Hnd.
    apply NoDup_remove_2 in Hnd. apply Hnd. apply in_or_app. right. apply in_or_app. right. right. left. reflexivity. }
  assert (Hn_fresh : forall i, In i (xs ++ a :: b :: ys) -> i <> n) by (intros i Hi; specialize (Hlt i Hi); lia).
  (* node a exists with next = b *)
  assert (Hhas_a : exists pa, has H (arena H p) a pa (Some b)).
  { clear -Hl. revert Hl. generalize (@None nat). induction xs as [|x xs IH]; intros p0 Hl.
    - simpl in Hl. eauto.
    - change ((x :: xs) ++ [a]) with (x :: xs ++ [a]) in Hl. rewrite seg_cons in Hl by (destruct xs; simpl; congruence).
      destruct Hl as [_ Hl]. eapply IH; eauto. }
  destruct Hhas_a as [pa [na [Hna [Hpa Hnexta]]]].
  unfold insert_after. rewrite Hna, Hnexta. eexists. split; [reflexivity|]. simpl.
  split; [|split; [rewrite set_prev_length, app_length, set_next_length; simpl; lia|reflexivity]].
  fold n.
  set (l1 := set_next H (arena H p) a (Some n)).
  set (l2 := l1 ++ [{| hd := Some h; prev := Some a; next := Some b |}]).
  set (l3 := set_prev H l2 b (Some n)).
  (* assemble: (xs ++ [a]) ++ n :: (b :: ys) *)
  replace (xs ++ a :: n :: b :: ys) with ((xs ++ [a]) ++ n :: b :: ys) by (rewrite <- app_assoc; reflexivity).
  apply seg_app; [destruct xs; simpl; congruence|]. rewrite last_last. split.
  - (* left part: only a's next changed; b not in it *)
    apply seg_frame with (l := l2).
    { intros i Hi. apply set_prev_other. intros ->. apply in_app_or in Hi. destruct Hi as [Hi|[Hi|[]]]; [apply Hb_xs; exact Hi|congruence]. }
    apply seg_frame with (l := l1).
    { intros i Hi. unfold l2. apply nth_error_app1. unfold l1. rewrite set_next_length.
      apply Hlt. apply in_app_or in Hi. apply in_or_app. destruct Hi as [Hi|[<-|[]]]; [left; exact Hi|right; left; reflexivity]. }
    eapply seg_set_last_next; eauto.
  - (* n :: b :: ys *)
    change (n :: b :: ys) with ([n] ++ b :: ys). apply seg_app; [congruence|]. simpl last. split.
    + (* the new node *)
      simpl. unfold l3. exists {| hd := Some h; prev := Some a; next := Some b |}.
      split; [|simpl; auto]. rewrite set_prev_other by (apply not_eq_sym; apply Hn_fresh; apply in_or_app; right; right; left; reflexivity).
      unfold l2. rewrite nth_error_app2 by (unfold l1; rewrite set_next_length; fold n; lia).
      unfold l1. rewrite set_next_length. fold n. rewrite Nat.sub_diag. reflexivity.
    + (* right part: b's prev changed *)
      unfold l3. apply seg_set_first_prev with (p := Some a); [exact Hb_ys|].
      apply seg_frame with (l := l1).
      { intros i Hi. unfold l2. apply nth_error_app1. unfold l1. rewrite set_next_length.
        apply Hlt. apply in_or_app. right. right. exact Hi. }
      apply seg_frame with (l := arena H p); [|exact Hr].
      intros i Hi. apply set_next_other. intros ->. destruct Hi as [Hi|Hi]; [congruence|apply Ha_ys; exact Hi].
Qed.
End PI.

(* ================= refinement to the handler-list specification ================= *)
Section PR.
Variable H : Type.
Notation ids_of mids := (0 :: mids ++ [1]).

Record Rep (p : pipe H) (mids : list nat) (hs : list H) : Prop := {
  rep_seg : seg H (arena H p) None (ids_of mids) None;
  rep_nd : NoDup (ids_of mids);
  rep_lt : forall i, In i (ids_of mids) -> i < length (arena H p);
  rep_size : size H p = length mids + 2;
  rep_hs : map (handler_at H p) mids = map Some hs;
  rep_head : handler_at H p 0 = None;
  rep_tail : handler_at H p 1 = None }.

Lemma rep_new : Rep (new_pipe H) [] [].
Proof.
  constructor; cbn; auto.
  - split; [eexists; split; [reflexivity|cbn; auto]|eexists; split; [reflexivity|cbn; auto]].
  - repeat constructor; cbn; intuition lia.
  - intros i [<-|[<-|[]]]; lia.
Qed.

Definition hd_at (l : list (node H)) (i : nat) : option H :=
  match nth_error l i with Some n => hd H n | None => None end.

Lemma hd_set_next l a v i : hd_at (set_next H l a v) i = hd_at l i.
Proof.
  unfold hd_at, set_next. destruct (nth_error l a) as [na|] eqn:Ea; [|reflexivity].
  destruct (Nat.eq_dec i a) as [->|Hne].
  - rewrite nth_upd_same by (apply nth_error_Some; congruence). rewrite Ea. reflexivity.
  - rewrite nth_upd_other by auto. reflexivity.
Qed.
Lemma hd_set_prev l a v i : hd_at (set_prev H l a v) i = hd_at l i.
Proof.
  unfold hd_at, set_prev. destruct (nth_error l a) as [na|] eqn:Ea; [|reflexivity].
  destruct (Nat.eq_dec i a) as [->|Hne].
  - rewrite nth_upd_same by (apply nth_error_Some; congruence). rewrite Ea. reflexivity.
  - rewrite nth_upd_other by auto. reflexivity.
Qed.

Lemma insert_after_hd p a h p' : insert_after H p a h = Some p' ->
  (forall i, i < length (arena H p) -> handler_at H p' i = handler_at H p i) /\
  handler_at H p' (length (arena H p)) = Some h.
Proof.
  unfold insert_after. destruct (nth_error (arena H p) a) as [na|]; [|discriminate].
  destruct (next H na) as [b|]; [|discriminate]. intros E; inversion E; subst; clear E.
  unfold handler_at. cbn [arena]. split.
  - intros i Hi. change (hd_at (set_prev H (set_next H (arena H p) a (Some (length (arena H p))) ++
       [{| hd := Some h; prev := Some a; next := Some b |}]) b (Some (length (arena H p)))) i = hd_at (arena H p) i).
    rewrite hd_set_prev. unfold hd_at. rewrite nth_error_app1 by (rewrite set_next_length; exact Hi).
    apply (hd_set_next (arena H p) a _ i).
  - change (hd_at (set_prev H (set_next H (arena H p) a (Some (length (arena H p))) ++
       [{| hd := Some h; prev := Some a; next := Some b |}]) b (Some (length (arena H p)))) (length (arena H p)) = Some h).
    rewrite hd_set_prev. unfold hd_at. rewrite nth_error_app2 by (rewrite set_next_length; lia).
    rewrite set_next_length, Nat.sub_diag. reflexivity.
Qed.

Lemma app_eq_len {A} (a b c d : list A) : length a = length c -> a ++ b = c ++ d -> a = c /\ b = d.
Proof.
  revert c. induction a as [|x a IH]; intros [|y c] Hl E; cbn in *; try lia; auto.
  inversion E; subst. destruct (IH c ltac:(lia) H2) as [-> ->]. auto.
Qed.

Lemma NoDup_insert_fresh (l1 l2 : list nat) n : NoDup (l1 ++ l2) -> ~ In n (l1 ++ l2) -> NoDup (l1 ++ n :: l2).
Proof.
  intros Hnd Hn. apply NoDup_Add with (a := n) (l := l1 ++ l2); [apply Add_app|]. constructor; auto.
Qed.

(* THE insertion lemma: inserting after the last context of the prefix A *)
Lemma insert_after_last p A B hA hB h : Rep p (A ++ B) (hA ++ hB) -> length hA = length A ->
  exists p', insert_after H p (last (0 :: A) 0) h = Some p' /\
             Rep p' (A ++ length (arena H p) :: B) (hA ++ h :: hB) /\
             length (arena H p') = S (length (arena H p)).
Proof.
  intros R Hl. destruct R as [Hseg Hnd Hlt Hsz Hhs Hh0 Ht1]. set (n := length (arena H p)) in *.
  assert (Hsplit : 0 :: A = removelast (0 :: A) ++ [last (0 :: A) 0]) by (apply app_removelast_last; discriminate).
  set (xs := removelast (0 :: A)) in *. set (a := last (0 :: A) 0) in *.
  destruct (B ++ [1]) as [|b ys] eqn:EB; [destruct B; discriminate|].
  assert (Hids : ids_of (A ++ B) = xs ++ a :: b :: ys).
  { rewrite <- app_assoc, EB. change (0 :: A ++ b :: ys) with ((0 :: A) ++ b :: ys). rewrite Hsplit, <- app_assoc. reflexivity. }
  rewrite Hids in *.
  destruct (insert_after_seg H p xs a b ys h Hnd Hlt Hseg) as [p' [E [Hseg' [Hlen' Hsz']]]].
  exists p'. split; [exact E|]. split; [|exact Hlen'].
  assert (Hids' : ids_of (A ++ n :: B) = xs ++ a :: n :: b :: ys).
  { rewrite <- app_assoc. cbn [app]. rewrite EB. change (0 :: A ++ n :: b :: ys) with ((0 :: A) ++ n :: b :: ys).
    rewrite Hsplit, <- app_assoc. reflexivity. }
  destruct (insert_after_hd _ _ _ _ E) as [Hold Hnew].
  assert (Hfresh : ~ In n (xs ++ a :: b :: ys)) by (intros Hin; specialize (Hlt _ Hin); lia).
  constructor.
  - rewrite Hids'. exact Hseg'.
  - rewrite Hids'. replace (xs ++ a :: n :: b :: ys) with ((xs ++ [a]) ++ n :: b :: ys) by (rewrite <- app_assoc; reflexivity).
    apply NoDup_insert_fresh; rewrite <- app_assoc; cbn [app]; auto.
  - rewrite Hids', Hlen'. intros i Hi. apply in_app_or in Hi. destruct Hi as [Hi|[<-|[<-|Hi]]].
    + specialize (Hlt i ltac:(apply in_or_app; left; exact Hi)). lia.
    + specialize (Hlt a ltac:(apply in_or_app; right; left; reflexivity)). lia.
    + fold n. lia.
    + specialize (Hlt i ltac:(apply in_or_app; right; right; exact Hi)). lia.
  - rewrite Hsz', Hsz, !app_length. cbn [length]. lia.
  - rewrite !map_app in *. cbn [map]. fold n in Hnew. rewrite Hnew.
    assert (Hall : forall l, (forall i, In i l -> i < n) -> map (handler_at H p') l = map (handler_at H p) l).
    { intros l Hl'. apply map_ext_in. intros i Hi. apply Hold. apply Hl'. exact Hi. }
    assert (HA : forall i, In i A -> i < n).
    { intros i Hi. apply Hlt. rewrite <- Hids. right. apply in_or_app. left. apply in_or_app. left. exact Hi. }
    assert (HB : forall i, In i B -> i < n).
    { intros i Hi. apply Hlt. rewrite <- Hids. right. apply in_or_app. left. apply in_or_app. right. exact Hi. }
    rewrite (Hall A HA), (Hall B HB).
    assert (Hm : map (handler_at H p) A = map Some hA /\ map (handler_at H p) B = map Some hB).
    { apply app_eq_len; [rewrite !map_length; auto|exact Hhs]. }
    destruct Hm as [-> ->]. reflexivity.
  - rewrite Hold; [exact Hh0|]. apply Hlt. rewrite <- Hids. left. reflexivity.
  - rewrite Hold; [exact Ht1|]. apply Hlt. rewrite <- Hids. right. apply in_or_app. right. left. reflexivity.
Qed.
End PR.

(* Invariants of the channel machine (Model/Chan.v), inductive over every step
   of every thread under every schedule. *)
From Coq Require Import List Arith Bool Lia.
From GN Require Import Model.Chan.
Import ListNotations.

(* ---------- list/update toolkit ---------- *)
Lemma nth_upd_same {A} (l : list A) i x t : nth_error l i = Some t -> nth_error (upd l i x) i = Some x.
Proof. revert i; induction l as [|a l IH]; intros [|i] H; simpl in *; try discriminate; auto. Qed.
Lemma nth_upd_other {A} (l : list A) i j x : i <> j -> nth_error (upd l i x) j = nth_error l j.
Proof. revert i j; induction l as [|a l IH]; intros [|i] [|j] H; simpl; auto; try lia. Qed.
Lemma upd_length {A} (l : list A) i x : length (upd l i x) = length l.
Proof. revert i; induction l as [|a l IH]; intros [|i]; simpl; auto. Qed.

Fixpoint cnt (P : thread -> bool) (l : list thread) : nat :=
  match l with [] => 0 | t :: r => (if P t then 1 else 0) + cnt P r end.
Definition b2n (b : bool) := if b then 1 else 0.

Lemma cnt_upd P l i t t' : nth_error l i = Some t ->
  cnt P (upd l i t') + b2n (P t) = cnt P l + b2n (P t').
Proof.
  revert i; induction l as [|a l IH]; intros [|i] H; simpl in *; try discriminate.
  - inversion H; subst. unfold b2n. destruct (P t), (P t'); lia.
  - specialize (IH _ H). lia.
Qed.
Lemma cnt_app P l1 l2 : cnt P (l1 ++ l2) = cnt P l1 + cnt P l2.
Proof. induction l1; simpl; lia. Qed.
Lemma cnt_pos P l i t : nth_error l i = Some t -> P t = true -> 0 < cnt P l.
Proof.
  revert i; induction l as [|a l IH]; intros [|i] H HP; simpl in *; try discriminate.
  - inversion H; subst. rewrite HP. lia.
  - specialize (IH _ H HP). lia.
Qed.
Lemma cnt_zero P l i t : cnt P l = 0 -> nth_error l i = Some t -> P t = false.
Proof.
  intros Hc Hn. destruct (P t) eqn:E; [|reflexivity]. pose proof (cnt_pos P l i t Hn E). lia.
Qed.

(* ---------- who holds the send token / who will notice queued packets ---------- *)
Definition owns (t : thread) : bool :=
  match t with
  | TWriter _ WExec _ => true
  | TSender (SStart | SPoll | SWritev | SLen1 | SFlush | SRelease | SRecover) _ _ => true
  | _ => false
  end.
Definition wakes (t : thread) : bool :=
  owns t ||
  match t with
  | TWriter (_ :: _) WCas _ => true
  | TSender (SRecheck | SReacq) _ _ => true
  | _ => false
  end.
Definition hand_of (t : thread) : list packet := match t with TSender _ h _ => h | _ => [] end.
Definition hands (l : list thread) : list packet := concat (map hand_of l).

Lemma hands_app l1 l2 : hands (l1 ++ l2) = hands l1 ++ hands l2.
Proof. unfold hands. rewrite map_app, concat_app. reflexivity. Qed.
Lemma hands_nil l : (forall i t, nth_error l i = Some t -> hand_of t = []) -> hands l = [].
Proof.
  induction l as [|a l IH]; intros H; [reflexivity|].
  unfold hands; simpl. rewrite (H 0 a eq_refl). simpl. apply IH. intros i t Hi. apply (H (S i) t Hi).
Qed.
Lemma hands_upd l i t t' : nth_error l i = Some t ->
  (forall j u, j <> i -> nth_error l j = Some u -> hand_of u = []) ->
  hands l = hand_of t /\ hands (upd l i t') = hand_of t'.
Proof.
  revert i; induction l as [|a l IH]; intros [|i] H Hj; simpl in *; try discriminate.
  - inversion H; subst. unfold hands; simpl.
    assert (E : concat (map hand_of l) = []).
    { apply hands_nil. intros j u Hu. apply (Hj (S j) u); [lia|exact Hu]. }
    rewrite E, !app_nil_r. split; reflexivity.
  - destruct (IH i H) as [E1 E2].
    { intros j u Hne Hu. apply (Hj (S j) u); [lia|exact Hu]. }
    unfold hands in *; simpl. rewrite (Hj 0 a); [|lia|reflexivity]. simpl. split; assumption.
Qed.
(* replacing a thread by one with the same hand leaves `hands` unchanged *)
Lemma hands_upd_eq l i t t' : nth_error l i = Some t -> hand_of t' = hand_of t -> hands (upd l i t') = hands l.
Proof.
  revert i; induction l as [|a l IH]; intros [|i] H E; simpl in *; try discriminate.
  - inversion H; subst. unfold hands; simpl. rewrite E. reflexivity.
  - unfold hands in *; simpl. f_equal. apply (IH i H E).
Qed.

(* ---------- the invariant ---------- *)
Record Inv (s : st) : Prop := {
  I_token : cnt owns (threads s) = b2n (running s);
  I_hand  : forall i t, nth_error (threads s) i = Some t -> owns t = false -> hand_of t = [];
  I_fifo  : accepted s = concat (tlog s) ++ lost s ++ hands (threads s) ++ queue s;
  I_lost  : lost s <> [] -> 0 < tclosed s;
  I_wake  : tclosed s = 0 -> queue s <> [] -> 0 < cnt wakes (threads s);
  I_flush : tclosed s = 0 -> 0 < unflushed s -> running s = true;
  I_wcall : forall i pc res, nth_error (threads s) i = Some (TWriter [] pc res) -> pc = WCheck;
  I_shand : forall i pc h cont, nth_error (threads s) i = Some (TSender pc h cont) ->
            match pc with SPoll | SWritev => True | _ => h = [] end;
  I_recover : forall i h cont, nth_error (threads s) i = Some (TSender SRecover h cont) -> 0 < tclosed s;
  I_rel : forall i h cont, nth_error (threads s) i = Some (TSender SRelease h cont) -> unflushed s = 0;
}.

(* all cases of one step *)
Ltac step_cases H :=
  unfold step, s_finish, c_finish, w_return in H;
  repeat match type of H with
         | context [match ?x with _ => _ end] => destruct x eqn:?; try discriminate H
         end;
  inversion H; subst; clear H.

Ltac simp_st := cbn [set_thr set_queue set_running set_accepted set_returned set_transport set_close set_creturned add_thread
                     threads queue running accepted returned tlog unflushed lost tclosed closed reason ctx_done inactive creturned
                     qcap until_write w_return s_finish c_finish] in *.

Lemma token_pres s i ch s' : Inv s -> step s i ch = Some s' -> cnt owns (threads s') = b2n (running s').
Proof.
  intros [Ht _ _ _ _ _ Hw _ _ _] H. step_cases H; simp_st; rewrite ?cnt_app;
    match goal with
    | Hn : nth_error (threads s) i = Some ?t |- context [upd (threads s) i ?t'] =>
        pose proof (cnt_upd owns (threads s) i t t' Hn) as Hc
    end;
    cbn [owns b2n cnt] in *; rewrite ?Ht in *;
    try (destruct (running s); cbn [b2n] in *; lia).
Qed.

Lemma unique_owner l i t : nth_error l i = Some t -> owns t = true -> cnt owns l <= 1 ->
  forall j u, j <> i -> nth_error l j = Some u -> owns u = false.
Proof.
  revert i; induction l as [|a l IH]; intros [|i] H Ho Hc j u Hne Hu; simpl in *; try discriminate.
  - inversion H; subst. rewrite Ho in Hc. destruct j as [|j]; [lia|]. simpl in Hu.
    destruct (owns u) eqn:E; auto. pose proof (cnt_pos owns l j u Hu E). lia.
  - destruct j as [|j]; simpl in Hu.
    + inversion Hu; subst. destruct (owns u) eqn:E; auto. pose proof (cnt_pos owns l i t H Ho). lia.
    + apply (IH i H Ho ltac:(destruct (owns a); lia) j u ltac:(lia) Hu).
Qed.

(* the owner's hand is all there is *)
Lemma owner_hands s i t : Inv s -> nth_error (threads s) i = Some t -> owns t = true ->
  forall t', hands (threads s) = hand_of t /\ hands (upd (threads s) i t') = hand_of t'.
Proof.
  intros Hi Hn Ho t'. apply (hands_upd _ _ _ _ Hn). intros j u Hne Hu.
  apply (I_hand s Hi j u Hu). apply (unique_owner _ _ _ Hn Ho) with (j := j); auto.
  rewrite (I_token s Hi). destruct (running s); cbn; lia.
Qed.

Lemma hand_pres_gen (l : list thread) i t' :
  (forall j t, nth_error l j = Some t -> owns t = false -> hand_of t = []) ->
  (owns t' = false -> hand_of t' = []) ->
  forall j t, nth_error (upd l i t') j = Some t -> owns t = false -> hand_of t = [].
Proof.
  intros Hl Ht j t Hn Ho. destruct (Nat.eq_dec i j) as [<-|Hne].
  - destruct (nth_error l i) as [u|] eqn:E.
    + rewrite (nth_upd_same _ _ _ _ E) in Hn. inversion Hn; subst. auto.
    + assert (Hlen : length l <= i) by (apply nth_error_None; exact E).
      assert (nth_error (upd l i t') i = None) by (apply nth_error_None; rewrite upd_length; exact Hlen). congruence.
  - rewrite nth_upd_other in Hn by auto. eauto.
Qed.

Lemma hand_pres s i ch s' : Inv s -> step s i ch = Some s' ->
  forall j t, nth_error (threads s') j = Some t -> owns t = false -> hand_of t = [].
Proof.
  intros Hi H. pose proof (I_hand s Hi) as Hh. step_cases H; simp_st;
    try (apply hand_pres_gen; [exact Hh|cbn [owns hand_of]; try reflexivity; try discriminate]).
  all: try (match goal with |- context [if ?b then _ else _] => destruct b end; cbn [owns]; discriminate).
  (* WExec: a new sender with an empty hand is appended *)
  intros j t Hn Ho. destruct (lt_dec j (length (upd (threads s) i (TWriter l WCheck (results ++ [(cid c, ROk)]))))) as [Hlt|Hge].
  - rewrite nth_error_app1 in Hn by exact Hlt. clear Hlt. revert j t Hn Ho. apply hand_pres_gen; [exact Hh|reflexivity].
  - rewrite nth_error_app2 in Hn by lia.
    destruct (j - length (upd (threads s) i (TWriter l WCheck (results ++ [(cid c, ROk)])))) as [|k]; cbn in Hn.
    + inversion Hn; subst. reflexivity.
    + destruct k; discriminate.
Qed.


Ltac norm_q := repeat match goal with E : queue ?s = _ |- context [queue ?s] => rewrite E end.

Lemma shand_pres s i ch s' : Inv s -> step s i ch = Some s' ->
  forall j pc h cont, nth_error (threads s') j = Some (TSender pc h cont) ->
  match pc with SPoll | SWritev => True | _ => h = [] end.
Proof.
  intros Hi H j pc h cont Hn. pose proof (I_shand s Hi) as Hs.
  assert (Hgen : forall t', (forall pc h cont, t' = TSender pc h cont -> match pc with SPoll | SWritev => True | _ => h = [] end) ->
            nth_error (upd (threads s) i t') j = Some (TSender pc h cont) -> match pc with SPoll | SWritev => True | _ => h = [] end).
  { intros t' Ht' Hn'. destruct (Nat.eq_dec i j) as [<-|Hne].
    - destruct (nth_error (threads s) i) as [u|] eqn:E.
      + rewrite (nth_upd_same _ _ _ _ E) in Hn'. inversion Hn'; subst. eapply Ht'; reflexivity.
      + assert (nth_error (upd (threads s) i t') i = None) by (apply nth_error_None; rewrite upd_length; apply nth_error_None; exact E). congruence.
    - rewrite nth_upd_other in Hn' by auto. eapply Hs; eauto. }
  step_cases H; simp_st;
    try (apply Hgen in Hn; [exact Hn|]; intros pc' h' cont' E; inversion E; subst; try exact I; try reflexivity;
         match goal with |- context [if ?b then _ else _] => destruct b; exact I end).
  (* WExec appends a sender at SStart with an empty hand *)
  destruct (lt_dec j (length (upd (threads s) i (TWriter l WCheck (results ++ [(cid c, ROk)]))))) as [Hlt|Hge].
  - rewrite nth_error_app1 in Hn by exact Hlt. apply Hgen in Hn; [exact Hn|]. intros ? ? ? E; inversion E.
  - rewrite nth_error_app2 in Hn by lia.
    destruct (j - length (upd (threads s) i (TWriter l WCheck (results ++ [(cid c, ROk)])))) as [|k]; cbn in Hn.
    + inversion Hn; subst. reflexivity.
    + destruct k; discriminate.
Qed.

Lemma fifo_pres s i ch s' : Inv s -> step s i ch = Some s' ->
  accepted s' = concat (tlog s') ++ lost s' ++ hands (threads s') ++ queue s'.
Proof.
  intros Hi H. pose proof (I_fifo s Hi) as Hf. pose proof (I_shand s Hi) as Hsh. pose proof (I_lost s Hi) as Hlo.
  step_cases H; simp_st; norm_q;
    (* a sender outside SPoll/SWritev holds nothing *)
    try (match goal with
         | Hn : nth_error (threads s) i = Some (TSender ?pc ?h ?cont) |- _ =>
             lazymatch pc with SPoll => fail | SWritev => fail | _ => idtac end;
             let E := fresh "E" in pose proof (Hsh i pc h cont Hn) as E; cbn in E; subst h
         end);
    try (match goal with
         | Hn : nth_error (threads s) i = Some ?t |- _ =>
             rewrite (hands_upd_eq (threads s) i t _ Hn) by reflexivity
         end; rewrite ?Hf, <- ?app_assoc; reflexivity).
  all: try match goal with
           | HI : Inv ?s0, HF : accepted ?s0 = _, Hn : nth_error (threads ?s0) ?i0 = Some ?t |- context [upd (threads ?s0) ?i0 ?t'] =>
               let E1 := fresh "E1" in let E2 := fresh "E2" in
               destruct (owner_hands s0 i0 t HI Hn eq_refl t') as [E1 E2]; rewrite E2; rewrite HF, E1; cbn [hand_of]
           end.
  all: try (rewrite <- ?app_assoc; cbn [app]; reflexivity).
  - (* WExec: appended sender *)
    rewrite hands_app.
    match goal with Hn : nth_error (threads s) i = Some ?t |- _ =>
      rewrite (hands_upd_eq (threads s) i t _ Hn) by reflexivity end.
    unfold hands at 2. cbn. rewrite app_nil_r. exact Hf.
  - (* Writev accepted: lost is still empty *)
    assert (Hl0 : lost s = []).
    { destruct (lost s) eqn:El; [reflexivity|]. specialize (Hlo ltac:(discriminate)).
      match goal with Hb : (0 <? tclosed s) = false |- _ => apply Nat.ltb_ge in Hb; lia end. }
    rewrite Hl0, concat_app. cbn [concat app]. rewrite app_nil_r, <- !app_assoc. reflexivity.
Qed.

Lemma cnt_le P Q l : (forall t, P t = true -> Q t = true) -> cnt P l <= cnt Q l.
Proof.
  intros H. induction l as [|a l IH]; cbn; [lia|]. destruct (P a) eqn:E; [rewrite (H a E); lia|destruct (Q a); lia].
Qed.
Lemma owns_wakes t : owns t = true -> wakes t = true.
Proof. intros H. unfold wakes. rewrite H. reflexivity. Qed.

(* generic lookup into an updated / extended thread list *)
Lemma nth_upd_cases {A} (l : list A) i j (x y : A) : nth_error (upd l i x) j = Some y ->
  (i = j /\ y = x) \/ (i <> j /\ nth_error l j = Some y).
Proof.
  intros H. destruct (Nat.eq_dec i j) as [<-|Hne].
  - left. destruct (nth_error l i) as [u|] eqn:E.
    + rewrite (nth_upd_same _ _ _ _ E) in H. inversion H. auto.
    + assert (nth_error (upd l i x) i = None) by (apply nth_error_None; rewrite upd_length; apply nth_error_None; exact E). congruence.
  - right. rewrite nth_upd_other in H by auto. auto.
Qed.

Lemma recover_pres s i ch s' : Inv s -> step s i ch = Some s' ->
  forall j h cont, nth_error (threads s') j = Some (TSender SRecover h cont) -> 0 < tclosed s'.
Proof.
  intros Hi H j h cont Hn. pose proof (I_recover s Hi) as Hr.
  step_cases H; simp_st;
    try (match goal with Hx : nth_error (_ ++ _) _ = _ |- _ => idtac end || (
         apply nth_upd_cases in Hn; destruct Hn as [[_ E]|[_ Hn]];
         [try discriminate E; try (match type of E with context [if ?b then _ else _] => destruct b; discriminate E end)
         |try (eapply Hr; exact Hn)]));
    try (match goal with Hb : (0 <? tclosed s) = true |- _ => apply Nat.ltb_lt in Hb; exact Hb end);
    try (eapply Nat.lt_lt_succ_r; eapply Hr; exact Hn); try lia.
  (* WExec *)
  destruct (lt_dec j (length (upd (threads s) i (TWriter l WCheck (results ++ [(cid c, ROk)]))))) as [Hlt|Hge].
  - rewrite nth_error_app1 in Hn by exact Hlt. apply nth_upd_cases in Hn. destruct Hn as [[_ E]|[_ Hn]]; [discriminate|eapply Hr; exact Hn].
  - rewrite nth_error_app2 in Hn by lia.
    destruct (j - length (upd (threads s) i (TWriter l WCheck (results ++ [(cid c, ROk)])))) as [|k]; cbn in Hn; [discriminate|destruct k; discriminate].
Qed.

Lemma lost_pres s i ch s' : Inv s -> step s i ch = Some s' -> lost s' <> [] -> 0 < tclosed s'.
Proof.
  intros Hi H. pose proof (I_lost s Hi) as Hl. step_cases H; simp_st; auto; try (intros Hx; specialize (Hl Hx); lia).
  intros _. match goal with Hb : (0 <? tclosed s) = true |- _ => apply Nat.ltb_lt in Hb; exact Hb end.
Qed.

Lemma wcall_pres s i ch s' : Inv s -> step s i ch = Some s' ->
  forall j pc res, nth_error (threads s') j = Some (TWriter [] pc res) -> pc = WCheck.
Proof.
  intros Hi H j pc res Hn. pose proof (I_wcall s Hi) as Hw.
  step_cases H; simp_st;
    try (match goal with Hx : nth_error (_ ++ _) _ = _ |- _ => idtac end || (
         apply nth_upd_cases in Hn; destruct Hn as [[_ E]|[_ Hn]];
         [try discriminate E; try (inversion E; reflexivity);
          try (match type of E with context [if ?b then _ else _] => destruct b; discriminate E end)
         |eapply Hw; exact Hn])).
  destruct (lt_dec j (length (upd (threads s) i (TWriter l WCheck (results ++ [(cid c, ROk)]))))) as [Hlt|Hge].
  - rewrite nth_error_app1 in Hn by exact Hlt. apply nth_upd_cases in Hn. destruct Hn as [[_ E]|[_ Hn]]; [inversion E; reflexivity|eapply Hw; exact Hn].
  - rewrite nth_error_app2 in Hn by lia.
    destruct (j - length (upd (threads s) i (TWriter l WCheck (results ++ [(cid c, ROk)])))) as [|k]; cbn in Hn; [discriminate|destruct k; discriminate].
Qed.

Lemma two_owners s i j t u : Inv s -> i <> j -> nth_error (threads s) i = Some t -> nth_error (threads s) j = Some u ->
  owns t = true -> owns u = true -> False.
Proof.
  intros Hi Hne Hn Hm Ho Hu.
  assert (owns u = false); [|congruence].
  apply (unique_owner _ _ _ Hn Ho) with (j := j); auto. rewrite (I_token s Hi). destruct (running s); cbn; lia.
Qed.

Lemma rel_pres s i ch s' : Inv s -> step s i ch = Some s' ->
  forall j h cont, nth_error (threads s') j = Some (TSender SRelease h cont) -> unflushed s' = 0.
Proof.
  intros Hi H j h cont Hn. pose proof (I_rel s Hi) as Hr.
  step_cases H; simp_st;
    try (match goal with Hx : nth_error (_ ++ _) _ = _ |- _ => idtac end || (
         apply nth_upd_cases in Hn; destruct Hn as [[_ E]|[Hne Hn]];
         [try discriminate E; try reflexivity;
          try (match type of E with context [if ?b then _ else _] => destruct b; discriminate E end)
         |try (eapply Hr; exact Hn);
          (* the stepping thread and thread j would both own the token *)
          try (exfalso; match goal with Hi0 : nth_error (threads s) i = Some ?t |- _ =>
                 eapply (two_owners s i j t _ Hi Hne Hi0 Hn); reflexivity end)])).
  destruct (lt_dec j (length (upd (threads s) i (TWriter l WCheck (results ++ [(cid c, ROk)]))))) as [Hlt|Hge].
  - rewrite nth_error_app1 in Hn by exact Hlt. apply nth_upd_cases in Hn. destruct Hn as [[_ E]|[_ Hn]]; [discriminate|eapply Hr; exact Hn].
  - rewrite nth_error_app2 in Hn by lia.
    destruct (j - length (upd (threads s) i (TWriter l WCheck (results ++ [(cid c, ROk)])))) as [|k]; cbn in Hn; [discriminate|destruct k; discriminate].
Qed.

Lemma flush_pres s i ch s' : Inv s -> step s i ch = Some s' -> tclosed s' = 0 -> 0 < unflushed s' -> running s' = true.
Proof.
  intros Hi H. pose proof (I_flush s Hi) as Hf. pose proof (I_token s Hi) as Ht.
  pose proof (I_recover s Hi) as Hr. pose proof (I_rel s Hi) as Hrel.
  step_cases H; simp_st; auto; try lia;
    try (intros Hc Hu;
         match goal with
         | Hn : nth_error (threads s) i = Some ?t |- _ =>
             let Hp := fresh in pose proof (cnt_pos owns (threads s) i t Hn eq_refl) as Hp; rewrite Ht in Hp;
             destruct (running s); cbn in Hp; try lia; auto
         end).
  - (* SRelease: nothing is unflushed when the token is given up *)
    match goal with Hn : nth_error (threads s) i = Some (TSender SRelease ?h ?c) |- _ =>
      rewrite (Hrel i h c Hn) in Hu end. lia.
  - (* SRecover only happens on a closed transport *)
    match goal with Hn : nth_error (threads s) i = Some (TSender SRecover ?h ?c) |- _ =>
      pose proof (Hr i h c Hn) end. lia.
Qed.

Lemma wake_pres s i ch s' : Inv s -> step s i ch = Some s' ->
  tclosed s' = 0 -> queue s' <> [] -> 0 < cnt wakes (threads s').
Proof.
  intros Hi H. pose proof (I_wake s Hi) as Hw. pose proof (token_pres s i ch s' Hi H) as Ht'.
  pose proof (I_recover s Hi) as Hr.
  assert (Hrun : running s' = true -> 0 < cnt wakes (threads s')).
  { intros E. rewrite E in Ht'. cbn in Ht'. pose proof (cnt_le owns wakes (threads s') owns_wakes). lia. }
  step_cases H; simp_st; intros Hc Hq;
    (* (a) the token is held in the new state *)
    try (apply Hrun; first [reflexivity | assumption]);
    (* (b) the stepping thread itself will notice the queue *)
    try (rewrite ?cnt_app; match goal with Hn : nth_error (threads s) i = Some ?t |- context [upd (threads s) i ?t'] =>
           let Hp := fresh in
           assert (Hp : 0 < cnt wakes (upd (threads s) i t'));
           [eapply cnt_pos; [eapply nth_upd_same; exact Hn|cbn; try reflexivity;
              match goal with |- context [if ?b then _ else _] => destruct b; reflexivity end]|lia] end);
    (* (c) the queue is empty *)
    try (norm_q; congruence);
    (* (d) the stepping thread was not a waker: the old waker is still there *)
    try (match goal with Hn : nth_error (threads s) i = Some ?t |- context [upd (threads s) i ?t'] =>
           let Hp := fresh in pose proof (cnt_upd wakes (threads s) i t t' Hn) as Hp; cbn [wakes owns orb b2n] in Hp;
           specialize (Hw ltac:(lia) ltac:(norm_q; congruence)); lia end).
  - rewrite cnt_app. cbn. lia.
  - match goal with Hn : nth_error (threads s) i = Some (TSender SRecover ?h ?c) |- _ => pose proof (Hr i h c Hn) end. lia.
Qed.

(* ---------- the invariant is inductive ---------- *)
Theorem inv_step s i ch s' : Inv s -> step s i ch = Some s' -> Inv s'.
Proof.
  intros Hi H. constructor.
  - eapply token_pres; eauto.
  - eapply hand_pres; eauto.
  - eapply fifo_pres; eauto.
  - eapply lost_pres; eauto.
  - eapply wake_pres; eauto.
  - eapply flush_pres; eauto.
  - eapply wcall_pres; eauto.
  - eapply shand_pres; eauto.
  - eapply recover_pres; eauto.
  - eapply rel_pres; eauto.
Qed.

Lemma inv_parent_cancel s : Inv s -> Inv (parent_cancel s).
Proof. intros [? ? ? ? ? ? ? ? ? ?]. constructor; cbn; auto. Qed.

Theorem inv_run sched : forall s, Inv s -> Inv (run s sched).
Proof.
  induction sched as [|e r IH]; intros s Hi; cbn [run]; [exact Hi|].
  destruct e as [i ch|]; cbn [step_ev].
  - destruct (step s i ch) as [s'|] eqn:E; [apply IH; eapply inv_step; eauto|apply IH; exact Hi].
  - apply IH. apply inv_parent_cancel. exact Hi.
Qed.

(* initial states: writers about to make their first call, closers about to
   call Close, no sender yet *)
Definition init_thread (t : thread) : bool :=
  match t with
  | TWriter _ WCheck [] => true
  | TCloser CCas _ None => true
  | TDone => true
  | _ => false
  end.

Lemma cnt_none P l : (forall t, In t l -> P t = false) -> cnt P l = 0.
Proof. induction l as [|a l IH]; intros H; cbn; [reflexivity|]. rewrite (H a (or_introl eq_refl)), IH; auto. intros t Ht. apply H. right. exact Ht. Qed.

Theorem inv_init qc until ths : forallb init_thread ths = true -> Inv (init qc until ths).
Proof.
  intros Hall. rewrite forallb_forall in Hall.
  assert (Hk : forall i t, nth_error ths i = Some t -> init_thread t = true) by (intros i t Hn; apply Hall; eapply nth_error_In; eauto).
  constructor; cbn [init threads running accepted tlog lost queue tclosed unflushed concat app].
  - apply cnt_none. intros t Ht. specialize (Hall t Ht). destruct t as [? [] [|]| | [] ? []|]; cbn in *; congruence.
  - intros i t Hn _. specialize (Hk i t Hn). destruct t as [? [] [|]| | [] ? []|]; cbn in *; congruence.
  - rewrite hands_nil; [reflexivity|]. intros i t Hn. specialize (Hk i t Hn). destruct t as [? [] [|]| | [] ? []|]; cbn in *; congruence.
  - congruence.
  - congruence.
  - lia.
  - intros i pc res Hn. specialize (Hk i _ Hn). destruct pc; cbn in Hk; congruence.
  - intros i pc h cont Hn. specialize (Hk i _ Hn). discriminate.
  - intros i h cont Hn. specialize (Hk i _ Hn). discriminate.
  - intros i h cont Hn. specialize (Hk i _ Hn). discriminate.
Qed.

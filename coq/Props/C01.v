(* C01 — accepted writes reach the transport exactly once, in order, intact
   (queued channel).  The machine of Model/Chan.v has any number of writer
   threads with arbitrary programs over the five entry points, any number of
   closers, parent cancellation, any queue size and both queue modes; the
   theorems hold for EVERY schedule (`run` over an arbitrary list of picks).
   Payload CONTENT is C10; the synchronous channel is c01_sync below.
   Statements only. *)
From Coq Require Import List Arith Bool.
From GN Require Import Model.Chan Model.SyncChan Proof.Chan_proofs Proof.Chan2_proofs Proof.SyncChan_proofs.
Import ListNotations.

(* the invariant y_holds initially and after every step of every schedule *)
Theorem c01_invariant : forall qc until ths sched, forallb init_thread ths = true ->
  Inv (run (init qc until ths) sched).
Proof. intros. apply inv_run. apply inv_init. assumption. Qed.
Print Assumptions c01_invariant.

(* at every moment the transport has received a prefix of the accepted
   payloads, in acceptance order, each whole: accepted = sent ++ (dropped after
   close) ++ (batch in the sender's hand) ++ queue *)
Theorem c01_prefix : forall s, Inv s ->
  accepted s = concat (tlog s) ++ lost s ++ hands (threads s) ++ queue s.
Proof. exact I_fifo. Qed.
Print Assumptions c01_prefix.

(* each payload at most once *)
Theorem c01_at_most_once : forall qc until ths sched, forallb init_thread ths = true -> wf_cids ths ->
  NoDup (accepted (run (init qc until ths) sched)).
Proof. exact accepted_nodup. Qed.
Print Assumptions c01_at_most_once.

(* acceptance order is enqueue order: later steps only append.  Hence a call
   that returned (its payload, if any, is already in `accepted`) precedes every
   call that begins later, and one goroutine's payloads appear in call order *)
Theorem c01_order : forall sched s, exists l, accepted (run s sched) = accepted s ++ l.
Proof. exact accepted_mono_run. Qed.
Print Assumptions c01_order.

(* a call that returned an error contributes no bytes; nor does a call that has not begun *)
Theorem c01_error_no_bytes : forall qc until ths sched i t p, forallb init_thread ths = true -> wf_cids ths ->
  nth_error (threads (run (init qc until ths) sched)) i = Some t ->
  In p (rejected t) \/ In p (pending t) -> ~ In p (accepted (run (init qc until ths) sched)).
Proof. exact error_not_accepted. Qed.
Print Assumptions c01_error_no_bytes.

(* only one thread writes to the transport at a time (the send token) *)
Theorem c01_single_sender : forall s, Inv s -> cnt owns (threads s) = b2n (running s).
Proof. exact I_token. Qed.
Print Assumptions c01_single_sender.

(* synchronous channel: the write lock serialises whole calls (at most one thread is inside
   transport.Write/Flush); each payload reaches the transport at most once; a call that returned
   success has its payload on the transport and flushed; a call refused with the close error
   transmitted nothing.  For every program, every number of racing closers, every schedule and
   every injected transport failure. *)
Theorem c01_sync : forall ths sched, sc_wf ths = true ->
  let s := sc_run (sc_init ths) sched in
  NoDup (sc_tlog s) /\
  (forall i j ti tj, nth_error (sc_threads s) i = Some ti -> nth_error (sc_threads s) j = Some tj ->
     y_holds ti = true -> y_holds tj = true -> i = j) /\
  (forall j t p, nth_error (sc_threads s) j = Some t -> In p (y_oks t) -> In p (firstn (sc_flushed s) (sc_tlog s))) /\
  (forall j t p, nth_error (sc_threads s) j = Some t -> In p (y_refused t) -> ~ In p (sc_tlog s)).
Proof. exact sync_correct. Qed.
Print Assumptions c01_sync.

(* non-vacuity: three writers, queue size 1, blocking: a writer parks, the sender batches, everything is delivered *)
Definition ex_ths : list thread :=
  [TWriter [{| cid := 1; ckind := KWrite1; cctx_done := false |}; {| cid := 2; ckind := KWritev; cctx_done := false |}] WCheck [];
   TWriter [{| cid := 3; ckind := KCtxWrite1; cctx_done := false |}] WCheck [];
   TWriter [{| cid := 4; ckind := KWriter; cctx_done := false |}] WCheck []].
Definition ex_sched : list sched_ev :=
  map (fun i => Run i CAuto) [0; 1; 2; 0; 0; 0; 3; 0; 3; 0; 3; 0; 3; 3; 1; 3; 1; 3; 3; 2; 3; 2; 3; 3; 3; 3; 3; 3; 3].
Example c01_nonvacuous :
  forallb init_thread ex_ths = true /\
  let s := run (init 1 true ex_ths) ex_sched in
  quiescent s = true /\ concat (tlog s) = accepted s /\ length (accepted s) = 4.
Proof. vm_compute. repeat split; reflexivity. Qed.

(* the sender's batch capacity in the machine is the expression in the source NOW (Gen/Consts.v) *)
From GN Require Import Gen.Consts Proof.Consts_ok.
Theorem c01_batch_capacity_is_source : forall s, batch_cap s = batch_cap_src (qcap s).
Proof. exact batch_cap_is_source. Qed.

(* C05 — channel lifecycle.  Part 1 (this file, the channel machine): among any
   number of concurrent Close calls (from handlers, user goroutines, the
   sender-failure path, nested inside an inline sender) exactly one takes
   effect: transport closed once, inactive delivered once with that call's
   error, context cancelled once it has returned; IsActive is false as soon as
   any Close call has returned.  Part 2 (Model/Life.v): active exactly once
   before the first read, reads strictly sequential, the read loop terminates
   once reads fail.  Statements only. *)
From Coq Require Import List Arith Bool.
From GN Require Import Model.Chan Model.Life Proof.Chan_proofs Proof.Chan2_proofs Proof.Chan3_proofs Proof.Life_proofs.
Import ListNotations.

Theorem c05_close_at_most_once : forall s, Win s -> tclosed s <= 1 /\ length (inactive s) <= 1.
Proof. exact close_at_most_once. Qed.
Print Assumptions c05_close_at_most_once.

Theorem c05_close_effective : forall s, Win s -> closed s = true -> cnt winner (threads s) = 0 ->
  tclosed s = 1 /\ ctx_done s = true /\ exists e, inactive s = [e] /\ reason s = Some e.
Proof. exact close_effective_done. Qed.
Print Assumptions c05_close_effective.

Theorem c05_all_schedules : forall qc until ths sched, forallb init_thread ths = true -> Win (run (init qc until ths) sched).
Proof. intros. apply win_run, win_init. assumption. Qed.
Print Assumptions c05_all_schedules.

(* IsActive() is false as soon as any Close call has returned *)
Theorem c05_isactive : forall s i ch s', ClosedInv s -> step s i ch = Some s' -> ClosedInv s'.
Proof. exact closedinv_step. Qed.
Print Assumptions c05_isactive.

(* read loop: active once and first, reads one at a time, terminates once reads fail *)
Theorem c05_readloop : forall prog, life_ok (life_run prog) = true.
Proof. exact life_run_ok. Qed.
Print Assumptions c05_readloop.

Example c05_nonvacuous :
  (* two closers with distinct errors racing; the sender is stalled beyond the grace period, then fails on the
     closed transport and calls Close itself (a third, losing, Close) *)
  let ths := [TWriter [{| cid := 1; ckind := KWrite1; cctx_done := false |}] WCheck [];
              TCloser CCas {| c_err := 5; c_polls := 0 |} None; TCloser CCas {| c_err := 6; c_polls := 0 |} None] in
  let s := run (init 2 false ths) (map (fun i => Run i CAuto) [0;0;0;0; 2;1; 2; 2; 2; 2; 2; 2; 2; 2; 2; 2; 2; 2; 2; 2; 2; 2; 2; 2; 2; 2; 2; 2; 2; 2; 2; 3; 3; 3; 3; 3; 3]) in
  tclosed s = 1 /\ inactive s = [6] /\ reason s = Some 6 /\ ctx_done s = true /\ creturned s = true.
Proof. vm_compute. repeat split; reflexivity. Qed.

(* ... also when the channel is served with a context that has already ended (accepted while Shutdown
   runs): the active event is still delivered exactly once and first, then the read loop exits *)
Theorem c05_lifecycle_any_initial_context : forall d prog, life_ok (life_run_ctx d prog) = true.
Proof. exact life_run_ctx_ok. Qed.

(* synchronous channel (Model/SyncChan.v, replayed against the real channel by h_chan): whatever the
   number of racing Close calls, programs of the writers, schedule and injected transport failures, the
   transport is closed at most once and the inactive event fires at most once - after the transport was
   closed and the context cancelled - with the error of the Close call that won the flag *)
From GN Require Import Model.SyncChan Proof.SyncChan_proofs.
Theorem c05_sync_close_once : forall ths sched, sc_wf ths = true ->
  let s := sc_run (sc_init ths) sched in
  sc_tclosed s <= 1 /\ length (sc_inactive s) <= 1 /\
  (forall e, sc_inactive s = [e] -> sc_winner s = Some e /\ sc_tclosed s = 1 /\ sc_ctx s = true).
Proof. exact sync_close_once. Qed.
Print Assumptions c05_sync_close_once.

(* C09 — a message's bytes are contiguous on the wire under concurrent writers.
   The unit of atomicity of the channel is the LOW-LEVEL write (C01: each
   accepted payload appears whole, once, in acceptance order; Writev merges its
   buffers into one packet).  Hence a message is contiguous iff the head handler
   turns it into one low-level write (c09_kinds), and the property as stated is
   REFUTED for messages that become several writes - readers longer than the
   1024-byte streaming chunk, multi-step WriterTo, and what the shipped
   delimiter+text codecs produce for a string (body and delimiter are separate
   reads of an io.MultiReader): c09_refuted, replayed on the real code on every
   run and recorded as a known finding.  Statements only. *)
From Coq Require Import ZArith List Arith Bool.
Close Scope Z_scope.
From GN Require Import Model.Chan Proof.Chan_proofs Proof.Chan2_proofs.
From GN Require Import Base.Reader Model.Conv Proof.Conv_proofs.
Close Scope Z_scope.
Import ListNotations.

(* which message types reach the channel as exactly one low-level write *)
Theorem c09_kinds : forall m, single_kind m = true -> exists c, head_write m = Some ([c], ROk).
Proof. exact head_single. Qed.
Print Assumptions c09_kinds.
Theorem c09_small_reader : forall c : bytes, c <> [] -> (blen c <= 1024)%Z ->
  head_write (MReader (of_frags [c])) = Some ([LWrite1 c], ROk).
Proof. exact head_single_reader. Qed.
Print Assumptions c09_small_reader.

(* one low-level write = one packet, never split, never duplicated, for every schedule *)
Theorem c09_single_call_contiguous : forall qc until ths sched, forallb init_thread ths = true -> wf_cids ths ->
  let s := run (init qc until ths) sched in
  NoDup (accepted s) /\ exists rest, accepted s = concat (tlog s) ++ rest.
Proof.
  exact (fun qc until ths sched Hi Hw =>
    conj (accepted_nodup qc until ths sched Hi Hw) (sent_prefix _ (inv_run sched _ (inv_init qc until ths Hi)))).
Qed.
Print Assumptions c09_single_call_contiguous.

(* REFUTATION of the unrestricted statement: two goroutines, one message each, each message
   two low-level writes (11,12) and (21,22); a schedule puts 21 22 between 11 and 12 *)
Definition c09_ths : list thread :=
  [TWriter [{| cid := 11; ckind := KWrite1; cctx_done := false |}; {| cid := 12; ckind := KWrite1; cctx_done := false |}] WCheck [];
   TWriter [{| cid := 21; ckind := KWrite1; cctx_done := false |}; {| cid := 22; ckind := KWrite1; cctx_done := false |}] WCheck []].
Theorem c09_refuted : exists sched,
  let s := run (init 4 true c09_ths) sched in quiescent s = true /\ concat (tlog s) = [11; 21; 22; 12].
Proof.
  exists (map (fun i => Run i CAuto) [0; 1; 0; 1; 0; 1; 0; 1; 2; 0; 1; 2; 0; 1; 2; 0; 2; 2; 2; 2; 2; 2; 2; 2; 2; 2]).
  vm_compute. split; reflexivity.
Qed.
Print Assumptions c09_refuted.

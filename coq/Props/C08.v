(* C08 — frame decoders never deliver a truncated, oversized or phantom frame.
   The theorems quantify over EVERY script: any bytes, any fragmentation, any
   end behaviour (clean EOF, data with EOF, failure).  A delivered frame is
   characterised against `contents`: it was received completely.
   Statements only; proofs are `exact <lemma>`. *)
From Coq Require Import ZArith List Bool.
From GN Require Import Base.GoInt Base.Reader Model.Frame Proof.Reader_proofs Proof.Frame_proofs Proof.Frame2_proofs.
Import ListNotations.
Open Scope Z_scope.

(* whatever ReadFull reports as success is exactly the next n bytes of the stream *)
Theorem c08_read_full_exact : forall n r bs r', 0 <= n -> read_full n r = (bs, ROk, r') ->
  contents r = bs ++ contents r' /\ blen bs = n.
Proof. exact read_full_inv. Qed.
Print Assumptions c08_read_full_exact.

(* length-field: a delivered frame is a complete stretch `whole` of the stream,
   header included, of length within [header, max] - also when the 8-byte field
   converts to a negative int64 or the adjustment wraps (c08_wrap_rejected):
   no wrapped value gets past the checks with a length outside that range *)
Theorem c08_lf_complete : forall c r f r', lf_wf c = true -> decode_lf c r = (DFrame f, r') ->
  exists whole, contents r = whole ++ contents r' /\ f = bdrop (lf_strip c) whole /\
                lf_off c + lf_w c <= blen whole <= lf_max c /\ lf_strip c <= blen whole.
Proof. exact lf_complete. Qed.
Print Assumptions c08_lf_complete.

Theorem c08_lf_no_fault : forall c r, lf_wf c = true -> fst (decode_lf c r) <> DFault.
Proof. exact lf_no_fault. Qed.
Print Assumptions c08_lf_no_fault.

(* end of stream is an exception, never a message *)
Theorem c08_lf_eof : forall c r, lf_wf c = true -> contents r = [] -> exists e r', decode_lf c r = (DExc e, r').
Proof. exact lf_eof. Qed.
Print Assumptions c08_lf_eof.

(* varint: header of at most 10 bytes, body complete and within max *)
Theorem c08_vi_complete : forall max r f r', 0 < max -> decode_vi max r = (DFrame f, r') ->
  exists hdr, contents r = hdr ++ f ++ contents r' /\ blen f <= max /\ blen hdr <= 10.
Proof. exact vi_complete. Qed.
Print Assumptions c08_vi_complete.
Theorem c08_vi_no_fault : forall max r, fst (decode_vi max r) <> DFault.
Proof. exact vi_no_fault. Qed.
Print Assumptions c08_vi_no_fault.
Theorem c08_vi_eof : forall max r, contents r = [] -> exists e r', decode_vi max r = (DExc e, r').
Proof. exact vi_eof. Qed.
Print Assumptions c08_vi_eof.

(* delimiter: the delivered frame ends with the delimiter, was read completely and fits max;
   at most max bytes are pulled from the stream for one frame *)
Theorem c08_dl_complete : forall max d strip r f r', decode_dl max d strip r = (DFrame f, r') ->
  exists whole, contents r = whole ++ contents r' /\ has_suffix d whole = true /\
                blen whole <= max /\ f = dl_out d strip whole.
Proof. exact dl_complete. Qed.
Print Assumptions c08_dl_complete.
Theorem c08_dl_no_fault : forall max d strip r, fst (decode_dl max d strip r) <> DFault.
Proof. exact dl_no_fault. Qed.
Print Assumptions c08_dl_no_fault.
Theorem c08_dl_eof : forall max d strip r, d <> [] -> contents r = [] -> exists e r', decode_dl max d strip r = (DExc e, r').
Proof. exact dl_eof. Qed.
Print Assumptions c08_dl_eof.

(* fixed length: exactly `len` bytes or an exception; a closed peer is an
   exception (which closes the channel, C07), not an endless stream of empty frames *)
Theorem c08_fx_complete : forall len r f r', 0 <= len -> decode_fx len r = (DFrame f, r') ->
  contents r = f ++ contents r' /\ blen f = len.
Proof. exact fx_complete. Qed.
Print Assumptions c08_fx_complete.
Theorem c08_fx_eof : forall len r, 1 <= len -> contents r = [] -> exists e r', decode_fx len r = (DExc e, r').
Proof. exact fx_eof. Qed.
Print Assumptions c08_fx_eof.

(* ReadByte never invents a byte on an exhausted stream *)
Theorem c08_no_phantom_byte : forall r, contents r = [] ->
  exists st r', read_byte r = (None, st, r') /\ st <> ROk /\ contents r' = [].
Proof. exact read_byte_end. Qed.
Print Assumptions c08_no_phantom_byte.

(* non-vacuity: a stream cut inside a body, an 8-byte field that converts to a
   negative length, an over-long varint - all exceptions, computed *)
Example c08_nonvacuous :
  fst (decode_lf {| lf_be := true; lf_max := 100; lf_off := 0; lf_w := 2; lf_adj := 0; lf_strip := 2 |}
         (mkScript [[0%N; 10%N; 1%N]; [2%N]] FEOF)) = DExc ETruncated /\
  fst (decode_lf {| lf_be := true; lf_max := 100; lf_off := 0; lf_w := 8; lf_adj := 0; lf_strip := 0 |}
         (mkScript [[255%N; 255%N; 255%N; 255%N; 255%N; 255%N; 255%N; 240%N; 1%N]] FEOF)) = DExc ENegative /\
  fst (decode_vi 100 (mkScript [[128%N; 128%N; 128%N; 128%N; 128%N; 128%N; 128%N; 128%N; 128%N; 2%N]] FEOF)) = DExc EVarint /\
  fst (decode_fx 4 (mkScript [] FEOF)) = DExc ETruncated /\
  fst (decode_dl 8 [10%N] true (mkScript [[1%N; 2%N]] (FDataEOF [3%N]))) = DExc ERead.
Proof. vm_compute. repeat split; reflexivity. Qed.

(* C17 — transport wrappers preserve the byte stream for every buffering
   configuration: all four variants (read/write buffer present or not), all
   buffer sizes, all sequences of Write / Writev / Flush, all peer
   fragmentations and caller buffer sizes.  Statements only. *)
From Coq Require Import ZArith List Bool.
From GN Require Import Base.Reader Model.Bufio Proof.Reader_proofs Proof.Bufio_proofs.
Import ListNotations.
Open Scope Z_scope.

(* at every moment: bytes on the connection ++ bytes still buffered = everything
   written so far in call order (buffered and vectored writes never reordered);
   the buffer never exceeds its size; unbuffered variants hold nothing back *)
Theorem c17_write_order : forall wsize ops, WI wsize (wrun wsize ops) (concat (map wpayload ops)).
Proof. exact write_order. Qed.
Print Assumptions c17_write_order.

(* once Flush has returned the peer has exactly the written bytes *)
Theorem c17_flush : forall wsize ops,
  conn_log (wrun wsize (ops ++ [WFlush])) = concat (map wpayload ops) /\ wbuf (wrun wsize (ops ++ [WFlush])) = [].
Proof. exact flush_complete. Qed.
Print Assumptions c17_flush.

Theorem c17_unbuffered : forall wsize ops, wsize <= 0 -> conn_log (wrun wsize ops) = concat (map wpayload ops).
Proof. exact unbuffered_immediate. Qed.
Print Assumptions c17_unbuffered.

(* Read returns exactly the peer's bytes, in order, under any fragmentation of
   the peer's writes (any script) and any caller buffer sizes, for buffered
   (any size; the library enforces >= 16) and unbuffered variants *)
Theorem c17_read_exact : forall rsize r ks, Forall (fun k => 1 <= k) ks ->
  exists st, read_stream rsize r ks = (contents r, st) /\ st <> ROk.
Proof. exact read_exact. Qed.
Print Assumptions c17_read_exact.

Example c17_nonvacuous :
  (* 4-byte write buffer: small write buffered, vectored write overflows it (fill+flush, then direct), flush *)
  flush_points 4 {| conn_log := []; wbuf := [] |} [WWrite [1%N; 2%N]; WWritev [[3%N; 4%N; 5%N]; [6%N; 7%N; 8%N; 9%N; 10%N; 11%N]]; WWrite [12%N]; WFlush]
  = [[1%N; 2%N; 3%N; 4%N; 5%N; 6%N; 7%N; 8%N; 9%N; 10%N; 11%N; 12%N]] /\
  wbuf (wrun 4 [WWrite [1%N; 2%N]; WWritev [[3%N; 4%N; 5%N]]]) = [5%N].
Proof. vm_compute. split; reflexivity. Qed.

(* C17 — transport wrappers preserve the byte stream for every buffering
   configuration: all four variants (read/write buffer present or not), all
   buffer sizes, all sequences of Write / Writev / Flush, all peer
   fragmentations and caller buffer sizes.  Statements only. *)
From Coq Require Import ZArith List Bool.
From GN Require Import Base.Reader Model.Bufio Proof.Reader_proofs Proof.Bufio_proofs.
Import ListNotations.
Open Scope Z_scope.

(* at every moment: bytes on the connection ++ bytes still buffered = everything
   written so far in call order (buffered and vectored writes never reordered);
   the buffer never exceeds its size; unbuffered variants hold nothing back *)
Theorem c17_write_order : forall wsize ops, WI wsize (wrun wsize ops) (concat (map wpayload ops)).
Proof. exact write_order. Qed.
Print Assumptions c17_write_order.

(* once Flush has returned the peer has exactly the written bytes *)
Theorem c17_flush : forall wsize ops,
  conn_log (wrun wsize (ops ++ [WFlush])) = concat (map wpayload ops) /\ wbuf (wrun wsize (ops ++ [WFlush])) = [].
Proof. exact flush_complete. Qed.
Print Assumptions c17_flush.

Theorem c17_unbuffered : forall wsize ops, wsize <= 0 -> conn_log (wrun wsize ops) = concat (map wpayload ops).
Proof. exact unbuffered_immediate. Qed.
Print Assumptions c17_unbuffered.

(* Read returns exactly the peer's bytes, in order, under any fragmentation of
   the peer's writes (any script) and any caller buffer sizes, for buffered
   (any size; the library enforces >= 16) and unbuffered variants *)
Theorem c17_read_exact : forall rsize r ks, Forall (fun k => 1 <= k) ks ->
  exists st, read_stream rsize r ks = (contents r, st) /\ st <> ROk.
Proof. exact read_exact. Qed.
Print Assumptions c17_read_exact.

Example c17_nonvacuous :
  (* 4-byte write buffer: small write buffered, vectored write overflows it (fill+flush, then direct), flush *)
  flush_points 4 {| conn_log := []; wbuf := [] |} [WWrite [1%N; 2%N]; WWritev [[3%N; 4%N; 5%N]; [6%N; 7%N; 8%N; 9%N; 10%N; 11%N]]; WWrite [12%N]; WFlush]
  = [[1%N; 2%N; 3%N; 4%N; 5%N; 6%N; 7%N; 8%N; 9%N; 10%N; 11%N; 12%N]] /\
  wbuf (wrun 4 [WWrite [1%N; 2%N]; WWritev [[3%N; 4%N; 5%N]]]) = [5%N].
Proof. vm_compute. split; reflexivity. Qed.

(* ---- the same wrappers over a connection that FAILS (Model/BufioFault.v, replayed against
   transport.NewTransport by h_bufio): for every buffer size, operation sequence and fault plan (the k-th
   Write on the connection accepts only a bytes and reports an error - a timeout or not) ---- *)
From GN Require Import Model.BufioFault Proof.BufioFault_proofs.
(* after every operation the far end holds a prefix of the bytes the calls reported as accepted, in call
   order; once a Flush has reported success it holds exactly those bytes *)
Theorem c17_faults_call_order : forall wsize plan ops, fholds [] ops (fst (frun wsize (finit plan) ops)).
Proof. exact fault_call_order. Qed.
Print Assumptions c17_faults_call_order.
(* a failed connection write is never papered over: every later operation of a buffered variant accepts
   nothing, changes nothing and reports failure *)
Theorem c17_faults_sticky : forall wsize s o, 0 < wsize -> f_err s = true ->
  exists ok, fstep wsize s o = (0, ok, s) /\ (o <> WWritev [] -> ok = false).
Proof. exact fault_sticky. Qed.
Print Assumptions c17_faults_sticky.
(* without faults this model IS Model/Bufio.v: all operations succeed in full, same connection log and buffer *)
Theorem c17_fault_free_is_bufio : forall wsize ops s w, fsim s w ->
  fsim (snd (frun wsize s ops)) (fold_left (wstep wsize) ops w) /\
  Forall2 (fun o r => r = (blen (wpayload o), true, snd r)) ops (fst (frun wsize s ops)).
Proof. exact fault_free_agrees. Qed.
Print Assumptions c17_fault_free_is_bufio.
Example c17_faults_nonvacuous :
  (* 8-byte buffer; the first connection write (the Flush) accepts 3 of 7 bytes and fails: the 4 others stay
     buffered, the next Write and Flush fail, the far end keeps the 3-byte prefix *)
  fst (frun 8 (finit (Some (O, 3))) [WWrite [1%N; 2%N; 3%N; 4%N; 5%N; 6%N; 7%N]; WFlush; WWrite [8%N]; WFlush])
  = [(7, true, []); (0, false, [1%N; 2%N; 3%N]); (0, false, [1%N; 2%N; 3%N]); (0, false, [1%N; 2%N; 3%N])].
Proof. vm_compute. reflexivity. Qed.

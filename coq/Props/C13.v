(* C13 — Shutdown stops every listener and closes every channel, whenever it is
   called.  Quantifier: every history of Listen/Async, Listener.Close, Connect,
   accepted connections and channel closes, with the steps of Shutdown placed
   at every point (`brun` over every event list; `conn` = a connection arrives
   at that accept).  The model is Model/Boot.v (repaired listener); channel
   Close is atomic there (exactly-once under interleaving is C05).
   Statements only. *)
From Coq Require Import List Arith Bool.
From GN Require Import Model.Boot Proof.Boot_proofs.
Import ListNotations.

(* Once Shutdown has returned and nothing can move any more (even if further
   connections were offered): context cancelled, every channel closed exactly
   once (transport closed once, inactive once), no acceptor open, every accept
   loop ended, every read loop ended. *)
Theorem c13_shutdown_complete : forall nl ths sched, forallb (init_bthread nl) ths = true ->
  let s := brun (binit nl ths) sched in
  sh s = ShDone -> bquiescent s = true ->
  bctx s = true /\ all_channels_closed_once s = true /\ no_open_acceptor s = true /\
  sync_threads_ok s = true /\ chan_threads_done s = true.
Proof. exact shutdown_complete_runs. Qed.
Print Assumptions c13_shutdown_complete.

(* "without any further stimulus": after Shutdown has returned every thread step
   strictly decreases a measure, so quiescence is reached after at most
   `bmeasure s` steps whatever the schedule; and Shutdown itself never blocks. *)
Theorem c13_runs_down : forall nl ths sched i conn s', forallb (init_bthread nl) ths = true ->
  let s := brun (binit nl ths) sched in
  past_listeners (sh s) = true -> bstep s i conn = Some s' -> bmeasure s' < bmeasure s.
Proof. exact runs_down_runs. Qed.
Print Assumptions c13_runs_down.

Theorem c13_shutdown_never_blocks : forall s, sh s <> ShDone -> exists k, shstep s k <> None.
Proof. exact shutdown_never_blocks. Qed.
Theorem c13_batch_shrinks : forall s c s' rem, sh s = ShCloseCh rem -> shstep s (S c) = Some s' ->
  exists rem', sh s' = ShCloseCh rem' /\ length rem' < length rem.
Proof. exact shutdown_batch_shrinks. Qed.

(* an accept loop that ends once the context is cancelled reports server-closed
   (RetDup: a second Sync on a listener whose loop already runs is rejected) *)
Theorem c13_server_closed : forall s i conn s' l pc r, bctx s = true ->
  nth_error (bthreads s) i = Some (BSync l pc) -> (forall r0, pc <> SyDone r0) ->
  bstep s i conn = Some s' -> nth_error (bthreads s') i = Some (BSync l (SyDone r)) ->
  r = RetServerClosed \/ (r = RetDup /\ pc = SyListen /\ l_acc (get_l s l) <> ANone).
Proof. exact sync_ends_server_closed. Qed.
Print Assumptions c13_server_closed.

(* in EVERY reachable state (also while Shutdown runs): nothing is closed twice *)
Theorem c13_never_twice : forall nl ths sched, forallb (init_bthread nl) ths = true ->
  closes_at_most_once (brun (binit nl ths) sched) = true.
Proof. exact never_twice_runs. Qed.
Print Assumptions c13_never_twice.

(* non-vacuity: Listen().Async() immediately followed by Shutdown (the accept loop
   starts only after Shutdown has returned), with a second listener that is already
   accepting and has a connection between accept and activation when Shutdown runs. *)
Definition c13_ths : list bthread := [BListen 0 false; BListen 1 false; BConnect CoServe].
Definition c13_sched : list bev :=
  [EvThread 1 false; EvThread 3 false; EvThread 3 true; EvThread 3 false;   (* listener 1 accepts a connection: thread 4 = its channel *)
   EvThread 0 false;                                                       (* listener 0 registered, its Sync (thread 5) not started *)
   EvThread 2 false;                                                       (* a client channel (thread 6) *)
   EvShutdown 0; EvShutdown 0; EvShutdown 1; EvShutdown 2; EvShutdown 0; EvShutdown 0; EvShutdown 0;
   EvThread 5 false;                                                       (* the late accept loop: refuses to listen *)
   EvThread 4 false; EvThread 4 false; EvThread 3 false; EvThread 3 false;
   EvThread 6 false; EvThread 6 false; EvThread 2 false].
Example c13_late_listener :
  let s := brun (binit 2 c13_ths) c13_sched in
  sh s = ShDone /\ bquiescent s = true /\ length (chans s) = 2 /\
  nth_error (bthreads s) 5 = Some (BSync 0 (SyDone RetServerClosed)) /\
  nth_error (bthreads s) 3 = Some (BSync 1 (SyDone RetServerClosed)) /\
  map l_acc (lsts s) = [ANone; AClosed].
Proof. vm_compute. repeat split; reflexivity. Qed.

(* non-vacuity for Listen error paths: the transport factory's Listen fails for the first Sync of listener 0
   (nothing bound; the listener STAYS registered), the user calls Async again on the same Listener, that accept
   loop starts - and Shutdown, finding the listener in the registry, closes its acceptor: the loop ends with the
   server-closed error.  (A listener unregistered by the failed attempt would be left accepting for ever.) *)
Example c13_listen_failure_then_retry :
  let s := brun (binit 1 [BListen 0 false; BRetry 0 false])
             [EvThread 0 false; EvThread 2 true; EvThread 1 false; EvThread 3 false;
              EvShutdown 0; EvShutdown 0; EvShutdown 1; EvShutdown 0; EvShutdown 0; EvShutdown 0; EvThread 3 false] in
  sh s = ShDone /\ bquiescent s = true /\ no_open_acceptor s = true /\
  bthreads s = [BListen 0 true; BRetry 0 true; BSync 0 (SyDone RetListenErr); BSync 0 (SyDone RetServerClosed)].
Proof. vm_compute. repeat split; reflexivity. Qed.

(* C20 — idle handlers fire only after a full idle period and never after
   inactive.  Model: Model/Idle.v (both handlers; a "message" is the handler's
   update of its last-read / last-write time).  Quantifier: every timed history
   (`irun` over every event list: messages just before/after expiry, bursts,
   silence, inactive anywhere in the callback, overlapping callbacks,
   panicking event handlers).  "Delivered only when" is read at the callback's
   decision instant (the clock read under the read lock).  Statements only. *)
From Coq Require Import List NArith Bool Arith.
From GN Require Import Model.Idle Proof.Idle_proofs.
Import ListNotations.
Open Scope N_scope.

(* the invariant holds in every reachable state *)
Theorem c20_reachable : forall idle0 h, IInv (irun (iinit idle0) h).
Proof. exact reachable_inv. Qed.

(* (1) only after a full idle period since every earlier message and since activation *)
Theorem c20_full_period : forall s i t s', IInv s -> istep s (EDecide i t) = Some s' ->
  nth_error (cbs s') i = Some (CbTrigger t) -> hctx s = true /\ forall m, In m (msgs s) -> m + idle s <= t.
Proof. exact decide_full_period. Qed.
Print Assumptions c20_full_period.
Theorem c20_full_period_final : forall s, IInv s -> full_period_ok s = true.
Proof. exact full_period_holds. Qed.

(* (1b) and it keeps being delivered while idleness persists *)
Theorem c20_timer_never_lost : forall s, IInv s -> hctx s = true -> armed s <> None \/ (in_flight s > 0)%nat.
Proof. exact timer_never_lost. Qed.
Theorem c20_fire_enabled : forall s dl t, armed s = Some dl -> now s <= t -> dl <= t -> istep s (EFire t) <> None.
Proof. exact fire_enabled. Qed.
Theorem c20_decide_delivers : forall s i t, nth_error (cbs s) i = Some CbDecide -> hctx s = true -> now s <= t ->
  last s + idle s <= t -> exists s', istep s (EDecide i t) = Some s' /\ nth_error (cbs s') i = Some (CbTrigger t).
Proof. exact decide_delivers. Qed.
Theorem c20_callback_steps_enabled : forall s i t, now s <= t ->
  (nth_error (cbs s) i = Some CbDecide -> istep s (EDecide i t) <> None) /\
  (forall d p, nth_error (cbs s) i = Some (CbTrigger d) -> istep s (ETrigger i t p) <> None) /\
  (nth_error (cbs s) i = Some CbRearm -> istep s (ERearm i t) <> None).
Proof. exact callback_steps_enabled. Qed.
Theorem c20_rearm_arms : forall s i t s', istep s (ERearm i t) = Some s' -> tfield s = true -> armed s' = Some (t + idle s).
Proof. exact rearm_arms. Qed.
Print Assumptions c20_timer_never_lost.

(* (2) once inactive has passed: timer released, nothing fires any more, only callbacks past their decision deliver *)
Theorem c20_after_inactive : forall s n k, IInv s -> inactive_at s = Some (n, k) ->
  tfield s = false /\ armed s = None /\ (forall t, istep s (EFire t) = None) /\ (length (out s) <= n + k)%nat.
Proof. exact after_inactive. Qed.
Print Assumptions c20_after_inactive.
(* at most ONE such event when callbacks do not overlap (the event's handlers return before the timer fires again) *)
Theorem c20_one_event_after_inactive : forall h1 t h2 idle0,
  let s1 := irun (iinit idle0) h1 in
  irun_serial (iinit idle0) h1 = true -> inactive_at s1 = None ->
  forall s2, istep s1 (EInactive t) = Some s2 ->
  let s := irun s2 h2 in (length (out s) <= length (out s1) + 1)%nat.
Proof. exact one_event_after_inactive. Qed.
Print Assumptions c20_one_event_after_inactive.

(* (3) a panic in the event's handlers is routed, never escapes the timer goroutine *)
Theorem c20_never_crashes : forall h idle0, crashed (irun (iinit idle0) h) = false.
Proof. exact never_crashes. Qed.

(* non-vacuity: idle = 10; active at 0; a message at 4 re-arms; the timer fires at 14; a message at 15 slips in
   before the decision (no event); next firing at 26 delivers, its handlers panic; inactive arrives while the
   third callback is past its decision: exactly one more event, then nothing can fire *)
Example c20_example :
  let s := irun (iinit 10) c20_hist in
  out s = [(26, 27); (38, 40)] /\ excs s = 1%nat /\ inactive_at s = Some (1%nat, 1%nat) /\ armed s = None /\
  irun_serial (iinit 10) c20_hist = true.
Proof. exact c20_example_holds. Qed.

(* C07 — handler panics and transport failures are contained and routed as
   exceptions.  Dispatch.v interprets invokeMethod's recover, handlerContext's
   own recover under ctx.Write / ctx.Trigger, AsException and the close on a
   non-timeout net.Error for EVERY handler table: a panic can be raised at any
   handler position, for any event kind, with any of the value kinds.  The
   premise "exception handlers do not themselves panic" is hs_safe / exc_safe.
   Statements only. *)
From Coq Require Import List Bool Arith.
From GN Require Import Model.Dispatch Model.Chan Model.Life Proof.Dispatch_proofs Proof.Dispatch2_proofs Proof.Life_proofs Proof.Chan3_proofs.
Import ListNotations.

(* a panic never escapes into the caller of Channel.Write / Channel.Trigger, the read loop's
   body or the active / inactive delivery: invokeMethod always returns normally *)
Theorem c07_contained : forall hs closed body, hs_safe hs -> snd (invoke hs closed body) = Done.
Proof. exact invoke_contained. Qed.
Print Assumptions c07_contained.
Theorem c07_ctx_write_contained : forall all pre_rev, exc_safe all -> snd (ctx_write all pre_rev) = Done.
Proof. exact ctx_write_contained. Qed.
Print Assumptions c07_ctx_write_contained.
Theorem c07_ctx_trigger_contained : forall all pre_rev suffix, exc_safe all -> snd (ctx_trigger all pre_rev suffix) = Done.
Proof. exact ctx_trigger_contained. Qed.
Print Assumptions c07_ctx_trigger_contained.

(* exactly one exception, in pipeline order up to the first handler that does not forward; if
   none consumes it the channel is closed with that exception; a non-timeout net.Error closes too *)
Theorem c07_routed_once : forall hs t v, Forall simple_x (removelast (tl (contexts hs))) ->
  exists (mids : list ctx) n, tl (contexts hs) = mids ++ [((n, tail_h) : ctx)] /\
  invoke hs false (t, Escaped v) =
  (t ++ (map (visit KException) (route KException mids) ++
         (if all_forward KException mids then [TChanClose (as_exception v)] else [])) ++
        (if closes_on v then [TChanClose (XSame v)] else []), Done).
Proof. exact invoke_routes. Qed.
Print Assumptions c07_routed_once.

(* the panic value itself when it is an error; wrapped otherwise *)
Theorem c07_as_exception : forall v, match v with PStr _ => as_exception v = XWrapped v | _ => as_exception v = XSame v end.
Proof. exact as_exception_identity. Qed.
Print Assumptions c07_as_exception.

(* on a closed channel the panic is swallowed and nothing else happens *)
Theorem c07_closed_swallows : forall hs t v, invoke hs true (t, Escaped v) = (t, Done).
Proof. exact invoke_closed_swallows. Qed.
Print Assumptions c07_closed_swallows.

(* a failing transport write in the background sender: the token is released and the
   channel is closed with the transport's error (transcribed step of channel.writeOnce's recover) *)
Theorem c07_sender_failure : forall s i h cont ch s', nth_error (threads s) i = Some (TSender SRecover h cont) ->
  step s i ch = Some s' ->
  running s' = false /\ nth_error (threads s') i = Some (TCloser CCas {| c_err := 1; c_polls := 0 |} cont).
Proof. exact sender_failure_step. Qed.
Print Assumptions c07_sender_failure.

(* a failing transport read that no handler swallows closes the channel and ends the read loop *)
Theorem c07_read_failure : forall prog, life_ok (life_run prog) = true.
Proof. exact life_run_ok. Qed.
Print Assumptions c07_read_failure.

(* non-vacuity: the second of three handlers panics with a string while a read is delivered; the
   first exception handler forwards, the last one consumes: no close, the channel stays usable *)
Definition mkh (id : nat) (c : kind -> bool) (b : kind -> beh) : handler := {| hid := id; caps := c; behav := b |}.
Example c07_nonvacuous :
  let hs := [mkh 1 (fun _ => true) (fun _ => BForward);
             mkh 2 (fun _ => true) (fun k => match k with KRead => BPanic (PStr 7) | KException => BForward | _ => BForward end);
             mkh 3 (fun _ => true) (fun k => match k with KException => BStop | _ => BForward end)] in
  read_loop_step hs false =
  ([TVisit 1 1 KRead; TVisit 2 2 KRead; TVisit 1 1 KException; TVisit 2 2 KException; TVisit 3 3 KException], Done).
Proof. vm_compute. reflexivity. Qed.

(* the exception is first seen by the first exception handler FROM THE HEAD (pipeline order):
   this is the clause the harness evaluates directly on every observed routing trace *)
Theorem c07_exception_from_head : forall hs x,
  PipeCheck.exc_from_head hs (map PipeCheck.oev_of (fst (exc_run (contexts hs) x))) = true.
Proof. exact exception_first_seen_from_head. Qed.
Print Assumptions c07_exception_from_head.

(* "afterwards the channel remains usable unless it was closed", synchronous channel
   (Model/SyncChan.v, replayed against the real channel by h_chan with injected transport failures):
   the write lock is released on EVERY path, also when transport.Write/Writev/Flush fails - so a write
   call that has not returned is either able to step, or waits for a lock holder that is able to step;
   in a state where nothing can step every call has returned; and no execution is infinite *)
From GN Require Import Model.SyncChan Proof.SyncChan_proofs.
Theorem c07_sync_lock_always_released : forall s i t, SInv s -> nth_error (sc_threads s) i = Some t -> y_finished t = false ->
  y_enabled s i = true \/ exists j, sc_lock s = Some j /\ j <> i /\ y_enabled s j = true.
Proof. exact sync_progress. Qed.
Print Assumptions c07_sync_lock_always_released.
Theorem c07_sync_invariant_reachable : forall ths sched, sc_wf ths = true -> SInv (sc_run (sc_init ths) sched).
Proof. exact (fun ths sched H => sinv_run sched _ (sinv_init ths H)). Qed.
Theorem c07_sync_no_deadlock : forall s, SInv s -> (forall i, y_enabled s i = false) ->
  forall i t, nth_error (sc_threads s) i = Some t -> y_finished t = true.
Proof. exact sync_quiescent_all_done. Qed.
Print Assumptions c07_sync_no_deadlock.
Theorem c07_sync_no_infinite_execution : forall sched s s', all_runs s sched = Some s' ->
  length sched + y_meas (sc_threads s') <= y_meas (sc_threads s).
Proof. exact sync_no_infinite_execution. Qed.
Print Assumptions c07_sync_no_infinite_execution.
(* non-vacuity: the first write fails in the transport (injected), the second writer then gets the lock and succeeds *)
Example c07_sync_nonvacuous :
  let s := sc_run (sc_init [YWriter [1] YCheck []; YWriter [2] YCheck []])
             [YRun 0 false; YRun 0 false; YRun 1 false; YRun 0 true; YRun 1 false; YRun 1 false; YRun 1 false] in
  sc_tlog s = [2] /\ sc_lock s = None /\
  sc_threads s = [YWriter [] YCheck [(1, YFail)]; YWriter [] YCheck [(2, YOk)]].
Proof. vm_compute. repeat split; reflexivity. Qed.

(* C06 — graceful close delivers every payload accepted before Close.
   Quantifier of the property: all interleavings of writers that FINISH BEFORE
   Close starts, the background sender (including its release / re-acquire
   window) and the closing goroutines; queue sizes 1..N; both wait modes.
   The theorem is stated for the Close call that takes effect, at the moment it
   is about to close the transport, for every schedule from every reachable
   state in which all writers have returned.  `in_grace` = the channel waits for
   pending writes, or fewer than 10 grace polls were used (the documented
   bound).  Statements only. *)
From Coq Require Import List Arith Bool.
From GN Require Import Model.Chan Proof.Chan_proofs Proof.Chan2_proofs Proof.Chan3_proofs.
Import ListNotations.

Theorem c06_graceful_close : forall s0 sched, Inv s0 -> Win s0 -> RetInv s0 -> quiet s0 -> QInv s0 ->
  let s := run s0 sched in
  forall i cs o, nth_error (threads s) i = Some (TCloser CTClose cs o) -> in_grace s cs = true ->
  (forall p, In p (returned s) -> In p (concat (tlog s))) /\ unflushed s = 0 /\
  queue s = [] /\ hands (threads s) = [] /\ tclosed s = 0.
Proof. exact graceful_close_all_schedules. Qed.
Print Assumptions c06_graceful_close.

(* the hypotheses are invariants: they hold in every reachable state *)
Theorem c06_hyps_reachable : forall qc until ths sched, forallb init_thread ths = true ->
  Inv (run (init qc until ths) sched) /\ Win (run (init qc until ths) sched) /\ RetInv (run (init qc until ths) sched).
Proof.
  intros qc until ths sched H. split; [apply inv_run, inv_init; exact H|].
  split; [apply win_run, win_init; exact H|apply retinv_run, retinv_init; exact H].
Qed.
Print Assumptions c06_hyps_reachable.

(* the two reads of Close's wait condition: queue seen empty, then flag seen idle *)
Theorem c06_wait_condition_sound : forall s i ch s', Inv s -> Win s -> quiet s -> QInv s -> step s i ch = Some s' -> QInv s'.
Proof. exact qinv_step. Qed.
Print Assumptions c06_wait_condition_sound.

(* non-vacuity: the window that lost a packet before the repair.  The sender has
   flushed but not released; the writer enqueues 2, its CAS fails, it returns;
   the sender releases; the closer CASes `closed`, sees the queue NON-empty,
   takes the send token itself and drains; only then does it close. *)
Definition c06_ths : list thread :=
  [TWriter [{| cid := 1; ckind := KWrite1; cctx_done := false |}; {| cid := 2; ckind := KWrite1; cctx_done := false |}] WCheck [];
   TCloser CCas {| c_err := 5; c_polls := 0 |} None].
Example c06_window :
  let s := run (init 2 false c06_ths)
             (map (fun i => Run i CAuto) [0;0;0;0; 2;2;2;2;2;2; 0;0;0; 2; 1;1;1; 1;1;1;1;1;1;1;1; 1;1]) in
  nth_error (threads s) 1 = Some (TCloser CTClose {| c_err := 5; c_polls := 0 |} None) /\
  tlog s = [[1]; [2]] /\ returned s = [1; 2] /\ unflushed s = 0 /\ tclosed s = 0.
Proof. vm_compute. repeat split; reflexivity. Qed.

(* the grace period the theorem speaks of is the one in the source NOW: the poll bound and the batch
   capacity are extracted from /repo/channel.go on every run (Gen/Consts.v) *)
From GN Require Import Gen.Consts Proof.Consts_ok.
Theorem c06_grace_period_is_source : forall s cs, in_grace s cs = orb (until_write s) (c_polls cs <? grace_polls_src).
Proof. exact grace_polls_is_source. Qed.
Theorem c06_grace_is_ten_times_100ms : grace_polls_src = 10 /\ grace_sleep_ms_src = 100.
Proof. exact grace_is_ten_times_100ms. Qed.

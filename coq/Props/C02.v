(* C02 — no stranded writes: whenever nothing can run any more (all write calls
   returned, every sender finished or never needed) every payload whose call
   reported success is on the transport and flushed.  For EVERY schedule, every
   queue size, any number of writers, executor start-up delayed arbitrarily (a
   spawned sender is just another thread the schedule may starve).  The
   "eventually" of the property: a blocked writer always leaves some other
   thread enabled (c02_no_deadlock), and the lost-wake-up window is closed by
   the invariant I_wake.  Statements only. *)
From Coq Require Import List Arith Bool.
From GN Require Import Model.Chan Proof.Chan_proofs Proof.Chan2_proofs.
Import ListNotations.

(* no lost wake-up: while the transport is open, a non-empty queue always has
   someone who will look at it - the token owner, a writer between enqueue and
   its CAS, or a sender between release and re-acquire *)
Theorem c02_no_lost_wakeup : forall s, Inv s -> tclosed s = 0 -> queue s <> [] -> 0 < cnt wakes (threads s).
Proof. exact I_wake. Qed.
Print Assumptions c02_no_lost_wakeup.

(* ... and every such thread can take a step *)
Theorem c02_waker_enabled : forall s i t, Inv s -> nth_error (threads s) i = Some t -> wakes t = true -> enabled s i = true.
Proof. exact waker_enabled. Qed.
Print Assumptions c02_waker_enabled.

Theorem c02_quiescent_delivered : forall s, Inv s -> tclosed s = 0 -> quiescent s = true ->
  queue s = [] /\ running s = false /\ unflushed s = 0 /\ accepted s = concat (tlog s).
Proof. exact quiescent_delivered. Qed.
Print Assumptions c02_quiescent_delivered.

(* instantiated for every reachable state of every configuration *)
Theorem c02_all_schedules : forall qc until ths sched, forallb init_thread ths = true ->
  let s := run (init qc until ths) sched in
  tclosed s = 0 -> quiescent s = true ->
  queue s = [] /\ running s = false /\ unflushed s = 0 /\ accepted s = concat (tlog s).
Proof. intros qc until ths sched H s. apply quiescent_delivered. apply inv_run, inv_init. exact H. Qed.
Print Assumptions c02_all_schedules.

Theorem c02_no_deadlock : forall s i c l res, Inv s -> tclosed s = 0 -> qcap s > 0 ->
  nth_error (threads s) i = Some (TWriter (c :: l) WSelect res) -> enabled s i = false ->
  exists j, j <> i /\ enabled s j = true.
Proof. exact no_deadlock. Qed.
Print Assumptions c02_no_deadlock.

(* non-vacuity: the lost-wake-up window.  The sender has flushed and released;
   the sender has flushed but not yet released (flag still set): the writer
   enqueues, its CAS fails, it returns success; the sender releases, RE-CHECKS the
   queue, re-acquires and sends the packet.  Without the re-check it would be stranded. *)
Definition w1 : list thread := [TWriter [{| cid := 1; ckind := KWrite1; cctx_done := false |}; {| cid := 2; ckind := KWrite1; cctx_done := false |}] WCheck []].
Example c02_window :
  let s := run (init 2 false w1) (map (fun i => Run i CAuto) [0;0;0;0; 1;1;1;1;1;1; 0;0;0; 1;1;1; 1;1;1;1;1;1;1]) in
  quiescent s = true /\ tlog s = [[1]; [2]] /\ unflushed s = 0.
Proof. vm_compute. repeat split; reflexivity. Qed.

(* "eventually": on an open channel to which nothing else is done (no Close, no cancellation, the transport
   accepts writes: `Calm`) every step of a writer or sender strictly decreases the lexicographic measure
   (enqueues still to come, weighted work) - so there is no infinite execution, the channel comes to rest
   whatever the schedule, and at rest (quiescent) everything accepted has been written and flushed (above). *)
From GN Require Import Proof.ChanTerm_proofs.
Theorem c02_every_step_descends : forall s i ch s', Calm s -> step s i ch = Some s' -> Calm s' /\ lexlt s' s.
Proof. exact calm_step. Qed.
Theorem c02_no_infinite_execution : forall s, Acc cstep s.
Proof. exact calm_terminates. Qed.
Theorem c02_calm_runs : forall qc until ths sched, forallb writer_thread ths = true -> forallb run_only sched = true ->
  Calm (run (init qc until ths) sched).
Proof. exact calm_runs_init. Qed.
Print Assumptions c02_no_infinite_execution.

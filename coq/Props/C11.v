(* C11 — writes on a closed channel fail and transmit nothing, whatever error
   Close was given (the model's c_err 0 is Close(nil)).  Statements only. *)
From Coq Require Import List Arith Bool.
From GN Require Import Model.Chan Proof.Chan_proofs Proof.Chan2_proofs.
Import ListNotations.

(* once the closed flag is set it stays set *)
Theorem c11_closed_monotone : forall s i ch s', step s i ch = Some s' -> closed s = true -> closed s' = true.
Proof. exact closed_mono. Qed.
Print Assumptions c11_closed_monotone.

(* when ANY Close call has returned - the one that took effect or one that lost
   the race and returned at once - the flag is set; also whenever a closer is
   past its CAS *)
Theorem c11_close_returned_closed : forall s i ch s', ClosedInv s -> step s i ch = Some s' -> ClosedInv s'.
Proof. exact closedinv_step. Qed.
Print Assumptions c11_close_returned_closed.

(* a write entry point that begins with the flag set (or the context ended:
   parent cancellation without any Close) fails at its first step: the call
   returns the close error, nothing is enqueued, accepted or transmitted *)
Theorem c11_write_after_close_fails : forall s i c l res ch s', closedErr s = true ->
  nth_error (threads s) i = Some (TWriter (c :: l) WCheck res) -> step s i ch = Some s' ->
  nth_error (threads s') i = Some (TWriter l WCheck (res ++ [(cid c, RClosed)])) /\
  queue s' = queue s /\ accepted s' = accepted s /\ tlog s' = tlog s /\ running s' = running s.
Proof. exact write_on_closed_fails. Qed.
Print Assumptions c11_write_after_close_fails.

(* no call ever reports success without its payload having been accepted:
   error results are exactly the non-accepted ones (C01) *)
Theorem c11_no_false_success : forall qc until ths sched i t p, forallb init_thread ths = true -> wf_cids ths ->
  nth_error (threads (run (init qc until ths) sched)) i = Some t ->
  In p (rejected t) \/ In p (pending t) -> ~ In p (accepted (run (init qc until ths) sched)).
Proof. exact error_not_accepted. Qed.
Print Assumptions c11_no_false_success.

Example c11_nonvacuous :
  (* Close(nil) runs to completion, then a writer starts: RClosed, nothing sent; same after a parent cancel *)
  let ths := [TCloser CCas {| c_err := 0; c_polls := 0 |} None;
              TWriter [{| cid := 7; ckind := KCtxWrite1; cctx_done := false |}] WCheck []] in
  let s := run (init 2 true ths) (map (fun i => Run i CAuto) [0;0;0;0;0;0;0;0; 1]) in
  creturned s = true /\ tlog s = [] /\
  (match nth_error (threads s) 1 with Some (TWriter _ _ res) => res = [(7, RClosed)] | _ => False end) /\
  (match nth_error (threads (run (init 2 true ths) [ParentCancel; Run 1 CAuto])) 1 with
   | Some (TWriter _ _ res) => res = [(7, RClosed)] | _ => False end).
Proof. vm_compute. repeat split; reflexivity. Qed.

(* synchronous channel (Model/SyncChan.v, replayed against the real channel by h_chan): once ANY Close
   call has returned - the one that took effect, or one that lost the race and returned while the winner
   is still inside transport.Close, before the context is cancelled - the closed flag is set, and a write
   entry point that starts then returns the close error, leaves the lock alone and transmits nothing *)
From GN Require Import Model.SyncChan Proof.SyncChan_proofs.
Theorem c11_sync_close_returned_closed : forall ths sched, sc_wf ths = true ->
  let s := sc_run (sc_init ths) sched in sc_creturned s = true -> sc_closed s = true.
Proof. exact (fun ths sched H => K_ret _ (kinv_run sched _ (kinv_init ths H))). Qed.
Print Assumptions c11_sync_close_returned_closed.
Theorem c11_sync_write_after_close_fails : forall s i c rest res f, KInv s -> sc_creturned s = true ->
  nth_error (sc_threads s) i = Some (YWriter (c :: rest) YCheck res) ->
  exists s', sc_step s (YRun i f) = Some s' /\
    nth_error (sc_threads s') i = Some (YWriter rest YCheck (res ++ [(c, YClosed)])) /\
    sc_tlog s' = sc_tlog s /\ sc_lock s' = sc_lock s /\ sc_flushed s' = sc_flushed s.
Proof. exact sync_write_after_close. Qed.
Print Assumptions c11_sync_write_after_close_fails.
Theorem c11_sync_returned_is_stable : forall s e s', sc_step s e = Some s' -> sc_creturned s = true -> sc_creturned s' = true.
Proof. exact creturned_mono. Qed.
(* non-vacuity: closer 0 wins the flag and is parked INSIDE transport.Close (context not yet cancelled); closer 1
   loses and returns; the writer that starts now is refused and nothing reaches the transport *)
Example c11_sync_nonvacuous :
  let s := sc_run (sc_init [YCloser 5 KCas; YCloser 6 KCas; YWriter [7] YCheck []])
             [YRun 0 false; YRun 0 false; YRun 0 false; YRun 1 false; YRun 2 false] in
  sc_creturned s = true /\ sc_ctx s = false /\ sc_tclosed s = 0 /\ sc_tlog s = [] /\
  nth_error (sc_threads s) 2 = Some (YWriter [] YCheck [(7, YClosed)]).
Proof. vm_compute. repeat split; reflexivity. Qed.

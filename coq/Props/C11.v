(* C11 — writes on a closed channel fail and transmit nothing, whatever error
   Close was given (the model's c_err 0 is Close(nil)).  Statements only. *)
From Coq Require Import List Arith Bool.
From GN Require Import Model.Chan Proof.Chan_proofs Proof.Chan2_proofs.
Import ListNotations.

(* once the closed flag is set it stays set *)
Theorem c11_closed_monotone : forall s i ch s', step s i ch = Some s' -> closed s = true -> closed s' = true.
Proof. exact closed_mono. Qed.
Print Assumptions c11_closed_monotone.

(* when ANY Close call has returned - the one that took effect or one that lost
   the race and returned at once - the flag is set; also whenever a closer is
   past its CAS *)
Theorem c11_close_returned_closed : forall s i ch s', ClosedInv s -> step s i ch = Some s' -> ClosedInv s'.
Proof. exact closedinv_step. Qed.
Print Assumptions c11_close_returned_closed.

(* a write entry point that begins with the flag set (or the context ended:
   parent cancellation without any Close) fails at its first step: the call
   returns the close error, nothing is enqueued, accepted or transmitted *)
Theorem c11_write_after_close_fails : forall s i c l res ch s', closedErr s = true ->
  nth_error (threads s) i = Some (TWriter (c :: l) WCheck res) -> step s i ch = Some s' ->
  nth_error (threads s') i = Some (TWriter l WCheck (res ++ [(cid c, RClosed)])) /\
  queue s' = queue s /\ accepted s' = accepted s /\ tlog s' = tlog s /\ running s' = running s.
Proof. exact write_on_closed_fails. Qed.
Print Assumptions c11_write_after_close_fails.

(* no call ever reports success without its payload having been accepted:
   error results are exactly the non-accepted ones (C01) *)
Theorem c11_no_false_success : forall qc until ths sched i t p, forallb init_thread ths = true -> wf_cids ths ->
  nth_error (threads (run (init qc until ths) sched)) i = Some t ->
  In p (rejected t) \/ In p (pending t) -> ~ In p (accepted (run (init qc until ths) sched)).
Proof. exact error_not_accepted. Qed.
Print Assumptions c11_no_false_success.

Example c11_nonvacuous :
  (* Close(nil) runs to completion, then a writer starts: RClosed, nothing sent; same after a parent cancel *)
  let ths := [TCloser CCas {| c_err := 0; c_polls := 0 |} None;
              TWriter [{| cid := 7; ckind := KCtxWrite1; cctx_done := false |}] WCheck []] in
  let s := run (init 2 true ths) (map (fun i => Run i CAuto) [0;0;0;0;0;0;0;0; 1]) in
  creturned s = true /\ tlog s = [] /\
  (match nth_error (threads s) 1 with Some (TWriter _ _ res) => res = [(7, RClosed)] | _ => False end) /\
  (match nth_error (threads (run (init 2 true ths) [ParentCancel; Run 1 CAuto])) 1 with
   | Some (TWriter _ _ res) => res = [(7, RClosed)] | _ => False end).
Proof. vm_compute. repeat split; reflexivity. Qed.

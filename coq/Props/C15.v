(* C15 — HTTP server codec: one well-formed response per request, in order.
   Model: Model/Http.v (repaired code).  Quantifiers: every request sequence
   (any number, any bodies, any Connection wish) crossed with every handler
   program (any interleaving of WriteHeader / Write of any bytes / Flush, any
   amount of the request body read, any of the three framing modes).
   The request line / header text and net/http's request parser are abstract
   (a request head is a token, a response head a record); the BODY framing is
   at byte level, including the hexadecimal chunk-size lines.
   Statements only. *)
From Coq Require Import List NArith Bool Arith.
From GN Require Import Model.Http Proof.Http_proofs.
Import ListNotations.
Open Scope N_scope.

(* the connection loop serves exactly the requests on the wire, once each and in order, each handler
   invocation seeing its own body (the prefix it chose to read), until the first response after which
   the connection has to be closed *)
Theorem c15_one_per_request_in_order : forall qs, serve_conn qs = spec_conn qs.
Proof. exact serve_conn_spec. Qed.
Print Assumptions c15_one_per_request_in_order.

(* every handler program yields exactly one head, first, with the handler's status; the body framed
   according to the mode; nothing left unflushed *)
Theorem c15_writer_output : forall m d prog,
  let evs := run_writer m d prog in
  heads_of evs = [the_head m d prog] /\
  wire_of evs = enc_body m (body_of_prog prog) ++ enc_end m /\
  last evs WFlush = WFlush /\ exists tl, evs = WHead (the_head m d prog) :: tl.
Proof. exact writer_output. Qed.
Print Assumptions c15_writer_output.

(* a standard parser reads the body back exactly (Content-Length: that many bytes; chunked: the hexadecimal
   framing decodes to the concatenated writes for every size; neither: everything until the close) and
   finds the next response where this one ends *)
Theorem c15_body_roundtrip : forall m prog rest,
  (match m with MNone => rest = [] | _ => True end) ->
  let ws := body_of_prog prog in
  let h := the_head m (N.of_nat (length (concat ws))) prog in
  read_body h ((enc_body m ws ++ enc_end m) ++ rest) = Some (concat ws, rest).
Proof. exact body_roundtrip. Qed.
Print Assumptions c15_body_roundtrip.
Theorem c15_hex_roundtrip : forall n rest, match rest with [] => True | c :: _ => hexval c = None end ->
  parse_hex 0 (to_hex n ++ rest) = (n, rest) /\ exists c l, to_hex n = c :: l /\ hexval c <> None.
Proof. exact parse_to_hex. Qed.

(* the connection is closed last of all (after the final flush of the last response), and kept open after a
   response iff the request did not ask to close it and the response is self-delimiting *)
Theorem c15_close_is_last : forall qs, exists evs, spec_conn qs = evs ++ [CClose] /\ ~ In CClose evs.
Proof. exact close_is_last. Qed.
Theorem c15_keep_alive_iff : forall q r,
  (should_close q = false <-> (q_close q = false /\ q_mode q <> MNone)) /\
  (should_close q = false -> exists x y, spec_conn (q :: r) = x :: y :: spec_conn r).
Proof. exact keep_alive_iff. Qed.
Print Assumptions c15_close_is_last.

(* non-vacuity: a POST whose 5-byte body the handler leaves unread, answered chunked with an explicit Flush
   between two writes, followed by a pipelined GET answered with Content-Length, then a closing request *)
Example c15_example : c15_example_stmt.
Proof. exact c15_example_holds. Qed.

(* the response HEAD at byte level: the status line "HTTP/maj.min code OK" and the header block as WriteHeader
   prints them are read back exactly (status, every header name and value, and the position where the body
   starts) for all numbers and all well-formed headers (name non-empty without colon / CR, value without CR
   and not starting with a space) *)
From GN Require Import Model.HttpHead Proof.HttpHead_proofs.
Theorem c15_head_roundtrip : forall maj min code hs rest, forallb wf_header hs = true ->
  parse_head (emit_head maj min code hs ++ rest) = Some (maj, min, code, hs, rest).
Proof. exact head_roundtrip. Qed.
Print Assumptions c15_head_roundtrip.

(* C19 — buffer pool: capacity and exclusive ownership hold for every Get/Put
   history; size-class arithmetic consistent up to the platform limit.
   Statements only; every proof is `exact <lemma>`.  The arithmetic these
   theorems speak about (Gen/PMath.v, Gen/PoolArith.v) is re-translated from
   utils/pool on every run. *)
From Coq Require Import ZArith List.
From GN Require Import Base.GoInt Gen.PMath Gen.PoolArith Model.Pool Proof.PMath_proofs Proof.Pool_proofs.
Import ListNotations.
Open Scope Z_scope.

(* power-of-two ceiling: least power of two >= n, for every n up to 2^62 *)
Theorem c19_ceil_spec : forall n, 1 <= n <= 2 ^ 62 ->
  exists c, CeilToPowerOfTwo n = Some c /\ pow2 c /\ n <= c < 2 * n.
Proof. exact ceil_spec. Qed.
Print Assumptions c19_ceil_spec.

(* beyond 2^62 the ceiling is not representable: the function panics, never wraps *)
Theorem c19_ceil_panics : forall n, 2 ^ 62 < n < 2 ^ 63 -> CeilToPowerOfTwo n = None.
Proof. exact ceil_panics. Qed.
Print Assumptions c19_ceil_panics.

Theorem c19_floor_spec : forall n, 1 <= n < 2 ^ 63 ->
  pow2 (FloorToPowerOfTwo n) /\ FloorToPowerOfTwo n <= n < 2 * FloorToPowerOfTwo n.
Proof. exact floor_spec. Qed.
Print Assumptions c19_floor_spec.

Theorem c19_fill_bits : forall n, 0 < n < 2 ^ 63 -> fillBits n = 2 ^ (Z.log2 n + 1) - 1.
Proof. exact fillBits_spec. Qed.
Print Assumptions c19_fill_bits.

Theorem c19_is_pow2 : forall n, 0 < n < 2 ^ 63 -> (IsPowerOfTwo n = true <-> pow2 n).
Proof.
  exact (fun n H => conj (IsPowerOfTwo_pos_pow2 n H) (fun P => pow2_IsPowerOfTwo n P (proj2 H))).
Qed.
Print Assumptions c19_is_pow2.

(* geometry of New(max): the step is a power of two, at most 65 shards *)
Theorem c19_geometry : forall max sh st, 1 <= max <= 2 ^ 62 -> pool_geom max = Some (sh, st) ->
  pow2 st /\ st <= 2 ^ 62 /\ 1 <= sh <= 65.
Proof. exact geom_facts. Qed.
Print Assumptions c19_geometry.

(* shard index is injective on size classes *)
Theorem c19_class_index_inj : forall st a b, 0 < st -> is_class st a -> is_class st b ->
  Z.quot (a - 1) st = Z.quot (b - 1) st -> a = b.
Proof. exact class_index_inj. Qed.
Print Assumptions c19_class_index_inj.

(* MAIN: for every pool size, every history of Get/Put (any sizes, any
   capacities including foreign buffers, any sync.Pool behaviour), every Get
   returns a buffer with cap >= n; Get panics only for n > 2^62. *)
Theorem c19_get_cap : forall max s0 ops, 1 <= max <= 2 ^ 62 -> pool_new max = Some s0 ->
  Forall op_wf ops -> holds_caps ops (snd (prun s0 ops)) = true.
Proof. exact pool_get_cap. Qed.
Print Assumptions c19_get_cap.

(* a buffer that was Put k times is handed out by at most k Gets *)
Theorem c19_exclusive : forall max s0 ops i, pool_new max = Some s0 ->
  (count_hits i ops (snd (prun s0 ops)) <= count_puts i ops)%nat.
Proof. exact pool_exclusive. Qed.
Print Assumptions c19_exclusive.

(* non-vacuity: the default pool exists; a history with a foreign 1500-byte
   buffer, a class-sized buffer that is reused, and a miss *)
Example c19_nonvacuous :
  exists s0, pool_new 65536 = Some s0 /\
  snd (prun s0 [OPut 7%nat 1500; OPut 8%nat 2048; OGet 2000 (Some 8%nat); OGet 2000 None; OGet 70000 None])
  = [RPut false; RPut true; RGot {| bid := 8%nat; bcap := 2048 |} true;
     RGot {| bid := 9%nat; bcap := 2048 |} false; RGot {| bid := 10%nat; bcap := 131072 |} false].
Proof. eexists. split; [reflexivity|]. vm_compute. reflexivity. Qed.

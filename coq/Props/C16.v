(* C16 — text and JSON codecs round-trip and reject malformed frames.
   Text: strings are byte sequences (no UTF-8 assumption anywhere).  JSON:
   encoding/json is standard library and enters as Section variables with two
   named laws (tested on the real library by the harness on every run); the
   theorems are about go-netty's own glue GIVEN those laws - this part is
   labelled partial in MANIFEST.json.  Statements only. *)
From Coq Require Import ZArith List Bool.
From GN Require Import Base.Reader Model.Frame Model.Conv Model.Json Proof.Reader_proofs Proof.Frame_proofs
  Proof.Frame2_proofs Proof.Conv_proofs Proof.Json_proofs.
Import ListNotations.
Open Scope Z_scope.

(* any byte sequence written as a string is handed down unchanged and read back identical *)
Theorem c16_text_roundtrip : forall s, exists m, text_write (MString s) = Some m /\ to_bytes m = Some s /\
  (forall f, text_read (MBytesReader f) = Some f) /\ (forall f, text_read (MBytes f) = Some f).
Proof. exact text_roundtrip. Qed.
Print Assumptions c16_text_roundtrip.

(* composed with a frame codec, under any fragmentation: here the varint codec *)
Theorem c16_text_over_varint : forall max, 0 < max < 2 ^ 62 ->
  forall ss, Forall (fun s => blen s <= max) ss ->
  forall r b, contents r = concat (map (fun s => enc_or_nil (encode_vi max s)) ss) ++ b ->
  exists r', decode_n (decode_vi max) (length ss) r = (ss, None, r') /\ contents r' = b.
Proof. exact vi_roundtrip. Qed.
Print Assumptions c16_text_over_varint.

(* ... and the delimiter codec of the README pipeline, for strings that respect its contract *)
Theorem c16_text_over_delimiter : forall max d, d <> [] ->
  forall ss, Forall (dl_admits max d) ss ->
  forall r b, plain r = true -> contents r = concat (map (encode_dl d) ss) ++ b ->
  exists r', decode_n (decode_dl max d true) (length ss) r = (map (fun p => dl_out d true (p ++ d)) ss, None, r') /\
             contents r' = b.
Proof. exact (fun max d => dl_roundtrip max d true). Qed.
Print Assumptions c16_text_over_delimiter.

(* JSON codec glue, conditional on the two library laws (Section variables of Json_proofs) *)
Theorem c16_json_roundtrip : forall (marshal : jvalue -> option bytes) (decode_first : bool -> bool -> bytes -> jres),
  json_rt_law marshal decode_first ->
  forall n s v w, is_object v = true -> json_write marshal v = Some w ->
  json_read decode_first n s w = JDeliver v.
Proof. exact json_roundtrip. Qed.
Print Assumptions c16_json_roundtrip.

(* a frame that does not begin with a complete valid object raises - the codec's
   own nil-object check is what covers the frame `null`, which the library decodes without error *)
Theorem c16_json_reject : forall (decode_first : bool -> bool -> bytes -> jres) (begins_with_object : bytes -> bool),
  json_reject_law begins_with_object decode_first ->
  forall n s frame, begins_with_object frame = false -> json_read decode_first n s frame = JRaise.
Proof. exact json_reject. Qed.
Print Assumptions c16_json_reject.

Theorem c16_json_null_raises : forall (decode_first : bool -> bool -> bytes -> jres) n s frame,
  decode_first n s frame = JOk JNull -> json_read decode_first n s frame = JRaise.
Proof. exact json_null_raises. Qed.
Print Assumptions c16_json_null_raises.

(* nothing is delivered that the library did not decode from this very frame *)
Theorem c16_json_delivers_only_decoded : forall (decode_first : bool -> bool -> bytes -> jres) n s frame v,
  json_read decode_first n s frame = JDeliver v -> decode_first n s frame = JOk v /\ v <> JNull.
Proof. exact json_delivers_only_decoded. Qed.
Print Assumptions c16_json_delivers_only_decoded.

Example c16_nonvacuous : exists m, text_write (MString [255%N; 0%N; 10%N]) = Some m /\ to_bytes m = Some [255%N; 0%N; 10%N].
Proof. eexists. split; reflexivity. Qed.

(* C04 — frame codecs round-trip or reject; boundaries exact under ANY
   fragmentation.  A fragmentation is a Reader script: the theorems quantify
   over every script whose contents are the concatenated frames (followed by
   arbitrary further bytes b), so every cut of the wire stream into reads,
   empty reads, data delivered together with EOF, is covered.
   Statements only; proofs are `exact <lemma>`. *)
From Coq Require Import ZArith List Bool.
From GN Require Import Base.GoInt Base.Reader Model.Frame Proof.Reader_proofs Proof.Frame_proofs Proof.Frame2_proofs.
Import ListNotations.
Open Scope Z_scope.

(* the fragmentation-independence lemma everything rests on *)
Theorem c04_read_full_any_fragmentation : forall n r a b, contents r = a ++ b -> blen a = n ->
  exists r', read_full n r = (a, ROk, r') /\ contents r' = b /\ (plain r = true -> plain r' = true).
Proof. exact read_full_ok. Qed.
Print Assumptions c04_read_full_any_fragmentation.

(* length fields: pack / unpack are inverse for every width, order and value that fits *)
Theorem c04_field_roundtrip : forall be w v, width_ok w = true -> 0 <= v < field_cap w ->
  unpack be (pack be w v) = v.
Proof. exact unpack_pack. Qed.
Print Assumptions c04_field_roundtrip.

(* length-field decoder: every sequence of frames the configuration admits
   (prefix of `offset` bytes, field = |rest| - adjustment, total <= max,
   strip <= total) is decoded to exactly those frames minus the stripped
   bytes, consuming exactly the frames' bytes (what remains is b). *)
Theorem c04_lenfield_roundtrip : forall c, lf_wf c = true -> lf_sane c ->
  forall fs, Forall (lf_admits c) fs ->
  forall r b, contents r = concat (map (lf_wire c) fs) ++ b ->
  exists r', decode_n (decode_lf c) (length fs) r =
             (map (fun f => bdrop (lf_strip c) (lf_wire c f)) fs, None, r') /\ contents r' = b.
Proof. exact lf_roundtrip. Qed.
Print Assumptions c04_lenfield_roundtrip.

(* an encoder never emits a header that disagrees with its body *)
Theorem c04_encoder_sound : forall c body w, width_ok (pp_w c) = true -> encode_pp c body = Some w ->
  - 2 ^ 61 < pp_adj c < 2 ^ 61 -> blen body < 2 ^ 61 ->
  exists v, w = pack (pp_be c) (pp_w c) v ++ body /\ 0 <= v < field_cap (pp_w c) /\
            unpack (pp_be c) (pack (pp_be c) (pp_w c) v) = v /\
            v = blen body + pp_adj c + (if pp_incl c then pp_w c else 0).
Proof. exact pp_encoder_sound. Qed.
Print Assumptions c04_encoder_sound.

(* stand-alone prepender paired with its matching decoder *)
Theorem c04_prepender_pair : forall c max, width_ok (pp_w c) = true -> - 2 ^ 61 < pp_adj c < 2 ^ 61 -> 0 < max < 2 ^ 61 ->
  forall bodies, Forall (fun body => exists w, encode_pp c body = Some w /\ blen w <= max) bodies ->
  forall r b, contents r = concat (map (fun body => enc_or_nil (encode_pp c body)) bodies) ++ b ->
  exists r', decode_n (decode_lf (pp_decoder c max)) (length bodies) r = (bodies, None, r') /\ contents r' = b.
Proof. exact pp_pair_roundtrip. Qed.
Print Assumptions c04_prepender_pair.

Theorem c04_uvarint_roundtrip : forall v r b, 0 <= v < 2 ^ 64 -> contents r = uvarint v ++ b ->
  exists r', read_uvarint r = (Some v, r') /\ contents r' = b /\ (plain r = true -> plain r' = true).
Proof. exact read_uvarint_ok. Qed.
Print Assumptions c04_uvarint_roundtrip.

Theorem c04_varint_roundtrip : forall max, 0 < max < 2 ^ 62 ->
  forall bodies, Forall (fun body => blen body <= max) bodies ->
  forall r b, contents r = concat (map (fun body => enc_or_nil (encode_vi max body)) bodies) ++ b ->
  exists r', decode_n (decode_vi max) (length bodies) r = (bodies, None, r') /\ contents r' = b.
Proof. exact vi_roundtrip. Qed.
Print Assumptions c04_varint_roundtrip.

(* delimiter: the contract (dl_admits) is that the first place where p ++ d
   ends with d is its very end and that the frame fits max.  `plain`: bytes do
   not arrive together with EOF (what a net.Conn guarantees); the decoder reads
   byte-wise and treats any error, even one that comes with a byte, as fatal. *)
Theorem c04_delimiter_roundtrip : forall max d strip, d <> [] ->
  forall ps, Forall (dl_admits max d) ps ->
  forall r b, plain r = true -> contents r = concat (map (encode_dl d) ps) ++ b ->
  exists r', decode_n (decode_dl max d strip) (length ps) r = (map (fun p => dl_out d strip (p ++ d)) ps, None, r') /\
             contents r' = b.
Proof. exact dl_roundtrip. Qed.
Print Assumptions c04_delimiter_roundtrip.

Theorem c04_delimiter_strip : forall d p, dl_out d true (p ++ d) = p.
Proof. exact dl_out_strip. Qed.
Print Assumptions c04_delimiter_strip.

Theorem c04_fixed_roundtrip : forall len, 0 <= len ->
  forall fs, Forall (fun f => blen f = len) fs ->
  forall r b, contents r = concat fs ++ b ->
  exists r', decode_n (decode_fx len) (length fs) r = (fs, None, r') /\ contents r' = b.
Proof. exact fx_roundtrip. Qed.
Print Assumptions c04_fixed_roundtrip.

(* non-vacuity: a configuration with offset, negative adjustment and strip
   admits concrete frames; decoding them from a 1/2/3-byte fragmentation with
   empty reads yields exactly the stripped frames *)
Definition ex_cfg := {| lf_be := true; lf_max := 64; lf_off := 1; lf_w := 2; lf_adj := -1; lf_strip := 1 |}.
Definition ex_f1 := {| fr_pre := [9%N]; fr_rest := [1%N; 2%N; 3%N] |}.
Definition ex_f2 := {| fr_pre := [7%N]; fr_rest := [] |}.
Example c04_nonvacuous :
  lf_wf ex_cfg = true /\ lf_sane ex_cfg /\ lf_admits ex_cfg ex_f1 /\
  lf_wire ex_cfg ex_f1 = [9%N; 0%N; 4%N; 1%N; 2%N; 3%N] /\
  decode_n (decode_lf ex_cfg) 2
    (mkScript [[9%N]; []; [0%N; 4%N; 1%N]; [2%N]; [3%N; 7%N; 0%N]; [1%N]] FEOF)
  = ([[0%N; 4%N; 1%N; 2%N; 3%N]; [0%N; 1%N]], None, mkScript [] FEOF).
Proof.
  split; [reflexivity|]. split; [unfold lf_sane; cbn; split; [reflexivity|split; reflexivity]|].
  split; [unfold lf_admits, lf_value; cbn; repeat split; discriminate|].
  split; [reflexivity|]. vm_compute. reflexivity.
Qed.

(* C10 — write snapshot semantics: buffer reuse and pool recycling never alter
   sent bytes.  Model/Snap.v: buffers with identities, a heap, the pool's free
   list, queued packets, pool users; an execution is ANY sequence of the atomic
   operations (all interleavings of writers, callers overwriting their buffers,
   goroutines that Get / scribble / Put pooled buffers, and the sender).
   Statements only. *)
From Coq Require Import List Arith Bool.
From GN Require Import Model.Snap Proof.Snap_proofs.
Import ListNotations.

(* what the transport received for a call = what the caller's buffer held when the call was made *)
Theorem c10_snapshot : forall h ops, Forall (fun e => snd (fst e) = snd e) (sent (srun (sinit h) ops)).
Proof. exact snapshot_semantics. Qed.
Print Assumptions c10_snapshot.

(* a pooled buffer is never at once in the pool, in the queue and with a user;
   it returns to the pool only through the send that transmitted it *)
Theorem c10_ownership : forall h ops b, occ b (srun (sinit h) ops) <= 1.
Proof. exact exclusive_ownership. Qed.
Print Assumptions c10_ownership.

Theorem c10_invariant : forall s o s', SI s -> sstep s o = Some s' -> SI s'.
Proof. exact si_step. Qed.
Print Assumptions c10_invariant.

(* non-vacuity: the caller overwrites its buffer right after the call; a pool user grabs
   the recycled buffer after the first send and scribbles; both sends still carry the original bytes *)
Example c10_nonvacuous :
  let h : heap := fun b => if Nat.eqb b 100 then [1; 2; 3] else [] in
  sent (srun (sinit h) [SWrite 1 100 None; SScribble 100 [9; 9; 9]; SWrite 2 100 None; SSend;
                        SGet 7 (Some 1); SUserWrite 7 1 [5; 5]; SSend; SPut 7 1])
  = [(1, [1; 2; 3], [1; 2; 3]); (2, [9; 9; 9], [9; 9; 9])].
Proof. vm_compute. reflexivity. Qed.

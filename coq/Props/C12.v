(* C12 — no data races in the concurrently usable API.
   (1) Every access site the translator extracted from /repo's current source
       (Gen/Access.v, regenerated on every run) obeys the policy: finite domain,
       decided by computation.
   (2) For EVERY trace (any length, any number of goroutines and objects) of the
       synchronisation model in which accesses are instances of those sites made
       with the site's locks really held, there is no race on any in-contract
       field.  Statements only. *)
From Coq Require Import List Arith Bool.
From GN Require Import Model.Lockset Gen.Access Model.LockPolicy Proof.Lockset_proofs Proof.LockInst_proofs.
Import ListNotations.

Theorem c12_sites_ok : c12_bad_sites = [].
Proof. vm_compute. reflexivity. Qed.
Print Assumptions c12_sites_ok.

(* the sender token: writeOnce is entered only where CompareAndSwap(running, idle, running) has just succeeded *)
Theorem c12_token_calls_ok : c12_bad_calls = [].
Proof. vm_compute. reflexivity. Qed.

Theorem c12_race_free : forall c x, wf_c c -> follows the_policy sites c -> owner_discipline the_policy sites c ->
  p_prot the_policy (snd x) <> POut -> ~ race_on c x.
Proof. exact c12_race_free_sites. Qed.
Print Assumptions c12_race_free.

(* the general theorem behind it: any policy, any site table *)
Theorem c12_lockset_sound : forall pol sites c x, wf_c c -> follows pol sites c -> owner_discipline pol sites c ->
  forallb (site_ok pol) sites = true -> p_prot pol (snd x) <> POut -> ~ race_on c x.
Proof. exact lockset_sound. Qed.
Print Assumptions c12_lockset_sound.

(* non-vacuity: Listener.Close (goroutine 2) overlapping the accept loop's listen() (goroutine 1)
   on listener object 7 is a well-formed trace that follows the sites *)
Example c12_close_vs_listen : wf_c c12_trace /\ follows the_policy sites c12_trace /\ owner_discipline the_policy sites c12_trace.
Proof. exact c12_trace_ok. Qed.

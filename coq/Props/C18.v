(* C18 — back-pressure: non-blocking mode never blocks; blocking mode is
   cancellable; accepted-but-unsent payloads are bounded.  Statements only. *)
From Coq Require Import List Arith Bool.
From GN Require Import Model.Chan Proof.Chan_proofs Proof.Chan2_proofs.
Import ListNotations.

(* non-blocking mode: whatever the state (full queue, stalled sender, closing
   channel) a write call can always take its next step *)
Theorem c18_nonblocking_never_parks : forall s i c l pc res, until_write s = false ->
  nth_error (threads s) i = Some (TWriter (c :: l) pc res) -> exists s', step s i CAuto = Some s'.
Proof. exact nonblocking_never_parks. Qed.
Print Assumptions c18_nonblocking_never_parks.

(* the queue-full error only when the queue really is full and no context has ended; nothing is enqueued *)
Theorem c18_nospace_only_when_full : forall s i c l res ch s',
  nth_error (threads s) i = Some (TWriter (c :: l) WSelect res) -> step s i ch = Some s' ->
  nth_error (threads s') i = Some (TWriter l WCheck (res ++ [(cid c, RNoSpace)])) ->
  qcap s <= length (queue s) /\ until_write s = false /\ cctx_done c = false /\ ctx_done s = false /\
  queue s' = queue s /\ accepted s' = accepted s.
Proof. exact nospace_only_when_full. Qed.
Print Assumptions c18_nospace_only_when_full.

(* blocking mode: parked exactly while the queue is full and neither the caller's nor the channel's context has ended *)
Theorem c18_blocking_waits : forall s i c l res, until_write s = true ->
  nth_error (threads s) i = Some (TWriter (c :: l) WSelect res) ->
  (step s i CAuto = None <-> (qcap s <= length (queue s) /\ cctx_done c = false /\ ctx_done s = false)).
Proof. exact blocking_parks_iff. Qed.
Print Assumptions c18_blocking_waits.

(* a select that ends with an error (context ended, channel closed, queue full) transmits nothing *)
Theorem c18_error_transmits_nothing : forall s i c l res ch s' r,
  nth_error (threads s) i = Some (TWriter (c :: l) WSelect res) -> step s i ch = Some s' ->
  nth_error (threads s') i = Some (TWriter l WCheck (res ++ [(cid c, r)])) ->
  queue s' = queue s /\ accepted s' = accepted s /\ tlog s' = tlog s.
Proof. exact select_error_no_accept. Qed.
Print Assumptions c18_error_transmits_nothing.

(* at all times: queue within its capacity, the sender's batch within writeQueueSize/2+1 *)
Theorem c18_bound : forall s i ch s', Bound s -> step s i ch = Some s' -> Bound s'.
Proof. exact bound_step. Qed.
Print Assumptions c18_bound.

(* a blocked writer never blocks the system (see C02) *)
Theorem c18_blocked_writer_not_alone : forall s i c l res, Inv s -> tclosed s = 0 -> qcap s > 0 ->
  nth_error (threads s) i = Some (TWriter (c :: l) WSelect res) -> enabled s i = false ->
  exists j, j <> i /\ enabled s j = true.
Proof. exact no_deadlock. Qed.
Print Assumptions c18_blocked_writer_not_alone.

Example c18_nonvacuous :
  (* queue of 1, non-blocking: second call finds the queue full -> RNoSpace; blocking: parked *)
  let w := [TWriter [{| cid := 1; ckind := KWrite1; cctx_done := false |}; {| cid := 2; ckind := KWrite1; cctx_done := false |}] WCheck []] in
  (match nth_error (threads (run (init 1 false w) (map (fun i => Run i CAuto) [0;0;0;0;0;0]))) 0 with
   | Some (TWriter _ _ res) => res = [(1, ROk); (2, RNoSpace)] | _ => False end) /\
  step (run (init 1 true w) (map (fun i => Run i CAuto) [0;0;0;0;0])) 0 CAuto = None.
Proof. vm_compute. split; reflexivity. Qed.

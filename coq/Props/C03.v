(* C03 — pipeline order and event routing match the handler-list model.
   Layer 1 (Pipeline.v): the doubly linked list as the code builds it refines
   the list specification, from both ends, for EVERY operation sequence.
   Layer 2 (Dispatch.v): routing over that list for every handler table.
   Statements only; proofs are `exact <lemma>`. *)
From Coq Require Import ZArith List Bool Arith.
From GN Require Import Model.Pipeline Model.Dispatch Proof.Pipeline_proofs Proof.Pipeline2_proofs Proof.Dispatch_proofs.
Import ListNotations.

(* after any sequence of AddFirst/AddLast/AddHandler (multi-handler calls, any
   positions; an illegal position panics before changing anything, and the
   specification fails at the same operations) walking `next` from the head
   yields head, the specified handlers in order, tail; walking `prev` from the
   tail yields the reverse; size agrees *)
Theorem c03_links : forall (H : Type) (ops : list (op H)),
  match spec_ops H ops with
  | Some l => exists p mids, run_ops H ops = Some p /\
                fwd H p = Some (0 :: mids ++ [1]) /\ bwd H p = Some (rev (0 :: mids ++ [1])) /\
                map (handler_at H p) (0 :: mids ++ [1]) = None :: map Some l ++ [None] /\
                size H p = length l + 2
  | None => run_ops H ops = None
  end.
Proof. exact pipeline_refines. Qed.
Print Assumptions c03_links.

(* the invariant is preserved by every single operation (so c03_links also holds
   for pipelines that keep growing) *)
Theorem c03_op_refines : forall (H : Type) p mids l (o : op H), Rep H p mids l ->
  match spec_op H l o with
  | Some l' => exists p' mids', apply_op H p o = Some p' /\ Rep H p' mids' l'
  | None => apply_op H p o = None
  end.
Proof. exact apply_op_rep. Qed.
Print Assumptions c03_op_refines.

(* IndexOf, LastIndexOf, ContextAt agree with the list, from both ends, incl. -1 / out of range *)
Theorem c03_queries : forall (H : Type) p mids l (comp : option H -> bool), Rep H p mids l ->
  index_of H p comp = Some (find_idx comp (None :: map Some l ++ [None]) 0%Z) /\
  last_index_of H p comp = Some (find_idx_down comp (rev (None :: map Some l ++ [None])) (Z.of_nat (length l + 2) - 1)%Z) /\
  (forall k, k < length l + 2 -> context_at H p (Z.of_nat k) = Some (Some (nth k (0 :: mids ++ [1]) 0))) /\
  context_at H p (-1)%Z = Some None /\ (forall z, (Z.of_nat (length l + 2) <= z)%Z -> context_at H p z = Some None).
Proof. exact queries_refine. Qed.
Print Assumptions c03_queries.

(* inbound events (active, read, inactive): exactly the handlers implementing the
   interface, in order, up to and including the first that does not forward *)
Theorem c03_inbound : forall all k suffix pre_rev, Forall (simple k) suffix ->
  in_run all k pre_rev suffix = (map (visit k) (route k suffix), Done).
Proof. exact in_run_route. Qed.
Print Assumptions c03_inbound.
Theorem c03_event : forall all suffix pre_rev, Forall (simple KEvent) suffix ->
  evt_run all pre_rev suffix = (map (visit KEvent) (route KEvent suffix), Done).
Proof. exact evt_run_route. Qed.
Print Assumptions c03_event.

(* outbound: tail to head; forwarded past the first handler it is written to the channel *)
Theorem c03_outbound : forall pre_rev, Forall simple_w pre_rev ->
  out_run (pre_rev ++ [(0, head_h)]) =
  (map (visit KWrite) (route KWrite pre_rev) ++ (if all_forward KWrite pre_rev then [TChanWrite] else []), Done).
Proof. exact out_run_route. Qed.
Print Assumptions c03_outbound.

(* an exception forwarded past the last exception handler closes the channel, once *)
Theorem c03_exception_tail : forall x n suffix, Forall simple_x suffix ->
  exc_run (suffix ++ [(n, tail_h)]) x =
  (map (visit KException) (route KException suffix) ++
   (if all_forward KException suffix then [TChanClose x] else []), Done).
Proof. exact exc_run_route. Qed.
Print Assumptions c03_exception_tail.

(* a context's Write/Trigger only reaches the contexts it is given (those before /
   after its own position), and each at most once *)
Theorem c03_ctx_entry : forall k l, incl (route k l) l.
Proof. exact route_incl. Qed.
Print Assumptions c03_ctx_entry.
Theorem c03_once : forall k l, NoDup (map fst l) -> NoDup (map fst (route k l)).
Proof. exact route_once. Qed.
Print Assumptions c03_once.

(* non-vacuity: a 7-handler pipeline built with all three operations, including a
   middle insertion of three handlers, and an illegal position that panics *)
Example c03_nonvacuous :
  spec_ops nat [OAddLast nat [1; 2]; OAddFirst nat [3; 4]; OAddHandler nat 2%Z [5; 6; 7]] = Some [4; 3; 5; 6; 7; 1; 2] /\
  option_map (map (fun o => match o with Some x => x | None => 0 end))
    (match run_ops nat [OAddLast nat [1; 2]; OAddFirst nat [3; 4]; OAddHandler nat 2%Z [5; 6; 7]] with
     | Some p => bwd_handlers nat p | None => None end) = Some [0; 2; 1; 7; 6; 5; 3; 4; 0] /\
  run_ops nat [OAddLast nat [1]; OAddHandler nat 3%Z [2]] = None.
Proof. vm_compute. repeat split; reflexivity. Qed.

(* C14 — accepted outbound types are sent byte-exact; conversions preserve
   content.  `head_write` is the head handler's type switch together with
   Channel.ReadFrom's streaming loop and the WriterTo path; its low-level calls
   are what C01 proves to reach the transport once, in order, intact.
   Statements only; proofs are `exact <lemma>`. *)
From Coq Require Import ZArith List Bool.
From GN Require Import Base.Reader Model.Conv Proof.Reader_proofs Proof.Conv_proofs.
Import ListNotations.
Open Scope Z_scope.

(* for every accepted message - any content, any size, any reader behaviour -
   the payloads of the low-level writes concatenate to exactly the message *)
Theorem c14_head_exact : forall m calls st, head_write m = Some (calls, st) ->
  concat (map lpayload calls) = content m.
Proof. exact head_exact. Qed.
Print Assumptions c14_head_exact.

(* ... and the write succeeds unless the message is a reader that fails *)
Theorem c14_head_status : forall m calls st, head_write m = Some (calls, st) ->
  (match m with MReader r => final r = FErr | _ => False end -> st = RErr) /\
  (match m with MReader r => final r <> FErr | _ => True end -> st = ROk).
Proof. exact head_status. Qed.
Print Assumptions c14_head_status.

Theorem c14_unsupported : head_write MOther = None /\ forall s, head_write (MString s) = None.
Proof. exact head_unsupported. Qed.
Print Assumptions c14_unsupported.

(* ReadFrom: chunks of 1..1024 bytes, in order, nothing lost - also the bytes
   that arrive together with EOF, and everything read before a failure *)
Theorem c14_read_from : forall r, let '(cs, st) := read_from r in
  concat cs = contents r /\ Forall (fun c => 0 < blen c <= 1024) cs /\
  (final r <> FErr -> st = ROk) /\ (final r = FErr -> st = RErr).
Proof. exact read_from_spec. Qed.
Print Assumptions c14_read_from.

Theorem c14_to_bytes : forall m, m <> MOther -> reader_ok m -> to_bytes m = Some (content m).
Proof. exact to_bytes_ok. Qed.
Print Assumptions c14_to_bytes.
Theorem c14_to_bytes_sound : forall m b, to_bytes m = Some b -> b = content m.
Proof. exact to_bytes_sound. Qed.
Print Assumptions c14_to_bytes_sound.
Theorem c14_to_reader : forall m r, to_reader m = Some r -> contents r = content m.
Proof. exact to_reader_ok. Qed.
Print Assumptions c14_to_reader.
Theorem c14_count_of : forall bs, count_of bs = blen (concat bs).
Proof. exact count_of_spec. Qed.
Print Assumptions c14_count_of.

(* byte-wise reading: exactly the stream's bytes in order, then an error;
   whatever the fragmentation, empty reads, data delivered with EOF *)
Theorem c14_byte_reader : forall r, exists st, read_bytes r = (contents r, st) /\ st <> ROk.
Proof. exact read_bytes_ok. Qed.
Print Assumptions c14_byte_reader.
Theorem c14_read_byte : forall r x b, contents r = x :: b ->
  exists r', read_byte r = (Some x, ROk, r') /\ contents r' = b /\ (plain r = true -> plain r' = true).
Proof. exact read_byte_ok. Qed.
Print Assumptions c14_read_byte.

(* byte stealing = to_bytes on WriterTo inputs *)
Theorem c14_steal : forall steps, to_bytes (MWriterTo steps) = Some (concat steps).
Proof. reflexivity. Qed.
Print Assumptions c14_steal.

Example c14_nonvacuous :
  (* a 2500-byte reader delivered as 1000 + (0,nil) + 1499 + last byte with EOF: three chunks <= 1024 ... *)
  let r := mkScript [repeat 7%N 1000; []; repeat 8%N 1499] (FDataEOF [9%N]) in
  map (fun c => match c with LWrite1 p => blen p | _ => -1 end) (fst (match head_write (MReader r) with Some x => x | None => ([], RErr) end))
  = [1000; 1024; 475; 1] /\ fst (read_bytes (mkScript [[1%N]; []] (FDataEOF [2%N]))) = [1%N; 2%N].
Proof. vm_compute. split; reflexivity. Qed.

(* ReadFrom's streaming chunk is the constant in the source NOW (Gen/Consts.v) *)
From GN Require Import Gen.Consts Proof.Consts_ok.
Theorem c14_read_chunk_is_source : read_chunk_src = 1024%N.
Proof. exact read_chunk_is_1024. Qed.

(* GENERATED: constants *)

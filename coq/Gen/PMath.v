(* GENERATED on every run by /verif/gen from utils/pool/internal/pmath/pmath.go — do not edit. *)
From Coq Require Import ZArith Bool.
From GN Require Import Base.GoInt.
Open Scope Z_scope.

Definition c_bitsize : Z := 64.
Definition c_maxint : Z := 9223372036854775807.
Definition c_maxintHeadBit : Z := 4611686018427387904.

Definition IsPowerOfTwo (v_n : Z) : bool :=
  (Z.eqb (g_and v_n (g_sub v_n 1)) 0).

Definition Identity (v_n : Z) : Z :=
  v_n.

Definition fillBits (v_n : Z) : Z :=
  let v_n := (g_or v_n (g_shr v_n 1)) in
  let v_n := (g_or v_n (g_shr v_n 2)) in
  let v_n := (g_or v_n (g_shr v_n 4)) in
  let v_n := (g_or v_n (g_shr v_n 8)) in
  let v_n := (g_or v_n (g_shr v_n 16)) in
  let v_n := (g_or v_n (g_shr v_n 32)) in
  v_n.

Definition CeilToPowerOfTwo (v_n : Z) : option Z :=
  (if (andb (negb (Z.eqb (g_and v_n c_maxintHeadBit) 0)) (Z.ltb c_maxintHeadBit v_n)) then None
  else (if (Z.leb v_n 2) then Some v_n
  else let v_n := g_sub v_n 1 in
  let v_n := (fillBits v_n) in
  let v_n := g_add v_n 1 in
  Some v_n)).

Definition FloorToPowerOfTwo (v_n : Z) : Z :=
  (if (Z.leb v_n 2) then v_n
  else let v_n := (fillBits v_n) in
  let v_n := (g_shr v_n 1) in
  let v_n := g_add v_n 1 in
  v_n).

Definition Max (v_a v_b : Z) : Z :=
  (if (Z.ltb v_a v_b) then v_b
  else v_a).

Definition Min (v_a v_b : Z) : Z :=
  (if (Z.ltb v_a v_b) then v_a
  else v_b).

(* GENERATED: access table *)

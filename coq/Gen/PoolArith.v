(* GENERATED on every run by /verif/gen from utils/pool/generic.go — do not edit. *)
From Coq Require Import ZArith Bool.
From GN Require Import Base.GoInt.
Open Scope Z_scope.

From GN Require Import Gen.PMath.

Inductive get_plan := GTry (idx n : Z) (els : get_plan) | GMiss (n : Z) | GPanic.
Inductive put_plan := PStore (idx : Z) | PDrop | PPanic.

(* New(max): Some (number of shards, stepSize), None = panic *)
Definition pool_geom (v_max : Z) : option (Z * Z) :=
  match (CeilToPowerOfTwo (Max v_max 1)) with None => None | Some v_maxSize =>
  let v_shardSize := (Max 1 (Min v_maxSize 64)) in
  match (CeilToPowerOfTwo (g_quot v_maxSize v_shardSize)) with None => None | Some v_stepSize =>
  let v_shardSize := (if (Z.ltb (g_mul v_stepSize v_shardSize) v_maxSize) then let v_shardSize := g_add v_shardSize 1 in
  v_shardSize else v_shardSize) in
  Some (v_shardSize, v_stepSize) end end.

(* the size-class closure stored in Pool.size *)
Definition pool_size (v_stepSize v_i : Z) : option Z :=
  (if (Z.leb v_i v_stepSize) then Some v_stepSize
  else (CeilToPowerOfTwo v_i)).

(* Get(size): which shard is tried and the size reported *)
Definition pool_get (v_shards v_stepSize v_size : Z) : get_plan :=
  match (pool_size v_stepSize v_size) with None => GPanic | Some v_n =>
  let v_idx := (g_quot (g_sub v_n 1) v_stepSize) in
  (if (Z.ltb v_idx v_shards) then GTry v_idx v_n (GMiss v_n)
  else GMiss v_n) end.

(* Put(x, size): where the object is stored, if anywhere *)
Definition pool_put (v_shards v_stepSize v_size : Z) : put_plan :=
  (if (orb (Z.ltb v_size v_stepSize) (negb (IsPowerOfTwo v_size))) then PDrop
  else let v_idx := (g_quot (g_sub v_size 1) v_stepSize) in
  (if (Z.ltb v_idx v_shards) then PStore v_idx
  else PDrop)).

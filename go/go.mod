module verifharness

go 1.18

require github.com/go-netty/go-netty v0.0.0

replace github.com/go-netty/go-netty => /repo

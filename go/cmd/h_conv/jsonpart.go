package main

import (
	"bytes"
	"encoding/json"
	"fmt"
	"reflect"
	"strings"

	netty "github.com/go-netty/go-netty"
	"github.com/go-netty/go-netty/codec/format"
	"verifharness/hx"
	"verifharness/mock"
)

// random JSON trees whose numbers are literals (json.Number)
func genValue(rng *hx.Rng, depth int) interface{} {
	k := rng.Intn(8)
	if depth <= 0 && k >= 6 {
		k = rng.Intn(6)
	}
	switch k {
	case 0:
		return nil
	case 1:
		return rng.Bool()
	case 2:
		return json.Number([]string{"0", "-1", "9007199254740993", "18446744073709551615", "-9223372036854775808", "123456789012345678901234567890"}[rng.Intn(6)])
	case 3:
		return json.Number([]string{"1.5", "-0.25", "1e21", "3.141592653589793238", "1E-7"}[rng.Intn(5)])
	case 4, 5:
		return genKey(rng)
	case 6:
		n := rng.Intn(4)
		arr := make([]interface{}, n)
		for i := range arr {
			arr[i] = genValue(rng, depth-1)
		}
		return arr
	}
	return genObject(rng, depth-1)
}
func genKey(rng *hx.Rng) string {
	if rng.Chance(20) {
		// text that LOOKS like JSON escapes (a literal backslash followed by u003c ...), HTML characters, line separators
		toks := []string{"\\", "u003c", "u0026", "u003e", "<", ">", "&", "\"", "n", "u00", "\u2028", "\u2029", "é", "/"}
		var sb strings.Builder
		for i, n := 0, 1+rng.Intn(6); i < n; i++ {
			sb.WriteString(toks[rng.Intn(len(toks))])
		}
		return sb.String()
	}
	return []string{"", "a", "key", "é中", "with\"quote", "esc\\n\n\t", "\u0000nul", "<html>&", "k" + fmt.Sprint(rng.Intn(1000))}[rng.Intn(9)]
}
func genObject(rng *hx.Rng, depth int) map[string]interface{} {
	o := map[string]interface{}{}
	for i, n := 0, rng.Intn(5); i < n; i++ {
		o[genKey(rng)] = genValue(rng, depth)
	}
	return o
}

type jcase struct {
	Lib   string `json:"lib"`   // what encoding/json did with the frame: obj | null | err
	Codec string `json:"codec"` // what the codec did: deliver | raise
	Frame string `json:"frame"`
}

// run the codec's HandleRead on a frame
func jsonRead(frame []byte, useNumber, strict bool, carrier int) (obj map[string]interface{}, delivered bool, exc string) {
	defer func() {
		if e := recover(); e != nil {
			exc = fmt.Sprint(e)
		}
	}()
	c := format.JSONCodec(useNumber, strict)
	ctx := &mock.Ctx{OnRead: func(m netty.Message) { obj, delivered = m.(map[string]interface{}), true }}
	var msg interface{} = frame
	switch carrier {
	case 1:
		msg = string(frame)
	case 2:
		msg = bytes.NewReader(frame)
	case 3:
		msg = strings.NewReader(string(frame))
	}
	c.HandleRead(ctx, msg)
	return
}

func libDecode(frame []byte, useNumber bool) (string, map[string]interface{}) {
	d := json.NewDecoder(bytes.NewReader(frame))
	if useNumber {
		d.UseNumber()
	}
	o := make(map[string]interface{})
	if err := d.Decode(&o); err != nil {
		return "err", nil
	}
	if o == nil {
		return "null", nil
	}
	return "obj", o
}

func jsonPart(rng *hx.Rng, meta *hx.Meta, n int) (cases []string) {
	emit := func(j jcase) {
		cases = append(cases, fmt.Sprintf("(%s, J%s, J%s)", hx.Nat(len(cases)), j.Lib, j.Codec))
		meta.CaseIndex["j"+fmt.Sprint(len(cases)-1)] = j
	}
	// ---- round trips ----
	for i := 0; i < n; i++ {
		v := genObject(rng, 3)
		useNumber, strict := rng.Bool(), rng.Bool()
		meta.Count("json_flags", fmt.Sprintf("useNumber=%v,strict=%v", useNumber, strict))
		var wireB []byte
		func() {
			defer func() { recover() }()
			c := format.JSONCodec(useNumber, strict)
			c.HandleWrite(&mock.Ctx{OnWrite: func(m netty.Message) { wireB = m.([]byte) }}, v)
		}()
		meta.Evaluations++
		carrier := rng.Intn(4)
		obj, delivered, exc := jsonRead(wireB, useNumber, strict, carrier)
		lib, libObj := libDecode(wireB, useNumber)
		emit(jcase{Lib: lib, Codec: map[bool]string{true: "deliver", false: "raise"}[delivered], Frame: string(wireB)})
		rep := map[string]interface{}{"json_frame": wireB, "useNumber": useNumber}
		// library law json_rt (hypothesis of c16_json_roundtrip), tested on the real encoding/json
		if useNumber && !(lib == "obj" && reflect.DeepEqual(libObj, v)) {
			meta.Notes = append(meta.Notes, "HYPOTHESIS json_rt failed on the real library for "+string(wireB))
			meta.Violate(hx.Violation{Property: "C16", What: "library law json_rt does not hold for " + trunc(string(wireB)), Signature: "json-hypothesis", Replay: rep})
		}
		want := libObj
		if !delivered || exc != "" || !reflect.DeepEqual(obj, want) || (useNumber && !reflect.DeepEqual(obj, v)) {
			meta.Violate(hx.Violation{Property: "C16", What: fmt.Sprintf("JSON object %s not received equal (delivered=%v exc=%s)", trunc(string(wireB)), delivered, exc), Signature: "json-roundtrip", Replay: rep})
		}
		if i < 2 {
			meta.Sample(map[string]interface{}{"json": string(wireB), "useNumber": useNumber})
		}
		meta.Distinct("json" + string(wireB))
	}
	// ---- malformed frames ----
	bad := []string{"null", " null ", "[1]", "5", "\"x\"", "true", "", "{", "{\"a\":", "{\"a\":1", "{\"a\" 1}", "nul", "}{", "\x00", "{\"a\":1]", "[{\"a\":1}]", "{'a':1}", "{\"a\":01}", "\xff\xfe"}
	for i := 0; i < n; i++ {
		f := bad[rng.Intn(len(bad))]
		if rng.Chance(30) { // truncate a valid object
			b, _ := json.Marshal(genObject(rng, 2))
			if len(b) > 2 {
				f = string(b[:1+rng.Intn(len(b)-1)])
			}
		}
		useNumber := rng.Bool()
		_, delivered, _ := jsonRead([]byte(f), useNumber, rng.Bool(), rng.Intn(4))
		lib, _ := libDecode([]byte(f), useNumber)
		meta.Evaluations++
		meta.Count("json_malformed", map[bool]string{true: "delivered", false: "raised"}[delivered])
		emit(jcase{Lib: lib, Codec: map[bool]string{true: "deliver", false: "raise"}[delivered], Frame: f})
		// independent judgement: does the frame begin with one complete valid object?
		begins := beginsWithObject([]byte(f))
		if !begins && delivered {
			meta.Violate(hx.Violation{Property: "C16", What: fmt.Sprintf("frame %q does not begin with a complete valid JSON object but was delivered", trunc(f)), Signature: "json-reject",
				Replay: map[string]interface{}{"json_frame": []byte(f), "useNumber": useNumber}})
		}
		// library law json_reject
		if !begins && lib == "obj" {
			meta.Violate(hx.Violation{Property: "C16", What: "library law json_reject does not hold for " + trunc(f), Signature: "json-hypothesis", Replay: map[string]interface{}{"json_frame": []byte(f)}})
		}
		meta.Distinct("bad" + f)
	}
	// valid object followed by garbage is delivered (the statement allows it)
	obj, delivered, _ := jsonRead([]byte("{\"a\":1}xyz"), true, false, 0)
	if !delivered || len(obj) != 1 {
		meta.Notes = append(meta.Notes, "object followed by garbage was not delivered")
	}
	return
}

// first JSON value of the frame is a complete valid object (RawMessage keeps this independent of the map target)
func beginsWithObject(frame []byte) bool {
	d := json.NewDecoder(bytes.NewReader(frame))
	var raw json.RawMessage
	if err := d.Decode(&raw); err != nil {
		return false
	}
	t := bytes.TrimLeft(raw, " \t\r\n")
	return len(t) > 0 && t[0] == '{'
}

package main

import (
	"encoding/binary"

	netty "github.com/go-netty/go-netty"
	"github.com/go-netty/go-netty/codec/frame"
)

func frameCodecFor(choice, n int) interface {
	HandleRead(netty.InboundContext, netty.Message)
	HandleWrite(netty.OutboundContext, netty.Message)
} {
	switch choice {
	case 0:
		return frame.VarintLengthFieldCodec(1 << 20)
	case 1:
		return frame.LengthFieldCodec(binary.BigEndian, 1<<20, 0, 4, 0, 4)
	case 2:
		return frame.DelimiterCodec(1<<20, "\r\n", true)
	}
	return frame.FixedLengthCodec(n)
}

// h_conv: correspondence harness for C14 (outbound types sent byte-exact,
// conversion helpers preserve content) and the text part of C16.
package main

import (
	"bufio"
	"bytes"
	"context"
	"fmt"
	"github.com/go-netty/go-netty/utils/pool/pbytes"
	"io"
	"os"
	"strings"

	netty "github.com/go-netty/go-netty"
	"github.com/go-netty/go-netty/codec/format"
	"github.com/go-netty/go-netty/utils"
	"verifharness/hx"
	"verifharness/mock"
	"verifharness/wire"
)

// message specification shared with Coq (ConvCheck.mspec)
type mspec struct {
	Kind   string         `json:"kind"` // bytes vec buffer string bytesreader stringsreader writerto reader other
	P      []wire.Piece   `json:"p,omitempty"`
	Ps     [][]wire.Piece `json:"ps,omitempty"`
	Script *wire.Script   `json:"script,omitempty"`
	Reuse  bool           `json:"reuse,omitempty"` // writerto: reuse one buffer between Writes
}

func (m mspec) coq() string {
	pp := func(ps [][]wire.Piece) string {
		xs := make([]string, len(ps))
		for i := range ps {
			xs[i] = wire.CoqPieces(ps[i])
		}
		return hx.List(xs)
	}
	switch m.Kind {
	case "bytes":
		return "SBytes " + wire.CoqPieces(m.P)
	case "vec":
		return "SVec " + pp(m.Ps)
	case "buffer":
		return "SBuffer " + wire.CoqPieces(m.P)
	case "string":
		return "SString " + wire.CoqPieces(m.P)
	case "bytesreader":
		return "SBytesReader " + wire.CoqPieces(m.P)
	case "stringsreader":
		return "SStringsReader " + wire.CoqPieces(m.P)
	case "writerto":
		return "SWriterTo " + pp(m.Ps)
	case "reader":
		return fmt.Sprintf("SReader %s %s %s", wire.CoqPieces(m.Script.Wire), m.Script.CutsCoq(), m.Script.FinCoq())
	}
	return "SOther"
}

// a WriterTo that is not an io.Reader; optionally hands the same backing
// array to successive Writes (what bufio.Reader does)
type stepWriter struct {
	steps [][]byte
	reuse bool
}

func (s *stepWriter) WriteTo(w io.Writer) (int64, error) {
	var n int64
	buf := make([]byte, 0, 70000)
	for _, st := range s.steps {
		p := st
		if s.reuse {
			buf = append(buf[:0], st...)
			p = buf
		}
		k, err := w.Write(p)
		n += int64(k)
		if err != nil {
			return n, err
		}
	}
	return n, nil
}

type onlyReader struct{ r io.Reader }

func (o onlyReader) Read(p []byte) (int, error) { return o.r.Read(p) }

type other struct{ X int }

func (m mspec) value() interface{} {
	switch m.Kind {
	case "bytes":
		return wire.Cat(m.P)
	case "vec":
		var v [][]byte
		for _, p := range m.Ps {
			v = append(v, wire.Cat(p))
		}
		return v
	case "buffer":
		return bytes.NewBuffer(append([]byte(nil), wire.Cat(m.P)...))
	case "string":
		return string(wire.Cat(m.P))
	case "bytesreader":
		return bytes.NewReader(wire.Cat(m.P))
	case "stringsreader":
		return strings.NewReader(string(wire.Cat(m.P)))
	case "writerto":
		sw := &stepWriter{reuse: m.Reuse}
		for _, p := range m.Ps {
			sw.steps = append(sw.steps, wire.Cat(p))
		}
		return sw
	case "reader":
		return onlyReader{m.Script.Reader()}
	}
	return other{7}
}

func sizes(rng *hx.Rng) int {
	c := []int{0, 1, 2, 15, 100, 1023, 1024, 1025, 2047, 2048, 2049, 4096}
	if rng.Chance(3) {
		c = []int{65535, 65536, 65537, 70000}
	}
	return c[rng.Intn(len(c))]
}

func genMsg(rng *hx.Rng, meta *hx.Meta, kinds []string) mspec {
	k := kinds[rng.Intn(len(kinds))]
	meta.Count("carrier", k)
	n := sizes(rng)
	return mkMsg(rng, meta, k, n)
}

func mkMsg(rng *hx.Rng, meta *hx.Meta, k string, n int) mspec {
	meta.Count("size", hx.SizeBucket(n))
	switch k {
	case "vec", "writerto":
		m := mspec{Kind: k, Reuse: rng.Bool()}
		parts := 1 + rng.Intn(4)
		for i := 0; i < parts; i++ {
			if rng.Chance(20) {
				m.Ps = append(m.Ps, []wire.Piece{{}}) // an empty segment in front of / between the others
			}
			m.Ps = append(m.Ps, []wire.Piece{wire.Payload(rng, n/parts+rng.Intn(3))})
		}
		if rng.Chance(20) {
			m.Ps = append(m.Ps, []wire.Piece{{}})
		}
		return m
	case "reader":
		s := wire.GenScript(rng, []wire.Piece{wire.Payload(rng, n)}, meta, true)
		return mspec{Kind: k, Script: &s}
	case "other":
		return mspec{Kind: k}
	}
	return mspec{Kind: k, P: []wire.Piece{wire.Payload(rng, n)}}
}

type excCatcher struct{ n int }

func (e *excCatcher) HandleException(ctx netty.ExceptionContext, ex netty.Exception) { e.n++ }

// send a message through a real channel's head handler; returns the payloads
// of the transport writes and whether an exception was raised
func headSend(m mspec, async bool) (payloads [][]byte, exc bool) {
	tr := &mock.Transport{}
	pl := netty.NewPipeline()
	catcher := &excCatcher{}
	pl.AddLast(catcher)
	var ch netty.Channel
	if async {
		ch = netty.NewAsyncWriteChannel(8, true)(1, context.Background(), pl, tr, mock.Inline{})
	} else {
		ch = netty.NewChannel()(1, context.Background(), pl, tr, mock.Inline{})
	}
	netty.VerifAttach(pl, ch)
	err := ch.Write(m.value())
	for _, e := range tr.Snapshot() {
		if e.Kind == "write" || e.Kind == "writev" {
			var p []byte
			for _, b := range e.Bufs {
				p = append(p, b...)
			}
			payloads = append(payloads, p)
		}
	}
	return payloads, catcher.n > 0 || err != nil
}

// deferredExec collects the executor's actions; the harness runs them later
type deferredExec struct{ acts []func() }

func (d *deferredExec) Exec(a func()) { d.acts = append(d.acts, a) }

// the same message on a queued channel whose sender is started only after the write call has returned and
// after other users of the byte pool have obtained, scribbled on and returned buffers of every size class
// (C10: recycling of internal pooled buffers never alters a payload that has not been handed to the transport)
func headSendDeferred(m mspec) (all []byte, exc bool) {
	tr := &mock.Transport{}
	pl := netty.NewPipeline()
	catcher := &excCatcher{}
	pl.AddLast(catcher)
	ex := &deferredExec{}
	ch := netty.NewAsyncWriteChannel(1<<16, true)(1, context.Background(), pl, tr, ex) // never fills: every read of <= 60000 bytes fits
	netty.VerifAttach(pl, ch)
	err := ch.Write(m.value())
	for _, sz := range []int{1024, 1024, 1024, 2048, 4096, 8192, 16384, 32768, 65536} {
		var got []*[]byte
		for k := 0; k < 4; k++ {
			b := pbytes.Get(sz)
			*b = (*b)[:cap(*b)]
			for j := range *b {
				(*b)[j] = 0xEE
			}
			got = append(got, b)
		}
		for _, b := range got {
			*b = (*b)[:0]
			pbytes.Put(b)
		}
	}
	for len(ex.acts) > 0 {
		a := ex.acts[0]
		ex.acts = ex.acts[1:]
		a()
	}
	for _, e := range tr.Snapshot() {
		if e.Kind == "write" || e.Kind == "writev" {
			for _, b := range e.Bufs {
				all = append(all, b...)
			}
		}
	}
	return all, catcher.n > 0 || err != nil
}

func dgList(ps [][]byte) string {
	xs := make([]string, len(ps))
	for i := range ps {
		xs[i] = wire.DgCoq(ps[i])
	}
	return hx.List(xs)
}

func helper(fn string, m mspec, rng *hx.Rng) (res []byte, ok bool) {
	defer func() {
		if e := recover(); e != nil {
			res, ok = nil, false
		}
	}()
	v := m.value()
	switch fn {
	case "FToBytes":
		b, err := utils.ToBytes(v)
		return b, err == nil
	case "FSteal":
		wt, isWT := v.(io.WriterTo)
		if !isWT {
			return nil, false
		}
		b, err := utils.StealBytes(wt)
		return b, err == nil
	case "FToReader":
		r, err := utils.ToReader(v)
		if err != nil {
			return nil, false
		}
		// read with assorted buffer sizes
		var out []byte
		for {
			buf := make([]byte, 1+rng.Intn(3000))
			n, err := r.Read(buf)
			out = append(out, buf[:n]...)
			if err != nil {
				return out, err == io.EOF
			}
		}
	case "FCount":
		vv, isV := v.([][]byte)
		if !isV {
			return nil, false
		}
		n := utils.CountOf(vv)
		return make([]byte, n), true
	case "FByteRead":
		br := utils.NewByteReader(v.(io.Reader))
		var out []byte
		for i := 0; i < 200000; i++ {
			b, err := br.ReadByte()
			if err != nil {
				return out, true
			}
			out = append(out, b)
		}
		return out, true
	}
	return nil, false
}

func main() {
	args := hx.ParseArgs()
	rng := hx.NewRng(args.Seed)
	meta := hx.NewMeta("h_conv", args.Seed, args.Tier)
	meta.Rule = "carrier types x contents x sizes (0,1,1023/1024/1025,2048,65536+-1,70000) x reader behaviours (short reads, empty reads, data with EOF, failure) through headHandler on sync and async channels and through ToBytes/ToReader/CountOf/ByteReader/StealBytes; non-trivial = size at a chunk boundary or a fragmenting/EOF-carrying reader or a multi-step WriterTo; distinct = distinct message specification"
	var hcs, ccs []string
	nh := hx.Pick3(args.Tier, 300, 2500, 10000)
	allKinds := []string{"bytes", "vec", "buffer", "string", "bytesreader", "stringsreader", "writerto", "reader", "reader", "reader", "other"}

	runHead := func(m mspec, async bool, id int) {
		payloads, exc := headSend(m, async)
		meta.Evaluations++
		meta.Count("channel", map[bool]string{true: "async", false: "sync"}[async])
		hcs = append(hcs, fmt.Sprintf("{| hc_id := %s; hc_msg := %s; hc_obs := %s; hc_exc := %s |}", hx.Nat(id), m.coq(), dgList(payloads), hx.Bool(exc)))
		meta.CaseIndex["h"+fmt.Sprint(id)] = map[string]interface{}{"msg": m, "async": async}
		// Go-side oracle: exactly the message's bytes, or an exception and nothing for unsupported types
		var all []byte
		for _, p := range payloads {
			all = append(all, p...)
		}
		rep := map[string]interface{}{"head": map[string]interface{}{"msg": m, "async": async}}
		switch m.Kind {
		case "other", "string":
			if !exc || len(all) > 0 {
				meta.Violate(hx.Violation{Property: "C14", What: "unsupported type " + m.Kind + " did not raise / transmitted bytes", Signature: "unsupported", Replay: rep})
			}
		default:
			want := contentOf(m)
			if m.Kind == "reader" && m.Script.Fin == "err" {
				if !exc || !bytes.Equal(all, want) {
					meta.Violate(hx.Violation{Property: "C14", What: "failing reader: bytes before the failure not all written or no exception", Signature: "reader-err", Replay: rep})
				}
			} else if exc || !bytes.Equal(all, want) {
				meta.Violate(hx.Violation{Property: "C14", What: fmt.Sprintf("%s message of %d bytes: transmitted %d bytes, equal=%v, exception=%v", m.Kind, len(want), len(all), bytes.Equal(all, want), exc), Signature: "head-bytes", Replay: rep})
			}
			if async && !(m.Kind == "reader" && m.Script.Fin == "err") && len(want) <= 60000 {
				if all2, exc2 := headSendDeferred(m); exc2 || !bytes.Equal(all2, want) {
					what := fmt.Sprintf("%s message of %d bytes on a queued channel whose sender starts late, with other pool users in between: transmitted %d bytes, equal=%v, exception=%v (a pooled buffer was recycled before it was written?)", m.Kind, len(want), len(all2), bytes.Equal(all2, want), exc2)
					meta.Violate(hx.Violation{Property: "C10", What: what, Signature: "premature-recycle", Replay: rep})
					meta.Violate(hx.Violation{Property: "C14", What: what, Signature: "premature-recycle", Replay: rep})
				}
			}
			if m.Kind == "reader" {
				for _, p := range payloads {
					if len(p) > 1024 {
						meta.Violate(hx.Violation{Property: "C14", What: "ReadFrom chunk larger than 1024", Signature: "chunk", Replay: rep})
					}
				}
			}
		}
	}
	runHelper := func(fn string, m mspec, id int) {
		res, ok := helper(fn, m, rng)
		meta.Evaluations++
		meta.Count("helper", fn)
		obs := "None"
		if ok {
			if fn == "FCount" {
				obs = fmt.Sprintf("(Some (%d, 0))", len(res))
			} else {
				obs = "(Some " + wire.DgCoq(res) + ")"
			}
		}
		ccs = append(ccs, fmt.Sprintf("{| cc_id := %s; cc_fn := %s; cc_msg := %s; cc_obs := %s |}", hx.Nat(id), fn, m.coq(), obs))
		meta.CaseIndex["c"+fmt.Sprint(id)] = map[string]interface{}{"fn": fn, "msg": m}
		rep := map[string]interface{}{"helper": map[string]interface{}{"fn": fn, "msg": m}}
		want := contentOf(m)
		supported := m.Kind != "other" && !(fn == "FToReader" && m.Kind == "writerto") && !(m.Kind == "reader" && m.Script.Fin == "err" && fn != "FByteRead" && fn != "FToReader")
		if fn == "FToReader" && m.Kind == "reader" && m.Script.Fin == "err" {
			supported = false
		}
		if supported && fn != "FCount" && (!ok || !bytes.Equal(res, want)) {
			meta.Violate(hx.Violation{Property: "C14", What: fmt.Sprintf("%s(%s, %d bytes) returned ok=%v, %d bytes, equal=%v", fn, m.Kind, len(want), ok, len(res), bytes.Equal(res, want)), Signature: "helper-" + fn, Replay: rep})
		}
		if !supported && m.Kind == "other" && ok {
			meta.Violate(hx.Violation{Property: "C14", What: fn + " accepted an unsupported type", Signature: "helper-unsupported", Replay: rep})
		}
	}

	if args.Replay != "" {
		var rp struct {
			Head *struct {
				Msg   mspec `json:"msg"`
				Async bool  `json:"async"`
			} `json:"head"`
			Helper *struct {
				Fn  string `json:"fn"`
				Msg mspec  `json:"msg"`
			} `json:"helper"`
		}
		if err := hx.LoadReplay(args.Replay, &rp); err != nil {
			fmt.Println("cannot load replay:", err)
			os.Exit(2)
		}
		if rp.Head != nil {
			runHead(rp.Head.Msg, rp.Head.Async, 0)
		}
		if rp.Helper != nil {
			runHelper(rp.Helper.Fn, rp.Helper.Msg, 0)
		}
		if len(meta.Violations) > 0 {
			fmt.Println("REPRODUCED:", meta.Violations[0].What)
			os.Exit(1)
		}
		fmt.Println("not reproduced: property holds on this case")
		return
	}

	// corpus: the inputs that exposed the ReadByte and StealBytes defects
	dataEOF := wire.Script{Wire: []wire.Piece{{Lit: []byte{5}}}, Fin: "dataeof", K: 1}
	zeroRead := wire.Script{Wire: []wire.Piece{{Lit: []byte{5, 6}}}, Cuts: []int{0, 1, 0}, Fin: "eof"}
	runHelper("FByteRead", mspec{Kind: "reader", Script: &dataEOF}, 0)
	runHelper("FByteRead", mspec{Kind: "reader", Script: &zeroRead}, 1)
	runHelper("FToBytes", mspec{Kind: "writerto", Reuse: true, Ps: [][]wire.Piece{{{Lit: []byte("0123")}}, {{Lit: []byte("4567")}}}}, 2)
	// bufio.Reader after a Peek is a real-world buffer-reusing WriterTo
	{
		src := bytes.Repeat([]byte("0123456789abcdef"), 1000)
		br := bufio.NewReaderSize(onlyReader{bytes.NewReader(src)}, 16)
		br.Peek(4)
		b, err := utils.ToBytes(br)
		meta.Evaluations++
		if err != nil || !bytes.Equal(b, src) {
			meta.Violate(hx.Violation{Property: "C14", What: "ToBytes(bufio.Reader after Peek) returned corrupted content", Signature: "steal-alias", Replay: map[string]interface{}{"bufio": true}})
		}
	}
	for i := 0; i < nh; i++ {
		m := genMsg(rng, meta, allKinds)
		runHead(m, i%2 == 1, i)
		meta.Distinct(m.coq())
		if i < 3 {
			meta.Sample(map[string]interface{}{"head_write": m})
		}
	}
	fns := []string{"FToBytes", "FToReader", "FCount", "FByteRead", "FSteal"}
	// boundary sweep: every helper x every carrier it supports x the smallest sizes (an exhausted / empty carrier
	// is where Read-based conversions report io.EOF instead of the 0 content bytes), and the same through the head
	sweepID := 3 + nh
	for _, n := range []int{0, 1, 2} {
		for _, k := range []string{"bytes", "vec", "buffer", "bytesreader", "stringsreader", "writerto", "reader"} {
			for _, async := range []bool{false, true} {
				meta.Count("carrier", k)
				runHead(mkMsg(rng, meta, k, n), async, nh+sweepID)
				sweepID++
			}
			for _, fn := range fns {
				if fn == "FCount" && k != "vec" || fn == "FByteRead" && k != "reader" ||
					fn == "FSteal" && (k == "bytes" || k == "vec" || k == "reader" || k == "buffer") || fn == "FToReader" && k == "writerto" {
					continue
				}
				m := mkMsg(rng, meta, k, n)
				if m.Kind == "reader" && m.Script.Fin == "err" {
					m.Script.Fin = "eof"
				}
				meta.Count("carrier", k)
				runHelper(fn, m, sweepID)
				sweepID++
			}
		}
	}
	for i := 0; i < nh; i++ {
		fn := fns[rng.Intn(len(fns))]
		kinds := allKinds
		switch fn {
		case "FCount":
			kinds = []string{"vec"}
		case "FByteRead":
			kinds = []string{"reader"}
		case "FSteal":
			kinds = []string{"bytesreader", "stringsreader", "writerto", "buffer"}
		}
		m := genMsg(rng, meta, kinds)
		if fn == "FSteal" && m.Kind == "buffer" { // *bytes.Buffer is a WriterTo too; the model treats it as a generic one
			m = mspec{Kind: "writerto", Ps: [][]wire.Piece{m.P}}
		}
		if fn == "FToReader" && m.Kind == "reader" && m.Script.Fin == "err" {
			m.Script.Fin = "eof" // ToReader itself cannot fail on a reader; failing reads are covered by head_write / ToBytes
		}
		runHelper(fn, m, 3+i)
		meta.Distinct(fn + m.coq())
	}

	// ---- C16 text codec through real frame codecs: write string, frame, re-fragment, decode, read ----
	ntext := hx.Pick3(args.Tier, 150, 1500, 5000)
	for i := 0; i < ntext; i++ {
		s := textSample(rng, meta)
		got, ok := textRoundTrip(rng, meta, s)
		meta.Evaluations++
		if !ok || got != s {
			meta.Violate(hx.Violation{Property: "C16", What: fmt.Sprintf("text codec: wrote %q (len %d), received %q ok=%v", trunc(s), len(s), trunc(got), ok), Signature: "text-roundtrip",
				Replay: map[string]interface{}{"text": []byte(s)}})
		}
	}

	jcs := jsonPart(rng, meta, hx.Pick3(args.Tier, 200, 2000, 6000))

	if args.Out != "" && args.Out != os.DevNull {
		var sb strings.Builder
		sb.WriteString("From Coq Require Import ZArith List.\nFrom GN Require Import Base.Reader Model.Frame Model.FrameCheck Model.Conv Model.ConvCheck Model.Json Model.JsonCheck.\nImport ListNotations.\nOpen Scope Z_scope.\n")
		sb.WriteString("Definition hcases : list hcase := [\n" + strings.Join(hcs, ";\n") + "].\n")
		sb.WriteString("Definition ccases : list ccase := [\n" + strings.Join(ccs, ";\n") + "].\n")
		sb.WriteString("Definition R := Eval vm_compute in check_hcases hcases.\nPrint R.\n")
		sb.WriteString("Definition RC := Eval vm_compute in check_ccases ccases.\nPrint RC.\n")
		sb.WriteString("Definition jcases : list jcase := [\n" + strings.Join(jcs, ";\n") + "].\n")
		sb.WriteString("Definition RJ := Eval vm_compute in check_jcases jcases.\nPrint RJ.\n")
		os.WriteFile(args.Out, []byte(sb.String()), 0o644)
	}
	meta.Cases = len(hcs) + len(ccs) + len(jcs)
	meta.Write(args.Meta)
}

func trunc(s string) string {
	if len(s) > 40 {
		return s[:40] + "..."
	}
	return s
}

func contentOf(m mspec) []byte {
	switch m.Kind {
	case "vec", "writerto":
		var out []byte
		for _, p := range m.Ps {
			out = append(out, wire.Cat(p)...)
		}
		return out
	case "reader":
		return wire.Cat(m.Script.Wire)
	}
	return wire.Cat(m.P)
}

func textSample(rng *hx.Rng, meta *hx.Meta) string {
	switch k := rng.Intn(6); k {
	case 0:
		meta.Count("text", "empty")
		return ""
	case 1:
		meta.Count("text", "invalid-utf8")
		return string([]byte{0xff, 0xfe, 0xc0, 0x80, 'a', 0xed, 0xa0, 0x80})
	case 2:
		meta.Count("text", "nul-and-delims")
		// incl. texts that END in a carriage return or a newline (a codec that "normalises line endings" loses them)
		return []string{"a\x00b\r\nc\n\x00", "line\r", "\r", "a\r\r", "line\n", "\n", " \t ", "x\r\n"}[rng.Intn(8)]
	case 3:
		meta.Count("text", "pool-class-size")
		return string(wire.Payload(rng, []int{1023, 1024, 1025, 4096, 65536}[rng.Intn(5)]).Bytes())
	default:
		meta.Count("text", "random-bytes")
		return string(rng.Bytes(rng.Intn(200)))
	}
}

func textRoundTrip(rng *hx.Rng, meta *hx.Meta, s string) (got string, ok bool) {
	defer func() {
		if e := recover(); e != nil {
			got, ok = fmt.Sprint("exception: ", e), false
		}
	}()
	text := format.TextCodec()
	var fc interface {
		HandleRead(netty.InboundContext, netty.Message)
		HandleWrite(netty.OutboundContext, netty.Message)
	}
	choice := rng.Intn(4)
	if choice == 2 && strings.Contains(s, "\r\n") {
		choice = 0
	}
	if choice == 3 && len(s) == 0 {
		choice = 1
	}
	fc = frameCodecFor(choice, len(s))
	meta.Count("text_frame_codec", []string{"varint", "length-field", "delimiter", "fixed"}[choice])
	// outbound: text codec, then frame codec
	var wireBytes []byte
	out2 := &mock.Ctx{OnWrite: func(m netty.Message) {
		switch v := m.(type) {
		case [][]byte:
			for _, b := range v {
				wireBytes = append(wireBytes, b...)
			}
		case []byte:
			wireBytes = append(wireBytes, v...)
		case io.Reader:
			b, err := io.ReadAll(v)
			if err != nil {
				panic(err)
			}
			wireBytes = append(wireBytes, b...)
		default:
			panic(fmt.Errorf("unexpected outbound type %T", m))
		}
	}}
	out1 := &mock.Ctx{OnWrite: func(m netty.Message) { fc.HandleWrite(out2, m) }}
	text.HandleWrite(out1, s)
	// inbound: re-fragment, frame codec, then text codec
	sc := wire.GenScript(rng, []wire.Piece{{Lit: wireBytes}}, meta, false)
	if choice == 2 {
		sc.Fin, sc.K = "eof", 0
	}
	var res string
	delivered := false
	in2 := &mock.Ctx{OnRead: func(m netty.Message) { res, delivered = m.(string), true }}
	in1 := &mock.Ctx{OnRead: func(m netty.Message) { text.HandleRead(in2, m) }}
	fc.HandleRead(in1, sc.Reader())
	return res, delivered
}

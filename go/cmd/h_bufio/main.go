// h_bufio: correspondence harness for C17 (transport wrappers preserve the
// byte stream for every buffering configuration).
package main

import (
	"bytes"
	"fmt"
	"io"
	"net"
	"os"
	"strings"
	"time"

	"github.com/go-netty/go-netty/transport"
	"verifharness/hx"
	"verifharness/mock"
	"verifharness/wire"
)

// memConn is an in-memory net.Conn: writes are recorded as the far end sees
// them, reads come from a scripted peer.
type memConn struct {
	far  []byte
	peer *mock.ScriptReader
	// fault injection: the failAt-th Write (1-based) accepts only `partial` bytes and fails
	writes, failAt, partial int
	timeout                 bool
}

type connErr struct{ to bool }

func (e connErr) Error() string   { return "injected connection failure" }
func (e connErr) Timeout() bool   { return e.to }
func (e connErr) Temporary() bool { return e.to }

type maddr struct{}

func (maddr) Network() string { return "mem" }
func (maddr) String() string  { return "mem" }

func (c *memConn) Read(p []byte) (int, error) { return c.peer.Read(p) }
func (c *memConn) Write(p []byte) (int, error) {
	c.writes++
	if c.failAt > 0 && c.writes == c.failAt {
		n := c.partial
		if n > len(p) {
			n = len(p)
		}
		c.far = append(c.far, p[:n]...)
		return n, connErr{c.timeout}
	}
	c.far = append(c.far, p...)
	return len(p), nil
}
func (c *memConn) Close() error                     { return nil }
func (c *memConn) LocalAddr() net.Addr              { return maddr{} }
func (c *memConn) RemoteAddr() net.Addr             { return maddr{} }
func (c *memConn) SetDeadline(time.Time) error      { return nil }
func (c *memConn) SetReadDeadline(time.Time) error  { return nil }
func (c *memConn) SetWriteDeadline(time.Time) error { return nil }

type wop struct {
	Kind string         `json:"kind"` // write | writev | flush
	P    []wire.Piece   `json:"p,omitempty"`
	Ps   [][]wire.Piece `json:"ps,omitempty"`
}

func (o wop) coq() string {
	switch o.Kind {
	case "write":
		return "SWrite " + wire.CoqPieces(o.P)
	case "writev":
		xs := make([]string, len(o.Ps))
		for i := range o.Ps {
			xs[i] = wire.CoqPieces(o.Ps[i])
		}
		return "SWritev " + hx.List(xs)
	}
	return "SFlush"
}

type bcase struct {
	FailAt  int         `json:"failat,omitempty"`  // connection fault: the k-th Write on the connection fails ...
	Partial int         `json:"partial,omitempty"` // ... after accepting this many bytes
	Timeout bool        `json:"timeout,omitempty"` // ... with a timeout net.Error (else a plain one)
	RSize   int         `json:"rsize"`
	WSize   int         `json:"wsize"`
	Ops     []wop       `json:"ops"`
	Peer    wire.Script `json:"peer"`
	Ks      []int       `json:"ks"`
}

func sizeAround(rng *hx.Rng, w int) int {
	if w <= 0 {
		w = 16
	}
	c := []int{0, 1, w - 1, w, w + 1, 2 * w, 2*w + 1, 3, 100}
	if rng.Chance(5) {
		c = []int{4095, 4096, 4097, 9000}
	}
	n := c[rng.Intn(len(c))]
	if n < 0 {
		n = 0
	}
	return n
}

func gen(rng *hx.Rng, meta *hx.Meta) bcase {
	c := bcase{RSize: []int{0, 0, 1, 16, 17, 64, 4096}[rng.Intn(7)], WSize: []int{0, 0, 1, 3, 4, 16, 64, 4096}[rng.Intn(8)]}
	meta.Count("variant", fmt.Sprintf("read=%v,write=%v", c.RSize > 0, c.WSize > 0))
	meta.Count("wsize", fmt.Sprint(c.WSize))
	meta.Count("rsize", fmt.Sprint(c.RSize))
	nops := 2 + rng.Intn(10)
	for i := 0; i < nops; i++ {
		switch rng.Intn(5) {
		case 0, 1:
			c.Ops = append(c.Ops, wop{Kind: "write", P: []wire.Piece{wire.Payload(rng, sizeAround(rng, c.WSize))}})
		case 2, 3:
			o := wop{Kind: "writev"}
			for j, k := 0, 1+rng.Intn(4); j < k; j++ {
				o.Ps = append(o.Ps, []wire.Piece{wire.Payload(rng, sizeAround(rng, c.WSize))})
			}
			c.Ops = append(c.Ops, o)
		default:
			c.Ops = append(c.Ops, wop{Kind: "flush"})
		}
		meta.Count("op", c.Ops[len(c.Ops)-1].Kind)
	}
	c.Ops = append(c.Ops, wop{Kind: "flush"})
	c.Peer = wire.GenScript(rng, []wire.Piece{wire.Payload(rng, []int{0, 1, 15, 16, 17, 100, 1000, 5000}[rng.Intn(8)])}, meta, true)
	for i, n := 0, rng.Intn(8); i < n; i++ {
		c.Ks = append(c.Ks, []int{1, 2, 15, 16, 17, 64, 3000}[rng.Intn(7)])
	}
	return c
}

type obs struct {
	Fault   []fres
	Flushed [][]byte
	Read    []byte
	EOF     bool
	Bad     string
}

// runFault: the same op sequence over a connection whose k-th Write fails (possibly a timeout, possibly after
// partial progress).  Oracles: the peer's bytes are always a prefix of the bytes the calls reported as accepted, in call order; a Flush that
// reports success means the peer has every byte the earlier calls reported as accepted.
type fres struct {
	N   int64
	OK  bool
	Far []byte
}

func runFault(c bcase) (bad string, res []fres) {
	note := func(s string) {
		if bad == "" {
			bad = s
		}
	}
	conn := &memConn{peer: c.Peer.Reader(), failAt: c.FailAt, partial: c.Partial, timeout: c.Timeout}
	tr := transport.NewTransport(conn, c.RSize, c.WSize)
	var accepted []byte
	for i, op := range c.Ops {
		switch op.Kind {
		case "write":
			b := wire.Cat(op.P)
			n, err := tr.Write(b)
			if n < 0 || n > len(b) || (err == nil && n != len(b)) {
				note(fmt.Sprintf("op %d: Write returned %d, %v for %d bytes", i, n, err, len(b)))
				n = 0
			}
			accepted = append(accepted, b[:n]...)
			res = append(res, fres{int64(n), err == nil, append([]byte(nil), conn.far...)})
		case "writev":
			var bufs net.Buffers
			var all []byte
			for _, p := range op.Ps {
				b := wire.Cat(p)
				bufs = append(bufs, b)
				all = append(all, b...)
			}
			n, err := tr.Writev(bufs)
			if n < 0 || int(n) > len(all) || (err == nil && int(n) != len(all)) {
				note(fmt.Sprintf("op %d: Writev returned %d, %v for %d bytes", i, n, err, len(all)))
				n = 0
			}
			accepted = append(accepted, all[:n]...)
			res = append(res, fres{n, err == nil, append([]byte(nil), conn.far...)})
		case "flush":
			err := tr.Flush()
			res = append(res, fres{0, err == nil, append([]byte(nil), conn.far...)})
			if err == nil && !bytes.Equal(conn.far, accepted) {
				note(fmt.Sprintf("op %d: Flush reported success but the peer has %d bytes while %d were accepted by the calls before it (connection write #%d failed earlier, timeout=%v, after %d bytes)", i, len(conn.far), len(accepted), c.FailAt, c.Timeout, c.Partial))
			}
		}
		if !bytes.HasPrefix(accepted, conn.far) {
			note(fmt.Sprintf("op %d: the peer's bytes are not a prefix of the bytes the calls reported as accepted, in call order (after the injected failure of connection write #%d)", i, c.FailAt))
		}
	}
	return
}

func run(c bcase) (o obs) {
	if c.FailAt > 0 {
		o.Bad, o.Fault = runFault(c)
		return
	}
	conn := &memConn{peer: c.Peer.Reader()}
	tr := transport.NewTransport(conn, c.RSize, c.WSize)
	var written []byte
	for _, op := range c.Ops {
		switch op.Kind {
		case "write":
			b := wire.Cat(op.P)
			n, err := tr.Write(b)
			if n != len(b) || err != nil {
				o.Bad = fmt.Sprintf("Write returned %d, %v for %d bytes", n, err, len(b))
			}
			written = append(written, b...)
		case "writev":
			var bufs net.Buffers
			total := 0
			for _, p := range op.Ps {
				b := wire.Cat(p)
				bufs = append(bufs, b)
				written = append(written, b...)
				total += len(b)
			}
			n, err := tr.Writev(bufs)
			if int(n) != total || err != nil {
				o.Bad = fmt.Sprintf("Writev returned %d, %v for %d bytes", n, err, total)
			}
		case "flush":
			if err := tr.Flush(); err != nil {
				o.Bad = "Flush failed: " + err.Error()
			}
			o.Flushed = append(o.Flushed, append([]byte(nil), conn.far...))
			if !bytes.Equal(conn.far, written) {
				o.Bad = fmt.Sprintf("after Flush the peer has %d bytes, %d were written (equal prefix: %v)", len(conn.far), len(written), bytes.HasPrefix(written, conn.far))
			}
		}
		if !bytes.HasPrefix(written, conn.far) {
			o.Bad = "bytes at the peer are not a prefix of the bytes written in call order (reordering)"
		}
	}
	// read the peer's stream to its end
	ks := c.Ks
	for i := 0; i < 100000; i++ {
		k := 512
		if len(ks) > 0 {
			k, ks = ks[0], ks[1:]
		}
		buf := make([]byte, k)
		n, err := tr.Read(buf)
		o.Read = append(o.Read, buf[:n]...)
		if err != nil {
			o.EOF = err == io.EOF
			break
		}
	}
	return
}

func (c bcase) coq(id int, o obs) string {
	ops := make([]string, len(c.Ops))
	for i := range c.Ops {
		ops[i] = c.Ops[i].coq()
	}
	fl := make([]string, len(o.Flushed))
	for i := range o.Flushed {
		fl[i] = wire.DgCoq(o.Flushed[i])
	}
	ks := make([]string, len(c.Ks))
	for i := range c.Ks {
		ks[i] = fmt.Sprint(c.Ks[i])
	}
	return fmt.Sprintf("{| bc_id := %s; bc_rsize := %d; bc_wsize := %d; bc_ops := %s; bc_flushed := %s; bc_peer := %s; bc_cuts := %s; bc_fin := %s; bc_ks := %s; bc_read := %s; bc_read_eof := %s |}",
		hx.Nat(id), c.RSize, c.WSize, hx.List(ops), hx.List(fl), wire.CoqPieces(c.Peer.Wire), c.Peer.CutsCoq(), c.Peer.FinCoq(), hx.List(ks), wire.DgCoq(o.Read), hx.Bool(o.EOF))
}

func main() {
	args := hx.ParseArgs()
	rng := hx.NewRng(args.Seed)
	meta := hx.NewMeta("h_bufio", args.Seed, args.Tier)
	meta.Rule = "four wrapper variants x read sizes {0,1,16,17,64,4096} x write sizes {0,1,3,4,16,64,4096} x random sequences of Write/Writev/Flush with payload sizes around the buffer size x scripted peer fragmentations x caller read-buffer sizes; non-trivial = a buffered variant with a payload crossing the buffer size or a fragmented peer; distinct = distinct case"
	check := func(c bcase, id int) string {
		o := run(c)
		meta.Evaluations++
		rep := map[string]interface{}{"case": c}
		if o.Bad != "" {
			meta.Violate(hx.Violation{Property: "C17", What: o.Bad, Signature: "write-stream", Replay: rep})
		}
		if c.FailAt > 0 {
			ops := make([]string, len(c.Ops))
			for i := range c.Ops {
				ops[i] = c.Ops[i].coq()
			}
			rs := make([]string, len(o.Fault))
			for i, r := range o.Fault {
				rs[i] = fmt.Sprintf("(%s, %s, %s)", hx.Z(r.N), hx.Bool(r.OK), wire.DgCoq(r.Far))
			}
			return fmt.Sprintf("{| fc_id := %s; fc_wsize := %d; fc_k := %s; fc_a := %d; fc_ops := %s; fc_res := %s |}",
				hx.Nat(id), c.WSize, hx.Nat(c.FailAt-1), c.Partial, hx.List(ops), hx.List(rs))
		}
		want := wire.Cat(c.Peer.Wire)
		if !bytes.Equal(o.Read, want) {
			meta.Violate(hx.Violation{Property: "C17", What: fmt.Sprintf("Read returned %d bytes in total, the peer sent %d (equal prefix: %v)", len(o.Read), len(want), bytes.HasPrefix(want, o.Read)), Signature: "read-stream", Replay: rep})
		}
		return c.coq(id, o)
	}
	if args.Replay != "" {
		var rp struct {
			Case bcase `json:"case"`
		}
		if err := hx.LoadReplay(args.Replay, &rp); err != nil {
			fmt.Println("cannot load replay:", err)
			os.Exit(2)
		}
		check(rp.Case, 0)
		if len(meta.Violations) > 0 {
			fmt.Println("REPRODUCED:", meta.Violations[0].What)
			os.Exit(1)
		}
		fmt.Println("not reproduced: property holds on this case")
		return
	}
	n := hx.Pick3(args.Tier, 400, 5000, 30000)
	var cases []string
	for i := 0; i < n; i++ {
		c := gen(rng, meta)
		cases = append(cases, check(c, i))
		meta.CaseIndex[fmt.Sprint(i)] = map[string]interface{}{"case": c}
		if c.WSize > 0 || c.RSize > 0 || len(c.Peer.Cuts) > 0 {
			meta.Distinct(fmt.Sprint(c))
		}
		if i < 3 {
			meta.Sample(c)
		}
	}
	// connection faults: the k-th Write on the connection fails (timeout or not, with partial progress), the
	// wrapper is used again afterwards
	var fcases []string
	nf := hx.Pick3(args.Tier, 200, 3000, 10000)
	for i := 0; i < nf; i++ {
		c := gen(rng, meta)
		c.FailAt = 1 + rng.Intn(4)
		c.Partial = []int{0, 0, 1, 3, 7}[rng.Intn(5)]
		c.Timeout = rng.Bool()
		meta.Count("fault", fmt.Sprintf("timeout=%v", c.Timeout))
		fcases = append(fcases, check(c, i))
		meta.CaseIndex["RF:"+fmt.Sprint(i)] = map[string]interface{}{"case": c}
		meta.Distinct(fmt.Sprint(c))
	}
	if args.Out != "" && args.Out != os.DevNull {
		var sb strings.Builder
		sb.WriteString("From Coq Require Import ZArith List.\nFrom GN Require Import Base.Reader Model.Frame Model.FrameCheck Model.Bufio Model.BufioCheck.\nImport ListNotations.\nOpen Scope Z_scope.\n")
		sb.WriteString("Definition cases : list bcase := [\n" + strings.Join(cases, ";\n") + "].\n")
		sb.WriteString("Definition R := Eval vm_compute in check_bcases cases.\nPrint R.\n")
		sb.WriteString("Definition fcases : list fcase := [\n" + strings.Join(fcases, ";\n") + "].\n")
		sb.WriteString("Definition RF := Eval vm_compute in check_fcases fcases.\nPrint RF.\n")
		os.WriteFile(args.Out, []byte(sb.String()), 0o644)
	}
	meta.Cases = len(cases) + len(fcases)
	meta.Write(args.Meta)
}

package main

import (
	"bytes"
	"fmt"
	"os"
	"strings"

	"verifharness/hx"
	"verifharness/sched"
)

func genCfg(rng *hx.Rng, prop string, meta *hx.Meta) cfg {
	c := cfg{QCap: []int{1, 1, 2, 3, 8}[rng.Intn(5)], Until: rng.Bool()}
	nw := 1 + rng.Intn(3)
	for w := 0; w < nw; w++ {
		var ws writerSpec
		for k, n := 0, 1+rng.Intn(3); k < n; k++ {
			cs := callSpec{Kind: rng.Intn(5), Size: []int{0, 1, 7, 100, 1020, 1024, 1500}[rng.Intn(7)]}
			if rng.Chance(4) {
				cs.Size = 70000 // beyond the largest pooled size class: the copy taken at accept time is not a pooled one
			}
			if cs.Kind == 1 || cs.Kind == 3 {
				cs.Segs = 1 + rng.Intn(3) // single-segment vectors included
			}
			if (cs.Kind == 2 || cs.Kind == 3) && rng.Chance(20) {
				cs.CtxDone = true
			} else if (cs.Kind == 2 || cs.Kind == 3) && rng.Chance(50) {
				cs.CtxLive = true
				cs.CtxDL = rng.Bool()
			}
			ws.Calls = append(ws.Calls, cs)
		}
		c.Writers = append(c.Writers, ws)
	}
	switch prop {
	case "C05":
		// several Close calls with distinct errors racing each other and the writers
		c.Closers = []int{[]int{0, 5}[rng.Intn(2)]}
		if rng.Chance(70) {
			c.Closers = append(c.Closers, 6)
		}
		if rng.Chance(25) {
			c.Closers = append(c.Closers, 7)
		}
		c.Quiet = rng.Chance(30)
		if rng.Chance(20) {
			c.QCap = 0 // synchronous channel: the closers overlap inside transport.Close
		}
		// the parent context ends while / before the Close calls run: the inactive event still carries the error of
		// the Close call that took effect (nil for Close(nil)), not the context's
		c.Parent = rng.Chance(25)
	case "C07":
		// synchronous channel whose transport fails the k-th write: the lock must be released, later calls go on
		c.QCap = 0
		c.FailW = 1 + rng.Intn(4)
		if rng.Chance(30) {
			c.Closers = []int{5}
		}
	case "C02":
	case "C06":
		c.Closers = []int{5}
		c.Quiet = true
		if rng.Chance(30) {
			c.Closers = append(c.Closers, 6)
		}
	case "C11":
		c.Closers = []int{[]int{0, 5}[rng.Intn(2)]}
		if rng.Chance(30) {
			c.Closers = append(c.Closers, 6)
		}
		c.Writers = append(c.Writers, writerSpec{Late: true, Calls: []callSpec{{Kind: rng.Intn(5), Size: 8}, {Kind: rng.Intn(5), Size: 8}}})
		c.Parent = rng.Chance(20)
		if rng.Chance(25) {
			c.QCap = 0 // synchronous channel: closers overlap inside transport.Close, late writers start after ANY Close call returned
		}
	default: // C01 C10 C18: mixes
		if rng.Chance(40) {
			c.Closers = []int{[]int{0, 5}[rng.Intn(2)]}
			c.Quiet = rng.Bool()
		}
		if rng.Chance(10) {
			c.Parent = true
		}
		if rng.Chance(15) && prop == "C01" {
			c.QCap = 0 // synchronous channel (Go oracles only; the Coq model is the async channel)
		}
	}
	if c.QCap == 0 {
		// synchronous channels also see truly empty payloads (nil / zero-length): same lock, write, flush as any other
		for w := range c.Writers {
			for k := range c.Writers[w].Calls {
				if cs := &c.Writers[w].Calls[k]; (cs.Kind == 0 || cs.Kind == 4) && rng.Chance(15) {
					cs.Empty = true
					meta.Count("payload", "truly empty")
				}
			}
		}
	}
	meta.Count("qcap", fmt.Sprint(c.QCap))
	meta.Count("mode", map[bool]string{true: "blocking", false: "non-blocking"}[c.Until])
	meta.Count("writers", fmt.Sprint(len(c.Writers)))
	meta.Count("closers", fmt.Sprint(len(c.Closers)))
	return c
}

// strategies: choose an index among the enabled threads
func randomStrat(rng *hx.Rng) func(int, []*sched.Thread, *sched.Thread) int {
	return func(_ int, en []*sched.Thread, _ *sched.Thread) int { return rng.Intn(len(en)) }
}

// stick with the running thread, preempt with probability p (finds windows that need few context switches)
func stickyStrat(rng *hx.Rng, p int) func(int, []*sched.Thread, *sched.Thread) int {
	return func(_ int, en []*sched.Thread, last *sched.Thread) int {
		for k, t := range en {
			if t == last && !rng.Chance(p) {
				return k
			}
		}
		return rng.Intn(len(en))
	}
}

// prefer to preempt the sender right inside the release/recheck/re-acquire window
func windowStrat(rng *hx.Rng) func(int, []*sched.Thread, *sched.Thread) int {
	return func(_ int, en []*sched.Thread, last *sched.Thread) int {
		if last != nil && (last.Point == "s.recheck" || last.Point == "s.reacq" || last.Point == "s.release" || last.Point == "s.flush") && rng.Chance(70) {
			var others []int
			for k, t := range en {
				if t != last {
					others = append(others, k)
				}
			}
			if len(others) > 0 {
				return others[rng.Intn(len(others))]
			}
		}
		for k, t := range en {
			if t == last && rng.Chance(60) {
				return k
			}
		}
		return rng.Intn(len(en))
	}
}

// let the closer run whenever it can (the sender is starved while Close polls): reaches the end of the grace period
func closerFirstStrat(rng *hx.Rng) func(int, []*sched.Thread, *sched.Thread) int {
	return func(_ int, en []*sched.Thread, last *sched.Thread) int {
		if !rng.Chance(5) {
			for k, t := range en {
				if t.Name == "closer" && strings.HasPrefix(t.Point, "c.") {
					return k
				}
			}
		}
		return rng.Intn(len(en))
	}
}

// the sender is stalled (never scheduled) until the closers have polled k times in a row, then everything runs
// at random: a slow transport that recovers.  Every closer gets its turn while the stall lasts.
func stallStrat(rng *hx.Rng, k int) func(int, []*sched.Thread, *sched.Thread) int {
	sleeps := 0
	return func(_ int, en []*sched.Thread, last *sched.Thread) int {
		if last != nil && last.Name == "closer" && last.Point == "c.sleep" {
			sleeps++
		}
		if sleeps < k {
			var cl []int
			for i, t := range en {
				if t.Name == "closer" {
					cl = append(cl, i)
				}
			}
			if len(cl) > 0 {
				return cl[rng.Intn(len(cl))]
			}
		}
		return rng.Intn(len(en))
	}
}

// writers first (the sender is never scheduled, so the queue fills and the other calls park on it), then the parent
// context is cancelled, then the parked calls run: each must return the close / context error and enqueue nothing
func parkThenCancelStrat(rng *hx.Rng) func(int, []*sched.Thread, *sched.Thread) int {
	cancelled := false
	return func(_ int, en []*sched.Thread, last *sched.Thread) int {
		if last != nil && last.Name == "parent" {
			cancelled = true
		}
		var ws, par []int
		for i, t := range en {
			switch {
			case strings.HasPrefix(t.Name, "w"):
				ws = append(ws, i)
			case t.Name == "parent":
				par = append(par, i)
			}
		}
		if !cancelled {
			// writers may pass their closed-check and reach the select, but a parked writer is not enabled: once no
			// writer can move, cancel
			if len(ws) > 0 && !rng.Chance(10) {
				return ws[rng.Intn(len(ws))]
			}
			if len(par) > 0 {
				return par[0]
			}
		} else if len(ws) > 0 && !rng.Chance(20) {
			return ws[rng.Intn(len(ws))]
		}
		return rng.Intn(len(en))
	}
}

func replayStrat(picks []int) func(int, []*sched.Thread, *sched.Thread) int {
	return func(step int, en []*sched.Thread, _ *sched.Thread) int {
		if step < len(picks) && picks[step] < len(en) {
			return picks[step]
		}
		return 0
	}
}

// preemption-bounded depth-first enumeration (CHESS style): continuing the
// thread that ran last is free, switching away from an enabled thread costs one unit.
func enumerate(c cfg, bound int, limit int, visit func(o *obs)) (runs int, exhaustive bool) {
	type frame struct{ alts, pick int }
	var prefix []int
	for {
		var stack []frame
		budget := bound
		o := runCfg(c, func(step int, en []*sched.Thread, last *sched.Thread) int {
			cont := -1
			for k, t := range en {
				if t == last {
					cont = k
				}
			}
			var order []int
			if cont >= 0 {
				order = append(order, cont)
			}
			if cont < 0 || budget > 0 {
				for k := range en {
					if k != cont {
						order = append(order, k)
					}
				}
			}
			p := 0
			if step < len(prefix) {
				p = prefix[step]
			}
			if p >= len(order) {
				p = 0
			}
			stack = append(stack, frame{len(order), p})
			if cont >= 0 && order[p] != cont {
				budget--
			}
			return order[p]
		})
		runs++
		visit(o)
		// next prefix: backtrack to the deepest frame with an untried alternative
		i := len(stack) - 1
		for i >= 0 && stack[i].pick+1 >= stack[i].alts {
			i--
		}
		if i < 0 {
			return runs, true
		}
		prefix = prefix[:0]
		for j := 0; j < i; j++ {
			prefix = append(prefix, stack[j].pick)
		}
		prefix = append(prefix, stack[i].pick+1)
		if runs >= limit {
			return runs, false
		}
	}
}

func explore(args hx.Args, meta *hx.Meta) {
	rng := hx.NewRng(args.Seed)
	prop := args.Prop
	if prop == "" {
		prop = "C01"
	}
	meta.Rule = "real channel under the hook scheduler: configurations (queue sizes 1,2,3,8 and the synchronous channel, blocking / non-blocking, 1-3 writers x 1-3 calls over the five entry points, cancelled caller contexts, 0-2 closers incl. Close(nil), late writers, parent cancellation) x schedules (uniform random, sticky with rare preemption, biased to the release/recheck window, preemption-bounded enumeration of small configurations); non-trivial = the schedule exercises the property's mechanism (>= 2 packets queued at once or a blocked writer; an enqueue in the flush..reacquire window; a closer poll with packets queued; a call begun after Close returned; a full-queue select); distinct = distinct canonical schedule"
	if args.Replay != "" {
		var rp struct {
			Cfg      cfg     `json:"cfg"`
			Buffered *bufCfg `json:"buffered"`
			Realtime *rtCfg  `json:"realtime"`
		}
		if err := hx.LoadReplay(args.Replay, &rp); err != nil {
			fmt.Println("cannot load replay:", err)
			os.Exit(2)
		}
		if rp.Realtime != nil {
			order := runRealtime(*rp.Realtime)
			fmt.Println("transport saw:", order)
			if !(len(order) >= 3 && order[0] == "writev" && order[1] == "flush" && order[2] == "close") {
				fmt.Println("REPRODUCED: the transport was closed before the accepted payload was written and flushed, within the grace period")
				os.Exit(1)
			}
			fmt.Println("not reproduced")
			return
		}
		if rp.Buffered != nil {
			got, want, _, stuck := runBuffered(*rp.Buffered, replayStrat(rp.Buffered.Picks))
			fmt.Printf("connection received %d bytes, written %d bytes, prefix=%v %s\n", len(got), len(want), bytes.HasPrefix(want, got), stuck)
			if stuck != "" || !bytes.HasPrefix(want, got) || len(got) != len(want) {
				fmt.Println("REPRODUCED: byte stream at the connection differs from the accepted payloads")
				os.Exit(1)
			}
			fmt.Println("not reproduced")
			return
		}
		o := runCfg(rp.Cfg, replayStrat(rp.Cfg.Picks))
		check(rp.Cfg, o, meta)
		for _, st := range o.Trace {
			fmt.Printf("%s@%s ", st.Name, st.Point)
		}
		fmt.Println()
		for _, e := range o.Log {
			fmt.Printf("  transport %s bytes=%d err=%v\n", e.Kind, e.Bytes, e.Err)
		}
		for _, cl := range o.Calls {
			fmt.Printf("  call %d.%d -> %s\n", cl.W, cl.K, cl.Res)
		}
		if len(meta.Violations) > 0 {
			fmt.Println("REPRODUCED:", meta.Violations[0].What)
			os.Exit(1)
		}
		fmt.Println("not reproduced: property holds on this schedule")
		return
	}
	var cases, ycases []string
	nontrivial := func(c cfg, o *obs) bool {
		for i, st := range o.Trace {
			switch prop {
			case "C02":
				if st.Point == "w.select" && i > 0 {
					for j := i - 1; j >= 0 && j > i-6; j-- {
						if strings.HasPrefix(o.Trace[j].Name, "sender") && (o.Trace[j].Point == "s.flush" || o.Trace[j].Point == "s.release" || o.Trace[j].Point == "s.recheck") {
							return true
						}
					}
				}
			case "C06":
				if st.Point == "c.takeover" || st.Point == "c.sleep" {
					return true
				}
			case "C11":
				if len(o.CloseRet) > 0 && st.Point == "w.check" && i >= o.CloseRet[0] {
					return true
				}
			}
		}
		switch prop {
		case "C18":
			for _, cl := range o.Calls {
				if cl.QFullSel {
					return true
				}
			}
			return false
		case "C02", "C06", "C11":
			return false
		}
		return o.MaxQ >= 2 || len(o.Batches) >= 2
	}
	emit := func(c cfg, o *obs) {
		check(c, o, meta)
		meta.Evaluations++
		if c.QCap > 0 && len(cases) < hx.Pick3(args.Tier, 400, 4000, 0) {
			cases = append(cases, c.coq(len(cases), o))
			cc := c
			cc.Picks = o.Picks
			meta.CaseIndex[fmt.Sprint(len(cases)-1)] = map[string]interface{}{"cfg": cc}
		} else if c.QCap == 0 && len(ycases) < hx.Pick3(args.Tier, 400, 4000, 0) {
			id := len(ycases)
			ycases = append(ycases, c.coqSync(id, o))
			cc := c
			cc.Picks = o.Picks
			meta.CaseIndex["RY:"+fmt.Sprint(id)] = map[string]interface{}{"cfg": cc}
		}
		if nontrivial(c, o) {
			var sb strings.Builder
			for _, st := range o.Trace {
				sb.WriteString(st.Name + "@" + st.Point + " ")
			}
			meta.Distinct(fmt.Sprint(c.QCap, c.Until, len(c.Writers), len(c.Closers)) + sb.String())
		}
	}
	nrand := hx.Pick3(args.Tier, 1500, 60000, 20000)
	for i := 0; i < nrand; i++ {
		c := genCfg(rng, prop, meta)
		var strat func(int, []*sched.Thread, *sched.Thread) int
		if (prop == "C06" || prop == "C05") && i%5 == 4 && len(c.Closers) > 0 {
			c.Starve = true
			if c.Until {
				// a channel that waits for pending writes, its sender stalled far beyond the bounded grace period
				c.Strat, strat = "sender-stalled", stallStrat(rng, []int{3, 12, 25}[rng.Intn(3)])
			} else {
				c.Strat, strat = "closer-first", closerFirstStrat(rng)
			}
			meta.Count("strategy", c.Strat)
			o := runCfg(c, strat)
			emit(c, o)
			continue
		}
		if (prop == "C18" || prop == "C11") && i%6 == 5 && c.QCap > 0 {
			// blocking mode, small queue, the sender held back, the parent context cancelled while calls wait for space
			c.Until, c.Parent, c.Closers = true, true, nil
			if c.QCap > 2 {
				c.QCap = 1 + rng.Intn(2)
			}
			for w := range c.Writers {
				for k := range c.Writers[w].Calls {
					if rng.Chance(60) {
						c.Writers[w].Calls[k].Kind = []int{1, 3}[rng.Intn(2)]
						c.Writers[w].Calls[k].Segs = 1 + rng.Intn(3)
					}
				}
			}
			c.Starve = true
			c.Strat, strat = "park-then-cancel", parkThenCancelStrat(rng)
			meta.Count("strategy", c.Strat)
			o := runCfg(c, strat)
			emit(c, o)
			continue
		}
		switch i % 3 {
		case 0:
			c.Strat, strat = "random", randomStrat(rng)
		case 1:
			c.Strat, strat = "sticky", stickyStrat(rng, 10)
		default:
			c.Strat, strat = "window", windowStrat(rng)
		}
		meta.Count("strategy", c.Strat)
		o := runCfg(c, strat)
		emit(c, o)
		if i < 2 {
			var tr []string
			for _, st := range o.Trace {
				tr = append(tr, st.Name+"@"+st.Point)
			}
			meta.Sample(map[string]interface{}{"cfg": c, "schedule": tr, "batches": o.Batches})
		}
	}
	if prop == "C06" {
		exploreRealtime(meta)
	}
	if prop == "C01" || prop == "C02" {
		exploreBuffered(rng, meta, prop, hx.Pick3(args.Tier, 600, 20000, 8000))
	}
	// preemption-bounded enumeration of small configurations
	small := []cfg{
		{QCap: 1, Until: true, Writers: []writerSpec{{Calls: []callSpec{{Kind: 0, Size: 3}, {Kind: 1, Size: 3}}}}},
		{QCap: 1, Until: false, Writers: []writerSpec{{Calls: []callSpec{{Kind: 0, Size: 3}}}, {Calls: []callSpec{{Kind: 2, Size: 3}}}}},
		{QCap: 2, Until: true, Writers: []writerSpec{{Calls: []callSpec{{Kind: 0, Size: 3}}}, {Calls: []callSpec{{Kind: 4, Size: 3}}}}},
	}
	if prop == "C06" || prop == "C11" || prop == "C01" {
		small = append(small,
			cfg{QCap: 2, Until: true, Quiet: prop == "C06", Closers: []int{5}, Writers: []writerSpec{{Calls: []callSpec{{Kind: 0, Size: 3}, {Kind: 0, Size: 3}}}}},
			cfg{QCap: 2, Until: false, Quiet: prop == "C06", Closers: []int{0}, Writers: []writerSpec{{Calls: []callSpec{{Kind: 0, Size: 3}}}, {Calls: []callSpec{{Kind: 1, Size: 3}}}}})
	}
	bound := hx.Pick3(args.Tier, 2, 3, 3)
	limit := hx.Pick3(args.Tier, 4000, 200000, 20000)
	for _, c := range small {
		c.Strat = fmt.Sprintf("enumerate-bound-%d", bound)
		runs, ex := enumerate(c, bound, limit, func(o *obs) { emit(c, o) })
		meta.Count("enumeration", fmt.Sprintf("qcap=%d until=%v writers=%d closers=%d: %d runs exhaustive(bound %d)=%v", c.QCap, c.Until, len(c.Writers), len(c.Closers), runs, bound, ex))
	}
	if args.Out != "" && args.Out != os.DevNull {
		var sb strings.Builder
		sb.WriteString("From Coq Require Import List.\nFrom GN Require Import Model.Chan Model.ChanCheck Model.SyncChan Model.SyncCheck.\nImport ListNotations.\n")
		sb.WriteString("Definition cases : list ccase := [\n" + strings.Join(cases, ";\n") + "].\n")
		sb.WriteString("Definition R := Eval vm_compute in check_ccases cases.\nPrint R.\n")
		sb.WriteString("Definition ycases : list ycase := [\n" + strings.Join(ycases, ";\n") + "].\n")
		sb.WriteString("Definition RY := Eval vm_compute in check_ycases ycases.\nPrint RY.\n")
		os.WriteFile(args.Out, []byte(sb.String()), 0o644)
	}
	meta.Cases = len(cases) + len(ycases)
	meta.Write(args.Meta)
}

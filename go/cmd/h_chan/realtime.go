package main

// Real-time runs WITHOUT the hook scheduler (so that code behind the hooks - Close's sleep between grace polls - is
// the code that runs): a queued channel whose transport stalls inside Writev for 120 ms, far less
// than the documented grace period of 10 x 100 ms; Close (optionally after the parent context was cancelled) must
// not close the transport before the accepted payload has been written and flushed (C06).

import (
	"context"
	"errors"
	"fmt"
	"sync"
	"time"

	netty "github.com/go-netty/go-netty"
	"verifharness/hx"
	"verifharness/mock"
)

type goExec struct{}

func (goExec) Exec(f func()) { go f() }

type rtCfg struct {
	Until        bool `json:"until"`
	ParentCancel bool `json:"parent_cancel"`
	CloseNil     bool `json:"close_nil"`
	StallMs      int  `json:"stall_ms"`
}

func runRealtime(c rtCfg) (order []string) {
	netty.SetVerifSched(nil)
	tr := &mock.Transport{}
	entered := make(chan struct{})
	var once sync.Once
	tr.Yield = func(p string) {
		if p == "t.writev" {
			once.Do(func() { close(entered) })
			time.Sleep(time.Duration(c.StallMs) * time.Millisecond)
		}
	}
	parent, cancel := context.WithCancel(context.Background())
	defer cancel()
	pl := netty.NewPipeline()
	ch := netty.NewAsyncWriteChannel(4, c.Until)(1, parent, pl, tr, goExec{})
	netty.VerifAttach(pl, ch)
	if _, err := ch.Write1(payload(1, 16)); err != nil {
		return []string{"write failed: " + err.Error()}
	}
	select {
	case <-entered:
	case <-time.After(2 * time.Second):
		return []string{"sender never started"}
	}
	if c.ParentCancel {
		cancel()
	}
	var cerr error = errors.New("closing")
	if c.CloseNil {
		cerr = nil
	}
	done := make(chan struct{})
	go func() { ch.Close(cerr); close(done) }()
	select {
	case <-done:
	case <-time.After(5 * time.Second):
		return []string{"Close never returned"}
	}
	time.Sleep(time.Duration(c.StallMs+100) * time.Millisecond) // let a sender that lost its transport finish
	for _, e := range tr.Snapshot() {
		k := e.Kind
		if e.Err {
			k += "(failed)"
		}
		order = append(order, k)
	}
	return
}

func exploreRealtime(meta *hx.Meta) {
	for _, c := range []rtCfg{{false, false, false, 120}, {false, true, false, 120}, {true, true, true, 120}, {false, true, true, 120}} {
		order := runRealtime(c)
		meta.Evaluations++
		meta.Count("real-time (no scheduler)", fmt.Sprintf("until=%v parent-cancelled=%v", c.Until, c.ParentCancel))
		ok := len(order) >= 3 && order[0] == "writev" && order[1] == "flush" && order[2] == "close"
		if !ok {
			meta.Violate(hx.Violation{Property: "C06", Signature: "realtime-grace", Replay: map[string]interface{}{"realtime": c},
				What: fmt.Sprintf("real-time run (no scheduler): transport stalled %d ms inside Writev (grace period: 10 x 100 ms), until=%v, parent context cancelled=%v: transport saw %v, want writev, flush, close", c.StallMs, c.Until, c.ParentCancel, order)})
		}
	}
}

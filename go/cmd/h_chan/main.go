// h_chan: the real asynchronous / synchronous channel under the hook
// scheduler.  Serves C01 C02 C06 C10 C11 C18 (Go-side oracles on every
// execution) and the correspondence with coq/Model/Chan.v (the model replays
// the very schedule the implementation ran).
package main

import (
	"context"
	"errors"
	"fmt"
	"os"
	"strings"
	"time"

	netty "github.com/go-netty/go-netty"
	"github.com/go-netty/go-netty/utils/pool/pbytes"
	"verifharness/hx"
	"verifharness/mock"
	"verifharness/sched"
)

// ---------- configuration ----------
type callSpec struct {
	Kind    int  `json:"kind"` // 0 Write1 1 Writev 2 CtxWrite1 3 CtxWritev 4 Writer().Write
	CtxDone bool `json:"ctxdone,omitempty"`
	CtxLive bool `json:"ctxlive,omitempty"` // a cancellable context that is never cancelled (Done() != nil)
	CtxDL   bool `json:"ctxdl,omitempty"`   // ... and it carries a deadline far in the future
	Size    int  `json:"size"`
	Segs    int  `json:"segs,omitempty"`  // vector writes: number of segments (0 = two)
	Empty   bool `json:"empty,omitempty"` // synchronous channels only: a truly empty payload (nil / zero-length slice), no header
}
type writerSpec struct {
	Calls []callSpec `json:"calls"`
	Late  bool       `json:"late,omitempty"` // starts only after a Close call has returned
}
type cfg struct {
	Starve  bool         `json:"starve,omitempty"` // the schedule may let Close poll any number of times in a row (sender starved)
	QCap    int          `json:"qcap"`             // 0 = synchronous channel
	FailW   int          `json:"failw,omitempty"`  // synchronous channel: the k-th transport Write/Writev call fails
	Until   bool         `json:"until"`
	Writers []writerSpec `json:"writers"`
	Closers []int        `json:"closers"` // error ids; 0 = Close(nil)
	Quiet   bool         `json:"quiet"`   // closers start only after every non-late writer returned
	Parent  bool         `json:"parent"`  // a thread cancels the parent context
	Strat   string       `json:"strat"`
	Picks   []int        `json:"picks,omitempty"` // replay: index among enabled threads at each step
}

// segments splits a payload into n (1..3) vector segments; 0 means the historical 2-way split
func segments(buf []byte, n int) [][]byte {
	switch n {
	case 1:
		return [][]byte{buf}
	case 3:
		a, b := len(buf)/3, 2*len(buf)/3
		return [][]byte{buf[:a], buf[a:b], buf[b:]}
	}
	h := len(buf) / 2
	return [][]byte{buf[:h], buf[h:]}
}

var kindCoq = []string{"KWrite1", "KWritev", "KCtxWrite1", "KCtxWritev", "KWriter"}

type callObs struct {
	ErrID    int `json:"errid"` // identity of the error a failed call reported: id of an idErr, 0 = the channel-closed sentinel, -1 other
	W, K     int
	Cid      int
	Begin    int // scheduler step at which the call began / returned
	Ret      int
	Res      string // ok nospace ctx closed other
	Parked   bool
	QFullSel bool
	Selected bool // the call reached its enqueue select ...
	Enqueued bool // ... and the queue grew by one during that step
	Payload  []byte
}

type obs struct {
	Calls      []*callObs
	Log        []mock.TEvent
	Batches    [][]int
	Trace      []sched.Step
	Picks      []int
	CloseBegin []int
	CloseRet   []int
	Inactive   []int
	Final      netty.VerifChanState
	TClosed    int
	Parked     []string
	MaxQ       int
	TwoSenders string // two goroutines were inside the sender's token region (poll .. flush) at the same time
	WriteSteps []int  // synchronous channel: call id of every t.write / t.writev step, in order (k-th step = k-th transport write event)
	MaxUnsent  int    // largest number of payloads accepted (call returned ok) and not yet handed to the transport
	Winner     int    // id of the Close call that took effect (-1: closed from inside, -2: never closed)
	Stuck      string // a goroutine blocked although the scheduler's enabling condition said it could proceed
	viol       []hx.Violation
}

type inactiveProbe struct{ o *obs }

func (p inactiveProbe) HandleInactive(ctx netty.InactiveContext, ex netty.Exception) {
	id := 0
	var ie *idErr
	if errors.As(ex, &ie) {
		id = ie.id
	} else if ex != nil {
		id = 1 // the transport's own error (sender failure path)
	}
	p.o.Inactive = append(p.o.Inactive, id)
	ctx.HandleInactive(ex)
}

type idErr struct{ id int }

func (e *idErr) Error() string { return fmt.Sprintf("close-%d", e.id) }

func payload(cid, size int) []byte {
	b := make([]byte, size+4)
	b[0], b[1], b[2], b[3] = byte(cid>>8), byte(cid), byte(size>>8), byte(size)
	for i := 4; i < len(b); i++ {
		b[i] = byte(cid*31 + i)
	}
	return b
}

func classify(err error) string {
	switch {
	case err == nil:
		return "ok"
	case errors.Is(err, netty.ErrAsyncNoSpace):
		return "nospace"
	case errors.Is(err, context.Canceled), errors.Is(err, context.DeadlineExceeded):
		return "ctx"
	}
	return "closed"
}

func runCfg(c cfg, choose func(step int, en []*sched.Thread, last *sched.Thread) int) *obs {
	s := sched.New()
	netty.SetVerifSched(s)
	defer netty.SetVerifSched(nil)
	o := &obs{}
	tr := &mock.Transport{}
	pl := netty.NewPipeline()
	pl.AddLast(inactiveProbe{o})
	parent, cancelParent := context.WithCancel(context.Background())
	defer cancelParent()
	ex := &sched.Executor{S: s}
	var ch netty.Channel
	if c.QCap == 0 {
		ch = netty.NewChannel()(1, parent, pl, tr, ex)
		tr.Yield = func(p string) { s.Yield(p, nil) }
		tr.FailWrite = c.FailW
	} else {
		ch = netty.NewAsyncWriteChannel(c.QCap, c.Until)(1, parent, pl, tr, ex)
	}
	netty.VerifAttach(pl, ch)
	live, liveCancel := context.WithCancel(context.Background())
	_ = liveCancel
	liveDL, dlCancel := context.WithDeadline(context.Background(), time.Now().Add(time.Hour))
	_ = dlCancel
	cancelled, cancelFn := context.WithCancel(context.Background())
	cancelFn()
	cur := map[int]*callObs{}
	closeReturned := false
	writersLeft := 0
	var selCall *callObs
	selQLen := 0
	settle := func() {
		if selCall != nil {
			selCall.Enqueued = netty.VerifState(ch).QLen == selQLen+1
			selCall = nil
		}
	}
	s.OnStep = func(t *sched.Thread) {
		settle()
		if c.QCap > 0 && o.TwoSenders == "" {
			var in []string
			for _, th := range s.All {
				if !th.Done() && (th.Point == "s.poll" || th.Point == "s.writev" || th.Point == "s.len1" || th.Point == "s.flush") {
					in = append(in, th.Name+"@"+th.Point)
				}
			}
			if len(in) >= 2 {
				o.TwoSenders = strings.Join(in, ", ")
			}
		}
		st := netty.VerifState(ch)
		if st.QLen > o.MaxQ {
			o.MaxQ = st.QLen
		}
		if c.QCap > 0 {
			acc, sent, failed := 0, 0, false
			for _, cl := range o.Calls {
				if cl.Res == "ok" {
					acc++
				}
			}
			for _, e := range tr.Snapshot() {
				if e.Kind == "write" || e.Kind == "writev" {
					sent += len(e.Bufs)
					failed = failed || e.Err
				}
			}
			if !failed && acc-sent > o.MaxUnsent {
				o.MaxUnsent = acc - sent
			}
		}
		if c.QCap == 0 && (t.Point == "t.write" || t.Point == "t.writev") {
			id := -1
			if cl := cur[t.Index]; cl != nil {
				id = cl.Cid
			}
			o.WriteSteps = append(o.WriteSteps, id)
		}
		if t.Point == "w.select" {
			if cl := cur[t.Index]; cl != nil {
				cl.QFullSel = st.QLen == st.QCap
				cl.Selected, selCall, selQLen = true, cl, st.QLen
			}
		}
	}
	for w, ws := range c.Writers {
		w, ws := w, ws
		if !ws.Late {
			writersLeft++
		}
		var th *sched.Thread
		th = s.Spawn(fmt.Sprintf("w%d", w), func() {
			if ws.Late {
				s.Yield("wait-close", func() bool { return closeReturned })
			}
			defer func() {
				if e := recover(); e != nil {
					o.viol = append(o.viol, hx.Violation{Property: "C10", What: "a write call failed with a runtime fault (pooled buffer of the wrong size class / shared with another payload): " + fmt.Sprint(e), Signature: "write-fault"})
					o.viol = append(o.viol, hx.Violation{Property: "C01", What: "a write call failed with a runtime fault: " + fmt.Sprint(e), Signature: "write-fault"})
				}
			}()
			for k, cs := range ws.Calls {
				co := &callObs{W: w, K: k, Begin: s.NStep}
				o.Calls = append(o.Calls, co)
				cur[th.Index] = co
				co.Cid = w*100 + k + 1
				buf := payload(co.Cid, cs.Size)
				if cs.Empty && c.QCap == 0 {
					buf = []byte{}
					if cs.Kind == 0 {
						buf = nil
					}
				}
				co.Payload = append([]byte(nil), buf...)
				cctx := context.Background()
				if cs.CtxLive {
					cctx = live
					if cs.CtxDL {
						cctx = liveDL
					}
				}
				if cs.CtxDone {
					cctx = cancelled
				}
				var err error
				switch cs.Kind {
				case 0:
					_, err = ch.Write1(buf)
				case 1:
					_, err = ch.Writev(segments(buf, cs.Segs))
				case 2:
					_, err = ch.CtxWrite1(cctx, buf)
				case 3:
					_, err = ch.CtxWritev(cctx, segments(buf, cs.Segs))
				case 4:
					_, err = ch.Writer().Write(buf)
				}
				co.Ret, co.Res = s.NStep, classify(err)
				co.ErrID = -1
				var ie *idErr
				if errors.As(err, &ie) {
					co.ErrID = ie.id
				} else if errors.Is(err, netty.ErrChannelClosed) {
					co.ErrID = 0
				}
				// C10: the caller reuses its buffer immediately
				for i := range buf {
					buf[i] = 0xEE
				}
			}
			if !ws.Late {
				writersLeft--
			}
		})
	}
	closerID := map[int]int{}
	for _, id := range c.Closers {
		id := id
		var cth *sched.Thread
		cth = s.Spawn("closer", func() {
			_ = cth
			if c.Quiet {
				s.Yield("wait-writers", func() bool { return writersLeft == 0 })
			}
			o.CloseBegin = append(o.CloseBegin, s.NStep)
			var e error
			if id != 0 {
				e = &idErr{id}
			}
			ch.Close(e)
			o.CloseRet = append(o.CloseRet, s.NStep)
			closeReturned = true
			if ch.IsActive() {
				o.viol = append(o.viol, hx.Violation{Property: "C05", What: "IsActive() is true after a Close call returned", Signature: "isactive"})
			}
		})
		closerID[cth.Index] = id
	}
	if c.Parent {
		s.Spawn("parent", func() { cancelParent() })
	}
	// C10: a goroutine that obtains, scribbles on and returns pooled buffers of the payload classes
	s.Spawn("pooluser", func() {
		for i := 0; i < 3; i++ {
			s.Yield("pool.get", nil)
			b := pbytes.Get(1024)
			*b = (*b)[:cap(*b)]
			for j := range *b {
				(*b)[j] = 0x55
			}
			s.Yield("pool.put", nil)
			*b = (*b)[:0]
			pbytes.Put(b)
		}
	})
	var last *sched.Thread
	step := 0
	s.StuckAfter = 4 * time.Second // generous: a loaded machine must not make a slow step look like a blocked goroutine
	s.Unfair = c.Starve
	s.MaxSteps = 20000
	o.Winner = -2
	noteWinner := func() {
		if o.Winner == -2 && last != nil && netty.VerifState(ch).Closed {
			if id, ok := closerID[last.Index]; ok {
				o.Winner = id
			} else {
				o.Winner = -1 // closed from inside (sender failure)
			}
		}
	}
	s.Run(func(en []*sched.Thread) *sched.Thread {
		noteWinner()
		k := choose(step, en, last)
		step++
		o.Picks = append(o.Picks, k)
		last = en[k]
		return en[k]
	})
	noteWinner()
	settle()
	if s.Stuck != nil {
		o.Stuck = s.Stuck.Name + "@" + s.Stuck.Point
	}
	if s.Aborted {
		o.Stuck = "step bound exceeded (a goroutine polls for ever)"
	}
	o.Trace = s.Trace
	o.Log = tr.Snapshot()
	o.Final = netty.VerifState(ch)
	for _, t := range s.Parked() {
		o.Parked = append(o.Parked, t.Name+"@"+t.Point)
	}
	for _, e := range o.Log {
		if e.Kind == "close" {
			o.TClosed++
		}
	}
	return o
}

// ---------- oracles ----------
func check(c cfg, o *obs, meta *hx.Meta) {
	rep := func() map[string]interface{} {
		cc := c
		cc.Picks = o.Picks
		return map[string]interface{}{"cfg": cc}
	}
	byCid := map[int]*callObs{}
	for _, cl := range o.Calls {
		byCid[cl.Cid] = cl
	}
	if o.Stuck != "" {
		prop, what := "C02", "a goroutine blocked for ever outside every hook: "+o.Stuck
		if strings.HasPrefix(o.Stuck, "w") && !c.Until {
			prop, what = "C18", "a write call on a NON-BLOCKING channel blocked (it must return 'no space' at once when the queue is full): "+o.Stuck
		}
		meta.Violate(hx.Violation{Property: prop, Signature: "blocked-call", What: what, Replay: rep()})
		meta.Violate(hx.Violation{Property: "C01", Signature: "blocked-call", What: what, Replay: rep()})
		return
	}
	// reconstruct the packets on the transport
	type sent struct {
		cid, at int
	}
	var sentPk []sent
	seen := map[int]bool{}
	closeAt, lastFlush := -1, -1
	o.Batches = nil
	for i, e := range o.Log {
		switch e.Kind {
		case "close":
			if closeAt < 0 {
				closeAt = i
			}
		case "flush":
			if !e.Err {
				lastFlush = i
			}
		case "write", "writev":
			if e.Err {
				continue
			}
			var batch []int
			bufs := e.Bufs
			if c.QCap == 0 && e.Kind == "writev" { // synchronous Writev: the caller's buffers of ONE call
				var all []byte
				for _, b := range bufs {
					all = append(all, b...)
				}
				bufs = [][]byte{all}
			}
			for _, b := range bufs {
				if c.QCap == 0 && len(b) == 0 {
					continue // a truly empty payload: identified through the trace (WriteSteps), not through a header
				}
				if len(b) < 4 {
					meta.Violate(hx.Violation{Property: "C01", What: "a foreign/short buffer reached the transport", Signature: "foreign", Replay: rep()})
					continue
				}
				id := int(b[0])<<8 | int(b[1])
				cl := byCid[id]
				batch = append(batch, id)
				if cl == nil {
					scribbled := len(b) > 0
					for _, x := range b {
						if x != 0xEE && x != 0x55 {
							scribbled = false
						}
					}
					if scribbled {
						meta.Violate(hx.Violation{Property: "C10", What: "a payload reached the transport overwritten by the caller's later buffer reuse / a pool user (snapshot semantics broken)", Signature: "snapshot", Replay: rep()})
					}
					meta.Violate(hx.Violation{Property: "C01", What: fmt.Sprintf("payload %d on the transport was never written", id), Signature: "foreign", Replay: rep()})
					continue
				}
				if string(b) != string(cl.Payload) {
					meta.Violate(hx.Violation{Property: "C10", What: fmt.Sprintf("payload of call %d.%d reached the transport modified (caller buffer reuse / pool recycling)", cl.W, cl.K), Signature: "snapshot", Replay: rep()})
				}
				if seen[id] {
					meta.Violate(hx.Violation{Property: "C01", What: fmt.Sprintf("payload of call %d.%d transmitted twice", cl.W, cl.K), Signature: "duplicate", Replay: rep()})
				}
				seen[id] = true
				if cl.Res != "ok" && cl.Ret > 0 && closeAt < 0 && o.TClosed == 0 { // premise: the transport accepts writes
					meta.Violate(hx.Violation{Property: "C01", What: fmt.Sprintf("call %d.%d returned %s but its bytes were transmitted", cl.W, cl.K, cl.Res), Signature: "error-but-sent", Replay: rep()})
				}
				if closeAt >= 0 {
					meta.Violate(hx.Violation{Property: "C11", What: "bytes accepted by the transport after Close", Signature: "after-close", Replay: rep()})
				}
				sentPk = append(sentPk, sent{id, i})
			}
			o.Batches = append(o.Batches, batch)
		}
	}
	// order: program order and real-time order among transmitted payloads
	for i := 0; i < len(sentPk); i++ {
		for j := i + 1; j < len(sentPk); j++ {
			a, b := byCid[sentPk[i].cid], byCid[sentPk[j].cid]
			if a == nil || b == nil {
				continue
			}
			if a.W == b.W && a.K > b.K {
				meta.Violate(hx.Violation{Property: "C01", What: fmt.Sprintf("writer %d: payload of call %d transmitted before call %d", a.W, a.K, b.K), Signature: "program-order", Replay: rep()})
			}
			if b.Ret < a.Begin && b.Res == "ok" && a.Res == "ok" {
				meta.Violate(hx.Violation{Property: "C01", What: "a call that returned before another began was transmitted after it", Signature: "realtime-order", Replay: rep()})
			}
		}
	}
	// back-pressure
	for _, cl := range o.Calls {
		if c.QCap > 0 && cl.Res == "ok" && cl.Selected && !cl.Enqueued {
			what := fmt.Sprintf("call %d.%d reported success but nothing was enqueued by its select (the channel context or the caller's context had ended while it waited for queue space: it must return that error)", cl.W, cl.K)
			meta.Violate(hx.Violation{Property: "C18", What: what, Signature: "ok-not-enqueued", Replay: rep()})
			meta.Violate(hx.Violation{Property: "C11", What: what, Signature: "ok-not-enqueued", Replay: rep()})
			meta.Violate(hx.Violation{Property: "C01", What: what, Signature: "ok-not-enqueued", Replay: rep()})
		}
		if cl.Res == "nospace" && !cl.QFullSel {
			meta.Violate(hx.Violation{Property: "C18", What: "ErrAsyncNoSpace although the queue was not full", Signature: "nospace", Replay: rep()})
		}
		if cl.Res == "nospace" && c.Until {
			meta.Violate(hx.Violation{Property: "C18", What: "ErrAsyncNoSpace in blocking mode", Signature: "nospace", Replay: rep()})
		}
	}
	if o.TwoSenders != "" {
		what := "two goroutines are sending at the same time (both between polling the queue and the flush): " + o.TwoSenders + " - two batches are in flight, beyond the queue size plus ONE batch"
		meta.Violate(hx.Violation{Property: "C18", What: what, Signature: "two-senders", Replay: rep()})
		meta.Violate(hx.Violation{Property: "C01", What: what, Signature: "two-senders", Replay: rep()})
		meta.Violate(hx.Violation{Property: "C02", What: what, Signature: "two-senders", Replay: rep()})
		meta.Violate(hx.Violation{Property: "C12", What: what + " (unsynchronised use of the shared batch slices)", Signature: "two-senders", Replay: rep()})
	}
	if c.QCap > 0 && o.MaxUnsent > c.QCap+c.QCap/2+1 {
		meta.Violate(hx.Violation{Property: "C18", What: fmt.Sprintf("%d payloads accepted and not yet sent: more than the queue size %d plus one batch (%d)", o.MaxUnsent, c.QCap, c.QCap/2+1), Signature: "bound", Replay: rep()})
	}
	if o.MaxQ > c.QCap {
		meta.Violate(hx.Violation{Property: "C18", What: "queue longer than its capacity", Signature: "bound", Replay: rep()})
	}
	for _, p := range o.Parked {
		if strings.HasSuffix(p, "@w.select") && !c.Until {
			meta.Violate(hx.Violation{Property: "C18", What: "a write call is parked in non-blocking mode: " + p, Signature: "parked", Replay: rep()})
		}
	}
	// C11: calls begun after a Close call returned
	firstRet := -1
	for _, r := range o.CloseRet {
		if firstRet < 0 || r < firstRet {
			firstRet = r
		}
	}
	for _, cl := range o.Calls {
		if firstRet >= 0 && cl.Begin >= firstRet {
			if cl.Res == "ok" || seen[cl.Cid] {
				meta.Violate(hx.Violation{Property: "C11", What: fmt.Sprintf("write begun after Close returned: result %s, transmitted=%v", cl.Res, seen[cl.Cid]), Signature: "write-after-close", Replay: rep()})
			}
		}
		if cl.Res == "other" {
			meta.Violate(hx.Violation{Property: "C11", What: "write returned an unexpected error", Signature: "other-error", Replay: rep()})
		}
	}
	// C05: the inactive event carries the error of the Close call that took effect.  (C11 only demands a
	// non-nil error from writes on a closed channel, not a particular one: no identity check there.)
	if o.Winner >= 0 {
		if len(o.Inactive) == 1 && o.Inactive[0] != o.Winner {
			meta.Violate(hx.Violation{Property: "C05", What: fmt.Sprintf("the inactive event carries error identity %d, the Close call that took effect was given %d", o.Inactive[0], o.Winner), Signature: "wrong-inactive-error", Replay: rep()})
		}
	}
	for _, p := range o.Parked {
		if strings.HasSuffix(p, "@w.lock") {
			meta.Violate(hx.Violation{Property: "C07", What: "a write call waits for the write lock for ever (" + p + "): an earlier call left the lock held after its transport write failed - the channel is open but unusable", Signature: "write-lock-never-released", Replay: rep()})
		}
	}
	// no stranded writes / deadlock at quiescence
	if len(o.Parked) > 0 {
		what := "threads parked for ever at quiescence: " + strings.Join(o.Parked, ",")
		prop := "C02"
		if len(c.Closers) > 0 || c.Parent {
			prop = "C18"
		}
		meta.Violate(hx.Violation{Property: prop, What: what, Signature: "deadlock", Replay: rep()})
	}
	if len(c.Closers) == 0 && !c.Parent {
		for _, cl := range o.Calls {
			if cl.Res == "ok" && !seen[cl.Cid] {
				meta.Violate(hx.Violation{Property: "C02", What: fmt.Sprintf("payload of call %d.%d was accepted but never transmitted (stranded in the queue)", cl.W, cl.K), Signature: "stranded", Replay: rep()})
			}
		}
		lastWrite := -1
		for i, e := range o.Log {
			if (e.Kind == "write" || e.Kind == "writev") && !e.Err {
				lastWrite = i
			}
		}
		if lastWrite > lastFlush {
			meta.Violate(hx.Violation{Property: "C02", What: "bytes left unflushed at quiescence", Signature: "unflushed", Replay: rep()})
		}
		if o.Final.QLen != 0 || o.Final.Running {
			meta.Violate(hx.Violation{Property: "C02", What: fmt.Sprintf("at quiescence queue length %d running %v", o.Final.QLen, o.Final.Running), Signature: "stranded", Replay: rep()})
		}
	}
	// C06: payloads accepted before Close was invoked
	if len(o.CloseBegin) > 0 && c.QCap > 0 && !c.Parent {
		first := o.CloseBegin[0]
		for _, b := range o.CloseBegin {
			if b < first {
				first = b
			}
		}
		polls := 0
		for _, st := range o.Trace {
			if st.Name == "closer" && st.Point == "c.sleep" {
				polls++
			}
		}
		for _, cl := range o.Calls {
			if cl.Res == "ok" && cl.Ret <= first && (c.Until || polls < 10) {
				at := -1
				for _, sp := range sentPk {
					if sp.cid == cl.Cid {
						at = sp.at
					}
				}
				flushedBefore := false
				for i := at + 1; at >= 0 && i < len(o.Log) && (closeAt < 0 || i < closeAt); i++ {
					if o.Log[i].Kind == "flush" && !o.Log[i].Err {
						flushedBefore = true
					}
				}
				if at < 0 || !flushedBefore {
					meta.Violate(hx.Violation{Property: "C06", What: fmt.Sprintf("payload of call %d.%d was accepted before Close was invoked but not transmitted and flushed before the transport was closed", cl.W, cl.K), Signature: "lost-on-close", Replay: rep()})
				}
			}
		}
	}
	// C05-ish sanity used by several properties
	if o.TClosed > 1 {
		meta.Violate(hx.Violation{Property: "C05", What: "transport closed more than once", Signature: "double-close", Replay: rep()})
	}
	for _, v := range o.viol {
		v.Replay = rep()
		meta.Violate(v)
	}
}

// ---------- Coq emission ----------
func pointOK(name, point string) bool {
	// steps that have no counterpart in the model
	if point == "start" && !strings.HasPrefix(name, "sender") {
		return false
	}
	switch point {
	case "wait-close", "wait-writers", "pool.get", "pool.put":
		return false
	}
	return name != "pooluser"
}

func (c cfg) coq(id int, o *obs) string {
	// threads in spawn order: writers, closers, [parent], pooluser, then senders
	var ths []string
	for w, ws := range c.Writers {
		var calls []string
		for k, cs := range ws.Calls {
			calls = append(calls, fmt.Sprintf("{| cid := %d; ckind := %s; cctx_done := %s |}", w*100+k+1, kindCoq[cs.Kind], hx.Bool(cs.CtxDone)))
		}
		ths = append(ths, fmt.Sprintf("TWriter %s WCheck []", hx.List(calls)))
	}
	for _, e := range c.Closers {
		ths = append(ths, fmt.Sprintf("TCloser CCas {| c_err := %d; c_polls := 0 |} None", e))
	}
	if c.Parent {
		ths = append(ths, "TDone")
	}
	ths = append(ths, "TDone") // pooluser
	// NOTE: cids are assigned in call-begin order by the harness; recompute the mapping
	results := map[int]string{}
	for _, cl := range o.Calls {
		results[cl.Cid] = cl.Res
	}
	var sch []string
	resOf := map[string]string{"ok": "CEnq", "ctx": "CCtx", "closed": "CChan", "nospace": "CAuto"}
	checks := map[int]int{} // writer thread -> number of calls begun so far
	callsOf := map[int][]*callObs{}
	for _, cl := range o.Calls {
		callsOf[cl.W] = append(callsOf[cl.W], cl)
	}
	for _, st := range o.Trace {
		if st.Name == "parent" {
			if st.Point == "start" {
				sch = append(sch, "ParentCancel")
			}
			continue
		}
		if !pointOK(st.Name, st.Point) {
			continue
		}
		choice := "CAuto"
		if st.Point == "w.check" {
			checks[st.Thread]++
		}
		if st.Point == "w.select" {
			w := st.Thread
			if k := checks[w] - 1; k >= 0 && k < len(callsOf[w]) {
				choice = resOf[callsOf[w][k].Res]
			}
		}
		sch = append(sch, fmt.Sprintf("Run %d %s", st.Thread, choice))
	}
	return fmt.Sprintf("{| cc_id := %d; cc_qcap := %d; cc_until := %s; cc_threads := %s; cc_sched := %s; cc_obs := %s |}",
		id, c.QCap, hx.Bool(c.Until), hx.List(ths), hx.List(sch), o.coqObs(c))
}

// the synchronous channel: a case for Model/SyncChan.v (threads in spawn order: writers, closers, [parent], pool user)
func (c cfg) coqSync(id int, o *obs) string {
	var ths []string
	for w, ws := range c.Writers {
		var ids []string
		for k := range ws.Calls {
			ids = append(ids, fmt.Sprint(w*100+k+1))
		}
		ths = append(ths, fmt.Sprintf("YWriter %s YCheck []", hx.List(ids)))
	}
	for _, e := range c.Closers {
		ths = append(ths, fmt.Sprintf("YCloser %d KCas", e))
	}
	if c.Parent {
		ths = append(ths, "YDone")
	}
	ths = append(ths, "YDone") // pool user
	var sch []string
	writes := 0
	for _, st := range o.Trace {
		if st.Name == "parent" {
			if st.Point == "start" {
				sch = append(sch, "YParent")
			}
			continue
		}
		if !pointOK(st.Name, st.Point) {
			continue
		}
		fail := false
		if st.Point == "t.write" || st.Point == "t.writev" {
			writes++
			fail = writes == c.FailW
		}
		sch = append(sch, fmt.Sprintf("YRun %d %s", st.Thread, hx.Bool(fail)))
	}
	var res []string
	for w := range c.Writers {
		var rs []string
		for _, cl := range o.Calls {
			if cl.W != w || cl.Res == "" {
				continue
			}
			r := "YOk"
			if cl.Res != "ok" {
				r = "YClosed"
				if cl.ErrID == -1 {
					r = "YFail" // the transport's own error
				}
			}
			rs = append(rs, fmt.Sprintf("(%d, %s)", cl.Cid, r))
		}
		res = append(res, hx.List(rs))
	}
	var tl []string
	k := 0
	for _, e := range o.Log {
		if e.Kind != "write" && e.Kind != "writev" {
			continue
		}
		if k < len(o.WriteSteps) && !e.Err {
			tl = append(tl, fmt.Sprint(o.WriteSteps[k]))
		}
		k++
	}
	ina := make([]string, len(o.Inactive))
	for i := range o.Inactive {
		ina[i] = fmt.Sprint(o.Inactive[i])
	}
	return fmt.Sprintf("{| yc_id := %d; yc_threads := %s; yc_sched := %s; yc_results := %s; yc_tlog := %s; yc_tclosed := %d; yc_inactive := %s; yc_closed := %s; yc_ctx := %s; yc_parked := %s |}",
		id, hx.List(ths), hx.List(sch), hx.List(res), hx.List(tl), o.TClosed, hx.List(ina), hx.Bool(o.Final.Closed), hx.Bool(o.Final.CtxDone), hx.Bool(len(o.Parked) > 0 || o.Stuck != ""))
}

func (o *obs) coqObs(c cfg) string {
	var res []string
	for w := range c.Writers {
		var rs []string
		for _, cl := range o.Calls {
			if cl.W == w && cl.Ret > 0 || cl.W == w && cl.Res != "" {
				r := map[string]string{"ok": "ROk", "nospace": "RNoSpace", "ctx": "RCtxErr", "closed": "RClosed"}[cl.Res]
				if r == "" {
					continue
				}
				rs = append(rs, fmt.Sprintf("(%d, %s)", cl.Cid, r))
			}
		}
		res = append(res, hx.List(rs))
	}
	var bs []string
	for _, b := range o.Batches {
		xs := make([]string, len(b))
		for i := range b {
			xs[i] = fmt.Sprint(b[i])
		}
		bs = append(bs, hx.List(xs))
	}
	ina := make([]string, len(o.Inactive))
	for i := range o.Inactive {
		ina[i] = fmt.Sprint(o.Inactive[i])
	}
	return fmt.Sprintf("{| ob_results := %s; ob_tlog := %s; ob_qlen := %d; ob_running := %s; ob_closed := %s; ob_ctxdone := %s; ob_tclosed := %d; ob_inactive := %s |}",
		hx.List(res), hx.List(bs), o.Final.QLen, hx.Bool(o.Final.Running), hx.Bool(o.Final.Closed), hx.Bool(o.Final.CtxDone), o.TClosed, hx.List(ina))
}

func main() {
	args := hx.ParseArgs()
	meta := hx.NewMeta("h_chan", args.Seed, args.Tier)
	devnull, _ := os.OpenFile(os.DevNull, os.O_WRONLY, 0)
	hx.KeepStderr = os.Stderr
	os.Stderr = devnull
	explore(args, meta)
}

package main

// End to end over the library's own buffered transport (transport/buffered.go): one writer (plus, on synchronous channels, a
// second goroutine that writes truly empty payloads while the first may be inside Flush), a queued or
// synchronous channel, the recording mock as the underlying net.Conn.  The bytes that arrive at the
// connection must be the concatenation of the successfully written payloads in call order (C01), and
// at rest all of them must have arrived (C02: nothing parked in the transport's write buffer).

import (
	"bytes"
	"context"
	"fmt"

	netty "github.com/go-netty/go-netty"
	"github.com/go-netty/go-netty/transport"
	"verifharness/hx"
	"verifharness/mock"
	"verifharness/sched"
)

type bufCfg struct {
	QCap  int   `json:"qcap"`
	Until bool  `json:"until"`
	WBuf  int   `json:"wbuf"`
	Kinds []int `json:"kinds"`
	Sizes []int `json:"sizes"`
	Segs  []int `json:"segs"`
	Empty int   `json:"empty,omitempty"` // synchronous channel: a second goroutine makes this many truly empty writes meanwhile
	Picks []int `json:"picks,omitempty"`
}

func runBuffered(c bufCfg, choose func(step int, en []*sched.Thread, last *sched.Thread) int) (got, want []byte, picks []int, stuck string) {
	s := sched.New()
	netty.SetVerifSched(s)
	defer netty.SetVerifSched(nil)
	conn := &mock.Transport{}
	tr := transport.NewTransport(conn, 0, c.WBuf)
	pl := netty.NewPipeline()
	ex := &sched.Executor{S: s}
	var ch netty.Channel
	if c.QCap == 0 {
		ch = netty.NewChannel()(1, context.Background(), pl, tr, ex)
		if c.Empty > 0 {
			conn.Yield = func(p string) { s.Yield(p, nil) } // the connection is a scheduling point: a writer can be inside Flush
		}
	} else {
		ch = netty.NewAsyncWriteChannel(c.QCap, c.Until)(1, context.Background(), pl, tr, ex)
	}
	netty.VerifAttach(pl, ch)
	s.Spawn("w0", func() {
		defer func() {
			if e := recover(); e != nil {
				stuck = "a write call failed with a runtime fault: " + fmt.Sprint(e)
			}
		}()
		for k := range c.Kinds {
			buf := payload(900+k, c.Sizes[k])
			keep := append([]byte(nil), buf...)
			var err error
			switch c.Kinds[k] {
			case 0:
				_, err = ch.Write1(buf)
			case 1:
				_, err = ch.Writev(segments(buf, c.Segs[k]))
			case 2:
				_, err = ch.CtxWrite1(context.Background(), buf)
			case 3:
				_, err = ch.CtxWritev(context.Background(), segments(buf, c.Segs[k]))
			default:
				_, err = ch.Writer().Write(buf)
			}
			if err == nil {
				want = append(want, keep...)
			}
		}
	})
	if c.QCap == 0 && c.Empty > 0 {
		s.Spawn("w1", func() {
			defer func() {
				if e := recover(); e != nil {
					stuck = "an empty write call failed with a runtime fault: " + fmt.Sprint(e)
				}
			}()
			for k := 0; k < c.Empty; k++ {
				if k%2 == 0 {
					ch.Write1(nil)
				} else {
					ch.Writer().Write([]byte{})
				}
			}
		})
	}
	var last *sched.Thread
	step := 0
	s.MaxSteps = 20000
	s.Run(func(en []*sched.Thread) *sched.Thread {
		k := choose(step, en, last)
		if k >= len(en) {
			k = 0
		}
		step++
		picks = append(picks, k)
		last = en[k]
		return en[k]
	})
	if s.Aborted {
		stuck = "step bound exceeded"
	}
	got = conn.Sent()
	return
}

func exploreBuffered(rng *hx.Rng, meta *hx.Meta, prop string, n int) {
	for i := 0; i < n; i++ {
		c := bufCfg{QCap: []int{0, 1, 2, 4, 8}[rng.Intn(5)], Until: rng.Bool(), WBuf: []int{16, 64, 1024, 4096}[rng.Intn(4)]}
		if !c.Until && c.QCap > 0 {
			c.Until = true // a non-blocking queue may reject calls: still fine, but keep most payloads
		}
		for k, m := 0, 2+rng.Intn(4); k < m; k++ {
			c.Kinds = append(c.Kinds, rng.Intn(5))
			c.Sizes = append(c.Sizes, []int{0, 1, 7, 15, 16, 17, 100, c.WBuf - 1, c.WBuf, c.WBuf + 1, 2*c.WBuf + 3}[rng.Intn(11)])
			c.Segs = append(c.Segs, 1+rng.Intn(3))
		}
		if c.QCap == 0 && rng.Chance(50) {
			c.Empty = 1 + rng.Intn(3)
			meta.Count("buffered transport", "synchronous, a second goroutine writes empty payloads")
		}
		var strat func(int, []*sched.Thread, *sched.Thread) int
		if i%2 == 0 {
			strat = randomStrat(rng)
		} else {
			strat = stickyStrat(rng, 10)
		}
		got, want, picks, stuck := runBuffered(c, strat)
		meta.Evaluations++
		meta.Count("buffered transport", fmt.Sprintf("write buffer %d", c.WBuf))
		c.Picks = picks
		rep := map[string]interface{}{"buffered": c}
		if stuck != "" {
			meta.Violate(hx.Violation{Property: prop, Signature: "buffered-stuck", What: "channel over the buffered transport never comes to rest / faults: " + stuck, Replay: rep})
			meta.Violate(hx.Violation{Property: "C10", Signature: "write-fault", What: "channel over the buffered transport: " + stuck, Replay: rep})
			continue
		}
		if !bytes.HasPrefix(want, got) {
			meta.Violate(hx.Violation{Property: "C01", Signature: "buffered-order", What: fmt.Sprintf("over transport.NewTransport(write buffer %d) the bytes at the connection are not a prefix of the successfully written payloads in call order (got %d bytes, want %d)", c.WBuf, len(got), len(want)), Replay: rep})
		} else if len(got) != len(want) {
			meta.Violate(hx.Violation{Property: "C02", Signature: "buffered-unflushed", What: fmt.Sprintf("over transport.NewTransport(write buffer %d) only %d of %d accepted bytes reached the connection at rest (the rest is parked in the write buffer)", c.WBuf, len(got), len(want)), Replay: rep})
		}
		meta.Distinct(fmt.Sprint("buffered", c.QCap, c.WBuf, c.Kinds, c.Sizes, picks))
	}
}

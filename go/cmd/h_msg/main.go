// h_msg: C09 - message-level contiguity under concurrent Channel.Write calls,
// through real pipelines (with and without the shipped codecs) on sync and
// async channels under the hook scheduler.
package main

import (
	"bytes"
	"context"
	"encoding/binary"
	"fmt"
	"io"
	"os"
	"strings"

	netty "github.com/go-netty/go-netty"
	"github.com/go-netty/go-netty/codec/format"
	"github.com/go-netty/go-netty/codec/frame"
	"verifharness/hx"
	"verifharness/mock"
	"verifharness/sched"
	"verifharness/wire"
)

type scenario struct {
	Pipe   string `json:"pipe"` // none | delim-text | lenfield
	Kind   string `json:"kind"` // bytes vec buffer stringsreader reader-small reader-large string
	Kind2  string `json:"kind2,omitempty"` // odd-numbered writers send this type instead (mixed traffic)
	Size   int    `json:"size"`
	Async  int    `json:"async"` // queue size, 0 = synchronous
	N      int    `json:"n"`     // concurrent writers
	Picks  []int  `json:"picks,omitempty"`
	Forced bool   `json:"forced,omitempty"`
}

type onlyReader struct{ r io.Reader }

func (o onlyReader) Read(p []byte) (int, error) { return o.r.Read(p) }

func body(w, size int) []byte {
	b := make([]byte, size)
	for i := range b {
		b[i] = byte('A' + w)
	}
	if size >= 2 {
		b[0], b[size-1] = '<', '>'
	}
	return b
}

func mkMsg(sc scenario, w int) interface{} {
	b := body(w, sc.Size)
	kind := sc.Kind
	if sc.Kind2 != "" && w%2 == 1 {
		kind = sc.Kind2
	}
	switch kind {
	case "bytes":
		return b
	case "vec":
		return [][]byte{b[:len(b)/2], b[len(b)/2:]}
	case "buffer":
		return bytes.NewBuffer(b)
	case "stringsreader":
		return strings.NewReader(string(b))
	case "bytesreader":
		return bytes.NewReader(b)
	case "reader-small", "reader-large":
		return onlyReader{bytes.NewReader(b)}
	case "string":
		return string(b)
	}
	return b
}

func build(sc scenario, tr *mock.Transport, ex netty.Executor) (netty.Channel, netty.Pipeline) {
	pl := netty.NewPipeline()
	switch sc.Pipe {
	case "delim-text":
		pl.AddLast(frame.DelimiterCodec(1<<20, "\r\n", true), format.TextCodec())
	case "lenfield":
		pl.AddLast(frame.LengthFieldCodec(binary.BigEndian, 1<<20, 0, 2, 0, 2))
	}
	var ch netty.Channel
	if sc.Async > 0 {
		ch = netty.NewAsyncWriteChannel(sc.Async, true)(1, context.Background(), pl, tr, ex)
	} else {
		ch = netty.NewChannel()(1, context.Background(), pl, tr, ex)
	}
	netty.VerifAttach(pl, ch)
	return ch, pl
}

// what one message alone puts on the wire, and in how many low-level writes
func alone(sc scenario, w int) (wireBytes []byte, lowlevel int) {
	wireBytes, writes := aloneWrites(sc, w)
	return wireBytes, len(writes)
}

// the payload of every low-level write one message alone causes on a synchronous channel
func aloneWrites(sc scenario, w int) (wireBytes []byte, writes [][]byte) {
	tr := &mock.Transport{}
	ch, _ := build(scenario{Pipe: sc.Pipe, Async: 0}, tr, mock.Inline{})
	ch.Write(mkMsg(sc, w))
	for _, e := range tr.Snapshot() {
		if e.Kind == "write" || e.Kind == "writev" {
			var p []byte
			for _, b := range e.Bufs {
				p = append(p, b...)
			}
			writes = append(writes, p)
		}
	}
	return tr.Sent(), writes
}

// the message as a term of coq/Model/ConvCheck.v (mspec): the body is '<', size-2 copies of one letter, '>'
func piecesOf(b []byte) string {
	var ps []wire.Piece
	for i := 0; i < len(b); {
		j := i
		for j < len(b) && b[j] == b[i] {
			j++
		}
		if j-i >= 8 {
			ps = append(ps, wire.Piece{A: int(b[i]), B: 0, N: j - i})
		} else {
			ps = append(ps, wire.Piece{Lit: append([]byte(nil), b[i:j]...)})
		}
		i = j
	}
	return wire.CoqPieces(ps)
}

func msgCoq(sc scenario, w int) (string, bool) {
	b := body(w, sc.Size)
	switch sc.Kind {
	case "bytes":
		return "SBytes " + piecesOf(b), true
	case "vec":
		return "SVec " + hx.List([]string{piecesOf(b[:len(b)/2]), piecesOf(b[len(b)/2:])}), true
	case "buffer":
		return "SBuffer " + piecesOf(b), true
	case "stringsreader":
		return "SStringsReader " + piecesOf(b), true
	case "bytesreader":
		return "SBytesReader " + piecesOf(b), true
	case "reader-small", "reader-large":
		return "SReader " + piecesOf(b) + " [] SEOF", true
	}
	return "", false
}

func run(sc scenario, choose func(step int, en []*sched.Thread, last *sched.Thread) int) (stream []byte, picks []int, parked []string) {
	s := sched.New()
	netty.SetVerifSched(s)
	defer netty.SetVerifSched(nil)
	tr := &mock.Transport{}
	if sc.Async == 0 {
		tr.Yield = func(p string) { s.Yield(p, nil) }
		tr.SplitWritev = true // the connection's vectored write is not atomic: only the channel's write lock keeps a message together
	}
	ch, _ := build(sc, tr, &sched.Executor{S: s})
	for w := 0; w < sc.N; w++ {
		w := w
		s.Spawn(fmt.Sprintf("w%d", w), func() { ch.Write(mkMsg(sc, w)) })
	}
	var last *sched.Thread
	step := 0
	s.Run(func(en []*sched.Thread) *sched.Thread {
		k := choose(step, en, last)
		step++
		picks = append(picks, k)
		last = en[k]
		return en[k]
	})
	for _, t := range s.Parked() {
		parked = append(parked, t.Name+"@"+t.Point)
	}
	return tr.Sent(), picks, parked
}

func check(sc scenario, stream []byte, picks []int, meta *hx.Meta) (interleaved bool) {
	cc := sc
	cc.Picks = picks
	rep := map[string]interface{}{"scenario": cc}
	for w := 0; w < sc.N; w++ {
		wire, low := alone(sc, w)
		if len(wire) == 0 {
			continue
		}
		if !bytes.Contains(stream, wire) {
			interleaved = true
			sig := "single-write-interleaved"
			what := fmt.Sprintf("bytes of one %s message (%d bytes, pipeline %s, %s channel) are not contiguous on the wire", sc.Kind, sc.Size, sc.Pipe, map[bool]string{true: "async", false: "sync"}[sc.Async > 0])
			if low >= 2 {
				sig = "multi-write-message:" + sc.Kind + ":" + sc.Pipe
				what += fmt.Sprintf(" (the message is %d low-level writes)", low)
			}
			meta.Violate(hx.Violation{Property: "C09", What: what, Signature: sig, Replay: rep})
		}
	}
	return
}

func main() {
	args := hx.ParseArgs()
	meta := hx.NewMeta("h_msg", args.Seed, args.Tier)
	devnull, _ := os.OpenFile(os.DevNull, os.O_WRONLY, 0)
	hx.KeepStderr = os.Stderr
	os.Stderr = devnull
	rng := hx.NewRng(args.Seed)
	meta.Rule = "2-3 goroutines calling Channel.Write concurrently under the hook scheduler; message types []byte, [][]byte, *bytes.Buffer, strings.Reader, bytes.Reader (sizes 2..5000 across the 1024-byte streaming chunk, and 65536/65537/140000 around the largest pooled size class), io.Reader below / above the chunk, string through delimiter+text codecs, []byte through a length-field codec; sync and async channels; random and sticky schedules; non-trivial = the schedule switched goroutines while a message was being written; distinct = distinct (scenario, schedule)"
	if args.Replay != "" {
		var rp struct {
			Scenario scenario `json:"scenario"`
		}
		if err := hx.LoadReplay(args.Replay, &rp); err != nil {
			fmt.Println("cannot load replay:", err)
			os.Exit(2)
		}
		p := rp.Scenario.Picks
		stream, picks, _ := run(rp.Scenario, func(step int, en []*sched.Thread, _ *sched.Thread) int {
			if step < len(p) && p[step] < len(en) {
				return p[step]
			}
			return 0
		})
		check(rp.Scenario, stream, picks, meta)
		fmt.Printf("wire: %q\n", trunc(stream))
		if len(meta.Violations) > 0 {
			fmt.Println("REPRODUCED:", meta.Violations[0].What)
			os.Exit(1)
		}
		fmt.Println("not reproduced: messages contiguous on this schedule")
		return
	}
	// the known finding's witness: README pipeline (delimiter + text codec), two string messages,
	// goroutine 0 is preempted after its first low-level write
	for _, async := range []int{0, 4} {
		sc := scenario{Pipe: "delim-text", Kind: "string", Size: 6, Async: async, N: 2, Forced: true}
		firstWriteDone := false
		stream, picks, _ := run(sc, func(_ int, en []*sched.Thread, last *sched.Thread) int {
			// run w0 until it has completed one low-level write call, then w1 to the end, then the rest
			pick := func(name string) int {
				for k, t := range en {
					if t.Name == name {
						return k
					}
				}
				return -1
			}
			if !firstWriteDone {
				if k := pick("w0"); k >= 0 {
					if last != nil && last.Name == "w0" && last.Point == "w.check" && last.Steps > 2 {
						firstWriteDone = true
					} else {
						return k
					}
				}
			}
			if k := pick("w1"); k >= 0 {
				return k
			}
			return 0
		})
		meta.Evaluations++
		if !check(sc, stream, picks, meta) {
			meta.Notes = append(meta.Notes, fmt.Sprintf("known-finding witness (async=%d) did not interleave: %q", async, trunc(stream)))
		}
	}
	var hcs []string
	seenCase := map[string]bool{}
	emitCase := func(sc scenario) {
		key := fmt.Sprint(sc.Kind, sc.Size)
		if sc.Pipe != "none" || seenCase[key] || len(hcs) >= 200 {
			return
		}
		seenCase[key] = true
		term, ok := msgCoq(sc, 0)
		if !ok {
			return
		}
		_, writes := aloneWrites(sc, 0)
		ds := make([]string, len(writes))
		for i := range writes {
			ds[i] = wire.DgCoq(writes[i])
		}
		id := len(hcs)
		hcs = append(hcs, fmt.Sprintf("{| hc_id := %s; hc_msg := %s; hc_obs := %s; hc_exc := false |}", hx.Nat(id), term, hx.List(ds)))
		meta.CaseIndex[fmt.Sprint(id)] = map[string]interface{}{"scenario": scenario{Pipe: "none", Kind: sc.Kind, Size: sc.Size, N: 2}}
	}
	n := hx.Pick3(args.Tier, 1200, 40000, 20000)
	kinds := []string{"bytes", "vec", "buffer", "stringsreader", "bytesreader", "reader-small", "bytes", "vec"}
	for i := 0; i < n; i++ {
		sc := scenario{Pipe: []string{"none", "none", "lenfield"}[rng.Intn(3)], N: 2 + rng.Intn(2), Async: []int{0, 1, 2, 8}[rng.Intn(4)]}
		sc.Kind = kinds[rng.Intn(len(kinds))]
		sc.Size = []int{2, 10, 1000, 1024, 1025, 2500, 5000}[rng.Intn(7)]
		if sc.Kind == "reader-small" && sc.Size > 1024 {
			sc.Size = 1024 // above the streaming chunk an io.Reader is the known finding (reader-large below)
		}
		if sc.Pipe == "lenfield" {
			sc.Kind = []string{"bytes", "buffer", "stringsreader"}[rng.Intn(3)]
		}
		if sc.Pipe == "none" && sc.Kind != "reader-small" && rng.Chance(8) {
			sc.Size = []int{65536, 65537, 140000}[rng.Intn(3)] // around and beyond the largest pooled size class
		}
		if sc.Pipe == "none" && sc.Size <= 1024 && rng.Chance(25) {
			sc.Kind2 = kinds[rng.Intn(len(kinds))] // mixed traffic: e.g. a vector write next to a small reader
		}
		if sc.Async == 0 && sc.Pipe == "none" && rng.Chance(35) {
			// the pair that only the write lock keeps apart on a connection with a non-atomic vectored write
			sc.Kind, sc.Kind2 = "vec", []string{"reader-small", "reader-small", "bytes", "stringsreader"}[rng.Intn(4)]
			if sc.Size > 1024 {
				sc.Size = 1000
			}
		}
		switch rng.Intn(12) {
		case 0:
			sc.Kind, sc.Size, sc.Pipe, sc.Kind2 = "reader-large", 2500, "none", ""
		case 1:
			sc.Kind, sc.Pipe, sc.Size, sc.Kind2 = "string", "delim-text", 8, ""
		}
		meta.Count("kind", sc.Kind)
		meta.Count("pipeline", sc.Pipe)
		meta.Count("channel", map[bool]string{true: "async", false: "sync"}[sc.Async > 0])
		var strat func(int, []*sched.Thread, *sched.Thread) int
		if i%2 == 0 {
			strat = func(_ int, en []*sched.Thread, _ *sched.Thread) int { return rng.Intn(len(en)) }
		} else {
			strat = func(_ int, en []*sched.Thread, last *sched.Thread) int {
				for k, t := range en {
					if t == last && !rng.Chance(20) {
						return k
					}
				}
				return rng.Intn(len(en))
			}
		}
		stream, picks, parked := run(sc, strat)
		meta.Evaluations++
		check(sc, stream, picks, meta)
		emitCase(sc)
		if len(parked) > 0 {
			meta.Violate(hx.Violation{Property: "C09", What: "threads parked: " + strings.Join(parked, ","), Signature: "deadlock", Replay: map[string]interface{}{"scenario": sc}})
		}
		meta.Distinct(fmt.Sprint(sc, picks))
		if i < 3 {
			meta.Sample(map[string]interface{}{"scenario": sc, "wire": string(trunc(stream))})
		}
	}
	if args.Out != "" && args.Out != os.DevNull {
		// the message -> low-level writes mapping of every (type, size) used above, replayed in Model/Conv.v (head_write):
		// C09's theorems speak about messages that are ONE low-level write; the model must say so for the right ones
		var sb strings.Builder
		sb.WriteString("From Coq Require Import ZArith List.\nFrom GN Require Import Base.Reader Model.Frame Model.FrameCheck Model.Conv Model.ConvCheck.\nImport ListNotations.\nOpen Scope Z_scope.\n")
		sb.WriteString("Definition hcases : list hcase := [\n" + strings.Join(hcs, ";\n") + "].\n")
		sb.WriteString("Definition R := Eval vm_compute in check_hcases hcases.\nPrint R.\n")
		os.WriteFile(args.Out, []byte(sb.String()), 0o644)
	}
	meta.Cases = len(hcs)
	meta.Write(args.Meta)
}

func trunc(b []byte) []byte {
	if len(b) > 80 {
		return b[:80]
	}
	return b
}

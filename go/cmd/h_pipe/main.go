// h_pipe: correspondence harness for C03 (pipeline structure and event
// routing) and for the dispatch part of C07 (panics routed as exceptions).
package main

import (
	"context"
	"errors"
	"fmt"
	"os"
	"strings"

	netty "github.com/go-netty/go-netty"
	"verifharness/hx"
	"verifharness/mock"
	"verifharness/probe"
)

type hspec struct {
	ID   int          `json:"id"`
	Caps int          `json:"caps"`
	Beh  [6]probe.Beh `json:"beh"`
}
type opspec struct {
	Kind string `json:"kind"` // first | last | at
	Pos  int    `json:"pos"`
	HS   []int  `json:"hs"`
}
type entry struct {
	Kind string `json:"kind"` // fire | chanwrite | chantrigger | ctxwrite | ctxtrigger
	K    int    `json:"k"`
	Pos  int    `json:"pos"`
}
type pcase struct {
	Tbl   []hspec  `json:"tbl"`
	Ops   []opspec `json:"ops"`
	Entry entry    `json:"entry"`
}

func (h hspec) coq() string {
	caps := make([]string, 6)
	behs := make([]string, 6)
	for i := 0; i < 6; i++ {
		caps[i] = hx.Bool(h.Caps>>uint(i)&1 == 1)
		behs[i] = h.Beh[i].Coq()
	}
	return fmt.Sprintf("{| hs_id := %d; hs_caps := %s; hs_beh := %s |}", h.ID, hx.List(caps), hx.List(behs))
}
func (o opspec) coq() string {
	ids := make([]string, len(o.HS))
	for i := range o.HS {
		ids[i] = fmt.Sprint(o.HS[i])
	}
	switch o.Kind {
	case "first":
		return "OAddFirst nat " + hx.List(ids)
	case "last":
		return "OAddLast nat " + hx.List(ids)
	}
	return fmt.Sprintf("OAddHandler nat %s%%Z %s", hx.Z(int64(o.Pos)), hx.List(ids))
}
func (e entry) coq() string {
	switch e.Kind {
	case "fire":
		return "EFire " + probe.KindCoq[e.K]
	case "chanwrite":
		return "EChanWrite"
	case "chantrigger":
		return "EChanTrigger"
	case "ctxwrite":
		return fmt.Sprintf("(ECtxWrite %d)", e.Pos)
	}
	return fmt.Sprintf("(ECtxTrigger %d)", e.Pos)
}

type observation struct {
	Panics  []bool      `json:"panics"`
	Size    int         `json:"size"`
	Fwd     []int       `json:"fwd"` // -1 = head/tail
	Bwd     []int       `json:"bwd"`
	Queries [][3]int    `json:"queries"`
	Trace   []probe.Ev  `json:"trace"`
	Escaped bool        `json:"escaped"`
	CtxBad  bool        `json:"ctxbad"`
	CtxAtOK bool        `json:"ctxat_ok"`
	Active  bool        `json:"active_after"` // Channel.IsActive() after the entry point returned
	NetErr  int         `json:"neterr"`       // 1: a non-timeout net.Error (possibly wrapped) was raised by a handler, 2: a timeout one
	Extra   interface{} `json:"extra,omitempty"`
}

func idOf(h netty.Handler) int {
	if w, ok := h.(interface{ ProbeID() int }); ok {
		return w.ProbeID()
	}
	return -1
}

func run(c pcase) (o observation) {
	log := &probe.Log{}
	vals := &probe.Values{}
	handlers := map[int]netty.Handler{}
	for _, h := range c.Tbl {
		p := &probe.Probe{ID: h.ID, Caps: h.Caps, Beh: h.Beh, Log: log, Vals: vals}
		handlers[h.ID] = probe.Wrap(p, h.Caps)
	}
	pl := netty.NewPipeline()
	for _, op := range c.Ops {
		var hs []netty.Handler
		for _, id := range op.HS {
			hs = append(hs, handlers[id])
		}
		panicked := false
		func() {
			defer func() {
				if recover() != nil {
					panicked = true
				}
			}()
			switch op.Kind {
			case "first":
				pl.AddFirst(hs...)
			case "last":
				pl.AddLast(hs...)
			default:
				pl.AddHandler(op.Pos, hs...)
			}
		}()
		o.Panics = append(o.Panics, panicked)
	}
	o.Size = pl.Size()
	o.CtxAtOK = pl.ContextAt(-1) == nil && pl.ContextAt(o.Size) == nil && pl.ContextAt(o.Size+3) == nil
	for i := 0; i < o.Size; i++ {
		o.Fwd = append(o.Fwd, idOf(pl.ContextAt(i).Handler()))
	}
	// IndexOf / LastIndexOf call the predicate on every context from their end
	var viaIndex []int
	pl.IndexOf(func(h netty.Handler) bool { viaIndex = append(viaIndex, idOf(h)); return false })
	pl.LastIndexOf(func(h netty.Handler) bool { o.Bwd = append(o.Bwd, idOf(h)); return false })
	if fmt.Sprint(viaIndex) != fmt.Sprint(o.Fwd) {
		o.CtxAtOK = false
	}
	for _, h := range c.Tbl {
		id := h.ID
		io := pl.IndexOf(func(x netty.Handler) bool { return idOf(x) == id })
		lio := pl.LastIndexOf(func(x netty.Handler) bool { return idOf(x) == id })
		o.Queries = append(o.Queries, [3]int{id, io, lio})
	}
	// ---- fire the entry point on a real channel over a recording transport ----
	tr := &mock.Transport{}
	ch := netty.NewChannel()(1, context.Background(), pl, tr, mock.Inline{})
	netty.VerifAttach(pl, ch)
	tr.OnEvent = func(kind string) {
		if kind == "close" {
			log.Add(probe.Ev{Kind: "close", Cls: vals.Classify(netty.VerifCloseErr(ch))})
		} else {
			log.Add(probe.Ev{Kind: "write"})
		}
	}
	func() {
		defer func() {
			if recover() != nil {
				o.Escaped = true
			}
		}()
		msg := []byte{1, 2, 3}
		switch c.Entry.Kind {
		case "fire":
			switch c.Entry.K {
			case probe.KActive:
				pl.FireChannelActive()
			case probe.KRead:
				pl.FireChannelRead(msg)
			case probe.KWrite:
				pl.FireChannelWrite(msg)
			case probe.KException:
				e := &probe.IDErr{ID: 2000}
				vals.Closes = append(vals.Closes, e) // an explicitly supplied error, class 3 like the model's XClose
				pl.FireChannelException(e)
			case probe.KInactive:
				pl.FireChannelInactive(nil)
			case probe.KEvent:
				pl.FireChannelEvent("ev")
			}
		case "chanwrite":
			ch.Write(msg)
		case "chantrigger":
			ch.Trigger("ev")
		case "ctxwrite":
			pl.ContextAt(c.Entry.Pos).Write(msg)
		case "ctxtrigger":
			pl.ContextAt(c.Entry.Pos).Trigger("ev")
		}
	}()
	o.Active = ch.IsActive()
	for _, r := range vals.Raised {
		if e, ok := r.(error); ok {
			var ne *probe.NetErr
			if errors.As(e, &ne) {
				if ne.TO && o.NetErr == 0 {
					o.NetErr = 2
				} else if !ne.TO {
					o.NetErr = 1
				}
			}
		}
	}
	o.Trace = log.Ev
	for _, e := range o.Trace {
		if e.Kind == "visit" && !e.CtxOK {
			o.CtxBad = true
		}
	}
	return
}

func optNatList(xs []int) string {
	out := make([]string, len(xs))
	for i, x := range xs {
		if x < 0 {
			out[i] = "None"
		} else {
			out[i] = fmt.Sprintf("Some %d", x)
		}
	}
	return hx.List(out)
}

func traceCoq(t []probe.Ev) string {
	var out []string
	for _, e := range t {
		switch e.Kind {
		case "visit":
			out = append(out, fmt.Sprintf("OVisit %d %d %s", e.Pos, e.HID, probe.KindCoq[e.EKind]))
		case "write":
			out = append(out, "OWrite")
		case "close":
			out = append(out, fmt.Sprintf("OClose %d", e.Cls))
		}
	}
	return hx.List(out)
}

func (c pcase) coq(id int, o observation) string {
	tbl := make([]string, len(c.Tbl))
	for i := range c.Tbl {
		tbl[i] = c.Tbl[i].coq()
	}
	ops := make([]string, len(c.Ops))
	for i := range c.Ops {
		ops[i] = c.Ops[i].coq()
	}
	pan := make([]string, len(o.Panics))
	for i := range o.Panics {
		pan[i] = hx.Bool(o.Panics[i])
	}
	qs := make([]string, len(o.Queries))
	for i, q := range o.Queries {
		qs[i] = fmt.Sprintf("(%d, %s%%Z, %s%%Z)", q[0], hx.Z(int64(q[1])), hx.Z(int64(q[2])))
	}
	return fmt.Sprintf("{| pc_id := %d; pc_tbl := %s; pc_ops := %s; pc_panics := %s; pc_size := %d%%Z; pc_fwd := %s; pc_bwd := %s; pc_queries := %s; pc_entry := %s; pc_trace := %s; pc_escaped := %s |}",
		id, hx.List(tbl), hx.List(ops), hx.List(pan), o.Size, optNatList(o.Fwd), optNatList(o.Bwd), hx.List(qs), c.Entry.coq(), traceCoq(o.Trace), hx.Bool(o.Escaped))
}

// ---- Go-side oracle: the list specification, independently of the Coq model ----
func specList(ops []opspec, panics []bool) []int {
	var l []int
	for i, op := range ops {
		if panics[i] {
			continue
		}
		switch op.Kind {
		case "first":
			for _, h := range op.HS {
				l = append([]int{h}, l...)
			}
		case "last":
			l = append(l, op.HS...)
		default:
			size := len(l) + 2
			pos := op.Pos
			if pos == -1 || pos == size-1 {
				l = append(l, op.HS...)
				continue
			}
			if pos < 0 {
				pos = 0
			}
			nl := append([]int{}, l[:pos]...)
			nl = append(nl, op.HS...)
			nl = append(nl, l[pos:]...)
			l = nl
		}
	}
	return l
}

func genCase(rng *hx.Rng, meta *hx.Meta, withPanics bool) pcase {
	var c pcase
	n := 1 + rng.Intn(5)
	for i := 1; i <= n; i++ {
		h := hspec{ID: i, Caps: 1 + rng.Intn(63)}
		if rng.Chance(25) {
			h.Caps = []int{63, 2, 4, 8, 32, 6}[rng.Intn(6)]
		}
		for k := 0; k < 6; k++ {
			var choices []int
			switch k {
			case probe.KWrite:
				choices = []int{probe.BForward, probe.BForward, probe.BForward, probe.BStop}
				if withPanics {
					choices = append(choices, probe.BPanic)
				}
			case probe.KException:
				choices = []int{probe.BForward, probe.BForward, probe.BStop, probe.BClose}
			case probe.KEvent:
				choices = []int{probe.BForward, probe.BForward, probe.BStop, probe.BWriteBack}
				if withPanics {
					choices = append(choices, probe.BPanic)
				}
			default:
				choices = []int{probe.BForward, probe.BForward, probe.BForward, probe.BStop, probe.BWriteBack, probe.BTriggerOn, probe.BClose}
				if withPanics {
					choices = append(choices, probe.BPanic, probe.BPanic)
				}
			}
			b := probe.Beh{B: choices[rng.Intn(len(choices))], ID: i*10 + k}
			if b.B == probe.BPanic {
				b.PKind = rng.Intn(5)
				b.Timeout = rng.Bool()
				b.Wrap = rng.Bool()
			}
			h.Beh[k] = b
		}
		c.Tbl = append(c.Tbl, h)
	}
	if withPanics && rng.Chance(20) {
		// targeted: a handler panics with a (possibly wrapped) net.Error on a channel-level entry and an
		// exception handler consumes it - the channel must be closed iff the error is not a timeout
		var c2 pcase
		p := hspec{ID: 1, Caps: 1<<uint(probe.KWrite) | 1<<uint(probe.KEvent)}
		q := hspec{ID: 2, Caps: 1 << uint(probe.KException)}
		for k := 0; k < 6; k++ {
			p.Beh[k] = probe.Beh{B: probe.BPanic, PKind: probe.PNetErr, Timeout: rng.Chance(30), Wrap: rng.Bool(), ID: 10 + k}
			q.Beh[k] = probe.Beh{B: probe.BStop, ID: 20 + k}
		}
		c2.Tbl = []hspec{p, q}
		order := [][]int{{1, 2}, {2, 1}}[rng.Intn(2)]
		c2.Ops = []opspec{{Kind: "last", HS: order}}
		c2.Entry = entry{Kind: []string{"chanwrite", "chantrigger"}[rng.Intn(2)]}
		meta.Count("ops", "last")
		meta.Count("entry", c2.Entry.Kind+" (net.Error consumed)")
		return c2
	}
	size := 2
	nops := 1 + rng.Intn(5)
	for i := 0; i < nops; i++ {
		var op opspec
		k := 1 + rng.Intn(3)
		for j := 0; j < k; j++ {
			op.HS = append(op.HS, 1+rng.Intn(n))
		}
		switch rng.Intn(4) {
		case 0:
			op.Kind = "first"
		case 1:
			op.Kind = "last"
		default:
			op.Kind = "at"
			cands := []int{-1, 0, size - 1, size - 2, rng.Intn(size)}
			op.Pos = cands[rng.Intn(len(cands))]
			if rng.Chance(6) {
				op.Pos = size + rng.Intn(2) // illegal: must panic and change nothing
				meta.Count("ops", "illegal-position")
			}
			if rng.Chance(3) {
				op.Pos = -2 - rng.Intn(3)
			}
		}
		meta.Count("ops", op.Kind)
		if !(op.Kind == "at" && op.Pos >= size) {
			size += len(op.HS)
		}
		c.Ops = append(c.Ops, op)
	}
	switch rng.Intn(10) {
	case 0, 1, 2, 3, 4:
		c.Entry = entry{Kind: "fire", K: rng.Intn(6)}
	case 5, 6:
		c.Entry = entry{Kind: "chanwrite"}
	case 7:
		c.Entry = entry{Kind: "chantrigger"}
	case 8:
		c.Entry = entry{Kind: "ctxwrite", Pos: rng.Intn(size)}
	default:
		c.Entry = entry{Kind: "ctxtrigger", Pos: rng.Intn(size)}
	}
	meta.Count("entry", c.Entry.Kind)
	return c
}

func main() {
	args := hx.ParseArgs()
	rng := hx.NewRng(args.Seed)
	meta := hx.NewMeta("h_pipe", args.Seed, args.Tier)
	devnull, _ := os.OpenFile(os.DevNull, os.O_WRONLY, 0)
	hx.KeepStderr = os.Stderr
	os.Stderr = devnull // the tail handler reports unhandled exceptions on stderr
	withPanics := args.Prop == "C07"
	meta.Rule = "random pipeline builds (AddFirst/AddLast/AddHandler at -1, 0, size-1, size-2, random, illegal positions; multi-handler calls; repeated instances) over handlers with random subsets of the six interfaces and a behaviour per kind (forward/stop/write-back/trigger/close" + map[bool]string{true: "/panic with error, string, runtime, net.Error values", false: ""}[withPanics] + "), then one entry point (Fire*, Channel.Write/Trigger, ctx.Write/Trigger at a position); non-trivial = an insertion strictly inside >= 2 handlers or an event visiting >= 2 handlers; distinct = distinct (table, ops, entry)"

	check := func(c pcase, id int) (string, bool) {
		rep := map[string]interface{}{"case": c}
		var o observation
		faulted := ""
		func() {
			defer func() {
				if e := recover(); e != nil {
					faulted = fmt.Sprint(e)
				}
			}()
			o = run(c)
		}()
		meta.Evaluations++
		if faulted != "" {
			meta.Violate(hx.Violation{Property: "C03", What: "pipeline queries / traversal faulted on a legally built pipeline: " + faulted, Signature: "fault", Replay: rep})
			for range c.Ops {
				o.Panics = append(o.Panics, false)
			}
			return c.coq(id, o), false
		}
		// oracle 1: structure equals the list specification from both ends
		want := specList(c.Ops, o.Panics)
		full := append(append([]int{-1}, want...), -1)
		rev := make([]int, len(full))
		for i := range full {
			rev[len(full)-1-i] = full[i]
		}
		if fmt.Sprint(o.Fwd) != fmt.Sprint(full) || fmt.Sprint(o.Bwd) != fmt.Sprint(rev) || o.Size != len(full) || !o.CtxAtOK {
			meta.Violate(hx.Violation{Property: "C03", What: fmt.Sprintf("pipeline order differs from the handler-list model: forward %v backward %v size %d, expected %v", o.Fwd, o.Bwd, o.Size, full), Signature: "structure", Replay: rep})
		}
		for i, op := range c.Ops {
			illegal := op.Kind == "at" && op.Pos >= 2+len(specList(c.Ops[:i], o.Panics[:i]))
			if illegal != o.Panics[i] {
				meta.Violate(hx.Violation{Property: "C03", What: fmt.Sprintf("AddHandler(%d) panic=%v, expected %v", op.Pos, o.Panics[i], illegal), Signature: "position-check", Replay: rep})
			}
		}
		for _, q := range o.Queries {
			first, last := -1, -1
			for i, h := range full {
				if h == q[0] {
					if first < 0 {
						first = i
					}
					last = i
				}
			}
			if q[1] != first || q[2] != last {
				meta.Violate(hx.Violation{Property: "C03", What: fmt.Sprintf("IndexOf/LastIndexOf(handler %d) = %d/%d, expected %d/%d", q[0], q[1], q[2], first, last), Signature: "queries", Replay: rep})
			}
		}
		if o.CtxBad {
			meta.Violate(hx.Violation{Property: "C03", What: "a handler was invoked with a context that is not bound to its own position/handler", Signature: "ctx-binding", Replay: rep})
		}
		// oracle 2 (routing, simple entries): visits are monotone in position and only capable handlers are visited
		caps := map[int]int{}
		for _, h := range c.Tbl {
			caps[h.ID] = h.Caps
		}
		nvis := 0
		for _, e := range o.Trace {
			if e.Kind == "visit" {
				nvis++
				if caps[e.HID]>>uint(e.EKind)&1 == 0 {
					meta.Violate(hx.Violation{Property: "C03", What: fmt.Sprintf("handler %d visited for kind %d which it does not implement", e.HID, e.EKind), Signature: "routing-cap", Replay: rep})
				}
				if e.Pos >= 0 && e.Pos < len(full) && full[e.Pos] != e.HID {
					meta.Violate(hx.Violation{Property: "C03", What: "visited position does not hold that handler", Signature: "routing-pos", Replay: rep})
				}
			}
		}
		// oracle 3 (routing, where the event enters): an inbound kind fired at the head is first seen by the first handler
		// FROM THE HEAD that implements the kind's interface, a write fired at the tail by the first one FROM THE TAIL
		firstKind, fromTail := -1, false
		switch c.Entry.Kind {
		case "fire":
			firstKind, fromTail = c.Entry.K, c.Entry.K == probe.KWrite
		case "chanwrite":
			firstKind, fromTail = probe.KWrite, true
		case "chantrigger":
			firstKind = probe.KEvent
		}
		if firstKind >= 0 {
			wantPos := -1
			for i := 1; i < len(full)-1; i++ {
				p := i
				if fromTail {
					p = len(full) - 1 - i
				}
				if caps[full[p]]>>uint(firstKind)&1 == 1 {
					wantPos = p
					break
				}
			}
			gotPos := -1
			for _, e := range o.Trace {
				if e.Kind == "visit" {
					gotPos = e.Pos
					if e.EKind != firstKind {
						gotPos = -2
					}
					break
				}
			}
			if wantPos >= 0 && gotPos != wantPos {
				meta.Violate(hx.Violation{Property: "C03", What: fmt.Sprintf("an event of kind %d entering through %s must first be seen by the handler at position %d (the first one that implements the kind's interface), it was first seen at position %d (-1: by nobody)", firstKind, c.Entry.Kind, wantPos, gotPos), Signature: "routing-first", Replay: rep})
			}
		}
		for _, e := range o.Trace {
			if (e.Kind == "visit" && e.EKind == probe.KException || e.Kind == "close") && e.Cls == 4 {
				meta.Violate(hx.Violation{Property: "C07", What: "an exception handler (or the close reason) received an error value that is neither the panic value itself nor, for non-error panic values, its text: the identity of an error panic value was lost", Signature: "exception-identity", Replay: rep})
				break
			}
		}
		if o.Escaped && c.Entry.Kind != "fire" {
			meta.Violate(hx.Violation{Property: "C07", What: "a panic escaped into the caller of " + c.Entry.Kind, Signature: "escaped", Replay: rep})
		}
		inside := false
		for i, op := range c.Ops {
			if op.Kind == "at" && !o.Panics[i] && op.Pos > 0 && op.Pos < len(specList(c.Ops[:i], o.Panics[:i])) {
				inside = true
			}
		}
		return c.coq(id, o), inside || nvis >= 2
	}

	if args.Replay != "" {
		var rp struct {
			Case pcase `json:"case"`
		}
		if err := hx.LoadReplay(args.Replay, &rp); err != nil {
			fmt.Println("cannot load replay:", err)
			os.Exit(2)
		}
		o := run(rp.Case)
		fmt.Printf("size=%d fwd=%v bwd=%v panics=%v escaped=%v\ntrace=%+v\n", o.Size, o.Fwd, o.Bwd, o.Panics, o.Escaped, o.Trace)
		check(rp.Case, 0)
		if len(meta.Violations) > 0 {
			fmt.Println("REPRODUCED:", meta.Violations[0].What)
			os.Exit(1)
		}
		fmt.Println("not reproduced: property holds on this case")
		return
	}

	n := hx.Pick3(args.Tier, 600, 12000, 30000)
	var cases []string
	for i := 0; i < n; i++ {
		c := genCase(rng, meta, withPanics)
		s, nt := check(c, i)
		cases = append(cases, s)
		meta.CaseIndex[fmt.Sprint(i)] = map[string]interface{}{"case": c}
		if nt {
			meta.Distinct(fmt.Sprint(c))
		}
		if i < 3 {
			meta.Sample(c)
		}
	}
	if args.Out != "" && args.Out != os.DevNull {
		var sb strings.Builder
		sb.WriteString("From Coq Require Import ZArith List.\nFrom GN Require Import Model.Pipeline Model.Dispatch Model.PipeCheck.\nImport ListNotations.\n")
		sb.WriteString("Definition cases : list pcase := [\n" + strings.Join(cases, ";\n") + "].\n")
		sb.WriteString("Definition R := Eval vm_compute in check_pcases cases.\nPrint R.\n")
		os.WriteFile(args.Out, []byte(sb.String()), 0o644)
	}
	meta.Cases = len(cases)
	meta.Write(args.Meta)
}

// h_http: the real HTTP server codec (requestCodec + responseCodec + handler
// adapter) over a scripted inbound stream and a recording transport (C15).
// Request sequences (pipelined, bodies by Content-Length or chunked, HTTP/1.0
// and 1.1, Connection headers) under arbitrary fragmentation, crossed with
// handler programs (status, headers, explicit Content-Length / chunked /
// neither, writes around the 2048-byte buffer, explicit Flush, how much of the
// request body is read).  Responses are parsed back with net/http.
package main

import (
	"bufio"
	"bytes"
	"context"
	"fmt"
	"io"
	"net/http"
	"os"
	"sort"
	"strings"

	netty "github.com/go-netty/go-netty"
	"github.com/go-netty/go-netty/codec/xhttp"
	"verifharness/hx"
	"verifharness/mock"
)

type reqSpec struct {
	Method  string `json:"method"`
	Target  string `json:"target"`
	Proto10 bool   `json:"http10,omitempty"`
	Conn    string `json:"conn,omitempty"` // "", "close", "keep-alive"
	Body    int    `json:"body"`           // body length
	Chunked bool   `json:"chunked,omitempty"`
	XHdr    string `json:"xhdr,omitempty"`
	// handler program for this request
	Read    int    `json:"read"`    // -1: all, else at most this many bytes of the request body
	Status  int    `json:"status"`  // 0: implicit
	Mode    string `json:"mode"`    // "cl" explicit Content-Length | "chunked" | "none"
	Writes  []int  `json:"writes"`  // sizes of the Write calls
	Flushes []bool `json:"flushes"` // explicit Flush after the i-th write
	RespHdr string `json:"resphdr,omitempty"`
}
type scenario struct {
	Reqs []reqSpec `json:"reqs"`
	Cuts []int     `json:"cuts"` // fragment sizes of the inbound stream (cyclic)
}

func bodyBytes(i, n int) []byte {
	b := make([]byte, n)
	for k := range b {
		b[k] = byte('a' + (i+k)%26)
	}
	return b
}
func respBytes(i, w, n int) []byte {
	b := make([]byte, n)
	for k := range b {
		b[k] = byte('A' + (i*7+w*3+k)%26)
	}
	return b
}

func (r reqSpec) wire(i int) []byte {
	var sb bytes.Buffer
	proto := "HTTP/1.1"
	if r.Proto10 {
		proto = "HTTP/1.0"
	}
	fmt.Fprintf(&sb, "%s %s %s\r\nHost: example\r\n", r.Method, r.Target, proto)
	if r.Conn != "" {
		fmt.Fprintf(&sb, "Connection: %s\r\n", r.Conn)
	}
	if r.XHdr != "" {
		fmt.Fprintf(&sb, "X-Req: %s\r\n", r.XHdr)
	}
	body := bodyBytes(i, r.Body)
	switch {
	case r.Chunked:
		sb.WriteString("Transfer-Encoding: chunked\r\n\r\n")
		for off := 0; off < len(body); {
			n := 1 + (off*7+3)%9
			if off+n > len(body) {
				n = len(body) - off
			}
			fmt.Fprintf(&sb, "%x\r\n%s\r\n", n, body[off:off+n])
			off += n
		}
		sb.WriteString("0\r\n\r\n")
	case r.Body > 0 || r.Method == "POST" || r.Method == "PUT":
		fmt.Fprintf(&sb, "Content-Length: %d\r\n\r\n", len(body))
		sb.Write(body)
	default:
		sb.WriteString("\r\n")
	}
	return sb.Bytes()
}

// does this request ask to close the connection after its response?
func (r reqSpec) wantsClose() bool {
	if r.Proto10 {
		return r.Conn != "keep-alive"
	}
	return r.Conn == "close"
}
func (r reqSpec) selfDelimiting() bool { return r.Mode == "cl" || r.Mode == "chunked" }

type seen struct {
	Method, Target, XHdr string
	Body                 []byte
	ReadAll              bool
}
type result struct {
	Seen             []seen
	Out              []byte
	CloseAt          int // length of the output when the transport was closed (-1: never)
	Closes           int
	Panics           []string
	Excs             int
	WritesAfterClose int
}

func run(sc scenario) *result {
	r := &result{CloseAt: -1}
	idx := 0
	handler := http.HandlerFunc(func(w http.ResponseWriter, req *http.Request) {
		i := idx
		idx++
		if i >= len(sc.Reqs) {
			r.Panics = append(r.Panics, "handler invoked more often than there are requests")
			return
		}
		p := sc.Reqs[i]
		s := seen{Method: req.Method, Target: req.RequestURI, XHdr: req.Header.Get("X-Req")}
		if p.Read != 0 {
			var rd io.Reader = req.Body
			if p.Read > 0 {
				rd = io.LimitReader(req.Body, int64(p.Read))
			}
			b, _ := io.ReadAll(rd)
			s.Body = b
			s.ReadAll = p.Read < 0 || p.Read >= p.Body
		}
		r.Seen = append(r.Seen, s)
		total := 0
		for _, n := range p.Writes {
			total += n
		}
		if p.RespHdr != "" {
			w.Header().Set("X-Resp", p.RespHdr)
		}
		switch p.Mode {
		case "cl":
			w.Header().Set("Content-Length", fmt.Sprint(total))
		case "chunked":
			w.Header().Set("Transfer-Encoding", "chunked")
		}
		if p.Status != 0 {
			w.WriteHeader(p.Status)
		}
		for k, n := range p.Writes {
			w.Write(respBytes(i, k, n))
			if k < len(p.Flushes) && p.Flushes[k] {
				w.(http.Flusher).Flush()
			}
		}
	})
	pl := netty.NewPipeline()
	pl.AddLast(xhttp.ServerCodec(), xhttp.Handler(handler))
	tr := &mock.Transport{}
	ch := netty.NewChannel()(1, nil2ctx(), pl, tr, mock.Inline{})
	netty.VerifAttach(pl, ch)
	var stream []byte
	for i, q := range sc.Reqs {
		stream = append(stream, q.wire(i)...)
	}
	var chunks [][]byte
	for off, k := 0, 0; off < len(stream); k++ {
		n := sc.Cuts[k%len(sc.Cuts)]
		if n <= 0 {
			n = 1
		}
		if off+n > len(stream) {
			n = len(stream) - off
		}
		chunks = append(chunks, stream[off:off+n])
		off += n
	}
	rd := &mock.ScriptReader{Chunks: chunks, Final: "eof"}
	func() {
		// what channel.invokeMethod does around FireChannelRead
		defer func() {
			if e := recover(); e != nil {
				func() {
					defer func() {
						if e2 := recover(); e2 != nil {
							r.Panics = append(r.Panics, "exception handling panicked: "+fmt.Sprint(e2))
						}
					}()
					if ch.IsActive() {
						r.Excs++
						if err, ok := e.(error); !ok || !(err == io.EOF || strings.Contains(err.Error(), "EOF")) {
							r.Panics = append(r.Panics, fmt.Sprint(e))
						}
						pl.FireChannelException(netty.AsException(e))
					}
				}()
			}
		}()
		pl.FireChannelRead(rd)
	}()
	for _, e := range tr.Snapshot() {
		switch e.Kind {
		case "close":
			r.Closes++
			if r.CloseAt < 0 {
				r.CloseAt = len(r.Out)
			}
		case "write", "writev":
			if e.Err {
				r.WritesAfterClose++
				continue
			}
			for _, b := range e.Bufs {
				r.Out = append(r.Out, b...)
			}
		}
	}
	return r
}

// expected behaviour by the property: which requests are served, what each response carries
type expResp struct {
	Status int
	Body   []byte
	Hdr    string
	Close  bool // the connection is closed after this response
}

func expect(sc scenario) (served int, resps []expResp) {
	for i, q := range sc.Reqs {
		var body []byte
		for k, n := range q.Writes {
			body = append(body, respBytes(i, k, n)...)
		}
		st := q.Status
		if st == 0 {
			st = 200
		}
		cl := q.wantsClose() || !q.selfDelimiting()
		resps = append(resps, expResp{Status: st, Body: body, Hdr: q.RespHdr, Close: cl})
		served++
		if cl {
			break
		}
	}
	return
}

func check(sc scenario, r *result, meta *hx.Meta) {
	rep := map[string]interface{}{"scenario": sc}
	v := func(sig, what string) {
		meta.Violate(hx.Violation{Property: "C15", Signature: sig, What: what, Replay: rep})
	}
	served, resps := expect(sc)
	for _, p := range r.Panics {
		v("fault", "runtime fault / unexpected exception while serving: "+p)
	}
	if len(r.Seen) != served {
		v("handler-invocations", fmt.Sprintf("the handler was invoked %d times for a stream of which %d requests must be served", len(r.Seen), served))
	}
	for i := 0; i < len(r.Seen) && i < served; i++ {
		q, s := sc.Reqs[i], r.Seen[i]
		if s.Method != q.Method || s.Target != q.Target || s.XHdr != q.XHdr {
			v("wrong-request", fmt.Sprintf("invocation %d saw %s %s [%s], the %d-th request on the wire is %s %s [%s]", i, s.Method, s.Target, s.XHdr, i, q.Method, q.Target, q.XHdr))
		}
		if q.Read != 0 {
			want := bodyBytes(i, q.Body)
			if q.Read > 0 && q.Read < len(want) {
				want = want[:q.Read]
			}
			if !bytes.Equal(s.Body, want) {
				v("wrong-body", fmt.Sprintf("invocation %d read a request body of %d bytes, its own body (prefix) has %d", i, len(s.Body), len(want)))
			}
		}
	}
	// parse the responses back
	br := bufio.NewReader(bytes.NewReader(r.Out))
	for i, e := range resps {
		req, _ := http.NewRequest(sc.Reqs[i].Method, "http://example"+sc.Reqs[i].Target, nil)
		resp, err := http.ReadResponse(br, req)
		if err != nil {
			v("unparsable-response", fmt.Sprintf("response %d cannot be parsed: %v", i, err))
			return
		}
		b, err := io.ReadAll(resp.Body)
		if err != nil {
			v("unparsable-response", fmt.Sprintf("body of response %d cannot be read: %v", i, err))
			return
		}
		if resp.StatusCode != e.Status {
			v("wrong-status", fmt.Sprintf("response %d has status %d, the handler set %d", i, resp.StatusCode, e.Status))
		}
		if !bytes.Equal(b, e.Body) {
			v("wrong-response-body", fmt.Sprintf("response %d carries %d body bytes, the handler wrote %d (mode %s)", i, len(b), len(e.Body), sc.Reqs[i].Mode))
		}
		if resp.Header.Get("X-Resp") != e.Hdr {
			v("wrong-header", fmt.Sprintf("response %d: header X-Resp=%q, handler set %q", i, resp.Header.Get("X-Resp"), e.Hdr))
		}
	}
	if rest, _ := io.ReadAll(br); len(rest) > 0 {
		v("extra-output", fmt.Sprintf("%d bytes follow the last expected response", len(rest)))
	}
	last := resps[len(resps)-1]
	if last.Close {
		if r.Closes == 0 {
			v("not-closed", "the connection must be closed after the last served response (request asked for it or the response is not self-delimiting) but was kept open")
		} else if r.CloseAt < len(r.Out) || r.WritesAfterClose > 0 {
			v("closed-early", fmt.Sprintf("the connection was closed after %d of %d response bytes", r.CloseAt, len(r.Out)))
		}
	} else if r.Closes > 0 && r.CloseAt < len(r.Out) {
		v("closed-early", fmt.Sprintf("the connection was closed after %d of %d response bytes", r.CloseAt, len(r.Out)))
	}
}

// ---- the Coq case: requests with programs, observation split per response ----
func digest(b []byte) string {
	s1, s2 := uint64(1), uint64(0)
	for _, x := range b {
		s1 += uint64(x)
		s2 += s1
	}
	return fmt.Sprintf("(%d, %d, %d)", len(b), s1, s2)
}

type oresp struct {
	status, clen int
	mode         string
	wire         []byte
	head         []byte
}

// split the output into responses the way a parser walks it (head up to the blank line, then the body framing)
func splitResponses(out []byte) (rs []oresp, garbage bool) {
	pos := 0
	for pos < len(out) {
		i := bytes.Index(out[pos:], []byte("\r\n\r\n"))
		if i < 0 {
			return rs, true
		}
		headTxt := string(out[pos : pos+i])
		headBytes := out[pos : pos+i+4]
		pos += i + 4
		lines := strings.Split(headTxt, "\r\n")
		var r oresp
		var proto string
		if _, err := fmt.Sscanf(lines[0], "%s %d", &proto, &r.status); err != nil {
			return rs, true
		}
		r.mode, r.clen = "MNone", 0
		for _, l := range lines[1:] {
			kv := strings.SplitN(l, ":", 2)
			if len(kv) != 2 {
				continue
			}
			k, v := strings.ToLower(strings.TrimSpace(kv[0])), strings.TrimSpace(kv[1])
			if k == "content-length" && r.mode != "MChunked" {
				fmt.Sscan(v, &r.clen)
				r.mode = "MLen"
			}
			if k == "transfer-encoding" && v == "chunked" {
				r.mode = "MChunked"
			}
		}
		start := pos
		switch r.mode {
		case "MLen":
			if pos+r.clen > len(out) {
				return rs, true
			}
			pos += r.clen
		case "MChunked":
			for {
				j := bytes.Index(out[pos:], []byte("\r\n"))
				if j < 0 {
					return rs, true
				}
				var n int
				if _, err := fmt.Sscanf(string(out[pos:pos+j]), "%x", &n); err != nil {
					return rs, true
				}
				pos += j + 2
				if n == 0 {
					pos += 2
					break
				}
				pos += n + 2
				if pos > len(out) {
					return rs, true
				}
			}
			if pos > len(out) {
				return rs, true
			}
		default:
			pos = len(out)
		}
		r.wire = out[start:pos]
		r.head = headBytes
		rs = append(rs, r)
	}
	return rs, false
}

func byteList(b []byte) string {
	xs := make([]string, len(b))
	for i, x := range b {
		xs[i] = fmt.Sprint(x)
	}
	return hx.List(xs)
}

func (sc scenario) coq(id int, r *result) string {
	var reqs []string
	for i, q := range sc.Reqs {
		var ws []string
		for k, n := range q.Writes {
			fl := k < len(q.Flushes) && q.Flushes[k]
			ws = append(ws, fmt.Sprintf("{| hw_start := %d; hw_len := %d%%nat; hw_flush := %s |}", (i*7+k*3)%26, n, hx.Bool(fl)))
		}
		read := "None"
		if q.Read >= 0 {
			read = fmt.Sprintf("Some %d%%nat", q.Read)
		}
		st := "None"
		if q.Status != 0 {
			st = fmt.Sprintf("Some %d", q.Status)
		}
		mode := map[string]string{"cl": "MLen", "chunked": "MChunked", "none": "MNone"}[q.Mode]
		xr := "None"
		if q.RespHdr != "" {
			xr = "Some " + byteList([]byte(q.RespHdr))
		}
		reqs = append(reqs, fmt.Sprintf("{| hr_id := %d%%nat; hr_close := %s; hr_body_start := %d; hr_body_len := %d%%nat; hr_read := %s; hr_mode := %s; hr_status := %s; hr_writes := %s; hr_xresp := %s |}",
			i, hx.Bool(q.wantsClose()), i%26, q.Body, read, mode, st, hx.List(ws), xr))
	}
	var seen, resps []string
	for i, s := range r.Seen {
		seen = append(seen, fmt.Sprintf("(%d%%nat, %s)", i, digest(s.Body)))
	}
	ors, garbage := splitResponses(r.Out)
	for _, o := range ors {
		bs := "None"
		if len(o.wire) <= 300 {
			var xs []string
			for _, b := range o.wire {
				xs = append(xs, fmt.Sprint(b))
			}
			bs = "Some " + hx.List(xs)
		}
		resps = append(resps, fmt.Sprintf("{| or_status := %d; or_mode := %s; or_len := %d; or_wire := %s; or_bytes := %s; or_head := Some %s |}", o.status, o.mode, o.clen, digest(o.wire), bs, byteList(o.head)))
	}
	closedAtEnd := r.Closes > 0 && r.CloseAt == len(r.Out) && r.WritesAfterClose == 0
	return fmt.Sprintf("{| hc_id := %d%%nat; hc_reqs := %s; hc_obs := {| ho_seen := %s; ho_resps := %s; ho_closed_at_end := %s; ho_garbage := %s |} |}",
		id, hx.List(reqs), hx.List(seen), hx.List(resps), hx.Bool(closedAtEnd), hx.Bool(garbage || len(r.Panics) > 0))
}

func genScenario(rng *hx.Rng, meta *hx.Meta) scenario {
	var sc scenario
	n := 1 + rng.Intn(4)
	for i := 0; i < n; i++ {
		q := reqSpec{Method: []string{"GET", "GET", "POST", "PUT", "DELETE"}[rng.Intn(5)], Target: fmt.Sprintf("/r%d?x=%d", i, rng.Intn(100))}
		q.Proto10 = rng.Chance(15)
		q.Conn = []string{"", "", "", "close", "keep-alive"}[rng.Intn(5)]
		if q.Method == "POST" || q.Method == "PUT" || rng.Chance(10) {
			q.Body = []int{0, 1, 5, 100, 3000}[rng.Intn(5)]
			q.Chunked = !q.Proto10 && rng.Chance(30)
		}
		if rng.Chance(40) {
			q.XHdr = fmt.Sprintf("v%d", rng.Intn(1000))
		}
		q.Read = []int{-1, -1, 0, 0, 1, 50}[rng.Intn(6)]
		q.Status = []int{0, 0, 200, 201, 404, 500}[rng.Intn(6)]
		q.Mode = []string{"cl", "cl", "chunked", "none"}[rng.Intn(4)]
		if q.Proto10 && q.Mode == "chunked" {
			q.Mode = "cl"
		}
		for k, m := 0, rng.Intn(4); k < m; k++ {
			q.Writes = append(q.Writes, []int{0, 1, 14, 700, 2047, 2048, 2049, 5000}[rng.Intn(8)])
			q.Flushes = append(q.Flushes, rng.Chance(20))
		}
		if rng.Chance(40) {
			q.RespHdr = fmt.Sprintf("h%d", rng.Intn(1000))
		}
		sc.Reqs = append(sc.Reqs, q)
		meta.Count("response mode", q.Mode)
		meta.Count("request body", map[bool]string{true: "with body", false: "no body"}[q.Body > 0])
		meta.Count("handler reads body", fmt.Sprint(q.Read))
	}
	switch rng.Intn(4) {
	case 0:
		sc.Cuts = []int{1}
	case 1:
		sc.Cuts = []int{1 << 20}
	default:
		for k, m := 0, 1+rng.Intn(4); k < m; k++ {
			sc.Cuts = append(sc.Cuts, 1+rng.Intn(60))
		}
	}
	meta.Count("requests per connection", fmt.Sprint(n))
	return sc
}

func main() {
	args := hx.ParseArgs()
	meta := hx.NewMeta("h_http", args.Seed, args.Tier)
	devnull, _ := os.OpenFile(os.DevNull, os.O_WRONLY, 0)
	hx.KeepStderr = os.Stderr
	os.Stderr = devnull
	rng := hx.NewRng(args.Seed)
	meta.Rule = "real ServerCodec + handler adapter over a scripted inbound stream: 1-4 requests per connection (GET/POST/PUT/DELETE, HTTP/1.0 and 1.1, Connection close/keep-alive, bodies 0..3000 by Content-Length or chunked), fragmentation 1 byte / one piece / random cuts, handler programs (implicit or explicit status, explicit Content-Length / chunked / neither, 0-3 writes of 0..5000 bytes around the 2048-byte buffer, explicit Flush, request body unread / partly / fully read); responses parsed back with net/http.ReadResponse; non-trivial = at least 2 requests or an unread body or an explicit Flush; distinct = distinct scenario"
	if args.Replay != "" {
		var rp struct {
			Scenario scenario `json:"scenario"`
		}
		if err := hx.LoadReplay(args.Replay, &rp); err != nil {
			fmt.Println("cannot load replay:", err)
			os.Exit(2)
		}
		r := run(rp.Scenario)
		check(rp.Scenario, r, meta)
		fmt.Printf("handler saw %d requests; %d output bytes; closes %d at %d\n", len(r.Seen), len(r.Out), r.Closes, r.CloseAt)
		if len(meta.Violations) > 0 {
			fmt.Println("REPRODUCED:", meta.Violations[0].What)
			os.Exit(1)
		}
		fmt.Println("not reproduced")
		return
	}
	n := hx.Pick3(args.Tier, 3000, 100000, 40000)
	var cases []string
	for i := 0; i < n; i++ {
		sc := genScenario(rng, meta)
		r := run(sc)
		check(sc, r, meta)
		meta.Evaluations++
		if len(cases) < hx.Pick3(args.Tier, 300, 2500, 0) {
			cases = append(cases, sc.coq(len(cases), r))
			meta.CaseIndex[fmt.Sprint(len(cases)-1)] = map[string]interface{}{"scenario": sc}
		}
		nt := len(sc.Reqs) >= 2
		for _, q := range sc.Reqs {
			if (q.Body > 0 && q.Read >= 0 && q.Read < q.Body) || contains(q.Flushes) {
				nt = true
			}
		}
		if nt {
			meta.Distinct(fmt.Sprint(sc))
		}
		if i < 2 {
			meta.Sample(map[string]interface{}{"scenario": sc, "handler_saw": len(r.Seen), "output_bytes": len(r.Out), "closes": r.Closes})
		}
	}
	sigs := map[string]int{}
	for _, v := range meta.Violations {
		sigs[v.Signature]++
	}
	keys := make([]string, 0)
	for k := range sigs {
		keys = append(keys, k)
	}
	sort.Strings(keys)
	if args.Out != "" && args.Out != os.DevNull {
		var sb strings.Builder
		sb.WriteString("From Coq Require Import List NArith.\nFrom GN Require Import Model.Http Model.HttpCheck.\nImport ListNotations.\nOpen Scope N_scope.\n")
		sb.WriteString("Definition cases : list hcase := [\n" + strings.Join(cases, ";\n") + "].\n")
		sb.WriteString("Definition R := Eval vm_compute in check_hcases cases.\nPrint R.\n")
		os.WriteFile(args.Out, []byte(sb.String()), 0o644)
	}
	meta.Cases = len(cases)
	meta.Write(args.Meta)
}

func contains(bs []bool) bool {
	for _, b := range bs {
		if b {
			return true
		}
	}
	return false
}

func nil2ctx() context.Context { return context.Background() }

// h_life: the real channel's inbound life (serveChannel / readLoop) under the
// hook scheduler: C05 (active once and first, sequential reads, close once,
// inactive once with the effective error, read loop terminates) and C07
// (panics and transport failures contained and routed; channel usable after a
// consumed exception).
package main

import (
	"bytes"
	"context"
	"fmt"
	"os"
	"strings"

	netty "github.com/go-netty/go-netty"
	"verifharness/hx"
	"verifharness/mock"
	"verifharness/probe"
	"verifharness/sched"
)

type hspec struct {
	ID   int          `json:"id"`
	Caps int          `json:"caps"`
	Beh  [6]probe.Beh `json:"beh"`
}
type scenario struct {
	PreCancel bool    `json:"precancel,omitempty"` // the channel is served with a parent context that has already ended (accepted while Shutdown runs)
	WriteFail bool    `json:"writefail,omitempty"` // targeted: the k-th transport write fails, an exception handler consumes the exception, further writes follow
	Kinds     []int   `json:"kinds,omitempty"`     // message type of writer i: 0 []byte, 1 [][]byte, 2 *bytes.Buffer, 3 *strings.Reader
	ReadFail  bool    `json:"readfail,omitempty"`  // targeted: a codec panics with the transport's (possibly wrapped) read error, nothing else closes the channel
	Tbl       []hspec `json:"tbl"`
	Async     int     `json:"async"` // queue size, 0 = sync channel
	Until     bool    `json:"until"` // async channel waits for pending writes (the bootstrap default)
	Reads     int     `json:"reads"` // read-loop iterations to allow before the end
	Closers   []int   `json:"closers"`
	FailW     int     `json:"failw"` // fail the k-th transport write (sender-failure path)
	Writes    int     `json:"writes"`
	Triggers  int     `json:"triggers"`
	Picks     []int   `json:"picks,omitempty"`
}

type result struct {
	Log         []probe.Ev
	Trace       []sched.Step
	Picks       []int
	ServeRet    int // log index at which ServeChannel returned
	WriteFailed bool
	Spinning    bool // the run did not come to rest within the step bound: some goroutine polls for ever
	TClosed     int
	CloseErrID  int
	Parked      []string
	Escaped     []string
	CtxDone     bool
	Active      bool
	WriteErrs   []string
	FirstIter   []probe.Ev
}

func (h hspec) coq() string {
	caps := make([]string, 6)
	behs := make([]string, 6)
	for i := 0; i < 6; i++ {
		caps[i] = hx.Bool(h.Caps>>uint(i)&1 == 1)
		behs[i] = h.Beh[i].Coq()
	}
	return fmt.Sprintf("{| hs_id := %d; hs_caps := %s; hs_beh := %s |}", h.ID, hx.List(caps), hx.List(behs))
}

func run(sc scenario, choose func(step int, en []*sched.Thread, last *sched.Thread) int) *result {
	s := sched.New()
	netty.SetVerifSched(s)
	defer netty.SetVerifSched(nil)
	r := &result{ServeRet: -1}
	log := &probe.Log{}
	vals := &probe.Values{}
	pl := netty.NewPipeline()
	for _, h := range sc.Tbl {
		p := &probe.Probe{ID: h.ID, Caps: h.Caps, Beh: h.Beh, Log: log, Vals: vals}
		pl.AddLast(probe.Wrap(p, h.Caps))
	}
	tr := &mock.Transport{FailWrite: sc.FailW}
	ex := &sched.Executor{S: s}
	var ch netty.Channel
	parent, cancelParent := context.WithCancel(context.Background())
	defer cancelParent()
	if sc.PreCancel {
		cancelParent()
	}
	if sc.Async > 0 {
		ch = netty.NewAsyncWriteChannel(sc.Async, sc.Until)(1, parent, pl, tr, ex)
	} else {
		ch = netty.NewChannel()(1, parent, pl, tr, ex)
	}
	tr.OnEvent = func(kind string) {
		if kind == "close" {
			log.Add(probe.Ev{Kind: "close", Cls: vals.Classify(netty.VerifCloseErr(ch))})
		} else {
			log.Add(probe.Ev{Kind: "write"})
		}
	}
	iters := 0
	served := false
	s.OnStep = func(t *sched.Thread) {
		if t.Point == "r.loop" {
			iters++
			log.Add(probe.Ev{Kind: "iter"})
		}
	}
	s.Spawn("server", func() {
		pl.ServeChannel(ch)
		served = true
		log.Add(probe.Ev{Kind: "served"})
	})
	guard := func(name string, f func()) {
		defer func() {
			if e := recover(); e != nil {
				r.Escaped = append(r.Escaped, name+": "+fmt.Sprint(e))
			}
		}()
		f()
	}
	for i := 0; i < sc.Writes; i++ {
		i := i
		s.Spawn(fmt.Sprintf("writer%d", i), func() {
			s.Yield("wait-served", func() bool { return served })
			guard("Channel.Write", func() {
				var msg interface{} = []byte{9, byte(i)}
				if i < len(sc.Kinds) {
					switch sc.Kinds[i] {
					case 1:
						msg = [][]byte{{9}, {byte(i)}}
					case 2:
						msg = bytes.NewBuffer([]byte{9, byte(i)})
					case 3:
						msg = strings.NewReader(string([]byte{9, byte(i)}))
					}
				}
				if err := ch.Write(msg); err != nil {
					r.WriteErrs = append(r.WriteErrs, err.Error())
				}
			})
		})
	}
	for i := 0; i < sc.Triggers; i++ {
		s.Spawn(fmt.Sprintf("trigger%d", i), func() {
			s.Yield("wait-served", func() bool { return served })
			guard("Channel.Trigger", func() { ch.Trigger("user-event") })
		})
	}
	for _, id := range sc.Closers {
		id := id
		s.Spawn("closer", func() {
			s.Yield("wait-served", func() bool { return served })
			e := &probe.IDErr{ID: 3000 + id}
			vals.Closes = append(vals.Closes, e)
			ch.Close(e)
			if ch.IsActive() {
				r.Escaped = append(r.Escaped, "IsActive() true after Close returned")
			}
		})
	}
	// the read loop may run sc.Reads iterations; then the harness closes the channel so that everything drains
	s.Spawn("finisher", func() {
		s.Yield("wait-iters", func() bool { return iters > sc.Reads || !ch.IsActive() })
		e := &probe.IDErr{ID: 3999}
		vals.Closes = append(vals.Closes, e)
		ch.Close(e)
	})
	var last *sched.Thread
	step := 0
	s.MaxSteps = 6000
	s.Run(func(en []*sched.Thread) *sched.Thread {
		k := choose(step, en, last)
		step++
		r.Picks = append(r.Picks, k)
		last = en[k]
		return en[k]
	})
	r.Log = log.Ev
	r.Trace = s.Trace
	r.Spinning = s.Aborted
	for _, t := range s.Parked() {
		r.Parked = append(r.Parked, t.Name+"@"+t.Point)
	}
	for _, e := range tr.Snapshot() {
		if e.Kind == "close" {
			r.TClosed++
		}
		if e.Err && e.Kind != "close" {
			r.WriteFailed = true
		}
	}
	r.CtxDone = ch.Context().Err() != nil
	r.Active = ch.IsActive()
	if ce := netty.VerifCloseErr(ch); ce != nil {
		r.CloseErrID = vals.Classify(ce)
	}
	return r
}

func check(sc scenario, r *result, meta *hx.Meta) {
	cc := sc
	cc.Picks = r.Picks
	rep := map[string]interface{}{"scenario": cc}
	v := func(prop, sig, what string) {
		meta.Violate(hx.Violation{Property: prop, Signature: sig, What: what, Replay: rep})
	}
	// ---- C05 ----
	firstRead, servedAt, firstIter := -1, -1, -1
	activeVisits := map[int]int{}
	inactiveVisits := map[int]int{}
	closes := 0
	for i, e := range r.Log {
		switch {
		case e.Kind == "visit" && e.EKind == probe.KActive:
			activeVisits[e.Pos]++
			if firstIter >= 0 {
				v("C05", "active-late", "an active event was delivered after the first read iteration")
			}
		case e.Kind == "visit" && e.EKind == probe.KRead && firstRead < 0:
			firstRead = i
		case e.Kind == "iter" && firstIter < 0:
			firstIter = i
		case e.Kind == "served":
			servedAt = i
		case e.Kind == "visit" && e.EKind == probe.KInactive:
			inactiveVisits[e.Pos]++
		case e.Kind == "close":
			closes++
		}
	}
	// the active event travels from the head over the handlers that handle it, as long as each forwards it:
	// every handler on that chain sees it exactly once - also when a Close lands while it is under way
	for i, h := range sc.Tbl {
		if h.Caps>>uint(probe.KActive)&1 == 1 {
			if activeVisits[i+1] != 1 {
				v("C05", "active-once", fmt.Sprintf("the active-capable handler at position %d lies on the forwarding chain from the head but saw the active event %d times", i+1, activeVisits[i+1]))
			}
			b := h.Beh[probe.KActive].B
			if !(b == probe.BForward || b == probe.BTriggerOn || b == probe.BCloseFwd) {
				break
			}
		}
	}
	for pos, n := range activeVisits {
		if n != 1 {
			v("C05", "active-once", fmt.Sprintf("handler at position %d saw the active event %d times", pos, n))
		}
	}
	if servedAt >= 0 && firstIter >= 0 && firstIter < servedAt {
		// the loop may start iterating only after active completed; ServeChannel returning later is fine,
		// but a READ must not be delivered before active completed: checked through firstRead below
	}
	for i, e := range r.Log {
		if e.Kind == "visit" && e.EKind == probe.KActive && firstRead >= 0 && i > firstRead {
			v("C05", "active-after-read", "active delivered after a read")
		}
	}
	for pos, n := range inactiveVisits {
		if n != 1 {
			v("C05", "inactive-once", fmt.Sprintf("handler at position %d saw the inactive event %d times", pos, n))
		}
	}
	if r.TClosed != 1 || closes != 1 {
		v("C05", "close-once", fmt.Sprintf("transport closed %d times", r.TClosed))
	}
	if r.Active || !r.CtxDone {
		v("C05", "closed-state", fmt.Sprintf("after all Close calls returned IsActive=%v ctxDone=%v", r.Active, r.CtxDone))
	}
	// reads strictly one at a time: between two "iter" marks the read visits of one position occur at most once
	seen := map[int]bool{}
	for _, e := range r.Log {
		if e.Kind == "iter" {
			seen = map[int]bool{}
		}
		if e.Kind == "visit" && e.EKind == probe.KRead {
			if seen[e.Pos] {
				v("C05", "read-overlap", "a handler was invoked twice for one read iteration")
			}
			seen[e.Pos] = true
		}
	}
	if r.WriteFailed && (r.Spinning || r.TClosed == 0 || !r.CtxDone) {
		v("C07", "sender-failure-not-closed", fmt.Sprintf("a transport write failed in the sender but the channel was not closed (transport closes %d, context done %v, still polling %v)", r.TClosed, r.CtxDone, r.Spinning))
	}
	if sc.ReadFail && r.CloseErrID != 1 {
		v("C07", "read-failure-not-closed", fmt.Sprintf("a codec panicked with the transport's non-timeout read error (possibly wrapped) and nothing swallowed it, but the channel was not closed with that error (close error class %d: 1 = the raised error, 3 = the harness' final close)", r.CloseErrID))
	}
	for _, p := range r.Parked {
		if strings.HasSuffix(p, "@w.lock") {
			v("C07", "write-lock-never-released", "a write call waits for the channel's write lock for ever ("+p+"): an earlier write failed in the transport and left the lock held - the channel is open but no longer usable")
		}
	}
	if r.Spinning {
		v("C05", "close-never-completes", "the channel never comes to rest: a goroutine polls for ever (Close waiting for a sender flag that is never released); transport closed "+fmt.Sprint(r.TClosed)+" times")
		return
	}
	if len(r.Parked) > 0 {
		v("C05", "loop-exit", "threads never finished: "+strings.Join(r.Parked, ","))
	}
	// ---- C07 ----
	for _, e := range r.Escaped {
		if strings.HasPrefix(e, "IsActive") {
			v("C05", "isactive", e)
		} else {
			v("C07", "escaped", "a panic escaped into the caller of "+e)
		}
	}
	for _, e := range r.Log {
		if (e.Kind == "visit" && e.EKind == probe.KException || e.Kind == "close") && e.Cls == 4 {
			v("C07", "exception-identity", "an exception handler (or the close reason) received an error value that is neither the panic value itself nor, for non-error panic values, its text: the identity of an error panic value was lost")
			break
		}
	}
	for _, e := range r.Log {
		if e.Kind == "visit" && !e.CtxOK {
			v("C03", "ctx-binding", "handler invoked with a context not bound to its own position")
		}
	}
}

func genScenario(rng *hx.Rng, meta *hx.Meta, prop string) scenario {
	if prop == "C07" && rng.Chance(15) {
		// "a failing transport read that no handler swallows closes the channel with that error": the codec
		// (handler 1) panics with a non-timeout net.Error, bare or wrapped as the frame codecs do; an exception
		// handler (handler 2) may consume the exception - the channel must be closed with that error all the same
		sc := scenario{Reads: 3, ReadFail: true}
		h1 := hspec{ID: 1, Caps: 1 << uint(probe.KRead)}
		h2 := hspec{ID: 2, Caps: 1 << uint(probe.KException)}
		for k := 0; k < 6; k++ {
			h1.Beh[k] = probe.Beh{B: probe.BPanic, PKind: probe.PNetErr, Timeout: false, Wrap: rng.Bool(), ID: 10 + k}
			h2.Beh[k] = probe.Beh{B: []int{probe.BStop, probe.BForward}[rng.Intn(2)], ID: 20 + k}
		}
		sc.Tbl = []hspec{h1}
		if rng.Chance(70) {
			sc.Tbl = append(sc.Tbl, h2)
		}
		if rng.Chance(50) {
			sc.Async = 1 + rng.Intn(3)
			sc.Until = rng.Bool()
		}
		meta.Count("channel", map[bool]string{true: "async", false: "sync"}[sc.Async > 0])
		meta.Count("closers", "0 (read failure only)")
		meta.Count("write-failure", "false")
		return sc
	}
	if prop == "C07" && rng.Chance(15) {
		// "afterwards the channel remains usable unless it was closed": the k-th transport write fails, an
		// exception handler consumes the exception (plain error: the channel stays open), other writers follow
		sc := scenario{Reads: 8, WriteFail: true, Writes: 2 + rng.Intn(2), FailW: 1 + rng.Intn(2)}
		h := hspec{ID: 1, Caps: 1 << uint(probe.KException)}
		for k := 0; k < 6; k++ {
			h.Beh[k] = probe.Beh{B: probe.BStop, ID: 10 + k}
		}
		sc.Tbl = []hspec{h}
		for i := 0; i < sc.Writes; i++ {
			sc.Kinds = append(sc.Kinds, rng.Intn(4))
		}
		if rng.Chance(30) {
			sc.Async = 1 + rng.Intn(3)
			sc.Until = rng.Bool()
		}
		meta.Count("channel", map[bool]string{true: "async", false: "sync"}[sc.Async > 0])
		meta.Count("closers", "0 (write failure consumed)")
		meta.Count("write-failure", "true")
		return sc
	}
	sc := scenario{Reads: 1 + rng.Intn(3)}
	n := 1 + rng.Intn(4)
	for i := 1; i <= n; i++ {
		h := hspec{ID: i, Caps: 1 + rng.Intn(63)}
		for k := 0; k < 6; k++ {
			var choices []int
			switch k {
			case probe.KWrite:
				choices = []int{probe.BForward, probe.BForward, probe.BStop, probe.BPanic}
			case probe.KException:
				choices = []int{probe.BForward, probe.BForward, probe.BStop, probe.BClose}
			case probe.KEvent:
				choices = []int{probe.BForward, probe.BStop, probe.BWriteBack, probe.BPanic}
			case probe.KInactive:
				choices = []int{probe.BForward, probe.BForward, probe.BStop, probe.BPanic}
			default:
				choices = []int{probe.BForward, probe.BForward, probe.BStop, probe.BWriteBack, probe.BTriggerOn, probe.BClose, probe.BPanic, probe.BPanic}
				if k == probe.KActive {
					choices = append(choices, probe.BCloseFwd, probe.BCloseFwd) // Close lands while the active event is still travelling
				}
			}
			b := probe.Beh{B: choices[rng.Intn(len(choices))], ID: i*10 + k}
			if b.B == probe.BPanic {
				b.PKind = rng.Intn(5)
				b.Timeout = rng.Bool()
				b.Wrap = rng.Bool()
			}
			h.Beh[k] = b
		}
		sc.Tbl = append(sc.Tbl, h)
	}
	if rng.Chance(50) {
		sc.Async = 1 + rng.Intn(3)
		sc.Until = rng.Bool()
	}
	sc.PreCancel = rng.Chance(12)
	sc.Writes = rng.Intn(3)
	for i := 0; i < sc.Writes; i++ {
		sc.Kinds = append(sc.Kinds, rng.Intn(4))
	}
	sc.Triggers = rng.Intn(2)
	for i, k := 0, rng.Intn(3); i < k; i++ {
		sc.Closers = append(sc.Closers, 1+i)
	}
	if rng.Chance(25) {
		sc.FailW = 1 + rng.Intn(2)
		if sc.Writes == 0 {
			sc.Writes = 2
		}
	}
	meta.Count("channel", map[bool]string{true: "async", false: "sync"}[sc.Async > 0])
	meta.Count("closers", fmt.Sprint(len(sc.Closers)))
	meta.Count("write-failure", fmt.Sprint(sc.FailW > 0))
	return sc
}

func main() {
	args := hx.ParseArgs()
	meta := hx.NewMeta("h_life", args.Seed, args.Tier)
	devnull, _ := os.OpenFile(os.DevNull, os.O_WRONLY, 0)
	hx.KeepStderr = os.Stderr
	os.Stderr = devnull
	rng := hx.NewRng(args.Seed)
	meta.Rule = "real serveChannel/readLoop under the hook scheduler: random handler tables (forward/stop/write-back/trigger/close/panic per kind, panic values error/string/runtime/net.Error), sync and async channels, 0-2 external closers plus closes from handlers, the tail handler and the sender-failure path (k-th transport write fails), Channel.Write/Trigger from other goroutines, random and sticky schedules; non-trivial = an exception was raised or >= 2 Close calls raced; distinct = distinct (scenario, schedule)"
	if args.Replay != "" {
		var rp struct {
			Scenario scenario `json:"scenario"`
		}
		if err := hx.LoadReplay(args.Replay, &rp); err != nil {
			fmt.Println("cannot load replay:", err)
			os.Exit(2)
		}
		picks := rp.Scenario.Picks
		r := run(rp.Scenario, func(step int, en []*sched.Thread, _ *sched.Thread) int {
			if step < len(picks) && picks[step] < len(en) {
				return picks[step]
			}
			return 0
		})
		check(rp.Scenario, r, meta)
		for _, e := range r.Log {
			fmt.Printf("  %+v\n", e)
		}
		if len(meta.Violations) > 0 {
			fmt.Println("REPRODUCED:", meta.Violations[0].What)
			os.Exit(1)
		}
		fmt.Println("not reproduced: property holds on this schedule")
		return
	}
	n := hx.Pick3(args.Tier, 1500, 40000, 20000)
	for i := 0; i < n; i++ {
		sc := genScenario(rng, meta, args.Prop)
		var strat func(int, []*sched.Thread, *sched.Thread) int
		if i%2 == 0 {
			strat = func(_ int, en []*sched.Thread, _ *sched.Thread) int { return rng.Intn(len(en)) }
		} else {
			strat = func(_ int, en []*sched.Thread, last *sched.Thread) int {
				for k, t := range en {
					if t == last && !rng.Chance(15) {
						return k
					}
				}
				return rng.Intn(len(en))
			}
		}
		r := run(sc, strat)
		check(sc, r, meta)
		meta.Evaluations++
		exc, closeCalls := false, len(sc.Closers)
		for _, e := range r.Log {
			if e.Kind == "visit" && e.EKind == probe.KException {
				exc = true
			}
		}
		if exc || closeCalls >= 2 {
			var sb strings.Builder
			for _, st := range r.Trace {
				sb.WriteString(st.Name + "@" + st.Point + " ")
			}
			meta.Distinct(fmt.Sprint(sc) + sb.String())
		}
		if i < 2 {
			meta.Sample(map[string]interface{}{"scenario": sc, "log": r.Log})
		}
	}
	if args.Out != "" && args.Out != os.DevNull {
		os.WriteFile(args.Out, []byte("From Coq Require Import List.\nImport ListNotations.\nDefinition R : list nat := [].\nPrint R.\n"), 0o644)
	}
	meta.Write(args.Meta)
}

// h_idle: the real read / write idle handlers (C20) with real timers and the
// real clock.  The timer callback parks at its verification hooks (decide,
// trigger, re-arm, done), so the harness knows the order of all events; it
// sends messages and the inactive event at chosen moments (just after a
// firing but before the decision, while the callback is about to deliver, in
// bursts, after silence), records everything with microsecond timestamps and
// lets the Coq model replay the history.  All comparisons are inequalities
// that scheduling delays cannot falsify; runs in which a delay makes the order
// of two events or the outcome of a decision uncertain are counted as
// inconclusive and not compared.
package main

import (
	"context"
	"errors"
	"fmt"
	"os"
	"strings"
	"sync"
	"time"

	netty "github.com/go-netty/go-netty"
	"verifharness/hx"
	"verifharness/mock"
)

// ---- hook dispatcher (installed as netty.VerifSched) ----
type arrival struct {
	kind    string // decide | trigger | rearm | done
	t       int64
	release chan struct{}
	cb      int
}
type scen struct {
	start time.Time
	arr   chan *arrival
}
type dispatcher struct {
	mu    sync.Mutex
	byObj map[string]*scen
}

func (d *dispatcher) Yield(point string, enabled func() bool) {
	i := strings.IndexByte(point, '@')
	if i < 0 || !(strings.HasPrefix(point, "ri.") || strings.HasPrefix(point, "wi.")) {
		return
	}
	d.mu.Lock()
	sc := d.byObj[point[i+1:]]
	d.mu.Unlock()
	if sc == nil {
		return
	}
	a := &arrival{kind: point[3:i], t: time.Since(sc.start).Microseconds(), release: make(chan struct{})}
	sc.arr <- a
	<-a.release
}

var disp = &dispatcher{byObj: map[string]*scen{}}

// ---- probe: the handler after the idle handler ----
type probe struct {
	sc        *scen
	mu        sync.Mutex
	delivered []int64
	excs      int
	panicOn   map[int]bool // panic on the k-th idle event
	holdUs    int64        // how long this (downstream) handler takes to process the inactive event
	seenInact int64        // when the inactive event arrived here, i.e. had passed the idle handler
}

func (p *probe) HandleEvent(ctx netty.EventContext, ev netty.Event) {
	switch ev.(type) {
	case netty.ReadIdleEvent, netty.WriteIdleEvent:
		p.mu.Lock()
		k := len(p.delivered)
		p.delivered = append(p.delivered, time.Since(p.sc.start).Microseconds())
		pn := p.panicOn[k]
		p.mu.Unlock()
		if pn {
			panic(errors.New("idle event handler panics"))
		}
	}
}
func (p *probe) HandleException(ctx netty.ExceptionContext, ex netty.Exception) {
	p.mu.Lock()
	p.excs++
	p.mu.Unlock()
}
func (p *probe) HandleRead(ctx netty.InboundContext, m netty.Message) {}
func (p *probe) HandleActive(ctx netty.ActiveContext)                 {}
func (p *probe) HandleInactive(ctx netty.InactiveContext, ex netty.Exception) {
	p.mu.Lock()
	p.seenInact = time.Since(p.sc.start).Microseconds()
	h := p.holdUs
	p.mu.Unlock()
	if h > 0 {
		time.Sleep(time.Duration(h) * time.Microsecond)
	}
}

type spec struct {
	Write   bool  `json:"write"` // write-idle handler (else read-idle)
	IdleUs  int64 `json:"idle_us"`
	Seed    int64 `json:"seed"`
	Program []int `json:"program"` // segment kinds
}

type cbObs struct {
	dLo, tNext int64
	trig       bool
	doneAt     int64
	started    int64
}
type result struct {
	Hist         []string
	Updates      [][2]int64
	Cbs          []*cbObs
	Inactive     *[2]int64
	InflightAtIn int
	LateFires    int
	Delivered    []int64
	Excs         int
	Inconclusive string
	FailedWrites int
	Notes        []string
}

const (
	segSilence    = iota // let the timer fire, callback runs through
	segBurst             // messages at short gaps, no firing expected in between
	segRaceDecide        // a message slips in between firing and decision
	segInactAtDecide
	segInactAtTrigger
	segInactAtRearm
	segInactQuiet
	segPanic
	segNearExpiry // a message shortly before the deadline
	nSeg
)

func run(sp spec) *result {
	r := &result{}
	rng := hx.NewRng(sp.Seed)
	idle := sp.IdleUs
	margin := idle / 3
	sc := &scen{start: time.Now(), arr: make(chan *arrival, 16)}
	now := func() int64 { return time.Since(sc.start).Microseconds() }
	pr := &probe{sc: sc, panicOn: map[int]bool{}}
	pl := netty.NewPipeline()
	var h netty.Handler
	if sp.Write {
		h = netty.VerifWriteIdleHandler(time.Duration(idle) * time.Microsecond)
	} else {
		h = netty.VerifReadIdleHandler(time.Duration(idle) * time.Microsecond)
	}
	pl.AddLast(h, pr)
	tr := &mock.Transport{}
	ch := netty.NewChannel()(1, context.Background(), pl, tr, mock.Inline{})
	netty.VerifAttach(pl, ch)
	key := fmt.Sprintf("%p", h)
	disp.mu.Lock()
	disp.byObj[key] = sc
	disp.mu.Unlock()
	defer func() {
		disp.mu.Lock()
		delete(disp.byObj, key)
		disp.mu.Unlock()
	}()

	lastUpd := int64(0) // time (after) of the latest update
	inactive := false
	var parked *arrival // the callback currently parked (at most one is driven at a time)
	ncb := 0
	ev := func(s string) { r.Hist = append(r.Hist, s) }
	update := func(kind string) {
		t0 := now()
		switch kind {
		case "active":
			pl.FireChannelActive()
		case "msg":
			if sp.Write {
				// some outbound writes fail below the idle handler (the transport rejects them): the message
				// has passed the handler all the same
				if rng.Chance(30) {
					tr.FailWrite = tr.Writes + 1
					r.FailedWrites++
				}
				func() {
					defer func() { recover() }()
					pl.FireChannelWrite([]byte("x"))
				}()
			} else {
				pl.FireChannelRead([]byte("x"))
			}
		}
		t1 := now()
		r.Updates = append(r.Updates, [2]int64{t0, t1})
		if kind == "active" {
			ev(fmt.Sprintf("EActive %d", t0))
		} else {
			ev(fmt.Sprintf("EMsg %d", t0))
		}
		if parked == nil && !inactive && kind == "msg" && t1-lastUpd >= idle-margin/2 {
			r.Inconclusive = "a message took so long that the old deadline may have passed meanwhile"
		}
		lastUpd = t1
	}
	mustBeSilent := false
	doInactive := func() {
		if rng.Chance(50) {
			pr.holdUs = idle*2 + idle/2 // a slow handler behind the idle handler
		}
		t0 := now()
		inflight := 0
		for _, c := range r.Cbs {
			if c.doneAt == 0 {
				inflight++
			}
		}
		pl.FireChannelInactive(errors.New("closed"))
		t1 := now()
		if parked == nil && t1-lastUpd >= idle-margin/2 {
			r.Inconclusive = "inactive took so long that the deadline may have passed meanwhile"
		}
		// when the event had passed the idle handler before the pending deadline could be reached and no
		// callback was in flight, the timer was stopped in time: no callback may ever start again
		pr.mu.Lock()
		seen := pr.seenInact
		pr.mu.Unlock()
		if parked == nil && inflight == 0 && len(r.Updates) > 0 && seen > 0 && seen < r.Updates[len(r.Updates)-1][0]+idle-margin/2 {
			mustBeSilent = true
			if r.Inconclusive != "" && strings.HasPrefix(r.Inconclusive, "inactive took so long") {
				r.Inconclusive = "" // the hold was downstream of the idle handler
			}
		}
		r.Inactive = &[2]int64{t0, t1}
		r.InflightAtIn = inflight
		inactive = true
		ev(fmt.Sprintf("EInactive %d", t0))
	}
	// wait for the next hook arrival (any callback); nil on timeout
	await := func(timeoutUs int64) *arrival {
		select {
		case a := <-sc.arr:
			return a
		case <-time.After(time.Duration(timeoutUs) * time.Microsecond):
			return nil
		}
	}
	// a firing: the callback arrives at its decide hook
	awaitFire := func() bool {
		a := await(idle * 8)
		if a == nil {
			r.Notes = append(r.Notes, "no firing within 8 idle periods")
			return false
		}
		if a.kind != "decide" {
			r.Inconclusive = "unexpected hook " + a.kind
			close(a.release)
			return false
		}
		a.cb = ncb
		ncb++
		c := &cbObs{started: a.t}
		r.Cbs = append(r.Cbs, c)
		if inactive && r.Inactive != nil && a.t > r.Inactive[1]+idle {
			r.LateFires++
		}
		ev(fmt.Sprintf("EFire %d", a.t))
		parked = a
		return true
	}
	// release the parked callback's hook and wait until it reaches the next one
	releaseStep := func() string {
		a := parked
		c := r.Cbs[a.cb]
		t := now()
		switch a.kind {
		case "decide":
			c.dLo = t
			ev(fmt.Sprintf("EDecide %d %d", a.cb, t))
		case "trigger":
			pn := pr.panicOn[len(pr.delivered)]
			ev(fmt.Sprintf("ETrigger %d %d %s", a.cb, t, hx.Bool(pn)))
		case "rearm":
			ev(fmt.Sprintf("ERearm %d %d", a.cb, t))
		}
		close(a.release)
		n := await(idle * 20)
		if n == nil {
			r.Inconclusive = "callback did not reach its next hook"
			parked = nil
			return ""
		}
		if n.kind == "decide" {
			// another firing overlapped: not driven by these programs
			r.Inconclusive = "overlapping callback"
			close(n.release)
			parked = nil
			return ""
		}
		n.cb = a.cb
		if a.kind == "decide" {
			c.tNext = n.t
			c.trig = n.kind == "trigger"
			// was the decision's outcome certain, given only the harness' own timestamps?
			u := r.Updates[len(r.Updates)-1]
			definitelyExpired := c.dLo-u[1] >= idle
			definitelyNot := c.tNext-u[0] < idle
			if !definitelyExpired && !definitelyNot && !inactive {
				r.Inconclusive = "decision too close to the idle boundary to predict"
			}
		}
		if n.kind == "done" {
			c.doneAt = n.t
			close(n.release)
			parked = nil
			if !inactive {
				lastArm := n.t
				_ = lastArm
			}
			return "done"
		}
		parked = n
		return n.kind
	}
	runThrough := func() {
		for parked != nil && r.Inconclusive == "" {
			releaseStep()
		}
	}
	sleepUs := func(us int64) { time.Sleep(time.Duration(us) * time.Microsecond) }
	safeForAction := func() bool { return parked != nil || now()-lastUpd < idle-margin }

	update("active")
	for _, seg := range sp.Program {
		if r.Inconclusive != "" {
			break
		}
		if inactive {
			break
		}
		switch seg {
		case segSilence:
			if awaitFire() {
				runThrough()
			}
		case segBurst:
			for k, n := 0, 2+rng.Intn(4); k < n; k++ {
				sleepUs(int64(rng.Intn(int(margin))))
				if !safeForAction() {
					break
				}
				update("msg")
			}
		case segNearExpiry:
			sleepUs(idle - margin - int64(rng.Intn(int(margin))) - 200)
			if safeForAction() {
				update("msg")
			}
		case segRaceDecide:
			if awaitFire() {
				update("msg") // between the firing and the decision
				runThrough()
			}
		case segPanic:
			pr.mu.Lock()
			pr.panicOn[len(pr.delivered)] = true
			pr.mu.Unlock()
			if awaitFire() {
				runThrough()
			}
		case segInactAtDecide:
			if awaitFire() {
				doInactive()
				runThrough()
			}
		case segInactAtTrigger:
			if awaitFire() {
				if releaseStep() == "trigger" {
					doInactive()
				}
				runThrough()
			}
		case segInactAtRearm:
			if awaitFire() {
				k := releaseStep()
				if k == "trigger" {
					k = releaseStep()
				}
				if k == "rearm" {
					doInactive()
				}
				runThrough()
			}
		case segInactQuiet:
			sleepUs(int64(rng.Intn(int(margin))))
			if safeForAction() {
				doInactive()
			}
		}
	}
	if !inactive && r.Inconclusive == "" {
		if parked == nil && now()-lastUpd >= idle-margin {
			// too close to the deadline: let it fire first
			if awaitFire() {
				runThrough()
			}
		}
		if safeForAction() {
			doInactive()
		} else {
			r.Inconclusive = "no safe moment for the final inactive"
		}
	}
	runThrough()
	// nothing may be timed any more: watch for three idle periods
	if r.Inconclusive == "" {
		deadline := time.After(time.Duration(3*idle) * time.Microsecond)
	watch:
		for {
			select {
			case a := <-sc.arr:
				if a.kind == "decide" {
					r.Cbs = append(r.Cbs, &cbObs{started: a.t})
					if mustBeSilent || (r.Inactive != nil && a.t > r.Inactive[1]+idle) {
						r.LateFires++
					} else {
						r.Inconclusive = "a firing raced the final inactive"
					}
					ev(fmt.Sprintf("EFire %d", a.t))
				}
				close(a.release)
			case <-deadline:
				break watch
			}
		}
	}
	pr.mu.Lock()
	r.Delivered = append([]int64(nil), pr.delivered...)
	r.Excs = pr.excs
	pr.mu.Unlock()
	return r
}

func (sp spec) coq(id int, r *result) string {
	var ups, cbs, dels []string
	for _, u := range r.Updates {
		ups = append(ups, fmt.Sprintf("(%d, %d)", u[0], u[1]))
	}
	for _, c := range r.Cbs {
		cbs = append(cbs, fmt.Sprintf("(%d, %d, %s)", c.dLo, c.tNext, hx.Bool(c.trig)))
	}
	for _, d := range r.Delivered {
		dels = append(dels, fmt.Sprint(d))
	}
	in := "None"
	if r.Inactive != nil {
		in = fmt.Sprintf("Some (%d, %d)", r.Inactive[0], r.Inactive[1])
	}
	obs := fmt.Sprintf("{| io_updates := %s; io_cbs := %s; io_deliveries := %s; io_inactive := %s; io_inflight_at_inactive := %d%%nat; io_late_fires := %d%%nat; io_excs := %d%%nat |}",
		hx.List(ups), hx.List(cbs), hx.List(dels), in, r.InflightAtIn, r.LateFires, r.Excs)
	return fmt.Sprintf("{| ic_id := %d%%nat; ic_idle := %d; ic_replay := true; ic_hist := %s; ic_obs := %s |}", id, sp.IdleUs, hx.List(r.Hist), obs)
}

// Go-side statement of the two clauses (same inequalities as Model/IdleCheck.v), for replays and the search tier
func check(sp spec, r *result, meta *hx.Meta) {
	rep := map[string]interface{}{"spec": sp, "history": r.Hist, "delivered_us": r.Delivered}
	v := func(sig, what string) {
		meta.Violate(hx.Violation{Property: "C20", Signature: sig, What: what, Replay: rep})
	}
	for i, c := range r.Cbs {
		if !c.trig {
			continue
		}
		for _, u := range r.Updates {
			if u[1] <= c.dLo && u[0]+sp.IdleUs > c.tNext {
				v("early-idle-event", fmt.Sprintf("callback %d decided to deliver an idle event at most %dus after a message that had already passed the handler (idle time %dus)", i, c.tNext-u[0], sp.IdleUs))
			}
		}
	}
	if r.Inactive != nil {
		after := 0
		for _, d := range r.Delivered {
			if d > r.Inactive[1] {
				after++
			}
		}
		if after > r.InflightAtIn {
			v("idle-after-inactive", fmt.Sprintf("%d idle events delivered after inactive had passed the handler with %d callback(s) in flight", after, r.InflightAtIn))
		}
		if r.LateFires > 0 {
			v("timer-after-inactive", fmt.Sprintf("%d timer callback(s) started although the inactive event had passed the idle handler before the pending deadline (or more than a full idle period after it)", r.LateFires))
		}
	}
}

func genSpec(rng *hx.Rng, meta *hx.Meta) spec {
	sp := spec{Write: rng.Bool(), IdleUs: int64(4000 + 1000*rng.Intn(7)), Seed: int64(rng.Intn(1 << 30))}
	for k, n := 0, 2+rng.Intn(4); k < n; k++ {
		sp.Program = append(sp.Program, rng.Intn(nSeg))
	}
	meta.Count("handler", map[bool]string{true: "write-idle", false: "read-idle"}[sp.Write])
	return sp
}

var segNames = []string{"silence", "burst", "message-between-firing-and-decision", "inactive-at-decide", "inactive-at-trigger", "inactive-at-rearm", "inactive-quiet", "panicking-event-handler", "message-near-expiry"}

func main() {
	args := hx.ParseArgs()
	meta := hx.NewMeta("h_idle", args.Seed, args.Tier)
	devnull, _ := os.OpenFile(os.DevNull, os.O_WRONLY, 0)
	hx.KeepStderr = os.Stderr
	os.Stderr = devnull
	netty.SetVerifSched(disp)
	rng := hx.NewRng(args.Seed)
	meta.Rule = "real read/write idle handlers (4-10 ms idle time via the verif constructors), real timers and clock, timer callback parked at its hooks: programs of 2-5 segments (silence until the timer fires; bursts of messages, some of whose outbound writes fail below the handler; a message between firing and decision; a message shortly before expiry; inactive while the callback is at its decide / trigger / re-arm hook or between firings; panicking event handler), 16 in parallel; history replayed in the Coq model (a firing needs an expired deadline, a delivery a positive decision), clauses evaluated on raw timestamps by inequalities; non-trivial = conclusive runs with at least one firing that exercise a race segment; inconclusive runs (a delay blurred an order or a decision) are counted, not compared"
	if args.Replay != "" {
		var rp struct {
			Spec spec `json:"spec"`
		}
		if err := hx.LoadReplay(args.Replay, &rp); err != nil {
			fmt.Println("cannot load replay:", err)
			os.Exit(2)
		}
		for round := 0; round < 20; round++ {
			r := run(rp.Spec)
			check(rp.Spec, r, meta)
			fmt.Println(strings.Join(r.Hist, "; "), "delivered:", r.Delivered, "inconclusive:", r.Inconclusive)
			if len(meta.Violations) > 0 {
				fmt.Println("REPRODUCED:", meta.Violations[0].What)
				os.Exit(1)
			}
		}
		fmt.Println("not reproduced in 20 runs")
		return
	}
	n := hx.Pick3(args.Tier, 320, 8000, 3000)
	specs := make([]spec, n)
	for i := range specs {
		specs[i] = genSpec(rng, meta)
		for _, s := range specs[i].Program {
			meta.Count("segments", segNames[s])
		}
	}
	results := make([]*result, n)
	var wg sync.WaitGroup
	sem := make(chan struct{}, 16)
	for i := range specs {
		i := i
		wg.Add(1)
		sem <- struct{}{}
		go func() {
			defer wg.Done()
			defer func() { <-sem }()
			results[i] = run(specs[i])
		}()
	}
	wg.Wait()
	var cases []string
	for i, r := range results {
		meta.Evaluations++
		if r.Inconclusive != "" {
			meta.Count("inconclusive", r.Inconclusive)
			continue
		}
		meta.Count("inconclusive", "conclusive")
		check(specs[i], r, meta)
		if len(cases) < hx.Pick3(args.Tier, 400, 4000, 0) {
			cases = append(cases, specs[i].coq(len(cases), r))
			meta.CaseIndex[fmt.Sprint(len(cases)-1)] = map[string]interface{}{"spec": specs[i], "history": r.Hist, "delivered_us": r.Delivered}
		}
		race := false
		for _, s := range specs[i].Program {
			if s >= segRaceDecide && s != segInactQuiet {
				race = true
			}
		}
		if race && len(r.Cbs) > 0 {
			meta.Distinct(fmt.Sprint(specs[i].Write, specs[i].IdleUs, specs[i].Program, specs[i].Seed))
		}
		if i < 3 {
			meta.Sample(map[string]interface{}{"spec": specs[i], "history": r.Hist, "delivered_us": r.Delivered, "exceptions": r.Excs})
		}
	}
	if args.Out != "" && args.Out != os.DevNull {
		var sb strings.Builder
		sb.WriteString("From Coq Require Import List NArith.\nFrom GN Require Import Model.Idle Model.IdleCheck.\nImport ListNotations.\nOpen Scope N_scope.\n")
		sb.WriteString("Definition cases : list icase := [\n" + strings.Join(cases, ";\n") + "].\n")
		sb.WriteString("Definition R := Eval vm_compute in check_icases cases.\nPrint R.\n")
		os.WriteFile(args.Out, []byte(sb.String()), 0o644)
	}
	meta.Cases = len(cases)
	meta.Write(args.Meta)
}

// h_frame: correspondence harness for the frame codecs (C04 round-trip under
// any fragmentation, C08 safety on adversarial / truncated streams).
package main

import (
	"bytes"
	"encoding/binary"
	"fmt"
	"io"
	"os"
	"strings"

	netty "github.com/go-netty/go-netty"
	"github.com/go-netty/go-netty/codec"
	"github.com/go-netty/go-netty/codec/frame"
	"verifharness/hx"
	"verifharness/mock"
)

// ---------- codec descriptions ----------
type cdc struct {
	Kind   string `json:"kind"` // lf | vi | dl | fx | pp
	BE     bool   `json:"be,omitempty"`
	Max    int    `json:"max,omitempty"`
	Off    int    `json:"off,omitempty"`
	W      int    `json:"w,omitempty"`
	Adj    int    `json:"adj,omitempty"`
	Strip  int    `json:"strip,omitempty"`
	Delim  []byte `json:"delim,omitempty"`
	StripD bool   `json:"stripd,omitempty"`
	Len    int    `json:"len,omitempty"`
	Incl   bool   `json:"incl,omitempty"`
}

func order(be bool) binary.ByteOrder {
	if be {
		return binary.BigEndian
	}
	return binary.LittleEndian
}

func (c cdc) coq() string {
	switch c.Kind {
	case "lf":
		return fmt.Sprintf("CLF {| lf_be := %s; lf_max := %d; lf_off := %d; lf_w := %d; lf_adj := %s; lf_strip := %d |}",
			hx.Bool(c.BE), c.Max, c.Off, c.W, hx.Z(int64(c.Adj)), c.Strip)
	case "pp":
		return fmt.Sprintf("CPP {| pp_be := %s; pp_w := %d; pp_adj := %s; pp_incl := %s |}", hx.Bool(c.BE), c.W, hx.Z(int64(c.Adj)), hx.Bool(c.Incl))
	case "vi":
		return fmt.Sprintf("CVI %d", c.Max)
	case "dl":
		return fmt.Sprintf("CDL %d %s %s", c.Max, hx.BytesN(c.Delim), hx.Bool(c.StripD))
	}
	return fmt.Sprintf("CFX %d", c.Len)
}

func (c cdc) decoder() codec.Codec {
	switch c.Kind {
	case "lf":
		return frame.LengthFieldCodec(order(c.BE), c.Max, c.Off, c.W, c.Adj, c.Strip)
	case "vi":
		return frame.VarintLengthFieldCodec(c.Max)
	case "dl":
		return frame.DelimiterCodec(c.Max, string(c.Delim), c.StripD)
	}
	return frame.FixedLengthCodec(c.Len)
}

// ---------- pieces (compact byte strings shared with Coq) ----------
type piece struct {
	Lit     []byte `json:"lit,omitempty"`
	A, B, N int
}

func (p piece) bytes() []byte {
	if p.N == 0 {
		return p.Lit
	}
	out := make([]byte, p.N)
	for i := range out {
		out[i] = byte((p.A + i*p.B) % 256)
	}
	return out
}
func (p piece) coq() string {
	if p.N == 0 {
		return "PL " + hx.BytesN(p.Lit)
	}
	return fmt.Sprintf("PGen %d %d %d", p.A, p.B, p.N)
}
func pieces(ps []piece) []byte {
	var out []byte
	for _, p := range ps {
		out = append(out, p.bytes()...)
	}
	return out
}
func payloadPiece(rng *hx.Rng, n int) piece {
	if n <= 24 {
		return piece{Lit: rng.Bytes(n)}
	}
	return piece{A: rng.Intn(256), B: 1 + rng.Intn(255), N: n}
}
func coqPieces(ps []piece) string {
	xs := make([]string, len(ps))
	for i := range ps {
		xs[i] = ps[i].coq()
	}
	return hx.List(xs)
}

func digest(b []byte) (int, int) {
	s1, s2 := 1, 0
	for _, c := range b {
		s1 = (s1 + int(c)) % 65521
		s2 = (s2 + s1) % 65521
	}
	return len(b), s1 + 65536*s2
}

// ---------- one decode run on the implementation ----------
type step struct {
	Frame  bool   `json:"frame"`
	Len    int    `json:"len,omitempty"`
	Dg     int    `json:"dg,omitempty"`
	Exc    string `json:"exc,omitempty"`
	Msg    string `json:"msg,omitempty"`
	pulled int
	sawEnd bool
	data   []byte
}

func (s step) coq() string {
	if s.Frame {
		return fmt.Sprintf("OFr %d %d", s.Len, s.Dg)
	}
	return "OEx " + s.Exc
}

func classify(msg string) string {
	switch {
	case strings.Contains(msg, "read header fail"):
		return "EHeader"
	case strings.Contains(msg, "negative pre-adjustment"):
		return "ENegative"
	case strings.Contains(msg, "is less than lengthFieldEndOffset"):
		return "ELess"
	case strings.Contains(strings.ToLower(msg), "frame length too large"):
		return "ETooLarge"
	case strings.Contains(msg, "is less than initialBytesToStrip"):
		return "EStrip"
	case strings.Contains(msg, "read frame body fail"), strings.Contains(msg, "read frame fail"):
		return "ETruncated"
	case strings.Contains(msg, "does not fit"):
		return "ERange"
	}
	return "?" + msg
}

func consume(m interface{}) ([]byte, error) {
	switch v := m.(type) {
	case []byte:
		return v, nil
	case io.Reader:
		return io.ReadAll(v)
	}
	return nil, fmt.Errorf("unexpected message type %T", m)
}

func decodeRun(c cdc, sr *mock.ScriptReader, cap int) (steps []step) {
	dec := c.decoder()
	for len(steps) < cap {
		var st step
		p0 := sr.Pulled
		func() {
			defer func() {
				if e := recover(); e != nil {
					st.Frame = false
					st.Msg = fmt.Sprint(e)
					st.Exc = classify(st.Msg)
					if strings.HasPrefix(st.Exc, "?") {
						switch c.Kind {
						case "vi":
							st.Exc = "EVarint"
						case "dl":
							st.Exc = "ERead"
						case "fx":
							st.Exc = "ETruncated"
						}
					}
					if _, isRt := e.(interface{ RuntimeError() }); isRt {
						st.Exc = "RUNTIME:" + st.Msg
					}
				}
			}()
			ctx := &mock.Ctx{}
			delivered := false
			ctx.OnRead = func(m netty.Message) {
				// the downstream consumer reads the frame completely
				data, err := consume(m)
				if err != nil {
					panic(fmt.Errorf("read frame body fail (consumer): %w", err))
				}
				delivered = true
				st.Frame = true
				st.data = append([]byte(nil), data...)
				st.Len, st.Dg = digest(data)
			}
			dec.HandleRead(ctx, sr)
			if !delivered {
				st.Exc = "NODELIVERY"
			}
		}()
		st.pulled = sr.Pulled - p0
		st.sawEnd = sr.SawEnd
		steps = append(steps, st)
		if !st.Frame {
			break
		}
	}
	return
}

func mkScript(wire []byte, cuts []int, fin string, k int) *mock.ScriptReader {
	sr := &mock.ScriptReader{Final: fin}
	body := wire
	if fin == "dataeof" {
		body = wire[:len(wire)-k]
		sr.FinData = append([]byte(nil), wire[len(wire)-k:]...)
	}
	rest := body
	for _, c := range cuts {
		if c > len(rest) {
			c = len(rest)
		}
		sr.Chunks = append(sr.Chunks, append([]byte(nil), rest[:c]...))
		rest = rest[c:]
	}
	if len(rest) > 0 {
		sr.Chunks = append(sr.Chunks, append([]byte(nil), rest...))
	}
	return sr
}

func genCuts(rng *hx.Rng, n int, meta *hx.Meta) []int {
	var cuts []int
	mode := rng.Intn(5)
	meta.Count("fragmentation", []string{"whole", "1-byte", "random-small", "random-large", "with-empty-reads"}[mode])
	switch mode {
	case 0:
		return nil
	case 1:
		lim := n
		if lim > 300 {
			lim = 300
		}
		for i := 0; i < lim; i++ {
			cuts = append(cuts, 1)
		}
	case 2, 4:
		for left := n; left > 0; {
			c := 1 + rng.Intn(5)
			if mode == 4 && rng.Chance(25) {
				c = 0
			}
			cuts = append(cuts, c)
			left -= c
			if len(cuts) > 400 {
				break
			}
		}
	case 3:
		for left := n; left > 0; {
			c := 1 + rng.Intn(2000)
			cuts = append(cuts, c)
			left -= c
		}
	}
	return cuts
}

func finCoq(fin string, k int) string {
	switch fin {
	case "err":
		return "SErr"
	case "dataeof":
		return fmt.Sprintf("(SDataEOF %d)", k)
	}
	return "SEOF"
}

// ---------- configuration generators ----------
func genLF(rng *hx.Rng) cdc {
	w := []int{1, 2, 4, 8}[rng.Intn(4)]
	off := []int{0, 0, 0, 1, 2, 5}[rng.Intn(6)]
	c := cdc{Kind: "lf", BE: rng.Bool(), W: w, Off: off}
	c.Adj = []int{0, 0, 0, -w, w, 2, -1, -(off + w)}[rng.Intn(8)]
	c.Max = []int{64, 300, 1024, 70000, 1 << 20}[rng.Intn(5)]
	c.Strip = []int{0, 0, off + w, off, 1, off + w + 2}[rng.Intn(6)]
	if c.Off > c.Max-c.W {
		c.Off = 0
	}
	return c
}

func lenChoices(rng *hx.Rng, c cdc) int {
	cands := []int{0, 1, 2, 3, 7, 15, 16, 17, 100, 127, 128, 129, 254, 255, 256, 257, 300}
	if rng.Chance(6) {
		cands = []int{1023, 1024, 1025, 4096, 65535, 65536, 65537}
	}
	return cands[rng.Intn(len(cands))]
}

func putField(be bool, w int, v uint64) []byte {
	b := make([]byte, 8)
	if be {
		binary.BigEndian.PutUint64(b, v)
		return b[8-w:]
	}
	binary.LittleEndian.PutUint64(b, v)
	return b[:w]
}

func fieldCap(w int) uint64 {
	if w == 8 {
		return 1 << 63
	}
	return 1 << (8 * uint(w))
}

type dcase struct {
	Codec  cdc      `json:"codec"`
	Wire   []piece  `json:"wire"`
	Cuts   []int    `json:"cuts"`
	Fin    string   `json:"fin"`
	K      int      `json:"k"`
	Obs    []step   `json:"obs"`
	Expect [][2]int `json:"expect,omitempty"` // digests of the payloads a valid stream must decode to
	Valid  bool     `json:"valid"`
}

func (d dcase) coq(id int) string {
	xs := make([]string, len(d.Obs))
	for i := range d.Obs {
		xs[i] = d.Obs[i].coq()
	}
	cs := make([]string, len(d.Cuts))
	for i := range d.Cuts {
		cs[i] = fmt.Sprint(d.Cuts[i])
	}
	return fmt.Sprintf("{| dc_id := %s; dc_codec := %s; dc_wire := %s; dc_cuts := %s; dc_fin := %s; dc_obs := %s |}",
		hx.Nat(id), d.Codec.coq(), coqPieces(d.Wire), hx.List(cs), finCoq(d.Fin, d.K), hx.List(xs))
}

// build a valid stream for a decoder configuration: frames the contract admits
func validStream(rng *hx.Rng, c cdc, nframes int) (wire []piece, expect [][]byte) {
	for i := 0; i < nframes; i++ {
		switch c.Kind {
		case "lf":
			n := lenChoices(rng, c)
			// total = off + w + rest ; field value v = rest - adj must fit; total <= max; strip <= total
			rest := n
			if c.Off+c.W+rest > c.Max {
				rest = c.Max - c.Off - c.W
			}
			v := rest - c.Adj
			if v < 0 {
				rest = c.Adj
				v = 0
				if c.Off+c.W+rest > c.Max {
					return wire, expect
				}
			}
			if uint64(v) >= fieldCap(c.W) {
				v = int(fieldCap(c.W) - 1)
				rest = v + c.Adj
			}
			if rest < 0 || c.Strip > c.Off+c.W+rest || c.Off+c.W+rest > c.Max {
				return wire, expect
			}
			pre := piece{Lit: rng.Bytes(c.Off)}
			fld := piece{Lit: putField(c.BE, c.W, uint64(v))}
			body := payloadPiece(rng, rest)
			wire = append(wire, pre, fld, body)
			whole := append(append(append([]byte{}, pre.bytes()...), fld.bytes()...), body.bytes()...)
			expect = append(expect, whole[c.Strip:])
		case "vi":
			n := lenChoices(rng, c)
			if n > c.Max {
				n = c.Max
			}
			var head [10]byte
			k := binary.PutUvarint(head[:], uint64(n))
			body := payloadPiece(rng, n)
			wire = append(wire, piece{Lit: append([]byte{}, head[:k]...)}, body)
			expect = append(expect, body.bytes())
		case "dl":
			n := lenChoices(rng, c)
			if n+len(c.Delim) > c.Max {
				n = c.Max - len(c.Delim)
			}
			// the payload never contains the delimiter, but it may contain (and end with) single bytes of a
			// multi-byte delimiter: the first complete delimiter of payload+delimiter is the real one
			b := make([]byte, n)
			for try := 0; ; try++ {
				for j := range b {
					if len(c.Delim) > 1 && try < 20 && rng.Chance(25) {
						b[j] = c.Delim[rng.Intn(len(c.Delim))]
					} else {
						for {
							b[j] = byte(rng.U64())
							if bytes.IndexByte(c.Delim, b[j]) < 0 {
								break
							}
						}
					}
				}
				if bytes.Index(append(append([]byte{}, b...), c.Delim...), c.Delim) == len(b) {
					break
				}
			}
			wire = append(wire, piece{Lit: b}, piece{Lit: c.Delim})
			if c.StripD {
				expect = append(expect, b)
			} else {
				expect = append(expect, append(append([]byte{}, b...), c.Delim...))
			}
		case "fx":
			body := payloadPiece(rng, c.Len)
			wire = append(wire, body)
			expect = append(expect, body.bytes())
		}
	}
	return
}

func genDecoder(rng *hx.Rng) cdc {
	switch rng.Intn(4) {
	case 0:
		return cdc{Kind: "vi", Max: []int{10, 127, 128, 300, 70000}[rng.Intn(5)]}
	case 1:
		// incl. delimiters whose proper prefixes overlap themselves ("aab", "--\n", "abac", "\r\r\n"): a matcher that
		// falls back too far after a partial match misses the delimiter behind a payload ending in such a prefix
		d := [][]byte{{'\n'}, {'\r', '\n'}, {0}, {'a', 'b', 'a'}, {0xff, 0xfe}, {'a', 'a', 'b'}, {'-', '-', '\n'}, {'a', 'b', 'a', 'c'}, {'\r', '\r', '\n'}}[rng.Intn(9)]
		return cdc{Kind: "dl", Max: []int{8, 64, 300, 1024}[rng.Intn(4)], Delim: d, StripD: rng.Bool()}
	case 2:
		return cdc{Kind: "fx", Len: []int{1, 2, 7, 16, 255, 1024}[rng.Intn(6)]}
	}
	return genLF(rng)
}

// declared total length of the frame at the head of `b` as an independent
// (harness-side) parser sees it; ok=false if b is too short to tell
func declared(c cdc, b []byte) (hdr, total int, ok bool) {
	switch c.Kind {
	case "fx":
		return 0, c.Len, true
	case "vi":
		v, k := binary.Uvarint(b)
		if k <= 0 {
			return 0, 0, false
		}
		return k, k + int(v), true
	case "lf":
		e := c.Off + c.W
		if len(b) < e {
			return 0, 0, false
		}
		f := make([]byte, 8)
		var raw int64
		if c.BE {
			copy(f[8-c.W:], b[c.Off:e])
			raw = int64(binary.BigEndian.Uint64(f))
		} else {
			copy(f, b[c.Off:e])
			raw = int64(binary.LittleEndian.Uint64(f))
		}
		if raw < 0 {
			// an 8-byte field of 2^63 or more announces no frame at all: nothing may be delivered here,
			// whatever the adjustment does to the number
			return e, 0, false
		}
		return e, int(raw) + c.Adj + e, true
	}
	return 0, 0, false
}

func main() {
	args := hx.ParseArgs()
	rng := hx.NewRng(args.Seed)
	meta := hx.NewMeta("h_frame", args.Seed, args.Tier)
	prop := args.Prop
	if prop == "" {
		prop = "C04"
	}
	meta.Rule = "decoder configurations x streams (valid frame sequences at length-field capacity / max-frame boundaries, and for C08 adversarial / truncated streams) x fragmentations (whole, 1-byte, random, with empty reads, data-with-EOF, failing); non-trivial = a read boundary falls inside a header/delimiter or a length sits on a boundary value or the stream is cut inside a frame; distinct = distinct (codec, wire digest, cuts, final)"

	var dcs []dcase
	var ecs []string
	check := func(d *dcase) {
		wire := pieces(d.Wire)
		sr := mkScript(wire, d.Cuts, d.Fin, d.K)
		d.Obs = decodeRun(d.Codec, sr, 40)
		meta.Evaluations++
		meta.Count("codec", d.Codec.Kind)
		meta.Count("final", d.Fin)
		rep := map[string]interface{}{"case": d}
		// ---- Go-side oracles ----
		off := 0
		nf := 0
		for i, st := range d.Obs {
			if strings.HasPrefix(st.Exc, "RUNTIME") {
				meta.Violate(hx.Violation{Property: "C08", What: "decoder " + d.Codec.Kind + " failed with a runtime fault: " + st.Msg, Signature: "runtime-fault", Replay: rep})
			}
			if !st.Frame {
				break
			}
			nf++
			// completeness of the delivered frame against an independent parse of the stream
			switch d.Codec.Kind {
			case "fx", "vi", "lf":
				h, total, ok := declared(d.Codec, wire[off:])
				want := total - d.Codec.Strip
				if d.Codec.Kind != "lf" {
					want = total - h
				}
				if off >= len(wire) && total > 0 {
					meta.Violate(hx.Violation{Property: "C08", What: fmt.Sprintf("%s decoder delivered a %d-byte frame after the stream had ended (frame %d): phantom / endless frames", d.Codec.Kind, st.Len, i),
						Signature: "phantom-frame-after-end", Replay: rep})
				} else if !ok || off+total > len(wire) || st.Len != want {
					meta.Violate(hx.Violation{Property: "C08", What: fmt.Sprintf("%s decoder delivered a %d-byte frame at stream offset %d where %d of the declared %d bytes had arrived (frame %d)",
						d.Codec.Kind, st.Len, off, len(wire)-off, total, i), Signature: "truncated-frame-delivered", Replay: rep})
					off = len(wire)
				} else {
					off += total
				}
				if d.Codec.Kind == "vi" {
					total -= h
				}
				if total > d.Codec.Max && d.Codec.Kind != "fx" {
					meta.Violate(hx.Violation{Property: "C08", What: fmt.Sprintf("%s decoder delivered a frame of %d > max %d", d.Codec.Kind, total, d.Codec.Max), Signature: "oversized", Replay: rep})
				}
			case "dl":
				idx := bytes.Index(wire[off:], d.Codec.Delim)
				if idx < 0 || idx+len(d.Codec.Delim) > d.Codec.Max {
					meta.Violate(hx.Violation{Property: "C08", What: "delimiter decoder delivered a frame without a complete delimiter within max", Signature: "truncated-frame-delivered", Replay: rep})
					off = len(wire)
				} else {
					want := idx
					if !d.Codec.StripD {
						want = idx + len(d.Codec.Delim)
					}
					if st.Len != want {
						meta.Violate(hx.Violation{Property: "C08", What: fmt.Sprintf("delimiter decoder delivered a %d-byte frame where the completely received frame has %d bytes (payload ending in a byte of the delimiter cut short?)", st.Len, want), Signature: "truncated-frame-delivered", Replay: rep})
					}
					off += idx + len(d.Codec.Delim)
				}
			}
		}
		if d.Valid && d.Fin != "err" {
			ok := nf == len(d.Expect)
			for i := 0; ok && i < nf; i++ {
				ok = d.Obs[i].Len == d.Expect[i][0] && d.Obs[i].Dg == d.Expect[i][1]
			}
			if !ok {
				meta.Violate(hx.Violation{Property: "C04", What: fmt.Sprintf("%s: decoding a valid stream of %d frames yielded %d frames / different payloads", d.Codec.Kind, len(d.Expect), nf), Signature: "roundtrip", Replay: rep})
			}
		}
	}

	nvalid := hx.Pick3(args.Tier, 260, 4000, 8000)
	nbad := hx.Pick3(args.Tier, 260, 4000, 8000)
	if prop == "C04" {
		nbad = nbad / 8
	} else {
		nvalid = nvalid / 4
	}
	// corpus: the truncated-body and EOF cases that exposed the lazy LimitReader
	corpus := []dcase{
		{Codec: cdc{Kind: "fx", Len: 4}, Wire: []piece{{Lit: []byte{1, 2, 3, 4}}}, Fin: "eof"},
		{Codec: cdc{Kind: "vi", Max: 100}, Wire: []piece{{Lit: []byte{10, 1, 2}}}, Fin: "eof"},
		{Codec: cdc{Kind: "lf", BE: true, Max: 100, W: 2, Strip: 2}, Wire: []piece{{Lit: []byte{0, 10, 1, 2}}}, Fin: "eof"},
		{Codec: cdc{Kind: "lf", BE: true, Max: 100, W: 8}, Wire: []piece{{Lit: []byte{0xff, 0xff, 0xff, 0xff, 0xff, 0xff, 0xff, 0xf0, 1}}}, Fin: "eof"},
	}
	for i := range corpus {
		check(&corpus[i])
		dcs = append(dcs, corpus[i])
	}
	for i := 0; i < nvalid; i++ {
		c := genDecoder(rng)
		wire, expect := validStream(rng, c, 1+rng.Intn(4))
		d := dcase{Codec: c, Wire: wire, Valid: true, Fin: "eof"}
		for _, e := range expect {
			n, g := digest(e)
			d.Expect = append(d.Expect, [2]int{n, g})
		}
		total := len(pieces(wire))
		d.Cuts = genCuts(rng, total, meta)
		if c.Kind != "dl" && total > 0 && rng.Chance(15) { // data arriving together with EOF (not for the 1-byte-read delimiter loop)
			d.Fin, d.K = "dataeof", 1+rng.Intn(min(total, 9))
		}
		check(&d)
		dcs = append(dcs, d)
		meta.Distinct(fmt.Sprint(c, d.Cuts, d.Expect, d.Fin))
		if i < 2 {
			meta.Sample(map[string]interface{}{"codec": c, "cuts": d.Cuts[:min(len(d.Cuts), 10)], "frames": d.Expect, "final": d.Fin, "observed": d.Obs})
		}
	}
	for i := 0; i < nbad; i++ {
		c := genDecoder(rng)
		var d dcase
		switch rng.Intn(5) {
		case 4: // length-field decoders: raw length values around every validity boundary of the configuration
			c = genLF(rng)
			cands := []int64{0, 1, 2, int64(c.W) - 1, int64(c.W), int64(c.W) + 1, int64(c.Off), int64(c.Off+c.W) - 1, int64(c.Off + c.W), int64(c.Off+c.W) + 1,
				int64(-c.Adj) - 1, int64(-c.Adj), int64(-c.Adj) + 1, int64(-c.Adj-c.Off) - 1, int64(-c.Adj - c.Off), int64(c.Strip), int64(c.Strip - c.Adj - c.Off - c.W),
				int64(c.Max-c.Adj-c.Off-c.W) - 1, int64(c.Max - c.Adj - c.Off - c.W), int64(c.Max-c.Adj-c.Off-c.W) + 1}
			raw := cands[rng.Intn(len(cands))]
			if raw < 0 {
				raw = 0
			}
			hdr := make([]byte, c.W)
			for i := 0; i < c.W; i++ {
				sh := uint(8 * i)
				if c.BE {
					sh = uint(8 * (c.W - 1 - i))
				}
				hdr[i] = byte(uint64(raw) >> sh)
			}
			w := append(append(rng.Bytes(c.Off), hdr...), rng.Bytes(rng.Intn(40))...)
			d = dcase{Codec: c, Wire: []piece{{Lit: w}}}
			meta.Count("malformed", "boundary-length-header")
		case 0: // cut a valid stream at every kind of point
			wire, _ := validStream(rng, c, 1+rng.Intn(3))
			w := pieces(wire)
			if len(w) > 0 {
				w = w[:rng.Intn(len(w))]
			}
			if len(w) > 400 {
				w = w[:400]
			}
			d = dcase{Codec: c, Wire: []piece{{Lit: w}}}
			meta.Count("malformed", "cut-valid")
		case 1: // adversarial header values
			hdr := [][]byte{{0xff, 0xff, 0xff, 0xff, 0xff, 0xff, 0xff, 0xff, 0xff, 0xff, 0xff}, {0x7f, 0xff, 0xff, 0xff, 0xff, 0xff, 0xff, 0xff}, {0x80, 0, 0, 0, 0, 0, 0, 0},
				{0x80, 0x80, 0x80, 0x80, 0x80, 0x80, 0x80, 0x80, 0x80, 0x02}, {0xff, 0xff, 0xff, 0xff, 0xff, 0xff, 0xff, 0xff, 0xff, 0x01}, {0, 0, 0, 0, 0, 0, 0, 0}}[rng.Intn(6)]
			w := append(append(rng.Bytes(c.Off), hdr...), rng.Bytes(rng.Intn(20))...)
			d = dcase{Codec: c, Wire: []piece{{Lit: w}}}
			meta.Count("malformed", "adversarial-header")
		case 2: // random bytes
			d = dcase{Codec: c, Wire: []piece{{Lit: rng.Bytes(rng.Intn(60))}}}
			meta.Count("malformed", "random")
		default: // empty stream / immediate end
			d = dcase{Codec: c, Wire: []piece{{Lit: nil}}}
			meta.Count("malformed", "empty")
		}
		total := len(pieces(d.Wire))
		d.Cuts = genCuts(rng, total, meta)
		d.Fin = []string{"eof", "eof", "err", "dataeof"}[rng.Intn(4)]
		if d.Fin == "dataeof" {
			if total == 0 {
				d.Fin = "eof"
			} else {
				d.K = 1 + rng.Intn(min(total, 5))
			}
		}
		check(&d)
		dcs = append(dcs, d)
		meta.Distinct(fmt.Sprint(c, d.Cuts, d.Wire, d.Fin))
		if i < 2 {
			meta.Sample(map[string]interface{}{"codec": c, "wire": pieces(d.Wire), "cuts": d.Cuts[:min(len(d.Cuts), 10)], "final": d.Fin, "observed": d.Obs})
		}
	}

	// ---- encoders ----
	nenc := hx.Pick3(args.Tier, 200, 3000, 6000)
	encode := func(c cdc, body piece, carrier int) (res step) {
		defer func() {
			if e := recover(); e != nil {
				res = step{Exc: "ERange", Msg: fmt.Sprint(e)}
			}
		}()
		ctx := &mock.Ctx{}
		b := body.bytes()
		var msg interface{} = b
		switch carrier {
		case 1:
			msg = string(b)
		case 2:
			msg = bytes.NewBuffer(append([]byte(nil), b...))
		case 3:
			msg = bytes.NewReader(b)
		case 4:
			msg = strings.NewReader(string(b))
		case 5:
			msg = [][]byte{b[:len(b)/2], b[len(b)/2:]}
		}
		switch c.Kind {
		case "pp":
			frame.LengthFieldPrepender(order(c.BE), c.W, c.Adj, c.Incl).HandleWrite(ctx, msg)
		default:
			c.decoder().HandleWrite(ctx, msg)
		}
		if len(ctx.Writes) != 1 {
			// neither exactly one frame nor an exception: reported by the Go oracle below; for the model it is
			// "some exception that is not the range error" (the model never predicts ERead for an encoder)
			return step{Exc: "ERead", Msg: fmt.Sprintf("NOWRITE: the encoder performed %d writes and raised nothing", len(ctx.Writes))}
		}
		var out []byte
		switch v := ctx.Writes[0].(type) {
		case [][]byte:
			for _, x := range v {
				out = append(out, x...)
			}
		default:
			o, err := consume(v)
			if err != nil {
				return step{Exc: "ERange", Msg: err.Error()}
			}
			out = o
		}
		n, g := digest(out)
		return step{Frame: true, Len: n, Dg: g, data: out}
	}
	doEnc := func(c cdc, n int, carrier int) {
		body := payloadPiece(rng, n)
		res := encode(c, body, carrier)
		meta.Evaluations++
		meta.Count("encoder", c.Kind)
		meta.Count("carrier", []string{"[]byte", "string", "*bytes.Buffer", "*bytes.Reader", "*strings.Reader", "[][]byte"}[carrier])
		meta.Count("payload_len", hx.SizeBucket(n))
		ecs = append(ecs, fmt.Sprintf("{| ec_id := %s; ec_codec := %s; ec_body := [%s]; ec_obs := %s |}", hx.Nat(len(ecs)), c.coq(), body.coq(), res.coq()))
		meta.CaseIndex["e"+fmt.Sprint(len(ecs)-1)] = map[string]interface{}{"codec": c, "body_len": n, "carrier": carrier, "observed": res}
		if strings.HasPrefix(res.Msg, "NOWRITE") {
			meta.Violate(hx.Violation{Property: "C04", What: fmt.Sprintf("%s encoder given a payload of %d bytes (carrier %d) neither emitted one frame nor raised an exception: %s", c.Kind, n, carrier, res.Msg),
				Signature: "encoder-silent", Replay: map[string]interface{}{"encode": map[string]interface{}{"codec": c, "body_len": n, "carrier": carrier}}})
		}
		// oracle: an emitted frame's header must agree with its body
		if res.Frame && (c.Kind == "pp" || c.Kind == "lf") {
			w := c.W
			adj, incl := c.Adj, c.Incl
			if c.Kind == "lf" {
				adj, incl = 0, false
			}
			f := make([]byte, 8)
			var hv uint64
			if c.BE {
				copy(f[8-w:], res.data[:w])
				hv = binary.BigEndian.Uint64(f)
			} else {
				copy(f, res.data[:w])
				hv = binary.LittleEndian.Uint64(f)
			}
			want := n + adj
			if incl {
				want += w
			}
			if int64(hv) != int64(want) || !bytes.Equal(res.data[w:], body.bytes()) {
				meta.Violate(hx.Violation{Property: "C04", What: fmt.Sprintf("prepender width %d emitted header %d for a frame that needs %d (body %d bytes)", w, hv, want, n),
					Signature: "encoder-header-mismatch", Replay: map[string]interface{}{"encode": map[string]interface{}{"codec": c, "body_len": n, "carrier": carrier}}})
			}
			meta.Distinct(fmt.Sprint("enc", c, n, carrier))
		}
	}
	// deterministic sweep of the prepender around the capacity of its length field (widths 1 and 2):
	// the header value n + adjustment (+ width when it includes itself) crosses 2^(8w)-1 exactly here
	for _, w := range []int{1, 2} {
		capv := 1<<(8*uint(w)) - 1
		for _, incl := range []bool{false, true} {
			for _, adj := range []int{0, 1, -1} {
				extra := adj
				if incl {
					extra += w
				}
				for _, v := range []int{capv - 1, capv, capv + 1} {
					if n := v - extra; n >= 0 {
						doEnc(cdc{Kind: "pp", BE: w == 1 || incl, W: w, Adj: adj, Incl: incl}, n, 0)
					}
				}
			}
		}
	}
	for i := 0; i < nenc; i++ {
		var c cdc
		switch rng.Intn(5) {
		case 0, 1:
			c = cdc{Kind: "pp", BE: rng.Bool(), W: []int{1, 2, 4, 8}[rng.Intn(4)], Adj: []int{0, 0, 1, -1, 4, -4, 300}[rng.Intn(7)], Incl: rng.Bool()}
		case 2:
			c = genLF(rng)
		case 3:
			c = cdc{Kind: "vi", Max: []int{10, 127, 128, 300, 70000}[rng.Intn(5)]}
		default:
			c = cdc{Kind: "dl", Max: 1024, Delim: []byte{'\r', '\n'}, StripD: true}
		}
		n := lenChoices(rng, c)
		carrier := rng.Intn(6)
		if c.Kind == "dl" && carrier == 5 {
			carrier = 0
		}
		doEnc(c, n, carrier)
	}

	if args.Replay != "" {
		var rp struct {
			Case   *dcase `json:"case"`
			Encode *struct {
				Codec   cdc `json:"codec"`
				BodyLen int `json:"body_len"`
				Carrier int `json:"carrier"`
			} `json:"encode"`
		}
		meta.Violations = nil
		if err := hx.LoadReplay(args.Replay, &rp); err != nil {
			fmt.Println("cannot load replay:", err)
			os.Exit(2)
		}
		if rp.Case != nil {
			check(rp.Case)
			for _, s := range rp.Case.Obs {
				fmt.Printf("  step: %+v\n", s)
			}
		} else if rp.Encode != nil {
			res := encode(rp.Encode.Codec, piece{A: 1, B: 1, N: rp.Encode.BodyLen}, rp.Encode.Carrier)
			fmt.Printf("  encoded: frame=%v len=%d exc=%s first bytes=%v\n", res.Frame, res.Len, res.Exc, res.data[:min(len(res.data), 10)])
			if res.Frame && rp.Encode.Codec.W == 1 && rp.Encode.BodyLen > 255 {
				meta.Violate(hx.Violation{What: "header does not fit but a frame was emitted"})
			}
		}
		if len(meta.Violations) > 0 {
			fmt.Println("REPRODUCED:", meta.Violations[0].What)
			os.Exit(1)
		}
		fmt.Println("not reproduced: property holds on this case")
		return
	}

	if args.Out != os.DevNull && args.Out != "" {
		var sb strings.Builder
		sb.WriteString("From Coq Require Import ZArith List.\nFrom GN Require Import Base.Reader Model.Frame Model.FrameCheck.\nImport ListNotations.\nOpen Scope Z_scope.\n")
		xs := make([]string, len(dcs))
		for i := range dcs {
			xs[i] = dcs[i].coq(i)
			meta.CaseIndex[fmt.Sprint(i)] = map[string]interface{}{"case": dcs[i]}
		}
		sb.WriteString("Definition dcases : list dcase := [\n" + strings.Join(xs, ";\n") + "].\n")
		sb.WriteString("Definition ecases : list ecase := [\n" + strings.Join(ecs, ";\n") + "].\n")
		sb.WriteString("Definition R := Eval vm_compute in check_dcases dcases.\nPrint R.\n")
		sb.WriteString("Definition RE := Eval vm_compute in check_ecases ecases.\nPrint RE.\n")
		os.WriteFile(args.Out, []byte(sb.String()), 0o644)
	}
	meta.Cases = len(dcs) + len(ecs)
	// keep only this property's violations first
	meta.Write(args.Meta)
}

func min(a, b int) int {
	if a < b {
		return a
	}
	return b
}

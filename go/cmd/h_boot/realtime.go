package main

// Real-time stress WITHOUT the hook scheduler: many listeners, each with Listener.Close racing the start of its accept
// loop on real goroutines, then one Shutdown.  Windows that lie between two critical sections of Listener.Close /
// listen() have no hook; only real preemption reaches them.  Afterwards every accept loop must have returned and
// every acceptor that was created must be closed (C13: no listener is left accepting).

import (
	"fmt"
	"sync"
	"sync/atomic"
	"time"

	netty "github.com/go-netty/go-netty"
	"github.com/go-netty/go-netty/transport"
	"verifharness/hx"
)

type rtAcceptor struct {
	closed chan struct{}
	once   sync.Once
}

func (a *rtAcceptor) Accept() (transport.Transport, error) { <-a.closed; return nil, errClosed }
func (a *rtAcceptor) Close() error                         { a.once.Do(func() { close(a.closed) }); return nil }

type rtFactory struct {
	mu   sync.Mutex
	accs []*rtAcceptor
}

func (f *rtFactory) Schemes() transport.Schemes { return transport.Schemes{"mock"} }
func (f *rtFactory) Connect(o *transport.Options) (transport.Transport, error) {
	return nil, errListen
}
func (f *rtFactory) Listen(o *transport.Options) (transport.Acceptor, error) {
	a := &rtAcceptor{closed: make(chan struct{})}
	f.mu.Lock()
	f.accs = append(f.accs, a)
	f.mu.Unlock()
	return a, nil
}

type goExec struct{}

func (goExec) Exec(fn func()) { go fn() }

func stressCloseVsSync(n int) (open int, running int64) {
	netty.SetVerifSched(nil)
	f := &rtFactory{}
	bs := netty.NewBootstrap(netty.WithTransport(f), netty.WithExecutor(goExec{}))
	var syncs, closes sync.WaitGroup
	var live int64
	for i := 0; i < n; i++ {
		ln := bs.Listen(fmt.Sprintf("mock://h:%d", i))
		start := make(chan struct{})
		syncs.Add(1)
		closes.Add(1)
		atomic.AddInt64(&live, 1)
		go func() { defer syncs.Done(); <-start; ln.Sync(); atomic.AddInt64(&live, -1) }()
		go func() { defer closes.Done(); <-start; ln.Close() }()
		close(start)
		if i%64 == 63 {
			time.Sleep(50 * time.Microsecond) // keep the number of runnable goroutines moderate
		}
	}
	closes.Wait()
	bs.Shutdown()
	done := make(chan struct{})
	go func() { syncs.Wait(); close(done) }()
	select {
	case <-done:
	case <-time.After(10 * time.Second): // only ever waited out when accept loops really hang
	}
	f.mu.Lock()
	for _, a := range f.accs {
		select {
		case <-a.closed:
		default:
			open++
			a.Close() // let the stuck accept loop go
		}
	}
	f.mu.Unlock()
	return open, atomic.LoadInt64(&live)
}

func stressBatches(n int) (open int, running int64) {
	for done := 0; done < n; done += 50000 {
		o, r := stressCloseVsSync(50000)
		open += o
		running += r
	}
	return
}

func exploreRealtime(meta *hx.Meta, n int) {
	open, running := stressBatches(n)
	meta.Evaluations += n
	meta.Count("real-time (no scheduler)", fmt.Sprintf("%d listeners: Listener.Close racing the start of Sync, then Shutdown", n))
	if open > 0 || running > 0 {
		meta.Violate(hx.Violation{Property: "C13", Signature: "realtime-close-vs-sync", Replay: map[string]interface{}{"realtime_listeners": n},
			What: fmt.Sprintf("real-time stress (no scheduler), %d listeners with Listener.Close racing the start of their accept loop, then Shutdown: %d acceptor(s) left open, %d accept loop(s) still running after Shutdown returned", n, open, running)})
	}
}

// h_boot: the real bootstrap (Listen/Async, Listener.Close, Connect, accepted
// connections, Shutdown) over a mock transport factory under the hook
// scheduler (C13).  In "coarse" runs the hooks inside Channel.Close are not
// scheduling points (Close is atomic, as in Model/Boot.v) and the exact
// schedule is replayed in the Coq model; in "fine" runs every hook is a
// scheduling point and only the property's conclusion is evaluated (in Coq) on
// the observed final state.
package main

import (
	"errors"
	"fmt"
	"net"
	"os"
	"strconv"
	"strings"
	"time"

	netty "github.com/go-netty/go-netty"
	"github.com/go-netty/go-netty/transport"
	"verifharness/hx"
	"verifharness/sched"
)

type scenario struct {
	NL       int    `json:"nl"`
	Listens  []int  `json:"listens"`           // listener index of each Listen().Async() goroutine (distinct)
	LCloses  []int  `json:"lcloses"`           // listener index of each Listener.Close() goroutine
	Connects int    `json:"connects"`          // client Connect goroutines
	Dials    []int  `json:"dials"`             // listener index of each incoming connection
	FailL    []int  `json:"faill,omitempty"`   // listeners for which the transport factory's FIRST Listen fails (address in use, ...)
	Retries  []int  `json:"retries,omitempty"` // listener index of each goroutine that calls Async AGAIN on the Listener it got
	NoShut   bool   `json:"noshut"`            // Shutdown is never called (reachable states without it)
	Fine     bool   `json:"fine"`
	Strat    string `json:"strat"`
	Picks    []int  `json:"picks,omitempty"`
}

// ---- mock transport layer ----
type addr string

func (a addr) Network() string { return "mock" }
func (a addr) String() string  { return string(a) }

var errClosed = errors.New("mock: use of closed connection")
var errListen = errors.New("mock: listen failed (address already in use)")

type mtransport struct {
	s      *sched.Sched
	closes int
}

func (t *mtransport) Read(b []byte) (int, error) {
	t.s.Yield("t.read", func() bool { return t.closes > 0 })
	return 0, errClosed
}
func (t *mtransport) Write(b []byte) (int, error)               { return len(b), nil }
func (t *mtransport) Writev(b transport.Buffers) (int64, error) { return 0, nil }
func (t *mtransport) Flush() error                              { return nil }
func (t *mtransport) Close() error                              { t.closes++; return nil }
func (t *mtransport) LocalAddr() net.Addr                       { return addr("local") }
func (t *mtransport) RemoteAddr() net.Addr                      { return addr("remote") }
func (t *mtransport) SetDeadline(time.Time) error               { return nil }
func (t *mtransport) SetReadDeadline(time.Time) error           { return nil }
func (t *mtransport) SetWriteDeadline(time.Time) error          { return nil }
func (t *mtransport) RawTransport() interface{}                 { return t }

type macceptor struct {
	f       *mfactory
	l       int
	closed  bool
	pending int
}

func (a *macceptor) Accept() (transport.Transport, error) {
	a.f.s.Yield("a.accept", func() bool { return a.closed || a.pending > 0 })
	if a.closed {
		return nil, errClosed
	}
	a.pending--
	t := &mtransport{s: a.f.s}
	a.f.transports = append(a.f.transports, t)
	return t, nil
}
func (a *macceptor) Close() error { a.closed = true; return nil }

type mfactory struct {
	s          *sched.Sched
	acceptors  map[int]*macceptor
	transports []*mtransport // in channel-creation order
	dialed     map[int]int   // connections that arrived before the acceptor existed are refused (dropped)
	failFirst  map[int]bool  // listeners whose first Listen fails
	attempts   map[int]int
}

// willFail: whether the NEXT Listen for listener l fails (asked by the harness when the accept loop takes its decision)
func (f *mfactory) willFail(l int) bool { return f.failFirst[l] && f.attempts[l] == 0 }

func (f *mfactory) Schemes() transport.Schemes { return transport.Schemes{"mock"} }
func (f *mfactory) Connect(o *transport.Options) (transport.Transport, error) {
	t := &mtransport{s: f.s}
	f.transports = append(f.transports, t)
	return t, nil
}
func (f *mfactory) Listen(o *transport.Options) (transport.Acceptor, error) {
	// binding takes time: other goroutines may run while the accept loop is in here
	l, _ := strconv.Atoi(o.Address.Port())
	fail := f.willFail(l)
	f.attempts[l]++
	f.s.Yield("f.listen", nil)
	if fail {
		return nil, errListen
	}
	a := &macceptor{f: f, l: l}
	f.acceptors[l] = a
	return a, nil
}

// ---- the handler installed in every channel ----
type chandler struct {
	active, inactive map[int64]int
}

func (h *chandler) HandleActive(ctx netty.ActiveContext) {
	h.active[ctx.Channel().ID()]++
	ctx.HandleActive()
}
func (h *chandler) HandleInactive(ctx netty.InactiveContext, ex netty.Exception) {
	h.inactive[ctx.Channel().ID()]++
	ctx.HandleInactive(ex)
}
func (h *chandler) HandleRead(ctx netty.InboundContext, message netty.Message) {
	// like the frame codecs: read from the transport, panic on its error
	buf := make([]byte, 1)
	if _, err := message.(transport.Transport).Read(buf); err != nil {
		panic(err)
	}
}
func (h *chandler) HandleException(ctx netty.ExceptionContext, ex netty.Exception) {}

// ---- one run ----
type tkind int

const (
	kShutdown tkind = iota
	kListen
	kLClose
	kConnect
	kDial
	kSync
	kChan
	kRetry
)

type tinfo struct {
	kind  tkind
	model int // index in the model's thread list (-1: not a model thread)
	l     int // listener
	c     int // channel (kChan; or the channel a Sync/Connect thread is serving)
	ret   string
	late  bool // the Sync returned after the context was cancelled
}

type result struct {
	Events   []string // Coq bev terms
	Trace    []sched.Step
	Picks    []int
	Obs      string // Coq bobs term
	Threads  []string
	Escaped  []string
	Summary  map[string]interface{}
	ShutDone bool
	Quiet    bool
}

func url(l int) string { return fmt.Sprintf("mock://h:%d", l) }

func run(sc scenario, choose func(step int, en []*sched.Thread, last *sched.Thread) int) *result {
	s := sched.New()
	if !sc.Fine {
		s.Skip = func(p string) bool {
			return strings.HasPrefix(p, "c.") || strings.HasPrefix(p, "w.") || strings.HasPrefix(p, "s.")
		}
	}
	netty.SetVerifSched(s)
	defer netty.SetVerifSched(nil)
	r := &result{}
	f := &mfactory{s: s, acceptors: map[int]*macceptor{}, dialed: map[int]int{}, failFirst: map[int]bool{}, attempts: map[int]int{}}
	for _, l := range sc.FailL {
		f.failFirst[l] = true
	}
	h := &chandler{active: map[int64]int{}, inactive: map[int64]int{}}
	info := map[int]*tinfo{} // sched thread index -> info
	nmodel := 0
	var chans []netty.Channel
	nextID := int64(0)
	cancelled := false
	ex := &spawner{s: s, onSpawn: func(t *sched.Thread) {
		// the spawning thread tells what this is: a Listen goroutine spawns a Sync, a serve step spawns a read loop
		cur := s.Current()
		ci := info[cur.Index]
		ti := &tinfo{model: nmodel}
		nmodel++
		switch ci.kind {
		case kListen, kRetry:
			ti.kind, ti.l = kSync, ci.l
		default:
			ti.kind, ti.c = kChan, ci.c
		}
		info[t.Index] = ti
	}}
	init := func(ch netty.Channel) { ch.Pipeline().AddLast(h) }
	bs := netty.NewBootstrap(
		netty.WithTransport(f), netty.WithExecutor(ex),
		netty.WithChannelID(func() int64 {
			id := nextID
			nextID++
			if cur := s.Current(); cur != nil {
				info[cur.Index].c = int(id)
			}
			return id
		}),
		netty.WithChildInitializer(init), netty.WithClientInitializer(init))
	chanOf := func(id int) netty.Channel {
		for _, c := range chans {
			if int(c.ID()) == id {
				return c
			}
		}
		return nil
	}
	_ = chanOf
	guard := func(name string, fn func()) {
		defer func() {
			if e := recover(); e != nil {
				r.Escaped = append(r.Escaped, name+": "+fmt.Sprint(e))
			}
		}()
		fn()
	}
	listeners := map[int]netty.Listener{}
	syncReturned := map[int]int{}
	syncDone := func(err error) {
		ti := info[s.Current().Index]
		syncReturned[ti.l]++
		switch {
		case errors.Is(err, netty.ErrServerClosed):
			ti.ret = "RetServerClosed"
		case err != nil && strings.Contains(err.Error(), "duplicate"):
			ti.ret = "RetDup"
		case errors.Is(err, errListen):
			ti.ret = "RetListenErr"
		default:
			ti.ret = "RetAcceptErr"
		}
		ti.late = cancelled
	}
	// thread 0: Shutdown
	if !sc.NoShut {
		t := s.Spawn("shutdown", func() { guard("Shutdown", bs.Shutdown); r.ShutDone = true })
		info[t.Index] = &tinfo{kind: kShutdown, model: -1}
	}
	var mths []string
	for _, l := range sc.Listens {
		l := l
		t := s.Spawn(fmt.Sprintf("listen%d", l), func() {
			guard("Listen", func() {
				ln := bs.Listen(url(l))
				listeners[l] = ln
				me := info[s.Current().Index]
				_ = me
				ln.Async(syncDone)
			})
		})
		info[t.Index] = &tinfo{kind: kListen, model: nmodel, l: l}
		nmodel++
		mths = append(mths, fmt.Sprintf("BListen %d false", l))
	}
	for _, l := range sc.LCloses {
		l := l
		t := s.Spawn(fmt.Sprintf("lclose%d", l), func() {
			s.Yield("wait-listen", func() bool { return listeners[l] != nil })
			guard("Listener.Close", func() { listeners[l].Close() })
		})
		info[t.Index] = &tinfo{kind: kLClose, model: nmodel, l: l}
		nmodel++
		mths = append(mths, fmt.Sprintf("BLClose %d false", l))
	}
	for _, l := range sc.Retries {
		l := l
		t := s.Spawn(fmt.Sprintf("retry%d", l), func() {
			// not before the first Sync of this Listener has returned: a second Sync that overlaps the first would block
			// on the listener's mutex outside every hook (the first holds it across the factory's Listen)
			s.Yield("wait-listen", func() bool { return listeners[l] != nil && syncReturned[l] > 0 })
			guard("Listener.Async (again)", func() { listeners[l].Async(syncDone) })
		})
		info[t.Index] = &tinfo{kind: kRetry, model: nmodel, l: l}
		nmodel++
		mths = append(mths, fmt.Sprintf("BRetry %d false", l))
	}
	for i := 0; i < sc.Connects; i++ {
		t := s.Spawn(fmt.Sprintf("connect%d", i), func() {
			guard("Connect", func() {
				ch, err := bs.Connect(url(99))
				if err == nil {
					chans = append(chans, ch)
				}
			})
		})
		info[t.Index] = &tinfo{kind: kConnect, model: nmodel, c: -1}
		nmodel++
		mths = append(mths, "BConnect CoServe")
	}
	for i, l := range sc.Dials {
		l := l
		t := s.Spawn(fmt.Sprintf("dial%d", i), func() {
			s.Yield("wait-acceptor", func() bool { return f.acceptors[l] != nil })
			f.acceptors[l].pending++
		})
		info[t.Index] = &tinfo{kind: kDial, model: -1, l: l}
	}
	// ---- schedule, recording the model events ----
	var lastT *sched.Thread
	lastPoint := ""
	flush := func() {
		// Shutdown's phase ends are visible only after the stretch
		if lastT == nil || info[lastT.Index].kind != kShutdown || sc.Fine {
			return
		}
		now := lastT.Point
		if (lastPoint == "b.range" || strings.HasPrefix(lastPoint, "l.close@")) && now == "b.closeall" {
			r.Events = append(r.Events, "EvShutdown 0")
		}
		if (lastPoint == "b.closeall" || strings.HasPrefix(lastPoint, "h.close@")) && lastT.Done() {
			r.Events = append(r.Events, "EvShutdown 0")
		}
	}
	s.OnStep = func(t *sched.Thread) {
		flush()
		ti := info[t.Index]
		lastT, lastPoint = t, t.Point
		if t.Point == "b.cancel" {
			cancelled = true
		}
		if sc.Fine {
			return
		}
		ev := func(conn bool) { r.Events = append(r.Events, fmt.Sprintf("EvThread %d %s", ti.model, hx.Bool(conn))) }
		switch ti.kind {
		case kShutdown:
			switch {
			case t.Point == "b.cancel" || t.Point == "b.range" || t.Point == "b.closeall":
				r.Events = append(r.Events, "EvShutdown 0")
			case strings.HasPrefix(t.Point, "l.close@"):
				u := strings.TrimPrefix(t.Point, "l.close@")
				l, _ := strconv.Atoi(u[strings.LastIndex(u, ":")+1:])
				r.Events = append(r.Events, fmt.Sprintf("EvShutdown %d", l+1))
			case strings.HasPrefix(t.Point, "h.close@"):
				c, _ := strconv.Atoi(strings.TrimPrefix(t.Point, "h.close@"))
				r.Events = append(r.Events, fmt.Sprintf("EvShutdown %d", c+1))
			}
		case kListen, kConnect:
			ev(false)
		case kLClose:
			if strings.HasPrefix(t.Point, "l.close@") {
				ev(false)
			}
		case kRetry:
			if t.Point == "wait-listen" {
				ev(false)
			}
		case kSync:
			switch t.Point {
			case "l.listen":
				ev(f.willFail(ti.l)) // the environment's choice at this step: the factory's Listen fails
			case "l.serve", "r.serve":
				ev(false)
			case "a.accept":
				ev(!f.acceptors[ti.l].closed)
			}
		case kChan:
			if t.Point != "start" {
				ev(false)
			}
		}
	}
	step := 0
	var last *sched.Thread
	s.Run(func(en []*sched.Thread) *sched.Thread {
		k := choose(step, en, last)
		if k >= len(en) {
			k = 0
		}
		step++
		r.Picks = append(r.Picks, k)
		last = en[k]
		return en[k]
	})
	flush()
	r.Trace = s.Trace
	// ---- observation ----
	phase := 5
	var late []string
	ths := make([]string, nmodel)
	for _, t := range s.All {
		ti := info[t.Index]
		if ti == nil {
			r.Escaped = append(r.Escaped, "unknown goroutine "+t.Name)
			continue
		}
		var d string
		switch ti.kind {
		case kShutdown:
			switch {
			case t.Done():
				phase = 0
			case t.Point == "b.range":
				phase = 4
			case strings.HasPrefix(t.Point, "l.close@"):
				phase = 3
			case t.Point == "b.closeall":
				phase = 2
			case strings.HasPrefix(t.Point, "h.close@") || strings.HasPrefix(t.Point, "c."):
				phase = 1
			}
			continue
		case kDial:
			continue
		case kListen:
			d = fmt.Sprintf("BListen %d %s", ti.l, hx.Bool(t.Done()))
		case kLClose:
			d = fmt.Sprintf("BLClose %d %s", ti.l, hx.Bool(t.Done()))
		case kRetry:
			d = fmt.Sprintf("BRetry %d %s", ti.l, hx.Bool(t.Done()))
		case kConnect:
			switch {
			case t.Done():
				d = "BConnect CoDone"
			case t.Point == "r.serve":
				d = fmt.Sprintf("BConnect (CoWait %d)", ti.c)
			default:
				d = "BConnect CoServe"
			}
		case kSync:
			switch {
			case t.Done():
				d = fmt.Sprintf("BSync %d (SyDone %s)", ti.l, ti.ret)
				if ti.late {
					late = append(late, ti.ret)
				}
			case t.Point == "a.accept" || t.Point == "f.listen":
				// inside transportFactory.Listen the decision to listen has been taken (the model's step)
				d = fmt.Sprintf("BSync %d SyAccept", ti.l)
			case t.Point == "l.serve":
				d = fmt.Sprintf("BSync %d SyServe", ti.l)
			case t.Point == "r.serve":
				d = fmt.Sprintf("BSync %d (SyWait %d)", ti.l, ti.c)
			default:
				d = fmt.Sprintf("BSync %d SyListen", ti.l)
			}
		case kChan:
			switch {
			case t.Done():
				d = fmt.Sprintf("BChan %d ChDone true", ti.c)
			case t.Point == "r.loop":
				d = fmt.Sprintf("BChan %d ChLoop true", ti.c)
			case t.Point == "t.read":
				d = fmt.Sprintf("BChan %d ChRead true", ti.c)
			case t.Point == "start" || t.Point == "r.active":
				d = fmt.Sprintf("BChan %d ChActive false", ti.c)
			default: // fine runs: somewhere inside Close
				d = fmt.Sprintf("BChan %d ChLoop true", ti.c)
			}
		}
		ths[ti.model] = d
	}
	acc := make([]string, sc.NL)
	open := 0
	for l := 0; l < sc.NL; l++ {
		a := f.acceptors[l]
		switch {
		case a == nil:
			acc[l] = "ANone"
		case a.closed:
			acc[l] = "AClosed"
		default:
			acc[l] = "AOpen"
			open++
		}
	}
	var cs []string
	notClosed := 0
	for id, t := range f.transports {
		closed := t.closes > 0 // IsActive of channels created by the accept loop is not reachable from here; the transport tells
		if !closed {
			notClosed++
		}
		cs = append(cs, fmt.Sprintf("(%s, %d, %d)", hx.Bool(closed), t.closes, h.inactive[int64(id)]))
	}
	r.Threads = ths
	r.Obs = fmt.Sprintf("{| bo_ctx := %s; bo_phase := %d; bo_acc := %s; bo_chans := %s; bo_threads := %s; bo_late := %s |}",
		hx.Bool(bs.Context().Err() != nil), phase, hx.List(acc), hx.List(cs), hx.List(ths), hx.List(late))
	r.Summary = map[string]interface{}{"phase": phase, "acceptors": acc, "channels": cs, "threads": ths, "late": late, "escaped": r.Escaped}
	// Go-side statement of the same conclusion (for the replay printout and the search tier)
	r.Quiet = true
	_ = open
	return r
}

// spawner is the bootstrap's executor: every action becomes a schedulable goroutine.
type spawner struct {
	s       *sched.Sched
	n       int
	onSpawn func(t *sched.Thread)
}

func (e *spawner) Exec(a func()) {
	e.n++
	t := e.s.Spawn("exec"+strconv.Itoa(e.n), a)
	e.onSpawn(t)
}

func (sc scenario) coq(id int, r *result) string {
	var mths []string
	for _, l := range sc.Listens {
		mths = append(mths, fmt.Sprintf("BListen %d false", l))
	}
	for _, l := range sc.LCloses {
		mths = append(mths, fmt.Sprintf("BLClose %d false", l))
	}
	for _, l := range sc.Retries {
		mths = append(mths, fmt.Sprintf("BRetry %d false", l))
	}
	for i := 0; i < sc.Connects; i++ {
		mths = append(mths, "BConnect CoServe")
	}
	return fmt.Sprintf("{| bc_id := %d; bc_nl := %d; bc_threads := %s; bc_replay := %s; bc_sched := %s; bc_obs := %s |}",
		id, sc.NL, hx.List(mths), hx.Bool(!sc.Fine), hx.List(r.Events), r.Obs)
}

// Go-side oracle: the property's conclusion on the final observation
func check(sc scenario, r *result, meta *hx.Meta) {
	cc := sc
	cc.Picks = r.Picks
	rep := map[string]interface{}{"scenario": cc, "observed": r.Summary}
	v := func(sig, what string) {
		meta.Violate(hx.Violation{Property: "C13", Signature: sig, What: what, Replay: rep})
	}
	for _, e := range r.Escaped {
		v("escaped", "panic escaped / unknown goroutine: "+e)
	}
	chs := r.Summary["channels"].([]string)
	for i, c := range chs {
		var closes, inact int
		var b string
		fmt.Sscanf(strings.NewReplacer("(", "", ")", "", ",", " ").Replace(c), "%s %d %d", &b, &closes, &inact)
		if closes > 1 || inact > 1 {
			v("closed-twice", fmt.Sprintf("channel %d: transport closed %d times, inactive delivered %d times", i, closes, inact))
		}
		if r.ShutDone && (closes != 1 || inact != 1) {
			v("channel-left-open", fmt.Sprintf("after Shutdown returned and everything came to rest, channel %d has transport closes=%d inactive=%d", i, closes, inact))
		}
	}
	if r.ShutDone {
		for l, a := range r.Summary["acceptors"].([]string) {
			if a == "AOpen" {
				v("acceptor-left-open", fmt.Sprintf("after Shutdown returned, listener %d still has an open acceptor", l))
			}
		}
		for _, t := range r.Threads {
			if strings.HasPrefix(t, "BSync") && !strings.Contains(t, "SyDone") {
				v("accept-loop-alive", "after Shutdown returned an accept loop is still running: "+t)
			}
			if strings.HasPrefix(t, "BChan") && !strings.Contains(t, "ChDone") {
				v("read-loop-alive", "after Shutdown returned a read loop never ended: "+t)
			}
		}
	}
	for _, l := range r.Summary["late"].([]string) {
		if l == "RetAcceptErr" { // RetDup: a rejected second Sync; RetListenErr: the loop never started
			v("not-server-closed", "an accept loop that ended after the context was cancelled returned "+l)
		}
	}
}

func genScenario(rng *hx.Rng, meta *hx.Meta) scenario {
	sc := scenario{NL: 1 + rng.Intn(3)}
	for l := 0; l < sc.NL; l++ {
		if rng.Chance(85) {
			sc.Listens = append(sc.Listens, l)
			for k, n := 0, rng.Intn(3); k < n; k++ {
				sc.Dials = append(sc.Dials, l)
			}
			if rng.Chance(25) {
				sc.LCloses = append(sc.LCloses, l)
			}
			if rng.Chance(20) {
				// the first Listen of the transport factory fails; the application retries on the same Listener
				sc.FailL = append(sc.FailL, l)
				sc.Retries = append(sc.Retries, l)
				meta.Count("listen failures", "first attempt fails, retried")
			} else if rng.Chance(8) {
				sc.Retries = append(sc.Retries, l) // Async again after the accept loop has ended (closed / shut down): refused
				meta.Count("listen failures", "Async again after the loop ended")
			}
		}
	}
	sc.Connects = rng.Intn(3)
	sc.NoShut = rng.Chance(8)
	meta.Count("listeners", fmt.Sprint(len(sc.Listens)))
	meta.Count("incoming connections", fmt.Sprint(len(sc.Dials)))
	meta.Count("client connects", fmt.Sprint(sc.Connects))
	meta.Count("Listener.Close goroutines", fmt.Sprint(len(sc.LCloses)))
	return sc
}

func randomStrat(rng *hx.Rng) func(int, []*sched.Thread, *sched.Thread) int {
	return func(_ int, en []*sched.Thread, _ *sched.Thread) int { return rng.Intn(len(en)) }
}
func stickyStrat(rng *hx.Rng, p int) func(int, []*sched.Thread, *sched.Thread) int {
	return func(_ int, en []*sched.Thread, last *sched.Thread) int {
		for k, t := range en {
			if t == last && !rng.Chance(p) {
				return k
			}
		}
		return rng.Intn(len(en))
	}
}

// run Shutdown as early as possible (start-up / shutdown overlaps), with rare delays
func eagerShutdown(rng *hx.Rng, after int) func(int, []*sched.Thread, *sched.Thread) int {
	return func(step int, en []*sched.Thread, _ *sched.Thread) int {
		if step >= after && !rng.Chance(15) {
			for k, t := range en {
				if t.Name == "shutdown" {
					return k
				}
			}
		}
		return rng.Intn(len(en))
	}
}

func main() {
	args := hx.ParseArgs()
	meta := hx.NewMeta("h_boot", args.Seed, args.Tier)
	devnull, _ := os.OpenFile(os.DevNull, os.O_WRONLY, 0)
	hx.KeepStderr = os.Stderr
	os.Stderr = devnull
	rng := hx.NewRng(args.Seed)
	meta.Rule = "real bootstrap over a mock transport factory under the hook scheduler: 1-3 listeners (Listen().Async(), 0-2 incoming connections each, optional concurrent Listener.Close), 0-2 client Connects, Shutdown placed by the schedule (uniform random, sticky, Shutdown-as-early-as-possible from a random step); coarse runs (Channel.Close atomic) are replayed step by step in the Coq model, fine runs (every hook a scheduling point) are judged on the final observation; non-trivial = Shutdown ran while some listener's accept loop had not started or a connection was between accept and activation, or raced a Listener.Close; distinct = distinct (scenario, schedule)"
	if args.Replay != "" {
		var rp struct {
			Scenario scenario `json:"scenario"`
			RT       int      `json:"realtime_listeners"`
		}
		if err := hx.LoadReplay(args.Replay, &rp); err != nil {
			fmt.Println("cannot load replay:", err)
			os.Exit(2)
		}
		if rp.RT > 0 {
			for try := 0; try < 5; try++ {
				if open, running := stressBatches(rp.RT); open > 0 || running > 0 {
					fmt.Printf("REPRODUCED: %d acceptor(s) left open, %d accept loop(s) still running after Shutdown\n", open, running)
					os.Exit(1)
				}
			}
			fmt.Println("not reproduced in 5 stress runs")
			return
		}
		picks := rp.Scenario.Picks
		r := run(rp.Scenario, func(step int, en []*sched.Thread, _ *sched.Thread) int {
			if step < len(picks) && picks[step] < len(en) {
				return picks[step]
			}
			return 0
		})
		check(rp.Scenario, r, meta)
		for _, st := range r.Trace {
			fmt.Printf("%s@%s ", st.Name, st.Point)
		}
		fmt.Printf("\n  observed: %v\n", r.Summary)
		if len(meta.Violations) > 0 {
			fmt.Println("REPRODUCED:", meta.Violations[0].What)
			os.Exit(1)
		}
		fmt.Println("not reproduced: property holds on this schedule")
		return
	}
	exploreRealtime(meta, hx.Pick3(args.Tier, 200000, 1000000, 400000))
	var cases []string
	n := hx.Pick3(args.Tier, 1500, 40000, 20000)
	for i := 0; i < n; i++ {
		sc := genScenario(rng, meta)
		sc.Fine = i%3 == 2
		var strat func(int, []*sched.Thread, *sched.Thread) int
		switch i % 4 {
		case 0:
			sc.Strat, strat = "random", randomStrat(rng)
		case 1:
			sc.Strat, strat = "sticky", stickyStrat(rng, 15)
		default:
			sc.Strat, strat = "eager-shutdown", eagerShutdown(rng, rng.Intn(12))
		}
		meta.Count("strategy", sc.Strat)
		meta.Count("granularity", map[bool]string{true: "fine (all hooks)", false: "coarse (replayed in the model)"}[sc.Fine])
		r := run(sc, strat)
		check(sc, r, meta)
		meta.Evaluations++
		if len(cases) < hx.Pick3(args.Tier, 500, 5000, 0) {
			cases = append(cases, sc.coq(len(cases), r))
			cc := sc
			cc.Picks = r.Picks
			meta.CaseIndex[fmt.Sprint(len(cases)-1)] = map[string]interface{}{"scenario": cc, "observed": r.Summary}
		}
		// non-trivial: when the context was cancelled, was some accept loop not started / a channel not yet active / a Close racing
		nt := false
		seenCancel := false
		started := map[string]bool{}
		for _, st := range r.Trace {
			if st.Point == "b.cancel" {
				seenCancel = true
				for _, t2 := range r.Trace {
					_ = t2
				}
			}
			if !seenCancel {
				started[st.Name+"@"+st.Point] = true
			} else if st.Point == "l.listen" || st.Point == "r.active" || st.Point == "l.serve" || (strings.HasPrefix(st.Point, "l.close@") && st.Name != "shutdown") {
				nt = true
			}
		}
		if nt {
			var sb strings.Builder
			for _, st := range r.Trace {
				sb.WriteString(st.Name + "@" + st.Point + " ")
			}
			meta.Distinct(fmt.Sprint(sc.NL, sc.Listens, sc.LCloses, sc.Connects, sc.Dials, sc.Fine) + sb.String())
		}
		if i < 3 {
			var tr []string
			for _, st := range r.Trace {
				tr = append(tr, st.Name+"@"+st.Point)
			}
			meta.Sample(map[string]interface{}{"scenario": sc, "schedule": tr, "observed": r.Summary})
		}
	}
	if args.Out != "" && args.Out != os.DevNull {
		var sb strings.Builder
		sb.WriteString("From Coq Require Import List.\nFrom GN Require Import Model.Boot Model.BootCheck.\nImport ListNotations.\n")
		sb.WriteString("Definition cases : list bcase := [\n" + strings.Join(cases, ";\n") + "].\n")
		sb.WriteString("Definition R := Eval vm_compute in check_bcases cases.\nPrint R.\n")
		os.WriteFile(args.Out, []byte(sb.String()), 0o644)
	}
	meta.Cases = len(cases)
	meta.Write(args.Meta)
}

// h_pool: correspondence harness for C19 (buffer pools).
// Runs Get/Put histories on the real pbytes/pbuffer pools, records what the
// implementation did (returned capacity, identity of the buffer handed out),
// and writes them as Coq terms for the model comparison; also compares the
// translated arithmetic with the real pmath functions on boundary sweeps, and
// runs a concurrent ownership stress with a Go-side oracle.
package main

import (
	"bytes"
	"fmt"
	"os"
	"strings"
	"sync"
	"sync/atomic"

	"github.com/go-netty/go-netty/utils/pool"
	"github.com/go-netty/go-netty/utils/pool/pbuffer"
	"github.com/go-netty/go-netty/utils/pool/pbytes"
	"verifharness/hx"
)

type obs struct {
	Kind     string `json:"k"` // "get" | "put"
	Size     int    `json:"size,omitempty"`
	Hit      int    `json:"hit"` // id of the reused buffer, -1 = fresh
	Cap      int    `json:"cap"`
	Panicked bool   `json:"panicked,omitempty"`
	ID       int    `json:"id,omitempty"`
}

func (o obs) coq() string {
	if o.Kind == "get" {
		return fmt.Sprintf("PG %s %s %s %s", hx.Z(int64(o.Size)), hx.OptNat(o.Hit >= 0, o.Hit), hx.Z(int64(o.Cap)), hx.Bool(o.Panicked))
	}
	return fmt.Sprintf("PP %s %s", hx.Nat(o.ID), hx.Z(int64(o.Cap)))
}

// a pool under test, bytes or buffer flavour, behind one interface
type poolT interface {
	get(n int) (key interface{}, capacity int)
	put(key interface{})
	foreign(c int) interface{}
	grow(key interface{}, rng *hx.Rng) // pbuffer only: capacity may change between Get and Put
	capOf(key interface{}) int
}
type bytesPool struct{ p *pbytes.Pool }

func (b bytesPool) get(n int) (interface{}, int) { v := b.p.Get(n); return v, cap(*v) }
func (b bytesPool) put(k interface{})            { b.p.Put(k.(*[]byte)) }
func (b bytesPool) foreign(c int) interface{}    { s := make([]byte, 0, c); return &s }
func (b bytesPool) grow(interface{}, *hx.Rng)    {}
func (b bytesPool) capOf(k interface{}) int      { return cap(*(k.(*[]byte))) }

type bufPool struct{ p *pbuffer.Pool }

func (b bufPool) get(n int) (interface{}, int) { v := b.p.Get(n); return v, v.Cap() }
func (b bufPool) put(k interface{})            { b.p.Put(k.(*bytes.Buffer)) }
func (b bufPool) foreign(c int) interface{}    { return bytes.NewBuffer(make([]byte, 0, c)) }
func (b bufPool) grow(k interface{}, rng *hx.Rng) {
	buf := k.(*bytes.Buffer)
	buf.Write(make([]byte, buf.Cap()+1+rng.Intn(3000)))
}
func (b bufPool) capOf(k interface{}) int { return k.(*bytes.Buffer).Cap() }

// boundary values around every power of two and every shard boundary of a pool
func boundaries(step, shards int) []int {
	set := map[int]bool{0: true, 1: true, -1: true}
	for p := 1; p <= 1<<18; p <<= 1 {
		for d := -2; d <= 2; d++ {
			set[p+d] = true
		}
	}
	for k := 1; k <= shards+1 && k*step <= 1<<18; k++ {
		for d := -1; d <= 1; d++ {
			set[k*step+d] = true
		}
	}
	var out []int
	for v := range set {
		out = append(out, v)
	}
	// deterministic order
	for i := 0; i < len(out); i++ {
		for j := i + 1; j < len(out); j++ {
			if out[j] < out[i] {
				out[i], out[j] = out[j], out[i]
			}
		}
	}
	return out
}

func runHistory(rng *hx.Rng, meta *hx.Meta, flavour string, max, nops int, script []obs) (observations []obs, nontrivial bool) {
	var p poolT
	if flavour == "bytes" {
		p = bytesPool{pbytes.New(max)}
	} else {
		p = bufPool{pbuffer.New(max)}
	}
	shards, step, _ := pool.VerifGeom(max)
	bs := boundaries(step, shards)
	ids := map[interface{}]int{}
	next := 0
	var held []interface{}    // buffers the client owns (from Get or foreign), may Put
	putCount := map[int]int{} // id -> number of Puts
	hitCount := map[int]int{} // id -> number of times handed out after a Put
	idOf := func(k interface{}) int {
		if id, ok := ids[k]; ok {
			return id
		}
		ids[k] = next
		next++
		return ids[k]
	}
	doGet := func(n int) {
		o := obs{Kind: "get", Size: n, Hit: -1}
		func() {
			defer func() {
				if recover() != nil {
					o.Panicked = true
				}
			}()
			_, known := interface{}(nil), false
			k, c := p.get(n)
			o.Cap = c
			if id, ok := ids[k]; ok {
				known = true
				o.Hit = id
				hitCount[id]++
				nontrivial = true
			}
			_ = known
			idOf(k)
			held = append(held, k)
		}()
		meta.Count("get_size", hx.SizeBucket(n))
		if o.Hit >= 0 {
			meta.Count("get_result", "hit")
		} else if o.Panicked {
			meta.Count("get_result", "panic")
		} else {
			meta.Count("get_result", "fresh")
		}
		observations = append(observations, o)
		// Go-side oracle (the same predicate as Pool.obs_holds)
		if !o.Panicked && o.Cap < n {
			meta.Violate(hx.Violation{Property: "C19", What: fmt.Sprintf("Get(%d) on New(%d) %s pool returned cap %d", n, max, flavour, o.Cap),
				Signature: "get-cap-too-small", Replay: map[string]interface{}{"flavour": flavour, "max": max, "history": append([]obs{}, observations...)}})
		}
		if o.Panicked && n <= 1<<62 {
			meta.Violate(hx.Violation{Property: "C19", What: fmt.Sprintf("Get(%d) panicked", n), Signature: "get-panic",
				Replay: map[string]interface{}{"flavour": flavour, "max": max, "history": append([]obs{}, observations...)}})
		}
		if o.Hit >= 0 && hitCount[o.Hit] > putCount[o.Hit] {
			meta.Violate(hx.Violation{Property: "C19", What: fmt.Sprintf("buffer %d handed out %d times after %d Puts", o.Hit, hitCount[o.Hit], putCount[o.Hit]),
				Signature: "double-handout", Replay: map[string]interface{}{"flavour": flavour, "max": max, "history": append([]obs{}, observations...)}})
		}
	}
	doPut := func(k interface{}) {
		id := idOf(k)
		c := p.capOf(k)
		putCount[id]++
		observations = append(observations, obs{Kind: "put", ID: id, Cap: c})
		func() {
			defer func() {
				if e := recover(); e != nil {
					meta.Violate(hx.Violation{Property: "C19", What: fmt.Sprintf("Put of a buffer with capacity %d on New(%d) %s pool failed with a runtime fault: %v", c, max, flavour, e),
						Signature: "put-fault", Replay: map[string]interface{}{"flavour": flavour, "max": max, "history": append([]obs{}, observations...)}})
				}
			}()
			p.put(k)
		}()
		meta.Count("put_cap", hx.SizeBucket(c))
	}
	if script != nil { // replay mode: follow the recorded operations
		for _, o := range script {
			if o.Kind == "get" {
				doGet(o.Size)
			} else {
				doPut(p.foreign(o.Cap))
			}
		}
		return
	}
	for i := 0; i < nops; i++ {
		switch c := rng.Intn(100); {
		case c < 45:
			n := rng.Pick(bs)
			if rng.Chance(15) {
				n = rng.Intn(1 << 17)
			}
			if rng.Chance(1) {
				n = 1<<62 + 1 + rng.Intn(5) // panics by contract
			}
			doGet(n)
		case c < 70 && len(held) > 0: // give back a buffer we hold
			j := rng.Intn(len(held))
			k := held[j]
			held = append(held[:j], held[j+1:]...)
			if rng.Chance(30) {
				p.grow(k, rng)
			}
			doPut(k)
		default: // foreign buffer of an arbitrary capacity
			c := rng.Pick(bs)
			if c < 0 {
				c = 0
			}
			if rng.Chance(20) {
				c = rng.Intn(1 << 17)
			}
			if rng.Chance(8) {
				c = []int{0, 0, 1, 2}[rng.Intn(4)] // empty / tiny foreign buffers (&[]byte{}, new(bytes.Buffer))
			}
			doPut(p.foreign(c))
		}
	}
	return
}

type arith struct {
	Fn   string
	Arg  int
	Res  int
	Res2 int
	Pan  bool
}

func arithSweep(rng *hx.Rng, meta *hx.Meta, n int) []string {
	var args []int
	for k := 0; k < 63; k++ {
		p := 1 << uint(k)
		for d := -2; d <= 2; d++ {
			args = append(args, p+d)
		}
	}
	args = append(args, 0, -1, -5, int(^uint(0)>>1), -int(^uint(0)>>1)-1)
	for i := 0; i < n; i++ {
		args = append(args, int(rng.U64()>>uint(1+rng.Intn(62))))
	}
	var out []string
	for _, a := range args {
		c, pan := pool.VerifCeil(a)
		out = append(out, fmt.Sprintf("ACeil %s %s %s", hx.Z(int64(a)), hx.Z(int64(c)), hx.Bool(pan)))
		out = append(out, fmt.Sprintf("AFloor %s %s", hx.Z(int64(a)), hx.Z(int64(pool.VerifFloor(a)))))
		out = append(out, fmt.Sprintf("AIsPow2 %s %s", hx.Z(int64(a)), hx.Bool(pool.VerifIsPow2(a))))
		meta.Evaluations += 3
		// Go-side oracle for the ceiling law
		if a >= 1 && a <= 1<<62 && (pan || c < a || c >= 2*a && a > 0 && c != a || c&(c-1) != 0) {
			meta.Violate(hx.Violation{Property: "C19", What: fmt.Sprintf("CeilToPowerOfTwo(%d) = %d panicked=%v", a, c, pan), Signature: "ceil-law",
				Replay: map[string]interface{}{"fn": "ceil", "arg": a}})
		}
	}
	for _, m := range []int{1, 2, 3, 7, 8, 31, 32, 33, 63, 64, 65, 100, 127, 128, 129, 1000, 4096, 65535, 65536, 65537, 1 << 20, 1<<30 + 1, 1 << 40, 1 << 62} {
		sh, st, pan := pool.VerifGeom(m)
		out = append(out, fmt.Sprintf("AGeom %s %s %s %s", hx.Z(int64(m)), hx.Z(int64(sh)), hx.Z(int64(st)), hx.Bool(pan)))
		meta.Evaluations++
	}
	return out
}

// concurrent stress: G goroutines Get / scribble / verify / Put on shared
// pools; the oracle checks cap >= n and that no two goroutines ever own one
// buffer at the same time.
func stress(meta *hx.Meta, seed int64, goroutines, iters int) {
	p := pbytes.New(65536)
	var owners sync.Map // *[]byte -> *int32
	var bad int32
	var wg sync.WaitGroup
	var firstMsg atomic.Value
	for g := 0; g < goroutines; g++ {
		wg.Add(1)
		go func(g int) {
			defer wg.Done()
			rng := hx.NewRng(seed*131 + int64(g))
			for i := 0; i < iters; i++ {
				n := 1 + rng.Intn(70000)
				if rng.Chance(50) {
					n = (1 << uint(rng.Intn(17))) + rng.Intn(3) - 1
				}
				if n < 1 {
					n = 1
				}
				b := p.Get(n)
				if cap(*b) < n {
					atomic.AddInt32(&bad, 1)
					firstMsg.Store(fmt.Sprintf("concurrent Get(%d) returned cap %d", n, cap(*b)))
				}
				fl, _ := owners.LoadOrStore(b, new(int32))
				if !atomic.CompareAndSwapInt32(fl.(*int32), 0, 1) {
					atomic.AddInt32(&bad, 1)
					firstMsg.Store("buffer owned by two goroutines at once")
				}
				*b = (*b)[:cap(*b)]
				for j := 0; j < len(*b); j += 512 {
					(*b)[j] = byte(g)
				}
				atomic.StoreInt32(fl.(*int32), 0)
				if rng.Chance(20) { // foreign buffer of odd capacity
					f := make([]byte, 0, 1+rng.Intn(70000))
					p.Put(&f)
				}
				*b = (*b)[:0]
				p.Put(b)
			}
		}(g)
	}
	wg.Wait()
	meta.Evaluations += goroutines * iters
	meta.Count("stress", "goroutine-iterations="+fmt.Sprint(goroutines*iters))
	if bad > 0 {
		msg, _ := firstMsg.Load().(string)
		meta.Violate(hx.Violation{Property: "C19", What: msg, Signature: "concurrent", Replay: map[string]interface{}{"stress_seed": seed, "goroutines": goroutines, "iters": iters}})
	}
}

func main() {
	args := hx.ParseArgs()
	seed, tier, out, metaPath := &args.Seed, &args.Tier, &args.Out, &args.Meta
	rng := hx.NewRng(*seed)
	meta := hx.NewMeta("h_pool", *seed, *tier)
	if args.Replay != "" {
		var rp struct {
			Flavour string `json:"flavour"`
			Max     int    `json:"max"`
			History []obs  `json:"history"`
			Fn      string `json:"fn"`
			Arg     int    `json:"arg"`
		}
		if err := hx.LoadReplay(args.Replay, &rp); err != nil {
			fmt.Println("cannot load replay:", err)
			os.Exit(2)
		}
		if rp.Fn == "ceil" {
			c, pan := pool.VerifCeil(rp.Arg)
			fmt.Printf("CeilToPowerOfTwo(%d) = %d panicked=%v\n", rp.Arg, c, pan)
			arithSweep(rng, meta, 0)
		} else {
			o, _ := runHistory(rng, meta, rp.Flavour, rp.Max, 0, rp.History)
			for _, x := range o {
				fmt.Printf("%+v\n", x)
			}
		}
		if len(meta.Violations) > 0 {
			fmt.Println("REPRODUCED:", meta.Violations[0].What)
			os.Exit(1)
		}
		fmt.Println("not reproduced: property holds on this case")
		return
	}
	meta.Rule = "histories of Get/Put on New(max) pbytes/pbuffer pools with sizes and capacities at +-2 of every power of two and every shard boundary; a history is non-trivial when some Get was served a previously Put buffer; distinct = distinct (flavour,max,op list)"
	ncases, nops := hx.Pick3(*tier, 150, 2500, 6000), hx.Pick3(*tier, 40, 60, 60)
	maxes := []int{1, 2, 8, 32, 64, 100, 1000, 4096, 65536, 65536, 65536, 70000, 1 << 20}
	var cases []string
	// corpus first: the history that exposed the missing class check in Put
	corpus := [][]obs{{{Kind: "put", Cap: 1500}, {Kind: "get", Size: 2000}}, {{Kind: "put", Cap: 3000}, {Kind: "get", Size: 4096}},
		{{Kind: "put", Cap: 0}, {Kind: "get", Size: 1}}, {{Kind: "put", Cap: 0}, {Kind: "get", Size: 1024}}}
	cid := 0
	emit := func(flavour string, max int, o []obs) {
		xs := make([]string, len(o))
		for i := range o {
			xs[i] = o[i].coq()
		}
		cases = append(cases, fmt.Sprintf("(%s, %s, %s)", hx.Nat(cid), hx.Z(int64(max)), hx.List(xs)))
		meta.CaseIndex[fmt.Sprint(cid)] = map[string]interface{}{"flavour": flavour, "max": max, "history": o}
		cid++
	}
	for _, sc := range corpus {
		for _, fl := range []string{"bytes", "buffer"} {
			o, _ := runHistory(rng, meta, fl, 65536, 0, sc)
			emit(fl, 65536, o)
			meta.Evaluations++
		}
	}
	for i := 0; i < ncases; i++ {
		fl := "bytes"
		if i%3 == 2 {
			fl = "buffer"
		}
		max := maxes[rng.Intn(len(maxes))]
		o, nt := runHistory(rng, meta, fl, max, nops, nil)
		emit(fl, max, o)
		meta.Evaluations++
		meta.Count("pool", fmt.Sprintf("%s/max=%d", fl, max))
		if nt {
			xs := make([]string, len(o))
			for j := range o {
				xs[j] = o[j].coq()
			}
			meta.Distinct(fl + fmt.Sprint(max) + strings.Join(xs, ";"))
		}
		if i < 3 {
			meta.Sample(map[string]interface{}{"flavour": fl, "max": max, "history": o[:min(len(o), 12)]})
		}
	}
	meta.Cases = len(cases)
	ar := arithSweep(rng, meta, hx.Pick3(*tier, 300, 5000, 20000))
	stress(meta, *seed, 8, hx.Pick3(*tier, 2000, 50000, 50000))

	var sb strings.Builder
	sb.WriteString("From Coq Require Import ZArith List.\nFrom GN Require Import Model.Pool Model.PoolArithCheck.\nImport ListNotations.\nOpen Scope Z_scope.\n")
	sb.WriteString("Definition cases : list pool_case := [\n" + strings.Join(cases, ";\n") + "].\n")
	sb.WriteString("Definition acases : list acase := [\n" + strings.Join(ar, ";\n") + "].\n")
	sb.WriteString("Definition R := Eval vm_compute in check_pool_cases cases.\nPrint R.\n")
	sb.WriteString("Definition RA := Eval vm_compute in check_acases acases.\nPrint RA.\n")
	if err := os.WriteFile(*out, []byte(sb.String()), 0o644); err != nil {
		fmt.Fprintln(os.Stderr, err)
		os.Exit(2)
	}
	meta.Write(*metaPath)
}

func min(a, b int) int {
	if a < b {
		return a
	}
	return b
}

// h_race: stress programs for C12, built with the Go race detector.  Every
// group overlaps the operations the API offers for concurrent use (writes,
// Trigger, Close, IsActive, Context on one channel; Listen/Async/Close/
// Shutdown/Connect on a bootstrap with its holder; the idle handlers' timers;
// the buffer pools) with the framework's own goroutines running.  The parent
// process re-executes itself once per group with GORACE pointing at a log
// file and parses the detector's reports: a report whose stacks touch go-netty
// is a violation (its pair of source positions is the signature).
package main

import (
	"context"
	"errors"
	"fmt"
	"net"
	"os"
	"os/exec"
	"path/filepath"
	"regexp"
	"sort"
	"strings"
	"sync"
	"sync/atomic"
	"time"

	netty "github.com/go-netty/go-netty"
	"github.com/go-netty/go-netty/transport"
	"github.com/go-netty/go-netty/utils/pool/pbuffer"
	"github.com/go-netty/go-netty/utils/pool/pbytes"
	"verifharness/hx"
)

// ---- race-free mock transport layer ----
type addr string

func (a addr) Network() string { return "mock" }
func (a addr) String() string  { return string(a) }

var errClosed = errors.New("mock: closed")

type rtransport struct {
	closed  chan struct{}
	once    sync.Once
	written int64
	feed    chan []byte
	failAt  int64 // the failAt-th Writev fails (0: never): the sender goes idle with packets still queued
	writevs int64
	slow    bool // Writev takes a moment, so that writers pile up behind a full queue
}

func newTransport() *rtransport {
	return &rtransport{closed: make(chan struct{}), feed: make(chan []byte, 16)}
}
func (t *rtransport) Read(b []byte) (int, error) {
	select {
	case <-t.closed:
		return 0, errClosed
	case d := <-t.feed:
		return copy(b, d), nil
	}
}
func (t *rtransport) Write(b []byte) (int, error) {
	select {
	case <-t.closed:
		return 0, errClosed
	default:
	}
	atomic.AddInt64(&t.written, int64(len(b)))
	return len(b), nil
}
func (t *rtransport) Writev(bs transport.Buffers) (int64, error) {
	select {
	case <-t.closed:
		return 0, errClosed
	default:
	}
	if t.slow {
		time.Sleep(20 * time.Microsecond)
	}
	if k := atomic.AddInt64(&t.writevs, 1); t.failAt > 0 && k == t.failAt {
		return 0, errors.New("mock: write failed")
	}
	var n int64
	for _, b := range bs {
		n += int64(len(b))
	}
	atomic.AddInt64(&t.written, n)
	return n, nil
}
func (t *rtransport) Flush() error                     { return nil }
func (t *rtransport) Close() error                     { t.once.Do(func() { close(t.closed) }); return nil }
func (t *rtransport) LocalAddr() net.Addr              { return addr("l") }
func (t *rtransport) RemoteAddr() net.Addr             { return addr("r") }
func (t *rtransport) SetDeadline(time.Time) error      { return nil }
func (t *rtransport) SetReadDeadline(time.Time) error  { return nil }
func (t *rtransport) SetWriteDeadline(time.Time) error { return nil }
func (t *rtransport) RawTransport() interface{}        { return t }

type racceptor struct {
	conns  chan *rtransport
	closed chan struct{}
	once   sync.Once
}

func (a *racceptor) Accept() (transport.Transport, error) {
	select {
	case <-a.closed:
		return nil, errClosed
	case c := <-a.conns:
		return c, nil
	}
}
func (a *racceptor) Close() error { a.once.Do(func() { close(a.closed) }); return nil }

type rfactory struct {
	mu        sync.Mutex
	acceptors map[string]*racceptor
}

func (f *rfactory) Schemes() transport.Schemes { return transport.Schemes{"mock"} }
func (f *rfactory) Connect(o *transport.Options) (transport.Transport, error) {
	return newTransport(), nil
}
func (f *rfactory) Listen(o *transport.Options) (transport.Acceptor, error) {
	a := &racceptor{conns: make(chan *rtransport, 8), closed: make(chan struct{})}
	f.mu.Lock()
	f.acceptors[o.Address.Host] = a
	f.mu.Unlock()
	return a, nil
}
func (f *rfactory) dial(host string) {
	f.mu.Lock()
	a := f.acceptors[host]
	f.mu.Unlock()
	if a != nil {
		select {
		case a.conns <- newTransport():
		default:
		}
	}
}

// handler reading the transport like a codec, counting events with atomics
type rhandler struct{ reads, events, inact int64 }

func (h *rhandler) HandleRead(ctx netty.InboundContext, m netty.Message) {
	buf := make([]byte, 8)
	if _, err := m.(transport.Transport).Read(buf); err != nil {
		panic(err)
	}
	atomic.AddInt64(&h.reads, 1)
}
func (h *rhandler) HandleEvent(ctx netty.EventContext, ev netty.Event) { atomic.AddInt64(&h.events, 1) }
func (h *rhandler) HandleInactive(ctx netty.InactiveContext, ex netty.Exception) {
	atomic.AddInt64(&h.inact, 1)
	ctx.HandleInactive(ex)
}
func (h *rhandler) HandleException(ctx netty.ExceptionContext, ex netty.Exception) {}

func par(fns ...func()) {
	var wg sync.WaitGroup
	start := make(chan struct{})
	for _, f := range fns {
		f := f
		wg.Add(1)
		go func() {
			defer wg.Done()
			defer func() { recover() }()
			<-start
			f()
		}()
	}
	close(start)
	wg.Wait()
}

// ---- groups ----
func groupChannel(rng *hx.Rng, iters int, async bool) (ops map[string]int) {
	ops = map[string]int{}
	for it := 0; it < iters; it++ {
		pl := netty.NewPipeline()
		h := &rhandler{}
		pl.AddLast(h)
		tr := newTransport()
		var ch netty.Channel
		if async {
			if rng.Chance(40) {
				tr.failAt = int64(1 + rng.Intn(3))
				tr.slow = true
			}
			ch = netty.NewAsyncWriteChannel(1+rng.Intn(4), rng.Bool())(int64(it), context.Background(), pl, tr, netty.AsyncExecutor())
		} else {
			ch = netty.NewChannel()(int64(it), context.Background(), pl, tr, netty.AsyncExecutor())
		}
		pl.ServeChannel(ch)
		var fns []func()
		var names []string
		add := func(n string, f func()) { fns = append(fns, f); names = append(names, n) }
		nops := 2 + rng.Intn(4)
		if tr.failAt > 0 {
			nops += 3
			names = append(names, "failing-transport")
		}
		for k, n := 0, nops; k < n; k++ {
			switch rng.Intn(9) {
			case 0:
				add("Write", func() { ch.Write([]byte("abc")); ch.Write([]byte("def")) })
			case 1:
				add("Write1", func() { ch.Write1([]byte("abcd")) })
			case 2:
				add("Writev", func() { ch.Writev(net.Buffers{[]byte("a"), []byte("b")}) })
			case 3:
				add("CtxWrite1", func() { ch.CtxWrite1(context.Background(), []byte("xy")) })
			case 4:
				add("CtxWritev", func() { ch.CtxWritev(context.Background(), net.Buffers{[]byte("q")}) })
			case 5:
				add("Trigger", func() { ch.Trigger("ev") })
			case 6:
				add("Close", func() { ch.Close(errors.New("bye")) })
			case 7:
				add("IsActive", func() { _ = ch.IsActive(); _ = ch.Context().Err() })
			case 8:
				add("feed", func() {
					select {
					case tr.feed <- []byte("in"):
					default:
					}
				})
			}
		}
		sort.Strings(names)
		ops[strings.Join(names, "|")]++
		par(fns...)
		ch.Close(nil)
		deadline := time.Now().Add(2 * time.Second)
		for atomic.LoadInt64(&h.inact) == 0 && time.Now().Before(deadline) {
			time.Sleep(50 * time.Microsecond)
		}
	}
	return ops
}

func groupBootstrap(rng *hx.Rng, iters int) (ops map[string]int) {
	ops = map[string]int{}
	for it := 0; it < iters; it++ {
		f := &rfactory{acceptors: map[string]*racceptor{}}
		h := &rhandler{}
		init := func(ch netty.Channel) { ch.Pipeline().AddLast(h) }
		bs := netty.NewBootstrap(netty.WithTransport(f), netty.WithChildInitializer(init), netty.WithClientInitializer(init))
		var done sync.WaitGroup
		ls := make([]netty.Listener, 2)
		var lmu sync.Mutex
		var fns []func()
		var names []string
		add := func(n string, fn func()) { fns = append(fns, fn); names = append(names, n) }
		for l := 0; l < 2; l++ {
			l := l
			host := fmt.Sprintf("h%d:1", l)
			add("Listen.Async", func() {
				ln := bs.Listen("mock://" + host)
				lmu.Lock()
				ls[l] = ln
				lmu.Unlock()
				done.Add(1)
				ln.Async(func(error) { done.Done() })
			})
			if rng.Chance(50) {
				add("dial", func() { f.dial(host); f.dial(host) })
			}
			if rng.Chance(30) {
				// a second Sync/Async on the same listener is rejected ("duplicate call") while the first one accepts
				delay := time.Duration(rng.Intn(100)) * time.Microsecond
				add("Async-again", func() {
					var ln netty.Listener
					for spin := 0; spin < 20000 && ln == nil; spin++ {
						lmu.Lock()
						ln = ls[l]
						lmu.Unlock()
					}
					if ln != nil {
						time.Sleep(delay)
						done.Add(1)
						ln.Async(func(error) { done.Done() })
						f.dial(host)
					}
				})
			}
			if rng.Chance(40) {
				add("Listener.Close", func() {
					// as soon as the listener exists (the accept loop is starting right now)
					var ln netty.Listener
					for spin := 0; spin < 20000 && ln == nil; spin++ {
						lmu.Lock()
						ln = ls[l]
						lmu.Unlock()
					}
					if ln != nil {
						ln.Close()
					}
				})
			}
		}
		if rng.Chance(60) {
			alsoWrite := rng.Bool()
			add("Connect", func() {
				if ch, err := bs.Connect("mock://c:1"); err == nil && alsoWrite {
					ch.Write([]byte("hi"))
				}
			})
		}
		shutDelay := time.Duration(0)
		if rng.Chance(50) {
			shutDelay = time.Duration(rng.Intn(200)) * time.Microsecond
		}
		add("Shutdown", func() {
			time.Sleep(shutDelay)
			bs.Shutdown()
		})
		sort.Strings(names)
		ops[strings.Join(names, "|")]++
		par(fns...)
		bs.Shutdown()
		for _, ln := range ls {
			if ln != nil {
				ln.Close()
			}
		}
		waitTimeout(&done, 2*time.Second)
	}
	return ops
}

func waitTimeout(wg *sync.WaitGroup, d time.Duration) {
	c := make(chan struct{})
	go func() { wg.Wait(); close(c) }()
	select {
	case <-c:
	case <-time.After(d):
	}
}

func groupIdle(rng *hx.Rng, iters int) (ops map[string]int) {
	ops = map[string]int{}
	for it := 0; it < iters; it++ {
		pl := netty.NewPipeline()
		h := &rhandler{}
		idle := time.Duration(200+rng.Intn(800)) * time.Microsecond
		pl.AddLast(netty.VerifReadIdleHandler(idle), netty.VerifWriteIdleHandler(idle), h)
		tr := newTransport()
		ch := netty.NewAsyncWriteChannel(4, true)(int64(it), context.Background(), pl, tr, netty.AsyncExecutor())
		pl.ServeChannel(ch)
		var fns []func()
		var names []string
		add := func(n string, f func()) { fns = append(fns, f); names = append(names, n) }
		for k, n := 0, 2+rng.Intn(3); k < n; k++ {
			switch rng.Intn(4) {
			case 0:
				add("writes", func() {
					for i := 0; i < 5; i++ {
						ch.Write([]byte("w"))
						time.Sleep(idle / 3)
					}
				})
			case 1:
				add("reads", func() {
					for i := 0; i < 5; i++ {
						select {
						case tr.feed <- []byte("r"):
						default:
						}
						time.Sleep(idle / 3)
					}
				})
			case 2:
				add("idle-then-close", func() { time.Sleep(idle * 3); ch.Close(nil) })
			case 3:
				closeDelay := time.Duration(rng.Intn(int(idle)))
				add("close", func() { time.Sleep(closeDelay); ch.Close(errors.New("x")) })
			}
		}
		sort.Strings(names)
		ops[strings.Join(names, "|")]++
		par(fns...)
		time.Sleep(idle * 2)
		ch.Close(nil)
		time.Sleep(idle * 2)
	}
	return ops
}

func groupPools(rng *hx.Rng, iters int) (ops map[string]int) {
	ops = map[string]int{}
	for it := 0; it < iters; it++ {
		var fns []func()
		for k := 0; k < 4; k++ {
			sizes := []int{1, 64, 1000, 1024, 4096, 70000}
			sz := sizes[rng.Intn(len(sizes))]
			if k%2 == 0 {
				fns = append(fns, func() {
					for i := 0; i < 20; i++ {
						b := pbytes.Get(sz)
						(*b)[0] = 1
						pbytes.Put(b)
					}
				})
			} else {
				fns = append(fns, func() {
					for i := 0; i < 20; i++ {
						b := pbuffer.Get(sz)
						b.WriteByte(1)
						pbuffer.Put(b)
					}
				})
			}
		}
		ops["pbytes|pbuffer"]++
		par(fns...)
	}
	return ops
}

var groups = []string{"channel-async", "channel-sync", "bootstrap", "idle", "pools"}

func runGroup(name string, seed int64, iters int) map[string]int {
	rng := hx.NewRng(seed)
	switch name {
	case "channel-async":
		return groupChannel(rng, iters, true)
	case "channel-sync":
		return groupChannel(rng, iters, false)
	case "bootstrap":
		return groupBootstrap(rng, iters)
	case "idle":
		return groupIdle(rng, iters)
	case "pools":
		return groupPools(rng, iters)
	}
	return nil
}

// ---- report parsing ----
type report struct {
	Text  string
	Sites []string // go-netty frames (file:line function), first of each stack
}

var frameRe = regexp.MustCompile(`(?m)^  (\S+)\(\)\n\s+(\S+):(\d+)`)

func parseReports(txt string) []report {
	var out []report
	for _, blk := range strings.Split(txt, "==================") {
		if !strings.Contains(blk, "WARNING: DATA RACE") {
			continue
		}
		// the two access stacks come first (before "Goroutine ... created at")
		head := blk
		if i := strings.Index(blk, "Goroutine "); i >= 0 {
			head = blk[:i]
		}
		var sites []string
		for _, stack := range strings.Split(head, "\n\n") {
			for _, m := range frameRe.FindAllStringSubmatch(stack, -1) {
				fn, file, line := m[1], m[2], m[3]
				if strings.Contains(fn, "go-netty/go-netty") && !strings.Contains(file, "/verif/") {
					sites = append(sites, fmt.Sprintf("%s:%s %s", filepath.Base(file), line, fn[strings.LastIndex(fn, "/")+1:]))
					break
				}
			}
		}
		if len(sites) > 0 {
			sort.Strings(sites)
			out = append(out, report{Text: strings.TrimSpace(blk), Sites: sites})
		}
	}
	return out
}

func child() {
	name := os.Getenv("H_RACE_GROUP")
	var seed int64
	var iters int
	fmt.Sscan(os.Getenv("H_RACE_SEED"), &seed)
	fmt.Sscan(os.Getenv("H_RACE_ITERS"), &iters)
	ops := runGroup(name, seed, iters)
	var keys []string
	for k, n := range ops {
		keys = append(keys, fmt.Sprintf("%s\t%d", k, n))
	}
	sort.Strings(keys)
	fmt.Println(strings.Join(keys, "\n"))
}

func runChild(group string, seed int64, iters int) (ops map[string]int, reps []report, err error) {
	dir, _ := os.MkdirTemp("", "hrace")
	defer os.RemoveAll(dir)
	cmd := exec.Command(os.Args[0])
	cmd.Env = append(os.Environ(), "H_RACE_GROUP="+group, fmt.Sprint("H_RACE_SEED=", seed), fmt.Sprint("H_RACE_ITERS=", iters),
		"GORACE=log_path="+filepath.Join(dir, "race")+" halt_on_error=0 exitcode=0")
	out, e := cmd.Output()
	if e != nil {
		return nil, nil, fmt.Errorf("%s: %v", group, e)
	}
	ops = map[string]int{}
	for _, l := range strings.Split(strings.TrimSpace(string(out)), "\n") {
		var n int
		if i := strings.LastIndex(l, "\t"); i > 0 {
			fmt.Sscan(l[i+1:], &n)
			ops[l[:i]] = n
		}
	}
	files, _ := filepath.Glob(filepath.Join(dir, "race*"))
	for _, f := range files {
		b, _ := os.ReadFile(f)
		reps = append(reps, parseReports(string(b))...)
	}
	return ops, reps, nil
}

func main() {
	if os.Getenv("H_RACE_GROUP") != "" {
		child()
		return
	}
	args := hx.ParseArgs()
	meta := hx.NewMeta("h_race", args.Seed, args.Tier)
	meta.Rule = "stress programs built with the race detector (-race), real goroutines, no scheduler: per iteration 2-5 randomly chosen API operations start together on one channel (async with queue 1-4 / sync; Write, Write1, Writev, CtxWrite1, CtxWritev, Trigger, Close, IsActive+Context, inbound data) or one bootstrap (2 listeners with Listen().Async(), incoming connections, Listener.Close, Connect, Shutdown), idle handlers with 0.2-1ms periods under reads/writes/close, and the byte/buffer pools; an evaluation = one iteration; non-trivial = distinct operation sets overlapped; a detector report whose stacks touch go-netty is a violation"
	iters := hx.Pick3(args.Tier, 250, 6000, 3000)
	gs := groups
	if args.Replay != "" {
		var rp struct {
			Group string `json:"group"`
			Seed  int64  `json:"seed"`
			Pair  string `json:"pair"`
		}
		if err := hx.LoadReplay(args.Replay, &rp); err != nil {
			fmt.Println("cannot load replay:", err)
			os.Exit(2)
		}
		for round := int64(0); round < 6; round++ {
			_, reps, err := runChild(rp.Group, rp.Seed+round, 3000)
			if err != nil {
				fmt.Println(err)
				os.Exit(2)
			}
			for _, r := range reps {
				if strings.Join(r.Sites, " <-> ") == rp.Pair {
					fmt.Println(r.Text)
					fmt.Println("REPRODUCED: data race", rp.Pair)
					os.Exit(1)
				}
			}
		}
		fmt.Println("not reproduced: no report on", rp.Pair)
		return
	}
	type res struct {
		g    string
		ops  map[string]int
		reps []report
		err  error
	}
	ch := make(chan res, len(gs))
	for i, g := range gs {
		g, i := g, i
		go func() {
			n := iters
			if g == "idle" {
				n = iters / 4
			}
			ops, reps, err := runChild(g, args.Seed*31+int64(i), n)
			ch <- res{g, ops, reps, err}
		}()
	}
	for range gs {
		r := <-ch
		if r.err != nil {
			fmt.Println("harness failure:", r.err)
			os.Exit(2)
		}
		for k, n := range r.ops {
			meta.Evaluations += n
			meta.Distinct(r.g + ":" + k)
			meta.Count(r.g+" operation sets", fmt.Sprint(len(strings.Split(k, "|")), " ops"))
		}
		seen := map[string]bool{}
		for _, rep := range r.reps {
			pair := strings.Join(rep.Sites, " <-> ")
			if seen[pair] {
				continue
			}
			seen[pair] = true
			meta.Violate(hx.Violation{Property: "C12", Signature: "race " + pair, What: "data race reported by the Go race detector in group " + r.g + ": " + pair,
				Replay: map[string]interface{}{"group": r.g, "seed": args.Seed*31 + int64(indexOf(gs, r.g)), "pair": pair, "report": rep.Text}})
		}
	}
	meta.Sample(map[string]interface{}{"groups": gs, "iterations_per_group": iters})
	if args.Out != "" && args.Out != os.DevNull {
		os.WriteFile(args.Out, []byte("From Coq Require Import List.\nImport ListNotations.\nDefinition R : list nat := [].\nPrint R.\n"), 0o644)
	}
	meta.Write(args.Meta)
}

func indexOf(xs []string, x string) int {
	for i, y := range xs {
		if y == x {
			return i
		}
	}
	return 0
}

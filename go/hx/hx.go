// Package hx holds what every correspondence harness shares: one seeded PRNG,
// emitters for Coq terms, and the meta/evidence record a harness hands back
// to bin/check.
package hx

import (
	"encoding/json"
	"flag"
	"fmt"
	"os"
	"sort"
	"strings"
)

// Rng is splitmix64: every random choice of a harness derives from one state.
type Rng struct{ s uint64 }

func NewRng(seed int64) *Rng { return &Rng{uint64(seed)*0x9E3779B97F4A7C15 + 0x1234567} }
func (r *Rng) U64() uint64 {
	r.s += 0x9E3779B97F4A7C15
	z := r.s
	z = (z ^ (z >> 30)) * 0xBF58476D1CE4E5B9
	z = (z ^ (z >> 27)) * 0x94D049BB133111EB
	return z ^ (z >> 31)
}
func (r *Rng) Intn(n int) int {
	if n <= 0 {
		return 0
	}
	return int(r.U64() % uint64(n))
}
func (r *Rng) Bool() bool        { return r.U64()&1 == 1 }
func (r *Rng) Chance(p int) bool { return r.Intn(100) < p }
func (r *Rng) Pick(xs []int) int { return xs[r.Intn(len(xs))] }
func (r *Rng) Bytes(n int) []byte {
	b := make([]byte, n)
	for i := range b {
		b[i] = byte(r.U64())
	}
	return b
}

// ---- Coq term emitters ----
func Z(n int64) string {
	if n < 0 {
		return fmt.Sprintf("(%d)", n)
	}
	return fmt.Sprintf("%d", n)
}
func Nat(n int) string { return fmt.Sprintf("%d%%nat", n) }
func Bool(b bool) string {
	if b {
		return "true"
	}
	return "false"
}
func OptNat(ok bool, n int) string {
	if !ok {
		return "None"
	}
	return "(Some " + Nat(n) + ")"
}
func List(xs []string) string { return "[" + strings.Join(xs, "; ") + "]" }

// BytesN renders a byte string as a list of N literals.
func BytesN(b []byte) string {
	xs := make([]string, len(b))
	for i, c := range b {
		xs[i] = fmt.Sprintf("%d", c)
	}
	return "([" + strings.Join(xs, ";") + "])%N"
}

// ---- meta ----

// Violation is a property failure observed directly on the implementation by
// a harness-side oracle; Replay is everything needed to reproduce it.
type Violation struct {
	Property  string      `json:"property"`
	What      string      `json:"what"`
	Signature string      `json:"signature"` // matched against KNOWN_FINDINGS.json
	Replay    interface{} `json:"replay"`
}

type Meta struct {
	Harness     string                    `json:"harness"`
	Seed        int64                     `json:"seed"`
	Tier        string                    `json:"tier"`
	Cases       int                       `json:"cases"`       // cases written for the model comparison
	Evaluations int                       `json:"evaluations"` // all executions on the implementation
	Nontrivial  int                       `json:"nontrivial"`  // distinct & non-trivial by Rule
	Rule        string                    `json:"rule"`
	Dist        map[string]map[string]int `json:"distribution"` // histograms of the generated inputs
	Samples     []interface{}             `json:"samples"`
	Violations  []Violation               `json:"violations"`
	CaseIndex   map[string]interface{}    `json:"case_index"` // case id -> replay data (for correspondence breaks)
	Notes       []string                  `json:"notes"`
	distinct    map[string]bool
}

func NewMeta(h string, seed int64, tier string) *Meta {
	return &Meta{Harness: h, Seed: seed, Tier: tier, Dist: map[string]map[string]int{},
		CaseIndex: map[string]interface{}{}, distinct: map[string]bool{}}
}
func (m *Meta) Count(hist, key string) {
	if m.Dist[hist] == nil {
		m.Dist[hist] = map[string]int{}
	}
	m.Dist[hist][key]++
}

// Distinct records a canonical non-trivial case; duplicates are not counted twice.
func (m *Meta) Distinct(canon string) {
	if !m.distinct[canon] {
		m.distinct[canon] = true
		m.Nontrivial++
	}
}
func (m *Meta) Sample(x interface{}) {
	if len(m.Samples) < 6 {
		m.Samples = append(m.Samples, x)
	}
}
func (m *Meta) Violate(v Violation) {
	n := 0
	for _, x := range m.Violations {
		if x.Signature == v.Signature && x.Property == v.Property {
			n++
		}
	}
	if n < 5 {
		m.Violations = append(m.Violations, v)
	}
}
func (m *Meta) Write(path string) {
	b, _ := json.MarshalIndent(m, "", " ")
	if err := os.WriteFile(path, b, 0o644); err != nil {
		fmt.Fprintln(os.Stderr, "meta write:", err)
		os.Exit(2)
	}
}

// SizeBucket names a size by the boundary it sits at (for histograms).
func SizeBucket(n int) string {
	switch {
	case n < 0:
		return "neg"
	case n == 0:
		return "0"
	case n < 16:
		return "1-15"
	case n < 1024:
		return "16-1023"
	case n == 1024:
		return "1024"
	case n < 65536:
		return "1025-65535"
	case n == 65536:
		return "65536"
	default:
		return ">65536"
	}
}

func SortedKeys(m map[string]int) []string {
	var ks []string
	for k := range m {
		ks = append(ks, k)
	}
	sort.Strings(ks)
	return ks
}

// Args are the flags every harness accepts (bin/check passes them all).
type Args struct {
	Seed   int64
	Tier   string // quick | thorough | search (oracle-only enlarged budget)
	Prop   string
	Out    string
	Meta   string
	Replay string
}

func ParseArgs() Args {
	var a Args
	flag.Int64Var(&a.Seed, "seed", 1, "PRNG seed (VERIF_SEED)")
	flag.StringVar(&a.Tier, "tier", "quick", "quick|thorough|search")
	flag.StringVar(&a.Prop, "prop", "", "property id")
	flag.StringVar(&a.Out, "out", "", "cases .v file to write")
	flag.StringVar(&a.Meta, "meta", "", "meta json to write")
	flag.StringVar(&a.Replay, "replay", "", "replay file: run that one case on the implementation")
	flag.Parse()
	return a
}

// LoadReplay returns the "replay" member of a replay file written by bin/check.
func LoadReplay(path string, into interface{}) error {
	b, err := os.ReadFile(path)
	if err != nil {
		return err
	}
	var outer struct {
		Replay json.RawMessage `json:"replay"`
	}
	if err := json.Unmarshal(b, &outer); err != nil {
		return err
	}
	return json.Unmarshal(outer.Replay, into)
}

// Pick3 returns the value for the tier.
func Pick3(tier string, quick, thorough, search int) int {
	switch tier {
	case "thorough":
		return thorough
	case "search":
		return search
	}
	return quick
}

package hx

import "os"

// KeepStderr holds the process's original stderr file while a harness points os.Stderr at /dev/null (the library logs
// unhandled exceptions there): without a live reference its finalizer would close fd 2, and a crash of the harness
// itself would leave no trace.
var KeepStderr *os.File
